(* Leaf/GTime.v — executable model of the conversions of
   skeletons/GeneralizedTime.c and skeletons/UTCTime.c:
     asn_time2GT  asn_time2GT_frac  asn_GT2time  asn_GT2time_frac  asn_GT2time_prec
     asn_time2UT  asn_UT2time
   on byte lists, over the libc model of Leaf/CivilTime.v (HAVE_TM_GMTOFF build:
   GMTOFF(tm) = tm.tm_gmtoff).  The struct tm written to *ret_tm is not
   modelled; NULL arguments and allocation failure are not modelled.
   No proofs in this file. *)
From Coq Require Import ZArith List Bool.
From A1 Require Import Base.Bytes Leaf.Decimal Leaf.CivilTime.
Import ListNotations.
Local Open Scope Z_scope.

Definition int_max_div10 : Z := 214748364.      (* INT_MAX / 10 *)

(* ------------------------------------------------------------------ *)
(* asn_time2GT_frac *)

(* do { digit = frac_value / fbase; if(digit > 9) { z = 0; break; }
        *z++ = digit + 0x30; frac_value %= fbase; fbase /= 10;
   } while(fbase > 0 && frac_value > 0 && z < end);
   [nz] digits written so far, [racc] the digits written, last first;
   None = "z = 0".  At most 9 digits fit before z reaches end. *)
Fixpoint frac_loop (fuel : nat) (fv fbase nz : Z) (racc : list Z) : option (list Z) :=
  match fuel with
  | O => Some racc
  | S k =>
      let digit := fv / fbase in
      if 9 <? digit then None
      else
        let racc' := (digit + 48) :: racc in
        let fv' := fv mod fbase in
        let fbase' := fbase / 10 in
        if (0 <? fbase') && (0 <? fv') && (nz + 1 <? 9) then frac_loop k fv' fbase' (nz + 1) racc'
        else Some racc'
  end.

(* for(--z; *z == 0x30; --z); on the digits, last first *)
Fixpoint strip_zeros (racc : list Z) : list Z :=
  match racc with
  | 48 :: tl => strip_zeros tl
  | _ => racc
  end.

(* the ".fff" part (empty when no digit survives or the value does not fit) *)
Definition frac_text (frac_value frac_digits : Z) : list Z :=
  if (0 <? frac_value) && (0 <? frac_digits) then
    (* while(frac_digits-- > 9) frac_value /= 10; *)
    let fv := frac_value / 10 ^ (Z.max 0 (frac_digits - 9)) in
    (* for(fbase = 1; frac_digits--;) fbase *= 10;   with frac_digits = min(fd,9) - 1 *)
    let fbase := 10 ^ (Z.min frac_digits 9 - 1) in
    match frac_loop 10 fv fbase 0 [] with
    | None => []
    | Some racc =>
        match strip_zeros racc with
        | [] => []                       (* z stops on the '.', which is dropped *)
        | r => 46 :: rev r
        end
    end
  else [].

Definition time2GT_frac (tm0 : tm) (frac_value frac_digits : Z) (force_gmt : bool)
  : option (list Z) :=
  let gmtoff := tm_gmtoff tm0 in
  let tm1 := if force_gmt && negb (gmtoff =? 0)
             then snd (timegm (set_sec tm0 (tm_sec tm0 - gmtoff)))   (* "Fix the time" *)
             else tm0 in
  let body := fmt_d 4 (tm_year tm1 + 1900) ++ fmt_d 2 (tm_mon tm1 + 1) ++ fmt_d 2 (tm_mday tm1)
              ++ fmt_d 2 (tm_hour tm1) ++ fmt_d 2 (tm_min tm1) ++ fmt_d 2 (tm_sec tm1) in
  if negb (zlen body =? 14) then None
  else
    let p := body ++ frac_text frac_value frac_digits in
    if force_gmt then Some (p ++ [90])
    else
      (* gmtoff %= 86400; snprintf("%+03ld%02ld", gmtoff / 3600, labs(gmtoff % 3600) / 60) *)
      let g := Z.rem gmtoff 86400 in
      let h := Z.quot g 3600 in
      let m := Z.abs (Z.rem g 3600) / 60 in
      let suffix := (if h <? 0 then 45 else 43) :: fmt_d 2 (Z.abs h) ++ fmt_d 2 m in
      if negb (zlen suffix =? 5) then None else Some (p ++ suffix).

Definition time2GT (tm0 : tm) (force_gmt : bool) := time2GT_frac tm0 0 0 force_gmt.

(* asn_time2UT: the GeneralizedTime without its first two characters *)
Definition time2UT (tm0 : tm) (force_gmt : bool) : option (list Z) :=
  match time2GT tm0 force_gmt with
  | None => None
  | Some bs => Some (skipn 2 bs)
  end.

(* ------------------------------------------------------------------ *)
(* asn_GT2time_frac.  GtOk t fvalue fdigits, or -1/EINVAL.  [GtOob] would be a
   read past the end of the buffer (no input reaches it: GTimeProofs.gt_no_oob). *)
Inductive gtres := GtOk (t fv fd : Z) | GtFail | GtOob.

Definition is_dig (ch : Z) : bool := (48 <=? ch) && (ch <=? 57).

(* k times B2F(var) *)
Inductive b2f_res := B2Ok (var : Z) (rest : list Z) | B2Bad | B2Oob.
Fixpoint b2f (k : nat) (var : Z) (bs : list Z) : b2f_res :=
  match k with
  | O => B2Ok var bs
  | S k' =>
      match bs with
      | [] => B2Oob
      | ch :: tl => if is_dig ch then b2f k' (var * 10 + (ch - 48)) tl else B2Bad
      end
  end.

(* fractions of seconds: digits are accumulated while fvalue < INT_MAX/10,
   further digits are skipped; stops at the first non-digit *)
Fixpoint frac_digits_loop (bs : list Z) (fvalue fdigits : Z) : Z * Z * list Z :=
  match bs with
  | [] => (fvalue, fdigits, [])
  | v :: tl =>
      if is_dig v then
        if fvalue <? int_max_div10
        then frac_digits_loop tl (fvalue * 10 + (v - 48)) (fdigits + 1)
        else frac_digits_loop tl fvalue fdigits
      else (fvalue, fdigits, bs)
  end.

Record gtfields := mkGtf { g_year : Z; g_mon : Z; g_mday : Z; g_hour : Z; g_min : Z; g_sec : Z;
                           g_fv : Z; g_fd : Z }.

(* local_finish / utc_finish: validation, canonicalisation, timegm or mktime.
   [gmtoff] = seconds east given in the text (0 for Z and for local time). *)
Definition gt_finish (f : gtfields) (gmtoff : Z) (offset_specified : bool) (lgmtoff : Z) : gtres :=
  if (12 <? g_mon f) || (g_mon f <? 1) || (31 <? g_mday f) || (g_mday f <? 1)
     || (23 <? g_hour f) || (60 <? g_sec f)
  then GtFail
  else
    let tm_s := mkTm (g_sec f - gmtoff) (g_min f) (g_hour f) (g_mday f) (g_mon f - 1)
                     (g_year f - 1900) 0 in
    let tloc := if offset_specified then fst (timegm tm_s) else mktime tm_s lgmtoff in
    if tloc =? -1 then GtFail else GtOk tloc (g_fv f) (g_fd f).

(* offset: buf points at the '+' or '-' *)
Definition gt_offset (f : gtfields) (bs : list Z) (lgmtoff : Z) : gtres :=
  match bs with
  | [] => GtOob
  | sgn :: tl =>
      if zlen bs <? 3 then GtFail
      else
        match b2f 2 0 tl with
        | B2Bad => GtFail
        | B2Oob => GtOob
        | B2Ok h rest =>
            let sign := if sgn =? 45 then -1 else 1 in
            if zlen rest =? 2 then
              match b2f 2 0 rest with
              | B2Bad => GtFail
              | B2Oob => GtOob
              | B2Ok m _ => gt_finish f (sign * (3600 * h + 60 * m)) true lgmtoff
              end
            else
              match rest with
              | [] => gt_finish f (sign * (3600 * h)) true lgmtoff
              | _ => GtFail
              end
        end
  end.

(* the final switch: after the optional fraction *)
Definition gt_tail (f : gtfields) (bs : list Z) (lgmtoff : Z) : gtres :=
  match bs with
  | [] => gt_finish f 0 false lgmtoff
  | c :: _ =>
      if (c =? 43) || (c =? 45) then gt_offset f bs lgmtoff
      else if c =? 90 then gt_finish f 0 true lgmtoff
      else GtFail
  end.

Definition set_frac (f : gtfields) (fv fd : Z) : gtfields :=
  mkGtf (g_year f) (g_mon f) (g_mday f) (g_hour f) (g_min f) (g_sec f) fv fd.
Definition set_min (f : gtfields) (v : Z) : gtfields :=
  mkGtf (g_year f) (g_mon f) (g_mday f) (g_hour f) v (g_sec f) (g_fv f) (g_fd f).
Definition set_gsec (f : gtfields) (v : Z) : gtfields :=
  mkGtf (g_year f) (g_mon f) (g_mday f) (g_hour f) (g_min f) v (g_fv f) (g_fd f).

(* [(.|,)ffff] *)
Definition gt_frac (f : gtfields) (bs : list Z) (lgmtoff : Z) : gtres :=
  match bs with
  | [] => gt_finish f 0 false lgmtoff
  | c :: tl =>
      if (c =? 44) || (c =? 46) then
        let '(fv, fd, rest) := frac_digits_loop tl 0 0 in
        gt_tail (set_frac f fv fd) rest lgmtoff
      else gt_tail f bs lgmtoff
  end.

(* one optional two-digit field (minutes, then seconds): [set] stores it,
   [next] continues after it *)
Definition gt_two (f : gtfields) (bs : list Z) (lgmtoff : Z)
           (set : gtfields -> Z -> gtfields)
           (next : gtfields -> list Z -> gtres) : gtres :=
  match bs with
  | [] => gt_finish f 0 false lgmtoff
  | c :: tl =>
      if is_dig c then
        match tl with
        | [] => GtFail                                   (* if(buf == end) EINVAL *)
        | _ =>
            match b2f 1 (c - 48) tl with
            | B2Bad => GtFail
            | B2Oob => GtOob
            | B2Ok v rest => next (set f v) rest
            end
        end
      else if (c =? 43) || (c =? 45) then gt_offset f bs lgmtoff
      else if c =? 90 then gt_finish f 0 true lgmtoff
      else GtFail
  end.

Definition GT2time_frac (bs : list Z) (lgmtoff : Z) : gtres :=
  if zlen bs <? 10 then GtFail
  else
    match b2f 4 0 bs with
    | B2Bad => GtFail | B2Oob => GtOob
    | B2Ok year r1 =>
    match b2f 2 0 r1 with
    | B2Bad => GtFail | B2Oob => GtOob
    | B2Ok mon r2 =>
    match b2f 2 0 r2 with
    | B2Bad => GtFail | B2Oob => GtOob
    | B2Ok mday r3 =>
    match b2f 2 0 r3 with
    | B2Bad => GtFail | B2Oob => GtOob
    | B2Ok hour r4 =>
        let f := mkGtf year mon mday hour 0 0 0 0 in
        gt_two f r4 lgmtoff set_min
          (fun f5 r5 => gt_two f5 r5 lgmtoff set_gsec
                          (fun f6 r6 => gt_frac f6 r6 lgmtoff))
    end end end end.

(* asn_GT2time: the fraction is not reported *)
Definition GT2time (bs : list Z) (lgmtoff : Z) : gtres :=
  match GT2time_frac bs lgmtoff with
  | GtOk t _ _ => GtOk t 0 0
  | r => r
  end.

(* asn_GT2time_prec: the fraction scaled to [frac_digits] digits *)
Fixpoint prec_up (n : nat) (fv : Z) : Z :=
  match n with
  | O => fv
  | S k => if fv <? int_max_div10 then prec_up k (fv * 10) else 0
  end.

Definition GT2time_prec (bs : list Z) (frac_digits lgmtoff : Z) : gtres :=
  match GT2time_frac bs lgmtoff with
  | GtOk t fv fd =>
      if (fd =? 0) || (frac_digits <=? 0) then GtOk t 0 frac_digits
      else if frac_digits <? fd then GtOk t (fv / 10 ^ (fd - frac_digits)) frac_digits
      else GtOk t (prec_up (Z.to_nat (frac_digits - fd)) fv) frac_digits
  | r => r
  end.

(* asn_UT2time: "19" or "20" in front, by the first character *)
Definition UT2time (bs : list Z) (lgmtoff : Z) : gtres :=
  if (zlen bs <? 11) || (22 <=? zlen bs) then GtFail
  else
    let pre := if 53 <? hd 0 bs then [49; 57] else [50; 48] in
    GT2time (pre ++ bs) lgmtoff.
