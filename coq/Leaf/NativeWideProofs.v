(* Leaf/NativeWideProofs.v — theorems about Leaf/NativeWide.v (C13, leaf part):
   the native and the wide representation of one abstract integer reach the
   same bytes; where they part is refuted with witnesses. *)
From Coq Require Import ZArith List Lia Bool ZifyBool.
From A1 Require Import Base.Bytes Leaf.IntegerConv Leaf.IntegerConvProofs Leaf.NativeWide.
Import ListNotations.
Local Open Scope Z_scope.

(* ---------------- the DER strip loop is the conversion helpers' strip loop ---------------- *)

Lemma der_strip_cons2 b b1 tl :
  der_strip (b :: b1 :: tl) =
  if b =? 0 then (if b1 <? 128 then der_strip (b1 :: tl) else b :: b1 :: tl)
  else if b =? 255 then (if 128 <=? b1 then der_strip (b1 :: tl) else b :: b1 :: tl)
  else b :: b1 :: tl.
Proof. reflexivity. Qed.

Lemma der_strip_is_strip bs : der_strip bs = strip bs.
Proof.
  induction bs as [|b tl IH]; [reflexivity|].
  destruct tl as [|b1 tl']; [reflexivity|].
  rewrite der_strip_cons2, strip_cons2, IH.
  destruct (b =? 0) eqn:E0; destruct (b1 <? 128) eqn:E1; cbn [andb]; try reflexivity;
    destruct (b =? 255) eqn:E2; destruct (128 <=? b1) eqn:E3; cbn [andb]; try reflexivity; lia.
Qed.

(* ---------------- minimal two's complement forms are unique ---------------- *)

Lemma twos_value_range bs :
  bytes_ok bs -> bs <> [] ->
  - (128 * 256 ^ (zlen bs - 1)) <= twos_value bs < 128 * 256 ^ (zlen bs - 1).
Proof.
  intros Hok Hne. destruct bs as [|b tl]; [congruence|].
  pose proof (bytes_ok_inv _ _ Hok) as [Hb Htl].
  pose proof (be_val_bound tl Htl) as Hv. pose proof (zlen_pos_pow tl) as HP.
  rewrite twos_value_cons, zlen_cons. replace (zlen tl + 1 - 1) with (zlen tl) by lia.
  set (P := 256 ^ zlen tl) in *. set (V := be_val tl) in *. unfold sbyte.
  destruct (128 <=? b) eqn:E; nia.
Qed.

Lemma be_val_inj bs1 : forall bs2,
  length bs1 = length bs2 -> bytes_ok bs1 -> bytes_ok bs2 -> be_val bs1 = be_val bs2 -> bs1 = bs2.
Proof.
  induction bs1 as [|a t1 IH]; intros [|c t2] Hl H1 H2 Hv; try discriminate; [reflexivity|].
  pose proof (bytes_ok_inv _ _ H1) as [Ha Ht1]. pose proof (bytes_ok_inv _ _ H2) as [Hc Ht2].
  cbn [length] in Hl. injection Hl as Hl.
  cbn [be_val] in Hv.
  assert (Hz : zlen t1 = zlen t2) by (unfold zlen; lia).
  rewrite Hz in Hv.
  pose proof (be_val_bound t1 Ht1) as B1. pose proof (be_val_bound t2 Ht2) as B2.
  rewrite Hz in B1. pose proof (zlen_pos_pow t2) as HP.
  set (P := 256 ^ zlen t2) in *. set (V1 := be_val t1) in *. set (V2 := be_val t2) in *.
  assert (a = c) by nia. subst c.
  assert (V1 = V2) by nia.
  f_equal. apply IH; assumption.
Qed.

Lemma minimal_length_le bs1 bs2 :
  bytes_ok bs1 -> bytes_ok bs2 -> bs1 <> [] ->
  minimal_twos bs2 = true -> twos_value bs1 = twos_value bs2 -> zlen bs2 <= zlen bs1.
Proof.
  intros H1 H2 Hne1 Hm2 Hv.
  destruct (Z_le_gt_dec (zlen bs2) (zlen bs1)) as [Hle|Hgt]; [exact Hle|exfalso].
  pose proof (twos_value_range bs1 H1 Hne1) as R1.
  destruct bs1 as [|a1 t1]; [congruence|].
  rewrite zlen_cons in *. replace (zlen t1 + 1 - 1) with (zlen t1) in R1 by lia.
  pose proof (zlen_nonneg t1) as Hn1.
  destruct bs2 as [|b [|b1 tl]]; [discriminate| |].
  - unfold zlen in Hgt. cbn in Hgt. lia.
  - rewrite !zlen_cons in Hgt.
    assert (Hmono : 256 ^ zlen t1 <= 256 ^ zlen tl) by (apply Z.pow_le_mono_r; lia).
    destruct (minimal_big b b1 tl H2 Hm2) as [Hbig|Hbig]; lia.
Qed.

(* two minimal forms of the same value are the same octets
   (the same lemma is proved in coq/Rt/CanonicalProofs.v for C06) *)
Theorem minimal_twos_unique_nw bs1 bs2 :
  bytes_ok bs1 -> bytes_ok bs2 ->
  minimal_twos bs1 = true -> minimal_twos bs2 = true ->
  twos_value bs1 = twos_value bs2 -> bs1 = bs2.
Proof.
  intros H1 H2 Hm1 Hm2 Hv.
  assert (Hne1 : bs1 <> []) by (intro; subst; discriminate).
  assert (Hne2 : bs2 <> []) by (intro; subst; discriminate).
  pose proof (minimal_length_le bs1 bs2 H1 H2 Hne1 Hm2 Hv) as L1.
  pose proof (minimal_length_le bs2 bs1 H2 H1 Hne2 Hm1 (eq_sym Hv)) as L2.
  assert (Hlen : length bs1 = length bs2) by (unfold zlen in *; lia).
  destruct bs1 as [|a t1]; [congruence|]. destruct bs2 as [|c t2]; [congruence|].
  pose proof (bytes_ok_inv _ _ H1) as [Ha Ht1]. pose proof (bytes_ok_inv _ _ H2) as [Hc Ht2].
  cbn [length] in Hlen. injection Hlen as Hlen.
  rewrite !twos_value_cons in Hv.
  assert (Hz : zlen t1 = zlen t2) by (unfold zlen; lia).
  rewrite Hz in Hv.
  pose proof (be_val_bound t1 Ht1) as B1. pose proof (be_val_bound t2 Ht2) as B2.
  rewrite Hz in B1. pose proof (zlen_pos_pow t2) as HP.
  set (P := 256 ^ zlen t2) in *. set (V1 := be_val t1) in *. set (V2 := be_val t2) in *.
  assert (Hs : sbyte a = sbyte c) by nia.
  assert (a = c) by (unfold sbyte in Hs; destruct (128 <=? a) eqn:?; destruct (128 <=? c) eqn:?; lia).
  subst c. assert (V1 = V2) by nia.
  f_equal. apply be_val_inj; assumption.
Qed.

(* ---------------- registers ---------------- *)

Lemma reg_of_range v : 0 <= reg_of v < two64.
Proof. unfold reg_of. apply Z.mod_pos_bound. unfold two64. lia. Qed.

Lemma signed_of_reg v : - two63 <= v < two63 -> to_signed64 (reg_of v) = v.
Proof.
  intros Hv. unfold reg_of, to_signed64.
  destruct (Z_lt_le_dec v 0) as [Hneg|Hpos].
  - assert (E : v mod two64 = v + two64).
    { symmetry. apply Z.mod_unique_pos with (q := -1); unfold two64, two63 in *; lia. }
    rewrite E. destruct (v + two64 <? two63) eqn:E2; unfold two64, two63 in *; lia.
  - rewrite Z.mod_small by (unfold two64, two63 in *; lia).
    destruct (v <? two63) eqn:E2; lia.
Qed.

Lemma reg_of_small u : 0 <= u < two64 -> reg_of u = u.
Proof. intros Hu. unfold reg_of. apply Z.mod_small. exact Hu. Qed.

Lemma reg_of_idem v : reg_of v mod two64 = reg_of v.
Proof. apply Z.mod_small. apply reg_of_range. Qed.

(* ---------------- DER: both representations emit the minimal form ---------------- *)

Lemma wide_der_spec bs :
  bytes_ok bs -> bs <> [] ->
  twos_value (INTEGER_der_contents bs) = twos_value bs /\
  minimal_twos (INTEGER_der_contents bs) = true /\
  bytes_ok (INTEGER_der_contents bs) /\ INTEGER_der_contents bs <> [].
Proof.
  intros Hok Hne. unfold INTEGER_der_contents. rewrite der_strip_is_strip.
  destruct (strip_spec bs Hok Hne) as (A & B & C & _ & E). auto.
Qed.

Lemma native_der_is_imax2INTEGER v :
  NativeInteger_der_contents (reg_of v) = imax2INTEGER v.
Proof.
  unfold NativeInteger_der_contents, INTEGER_der_contents, imax2INTEGER, to_unsigned64.
  rewrite reg_of_idem, der_strip_is_strip. reflexivity.
Qed.

(* the DER contents of a value do not depend on the representation: a `long`
   holding v and any INTEGER_t denoting v yield the same octets, which are the
   minimal two's complement of v *)
Theorem native_wide_der_agree (v : Z) (bs : list Z) :
  - two63 <= v < two63 -> bytes_ok bs -> bs <> [] -> twos_value bs = v ->
  NativeInteger_der_contents (reg_of v) = INTEGER_der_contents bs /\
  INTEGER_der_contents bs = imax2INTEGER v /\
  twos_value (INTEGER_der_contents bs) = v /\ minimal_twos (INTEGER_der_contents bs) = true.
Proof.
  intros Hv Hok Hne Hval.
  destruct (wide_der_spec bs Hok Hne) as (W1 & W2 & W3 & W4).
  destruct (imax2INTEGER_canonical v Hv) as (N1 & N2 & N3 & N4).
  assert (E : INTEGER_der_contents bs = imax2INTEGER v).
  { apply minimal_twos_unique_nw; auto. rewrite W1, N1. exact Hval. }
  rewrite native_der_is_imax2INTEGER. rewrite E. auto.
Qed.

(* unsigned fields: the same below 2^63 ... *)
Theorem native_wide_der_unsigned_partial (u : Z) (bs : list Z) :
  0 <= u < two63 -> bytes_ok bs -> bs <> [] -> twos_value bs = u ->
  abs_of true (reg_of u) = u /\
  NativeInteger_der_contents (reg_of u) = INTEGER_der_contents bs.
Proof.
  intros Hu Hok Hne Hval. split.
  - unfold abs_of. apply reg_of_small. unfold two63, two64 in *. lia.
  - apply (native_wide_der_agree u bs); auto. unfold two63 in *. lia.
Qed.

(* ... and false from 2^63 on: the 8-octet image of the unsigned long is
   stripped as a signed number.  Witness 2^63: native emits 80 00 00 00 00 00 00 00
   (which denotes -2^63), wide emits 00 80 00 00 00 00 00 00 00. *)
Definition wide_two63 : list Z := [0; 128; 0; 0; 0; 0; 0; 0; 0].

Theorem native_wide_der_unsigned_refuted :
  exists (u : Z) (bs : list Z),
    0 <= u < two64 /\ bytes_ok bs /\ bs <> [] /\ twos_value bs = u /\ abs_of true (reg_of u) = u /\
    NativeInteger_der_contents (reg_of u) <> INTEGER_der_contents bs /\
    NativeInteger_der_contents (reg_of u) = [128; 0; 0; 0; 0; 0; 0; 0] /\
    INTEGER_der_contents bs = bs /\
    twos_value (NativeInteger_der_contents (reg_of u)) = - two63.
Proof.
  exists two63, wide_two63.
  split; [unfold two63, two64; lia|].
  split; [repeat constructor; unfold byte_ok; lia|].
  split; [discriminate|].
  repeat split; try (vm_compute; reflexivity). vm_compute. discriminate.
Qed.

(* the other end: 2^64-1 leaves the native encoder as the single octet ff = -1 *)
Theorem native_der_unsigned_max_refuted :
  NativeInteger_der_contents (reg_of (two64 - 1)) = [255] /\
  twos_value (NativeInteger_der_contents (reg_of (two64 - 1))) = -1.
Proof. split; vm_compute; reflexivity. Qed.

(* ---------------- BER decoding of the same contents octets ---------------- *)

(* signed field: the native decoder accepts exactly the values a long holds and
   stores the value the wide decoder's octets denote *)
Theorem native_decode_exact (cs : list Z) :
  bytes_ok cs -> cs <> [] ->
  NativeInteger_decode_contents false cs =
  if in_imax (twos_value cs) then Some (reg_of (twos_value cs)) else None.
Proof.
  intros Hok Hne. unfold NativeInteger_decode_contents.
  rewrite INTEGER2long_exact by assumption.
  destruct (in_imax (twos_value cs)); reflexivity.
Qed.

Theorem native_wide_decode_agree (cs : list Z) :
  bytes_ok cs -> cs <> [] -> in_imax (twos_value cs) = true ->
  exists reg, NativeInteger_decode_contents false cs = Some reg /\
              abs_of false reg = twos_value (INTEGER_decode_contents cs).
Proof.
  intros Hok Hne Hin. exists (reg_of (twos_value cs)).
  rewrite native_decode_exact, Hin by assumption. split; [reflexivity|].
  unfold abs_of, INTEGER_decode_contents. apply signed_of_reg. unfold in_imax in Hin. lia.
Qed.

(* without the range hypothesis "same value or both fail" is false: the wide
   decoder never fails on contents octets, the native one rejects what a long
   cannot hold *)
Theorem native_wide_decode_agree_refuted :
  exists cs, bytes_ok cs /\ cs <> [] /\ twos_value cs = two63 /\
             NativeInteger_decode_contents false cs = None /\
             twos_value (INTEGER_decode_contents cs) = two63.
Proof.
  exists wide_two63.
  split; [repeat constructor; unfold byte_ok; lia|].
  split; [discriminate|]. repeat split; vm_compute; reflexivity.
Qed.

(* unsigned field: non-negative contents below 2^64 are read exactly ... *)
Theorem native_unsigned_decode_partial (cs : list Z) :
  bytes_ok cs -> cs <> [] -> 0 <= twos_value cs < two64 ->
  NativeInteger_decode_contents true cs = Some (twos_value cs) /\
  abs_of true (twos_value cs) = twos_value (INTEGER_decode_contents cs).
Proof.
  intros Hok Hne Hr. split; [|reflexivity].
  unfold NativeInteger_decode_contents, INTEGER2ulong.
  rewrite INTEGER2umax_exact_nonneg; [| assumption | lia | apply nonneg_be_val; auto; lia].
  destruct (twos_value cs <? two64) eqn:E; [|lia].
  destruct (two64 - 1 <? twos_value cs) eqn:E2; [lia|reflexivity].
Qed.

(* ... negative contents are accepted as large unsigned values (asn_INTEGER2umax FIXME) *)
Theorem native_unsigned_decode_refuted :
  exists cs, bytes_ok cs /\ cs <> [] /\ twos_value (INTEGER_decode_contents cs) = -1 /\
             NativeInteger_decode_contents true cs = Some 255.
Proof.
  exists [255]. split; [repeat constructor; unfold byte_ok; lia|].
  split; [discriminate|]. split; vm_compute; reflexivity.
Qed.

(* ---------------- each decodes the other's DER output ---------------- *)

Theorem native_decodes_wide_der (v : Z) (bs : list Z) :
  - two63 <= v < two63 -> bytes_ok bs -> bs <> [] -> twos_value bs = v ->
  NativeInteger_decode_contents false (INTEGER_der_contents bs) = Some (reg_of v).
Proof.
  intros Hv Hok Hne Hval.
  destruct (wide_der_spec bs Hok Hne) as (W1 & W2 & W3 & W4).
  rewrite native_decode_exact by assumption. rewrite W1, Hval.
  unfold in_imax. destruct ((- two63 <=? v) && (v <? two63)) eqn:E; [reflexivity|lia].
Qed.

Theorem wide_decodes_native_der (v : Z) :
  - two63 <= v < two63 ->
  twos_value (INTEGER_decode_contents (NativeInteger_der_contents (reg_of v))) = v.
Proof.
  intros Hv. unfold INTEGER_decode_contents. rewrite native_der_is_imax2INTEGER.
  apply imax2INTEGER_canonical. exact Hv.
Qed.

(* unsigned field, u >= 2^63: the wide side reads the native output as u - 2^64 *)
Theorem wide_decodes_native_der_unsigned_refuted :
  exists u, 0 <= u < two64 /\ abs_of true (reg_of u) = u /\
            twos_value (INTEGER_decode_contents (NativeInteger_der_contents (reg_of u))) = u - two64.
Proof.
  exists two63. split; [unfold two63, two64; lia|]. split; vm_compute; reflexivity.
Qed.

(* while the native side reads its own output back (two wrongs): the defect is
   invisible to a native-only round trip *)
Theorem native_unsigned_self_roundtrip_at_two63 :
  NativeInteger_decode_contents true (NativeInteger_der_contents (reg_of two63)) = Some two63.
Proof. vm_compute. reflexivity. Qed.

(* ---------------- PER / OER: the INTEGER_t handed to the wide encoder ---------------- *)

(* signed field: it is the minimal form, hence THE wide representation the DER
   decoder of a -fwide-types build holds for that value *)
Theorem native_to_INTEGER_canonical (v : Z) (bs : list Z) :
  - two63 <= v < two63 -> bytes_ok bs -> minimal_twos bs = true -> twos_value bs = v ->
  native_to_INTEGER false (reg_of v) = bs.
Proof.
  intros Hv Hok Hm Hval. unfold native_to_INTEGER, long2INTEGER.
  rewrite signed_of_reg by exact Hv.
  destruct (imax2INTEGER_canonical v Hv) as (N1 & N2 & N3 & N4).
  apply minimal_twos_unique_nw; auto. rewrite N1. auto.
Qed.

Theorem native_to_INTEGER_unsigned_partial (u : Z) (bs : list Z) :
  0 <= u < two63 -> bytes_ok bs -> minimal_twos bs = true -> twos_value bs = u ->
  native_to_INTEGER true (reg_of u) = bs.
Proof.
  intros Hu Hok Hm Hval. unfold native_to_INTEGER.
  rewrite reg_of_small by (unfold two63, two64 in *; lia).
  destruct (ulong2INTEGER_canonical_partial u Hu) as (N1 & N2).
  assert (N3 : bytes_ok (ulong2INTEGER u)).
  { unfold ulong2INTEGER, to_signed64. destruct (u <? two63) eqn:E; [|lia].
    apply imax2INTEGER_canonical. unfold two63 in *. lia. }
  apply minimal_twos_unique_nw; auto. rewrite N1. auto.
Qed.

Theorem native_to_INTEGER_unsigned_refuted :
  exists u, 0 <= u < two64 /\ abs_of true (reg_of u) = u /\
            twos_value (native_to_INTEGER true (reg_of u)) = u - two64.
Proof.
  exists two63. split; [unfold two63, two64; lia|]. split; vm_compute; reflexivity.
Qed.

(* and back: what NativeInteger_decode_uper/_oer store from minimal contents *)
Theorem INTEGER_to_native_exact (cs : list Z) :
  bytes_ok cs -> cs <> [] -> in_imax (twos_value cs) = true ->
  INTEGER_to_native false cs = Some (reg_of (twos_value cs)).
Proof.
  intros Hok Hne Hin. unfold INTEGER_to_native. rewrite native_decode_exact, Hin by assumption. reflexivity.
Qed.

(* ---------------- non-vacuity ---------------- *)

Example native_wide_der_agree_ex :
  NativeInteger_der_contents (reg_of (-129)) = [255; 127] /\
  INTEGER_der_contents [255; 255; 255; 127] = [255; 127] /\
  twos_value [255; 255; 255; 127] = -129.
Proof. repeat split; vm_compute; reflexivity. Qed.

Example native_decode_ex :
  NativeInteger_decode_contents false [0; 0; 0; 0; 0; 0; 0; 0; 0; 128] = Some 128 /\
  NativeInteger_decode_contents false [255; 127] = Some (two64 - 129).
Proof. split; vm_compute; reflexivity. Qed.
