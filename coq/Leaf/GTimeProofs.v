(* Leaf/GTimeProofs.v — GeneralizedTime / UTCTime conversions in forced-GMT form
   round-trip (C17, time part). *)
From Coq Require Import ZArith List Lia Bool ZifyBool.
From A1 Require Import Base.Bytes Leaf.IntegerConv Leaf.StrtoxProofs Leaf.Decimal Leaf.DecimalProofs
  Leaf.CivilTime Leaf.CivilTimeProofs Leaf.GTime.
Import ListNotations.
Local Open Scope Z_scope.

Ltac Zify.zify_post_hook ::= Z.div_mod_to_equations.

Definition t_min : Z := -62167219200.     (* 0000-01-01T00:00:00Z *)
Definition t_max : Z := 253402300800.     (* 10000-01-01T00:00:00Z *)
Definition ut_min : Z := -315619200.      (* 1960-01-01T00:00:00Z *)
Definition ut_max : Z := 2840140800.      (* 2060-01-01T00:00:00Z *)

(* ---- the year of a broken-down time ---- *)
Lemma year_bounds y m d lo hi ylo yhi :
  1 <= m <= 12 -> 1 <= d <= 31 ->
  lo = days_from_civil ylo 1 1 -> hi = days_from_civil (yhi + 1) 1 1 ->
  lo <= days_from_civil y m d < hi -> ylo <= y <= yhi.
Proof.
  intros Hm Hd -> ->. unfold days_from_civil. cbv zeta.
  change (1 <=? 2) with true. change (2 <? 1) with false. cbv iota.
  destruct (m <=? 2) eqn:E1; destruct (2 <? m) eqn:E2; try lia; intros H; lia.
Qed.

Lemma gmtime_year t ylo yhi :
  days_from_civil ylo 1 1 * 86400 <= t < days_from_civil (yhi + 1) 1 1 * 86400 ->
  ylo <= tm_year (gmtime t) + 1900 <= yhi.
Proof.
  intros Ht. unfold gmtime.
  pose proof (days_civil_days (t / 86400)) as Hinv.
  pose proof (civil_from_days_valid (t / 86400)) as Hval.
  destruct (civil_from_days (t / 86400)) as [[y m] d]. cbn [tm_year].
  unfold valid_date, days_in_month in Hval.
  assert (Hd : 1 <= d <= 31).
  { destruct (m =? 2); [destruct (is_leap y)|destruct ((m =? 4) || (m =? 6) || (m =? 9) || (m =? 11))]; lia. }
  assert (Hm : 1 <= m <= 12) by lia.
  set (lo := days_from_civil ylo 1 1) in *. set (hi := days_from_civil (yhi + 1) 1 1) in *.
  assert (Hr : lo <= days_from_civil y m d < hi) by (rewrite Hinv; lia).
  pose proof (year_bounds y m d lo hi ylo yhi Hm Hd eq_refl eq_refl Hr). lia.
Qed.

(* ---- reading digits ---- *)
Lemma b2f_S k var ch tl :
  b2f (S k) var (ch :: tl) = if is_dig ch then b2f k (var * 10 + (ch - 48)) tl else B2Bad.
Proof. reflexivity. Qed.

Lemma b2f_digits ds : forall var rest, digits_ok ds ->
  b2f (length ds) var (ds ++ rest) = B2Ok (var * 10 ^ zlen ds + num ds) rest.
Proof.
  induction ds as [|c tl IH]; intros var rest Hd.
  - cbn [length b2f app num]. unfold zlen; cbn [length Z.of_nat]. f_equal. lia.
  - inversion Hd as [|? ? Hc Htl]; subst. cbn [length app]. rewrite b2f_S.
    change (is_dig c) with (is_digit c). rewrite Hc, IH by assumption.
    cbn [num]. rewrite pow10_cons. f_equal. ring.
Qed.

Lemma b2f_field w n rest : (1 <= w <= 19)%nat -> 0 <= n < 10 ^ Z.of_nat w ->
  b2f w 0 (fmt_d w n ++ rest) = B2Ok n rest.
Proof.
  intros Hw Hn. destruct (fmt_d_spec w n Hw Hn) as (Hok & Hlen & Hnum).
  rewrite <- Hlen at 1. rewrite b2f_digits by assumption. rewrite Hnum. f_equal.
Qed.

Lemma fmt2_shape n : 0 <= n < 100 ->
  exists c1 c2, fmt_d 2 n = [c1; c2] /\ is_dig c1 = true /\ is_dig c2 = true /\
                (c1 - 48) * 10 + (c2 - 48) = n.
Proof.
  intros Hn. destruct (fmt_d_spec 2 n ltac:(lia) Hn) as (Hok & Hlen & Hnum).
  destruct (fmt_d 2 n) as [|c1 [|c2 [|c3 tl]]]; try discriminate.
  pose proof (Forall_inv Hok) as H1. pose proof (Forall_inv (Forall_inv_tail Hok)) as H2.
  cbv beta in H1, H2.
  exists c1, c2. repeat split; try assumption.
  rewrite <- Hnum. cbn [num]. unfold zlen. cbn [length Z.of_nat].
  change (10 ^ 1) with 10. change (10 ^ 0) with 1. lia.
Qed.

Lemma gt_two_field f n rest lg set next : 0 <= n < 100 ->
  gt_two f (fmt_d 2 n ++ rest) lg set next = next (set f n) rest.
Proof.
  intros Hn. destruct (fmt2_shape n Hn) as (c1 & c2 & -> & H1 & H2 & Hv).
  cbn [app]. unfold gt_two. rewrite H1. cbn [b2f]. rewrite H2. f_equal. f_equal. lia.
Qed.

(* ---- the text written for a time inside years 0..9999 ---- *)
Definition gt_body (g : tm) : list Z :=
  fmt_d 4 (tm_year g + 1900) ++ fmt_d 2 (tm_mon g + 1) ++ fmt_d 2 (tm_mday g)
  ++ fmt_d 2 (tm_hour g) ++ fmt_d 2 (tm_min g) ++ fmt_d 2 (tm_sec g).

Lemma forced_tm t gmtoff :
  (if true && negb (gmtoff =? 0)
   then snd (timegm (set_sec (localtime t gmtoff) (tm_sec (localtime t gmtoff) - gmtoff)))
   else localtime t gmtoff) = gmtime t.
Proof.
  cbn [andb]. destruct (gmtoff =? 0) eqn:E; cbn [negb].
  - assert (gmtoff = 0) by lia. subst gmtoff. unfold localtime. rewrite Z.add_0_r.
    pose proof (gmtime_ranges t) as H. cbv zeta in H. destruct H as (_ & _ & _ & _ & _ & H0).
    destruct (gmtime t); cbn in *. subst. reflexivity.
  - unfold timegm. cbn [snd]. pose proof (timegm_localtime t gmtoff) as H. cbv zeta in H.
    rewrite H. reflexivity.
Qed.

Lemma gt_body_spec t : t_min <= t < t_max ->
  digits_ok (gt_body (gmtime t)) /\ length (gt_body (gmtime t)) = 14%nat.
Proof.
  intros Ht.
  pose proof (gmtime_ranges t) as Hr. cbv zeta in Hr.
  assert (Hy : 0 <= tm_year (gmtime t) + 1900 <= 9999).
  { apply gmtime_year. unfold t_min, t_max in Ht.
    change (days_from_civil 0 1 1) with (-719528). change (days_from_civil (9999 + 1) 1 1) with 2932897. lia. }
  remember (gmtime t) as g eqn:Hg. clear Hg.
  destruct Hr as (Hs & Hmi & Hh & Hd & Hmo & _).
  unfold gt_body.
  destruct (fmt_d_spec 4 (tm_year g + 1900)) as (A1 & A2 & _); [lia|change (10 ^ Z.of_nat 4) with 10000; lia|].
  destruct (fmt_d_spec 2 (tm_mon g + 1)) as (B1 & B2 & _); [lia|change (10 ^ Z.of_nat 2) with 100; lia|].
  destruct (fmt_d_spec 2 (tm_mday g)) as (C1 & C2 & _); [lia|change (10 ^ Z.of_nat 2) with 100; lia|].
  destruct (fmt_d_spec 2 (tm_hour g)) as (D1 & D2 & _); [lia|change (10 ^ Z.of_nat 2) with 100; lia|].
  destruct (fmt_d_spec 2 (tm_min g)) as (E1 & E2 & _); [lia|change (10 ^ Z.of_nat 2) with 100; lia|].
  destruct (fmt_d_spec 2 (tm_sec g)) as (F1 & F2 & _); [lia|change (10 ^ Z.of_nat 2) with 100; lia|].
  split.
  - repeat (apply digits_ok_app; [assumption|]). assumption.
  - rewrite !app_length. lia.
Qed.

(* asn_time2GT_frac(localtime(t), force_gmt = 1), no fraction: 14 digits and 'Z' *)
Theorem time2GT_text t gmtoff : t_min <= t < t_max ->
  time2GT (localtime t gmtoff) true = Some (gt_body (gmtime t) ++ [90]).
Proof.
  intros Ht. unfold time2GT, time2GT_frac. rewrite forced_tm.
  fold (gt_body (gmtime t)).
  destruct (gt_body_spec t Ht) as [_ Hlen].
  unfold zlen. rewrite Hlen. cbn [Z.of_nat Pos.of_succ_nat Pos.succ Z.eqb Pos.eqb negb].
  unfold frac_text. cbn [Z.ltb Z.compare andb]. rewrite app_nil_r. reflexivity.
Qed.

(* parsing that text *)
Lemma timegm_val_fields g :
  timegm_val (mkTm (tm_sec g - 0) (tm_min g) (tm_hour g) (tm_mday g) (tm_mon g + 1 - 1)
                   (tm_year g + 1900 - 1900) 0) = timegm_val g.
Proof.
  destruct g as [s mi h d mo y off]. unfold timegm_val.
  cbn [tm_sec tm_min tm_hour tm_mday tm_mon tm_year].
  replace (y + 1900 - 1900) with y by lia. replace (mo + 1 - 1) with mo by lia.
  replace (s - 0) with s by lia. reflexivity.
Qed.

Lemma gt_finish_fields g t fv fd lg :
  0 <= tm_sec g <= 59 -> 1 <= tm_mday g <= 31 -> 0 <= tm_hour g <= 23 -> 0 <= tm_mon g <= 11 ->
  timegm_val g = t -> t <> -1 ->
  gt_finish (mkGtf (tm_year g + 1900) (tm_mon g + 1) (tm_mday g) (tm_hour g) (tm_min g) (tm_sec g) fv fd)
            0 true lg = GtOk t fv fd.
Proof.
  intros Hs Hd Hh Hmo Hinv Hne.
  unfold gt_finish. cbn [g_mon g_mday g_hour g_sec g_min g_year g_fv g_fd].
  destruct ((12 <? tm_mon g + 1) || (tm_mon g + 1 <? 1) || (31 <? tm_mday g) || (tm_mday g <? 1)
            || (23 <? tm_hour g) || (60 <? tm_sec g)) eqn:E; [lia|].
  unfold timegm. cbn [fst]. rewrite timegm_val_fields, Hinv.
  destruct (t =? -1) eqn:E1; [lia|]. reflexivity.
Qed.

Lemma gt_finish_gmtime t fv fd lg : t <> -1 ->
  gt_finish (mkGtf (tm_year (gmtime t) + 1900) (tm_mon (gmtime t) + 1) (tm_mday (gmtime t))
                   (tm_hour (gmtime t)) (tm_min (gmtime t)) (tm_sec (gmtime t)) fv fd)
            0 true lg = GtOk t fv fd.
Proof.
  intros Hne. pose proof (gmtime_ranges t) as Hr. cbv zeta in Hr.
  destruct Hr as (Hs & Hmi & Hh & Hd & Hmo & Hoff).
  apply gt_finish_fields; try assumption. apply timegm_gmtime.
Qed.

Lemma GT2time_frac_body t lg : t_min <= t < t_max -> t <> -1 ->
  GT2time_frac (gt_body (gmtime t) ++ [90]) lg = GtOk t 0 0.
Proof.
  intros Ht Hne.
  pose proof (gmtime_ranges t) as Hr. cbv zeta in Hr.
  assert (Hy : 0 <= tm_year (gmtime t) + 1900 <= 9999).
  { apply gmtime_year. unfold t_min, t_max in Ht.
    change (days_from_civil 0 1 1) with (-719528). change (days_from_civil (9999 + 1) 1 1) with 2932897. lia. }
  destruct (gt_body_spec t Ht) as [_ Hlen].
  pose proof (gt_finish_gmtime t 0 0 lg Hne) as Hfin.
  remember (gmtime t) as g eqn:Hg. clear Hg.
  destruct Hr as (Hs & Hmi & Hh & Hd & Hmo & _).
  unfold GT2time_frac.
  assert (Hz : zlen (gt_body g ++ [90]) = 15).
  { unfold zlen. rewrite app_length, Hlen. reflexivity. }
  rewrite Hz. change (15 <? 10) with false. cbv iota.
  unfold gt_body. rewrite <- !app_assoc.
  rewrite b2f_field by (try lia; change (10 ^ Z.of_nat 4) with 10000; lia).
  rewrite b2f_field by (try lia; change (10 ^ Z.of_nat 2) with 100; lia).
  rewrite b2f_field by (try lia; change (10 ^ Z.of_nat 2) with 100; lia).
  rewrite b2f_field by (try lia; change (10 ^ Z.of_nat 2) with 100; lia).
  rewrite gt_two_field by lia. rewrite gt_two_field by lia.
  cbn [app gt_frac set_min set_gsec g_year g_mon g_mday g_hour g_min g_sec g_fv g_fd].
  change ((90 =? 44) || (90 =? 46)) with false. cbv iota.
  unfold gt_tail. change ((90 =? 43) || (90 =? 45)) with false. change (90 =? 90) with true. cbv iota.
  exact Hfin.
Qed.

(* ---- GeneralizedTime round trip, forced-GMT form ---- *)
Theorem gt_roundtrip_partial t gmtoff lg : t_min <= t < t_max -> t <> -1 ->
  exists txt ds, time2GT (localtime t gmtoff) true = Some txt /\
    txt = ds ++ [90] /\ digits_ok ds /\ length ds = 14%nat /\
    GT2time txt lg = GtOk t 0 0 /\ GT2time_frac txt lg = GtOk t 0 0.
Proof.
  intros Ht Hne. exists (gt_body (gmtime t) ++ [90]), (gt_body (gmtime t)).
  destruct (gt_body_spec t Ht) as [Hok Hlen].
  split; [apply time2GT_text; exact Ht|]. split; [reflexivity|]. split; [exact Hok|]. split; [exact Hlen|].
  unfold GT2time. rewrite GT2time_frac_body by assumption. split; reflexivity.
Qed.

(* the full statement fails at exactly one instant: t = -1 is written as
   19691231235959Z and read back as the error value *)
Theorem gt_roundtrip_refuted :
  exists t gmtoff, t_min <= t < t_max /\
    time2GT (localtime t gmtoff) true = Some (map Z.of_nat [49;57;54;57;49;50;51;49;50;51;53;57;53;57;90]%nat) /\
    GT2time (map Z.of_nat [49;57;54;57;49;50;51;49;50;51;53;57;53;57;90]%nat) 0 = GtFail.
Proof. exists (-1), 0. vm_compute. repeat split; congruence. Qed.

(* ---- UTCTime ---- *)
Lemma fmt4_shape n : 0 <= n < 10000 ->
  exists c1 c2 c3 c4, fmt_d 4 n = [c1; c2; c3; c4] /\
    is_dig c1 = true /\ is_dig c2 = true /\ is_dig c3 = true /\ is_dig c4 = true /\
    (c1 - 48) * 1000 + (c2 - 48) * 100 + (c3 - 48) * 10 + (c4 - 48) = n.
Proof.
  intros Hn. destruct (fmt_d_spec 4 n ltac:(lia) Hn) as (Hok & Hlen & Hnum).
  destruct (fmt_d 4 n) as [|c1 [|c2 [|c3 [|c4 [|c5 tl]]]]]; try discriminate.
  pose proof (Forall_inv Hok) as H1. pose proof (Forall_inv (Forall_inv_tail Hok)) as H2.
  pose proof (Forall_inv (Forall_inv_tail (Forall_inv_tail Hok))) as H3.
  pose proof (Forall_inv (Forall_inv_tail (Forall_inv_tail (Forall_inv_tail Hok)))) as H4.
  cbv beta in H1, H2, H3, H4.
  exists c1, c2, c3, c4. repeat split; try assumption.
  rewrite <- Hnum. cbn [num]. unfold zlen. cbn [length Z.of_nat Pos.of_succ_nat Pos.succ].
  change (10 ^ 3) with 1000. change (10 ^ 2) with 100. change (10 ^ 1) with 10. change (10 ^ 0) with 1. lia.
Qed.

(* within UTCTime's window the two characters dropped by asn_time2UT are the
   ones asn_UT2time puts back: "19" when the first remaining digit is > '5' *)
Theorem ut_roundtrip_partial t gmtoff lg : ut_min <= t < ut_max -> t <> -1 ->
  exists txt ds, time2UT (localtime t gmtoff) true = Some txt /\
    txt = ds ++ [90] /\ digits_ok ds /\ length ds = 12%nat /\
    UT2time txt lg = GtOk t 0 0.
Proof.
  intros Ht Hne.
  assert (Ht' : t_min <= t < t_max) by (unfold ut_min, ut_max, t_min, t_max in *; lia).
  assert (Hy : 1960 <= tm_year (gmtime t) + 1900 <= 2059).
  { apply gmtime_year. unfold ut_min, ut_max in Ht.
    change (days_from_civil 1960 1 1) with (-3653). change (days_from_civil (2059 + 1) 1 1) with 32872. lia. }
  destruct (gt_body_spec t Ht') as [Hok Hlen].
  pose proof (GT2time_frac_body t lg Ht' Hne) as Hback.
  unfold time2UT. rewrite time2GT_text by exact Ht'.
  unfold gt_body in *. remember (gmtime t) as g eqn:Hg. clear Hg.
  destruct (fmt4_shape (tm_year g + 1900)) as (c1 & c2 & c3 & c4 & Hf & H1 & H2 & H3 & H4 & Hv); [lia|].
  rewrite Hf in *. cbn [app skipn] in *.
  set (R := fmt_d 2 (tm_mon g + 1) ++ fmt_d 2 (tm_mday g) ++ fmt_d 2 (tm_hour g)
            ++ fmt_d 2 (tm_min g) ++ fmt_d 2 (tm_sec g)) in *.
  exists (c3 :: c4 :: R ++ [90]), (c3 :: c4 :: R).
  split; [reflexivity|]. split; [reflexivity|].
  split. { inversion Hok as [|? ? _ Hok1]; subst. inversion Hok1 as [|? ? _ Hok2]; subst. exact Hok2. }
  cbn [length] in Hlen. split; [cbn [length]; lia|].
  unfold UT2time.
  assert (Hz : zlen (c3 :: c4 :: R ++ [90]) = 13).
  { unfold zlen. cbn [length]. rewrite app_length. cbn [length]. lia. }
  rewrite Hz. change ((13 <? 11) || (22 <=? 13)) with false. cbv iota. cbn [hd].
  unfold is_dig in *. unfold GT2time.
  destruct (53 <? c3) eqn:E.
  - assert (c1 = 49 /\ c2 = 57) as [-> ->] by lia. cbn [app]. rewrite Hback. reflexivity.
  - assert (c1 = 50 /\ c2 = 48) as [-> ->] by lia. cbn [app]. rewrite Hback. reflexivity.
Qed.

(* outside the window the two-digit year is read in another century *)
Theorem ut_roundtrip_refuted :
  exists t, t_min <= t < t_max /\
    time2UT (localtime t 0) true = Some (map Z.of_nat [54;48;48;49;48;49;48;48;48;48;48;48;90]%nat) /\
    UT2time (map Z.of_nat [54;48;48;49;48;49;48;48;48;48;48;48;90]%nat) 0 = GtOk (t - 3155760000) 0 0.
Proof. exists ut_max. vm_compute. repeat split; congruence. Qed.

Example gt_example_text :
  time2GT_frac (localtime 1700000000 20700) 1230 4 true
  = Some (map Z.of_nat [50;48;50;51;49;49;49;52;50;50;49;51;50;48;46;49;50;51;90]%nat) /\
  GT2time_frac (map Z.of_nat [50;48;50;51;49;49;49;52;50;50;49;51;50;48;46;49;50;51;90]%nat) 0
  = GtOk 1700000000 123 3.
Proof. vm_compute. split; reflexivity. Qed.

(* ------------------------------------------------------------------ *)
(* The parser never reads past the end of its buffer: every B2F is preceded
   by a length test that covers it, for every input. *)
Lemma b2f_no_oob k : forall var bs, (k <= length bs)%nat -> b2f k var bs <> B2Oob.
Proof.
  induction k as [|k IH]; intros var bs Hl; [discriminate|].
  destruct bs as [|ch tl]; [cbn [length] in Hl; lia|]. rewrite b2f_S.
  destruct (is_dig ch); [|discriminate]. apply IH. cbn [length] in Hl. lia.
Qed.

Lemma b2f_rest_len k : forall var bs v rest,
  b2f k var bs = B2Ok v rest -> length bs = (k + length rest)%nat.
Proof.
  induction k as [|k IH]; intros var bs v rest H.
  - cbn [b2f] in H. inversion H; subst. reflexivity.
  - destruct bs as [|ch tl]; [discriminate|]. rewrite b2f_S in H.
    destruct (is_dig ch); [|discriminate]. apply IH in H. cbn [length]. lia.
Qed.

Lemma gt_finish_no_oob f g o lg : gt_finish f g o lg <> GtOob.
Proof.
  unfold gt_finish.
  destruct ((12 <? g_mon f) || (g_mon f <? 1) || (31 <? g_mday f) || (g_mday f <? 1)
            || (23 <? g_hour f) || (60 <? g_sec f)); [discriminate|].
  match goal with |- (if ?c then _ else _) <> _ => destruct c; discriminate end.
Qed.

Lemma gt_offset_no_oob f c tl lg : gt_offset f (c :: tl) lg <> GtOob.
Proof.
  unfold gt_offset. destruct (zlen (c :: tl) <? 3) eqn:E; [discriminate|].
  assert (Hl : (2 <= length tl)%nat) by (unfold zlen in E; cbn [length] in E; lia).
  destruct (b2f 2 0 tl) as [h rest| |] eqn:Eb; [|discriminate|exact (False_ind _ (b2f_no_oob 2 0 tl Hl Eb))].
  destruct (zlen rest =? 2) eqn:E2.
  - assert (Hr : (2 <= length rest)%nat) by (unfold zlen in E2; lia).
    destruct (b2f 2 0 rest) as [m r2| |] eqn:Eb2; [apply gt_finish_no_oob|discriminate|].
    exact (False_ind _ (b2f_no_oob 2 0 rest Hr Eb2)).
  - destruct rest; [apply gt_finish_no_oob|discriminate].
Qed.

Lemma gt_tail_no_oob f bs lg : gt_tail f bs lg <> GtOob.
Proof.
  unfold gt_tail. destruct bs as [|c tl]; [apply gt_finish_no_oob|].
  destruct ((c =? 43) || (c =? 45)); [apply gt_offset_no_oob|].
  destruct (c =? 90); [apply gt_finish_no_oob|discriminate].
Qed.

Lemma gt_frac_no_oob f bs lg : gt_frac f bs lg <> GtOob.
Proof.
  unfold gt_frac. destruct bs as [|c tl]; [apply gt_finish_no_oob|].
  destruct ((c =? 44) || (c =? 46)); [|apply gt_tail_no_oob].
  destruct (frac_digits_loop tl 0 0) as [[fv fd] rest]. apply gt_tail_no_oob.
Qed.

Lemma gt_two_no_oob f bs lg set next :
  (forall f' r, next f' r <> GtOob) -> gt_two f bs lg set next <> GtOob.
Proof.
  intros Hn. unfold gt_two. destruct bs as [|c tl]; [apply gt_finish_no_oob|].
  destruct (is_dig c).
  - destruct tl as [|c2 tl2]; [discriminate|].
    destruct (b2f 1 (c - 48) (c2 :: tl2)) as [v rest| |] eqn:Eb; [apply Hn|discriminate|].
    assert (Hl : (1 <= length (c2 :: tl2))%nat) by (cbn [length]; lia).
    exact (False_ind _ (b2f_no_oob 1 _ _ Hl Eb)).
  - destruct ((c =? 43) || (c =? 45)); [apply gt_offset_no_oob|].
    destruct (c =? 90); [apply gt_finish_no_oob|discriminate].
Qed.

Theorem gt_no_oob bs lg :
  GT2time_frac bs lg <> GtOob /\ GT2time bs lg <> GtOob /\ UT2time bs lg <> GtOob.
Proof.
  assert (H : forall bs, GT2time_frac bs lg <> GtOob).
  { clear bs. intros bs. unfold GT2time_frac. destruct (zlen bs <? 10) eqn:E; [discriminate|].
    assert (Hl : (10 <= length bs)%nat) by (unfold zlen in E; lia).
    destruct (b2f 4 0 bs) as [y r1| |] eqn:E1; [|discriminate|exact (False_ind _ (b2f_no_oob 4 0 bs ltac:(lia) E1))].
    apply b2f_rest_len in E1.
    destruct (b2f 2 0 r1) as [mo r2| |] eqn:E2; [|discriminate|exact (False_ind _ (b2f_no_oob 2 0 r1 ltac:(lia) E2))].
    apply b2f_rest_len in E2.
    destruct (b2f 2 0 r2) as [d r3| |] eqn:E3; [|discriminate|exact (False_ind _ (b2f_no_oob 2 0 r2 ltac:(lia) E3))].
    apply b2f_rest_len in E3.
    destruct (b2f 2 0 r3) as [h r4| |] eqn:E4; [|discriminate|exact (False_ind _ (b2f_no_oob 2 0 r3 ltac:(lia) E4))].
    apply gt_two_no_oob. intros f5 r5. apply gt_two_no_oob. intros f6 r6. apply gt_frac_no_oob. }
  assert (H0 : forall bs, GT2time bs lg <> GtOob).
  { intros b. unfold GT2time. specialize (H b). destruct (GT2time_frac b lg); try discriminate. congruence. }
  split; [apply H|]. split; [apply H0|].
  unfold UT2time. destruct ((zlen bs <? 11) || (22 <=? zlen bs)); [discriminate|apply H0].
Qed.

(* ------------------------------------------------------------------ *)
(* Fractions of a second, reading side: a forced-GMT text carrying up to nine
   fraction digits is read back as t with exactly those digits. *)
Lemma GT2time_frac_prefix t tail lg : t_min <= t < t_max ->
  GT2time_frac (gt_body (gmtime t) ++ tail) lg
  = gt_frac (mkGtf (tm_year (gmtime t) + 1900) (tm_mon (gmtime t) + 1) (tm_mday (gmtime t))
                   (tm_hour (gmtime t)) (tm_min (gmtime t)) (tm_sec (gmtime t)) 0 0) tail lg.
Proof.
  intros Ht.
  pose proof (gmtime_ranges t) as Hr. cbv zeta in Hr.
  assert (Hy : 0 <= tm_year (gmtime t) + 1900 <= 9999).
  { apply gmtime_year. unfold t_min, t_max in Ht.
    change (days_from_civil 0 1 1) with (-719528). change (days_from_civil (9999 + 1) 1 1) with 2932897. lia. }
  destruct (gt_body_spec t Ht) as [_ Hlen].
  remember (gmtime t) as g eqn:Hg. clear Hg.
  destruct Hr as (Hs & Hmi & Hh & Hd & Hmo & _).
  unfold GT2time_frac.
  assert (Hz : zlen (gt_body g ++ tail) = 14 + zlen tail).
  { unfold zlen. rewrite app_length, Hlen. lia. }
  pose proof (zlen_nonneg tail) as Hnn.
  destruct (zlen (gt_body g ++ tail) <? 10) eqn:E; [lia|].
  unfold gt_body. rewrite <- !app_assoc.
  rewrite b2f_field by (try lia; change (10 ^ Z.of_nat 4) with 10000; lia).
  rewrite b2f_field by (try lia; change (10 ^ Z.of_nat 2) with 100; lia).
  rewrite b2f_field by (try lia; change (10 ^ Z.of_nat 2) with 100; lia).
  rewrite b2f_field by (try lia; change (10 ^ Z.of_nat 2) with 100; lia).
  rewrite gt_two_field by lia. rewrite gt_two_field by lia.
  reflexivity.
Qed.

Lemma frac_digits_loop_digits ds : forall fv fd rest,
  digits_ok ds -> stops rest -> 0 <= fv -> (fv + 1) * 10 ^ zlen ds <= 1000000000 ->
  frac_digits_loop (ds ++ rest) fv fd = (fv * 10 ^ zlen ds + num ds, fd + zlen ds, rest).
Proof.
  induction ds as [|c tl IH]; intros fv fd rest Hd Hst Hfv Hb.
  - cbn [app num]. unfold zlen; cbn [length Z.of_nat]. rewrite Z.pow_0_r.
    replace (fv * 1 + 0) with fv by lia. replace (fd + 0) with fd by lia.
    destruct rest as [|c rest']; [reflexivity|]. cbn [frac_digits_loop].
    cbn [stops] in Hst. change (is_dig c) with (is_digit c). rewrite Hst. reflexivity.
  - inversion Hd as [|? ? Hc Htl]; subst. cbn [app frac_digits_loop].
    change (is_dig c) with (is_digit c). rewrite Hc.
    rewrite pow10_cons in *. pose proof (pow10_pos tl) as HP. set (P := 10 ^ zlen tl) in *.
    assert (Hdr : 0 <= c - 48 <= 9) by (unfold is_digit in Hc; lia).
    assert (Hlt : fv < int_max_div10) by (unfold int_max_div10; nia).
    destruct (fv <? int_max_div10) eqn:E; [|lia].
    rewrite IH; [|assumption|assumption|lia|fold P; nia].
    fold P. cbn [num]. fold P. rewrite zlen_cons. f_equal. f_equal; lia.
Qed.

Theorem gt_frac_read t fds lg : t_min <= t < t_max -> t <> -1 ->
  digits_ok fds -> zlen fds <= 9 ->
  GT2time_frac (gt_body (gmtime t) ++ 46 :: fds ++ [90]) lg = GtOk t (num fds) (zlen fds).
Proof.
  intros Ht Hne Hd Hl. rewrite GT2time_frac_prefix by exact Ht.
  unfold gt_frac. change ((46 =? 44) || (46 =? 46)) with true. cbv iota.
  assert (Hb : (0 + 1) * 10 ^ zlen fds <= 1000000000).
  { change 1000000000 with (10 ^ 9). rewrite Z.mul_1_l.
    apply Z.pow_le_mono_r; [lia|exact Hl]. }
  rewrite (frac_digits_loop_digits fds 0 0 [90] Hd); [|reflexivity|lia|exact Hb].
  rewrite Z.mul_0_l, !Z.add_0_l.
  unfold gt_tail. change ((90 =? 43) || (90 =? 45)) with false. change (90 =? 90) with true. cbv iota.
  unfold set_frac. cbn [g_year g_mon g_mday g_hour g_min g_sec].
  apply gt_finish_gmtime. exact Hne.
Qed.
