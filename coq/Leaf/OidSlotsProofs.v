(* Leaf/OidSlotsProofs.v — the capacity parameter of the OBJECT IDENTIFIER
   helpers does not influence what they return (C17, second round):
   for every contents octet string / text and every caller array,
     - the returned count is the count of the capacity-free model of Leaf/Oid.v
       (hence the same for every capacity, failure included),
     - the array afterwards is [overlay l arr]: its first min(slots, n) cells hold
       the first arcs, every other cell is untouched, its length is unchanged,
   and the sizing idiom (ask with 0 slots, allocate, ask again) returns the
   whole vector.  Also: get_single_arc / get_first_arcs on every prefix length of
   a buffer.  All by induction on the loops; no sampling. *)
From Coq Require Import ZArith List Lia Bool ZifyBool.
From A1 Require Import Base.Bytes Leaf.IntegerConv Leaf.StrtoxProofs Leaf.Decimal Leaf.DecimalProofs
  Leaf.Oid Leaf.OidProofs Leaf.OidSlots.
Import ListNotations.
Local Open Scope Z_scope.

(* what a caller array looks like after the arcs [l] were offered to it *)
Definition overlay (l arr : list Z) : list Z :=
  firstn (length arr) l ++ skipn (length l) arr.

Lemma overlay_nil_r l : overlay l [] = [].
Proof. unfold overlay. cbn [length firstn]. rewrite skipn_nil. reflexivity. Qed.

Lemma overlay_nil_l arr : overlay [] arr = arr.
Proof. unfold overlay. rewrite firstn_nil. reflexivity. Qed.

Lemma overlay_cons p l a arr : overlay (p :: l) (a :: arr) = p :: overlay l arr.
Proof. reflexivity. Qed.

(* the three clauses of the capacity contract, read off [overlay] *)
Lemma overlay_length l arr : length (overlay l arr) = length arr.
Proof.
  unfold overlay. rewrite app_length, firstn_length, skipn_length. lia.
Qed.

Lemma overlay_prefix l arr :
  firstn (Nat.min (length l) (length arr)) (overlay l arr) = firstn (length arr) l.
Proof.
  unfold overlay. rewrite firstn_app, firstn_length.
  destruct (Nat.le_gt_cases (length l) (length arr)) as [H|H].
  - rewrite Nat.min_l by lia. rewrite (firstn_all2 l) by lia.
    rewrite (Nat.min_r (length arr)) by lia.
    rewrite firstn_all, Nat.sub_diag. cbn [firstn]. apply app_nil_r.
  - rewrite Nat.min_r by lia. rewrite (Nat.min_l (length arr)) by lia.
    rewrite Nat.sub_diag. cbn [firstn]. rewrite app_nil_r.
    apply firstn_all2. rewrite firstn_length. lia.
Qed.

Lemma overlay_untouched l arr : skipn (length l) (overlay l arr) = skipn (length l) arr.
Proof.
  unfold overlay. rewrite skipn_app, firstn_length.
  destruct (Nat.le_gt_cases (length l) (length arr)) as [H|H].
  - rewrite (firstn_all2 l) by lia. rewrite skipn_all, Nat.min_r by lia.
    rewrite Nat.sub_diag. reflexivity.
  - rewrite (skipn_all2 arr) by lia. rewrite skipn_nil.
    rewrite skipn_all2 by (rewrite firstn_length; lia). reflexivity.
Qed.

Lemma firstn_overlay_repeat l slots x :
  firstn (Nat.min (length l) slots) (overlay l (repeat x slots)) = firstn slots l.
Proof.
  pose proof (overlay_prefix l (repeat x slots)) as H.
  rewrite repeat_length in H. exact H.
Qed.

(* ---- stores ---- *)
Lemma upd_length i v : forall arr, length (upd i v arr) = length arr.
Proof.
  induction i as [|i IH]; intros [|x tl]; cbn [upd length]; try reflexivity.
  rewrite IH. reflexivity.
Qed.

Lemma store_length arr n v : length (store arr n v) = length arr.
Proof. unfold store. destruct (n <? length arr)%nat; [apply upd_length|reflexivity]. Qed.

Lemma store_nil n v : store [] n v = [].
Proof. unfold store. destruct (n <? length (@nil Z))%nat; destruct n; reflexivity. Qed.

Lemma store_cons_S p Y n v : store (p :: Y) (S n) v = p :: store Y n v.
Proof.
  unfold store. cbn [length].
  destruct (Nat.ltb_spec (S n) (S (length Y))) as [H|H];
    destruct (Nat.ltb_spec n (length Y)) as [H2|H2]; try lia; reflexivity.
Qed.

Lemma store_cons_0 a r v : store (a :: r) 0 v = v :: r.
Proof. reflexivity. Qed.

(* one more arc offered to the array: the guarded store + the increment *)
Lemma store_overlay pre : forall arr v,
  store (overlay pre arr) (length pre) v = overlay (pre ++ [v]) arr.
Proof.
  induction pre as [|p pre IH]; intros arr v.
  - rewrite overlay_nil_l. cbn [length app]. destruct arr as [|a r].
    + rewrite store_nil, overlay_nil_r. reflexivity.
    + rewrite store_cons_0. unfold overlay. cbn [length firstn skipn].
      rewrite firstn_nil. reflexivity.
  - destruct arr as [|a r].
    + rewrite !overlay_nil_r. apply store_nil.
    + cbn [app]. rewrite !overlay_cons. cbn [length]. rewrite store_cons_S, IH. reflexivity.
Qed.

(* ------------------------------------------------------------------ *)
(* get_arcs *)
Definition lift_o (pre arr0 : list Z) (r : ores) : ires :=
  match r with
  | OArcs l => IArcs (length (pre ++ l)) (overlay (pre ++ l) arr0)
  | OFail => IFail
  | OFuel => IFuel
  end.

Lemma get_rest_into_spec fuel : forall bs pre arr0,
  get_rest_into fuel bs (length pre) (overlay pre arr0) = lift_o pre arr0 (get_rest fuel bs).
Proof.
  induction fuel as [|k IH]; intros bs pre arr0; [reflexivity|].
  cbn [get_rest_into get_rest]. destruct (get_single_arc bs) as [|v rd tl| |].
  - cbn [lift_o]. rewrite app_nil_r. reflexivity.
  - rewrite store_overlay.
    replace (S (length pre)) with (length (pre ++ [v])) by (rewrite app_length; cbn [length]; lia).
    rewrite IH. destruct (get_rest k tl) as [l| |]; cbn [lift_o]; try reflexivity.
    rewrite <- app_assoc. reflexivity.
  - reflexivity.
  - reflexivity.
Qed.

Lemma first_two_overlay arr a0 a1 : first_two arr a0 a1 = overlay [a0; a1] arr.
Proof.
  destruct arr as [|x [|y r]]; try reflexivity.
  unfold first_two, overlay. cbn [length upd firstn skipn].
  rewrite firstn_nil. reflexivity.
Qed.

(* the array version is the capacity-free model plus [overlay] *)
Theorem get_arcs_arr_spec bs arr :
  get_arcs_arr bs arr =
  match get_arcs bs with
  | OArcs l => IArcs (length l) (overlay l arr)
  | OFail => IFail
  | OFuel => IFuel
  end.
Proof.
  unfold get_arcs_arr, get_arcs. destruct (get_single_arc bs) as [|value rd tl| |]; try reflexivity.
  destruct (split_first value) as [a0 a1]. rewrite first_two_overlay.
  change 2%nat with (length [a0; a1]). rewrite get_rest_into_spec.
  destruct (get_rest (S (length tl)) tl); reflexivity.
Qed.

Theorem reloid_get_arcs_arr_spec bs arr :
  reloid_get_arcs_arr bs arr =
  match reloid_get_arcs bs with
  | OArcs l => IArcs (length l) (overlay l arr)
  | OFail => IFail
  | OFuel => IFuel
  end.
Proof.
  unfold reloid_get_arcs_arr, reloid_get_arcs.
  rewrite <- (overlay_nil_l arr) at 1. change 0%nat with (length (@nil Z)).
  rewrite get_rest_into_spec. destruct (get_rest (S (length bs)) bs); reflexivity.
Qed.

(* count independent of the capacity, stored prefix = first min(slots, n) arcs *)
Theorem get_arcs_into_spec bs slots :
  get_arcs_into bs slots =
  match get_arcs bs with
  | OArcs l => Some (length l, firstn slots l)
  | _ => None
  end.
Proof.
  unfold get_arcs_into. rewrite get_arcs_arr_spec.
  destruct (get_arcs bs) as [l| |]; try reflexivity.
  cbn [into]. rewrite firstn_overlay_repeat. reflexivity.
Qed.

Theorem reloid_get_arcs_into_spec bs slots :
  reloid_get_arcs_into bs slots =
  match reloid_get_arcs bs with
  | OArcs l => Some (length l, firstn slots l)
  | _ => None
  end.
Proof.
  unfold reloid_get_arcs_into. rewrite reloid_get_arcs_arr_spec.
  destruct (reloid_get_arcs bs) as [l| |]; try reflexivity.
  cbn [into]. rewrite firstn_overlay_repeat. reflexivity.
Qed.

Theorem get_arcs_count_independent bs s1 s2 :
  option_map fst (get_arcs_into bs s1) = option_map fst (get_arcs_into bs s2) /\
  option_map fst (reloid_get_arcs_into bs s1) = option_map fst (reloid_get_arcs_into bs s2).
Proof.
  rewrite !get_arcs_into_spec, !reloid_get_arcs_into_spec.
  split; [destruct (get_arcs bs)|destruct (reloid_get_arcs bs)]; reflexivity.
Qed.

(* the caller array in full: length kept, prefix stored, the rest untouched *)
Theorem get_arcs_arr_contract bs arr l :
  get_arcs bs = OArcs l ->
  exists arr', get_arcs_arr bs arr = IArcs (length l) arr' /\
               length arr' = length arr /\
               firstn (Nat.min (length l) (length arr)) arr' = firstn (length arr) l /\
               skipn (length l) arr' = skipn (length l) arr.
Proof.
  intros H. exists (overlay l arr). rewrite get_arcs_arr_spec, H.
  repeat split; [apply overlay_length|apply overlay_prefix|apply overlay_untouched].
Qed.

Theorem reloid_get_arcs_arr_contract bs arr l :
  reloid_get_arcs bs = OArcs l ->
  exists arr', reloid_get_arcs_arr bs arr = IArcs (length l) arr' /\
               length arr' = length arr /\
               firstn (Nat.min (length l) (length arr)) arr' = firstn (length arr) l /\
               skipn (length l) arr' = skipn (length l) arr.
Proof.
  intros H. exists (overlay l arr). rewrite reloid_get_arcs_arr_spec, H.
  repeat split; [apply overlay_length|apply overlay_prefix|apply overlay_untouched].
Qed.

(* set, then read back into an array of ANY size: the sizing idiom
   (slots = 0 returns n; slots = n returns the vector) is the two instances *)
Theorem oid_roundtrip_slots arc0 arc1 tl :
  valid_first_pair arc0 arc1 -> Forall arc_ok tl ->
  exists bs, set_arcs (arc0 :: arc1 :: tl) = SetOk bs /\
    forall slots, get_arcs_into bs slots
                  = Some (length (arc0 :: arc1 :: tl), firstn slots (arc0 :: arc1 :: tl)).
Proof.
  intros Hv Ht. destruct (oid_roundtrip arc0 arc1 tl Hv Ht) as (bs & Hs & Hg).
  exists bs. split; [exact Hs|]. intros slots. rewrite get_arcs_into_spec, Hg. reflexivity.
Qed.

Theorem oid_sizing_idiom arc0 arc1 tl :
  valid_first_pair arc0 arc1 -> Forall arc_ok tl ->
  exists bs n, set_arcs (arc0 :: arc1 :: tl) = SetOk bs /\
    get_arcs_into bs 0 = Some (n, []) /\
    get_arcs_into bs n = Some (n, arc0 :: arc1 :: tl).
Proof.
  intros Hv Ht. destruct (oid_roundtrip_slots arc0 arc1 tl Hv Ht) as (bs & Hs & Hg).
  exists bs, (length (arc0 :: arc1 :: tl)). split; [exact Hs|]. split.
  - rewrite Hg. reflexivity.
  - rewrite Hg, firstn_all. reflexivity.
Qed.

Theorem reloid_roundtrip_slots arcs : Forall arc_ok arcs ->
  exists bs, reloid_set_arcs arcs = SetOk bs /\
    forall slots, reloid_get_arcs_into bs slots = Some (length arcs, firstn slots arcs).
Proof.
  intros Ha. destruct (reloid_roundtrip arcs Ha) as (bs & Hs & Hg & _).
  exists bs. split; [exact Hs|]. intros slots. rewrite reloid_get_arcs_into_spec, Hg. reflexivity.
Qed.

(* ------------------------------------------------------------------ *)
(* parse_arcs *)
Definition lift_p (arr0 : list Z) (r : pres) : qres :=
  match r with
  | POk l e => QOk (length l) (overlay l arr0) e
  | PEinval e => QEinval e
  | PErange e => QErange e
  | PFuel => QFuel
  end.

Lemma parse_loop_into_S k cs st pos num arr :
  parse_loop_into (S k) cs st pos num arr =
  match cs with
  | [] => parse_finish_into st pos num arr
  | c :: tl =>
      if is_ws c then
        match st with
        | LeadSpace | TailSpace => parse_loop_into k tl st (pos + 1) num arr
        | AfterValue => parse_loop_into k tl TailSpace (pos + 1) num arr
        | WaitDigits => parse_finish_into WaitDigits pos num arr
        end
      else if c =? 46 then
        match st with
        | AfterValue => parse_loop_into k tl WaitDigits (pos + 1) num arr
        | _ => QEinval pos
        end
      else if is_digit c then
        match st with
        | TailSpace | AfterValue => QEinval pos
        | LeadSpace | WaitDigits =>
            match strtoul_lim cs with
            | (SOk, p, value) | (SExtra, p, value) =>
                if value <=? arc_max
                then parse_loop_into k (skipn (Z.to_nat p) cs) AfterValue (pos + p)
                                     (S num) (store arr num value)
                else QErange pos
            | (SRange, _, _) => QErange pos
            | (_, _, _) => QEinval pos
            end
        end
      else parse_finish_into WaitDigits pos num arr
  end.
Proof. reflexivity. Qed.

Lemma parse_finish_into_spec st pos racc arr0 :
  (st = LeadSpace -> racc = []) ->
  parse_finish_into st pos (length racc) (overlay (rev racc) arr0)
  = lift_p arr0 (parse_finish st pos racc).
Proof.
  intros Hi. destruct st; cbn [parse_finish_into parse_finish lift_p].
  - rewrite (Hi eq_refl). reflexivity.
  - rewrite rev_length. reflexivity.
  - rewrite rev_length. reflexivity.
  - reflexivity.
Qed.

Lemma parse_capture_step racc arr0 v :
  store (overlay (rev racc) arr0) (length racc) v = overlay (rev (v :: racc)) arr0.
Proof.
  rewrite <- (rev_length racc). rewrite store_overlay. reflexivity.
Qed.

Lemma parse_loop_into_spec fuel : forall cs st pos racc arr0,
  (st = LeadSpace -> racc = []) ->
  parse_loop_into fuel cs st pos (length racc) (overlay (rev racc) arr0)
  = lift_p arr0 (parse_loop fuel cs st pos racc).
Proof.
  induction fuel as [|k IH]; intros cs st pos racc arr0 Hi; [reflexivity|].
  rewrite parse_loop_into_S, parse_loop_S. destruct cs as [|c tl].
  - apply parse_finish_into_spec. exact Hi.
  - destruct (is_ws c).
    { destruct st.
      - apply IH. exact Hi.
      - apply IH. discriminate.
      - apply IH. discriminate.
      - apply parse_finish_into_spec. discriminate. }
    destruct (c =? 46).
    { destruct st; try reflexivity. apply IH. discriminate. }
    destruct (is_digit c); [|apply parse_finish_into_spec; discriminate].
    destruct st; try reflexivity;
      (destruct (strtoul_lim (c :: tl)) as [[s p] v];
       destruct s; try reflexivity;
       (destruct (v <=? arc_max); [|reflexivity]);
       rewrite parse_capture_step;
       change (S (length racc)) with (length (v :: racc));
       apply IH; discriminate).
Qed.

Theorem parse_arcs_arr_spec cs arr :
  parse_arcs_arr cs arr =
  match parse_arcs cs with
  | POk l e => QOk (length l) (overlay l arr) e
  | PEinval e => QEinval e
  | PErange e => QErange e
  | PFuel => QFuel
  end.
Proof.
  unfold parse_arcs_arr, parse_arcs.
  rewrite <- (overlay_nil_l arr) at 1.
  change (overlay [] arr) with (overlay (rev []) arr).
  change 0%nat with (length (@nil Z)).
  rewrite parse_loop_into_spec by reflexivity.
  destruct (parse_loop (S (length cs)) cs LeadSpace 0 []); reflexivity.
Qed.

Theorem parse_arcs_into_spec cs slots :
  parse_arcs_into cs slots =
  match parse_arcs cs with
  | POk l _ => Some (length l, firstn slots l)
  | _ => None
  end.
Proof.
  unfold parse_arcs_into. rewrite parse_arcs_arr_spec.
  destruct (parse_arcs cs) as [l e| | |]; try reflexivity.
  rewrite firstn_overlay_repeat. reflexivity.
Qed.

Theorem parse_arcs_count_independent cs s1 s2 :
  option_map fst (parse_arcs_into cs s1) = option_map fst (parse_arcs_into cs s2).
Proof. rewrite !parse_arcs_into_spec. destruct (parse_arcs cs); reflexivity. Qed.

Theorem parse_arcs_arr_contract cs arr l e :
  parse_arcs cs = POk l e ->
  exists arr', parse_arcs_arr cs arr = QOk (length l) arr' e /\
               length arr' = length arr /\
               firstn (Nat.min (length l) (length arr)) arr' = firstn (length arr) l /\
               skipn (length l) arr' = skipn (length l) arr.
Proof.
  intros H. exists (overlay l arr). rewrite parse_arcs_arr_spec, H.
  repeat split; [apply overlay_length|apply overlay_prefix|apply overlay_untouched].
Qed.

(* the dotted text of a vector, white space around, into ANY number of slots
   (0 slots: the count only — what the XER decoders rely on when the text has
   more arcs than their fixed array) *)
Theorem oid_text_slots_ws dss ws1 ws2 slots :
  dss <> [] -> Forall numeral_ok dss -> ws_ok ws1 -> ws_ok ws2 ->
  parse_arcs_into (ws1 ++ dotted dss ++ ws2) slots
  = Some (length dss, firstn slots (map num dss)).
Proof.
  intros H1 H2 H3 H4. rewrite parse_arcs_into_spec.
  rewrite (oid_text_roundtrip_ws dss ws1 ws2 H1 H2 H3 H4), map_length. reflexivity.
Qed.

Theorem oid_text_slots arcs slots : arcs <> [] -> Forall arc_ok arcs ->
  parse_arcs_into (oid_text arcs) slots = Some (length arcs, firstn slots arcs).
Proof.
  intros H1 H2. rewrite parse_arcs_into_spec, (oid_text_roundtrip arcs H1 H2). reflexivity.
Qed.

(* ------------------------------------------------------------------ *)
(* get_single_arc / get_first_arcs on every length of the caller's buffer:
   [k] octets of (the subidentifier of v followed by anything) *)
Lemma gsa_all_cont xs : xs <> [] -> Forall (fun x => 128 <= x) xs -> get_single_arc xs = GEinval.
Proof.
  intros Hne Hx. destruct xs as [|x tl]; [congruence|]. unfold get_single_arc.
  rewrite <- (app_nil_r (x :: tl)). rewrite gsa_loop_skip by exact Hx. reflexivity.
Qed.

Theorem single_arc_buffer_len v rest k : arc_ok v ->
  get_single_arc (firstn k (arc_octets v ++ rest)) =
  if (k =? 0)%nat then GNone
  else if (k <? length (arc_octets v))%nat then GEinval
  else GOk v (zlen (arc_octets v)) (firstn (k - length (arc_octets v)) rest).
Proof.
  intros Hv. destruct (Nat.eqb_spec k 0) as [Hk|Hk]; [subst; reflexivity|].
  destruct (Nat.ltb_spec k (length (arc_octets v))) as [Hlt|Hge].
  - rewrite firstn_app. replace (k - length (arc_octets v))%nat with 0%nat by lia.
    cbn [firstn]. rewrite app_nil_r.
    unfold arc_ok in Hv. rewrite (arc_octets_spec v Hv) in *.
    set (hi := hi_bytes 4 (v / 128)) in *.
    rewrite app_length in Hlt. cbn [length] in Hlt.
    rewrite firstn_app. replace (k - length hi)%nat with 0%nat by lia.
    cbn [firstn]. rewrite app_nil_r.
    apply gsa_all_cont.
    + destruct k; [lia|]. destruct hi; [cbn [length] in Hlt; lia|]. discriminate.
    + apply Forall_cont_ge. subst hi.
      pose proof (hi_bytes_cont 4 (v / 128)) as Hc.
      rewrite <- (firstn_skipn k) in Hc. apply Forall_app in Hc. apply Hc.
  - rewrite firstn_app, firstn_all2 by lia.
    apply get_single_arc_octets. exact Hv.
Qed.

Theorem first_arcs_buffer_len arc0 arc1 rest k :
  valid_first_pair arc0 arc1 ->
  let e := arc_octets (40 * arc0 + arc1) in
  get_first_arcs (firstn k (e ++ rest)) =
  if (k =? 0)%nat then FNone
  else if (k <? length e)%nat then FEinval
  else FOk arc0 arc1 (zlen e) (firstn (k - length e) rest).
Proof.
  intros Hv e. unfold get_first_arcs. subst e.
  assert (Ha : arc_ok (40 * arc0 + arc1)).
  { unfold arc_ok, valid_first_pair, arc_max, two32 in *. lia. }
  rewrite (single_arc_buffer_len _ rest k Ha).
  destruct (k =? 0)%nat; [reflexivity|].
  destruct (k <? length (arc_octets (40 * arc0 + arc1)))%nat; [reflexivity|].
  replace (40 * arc0 + arc1) with (arc0 * 40 + arc1) by lia.
  destruct (split_first_join arc0 arc1 Hv) as [Hs _]. rewrite Hs. reflexivity.
Qed.

(* non-vacuity *)
Example slots_example_small :
  get_arcs_into [42; 134; 72; 134; 247; 13] 0 = Some (4%nat, []) /\
  get_arcs_into [42; 134; 72; 134; 247; 13] 1 = Some (4%nat, [1]) /\
  get_arcs_into [42; 134; 72; 134; 247; 13] 3 = Some (4%nat, [1; 2; 840]) /\
  get_arcs_into [42; 134; 72; 134; 247; 13] 6 = Some (4%nat, [1; 2; 840; 113549]) /\
  get_arcs_arr [42; 134; 72; 134; 247; 13] [7; 7; 7; 7; 7; 7] = IArcs 4 [1; 2; 840; 113549; 7; 7].
Proof. vm_compute. repeat split; reflexivity. Qed.

Example slots_example_parse :
  parse_arcs_arr [49; 46; 50; 46; 51] [9] = QOk 3 [1] 5 /\
  parse_arcs_arr [49; 46; 50; 46; 51] [] = QOk 3 [] 5 /\
  parse_arcs_arr [32; 32] [9] = QOk 0 [9] 2.
Proof. vm_compute. repeat split; reflexivity. Qed.
