(* Leaf/IntegerConv.v — executable model of the INTEGER <-> C integer helpers of
   skeletons/INTEGER.c (LP64: long = intmax_t = 64 bit):
     asn_imax2INTEGER asn_umax2INTEGER asn_long2INTEGER asn_ulong2INTEGER
     asn_INTEGER2imax asn_INTEGER2umax asn_INTEGER2long asn_INTEGER2ulong
     asn_strtoimax_lim asn_strtoumax_lim asn_strtol_lim asn_strtoul_lim
   An INTEGER_t is its contents octets (list Z); NULL arguments (EINVAL) and
   allocation failure are not modelled here. *)
From Coq Require Import ZArith List Lia Bool.
From A1 Require Import Base.Bytes.
Import ListNotations.
Local Open Scope Z_scope.

Definition two63 : Z := 9223372036854775808.
Definition two64 : Z := 18446744073709551616.

(* reinterpretation of a 64-bit register *)
Definition to_signed64 (u : Z) : Z := if u <? two63 then u else u - two64.
Definition to_unsigned64 (v : Z) : Z := v mod two64.

Inductive cres (A : Type) := COk (a : A) | CErange.
Arguments COk {A} a.
Arguments CErange {A}.

(* The strip loop shared by asn_imax2INTEGER (over the bytes of the C value)
   and asn_INTEGER2imax (over the contents octets):
     for(; p < last; p++) switch( *p ) {
       case 0x00: if((p[1] & 0x80) == 0) continue; break;
       case 0xff: if((p[1] & 0x80) != 0) continue; break; } break;  *)
Fixpoint strip (bs : list Z) : list Z :=
  match bs with
  | b :: ((b1 :: _) as tl) =>
      if (b =? 0) && (b1 <? 128) then strip tl
      else if (b =? 255) && (128 <=? b1) then strip tl
      else bs
  | _ => bs
  end.

(* asn_imax2INTEGER: the 8 bytes of the value, big-endian, stripped *)
Definition imax2INTEGER (v : Z) : list Z := strip (be_bytes 8 (to_unsigned64 v)).
Definition long2INTEGER (v : Z) : list Z := imax2INTEGER v.

(* asn_umax2INTEGER *)
Definition umax2INTEGER (u : Z) : list Z :=
  if u <=? two63 - 1 then imax2INTEGER u
  else 0 :: be_bytes 8 u.

(* asn_ulong2INTEGER passes its unsigned argument to asn_imax2INTEGER, i.e.
   the value is reinterpreted as signed *)
Definition ulong2INTEGER (u : Z) : list Z := imax2INTEGER (to_signed64 u).

(* asn__integer_convert *)
Definition integer_convert (bs : list Z) : Z :=
  match bs with
  | [] => 0
  | b :: _ =>
      let init := if 128 <=? b then two64 - 1 else 0 in
      to_signed64 (fold_left (fun a x => (a * 256) mod two64 + x) bs init)
  end.

Definition INTEGER2imax (bs : list Z) : cres Z :=
  let bs' := if (8 <? zlen bs) then strip bs else bs in
  if 8 <? zlen bs' then CErange
  else match bs' with
       | [] => COk 0
       | _ => COk (integer_convert bs')
       end.

(* for(; size > sizeof(value); b++, size--) if( *b ) ERANGE *)
Fixpoint skip_zeros (n : nat) (bs : list Z) : option (list Z) :=
  match n with
  | O => Some bs
  | S k => match bs with
           | [] => Some bs
           | b :: tl => if b =? 0 then skip_zeros k tl else None
           end
  end.

Definition INTEGER2umax (bs : list Z) : cres Z :=
  match skip_zeros (length bs - 8) bs with
  | None => CErange
  | Some bs' => COk (fold_left (fun a x => (a * 256) mod two64 + x) bs' 0)
  end.

(* LONG_MIN/LONG_MAX = INTMAX_MIN/INTMAX_MAX on LP64; the test is kept *)
Definition INTEGER2long (bs : list Z) : cres Z :=
  match INTEGER2imax bs with
  | COk v => if (v <? - two63) || (two63 - 1 <? v) then CErange else COk v
  | CErange => CErange
  end.

Definition INTEGER2ulong (bs : list Z) : cres Z :=
  match INTEGER2umax bs with
  | COk v => if two64 - 1 <? v then CErange else COk v
  | CErange => CErange
  end.

(* ------------------------------------------------------------------ *)
(* asn_strto{imax,umax}_lim on the bytes between str and *end.
   Result: status, number of characters consumed (new *end - str; for
   ERROR_INVAL the C leaves *end alone, reported here as 0), value. *)
Inductive strtox := SOk | SRange | SInval | SMore | SExtra.

Definition is_digit (c : Z) : bool := (48 <=? c) && (c <=? 57).

(* The digit loop shared (textually duplicated in the C) by asn_strtoimax_lim
   and asn_strtoumax_lim.  [value] is the magnitude accumulated so far (the C
   keeps it positive until the boundary step), [neg] is sign < 0,
   [upper] = MAX / 10 and [ldm] = last_digit_max. *)
Fixpoint strtox_loop (upper ldm : Z) (neg : bool) (cs : list Z) (value : Z) (pos : Z)
  : strtox * Z * Z :=
  let fin v := if neg then - v else v in
  match cs with
  | [] => (SOk, pos, fin value)
  | c :: tl =>
      if is_digit c then
        let d := c - 48 in
        if value <? upper then strtox_loop upper ldm neg tl (value * 10 + d) (pos + 1)
        else if value =? upper then
          if d <=? ldm then
            let v := if neg then - value * 10 - d else value * 10 + d in
            match tl with
            | [] => (SOk, pos + 1, v)
            | c' :: _ => if is_digit c' then (SRange, pos + 1, 0)
                         else (SExtra, pos + 1, v)
            end
          else (SRange, pos, 0)
        else (SRange, pos, 0)
      else (SExtra, pos, fin value)
  end.

Definition strtoimax_loop (neg : bool) (ldm : Z) := strtox_loop ((two63 - 1) / 10) ldm neg.

Definition strtoimax_lim (cs : list Z) : strtox * Z * Z :=
  let ldm := (two63 - 1) mod 10 in
  match cs with
  | [] => (SInval, 0, 0)
  | c :: tl =>
      if c =? 45 then                          (* '-' *)
        match tl with
        | [] => (SMore, 1, 0)
        | _ => strtoimax_loop true (ldm + 1) tl 0 1
        end
      else if c =? 43 then                     (* '+' *)
        match tl with
        | [] => (SMore, 1, 0)
        | _ => strtoimax_loop false ldm tl 0 1
        end
      else strtoimax_loop false ldm cs 0 0
  end.

Definition strtoumax_loop := strtox_loop ((two64 - 1) / 10) ((two64 - 1) mod 10) false.

Definition strtoumax_lim (cs : list Z) : strtox * Z * Z :=
  match cs with
  | [] => (SInval, 0, 0)
  | c :: tl =>
      if c =? 45 then (SInval, 0, 0)
      else if c =? 43 then
        match tl with
        | [] => (SMore, 1, 0)
        | _ => strtoumax_loop tl 0 1
        end
      else strtoumax_loop cs 0 0
  end.

(* asn_strtol_lim / asn_strtoul_lim: range filter on top (identity on LP64) *)
Definition strtol_lim (cs : list Z) : strtox * Z * Z :=
  match strtoimax_lim cs with
  | (SOk, p, v) => if (- two63 <=? v) && (v <=? two63 - 1) then (SOk, p, v) else (SRange, p, 0)
  | (SExtra, p, v) => if (- two63 <=? v) && (v <=? two63 - 1) then (SExtra, p, v) else (SRange, p, 0)
  | r => r
  end.

Definition strtoul_lim (cs : list Z) : strtox * Z * Z :=
  match strtoumax_lim cs with
  | (SOk, p, v) => if v <=? two64 - 1 then (SOk, p, v) else (SRange, p, 0)
  | (SExtra, p, v) => if v <=? two64 - 1 then (SExtra, p, v) else (SRange, p, 0)
  | r => r
  end.
