(* Leaf/DecimalProofs.v — the decimal printer produces the numeral of its argument *)
From Coq Require Import ZArith List Lia Bool ZifyBool.
From A1 Require Import Base.Bytes Leaf.IntegerConv Leaf.StrtoxProofs Leaf.Decimal.
Import ListNotations.
Local Open Scope Z_scope.

Ltac Zify.zify_post_hook ::= Z.div_mod_to_equations.

Lemma pow10_S k : 10 ^ Z.of_nat (S k) = 10 * 10 ^ Z.of_nat k.
Proof. rewrite Nat2Z.inj_succ, Z.pow_succ_r by lia. reflexivity. Qed.

Lemma pow10_nat_pos k : 0 < 10 ^ Z.of_nat k.
Proof. apply Z.pow_pos_nonneg; lia. Qed.

Lemma num_app a b : num (a ++ b) = num a * 10 ^ zlen b + num b.
Proof.
  induction a as [|c tl IH]; cbn [app num]; [lia|].
  rewrite IH, zlen_app, Z.pow_add_r by apply zlen_nonneg. ring.
Qed.

Lemma num_single c : num [c] = c - 48.
Proof. cbn [num]. unfold zlen. cbn [length Z.of_nat]. rewrite Z.pow_0_r. lia. Qed.

Lemma digits_ok_app a b : digits_ok a -> digits_ok b -> digits_ok (a ++ b).
Proof. intros; apply Forall_app; split; assumption. Qed.

Lemma dec_loop_S k v acc :
  dec_loop (S k) v acc =
  if v / 10 =? 0 then (48 + v mod 10) :: acc else dec_loop k (v / 10) ((48 + v mod 10) :: acc).
Proof. reflexivity. Qed.

Lemma dec_loop_spec k : forall v acc, 0 <= v < 10 ^ Z.of_nat (S k) ->
  exists ds, dec_loop (S k) v acc = ds ++ acc /\ digits_ok ds /\ ds <> [] /\ num ds = v /\
             forall j, v < 10 ^ Z.of_nat (S j) -> (length ds <= S j)%nat.
Proof.
  induction k as [|k IH]; intros v acc Hv; rewrite dec_loop_S.
  - change (10 ^ Z.of_nat 1) with 10 in Hv.
    destruct (v / 10 =? 0) eqn:E; [|lia].
    exists [48 + v mod 10]. split; [reflexivity|]. split.
    { constructor; [unfold is_digit; lia|constructor]. }
    split; [discriminate|]. split; [rewrite num_single; lia|]. intros; simpl; lia.
  - destruct (v / 10 =? 0) eqn:E.
    + exists [48 + v mod 10]. split; [reflexivity|]. split.
      { constructor; [unfold is_digit; lia|constructor]. }
      split; [discriminate|]. split; [rewrite num_single; lia|]. intros; simpl; lia.
    + rewrite pow10_S in Hv. pose proof (pow10_nat_pos (S k)) as HP.
      assert (Hq : 0 <= v / 10 < 10 ^ Z.of_nat (S k)).
      { split; [apply Z.div_pos; lia|apply Z.div_lt_upper_bound; lia]. }
      destruct (IH (v / 10) ((48 + v mod 10) :: acc) Hq) as (ds & Hds & Hok & Hne & Hnum & Hlen).
      exists (ds ++ [48 + v mod 10]). rewrite Hds, <- app_assoc. split; [reflexivity|]. split.
      { apply digits_ok_app; [exact Hok|]. constructor; [unfold is_digit; lia|constructor]. }
      split; [destruct ds; discriminate|]. split.
      { rewrite num_app, Hnum, num_single. change (zlen [48 + v mod 10]) with 1. lia. }
      intros j Hj. rewrite app_length. cbn [length].
      destruct j as [|j].
      * change (10 ^ Z.of_nat 1) with 10 in Hj. lia.
      * rewrite pow10_S in Hj. pose proof (pow10_nat_pos (S j)).
        assert (Hq' : v / 10 < 10 ^ Z.of_nat (S j)) by (apply Z.div_lt_upper_bound; lia).
        specialize (Hlen j Hq'). lia.
Qed.

Theorem dec_digits_spec v : 0 <= v < 10 ^ 20 ->
  digits_ok (dec_digits v) /\ dec_digits v <> [] /\ num (dec_digits v) = v /\
  forall j, v < 10 ^ Z.of_nat (S j) -> (length (dec_digits v) <= S j)%nat.
Proof.
  intros Hv. unfold dec_digits.
  destruct (dec_loop_spec 19 v [] Hv) as (ds & Hds & H). rewrite Hds, app_nil_r. exact H.
Qed.

Lemma digits_ok_repeat n : digits_ok (repeat 48 n).
Proof. induction n; cbn [repeat]; constructor; [reflexivity|assumption]. Qed.

Lemma num_repeat0 n ds : num (repeat 48 n ++ ds) = num ds.
Proof. induction n; cbn [repeat app num]; [reflexivity|]. rewrite IHn. lia. Qed.

(* "%0<w>d" of 0 <= n < 10^w: exactly w digits whose numeral is n *)
Theorem fmt_d_spec w n : (1 <= w <= 19)%nat -> 0 <= n < 10 ^ Z.of_nat w ->
  digits_ok (fmt_d w n) /\ length (fmt_d w n) = w /\ num (fmt_d w n) = n.
Proof.
  intros Hw Hn. unfold fmt_d. destruct (n <? 0) eqn:E; [lia|].
  assert (Hn20 : 0 <= n < 10 ^ 20).
  { split; [lia|]. eapply Z.lt_le_trans; [apply Hn|].
    apply Z.pow_le_mono_r; lia. }
  destruct (dec_digits_spec n Hn20) as (Hok & Hne & Hnum & Hlen).
  destruct w as [|w']; [lia|]. specialize (Hlen w' (proj2 Hn)).
  split; [apply digits_ok_app; [apply digits_ok_repeat|exact Hok]|]. split.
  - rewrite app_length, repeat_length. lia.
  - rewrite num_repeat0. exact Hnum.
Qed.
