(* Extract.v — extraction of the executable model to OCaml.
   Only ExtrOcamlBasic is used (bool, option, unit, list, prod, sumbool, sumor
   mapped to OCaml's own; andb/orb/negb inlined); numbers stay Coq's
   positive/N/Z inductives.  No Extract Constant directive. *)
From Coq Require Extraction ExtrOcamlBasic.
From A1 Require Import Base.Bytes Leaf.IntegerConv.
Extraction Language OCaml.
Set Extraction KeepSingleton.

Extraction "model.ml"
  Bytes.be_val Bytes.be_bytes Bytes.twos_value Bytes.minimal_twos Bytes.bytes_okb
  IntegerConv.imax2INTEGER IntegerConv.long2INTEGER IntegerConv.umax2INTEGER
  IntegerConv.ulong2INTEGER IntegerConv.INTEGER2imax IntegerConv.INTEGER2umax
  IntegerConv.INTEGER2long IntegerConv.INTEGER2ulong
  IntegerConv.strtoimax_lim IntegerConv.strtoumax_lim IntegerConv.strtol_lim
  IntegerConv.strtoul_lim.
