(* Properties_C08.v — constraint validation accepts exactly the allowed values.
   Model and Spec: coq/Rt/Constraints.v; proofs: coq/Rt/ConstraintsProofs.v; tied to the
   C by checks/c08.py.  What is stated here:
   - inside the decidable region [safe] (non-extensible value / SIZE constraints, unions of
     ranges; see the definition for what it excludes) the model of asn_check_constraints
     accepts a value if and only if every component at every nesting depth satisfies its
     constraints ([satisfies]), for values the C types can hold ([repr]);
   - the full statement is false of the code: witnesses outside [safe] (the open known findings: SIZE of an
     OF definition, EXCEPT, values beyond 64 bits in a half-open range);
   - the checker is a structural function of type and value (no fuel): it terminates;
   - for every vsnprintf return value and every buffer size >= 1, _asn_i_ctfailcb leaves
     errlen <= size - 1 and a NUL at errbuf[errlen], inside the buffer. *)
From Coq Require Import ZArith List Bool.
From A1 Require Import Rt.Types Fix.Crange Rt.Constraints Rt.ConstraintsProofs.
Import ListNotations.
Local Open Scope Z_scope.

(* w: the module was compiled with -fwide-types *)
Theorem C08_check_exact_partial : forall w t v, safe w t false = true -> repr w t v = true ->
  (check w t v = ROk <-> satisfies t v = true).
Proof. exact check_exact_partial. Qed.
Print Assumptions C08_check_exact_partial.

(* the same at every slot (member / alternative / element / behind a reference) *)
Theorem C08_check_exact_at_every_depth_partial : forall w t slot v, safe w t slot = true -> repr w t v = true ->
  (chk w t slot v = ROk <-> satisfies t v = true).
Proof. exact chk_exact. Qed.
Print Assumptions C08_check_exact_at_every_depth_partial.

Theorem C08_check_exact_refuted : exists t v, repr false t v = true /\ check_ok false t v <> satisfies t v.
Proof. exact check_exact_refuted. Qed.
Print Assumptions C08_check_exact_refuted.

Theorem C08_refuted_of_size_unchecked : exists t v,
  repr false t v = true /\ check false t v = ROk /\ satisfies t v = false.
Proof. exact refuted_of_size_unchecked. Qed.
Print Assumptions C08_refuted_of_size_unchecked.

Theorem C08_refuted_except_ignored : exists t v,
  repr false t v = true /\ check false t v = ROk /\ satisfies t v = false.
Proof. exact refuted_except_ignored. Qed.
Print Assumptions C08_refuted_except_ignored.

Theorem C08_refuted_wide_open_range : exists t v,
  repr false t v = true /\ check false t v = RFail WTooLarge /\ satisfies t v = true.
Proof. exact refuted_wide_open_range. Qed.
Print Assumptions C08_refuted_wide_open_range.

(* the generated leaf checkers alone *)
Theorem C08_integer_checker_exact_partial : forall w ps exc z, int_safe w ps exc = true -> int_repr w ps z = true ->
  (int_check w ps z = ROk <-> sat_int ps exc z = true).
Proof. exact int_check_exact. Qed.
Print Assumptions C08_integer_checker_exact_partial.

(* ... and for every value that can be read out of its INTEGER_t, whatever the bounds *)
Theorem C08_integer_checker_exact_readable_partial : forall w ps exc z, int_safe_core w ps exc = true -> int_repr w ps z = true ->
  (int_wide_ok w ps = true \/ int_readable w ps z = true) ->
  (int_check w ps z = ROk <-> sat_int ps exc z = true).
Proof. exact int_check_exact_gen. Qed.
Print Assumptions C08_integer_checker_exact_readable_partial.

(* half-open ranges (MIN..b), (a..MAX) with ANY finite bound, with and without -fwide-types:
   no side condition on the type at all *)
Theorem C08_half_open_range_exact : forall w p z, half_open p = true ->
  int_repr w [p] z = true -> int_readable w [p] z = true ->
  (int_check w [p] z = ROk <-> in_pair z p = true).
Proof. exact half_open_exact. Qed.
Print Assumptions C08_half_open_range_exact.

(* the decision order of emit_range_comparison_code: a half-open range is never emitted as the
   single-value test `v == bound` nor as a two-sided test *)
Theorem C08_half_open_range_text : forall ns p, half_open p = true ->
  match emit1 ns None p with
  | Some (CEq _) | Some (CBetween _ _) => False
  | Some (CLe v) => is_min (fst p) = true /\ v = edge_val (snd p)
  | Some (CGe v) => is_max (snd p) = true /\ v = edge_val (fst p)
  | None => is_max (snd p) = true /\ exists s, ns = Some s /\ edge_val (fst p) <= s
  end.
Proof. exact half_open_text. Qed.
Print Assumptions C08_half_open_range_text.

Theorem C08_size_checker_exact_partial : forall sz n, size_safe sz = true -> 0 <= n ->
  (size_check sz n = ROk <-> sat_size sz n = true).
Proof. exact size_check_exact. Qed.
Print Assumptions C08_size_checker_exact_partial.

(* single ranges of Rt.Types: the Spec is in_icon / in_scon *)
Theorem C08_spec_is_in_icon : forall c z, icon_ext c = false -> sat_int (icon_parts c) [] z = in_icon c z.
Proof. exact icon_parts_sat. Qed.
Print Assumptions C08_spec_is_in_icon.

Theorem C08_spec_is_in_scon : forall s n, scon_ext s = false -> 0 <= n -> sat_size (scon_parts s) n = in_scon s n.
Proof. exact scon_parts_sat. Qed.
Print Assumptions C08_spec_is_in_scon.

Theorem C08_check_total : forall w t v, exists r, check w t v = r.
Proof. exact check_total. Qed.
Print Assumptions C08_check_total.

Theorem C08_errmsg_bounded : forall maxlen vlen : Z, 1 <= maxlen ->
  exists errlen nul, ctfail_clamp maxlen vlen = Some (errlen, nul) /\
    0 <= errlen <= maxlen - 1 /\ nul = errlen /\ 0 <= nul < maxlen /\
    (0 <= vlen < maxlen -> errlen = vlen) /\ (maxlen <= vlen -> errlen = maxlen - 1).
Proof. exact errmsg_bounded. Qed.
Print Assumptions C08_errmsg_bounded.

Theorem C08_errmsg_untouched_without_buffer : forall maxlen vlen : Z, maxlen <= 0 -> ctfail_clamp maxlen vlen = None.
Proof. exact errmsg_untouched. Qed.
Print Assumptions C08_errmsg_untouched_without_buffer.

(* the caller's buffer afterwards, for every buffer size >= 1 and every (NUL-free) message:
   0 <= *errlen < size, errbuf[*errlen] = 0, the bytes before it are the message's first *errlen
   bytes (none of them NUL: strlen(errbuf) = *errlen), and no other byte - inside the buffer or
   beyond it - is written.  vsnprintf is taken by its contract. *)
Theorem C08_errmsg_buffer_exact : forall (f : buffer) (maxlen : Z) (msg : list Z),
  1 <= maxlen -> Forall (fun c => c <> 0) msg ->
  exists errlen, snd (ctfail f maxlen msg) = Some errlen /\
    0 <= errlen < maxlen /\ errlen = Z.min (zlength msg) (maxlen - 1) /\
    fst (ctfail f maxlen msg) errlen = 0 /\
    (forall j, 0 <= j < errlen -> fst (ctfail f maxlen msg) j = msg_at msg j /\
                                  fst (ctfail f maxlen msg) j <> 0) /\
    (forall j, j < 0 \/ errlen < j -> fst (ctfail f maxlen msg) j = f j).
Proof. exact errmsg_buffer_exact. Qed.
Print Assumptions C08_errmsg_buffer_exact.

Theorem C08_errmsg_buffer_untouched_without_buffer : forall (f : buffer) (maxlen : Z) (msg : list Z),
  maxlen <= 0 -> ctfail f maxlen msg = (f, None).
Proof. exact errmsg_buffer_untouched. Qed.
Print Assumptions C08_errmsg_buffer_untouched_without_buffer.

(* ------------------------------------------------------------------ permitted alphabets (Rt/Alphabet.v)
   [a] is the canonical alphabet (sorted, disjoint intervals; ANY number of them, ANY codes >= 0);
   [table_of_alphabet a] is the initialiser asn1c prints for permitted_alphabet_table_N[]. *)
From A1 Require Import Rt.Alphabet Rt.AlphabetProofs.

(* lookup in the emitted table = membership in the alphabet, for every code *)
Theorem C08_alphabet_table_lookup_exact : forall a c, wf_alpha a -> 0 <= c ->
  (lookup (table_of_alphabet a) c <> 0 <-> in_alpha a c = true).
Proof. exact table_lookup_exact. Qed.
Print Assumptions C08_alphabet_table_lookup_exact.

(* cell = rank of the character among the permitted ones *)
Theorem C08_alphabet_table_cell_is_rank : forall a c, wf_alpha a -> in_alpha a c = true ->
  lookup (table_of_alphabet a) c = rank a c.
Proof. exact table_cell_is_rank. Qed.
Print Assumptions C08_alphabet_table_cell_is_rank.

(* whole rows of 16, the row of the highest character included, inside the declared array *)
Theorem C08_alphabet_table_rows : forall a, wf_alpha a ->
  zlength (table_of_alphabet a) mod 16 = 0 /\
  alpha_stop a < zlength (table_of_alphabet a) <= alpha_stop a + 16 /\
  forall size, size mod 16 = 0 -> alpha_stop a < size -> zlength (table_of_alphabet a) <= size.
Proof. exact table_rows. Qed.
Print Assumptions C08_alphabet_table_rows.

Theorem C08_alphabet_code2value_exact : forall a size c, wf_alpha a ->
  (In c (code2value a size) <-> 0 <= c < size /\ in_alpha a c = true).
Proof. exact code2value_exact. Qed.
Print Assumptions C08_alphabet_code2value_exact.

Theorem C08_alphabet_code2value_cardinal : forall a size, wf_alpha a -> alpha_stop a < size ->
  cardinal (table_of_alphabet a) = zlength (code2value a size).
Proof. exact code2value_cardinal. Qed.
Print Assumptions C08_alphabet_code2value_cardinal.

(* the generated loop (table or range comparisons, 1-, 2-, 4-octet units) decides membership of
   every character exactly *)
Theorem C08_alphabet_check_exact : forall k gs a units, wf_alpha a -> k <> KU -> alpha_stop a <= natural_stop k ->
  Forall (fun cv => 0 <= cv <= natural_stop k) units ->
  alpha_check k gs a units = alpha_sat a units.
Proof. exact alpha_check_exact. Qed.
Print Assumptions C08_alphabet_check_exact.

Theorem C08_alphabet_check_utf8_table_partial : forall gs a octets, wf_alpha a -> use_table KU a = true ->
  Forall (fun b => 0 <= b) octets ->
  alpha_check KU gs a octets = forallb (fun b => (b <? 128) && in_alpha a b) octets.
Proof. exact alpha_check_utf8_table. Qed.
Print Assumptions C08_alphabet_check_utf8_table_partial.

(* finding C08-utf8-from-unchecked *)
Theorem C08_alphabet_check_utf8_refuted : exists gs a units,
  wf_alpha a /\ alpha_check KU gs a units = true /\ alpha_sat a units = false.
Proof. exact alpha_check_utf8_refuted. Qed.
Print Assumptions C08_alphabet_check_utf8_refuted.

(* rounding the DISTANCE range_stop - range_start up to rows of 16 (instead of the COUNT of cells)
   is not what the code does, and would be wrong: *)
Theorem C08_alphabet_distance_rounding_refuted : exists a c, wf_alpha a /\ in_alpha a c = true /\
  lookup (cells_upto (round16_distance (alpha_stop a)) a) c = 0 /\
  lookup (table_of_alphabet a) c <> 0.
Proof. exact distance_rounding_refuted. Qed.
Print Assumptions C08_alphabet_distance_rounding_refuted.

Theorem C08_alphabet_distance_rounding_loses_top : forall a, wf_alpha a -> alpha_stop a mod 16 = 0 ->
  in_alpha a (alpha_stop a) = true /\
  lookup (cells_upto (round16_distance (alpha_stop a)) a) (alpha_stop a) = 0.
Proof. exact distance_rounding_loses_top. Qed.
Print Assumptions C08_alphabet_distance_rounding_loses_top.

(* ------------------------------------------------------------------ hand-over to the element walker (Rt/ConstraintsWalk.v)
   a list type reached through a reference that carries its own SIZE (`T ::= L (SIZE(..))`, member
   `m L (SIZE(..))`): the generated checker accepts iff the SIZE test passes AND every element passes its
   own checker — no side condition on the constraints. *)
From A1 Require Import Rt.ConstraintsWalk.

Theorem C08_reference_definition_checks_elements : forall w sz e vs,
  check w (CRef true (CSeqOf sz e)) (VList vs) = ROk <->
  size_check sz (zlength vs) = ROk /\ forall v, In v vs -> chk w e true v = ROk.
Proof. exact reference_definition_checks_elements. Qed.
Print Assumptions C08_reference_definition_checks_elements.

Theorem C08_slot_list_checks_elements : forall w sz e vs,
  chk w (CSeqOf sz e) true (VList vs) = ROk <->
  size_check sz (zlength vs) = ROk /\ forall v, In v vs -> chk w e true v = ROk.
Proof. exact slot_list_checks_elements. Qed.
Print Assumptions C08_slot_list_checks_elements.

Theorem C08_reference_definition_rejects_bad_element : forall w sz e pre x post why,
  size_check sz (zlength (pre ++ x :: post)) = ROk ->
  (forall v, In v pre -> chk w e true v = ROk) -> chk w e true x = RFail why ->
  check w (CRef true (CSeqOf sz e)) (VList (pre ++ x :: post)) = RFail why.
Proof. exact reference_definition_rejects_bad_element. Qed.
Print Assumptions C08_reference_definition_rejects_bad_element.

(* ------------------------------------------------------------------ UTF8String__process (Leaf/Utf8.v, Leaf/Utf8Proofs.v)
   the length / validation loop of skeletons/UTF8String.c behind UTF8String_constraint and behind the SIZE test of
   every generated UTF8String checker.  [Chars bs cps]: bs is a concatenation of characters, each a start octet whose
   entry in UTF8String_ht is `want`, want-1 continuation octets 0x80..0xBF, value >= UTF8String_mv[want]. *)
From A1 Require Import Leaf.Utf8 Leaf.Utf8Proofs.

(* accepted <-> every character is a well-formed sequence; the recorded values are the characters *)
Theorem C08_utf8_process_exact : forall bs cps, u8_process bs = U8Ok cps <-> Chars bs cps.
Proof. exact utf8_process_exact. Qed.
Print Assumptions C08_utf8_process_exact.

(* the returned length is the number of characters *)
Theorem C08_utf8_length_counts_characters : forall bs n, 0 <= n ->
  (utf8_length (Some bs) = n <-> exists cps, Chars bs cps /\ zlen cps = n).
Proof. exact utf8_length_counts_characters. Qed.
Print Assumptions C08_utf8_length_counts_characters.

Theorem C08_utf8_length_negative_iff_illformed : forall bs,
  (utf8_length (Some bs) < 0 <-> ~ exists cps, Chars bs cps).
Proof. exact utf8_length_negative_iff_illformed. Qed.
Print Assumptions C08_utf8_length_negative_iff_illformed.

Theorem C08_utf8_constraint_exact : forall bs, utf8_constraint (Some bs) = 0 <-> exists cps, Chars bs cps.
Proof. exact utf8_constraint_exact. Qed.
Print Assumptions C08_utf8_constraint_exact.

(* the loop terminates: as many iterations as octets suffice *)
Theorem C08_utf8_process_total : forall bs, u8_process bs <> U8Fuel.
Proof. exact utf8_process_total. Qed.
Print Assumptions C08_utf8_process_total.

(* every continuation position of an accepted character holds 0x80..0xBF (seeded change C08-8 tests the top bit only) *)
Theorem C08_utf8_continuation_octets : forall ch cs v, WfSeq (ch :: cs) v -> Forall (fun c => 128 <= c <= 191) cs.
Proof. exact wfseq_continuations. Qed.
Print Assumptions C08_utf8_continuation_octets.

(* the two rows of UTF8String_ht are the start-octet bit patterns 0xxxxxxx, 110xxxxx, ... 1111110x *)
Theorem C08_utf8_table_is_bit_patterns : forall ch, 0 <= ch < 256 -> want_of ch = want_ranges ch.
Proof. exact want_of_ranges. Qed.
Print Assumptions C08_utf8_table_is_bit_patterns.

(* `int32_t value` never overflows *)
Theorem C08_utf8_value_fits_int32 : forall ch cs v, 0 <= ch < 256 -> WfSeq (ch :: cs) v -> 0 <= v < 2147483648.
Proof. exact wfseq_value_int32. Qed.
Print Assumptions C08_utf8_value_fits_int32.

(* against the Unicode standard (table 3-7, [uwf]): everything well-formed is accepted; the converse is false
   (surrogates, beyond U+10FFFF, 5 / 6 octet forms) = finding C08-utf8-accepts-non-unicode *)
Theorem C08_utf8_accepts_unicode_partial : forall bs, uwf bs = true -> utf8_constraint (Some bs) = 0.
Proof. exact utf8_accepts_unicode_partial. Qed.
Print Assumptions C08_utf8_accepts_unicode_partial.

Theorem C08_utf8_accepts_only_unicode_refuted :
  exists b1 b2 b3 b4,
    (utf8_constraint (Some b1) = 0 /\ uwf b1 = false) /\ (utf8_constraint (Some b2) = 0 /\ uwf b2 = false) /\
    (utf8_constraint (Some b3) = 0 /\ uwf b3 = false) /\ (utf8_constraint (Some b4) = 0 /\ uwf b4 = false).
Proof. exact utf8_accepts_only_unicode_refuted. Qed.
Print Assumptions C08_utf8_accepts_only_unicode_refuted.

(* ------------------------------------------------------------------ SET_constraint and the producer of the structure (Rt/ConstraintsSet.v)
   a SET structure = member slots + the _presence_map only the BER / XER decoders maintain *)
From A1 Require Import Rt.ConstraintsSet.

(* the verdict is the same whatever the map holds: decoded, built by assignment, any map *)
Theorem C08_set_verdict_ignores_presence_map : forall f ms s s', slots s = slots s' -> set_walk f ms s = set_walk f ms s'.
Proof. exact set_walk_ignores_presence_map. Qed.
Print Assumptions C08_set_verdict_ignores_presence_map.

Theorem C08_set_constraint_producer_independent : forall w ms vs bits, length bits = length vs ->
  set_constraint w ms (with_map vs bits) = set_constraint w ms (decoded vs) /\
  set_constraint w ms (hand_built vs) = set_constraint w ms (decoded vs).
Proof. exact set_constraint_producer_independent. Qed.
Print Assumptions C08_set_constraint_producer_independent.

(* accepted <-> every filled slot passed its checker (flagged or not) and every empty slot is OPTIONAL *)
Theorem C08_set_checks_every_filled_slot : forall f ms s, set_walk f ms s = ROk <-> members_ok f ms s = true.
Proof. exact set_walk_ok_iff. Qed.
Print Assumptions C08_set_checks_every_filled_slot.

Theorem C08_set_rejects_bad_member : forall f ms1 m ms2 s1 v b s2 why,
  length ms1 = length s1 -> members_ok f ms1 s1 = true -> is_vnone v = false -> f m v = RFail why ->
  set_walk f (ms1 ++ m :: ms2) (s1 ++ (v, b) :: s2) = RFail why.
Proof. exact set_walk_rejects_bad_member. Qed.
Print Assumptions C08_set_rejects_bad_member.

(* inside the region of check_exact: SET_constraint = the Spec, whoever produced the structure *)
Theorem C08_set_constraint_exact_partial : forall w ms s,
  safe w (CSeq ms) false = true -> repr w (CSeq ms) (VSeq (slots s)) = true ->
  (set_constraint w ms s = ROk <-> satisfies (CSeq ms) (VSeq (slots s)) = true).
Proof. exact set_constraint_exact_partial. Qed.
Print Assumptions C08_set_constraint_exact_partial.

(* the variant that consults the map (seeded change C08-9) accepts an invalid hand-built value, and cannot be told
   from SET_constraint on decoded structures *)
Theorem C08_set_presence_map_variant_refuted : exists ms vs,
  set_walk_pm (fun m x => chk false m true x) ms (hand_built vs) = ROk /\
  set_constraint false ms (hand_built vs) = RFail WConstraint /\
  set_constraint false ms (decoded vs) = RFail WConstraint /\
  set_walk_pm (fun m x => chk false m true x) ms (decoded vs) = RFail WConstraint /\
  satisfies (CSeq ms) (VSeq vs) = false.
Proof. exact set_walk_pm_refuted. Qed.
Print Assumptions C08_set_presence_map_variant_refuted.

Theorem C08_set_presence_map_variant_same_on_decoded : forall f ms vs,
  set_walk_pm f ms (decoded vs) = set_walk f ms (decoded vs).
Proof. exact set_walk_pm_same_on_decoded. Qed.
Print Assumptions C08_set_presence_map_variant_same_on_decoded.

(* ---- wave 5: overlapping unions with an open end; members stored by pointer (Rt/ConstraintsOpen.v) ---- *)
From A1 Require Import Fix.CrangeProofs Rt.ConstraintsOpen.

(* an open-ended alternative absorbs every later-starting one: `lb..MAX | a..b | ...` stays `lb..MAX` *)
Theorem C08_open_alternative_absorbs_later_ones : forall rest ra,
  right_open ra = true -> Forall wfp rest -> Forall (fun p => edge_compare (fst ra) (fst p) <= 0)%Z rest ->
  union_loop ra rest = [ra].
Proof. exact union_loop_absorbs. Qed.
Print Assumptions C08_open_alternative_absorbs_later_ones.

Theorem C08_open_alternative_keeps_its_values : forall rest ra z,
  right_open ra = true -> Forall wfp rest -> Forall (fun p => edge_compare (fst ra) (fst p) <= 0)%Z rest ->
  inp ra z -> inl (union_loop ra rest) z.
Proof. exact union_loop_absorbs_den. Qed.
Print Assumptions C08_open_alternative_keeps_its_values.

Theorem C08_join_keeps_right_open : forall ra rb,
  overlap ra rb = true -> right_open ra || right_open rb = true -> right_open (join ra rb) = true.
Proof. exact join_keeps_right_open. Qed.
Print Assumptions C08_join_keeps_right_open.

Theorem C08_join_keeps_left_open : forall ra rb,
  overlap ra rb = true -> left_open ra || left_open rb = true -> left_open (join ra rb) = true.
Proof. exact join_keeps_left_open. Qed.
Print Assumptions C08_join_keeps_left_open.

Theorem C08_join_right_edge_is_the_larger : forall ra rb, overlap ra rb = true ->
  (edge_compare (snd (join ra rb)) (snd ra) >= 0 /\ edge_compare (snd (join ra rb)) (snd rb) >= 0)%Z.
Proof. exact join_right_max. Qed.
Print Assumptions C08_join_right_edge_is_the_larger.

(* the variant comparing plain .value fields (seeded change C08-10) loses `1..MAX` in `1..MAX | 5..10`, and cannot be
   told from _range_union on unions whose right edges are all values *)
Theorem C08_join_values_variant_refuted : exists ra rb z,
  wfp ra /\ wfp rb /\ (edge_compare (fst ra) (fst rb) <= 0)%Z /\ joinable ra rb = true /\
  inp ra z /\ ~ inp (join_values ra rb) z /\ inp (join ra rb) z.
Proof. exact join_values_refuted. Qed.
Print Assumptions C08_join_values_variant_refuted.

Theorem C08_join_values_variant_same_when_bounded : forall ra rb x y,
  snd ra = EV x -> snd rb = EV y -> join_values ra rb = join ra rb.
Proof. exact join_values_same_when_bounded. Qed.
Print Assumptions C08_join_values_variant_same_when_bounded.

(* the walker's dispatch to the member's checker does not depend on how the member is stored *)
Theorem C08_dispatch_storage_independent : forall (V R : Type) p q m t (v : V),
  dispatch V R (mkSlot V R p m t) v = dispatch V R (mkSlot V R q m t) v.
Proof. exact dispatch_storage_independent. Qed.
Print Assumptions C08_dispatch_storage_independent.

Theorem C08_dispatch_runs_member_checker : forall (V R : Type) (s : slot V R) f v,
  s_memb V R s = Some f -> dispatch V R s v = f v.
Proof. exact dispatch_runs_member_checker. Qed.
Print Assumptions C08_dispatch_runs_member_checker.

(* the variant handing a by-pointer member to its type's checker (seeded change C08-11) skips the member's own
   constraint; inline or unconstrained members cannot tell *)
Theorem C08_dispatch_ptr_type_variant_refuted : exists (s : slot Z bool) v,
  s_ptr _ _ s = true /\ dispatch _ _ s v = false /\ dispatch_ptr_type _ _ s v = true /\
  dispatch _ _ (mkSlot _ _ false (s_memb _ _ s) (s_type _ _ s)) v = false.
Proof. exact dispatch_ptr_type_refuted. Qed.
Print Assumptions C08_dispatch_ptr_type_variant_refuted.

Theorem C08_dispatch_ptr_type_variant_same_when_inline_or_unconstrained : forall (V R : Type) (s : slot V R) v,
  s_ptr V R s = false \/ s_memb V R s = None -> dispatch_ptr_type V R s v = dispatch V R s v.
Proof. exact dispatch_ptr_type_same_when_inline_or_unconstrained. Qed.
Print Assumptions C08_dispatch_ptr_type_variant_same_when_inline_or_unconstrained.
