(* Properties_C08.v — constraint validation accepts exactly the allowed values. *)
From Coq Require Import ZArith List Bool.
From A1 Require Import Rt.Types Fix.Crange Rt.Constraints Rt.ConstraintsProofs.
Import ListNotations.
Local Open Scope Z_scope.

Theorem C08_errmsg_bounded : forall maxlen vlen : Z, 1 <= maxlen ->
  exists errlen nul, ctfail_clamp maxlen vlen = Some (errlen, nul) /\
    0 <= errlen <= maxlen - 1 /\ nul = errlen /\ 0 <= nul < maxlen /\
    (0 <= vlen < maxlen -> errlen = vlen) /\ (maxlen <= vlen -> errlen = maxlen - 1).
Proof. exact errmsg_bounded. Qed.
Print Assumptions C08_errmsg_bounded.
