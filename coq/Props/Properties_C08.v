(* Properties_C08.v — constraint validation accepts exactly the allowed values.
   Model and Spec: coq/Rt/Constraints.v; proofs: coq/Rt/ConstraintsProofs.v; tied to the
   C by checks/c08.py.  What is stated here:
   - inside the decidable region [safe] (non-extensible value / SIZE constraints, unions of
     ranges; see the definition for what it excludes) the model of asn_check_constraints
     accepts a value if and only if every component at every nesting depth satisfies its
     constraints ([satisfies]), for values the C types can hold ([repr]);
   - the full statement is false of the code: witnesses outside [safe] (known findings);
   - the checker is a structural function of type and value (no fuel): it terminates;
   - for every vsnprintf return value and every buffer size >= 1, _asn_i_ctfailcb leaves
     errlen <= size - 1 and a NUL at errbuf[errlen], inside the buffer. *)
From Coq Require Import ZArith List Bool.
From A1 Require Import Rt.Types Fix.Crange Rt.Constraints Rt.ConstraintsProofs.
Import ListNotations.
Local Open Scope Z_scope.

Theorem C08_check_exact_partial : forall t v, safe t false = true -> repr t v = true ->
  (check t v = ROk <-> satisfies t v = true).
Proof. exact check_exact_partial. Qed.
Print Assumptions C08_check_exact_partial.

(* the same at every slot (member / alternative / element / behind a reference) *)
Theorem C08_check_exact_at_every_depth_partial : forall t slot v, safe t slot = true -> repr t v = true ->
  (chk t slot v = ROk <-> satisfies t v = true).
Proof. exact chk_exact. Qed.
Print Assumptions C08_check_exact_at_every_depth_partial.

Theorem C08_check_exact_refuted : exists t v, repr t v = true /\ check_ok t v <> satisfies t v.
Proof. exact check_exact_refuted. Qed.
Print Assumptions C08_check_exact_refuted.

Theorem C08_refuted_sequence_early_return : exists t v,
  repr t v = true /\ check t v = ROk /\ satisfies t v = false.
Proof. exact refuted_sequence_early_return. Qed.
Print Assumptions C08_refuted_sequence_early_return.

Theorem C08_refuted_of_size_unchecked : exists t v,
  repr t v = true /\ check t v = ROk /\ satisfies t v = false.
Proof. exact refuted_of_size_unchecked. Qed.
Print Assumptions C08_refuted_of_size_unchecked.

Theorem C08_refuted_except_ignored : exists t v,
  repr t v = true /\ check t v = ROk /\ satisfies t v = false.
Proof. exact refuted_except_ignored. Qed.
Print Assumptions C08_refuted_except_ignored.

Theorem C08_refuted_min_max_union : exists t v,
  repr t v = true /\ check t v = ROk /\ satisfies t v = false.
Proof. exact refuted_min_max_union. Qed.
Print Assumptions C08_refuted_min_max_union.

Theorem C08_refuted_ulong_shortcut : exists t v,
  repr t v = true /\ check t v = ROk /\ satisfies t v = false.
Proof. exact refuted_ulong_shortcut. Qed.
Print Assumptions C08_refuted_ulong_shortcut.

Theorem C08_refuted_wide_open_range : exists t v,
  repr t v = true /\ check t v = RFail WTooLarge /\ satisfies t v = true.
Proof. exact refuted_wide_open_range. Qed.
Print Assumptions C08_refuted_wide_open_range.

(* the generated leaf checkers alone *)
Theorem C08_integer_checker_exact_partial : forall ps exc z, int_safe ps exc = true -> int_repr ps z = true ->
  (int_check ps z = ROk <-> sat_int ps exc z = true).
Proof. exact int_check_exact. Qed.
Print Assumptions C08_integer_checker_exact_partial.

Theorem C08_size_checker_exact_partial : forall sz n, size_safe sz = true -> 0 <= n ->
  (size_check sz n = ROk <-> sat_size sz n = true).
Proof. exact size_check_exact. Qed.
Print Assumptions C08_size_checker_exact_partial.

(* single ranges of Rt.Types: the Spec is in_icon / in_scon *)
Theorem C08_spec_is_in_icon : forall c z, icon_ext c = false -> sat_int (icon_parts c) [] z = in_icon c z.
Proof. exact icon_parts_sat. Qed.
Print Assumptions C08_spec_is_in_icon.

Theorem C08_spec_is_in_scon : forall s n, scon_ext s = false -> 0 <= n -> sat_size (scon_parts s) n = in_scon s n.
Proof. exact scon_parts_sat. Qed.
Print Assumptions C08_spec_is_in_scon.

Theorem C08_check_total : forall t v, exists r, check t v = r.
Proof. exact check_total. Qed.
Print Assumptions C08_check_total.

Theorem C08_errmsg_bounded : forall maxlen vlen : Z, 1 <= maxlen ->
  exists errlen nul, ctfail_clamp maxlen vlen = Some (errlen, nul) /\
    0 <= errlen <= maxlen - 1 /\ nul = errlen /\ 0 <= nul < maxlen /\
    (0 <= vlen < maxlen -> errlen = vlen) /\ (maxlen <= vlen -> errlen = maxlen - 1).
Proof. exact errmsg_bounded. Qed.
Print Assumptions C08_errmsg_bounded.

Theorem C08_errmsg_untouched_without_buffer : forall maxlen vlen : Z, maxlen <= 0 -> ctfail_clamp maxlen vlen = None.
Proof. exact errmsg_untouched. Qed.
Print Assumptions C08_errmsg_untouched_without_buffer.
