(* Properties_C13.v — code-generation options never change the wire format.
   Model: coq/Leaf/NativeWide.v (the native `long`/`unsigned long` register and the
   wide INTEGER_t contents of one abstract INTEGER/ENUMERATED value, and the paths
   that take each to the byte producers); tied to the C by checks/c13.py, which
   also compiles the same generated modules under every subset of the
   representation options and compares bytes and cross-decoding.
   What is stated here (the part of the property a model can carry):
   - DER: a long holding v and ANY INTEGER_t denoting v emit the same contents
     octets, the minimal two's complement of v (uniqueness of minimal forms);
   - BER decoding of the same contents octets: the native decoder accepts exactly
     what a long holds and stores the value the wide octets denote; without the
     range guard the statement is refuted (capacity of the native representation);
   - each decodes the other's DER output to the value;
   - PER/OER: the INTEGER_t the native encoders hand to the wide encoder is the
     minimal form (what a -fwide-types build holds after decoding DER);
   - unsigned fields (field_unsigned, `unsigned long`): all of the above below
     2^63, refuted with witnesses from 2^63 on (the 8-octet image is stripped
     as a signed number; asn_ulong2INTEGER goes through the signed path;
     asn_INTEGER2ulong accepts negative contents). *)
From Coq Require Import ZArith List Bool.
From A1 Require Import Base.Bytes Leaf.IntegerConv Leaf.IntegerConvProofs Leaf.NativeWide Leaf.NativeWideProofs.
Import ListNotations.
Local Open Scope Z_scope.

Theorem C13_der_strip_loop_is_the_helpers_strip_loop : forall bs, der_strip bs = strip bs.
Proof. exact der_strip_is_strip. Qed.
Print Assumptions C13_der_strip_loop_is_the_helpers_strip_loop.

Theorem C13_minimal_twos_unique : forall bs1 bs2,
  bytes_ok bs1 -> bytes_ok bs2 -> minimal_twos bs1 = true -> minimal_twos bs2 = true ->
  twos_value bs1 = twos_value bs2 -> bs1 = bs2.
Proof. exact minimal_twos_unique_nw. Qed.
Print Assumptions C13_minimal_twos_unique.

Theorem C13_native_wide_der_agree : forall (v : Z) (bs : list Z),
  - two63 <= v < two63 -> bytes_ok bs -> bs <> [] -> twos_value bs = v ->
  NativeInteger_der_contents (reg_of v) = INTEGER_der_contents bs /\
  INTEGER_der_contents bs = imax2INTEGER v /\
  twos_value (INTEGER_der_contents bs) = v /\ minimal_twos (INTEGER_der_contents bs) = true.
Proof. exact native_wide_der_agree. Qed.
Print Assumptions C13_native_wide_der_agree.

Theorem C13_native_wide_der_unsigned_partial : forall (u : Z) (bs : list Z),
  0 <= u < two63 -> bytes_ok bs -> bs <> [] -> twos_value bs = u ->
  abs_of true (reg_of u) = u /\
  NativeInteger_der_contents (reg_of u) = INTEGER_der_contents bs.
Proof. exact native_wide_der_unsigned_partial. Qed.
Print Assumptions C13_native_wide_der_unsigned_partial.

Theorem C13_native_wide_der_unsigned_refuted :
  exists (u : Z) (bs : list Z),
    0 <= u < two64 /\ bytes_ok bs /\ bs <> [] /\ twos_value bs = u /\ abs_of true (reg_of u) = u /\
    NativeInteger_der_contents (reg_of u) <> INTEGER_der_contents bs /\
    NativeInteger_der_contents (reg_of u) = [128; 0; 0; 0; 0; 0; 0; 0] /\
    INTEGER_der_contents bs = bs /\
    twos_value (NativeInteger_der_contents (reg_of u)) = - two63.
Proof. exact native_wide_der_unsigned_refuted. Qed.
Print Assumptions C13_native_wide_der_unsigned_refuted.

Theorem C13_native_der_unsigned_max_refuted :
  NativeInteger_der_contents (reg_of (two64 - 1)) = [255] /\
  twos_value (NativeInteger_der_contents (reg_of (two64 - 1))) = -1.
Proof. exact native_der_unsigned_max_refuted. Qed.
Print Assumptions C13_native_der_unsigned_max_refuted.

Theorem C13_native_decode_exact : forall cs : list Z,
  bytes_ok cs -> cs <> [] ->
  NativeInteger_decode_contents false cs =
  if in_imax (twos_value cs) then Some (reg_of (twos_value cs)) else None.
Proof. exact native_decode_exact. Qed.
Print Assumptions C13_native_decode_exact.

Theorem C13_native_wide_decode_agree_partial : forall cs : list Z,
  bytes_ok cs -> cs <> [] -> in_imax (twos_value cs) = true ->
  exists reg, NativeInteger_decode_contents false cs = Some reg /\
              abs_of false reg = twos_value (INTEGER_decode_contents cs).
Proof. exact native_wide_decode_agree. Qed.
Print Assumptions C13_native_wide_decode_agree_partial.

Theorem C13_native_wide_decode_agree_refuted :
  exists cs, bytes_ok cs /\ cs <> [] /\ twos_value cs = two63 /\
             NativeInteger_decode_contents false cs = None /\
             twos_value (INTEGER_decode_contents cs) = two63.
Proof. exact native_wide_decode_agree_refuted. Qed.
Print Assumptions C13_native_wide_decode_agree_refuted.

Theorem C13_native_unsigned_decode_partial : forall cs : list Z,
  bytes_ok cs -> cs <> [] -> 0 <= twos_value cs < two64 ->
  NativeInteger_decode_contents true cs = Some (twos_value cs) /\
  abs_of true (twos_value cs) = twos_value (INTEGER_decode_contents cs).
Proof. exact native_unsigned_decode_partial. Qed.
Print Assumptions C13_native_unsigned_decode_partial.

Theorem C13_native_unsigned_decode_refuted :
  exists cs, bytes_ok cs /\ cs <> [] /\ twos_value (INTEGER_decode_contents cs) = -1 /\
             NativeInteger_decode_contents true cs = Some 255.
Proof. exact native_unsigned_decode_refuted. Qed.
Print Assumptions C13_native_unsigned_decode_refuted.

Theorem C13_native_decodes_wide_der : forall (v : Z) (bs : list Z),
  - two63 <= v < two63 -> bytes_ok bs -> bs <> [] -> twos_value bs = v ->
  NativeInteger_decode_contents false (INTEGER_der_contents bs) = Some (reg_of v).
Proof. exact native_decodes_wide_der. Qed.
Print Assumptions C13_native_decodes_wide_der.

Theorem C13_wide_decodes_native_der : forall v : Z,
  - two63 <= v < two63 ->
  twos_value (INTEGER_decode_contents (NativeInteger_der_contents (reg_of v))) = v.
Proof. exact wide_decodes_native_der. Qed.
Print Assumptions C13_wide_decodes_native_der.

Theorem C13_wide_decodes_native_der_unsigned_refuted :
  exists u, 0 <= u < two64 /\ abs_of true (reg_of u) = u /\
            twos_value (INTEGER_decode_contents (NativeInteger_der_contents (reg_of u))) = u - two64.
Proof. exact wide_decodes_native_der_unsigned_refuted. Qed.
Print Assumptions C13_wide_decodes_native_der_unsigned_refuted.

Theorem C13_native_unsigned_self_roundtrip_hides_it :
  NativeInteger_decode_contents true (NativeInteger_der_contents (reg_of two63)) = Some two63.
Proof. exact native_unsigned_self_roundtrip_at_two63. Qed.
Print Assumptions C13_native_unsigned_self_roundtrip_hides_it.

Theorem C13_native_per_oer_input_is_the_wide_form : forall (v : Z) (bs : list Z),
  - two63 <= v < two63 -> bytes_ok bs -> minimal_twos bs = true -> twos_value bs = v ->
  native_to_INTEGER false (reg_of v) = bs.
Proof. exact native_to_INTEGER_canonical. Qed.
Print Assumptions C13_native_per_oer_input_is_the_wide_form.

Theorem C13_native_per_oer_input_unsigned_partial : forall (u : Z) (bs : list Z),
  0 <= u < two63 -> bytes_ok bs -> minimal_twos bs = true -> twos_value bs = u ->
  native_to_INTEGER true (reg_of u) = bs.
Proof. exact native_to_INTEGER_unsigned_partial. Qed.
Print Assumptions C13_native_per_oer_input_unsigned_partial.

Theorem C13_native_per_oer_input_unsigned_refuted :
  exists u, 0 <= u < two64 /\ abs_of true (reg_of u) = u /\
            twos_value (native_to_INTEGER true (reg_of u)) = u - two64.
Proof. exact native_to_INTEGER_unsigned_refuted. Qed.
Print Assumptions C13_native_per_oer_input_unsigned_refuted.

Theorem C13_native_per_oer_decode_exact : forall cs : list Z,
  bytes_ok cs -> cs <> [] -> in_imax (twos_value cs) = true ->
  INTEGER_to_native false cs = Some (reg_of (twos_value cs)).
Proof. exact INTEGER_to_native_exact. Qed.
Print Assumptions C13_native_per_oer_decode_exact.
