(* Properties_C13.v — code-generation options never change the wire format.
   Model: coq/Leaf/NativeWide.v (the native `long`/`unsigned long` register and the
   wide INTEGER_t contents of one abstract INTEGER/ENUMERATED value, and the paths
   that take each to the byte producers); tied to the C by checks/c13.py, which
   also compiles the same generated modules under every subset of the
   representation options and compares bytes and cross-decoding.
   What is stated here (the part of the property a model can carry):
   - DER: a long holding v and ANY INTEGER_t denoting v emit the same contents
     octets, the minimal two's complement of v (uniqueness of minimal forms);
   - BER decoding of the same contents octets: the native decoder accepts exactly
     what a long holds and stores the value the wide octets denote; without the
     range guard the statement is refuted (capacity of the native representation);
   - each decodes the other's DER output to the value;
   - PER/OER: the INTEGER_t the native encoders hand to the wide encoder is the
     minimal form (what a -fwide-types build holds after decoding DER);
   - unsigned fields (field_unsigned, `unsigned long`): all of the above below
     2^63, refuted with witnesses from 2^63 on (the 8-octet image is stripped
     as a signed number; asn_ulong2INTEGER goes through the signed path;
     asn_INTEGER2ulong accepts negative contents). *)
From Coq Require Import ZArith List Bool.
From A1 Require Import Base.Bytes Leaf.IntegerConv Leaf.IntegerConvProofs Leaf.NativeWide Leaf.NativeWideProofs.
Import ListNotations.
Local Open Scope Z_scope.

Theorem C13_der_strip_loop_is_the_helpers_strip_loop : forall bs, der_strip bs = strip bs.
Proof. exact der_strip_is_strip. Qed.
Print Assumptions C13_der_strip_loop_is_the_helpers_strip_loop.

Theorem C13_minimal_twos_unique : forall bs1 bs2,
  bytes_ok bs1 -> bytes_ok bs2 -> minimal_twos bs1 = true -> minimal_twos bs2 = true ->
  twos_value bs1 = twos_value bs2 -> bs1 = bs2.
Proof. exact minimal_twos_unique_nw. Qed.
Print Assumptions C13_minimal_twos_unique.

Theorem C13_native_wide_der_agree : forall (v : Z) (bs : list Z),
  - two63 <= v < two63 -> bytes_ok bs -> bs <> [] -> twos_value bs = v ->
  NativeInteger_der_contents (reg_of v) = INTEGER_der_contents bs /\
  INTEGER_der_contents bs = imax2INTEGER v /\
  twos_value (INTEGER_der_contents bs) = v /\ minimal_twos (INTEGER_der_contents bs) = true.
Proof. exact native_wide_der_agree. Qed.
Print Assumptions C13_native_wide_der_agree.

Theorem C13_native_wide_der_unsigned_partial : forall (u : Z) (bs : list Z),
  0 <= u < two63 -> bytes_ok bs -> bs <> [] -> twos_value bs = u ->
  abs_of true (reg_of u) = u /\
  NativeInteger_der_contents (reg_of u) = INTEGER_der_contents bs.
Proof. exact native_wide_der_unsigned_partial. Qed.
Print Assumptions C13_native_wide_der_unsigned_partial.

Theorem C13_native_wide_der_unsigned_refuted :
  exists (u : Z) (bs : list Z),
    0 <= u < two64 /\ bytes_ok bs /\ bs <> [] /\ twos_value bs = u /\ abs_of true (reg_of u) = u /\
    NativeInteger_der_contents (reg_of u) <> INTEGER_der_contents bs /\
    NativeInteger_der_contents (reg_of u) = [128; 0; 0; 0; 0; 0; 0; 0] /\
    INTEGER_der_contents bs = bs /\
    twos_value (NativeInteger_der_contents (reg_of u)) = - two63.
Proof. exact native_wide_der_unsigned_refuted. Qed.
Print Assumptions C13_native_wide_der_unsigned_refuted.

Theorem C13_native_der_unsigned_max_refuted :
  NativeInteger_der_contents (reg_of (two64 - 1)) = [255] /\
  twos_value (NativeInteger_der_contents (reg_of (two64 - 1))) = -1.
Proof. exact native_der_unsigned_max_refuted. Qed.
Print Assumptions C13_native_der_unsigned_max_refuted.

Theorem C13_native_decode_exact : forall cs : list Z,
  bytes_ok cs -> cs <> [] ->
  NativeInteger_decode_contents false cs =
  if in_imax (twos_value cs) then Some (reg_of (twos_value cs)) else None.
Proof. exact native_decode_exact. Qed.
Print Assumptions C13_native_decode_exact.

Theorem C13_native_wide_decode_agree_partial : forall cs : list Z,
  bytes_ok cs -> cs <> [] -> in_imax (twos_value cs) = true ->
  exists reg, NativeInteger_decode_contents false cs = Some reg /\
              abs_of false reg = twos_value (INTEGER_decode_contents cs).
Proof. exact native_wide_decode_agree. Qed.
Print Assumptions C13_native_wide_decode_agree_partial.

Theorem C13_native_wide_decode_agree_refuted :
  exists cs, bytes_ok cs /\ cs <> [] /\ twos_value cs = two63 /\
             NativeInteger_decode_contents false cs = None /\
             twos_value (INTEGER_decode_contents cs) = two63.
Proof. exact native_wide_decode_agree_refuted. Qed.
Print Assumptions C13_native_wide_decode_agree_refuted.

Theorem C13_native_unsigned_decode_partial : forall cs : list Z,
  bytes_ok cs -> cs <> [] -> 0 <= twos_value cs < two64 ->
  NativeInteger_decode_contents true cs = Some (twos_value cs) /\
  abs_of true (twos_value cs) = twos_value (INTEGER_decode_contents cs).
Proof. exact native_unsigned_decode_partial. Qed.
Print Assumptions C13_native_unsigned_decode_partial.

Theorem C13_native_unsigned_decode_refuted :
  exists cs, bytes_ok cs /\ cs <> [] /\ twos_value (INTEGER_decode_contents cs) = -1 /\
             NativeInteger_decode_contents true cs = Some 255.
Proof. exact native_unsigned_decode_refuted. Qed.
Print Assumptions C13_native_unsigned_decode_refuted.

Theorem C13_native_decodes_wide_der : forall (v : Z) (bs : list Z),
  - two63 <= v < two63 -> bytes_ok bs -> bs <> [] -> twos_value bs = v ->
  NativeInteger_decode_contents false (INTEGER_der_contents bs) = Some (reg_of v).
Proof. exact native_decodes_wide_der. Qed.
Print Assumptions C13_native_decodes_wide_der.

Theorem C13_wide_decodes_native_der : forall v : Z,
  - two63 <= v < two63 ->
  twos_value (INTEGER_decode_contents (NativeInteger_der_contents (reg_of v))) = v.
Proof. exact wide_decodes_native_der. Qed.
Print Assumptions C13_wide_decodes_native_der.

Theorem C13_wide_decodes_native_der_unsigned_refuted :
  exists u, 0 <= u < two64 /\ abs_of true (reg_of u) = u /\
            twos_value (INTEGER_decode_contents (NativeInteger_der_contents (reg_of u))) = u - two64.
Proof. exact wide_decodes_native_der_unsigned_refuted. Qed.
Print Assumptions C13_wide_decodes_native_der_unsigned_refuted.

Theorem C13_native_unsigned_self_roundtrip_hides_it :
  NativeInteger_decode_contents true (NativeInteger_der_contents (reg_of two63)) = Some two63.
Proof. exact native_unsigned_self_roundtrip_at_two63. Qed.
Print Assumptions C13_native_unsigned_self_roundtrip_hides_it.

Theorem C13_native_per_oer_input_is_the_wide_form : forall (v : Z) (bs : list Z),
  - two63 <= v < two63 -> bytes_ok bs -> minimal_twos bs = true -> twos_value bs = v ->
  native_to_INTEGER false (reg_of v) = bs.
Proof. exact native_to_INTEGER_canonical. Qed.
Print Assumptions C13_native_per_oer_input_is_the_wide_form.

Theorem C13_native_per_oer_input_unsigned_partial : forall (u : Z) (bs : list Z),
  0 <= u < two63 -> bytes_ok bs -> minimal_twos bs = true -> twos_value bs = u ->
  native_to_INTEGER true (reg_of u) = bs.
Proof. exact native_to_INTEGER_unsigned_partial. Qed.
Print Assumptions C13_native_per_oer_input_unsigned_partial.

Theorem C13_native_per_oer_input_unsigned_refuted :
  exists u, 0 <= u < two64 /\ abs_of true (reg_of u) = u /\
            twos_value (native_to_INTEGER true (reg_of u)) = u - two64.
Proof. exact native_to_INTEGER_unsigned_refuted. Qed.
Print Assumptions C13_native_per_oer_input_unsigned_refuted.

Theorem C13_native_per_oer_decode_exact : forall cs : list Z,
  bytes_ok cs -> cs <> [] -> in_imax (twos_value cs) = true ->
  INTEGER_to_native false cs = Some (reg_of (twos_value cs)).
Proof. exact INTEGER_to_native_exact. Qed.
Print Assumptions C13_native_per_oer_decode_exact.

(* ------------------------------------------------------------------------------------
   Round 2 (strengthening): the options that change STRUCTURES, not the integer leaf.
   (a) pointer vs inline member representation (-findirect-choice; DEFAULT members under
       -fwide-types): Rt/Layout.v models the structure image with slots that hold the
       member or a pointer to it, the member fetch through the ATF_POINTER flag, and the
       OER / DER encoders and asn_TYPE_outmost_tag walking the structure as the C does.
       For EVERY layout the walk yields the bytes of the representation-free codec model;
   (b) the descriptor tables: the erasure of what the options may change (Rt/Options.v),
       soundness of the table comparison the check runs on the dumped tables, and the
       emitter's decision for the OER / PER constraint slots. *)
From A1 Require Import Rt.Types Rt.Der Rt.Oer Rt.Layout Rt.LayoutProofs Rt.WfDescr Rt.Options Rt.OptionsProofs.

Theorem C13_outmost_tag_any_layout : forall t l x v,
  Layout.abs t l x = Some v -> outmost_tag_c t l x = outmost_tag t v.
Proof. exact outmost_tag_c_abs. Qed.
Print Assumptions C13_outmost_tag_any_layout.

Theorem C13_oer_walk_is_the_model : forall t l x v,
  Layout.abs t l x = Some v -> oer_c t l x = oer t v.
Proof. exact oer_c_abs. Qed.
Print Assumptions C13_oer_walk_is_the_model.

Theorem C13_der_walk_is_the_model : forall t l x v,
  Layout.abs t l x = Some v -> der_c t l x = der t v.
Proof. exact der_c_abs. Qed.
Print Assumptions C13_der_walk_is_the_model.

(* DESIGN's enc_depends_on_erasure for the pointer flags: structures built for different
   layouts that denote the same value encode to the same bytes *)
Theorem C13_oer_layout_invariant : forall t l1 s1 l2 s2 v,
  Layout.abs t l1 s1 = Some v -> Layout.abs t l2 s2 = Some v -> oer_c t l1 s1 = oer_c t l2 s2.
Proof. exact oer_layout_invariant. Qed.
Print Assumptions C13_oer_layout_invariant.

Theorem C13_der_layout_invariant : forall t l1 s1 l2 s2 v,
  Layout.abs t l1 s1 = Some v -> Layout.abs t l2 s2 = Some v -> der_c t l1 s1 = der_c t l2 s2.
Proof. exact der_layout_invariant. Qed.
Print Assumptions C13_der_layout_invariant.

(* the structures exist for every layout that can hold the value *)
Theorem C13_repr_denotes : forall t l v x, repr t l v = Some x -> Layout.abs t l x = Some v.
Proof. exact repr_abs. Qed.
Print Assumptions C13_repr_denotes.

Theorem C13_two_builds_same_bytes : forall t v l1 l2 s1 s2,
  repr t l1 v = Some s1 -> repr t l2 v = Some s2 ->
  oer_c t l1 s1 = oer_c t l2 s2 /\ der_c t l1 s1 = der_c t l2 s2.
Proof. exact oer_two_builds_same_bytes. Qed.
Print Assumptions C13_two_builds_same_bytes.

(* the seeded order of CHOICE_encode_oer (tag asked at the slot address before the pointer
   is resolved) is separated from the model on a pointer layout, and only there *)
Theorem C13_tag_at_slot_differs_on_pointer_layout :
  on_repr ex_t ex_indirect ex_v Some <> None /\
  on_repr ex_t ex_indirect ex_v (oer_c_tag_at_slot ex_t ex_indirect) <> oer ex_t ex_v /\
  on_repr ex_t ex_inline ex_v (oer_c_tag_at_slot ex_t ex_inline) = oer ex_t ex_v.
Proof. exact (conj (proj1 tag_at_slot_indirect_differs) (conj (proj2 tag_at_slot_indirect_differs) tag_at_slot_inline_ok)). Qed.
Print Assumptions C13_tag_at_slot_differs_on_pointer_layout.

(* descriptor level: what the erasure forgets ... *)
Theorem C13_view_ignores_layout_and_native : forall hp ho xml c ptrs flip d,
  view_of hp ho xml c (rebuild ptrs flip d) = view_of hp ho xml c d.
Proof. exact view_ignores_layout_and_native. Qed.
Print Assumptions C13_view_ignores_layout_and_native.

(* ... and what it keeps: every table the codecs read *)
Theorem C13_view_keeps_codec_tables : forall xml a b,
  view_of true true xml None a = view_of true true xml None b ->
  d_tags (nd a) = d_tags (nd b) /\ d_all (nd a) = d_all (nd b) /\
  d_per (nd a) = d_per (nd b) /\ d_oer (nd a) = d_oer (nd b) /\ d_bad (nd a) = d_bad (nd b) /\
  map m_per (d_elems (nd a)) = map m_per (d_elems (nd b)) /\
  map m_oer (d_elems (nd a)) = map m_oer (d_elems (nd b)) /\
  map m_tag (d_elems (nd a)) = map m_tag (d_elems (nd b)) /\
  map m_tmode (d_elems (nd a)) = map m_tmode (d_elems (nd b)) /\
  map m_opt (d_elems (nd a)) = map m_opt (d_elems (nd b)) /\
  map m_default (d_elems (nd a)) = map m_default (d_elems (nd b)).
Proof. exact view_keeps_codec_tables. Qed.
Print Assumptions C13_view_keeps_codec_tables.

(* the comparison the check runs on every pair of dumped tables: a verdict VSim exhibits a
   bisimulation (equal views, related member types) that contains every PDU pair *)
Theorem C13_table_sim_sound : forall hp ho TA TB,
  table_sim hp ho TA TB = VSim ->
  nt_roots TA = nt_roots TB /\
  exists R, bisimulation hp ho (nt_descrs TA) (nt_descrs TB) R /\
            forall it, In it (root_items (nt_roots TA)) -> R it.
Proof. exact table_sim_sound. Qed.
Print Assumptions C13_table_sim_sound.

(* the emitter: no representation option reaches the OER / PER slots *)
Theorem C13_type_codec_slots_option_invariant : forall f f' ti,
  gf_oer f = gf_oer f' -> gf_per f = gf_per f' ->
  codec_slots (type_slots f ti) = codec_slots (type_slots f' ti).
Proof. exact type_codec_slots_option_invariant. Qed.
Print Assumptions C13_type_codec_slots_option_invariant.

Theorem C13_member_codec_slots_option_invariant : forall f f' c,
  gf_oer f = gf_oer f' -> gf_per f = gf_per f' ->
  codec_slots (member_slots f c) = codec_slots (member_slots f' c).
Proof. exact member_codec_slots_option_invariant. Qed.
Print Assumptions C13_member_codec_slots_option_invariant.

(* the shared test of seeded change C13-3 is a different function: it lets -fno-constraints through *)
Theorem C13_seeded_slots_depend_on_no_constraints :
  exists f f' ti, gf_oer f = gf_oer f' /\ gf_per f = gf_per f' /\
    codec_slots (type_slots_seeded f ti) <> codec_slots (type_slots_seeded f' ti).
Proof. exact seeded_slots_depend_on_no_constraints. Qed.
Print Assumptions C13_seeded_slots_depend_on_no_constraints.

(* ------------------------------------------------------------------------------------------
   Round 4: pointer vs inline member representation on the EXTENSION paths (Rt/LayoutExt.v).
   The UPER walk of the C structure (base algebra) and the UPER / OER / DER walks of the
   structures of extensible SEQUENCE / CHOICE types, every member, addition and extension
   alternative fetched through the ATF_POINTER flag of its member entry. *)
From A1 Require Import Rt.Uper Rt.Ext Rt.LayoutExt Rt.LayoutExtProofs.

Theorem C13_uper_walk_is_the_model : forall std t l x v, abs t l x = Some v -> uper_c std t l x = uper std t v.
Proof. exact uper_c_abs. Qed.
Print Assumptions C13_uper_walk_is_the_model.

Theorem C13_uper_layout_invariant : forall std t l1 s1 l2 s2 v,
  abs t l1 s1 = Some v -> abs t l2 s2 = Some v -> uper_c std t l1 s1 = uper_c std t l2 s2.
Proof. exact uper_layout_invariant. Qed.
Print Assumptions C13_uper_layout_invariant.

(* for EVERY layout the walk of an extensible type's structure through member_ptr gives the bits /
   octets of the representation-free extensibility model (Rt/Ext.v) *)
Theorem C13_ext_uper_walk_is_the_model : forall std t l x v,
  ext_abs t l x = Some v -> ext_uper_c std t l x = ext_uper std t v.
Proof. exact ext_uper_c_abs. Qed.
Print Assumptions C13_ext_uper_walk_is_the_model.

Theorem C13_ext_oer_walk_is_the_model : forall t l x v, ext_abs t l x = Some v -> ext_oer_c t l x = ext_oer t v.
Proof. exact ext_oer_c_abs. Qed.
Print Assumptions C13_ext_oer_walk_is_the_model.

Theorem C13_ext_der_walk_is_the_model : forall t l x v, ext_abs t l x = Some v -> ext_der_c t l x = ext_der t v.
Proof. exact ext_der_c_abs. Qed.
Print Assumptions C13_ext_der_walk_is_the_model.

(* the structures exist for every layout that gives absent components a pointer slot, and two builds
   (two layouts) of the same value emit the same UPER, OER and DER *)
Theorem C13_ext_repr_denotes : forall t l v x, ext_repr t l v = Some x -> ext_abs t l x = Some v.
Proof. exact ext_repr_abs. Qed.
Print Assumptions C13_ext_repr_denotes.

Theorem C13_ext_two_builds_same_bytes : forall std t v l1 l2 s1 s2,
  ext_repr t l1 v = Some s1 -> ext_repr t l2 v = Some s2 ->
  ext_uper_c std t l1 s1 = ext_uper_c std t l2 s2 /\ ext_oer_c t l1 s1 = ext_oer_c t l2 s2 /\
  ext_der_c t l1 s1 = ext_der_c t l2 s2.
Proof. exact ext_two_builds_same_bytes. Qed.
Print Assumptions C13_ext_two_builds_same_bytes.

(* the variant that skips the pointer dereference on the extension-alternative path (seeded/C13-5:
   the helper re-derives the member address as sptr + memb_offset): for a value the model can
   encode it differs from the model EXACTLY when the selected alternative is an extension
   alternative held by pointer - UPER and OER *)
Theorem C13_ext_choice_noderef_differs_exactly_on_pointer_layouts_uper : forall root exts l i v' s,
  ext_repr (EChoice root exts) l (EVAlt i v') = Some s -> forall std,
  ext_uper std (EChoice root exts) (EVAlt i v') <> None ->
  (ext_uper_c_noderef std (EChoice root exts) l s <> ext_uper std (EChoice root exts) (EVAlt i v')
   <-> ext_alt_by_pointer root l i).
Proof. exact uper_choice_noderef_differs_iff. Qed.
Print Assumptions C13_ext_choice_noderef_differs_exactly_on_pointer_layouts_uper.

Theorem C13_ext_choice_noderef_differs_exactly_on_pointer_layouts_oer : forall root exts l i v' s,
  ext_repr (EChoice root exts) l (EVAlt i v') = Some s ->
  ext_oer (EChoice root exts) (EVAlt i v') <> None ->
  (ext_oer_c_noderef (EChoice root exts) l s <> ext_oer (EChoice root exts) (EVAlt i v')
   <-> ext_alt_by_pointer root l i).
Proof. exact oer_choice_noderef_differs_iff. Qed.
Print Assumptions C13_ext_choice_noderef_differs_exactly_on_pointer_layouts_oer.

(* the additions loop of an extensible SEQUENCE: stuck as soon as one addition has a pointer slot (asn1c
   gives every addition one), the same walk when all additions lie inline *)
Theorem C13_ext_seq_noderef_stuck_on_pointer_layouts : forall std tg root adds l rvs avs s,
  ext_repr (ESeq tg root adds) l (EVSeq rvs avs) = Some s ->
  Exists (fun la => lay_ptr la = true) (skipn (length root) (lay_subs l)) ->
  ext_uper_c_noderef std (ESeq tg root adds) l s = None /\ ext_oer_c_noderef (ESeq tg root adds) l s = None.
Proof. exact seq_noderef_stuck. Qed.
Print Assumptions C13_ext_seq_noderef_stuck_on_pointer_layouts.

Theorem C13_ext_seq_noderef_same_on_inline_layouts : forall std tg root adds l s,
  Forall (fun la => lay_ptr la = false) (skipn (length root) (lay_subs l)) ->
  ext_uper_c_noderef std (ESeq tg root adds) l s = ext_uper_c std (ESeq tg root adds) l s /\
  ext_oer_c_noderef (ESeq tg root adds) l s = ext_oer_c (ESeq tg root adds) l s.
Proof. exact seq_noderef_inline_same. Qed.
Print Assumptions C13_ext_seq_noderef_same_on_inline_layouts.

(* the witness of seeded/C13-5: T ::= CHOICE { n, p SEQUENCE, ..., q SEQUENCE, l SEQUENCE OF, m }, value q:{5,TRUE}:
   UPER 80 02 05 80 from the model and from the walk of both layouts; the helper is right on the inline build,
   stuck on the -findirect-choice build, and right again for the root alternative p and the primitive extension m *)
Theorem C13_ext_noderef_refuted :
  ext_uper_encode false sx_t sx_v = Some [128; 2; 5; 128] /\
  on_ext_repr sx_t sx_indirect sx_v (ext_uper_c_encode fetch false sx_t sx_indirect) = Some [128; 2; 5; 128] /\
  on_ext_repr sx_t sx_inline sx_v (ext_uper_c_encode fetch_inline false sx_t sx_inline) = ext_uper_encode false sx_t sx_v /\
  on_ext_repr sx_t sx_indirect sx_v Some <> None /\
  on_ext_repr sx_t sx_indirect sx_v (ext_uper_c_encode fetch_inline false sx_t sx_indirect) <> ext_uper_encode false sx_t sx_v.
Proof.
  exact (conj (proj1 sx_model) (conj (proj1 sx_walk_indirect)
        (conj (proj1 sx_noderef_refuted) (conj (proj1 (proj2 sx_noderef_refuted)) (proj1 (proj2 (proj2 sx_noderef_refuted))))))).
Qed.
Print Assumptions C13_ext_noderef_refuted.
