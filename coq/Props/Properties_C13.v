(* Properties_C13.v -- placeholder, filled below *)
