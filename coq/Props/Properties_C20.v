(* Properties_C20.v — unber -p | enber reproduces well-formed BER and unber's
   O/T/TL/V attributes are the TLV structure; on arbitrary bytes unber ends with
   success or a diagnostic.  Only statements, each closed by [exact] of a lemma
   proved in Tools/XxberProofs.v, with Print Assumptions beneath.
   Spec: Tools/BerTree.v (ber_tree, ser, wf_tree, nodes).  Model: Tools/Unber.v
   (libasn1_unber_tool.c in -p mode) and Tools/Enber.v (enber.c) at the level of
   line records; the text of a line (printf formats, attribute scanning,
   "&#xNN;") is tied by the correspondence run of bin/vcheck C20 only. *)
From Coq Require Import ZArith List Bool.
From A1 Require Import Base.Bytes Base.Digits Leaf.BerTL Leaf.BerTLProofs
     Tools.Unber Tools.Enber Tools.BerTree Tools.XxberProofs Tools.UnberOid.
Import ListNotations.
Local Open Scope Z_scope.

(* -- round trip, any nesting depth, any class, any tag number below 2^30,
      definite and indefinite lengths mixed freely, minimal tag/length octets;
      ts = the top-level encodings of one file -- *)
Theorem C20_xxber_inverse : forall t, wf_tree t false -> xxber (ser t) = (ser t, None).
Proof. exact xxber_inverse. Qed.
Print Assumptions C20_xxber_inverse.

Theorem C20_xxber_inverse_forest : forall ts, wf_forest ts ->
  xxber (ser_forest ts) = (ser_forest ts, None).
Proof. exact xxber_inverse_forest. Qed.
Print Assumptions C20_xxber_inverse_forest.

(* -- unber's opening lines carry offset, tag, TL length and V length of every
      node, in document order, and unber exits 0 -- *)
Theorem C20_unber_fields : forall ts, wf_forest ts ->
  opens (fst (unber (ser_forest ts))) = nodes_forest ts 0 /\ snd (unber (ser_forest ts)) = XOk.
Proof. exact unber_fields_forest. Qed.
Print Assumptions C20_unber_fields.

(* the complete output, closing lines and nesting levels included *)
Theorem C20_unber_lines : forall ts, wf_forest ts -> unber (ser_forest ts) = (exp_forest ts 0 0, XOk).
Proof. exact unber_ser. Qed.
Print Assumptions C20_unber_lines.

(* -- arbitrary bytes: with fuel length+1 (that is what [unber] uses) the model
      neither runs out of fuel nor reaches a failing assert(): the outcome is
      exit 0 or a diagnostic -- *)
Theorem C20_unber_total : forall bs, bytes_ok bs ->
  exists ls x, unber bs = (ls, x) /\ (x = XOk \/ exists d, x = XFail d).
Proof. exact unber_total. Qed.
Print Assumptions C20_unber_total.

(* every call of process_deeper: same, the stream position stays within the
   input (off' + remaining = end), and a frame never exceeds its limit *)
Theorem C20_pd_total : forall fuel level limit esize eoc fsize pdc inp off,
  (length inp < fuel)%nat -> bytes_ok inp -> -1 <= limit ->
  goodr limit fsize (length inp) (off + zlen inp) (pd fuel level limit esize eoc fsize pdc inp off).
Proof. exact pd_fuel. Qed.
Print Assumptions C20_pd_total.

(* every accepted TL header has 2..32 octets: tagbuf[0], tagbuf[1] are read and
   tagbuf[tblen++] is written within unsigned char tagbuf[32] *)
Theorem C20_unber_no_oob : forall limit eoc inp off tagbuf tag len tn ln inp1 off1,
  bytes_ok inp ->
  read_tl limit eoc [] inp off = ROk tagbuf tag len tn ln inp1 off1 ->
  2 <= zlen tagbuf <= 32 /\ zlen tagbuf = Z.of_nat tn + Z.of_nat ln /\
  inp = tagbuf ++ inp1 /\ off1 = off + zlen tagbuf /\ (0 <= limit -> zlen tagbuf <= limit).
Proof. exact read_tl_tagbuf. Qed.
Print Assumptions C20_unber_no_oob.

(* -- the property over ALL well-formed BER is false of the tools: a long-form
      length that is not the shortest (here 04 81 01 00) is printed by unber with
      TL="3" and rejected by enber ("Cannot encode TL"): finding
      C20-nonminimal-length; C20_xxber_inverse above is the provable part -- *)
Theorem C20_xxber_inverse_refuted :
  exists tag body k,
    tag_ok tag /\ bytes_ok body /\ (1 <= k <= 126)%nat /\ zlen body < 256 ^ Z.of_nat k /\
    let x := tag_serialize tag ++ long_len k (zlen body) ++ body in
    unber x = ([LPrim 0 0 tag (zlen (tag_serialize tag) + 1 + Z.of_nat k) (zlen body) body], XOk) /\
    xxber x = ([], Some ECannotEncodeTL).
Proof. exact xxber_inverse_refuted. Qed.
Print Assumptions C20_xxber_inverse_refuted.

(* "any tag number": tag number 2^30 (1f 84 80 80 80 00, length 00) is refused
   by unber: finding C20-tag-limit *)
Theorem C20_xxber_tag_limit_refuted :
  unber (31 :: mark_cont (digits 128 5 two30) ++ [0]) = ([], XFail (DTagErr 5)).
Proof. exact xxber_tag_limit_refuted. Qed.
Print Assumptions C20_xxber_tag_limit_refuted.

(* -- plain mode (no -p), OBJECT IDENTIFIER / RELATIVE-OID pretty-printer of
      print_V: the arc count returned by OBJECT_IDENTIFIER_get_arcs on the contents
      octets is at most tlv_len + 1 (the first subidentifier yields two arcs), the
      one of RELATIVE_OID_get_arcs at most tlv_len: the two assert()s do not fire
      and the reads arcs[0..arcno-1] stay inside the MALLOC(tlv_len + 1 slots)
      block.  Model of the two functions: Leaf/Oid.v (tied to the C by C17). -- *)
Theorem C20_oid_arc_count : forall bs l,
  A1.Leaf.Oid.get_arcs bs = A1.Leaf.Oid.OArcs l -> (2 <= length l <= length bs + 1)%nat.
Proof. exact A1.Tools.UnberOid.oid_arc_count. Qed.
Print Assumptions C20_oid_arc_count.

Theorem C20_reloid_arc_count : forall bs l,
  A1.Leaf.Oid.reloid_get_arcs bs = A1.Leaf.Oid.OArcs l -> (length l <= length bs)%nat.
Proof. exact A1.Tools.UnberOid.reloid_arc_count. Qed.
Print Assumptions C20_reloid_arc_count.

(* tlv_len + 1 is reached (all contents octets below 0x80), so a block of
   tlv_len slots would be one short: the "+ 1" in print_V is necessary *)
Theorem C20_oid_arc_count_tight : forall b tl,
  A1.Tools.UnberOid.single_octets (b :: tl) ->
  exists l, A1.Leaf.Oid.get_arcs (b :: tl) = A1.Leaf.Oid.OArcs l /\ length l = S (length (b :: tl)).
Proof. exact A1.Tools.UnberOid.oid_arc_count_tight. Qed.
Print Assumptions C20_oid_arc_count_tight.
