(* Properties_C12.v — deterministic output, print/parse fixpoint.  Only statements,
   each closed by [exact] of a lemma proved in Fix/PrinterProofs.v, with Print
   Assumptions beneath.  Model: Fix/Printer.v (mirrors libasn1print/asn1print.c for
   the modelled algebra; tied to the real `asn1c -E` byte for byte by bin/vcheck C12).

   LEVEL: the module theorems are at TOKEN level (pp_module : module_ast -> list token).
   The byte layout ppb_module and the lexer are tied by execution on every generated
   case (lex (ppb_module a) = Some (pp_module a)), not by a theorem -- except for the VALUE
   sub-language (C12_lex_value, C12_lex_bits below: byte level, unbounded).
   Values (numbers, NULL, TRUE/FALSE, bit strings, character strings, reals in fixed notation,
   value references `id` / `Module.id`) are part of the module AST in every position the
   grammar has one: value assignments, DEFAULT, single-value constraints, range end points,
   named numbers, ENUMERATED values, exception specs -- so C12_parse_pp covers them.
   "Two runs give identical files" is a fact about a C process; it is observed by the
   check, not stated here.  "Independent of the file order" has one modelled ingredient:
   the rule that decides which per-type names get the module prefix (Fix/NameClash.v,
   mirrors asn1f_check_duplicate / asn1c_make_identifier; theorems C12_clash_* below, tied
   to the C by the file names generated under every permutation of the file list). *)
From Coq Require Import List Bool Permutation Ascii ZArith.
From A1 Require Import Fix.Printer Fix.PrinterProofs Fix.LexValues Fix.NameClash Fix.NameClashProofs Fix.Pullup Fix.PullupProofs.
From A1 Require Fix.ConstrOps Fix.ConstrOpsProofs Fix.ModuleLookup.
Import ListNotations.

(* the reference parser inverts the printer on every well-formed module of the algebra
   (types, tags, OPTIONAL/DEFAULT, extension markers, SEQUENCE/SET OF, references,
   constraint trees with the printer's own parenthesisation), unbounded *)
Theorem C12_parse_pp : forall m, wf_module m = true -> parse (pp_module m) = Some m.
Proof. exact parse_pp. Qed.
Print Assumptions C12_parse_pp.

(* printed text is accepted and prints to the same tokens again *)
Theorem C12_pp_fixpoint : forall m, wf_module m = true ->
  exists m', parse (pp_module m) = Some m' /\ pp_module m' = pp_module m.
Proof. exact pp_fixpoint. Qed.
Print Assumptions C12_pp_fixpoint.

(* ... and to the same bytes (the layout is a function of the tree) *)
Theorem C12_ppb_fixpoint : forall m, wf_module m = true ->
  exists m', parse (pp_module m) = Some m' /\ ppb_module m' = ppb_module m.
Proof. exact ppb_fixpoint. Qed.
Print Assumptions C12_ppb_fixpoint.

(* the tree handed to the compiler after a print/parse cycle is the tree it was handed
   before: same-code for well-formed modules reduces to the compiler being a function of
   the tree (observed on the real asn1c by the check) *)
Theorem C12_pp_injective : forall a b, wf_module a = true -> wf_module b = true ->
  pp_module a = pp_module b -> a = b.
Proof. exact pp_injective. Qed.
Print Assumptions C12_pp_injective.

(* the statement without the side condition is false of trees the grammar builds from
   `(((1)))`: refuted with a witness, replayed on the real asn1c (C12-paren-collapse) *)
Theorem C12_pp_fixpoint_refuted :
  exists src m, parse src = Some m /\
    forall m', parse (pp_module m) = Some m' -> pp_module m' <> pp_module m.
Proof. exact pp_fixpoint_refuted. Qed.
Print Assumptions C12_pp_fixpoint_refuted.

(* non-vacuity: a module using every construct is well-formed, round-trips, and its
   bytes lex to its tokens *)
Theorem C12_example : wf_module ex_module = true /\ parse (pp_module ex_module) = Some ex_module
                      /\ lex (ppb_module ex_module) = Some (pp_module ex_module).
Proof. exact (conj ex_module_wf (conj ex_module_roundtrip ex_module_lex)). Qed.
Print Assumptions C12_example.

(* --- byte level of the value sub-language (Fix/LexValues.v) ---------------------------- *)

(* the spelling of a bit vector -- hstring with the digits 0-9A-F when the number of bits is a
   multiple of 8, bstring otherwise (asn1print_value, ATV_BITVECTOR) -- is one lexeme of the
   model lexer, whose value is that bit vector; any length, any continuation *)
Theorem C12_lex_bits : forall bs rest, bs <> [] ->
  lex1 (ppb_bits bs +++ rest) = Some (TBits bs, rest).
Proof. exact lex1_bits. Qed.
Print Assumptions C12_lex_bits.

(* ... a character string with its quotes doubled likewise *)
Theorem C12_lex_cstr : forall s rest, head_is (fun a => Ascii.eqb a dquote) rest = false ->
  lex1 (ppb_cstr s +++ rest) = Some (TCstr s, rest).
Proof. exact lex1_cstr. Qed.
Print Assumptions C12_lex_cstr.

(* the bytes printed for any well-formed value, followed by anything that cannot extend its last
   token (blank, newline, `)`, `,`, `|`, `..`), are read back as the value's tokens followed by
   the tokens of the rest: with C12_parse_pp, a printed value is re-read as the same value *)
Theorem C12_lex_value : forall v rest, wf_value v = true -> vfollow rest = true ->
  lex (ppb_value v +++ rest) = match lex rest with Some l => Some (pp_value v ++ l) | None => None end.
Proof. exact lex_value. Qed.
Print Assumptions C12_lex_value.

(* the lexer has no lower-case hexadecimal digits (asn1p_l.l: '[0-9A-F ...]+'H) *)
Theorem C12_lex_lowercase_hex_rejected : forall rest,
  lex1 (SCons "'"%char (SCons "f"%char (SCons "f"%char (SCons "'"%char (SCons "H"%char rest))))) = None.
Proof. exact lex1_lowercase_hex_rejected. Qed.
Print Assumptions C12_lex_lowercase_hex_rejected.

(* --- naming of the per-type output of a module set (Fix/NameClash.v) ----------------- *)

(* the C's pairwise scan (each expression against the expressions before it, both marked
   on a clash, FATAL on the same identifier twice in one module) computes the symmetric
   specification: marked iff the identifier occurs anywhere in a module of another name *)
Theorem C12_clash_scan_is_spec : forall ms,
  cnames_c ms = if has_dup (flat ms) then None else Some (map (cname ms) (flat ms)).
Proof. exact cnames_c_spec. Qed.
Print Assumptions C12_clash_scan_is_spec.

(* acceptance, the C name of every expression, and the multiset of C names are invariant
   under permutation of the module list (= of the files on the command line) *)
Theorem C12_clash_names_order_independent : forall ms ms', Permutation ms ms' ->
  match cnames_c ms, cnames_c ms' with
  | None, None => True
  | Some l, Some l' => Permutation l l' /\ forall e, cname ms e = cname ms' e
  | _, _ => False
  end.
Proof. exact names_order_independent. Qed.
Print Assumptions C12_clash_names_order_independent.

(* the rule "the expression seen first keeps the short name" is order dependent *)
Theorem C12_clash_first_keeps_name_refuted :
  exists ms ms' n, Permutation ms ms' /\ In n (cnames_first ms) /\ ~ In n (cnames_first ms').
Proof. exact first_keeps_name_refuted. Qed.
Print Assumptions C12_clash_first_keeps_name_refuted.

(* non-vacuity: two modules defining Info, both orders, both get the prefix *)
Theorem C12_clash_example :
  cnames_c ex_ab = Some ["ModA_Info"; "UseA"; "ModB_Info"]%str /\
  cnames_c ex_ba = Some ["ModB_Info"; "ModA_Info"; "UseA"]%str.
Proof. exact ex_symmetric. Qed.
Print Assumptions C12_clash_example.

(* --- constraint resolution over a module set (Fix/Pullup.v) ----------------------------- *)
(* Model of asn1f_fix_module__phase_1/_2 + asn1constraint_resolve + constraint_type_resolve +
   asn1constraint_pullup: own constraints are rewritten in place (value references by their values,
   a contained subtype by the combined constraints of the named type, pulled up on the spot),
   combined constraints are computed once per type and cached; phase 1 then phase 2 run over the
   modules in command-line order.  Tied to asn1c by the `-- Combined constraints:` lines of
   `asn1c -E -F -print-constraints` for generated 2-3 module sets under every file order. *)

(* the memoising in-place algorithm, run over the modules in ANY order, computes the order-free
   specification (references resolved, the parent's combined constraints first) *)
Theorem C12_pullup_is_spec : forall w ms t,
  wf_world w = true -> mods_ok w ms = true -> In t (flat_map snd ms) ->
  combined w false ms t = spec w t.
Proof. exact fixall_spec. Qed.
Print Assumptions C12_pullup_is_spec.

(* hence the combined constraints of every type do not depend on the order of the module list *)
Theorem C12_pullup_order_independent : forall w ms ms' t,
  wf_world w = true -> mods_ok w ms = true -> Permutation ms ms' -> In t (flat_map snd ms) ->
  combined w false ms t = combined w false ms' t.
Proof. exact combined_order_independent. Qed.
Print Assumptions C12_pullup_order_independent.

(* the variant "a type of another module is resolved by the pass over its own module, not from
   pullup" caches an unresolved constraint when the including module comes first: order dependent *)
Theorem C12_pullup_foreign_unresolved_refuted : exists w ms ms' t,
  wf_world w = true /\ mods_ok w ms = true /\ Permutation ms ms' /\ In t (flat_map snd ms) /\
  combined w true ms t <> combined w true ms' t.
Proof. exact seeded_order_dependent. Qed.
Print Assumptions C12_pullup_foreign_unresolved_refuted.

(* non-vacuity: V ::= INTEGER (INCLUDES X), X ::= Y, Y ::= INTEGER (W), W ::= INTEGER (0..100) over three modules *)
Theorem C12_pullup_example :
  combined wdemo false [mA; mB; mC] 1 = Some [Lit 0%Z 100%Z] /\
  combined wdemo false [mC; mB; mA] 1 = Some [Lit 0%Z 100%Z] /\
  spec wdemo 1 = Some [Lit 0%Z 100%Z] /\
  map (combined wdemo false [mA; mB; mC]) [0; 1; 2; 3] = map (spec wdemo) [0; 1; 2; 3] /\
  map (combined wdemo false [mC; mB; mA]) [0; 1; 2; 3] = map (spec wdemo) [0; 1; 2; 3] /\
  spec wdemo 3 = Some [Lit 0%Z 100%Z].
Proof. exact pullup_example. Qed.
Print Assumptions C12_pullup_example.

(* ---------------------------------------------------------------------------------------------
   Round 4.  (a) The constraint sub-language with every set operator of asn1c's grammar
   (Fix/ConstrOps.v; names qualified, the file re-uses names of Fix/Printer.v).  (b) Module identity:
   which module an IMPORTS clause refers to (Fix/ModuleLookup.v, mirrors asn1f_lookup_module). *)

(* every separated list of the constraint grammar (unions, intersections) is re-read element by element
   and ends where the separator does not follow; the fuel only has to exceed the number of tokens *)
Theorem C12_ops_sep_list : forall (pe : ConstrOps.parser ConstrOps.cons) (sepb : ConstrOps.tok -> bool)
    (sep : ConstrOps.tok) (f : ConstrOps.cons -> list ConstrOps.tok),
  sepb sep = true ->
  forall l k rest, l <> [] -> length (ConstrOps.pp_sep sep f l ++ rest) < k ->
  (forall x r, In x l -> length (f x ++ r) <= length (ConstrOps.pp_sep sep f l ++ rest) ->
               (r = rest \/ exists r', r = sep :: r') -> pe (f x ++ r) = Some (x, r)) ->
  ConstrOpsProofs.head_not sepb rest ->
  ConstrOps.p_sep1 pe sepb k (ConstrOps.pp_sep sep f l ++ rest) = Some (l, rest).
Proof. exact ConstrOpsProofs.p_sep1_ok. Qed.
Print Assumptions C12_ops_sep_list.

(* `(ALL EXCEPT a)`, `(ALL EXCEPT (a | b))`, `(ALL EXCEPT a, ...)` are re-read as themselves, for every atom *)
Theorem C12_ops_aex_roundtrip : forall n m,
  ConstrOps.parse (ConstrOps.pp false (ConstrOps.CSet [ConstrOps.Aex (ConstrOps.Atom n)]))
    = Some (ConstrOps.CSet [ConstrOps.Aex (ConstrOps.Atom n)]) /\
  ConstrOps.parse (ConstrOps.pp false (ConstrOps.CSet [ConstrOps.Aex (ConstrOps.CSet [ConstrOps.Uni [ConstrOps.Atom n; ConstrOps.Atom m]])]))
    = Some (ConstrOps.CSet [ConstrOps.Aex (ConstrOps.CSet [ConstrOps.Uni [ConstrOps.Atom n; ConstrOps.Atom m]])]) /\
  ConstrOps.parse (ConstrOps.pp false (ConstrOps.CSet [ConstrOps.Csv [ConstrOps.Aex (ConstrOps.Atom n); ConstrOps.Ext]]))
    = Some (ConstrOps.CSet [ConstrOps.Csv [ConstrOps.Aex (ConstrOps.Atom n); ConstrOps.Ext]]).
Proof. exact ConstrOpsProofs.aex_roundtrip. Qed.
Print Assumptions C12_ops_aex_roundtrip.

(* the printer variant "ALL EXCEPT ( operand )": every printed text is accepted, none is a fixpoint, each
   round is longer than the one before; the C's own printer keeps the witness fixed *)
Theorem C12_ops_aex_paren_refuted : exists c c1 c2,
  ConstrOps.wf_top c = true /\
  ConstrOps.parse (ConstrOps.pp true c) = Some c1 /\ ConstrOps.parse (ConstrOps.pp true c1) = Some c2 /\
  c1 <> c /\ c2 <> c1 /\
  length (ConstrOps.pp true c) < length (ConstrOps.pp true c1) /\
  length (ConstrOps.pp true c1) < length (ConstrOps.pp true c2) /\
  ConstrOps.parse (ConstrOps.pp false c) = Some c.
Proof. exact ConstrOpsProofs.aex_variant_refuted. Qed.
Print Assumptions C12_ops_aex_paren_refuted.

(* non-vacuity: the directed trees of the check (one per operator and operand position) are well formed and round-trip *)
Theorem C12_ops_example :
  forallb (fun c => ConstrOps.wf_top c && match ConstrOps.parse (ConstrOps.pp false c) with Some c' => true | None => false end)
          ConstrOpsProofs.ex_trees = true /\
  map (fun c => ConstrOps.parse (ConstrOps.pp false c)) ConstrOpsProofs.ex_trees = map Some ConstrOpsProofs.ex_trees.
Proof. exact ConstrOpsProofs.ex_trees_roundtrip. Qed.
Print Assumptions C12_ops_example.

(* an OID is given and the OIDs of the module list are distinct (what the fixer accepts): the module found
   does not depend on the order of the module files *)
Theorem C12_lookup_oid_order_independent : forall ms ms' o,
  ModuleLookup.oids_distinct ms -> Permutation ms ms' ->
  ModuleLookup.lookup_oid ms o = ModuleLookup.lookup_oid ms' o.
Proof. exact ModuleLookup.lookup_oid_order_independent. Qed.
Print Assumptions C12_lookup_oid_order_independent.

(* an OID is given: never a module picked by its name; the module that carries the OID is found under any name *)
Theorem C12_lookup_oid_by_oid_only : forall ms o,
  (forall m, ModuleLookup.lookup_oid ms o = Some m -> In m ms /\ ModuleLookup.m_oid m = Some o) /\
  (forall m, ModuleLookup.oids_distinct ms -> In m ms -> ModuleLookup.m_oid m = Some o ->
             ModuleLookup.lookup_oid ms o = Some m).
Proof. exact ModuleLookup.lookup_oid_by_oid_only. Qed.
Print Assumptions C12_lookup_oid_by_oid_only.

(* no OID: the whole list is walked, a second module of the name is an error: the answer does not depend on the
   order of the module files whatever names they carry (it did while the first module of the name was taken:
   finding C12-import-edition-by-order, fixed) *)
Theorem C12_lookup_name_order_independent : forall ms ms' n,
  Permutation ms ms' ->
  ModuleLookup.lookup_c ms n None = ModuleLookup.lookup_c ms' n None.
Proof. exact ModuleLookup.lookup_name_order_independent. Qed.
Print Assumptions C12_lookup_name_order_independent.

(* ... and a module is found by name exactly when it is the only module of that name *)
Theorem C12_lookup_name_unique : forall ms n m,
  ModuleLookup.lookup_c ms n None = ModuleLookup.LFound m <-> filter (ModuleLookup.name_match n) ms = [m].
Proof. exact ModuleLookup.lookup_name_unique. Qed.
Print Assumptions C12_lookup_name_unique.

(* renaming step + loop *)
Theorem C12_lookup_full_order_independent : forall imps ms ms' n o,
  ModuleLookup.oids_distinct ms -> Permutation ms ms' ->
  ModuleLookup.lookup_full imps ms n o = ModuleLookup.lookup_full imps ms' n o.
Proof. exact ModuleLookup.lookup_full_order_independent. Qed.
Print Assumptions C12_lookup_full_order_independent.

(* "the OID matches OR the name matches, first match in command-line order" is order dependent on an accepted
   module list with distinct OIDs, where the C's rule is not *)
Theorem C12_lookup_lenient_refuted : exists ms ms' n o,
  ModuleLookup.accepted_b ms = true /\ ModuleLookup.oids_distinct ms /\ Permutation ms ms' /\
  ModuleLookup.lookup_lenient ms n (Some o) <> ModuleLookup.lookup_lenient ms' n (Some o) /\
  ModuleLookup.lookup_oid ms o = ModuleLookup.lookup_oid ms' o.
Proof. exact ModuleLookup.lookup_lenient_refuted. Qed.
Print Assumptions C12_lookup_lenient_refuted.

(* ---- round 5: the output does not depend on what the output directory already holds ------------------------------
   identical_files (libasn1compiler/asn1c_save.c) as a block-wise comparison with block size B (coq/Fix/IdenticalFiles.v) *)
From A1 Require Import Fix.IdenticalFiles Fix.IdenticalFilesProofs.

(* for every block size B > 0, every two files of any length: the loop says "identical" exactly when they are equal *)
Theorem C12_identical_iff : forall (A : Type) (eqb : A -> A -> bool),
  (forall x y, eqb x y = true <-> x = y) -> forall B : nat, B > 0 ->
  forall a b : list A, identical A eqb B a b = true <-> a = b.
Proof. exact IdenticalFilesProofs.identical_iff. Qed.
Print Assumptions C12_identical_iff.

(* the variant "last partial block by length only" (= seeded change C12-9) accepts EXACTLY the pairs that agree on k whole
   blocks and have equally long tails shorter than a block: the stale-file pairs of the sweep are drawn from this set *)
Theorem C12_identical_tail_len_iff : forall (A : Type) (eqb : A -> A -> bool),
  (forall x y, eqb x y = true <-> x = y) -> forall B : nat, B > 0 ->
  forall a b : list A, identical_tail_len A eqb B a b = true <-> IdenticalFilesProofs.tail_confusable A B a b.
Proof. exact IdenticalFilesProofs.identical_tail_len_iff. Qed.
Print Assumptions C12_identical_tail_len_iff.

Theorem C12_identical_tail_len_refuted : exists (B : nat) (a b : list N),
  B > 0 /\ a <> b /\ identical_tail_len N N.eqb B a b = true /\ identical N N.eqb B a b = false.
Proof. exact IdenticalFilesProofs.identical_tail_len_refuted. Qed.
Print Assumptions C12_identical_tail_len_refuted.

(* B > 0 cannot be dropped *)
Theorem C12_identical_block0_refuted : exists (a b : list N), a <> b /\ identical N N.eqb 0 a b = true.
Proof. exact IdenticalFilesProofs.identical_block0_refuted. Qed.
Print Assumptions C12_identical_block0_refuted.

(* what is at the path of a per-type file / a copied skeleton file after the run is what a run into an empty directory
   leaves there, whatever was there before (absent, any regular file, a symbolic link) *)
Theorem C12_save_type_is_fresh : forall (A : Type) (eqb : A -> A -> bool),
  (forall x y, eqb x y = true <-> x = y) -> forall B : nat, B > 0 ->
  forall (old : entry A) (new : list A), save_type A eqb B old new = fresh_type A new.
Proof. exact IdenticalFilesProofs.save_type_is_fresh. Qed.
Print Assumptions C12_save_type_is_fresh.

Theorem C12_copy_skel_is_fresh : forall (A : Type) (eqb : A -> A -> bool),
  (forall x y, eqb x y = true <-> x = y) -> forall B : nat, B > 0 ->
  forall (old : entry A) (src : list A), copy_skel A eqb B old src = fresh_type A src.
Proof. exact IdenticalFilesProofs.copy_skel_is_fresh. Qed.
Print Assumptions C12_copy_skel_is_fresh.

(* ... which the length-only tail breaks: a stale one-block file survives *)
Theorem C12_save_type_tail_len_refuted : exists (B : nat) (old : entry N) (new : list N),
  B > 0 /\ save_type_tail_len N N.eqb B old new <> fresh_type N new.
Proof. exact IdenticalFilesProofs.save_type_tail_len_refuted. Qed.
Print Assumptions C12_save_type_tail_len_refuted.

(* the one dependence on the old entry that asn1c has: -flink-skeletons keeps whatever is there (documented:
   "Retaining local ..."); the files rewritten in place replace whatever is there, a symbolic link included
   (C12-inplace-file-through-symlink, repaired in asn1c_open_file) *)
Theorem C12_link_skel_retains : forall (A : Type) (old : entry A) (path : nat), old <> Absent A -> link_skel A old path = old.
Proof. exact IdenticalFilesProofs.link_skel_retains. Qed.
Print Assumptions C12_link_skel_retains.

Theorem C12_write_inplace_is_fresh : forall (A : Type) (old : entry A) (new : list A),
  write_inplace A old new = (Reg A new, None).
Proof. exact IdenticalFilesProofs.write_inplace_is_fresh. Qed.
Print Assumptions C12_write_inplace_is_fresh.

Theorem C12_identical_examples :
  identical_N 4 [1;2;3;4;5;6;7;8;9]%N [1;2;3;4;5;6;7;8;9]%N = true /\
  identical_N 4 [1;2;3;4;5;6;7;8;9]%N [1;2;0;4;5;6;7;8;9]%N = false /\
  identical_N 4 [1;2;3;4;5;6;7;8;9]%N [1;2;3;0;5;6;7;8;9]%N = false /\
  identical_N 4 [1;2;3;4;5;6;7;8;9]%N [1;2;3;4;0;6;7;8;9]%N = false /\
  identical_N 4 [1;2;3;4;5;6;7;8;9]%N [1;2;3;4;5;6;7;8;0]%N = false /\
  identical_N 4 [1;2;3;4;5;6;7;8]%N [1;2;3;4;5;6;7;8;9]%N = false /\
  identical_N 4 [1;2;3;4;5;6;7;8;9]%N [1;2;3;4;5;6;7;8]%N = false /\
  identical_N 4 []%N []%N = true /\ identical_N 4 []%N [1]%N = false /\ identical_N 4 [1]%N []%N = false.
Proof. exact IdenticalFilesProofs.identical_examples. Qed.
Print Assumptions C12_identical_examples.

(* a whole run in the copy modes (the directory as a map path -> entry, the files written in asn1c's order, a path possibly
   more than once): every file the run writes is what a run into an EMPTY directory leaves there, whatever the directory
   held (symbolic links included), and every other entry is left alone:
   the statement the oracle `oracle:outdir-state` evaluates on the C *)
Theorem C12_run_dir_is_fresh : forall (A : Type) (eqb : A -> A -> bool),
  (forall x y, eqb x y = true <-> x = y) -> forall B : nat, B > 0 ->
  forall (outs : list (nat * wop A)) (d : dir A),
  forall q, In q (map fst outs) -> run_dir A eqb B d outs q = run_dir A eqb B (empty_dir A) outs q.
Proof. exact IdenticalFilesProofs.run_dir_is_fresh. Qed.
Print Assumptions C12_run_dir_is_fresh.

Theorem C12_run_dir_untouched : forall (A : Type) (eqb : A -> A -> bool) (B : nat)
  (outs : list (nat * wop A)) (d : dir A) (q : nat),
  ~ In q (map fst outs) -> run_dir A eqb B d outs q = d q.
Proof. exact IdenticalFilesProofs.run_dir_untouched. Qed.
Print Assumptions C12_run_dir_untouched.

