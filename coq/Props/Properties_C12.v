(* Properties_C12.v — deterministic output, print/parse fixpoint.  Only statements,
   each closed by [exact] of a lemma proved in Fix/PrinterProofs.v, with Print
   Assumptions beneath.  Model: Fix/Printer.v (mirrors libasn1print/asn1print.c for
   the modelled algebra; tied to the real `asn1c -E` byte for byte by bin/vcheck C12).

   LEVEL: all theorems are at TOKEN level (pp_module : module_ast -> list token).
   The byte layout ppb_module and the lexer are tied by execution on every generated
   case (lex (ppb_module a) = Some (pp_module a)), not by a theorem.
   "Two runs give identical files" and "independent of the file order" are facts about
   a C process; they are observed by the check, not stated here. *)
From Coq Require Import List Bool.
From A1 Require Import Fix.Printer Fix.PrinterProofs.
Import ListNotations.

(* the reference parser inverts the printer on every well-formed module of the algebra
   (types, tags, OPTIONAL/DEFAULT, extension markers, SEQUENCE/SET OF, references,
   constraint trees with the printer's own parenthesisation), unbounded *)
Theorem C12_parse_pp : forall m, wf_module m = true -> parse (pp_module m) = Some m.
Proof. exact parse_pp. Qed.
Print Assumptions C12_parse_pp.

(* printed text is accepted and prints to the same tokens again *)
Theorem C12_pp_fixpoint : forall m, wf_module m = true ->
  exists m', parse (pp_module m) = Some m' /\ pp_module m' = pp_module m.
Proof. exact pp_fixpoint. Qed.
Print Assumptions C12_pp_fixpoint.

(* ... and to the same bytes (the layout is a function of the tree) *)
Theorem C12_ppb_fixpoint : forall m, wf_module m = true ->
  exists m', parse (pp_module m) = Some m' /\ ppb_module m' = ppb_module m.
Proof. exact ppb_fixpoint. Qed.
Print Assumptions C12_ppb_fixpoint.

(* the tree handed to the compiler after a print/parse cycle is the tree it was handed
   before: same-code for well-formed modules reduces to the compiler being a function of
   the tree (observed on the real asn1c by the check) *)
Theorem C12_pp_injective : forall a b, wf_module a = true -> wf_module b = true ->
  pp_module a = pp_module b -> a = b.
Proof. exact pp_injective. Qed.
Print Assumptions C12_pp_injective.

(* the statement without the side condition is false of trees the grammar builds from
   `(((1)))`: refuted with a witness, replayed on the real asn1c (C12-paren-collapse) *)
Theorem C12_pp_fixpoint_refuted :
  exists src m, parse src = Some m /\
    forall m', parse (pp_module m) = Some m' -> pp_module m' <> pp_module m.
Proof. exact pp_fixpoint_refuted. Qed.
Print Assumptions C12_pp_fixpoint_refuted.

(* non-vacuity: a module using every construct is well-formed, round-trips, and its
   bytes lex to its tokens *)
Theorem C12_example : wf_module ex_module = true /\ parse (pp_module ex_module) = Some ex_module
                      /\ lex (ppb_module ex_module) = Some (pp_module ex_module).
Proof. exact (conj ex_module_wf (conj ex_module_roundtrip ex_module_lex)). Qed.
Print Assumptions C12_example.
