(* Properties_C11.v — ambiguous specifications are rejected, unambiguous ones
   accepted.  Only statements, each closed by [exact] of a lemma proved in
   Fix/DistinctProofs.v, with Print Assumptions beneath.
   Model: Fix/Tags.v ([check] = verdict of an asn1c run, tied to libasn1fix by
   bin/vcheck C11).  Spec: Fix/Distinct.v ([distinct_spec], [tagging_wf]). *)
From Coq Require Import ZArith List Bool.
From A1 Require Import Fix.Tags Fix.Distinct Fix.DistinctProofs Fix.ComponentsOf Fix.ComponentsOfProofs.
Import ListNotations.
Local Open Scope Z_scope.

(* ---- accepted => unambiguous.  False of the code in general (refuted below);
        holds when no component is an untagged reference to an untagged CHOICE ---- *)
Theorem C11_distinct_sound_partial : forall m,
  check m = Accept -> chref_free m -> distinct_spec m.
Proof. exact distinct_sound_partial. Qed.
Print Assumptions C11_distinct_sound_partial.

Theorem C11_distinct_sound_refuted : exists m, check m = Accept /\ ~ distinct_spec m.
Proof. exact distinct_sound_refuted. Qed.
Print Assumptions C11_distinct_sound_refuted.

(* ---- unambiguous (and well-formed) => not rejected.  False in general
        (enumeration numbering, refuted below); the conclusion allows [Crashes]
        because the code does not terminate on every module (refuted below) ---- *)
Theorem C11_distinct_complete_partial : forall m,
  tagging_wf m -> distinct_spec m -> enums_plain m ->
  check m = Accept \/ check m = Crashes.
Proof. exact distinct_complete_partial'. Qed.
Print Assumptions C11_distinct_complete_partial.

Theorem C11_distinct_complete_refuted :
  exists m, tagging_wf m /\ distinct_spec m /\ check m = Reject [REnumValue].
Proof. exact distinct_complete_refuted. Qed.
Print Assumptions C11_distinct_complete_refuted.

(* "exits non-zero with a diagnostic" fails for a CHOICE that is its own first alternative *)
Theorem C11_reject_with_diagnostic_refuted : exists m, ~ distinct_spec m /\ check m = Crashes.
Proof. exact reject_with_diagnostic_refuted. Qed.
Print Assumptions C11_reject_with_diagnostic_refuted.

(* ---- _asn1f_compare_tags ---- *)
(* whatever TM_RECURSION marks are set, a reported clash is a common outermost tag *)
Theorem C11_compare_clash_is_real : forall m fuel marks a b,
  compare m fuel marks a b = Done true ->
  exists x, ntags m (n_kind a) x /\ ntags m (n_kind b) x.
Proof. exact compare_true_common. Qed.
Print Assumptions C11_compare_clash_is_real.

(* started without marks and with a harmless second argument, "no clash" means disjoint tag sets *)
Theorem C11_compare_no_clash_is_disjoint : forall m fuel a b,
  transparent m b -> compare m fuel [] a b = Done false ->
  disjoint (ntags m (n_kind a)) (ntags m (n_kind b)).
Proof. exact compare_false_disjoint. Qed.
Print Assumptions C11_compare_no_clash_is_disjoint.

(* ---- the pair loops of asn1f_check_constr_tags_distinct ---- *)
(* CHOICE/SET (is_seq = false): every ordered pair; SEQUENCE: an OPTIONAL/DEFAULT
   member against the following ones up to the first that is not *)
Theorem C11_pair_loop_quiet : forall m fuel is_seq l,
  scan_all m fuel is_seq l = Done false ->
  forall v nv, run_pair is_seq l v nv -> compare m fuel [] v nv = Done false.
Proof. exact scan_all_false. Qed.
Print Assumptions C11_pair_loop_quiet.

Theorem C11_pair_loop_clash : forall m fuel is_seq l,
  scan_all m fuel is_seq l = Done true ->
  exists v nv, run_pair is_seq l v nv /\ compare m fuel [] v nv = Done true.
Proof. exact scan_all_true. Qed.
Print Assumptions C11_pair_loop_clash.

(* per constructed type: the loop over the member list (root1, root2, "...", additions)
   against the specification's clause (runs in the root, runs in the additions / all pairs) *)
Theorem C11_constructed_tags_sound : forall m fuel p k r1 ext r2,
  comps_transparent m (r1 ++ r2 ++ adds_of ext) ->
  scan_all m fuel (seq_flag k) (members (m_tagging m) p r1 ext r2) = Done false ->
  tags_clause m k r1 ext r2.
Proof. exact cons_tags_sound. Qed.
Print Assumptions C11_constructed_tags_sound.

Theorem C11_constructed_tags_complete : forall m fuel p k r1 ext r2,
  tags_clause m k r1 ext r2 ->
  scan_all m fuel (seq_flag k) (members (m_tagging m) p r1 ext r2) <> Done true.
Proof. exact cons_tags_complete. Qed.
Print Assumptions C11_constructed_tags_complete.

(* ---- identifiers, enumerations ---- *)
Theorem C11_identifiers_unique : forall l, dup_in l = false <-> NoDup l.
Proof. exact dup_in_NoDup. Qed.
Print Assumptions C11_identifiers_unique.

Theorem C11_enum_values_sound : forall items,
  enum_val_clash items = false -> NoDup (explicit_values items).
Proof. exact enum_val_clash_sound. Qed.
Print Assumptions C11_enum_values_sound.

Theorem C11_enum_values_complete_partial : forall items,
  all_valued items \/ none_valued items -> NoDup (explicit_values items) ->
  enum_val_clash items = false.
Proof. exact enum_val_clash_complete_partial. Qed.
Print Assumptions C11_enum_values_complete_partial.

Theorem C11_enum_values_complete_refuted :
  exists items, NoDup (explicit_values items) /\ NoDup (map fst items) /\ enum_val_clash items = true.
Proof. exact enum_val_clash_complete_refuted. Qed.
Print Assumptions C11_enum_values_complete_refuted.

(* ==== modules with COMPONENTS OF and extensible ENUMERATED (Fix/ComponentsOf.v) ====
   [xcheck] = verdict of an asn1c run on the surface syntax = [check] after asn1c's
   expansion [expand_c] (+ the two checks made on the notation as written);
   the specification is [distinct_spec] after X.680's expansion [expand_x680]. *)

(* the bridge: an accepted surface module is an accepted core module *)
Theorem C11_compof_accept_is_check_accept : forall xm, xcheck xm = XAccept ->
  exists m, expand_c xm = Some m /\ check m = Accept /\ pre_reasons xm = [].
Proof. exact xcheck_accept. Qed.
Print Assumptions C11_compof_accept_is_check_accept.

(* accepted => unambiguous, where asn1c's expansion is X.680's.  False without that
   hypothesis (two refutations below). *)
Theorem C11_compof_sound_partial : forall xm m,
  xcheck xm = XAccept -> expand_x680 xm = Some m -> expand_c xm = Some m ->
  chref_free m -> distinct_spec m.
Proof. exact compof_sound_partial. Qed.
Print Assumptions C11_compof_sound_partial.

(* an identifier inherited through COMPONENTS OF is never compared *)
Theorem C11_compof_sound_refuted_ident :
  exists xm m, xcheck xm = XAccept /\ expand_x680 xm = Some m /\ ~ distinct_spec m.
Proof. exact compof_sound_refuted_ident. Qed.
Print Assumptions C11_compof_sound_refuted_ident.

(* types nested in an inherited component lose their extension marker *)
Theorem C11_compof_sound_refuted_nested_ext :
  exists xm m, xcheck xm = XAccept /\ expand_x680 xm = Some m /\ ~ distinct_spec m.
Proof. exact compof_sound_refuted_ext. Qed.
Print Assumptions C11_compof_sound_refuted_nested_ext.

(* unambiguous and well-formed => not rejected, likewise; additionally the first
   additional enumeration of every extensible ENUMERATED must not be negative
   (refuted without: C11_enum_ext_complete_refuted) *)
Theorem C11_compof_complete_partial : forall xm m,
  expand_x680 xm = Some m -> expand_c xm = Some m ->
  xwf_written xm = true -> forallb xenum_adds_nonneg (all_xtypes xm) = true ->
  tagging_wf m -> distinct_spec m -> enums_plain m ->
  xcheck xm = XAccept \/ xcheck xm = XCrashes.
Proof. exact compof_complete_partial. Qed.
Print Assumptions C11_compof_complete_partial.

Theorem C11_enum_ext_complete_refuted :
  exists xm m, expand_x680 xm = Some m /\ expand_c xm = Some m /\ xwf_written xm = true /\
               tagging_wf m /\ distinct_spec m /\ enums_plain m /\ xcheck xm = XReject [XEnumOrder].
Proof. exact enum_ext_complete_refuted. Qed.
Print Assumptions C11_enum_ext_complete_refuted.

(* ---- asn1f_fix_enum's order check of additional enumerations vs X.680 20.4, any values ---- *)
Theorem C11_enum_ext_order_sound : forall l, c_order_err (-1) l = false -> x680_order_ok l = true.
Proof. exact enum_order_sound. Qed.
Print Assumptions C11_enum_ext_order_sound.

Theorem C11_enum_ext_order_complete_partial : forall l,
  x680_order_ok l = true -> match l with v :: _ => 0 <= v | [] => True end ->
  c_order_err (-1) l = false.
Proof. exact enum_order_complete_partial. Qed.
Print Assumptions C11_enum_ext_order_complete_partial.

Theorem C11_enum_ext_order_complete_refuted : exists l, x680_order_ok l = true /\ c_order_err (-1) l = true.
Proof. exact enum_order_complete_refuted. Qed.
Print Assumptions C11_enum_ext_order_complete_refuted.

(* ---- the surface model extends the model of Fix/Tags.v: a module without COMPONENTS OF
        and without extensible enumerations expands to itself (either policy), and the
        two verdict functions agree on it ---- *)
Theorem C11_compof_conservative_expand : forall pol m, expand pol (embed m) = Some m.
Proof. exact expand_embed. Qed.
Print Assumptions C11_compof_conservative_expand.

Theorem C11_compof_conservative_accept : forall m, xcheck (embed m) = XAccept <-> check m = Accept.
Proof. exact xcheck_embed_accept. Qed.
Print Assumptions C11_compof_conservative_accept.

Theorem C11_compof_conservative_crashes : forall m, xcheck (embed m) = XCrashes <-> check m = Crashes.
Proof. exact xcheck_embed_crashes. Qed.
Print Assumptions C11_compof_conservative_crashes.
