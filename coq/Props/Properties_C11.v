(* Properties_C11.v — ambiguous specifications rejected, unambiguous accepted.
   Only statements, each closed by [exact] of a lemma proved elsewhere. *)
From Coq Require Import ZArith List Bool.
From A1 Require Import Fix.Tags Fix.Distinct.
Import ListNotations.

Theorem C11_placeholder_model_runs : check {| m_tagging := TgExplicit; m_defs := [] |} = Accept.
Proof. exact (eq_refl Accept). Qed.
Print Assumptions C11_placeholder_model_runs.
