(* Properties_C11.v — ambiguous specifications are rejected, unambiguous ones
   accepted.  Only statements, each closed by [exact] of a lemma proved in
   Fix/DistinctProofs.v, with Print Assumptions beneath.
   Model: Fix/Tags.v ([check] = verdict of an asn1c run, tied to libasn1fix by
   bin/vcheck C11).  Spec: Fix/Distinct.v ([distinct_spec], [tagging_wf]). *)
From Coq Require Import ZArith List Bool.
From A1 Require Import Fix.Tags Fix.Distinct Fix.DistinctProofs Fix.ComponentsOf Fix.ComponentsOfProofs Fix.TagMode Fix.TagModeProofs.
Import ListNotations.
Local Open Scope Z_scope.

(* ---- accepted => unambiguous.  False of the code in general (refuted below);
        holds when no component is an untagged reference to an untagged CHOICE ---- *)
Theorem C11_distinct_sound_partial : forall m,
  check m = Accept -> chref_free m -> distinct_spec m.
Proof. exact distinct_sound_partial. Qed.
Print Assumptions C11_distinct_sound_partial.

Theorem C11_distinct_sound_refuted : exists m, check m = Accept /\ ~ distinct_spec m.
Proof. exact distinct_sound_refuted. Qed.
Print Assumptions C11_distinct_sound_refuted.

(* ---- unambiguous (and well-formed) => not rejected.  False in general
        (enumeration numbering, refuted below); the conclusion allows [Crashes]
        because the code does not terminate on every module (refuted below) ---- *)
Theorem C11_distinct_complete_partial : forall m,
  tagging_wf m -> distinct_spec m -> enums_plain m ->
  check m = Accept \/ check m = Crashes.
Proof. exact distinct_complete_partial'. Qed.
Print Assumptions C11_distinct_complete_partial.

Theorem C11_distinct_complete_refuted :
  exists m, tagging_wf m /\ distinct_spec m /\ check m = Reject [REnumValue].
Proof. exact distinct_complete_refuted. Qed.
Print Assumptions C11_distinct_complete_refuted.

(* "exits non-zero with a diagnostic" fails for a CHOICE that is its own first alternative *)
Theorem C11_reject_with_diagnostic_refuted : exists m, ~ distinct_spec m /\ check m = Crashes.
Proof. exact reject_with_diagnostic_refuted. Qed.
Print Assumptions C11_reject_with_diagnostic_refuted.

(* ---- _asn1f_compare_tags ---- *)
(* whatever TM_RECURSION marks are set, a reported clash is a common outermost tag *)
Theorem C11_compare_clash_is_real : forall m fuel marks a b,
  compare m fuel marks a b = Done true ->
  exists x, ntags m (n_kind a) x /\ ntags m (n_kind b) x.
Proof. exact compare_true_common. Qed.
Print Assumptions C11_compare_clash_is_real.

(* started without marks and with a harmless second argument, "no clash" means disjoint tag sets *)
Theorem C11_compare_no_clash_is_disjoint : forall m fuel a b,
  transparent m b -> compare m fuel [] a b = Done false ->
  disjoint (ntags m (n_kind a)) (ntags m (n_kind b)).
Proof. exact compare_false_disjoint. Qed.
Print Assumptions C11_compare_no_clash_is_disjoint.

(* ---- the pair loops of asn1f_check_constr_tags_distinct ---- *)
(* CHOICE/SET (is_seq = false): every ordered pair; SEQUENCE: an OPTIONAL/DEFAULT
   member against the following ones up to the first that is not *)
Theorem C11_pair_loop_quiet : forall m fuel is_seq l,
  scan_all m fuel is_seq l = Done false ->
  forall v nv, run_pair is_seq l v nv -> compare m fuel [] v nv = Done false.
Proof. exact scan_all_false. Qed.
Print Assumptions C11_pair_loop_quiet.

Theorem C11_pair_loop_clash : forall m fuel is_seq l,
  scan_all m fuel is_seq l = Done true ->
  exists v nv, run_pair is_seq l v nv /\ compare m fuel [] v nv = Done true.
Proof. exact scan_all_true. Qed.
Print Assumptions C11_pair_loop_clash.

(* per constructed type: the loop over the member list (root1, root2, "...", additions)
   against the specification's clause (runs in the root, runs in the additions / all pairs) *)
Theorem C11_constructed_tags_sound : forall m fuel p k r1 ext r2,
  comps_transparent m (r1 ++ r2 ++ adds_of ext) ->
  scan_all m fuel (seq_flag k) (members (m_tagging m) p r1 ext r2) = Done false ->
  tags_clause m k r1 ext r2.
Proof. exact cons_tags_sound. Qed.
Print Assumptions C11_constructed_tags_sound.

Theorem C11_constructed_tags_complete : forall m fuel p k r1 ext r2,
  tags_clause m k r1 ext r2 ->
  scan_all m fuel (seq_flag k) (members (m_tagging m) p r1 ext r2) <> Done true.
Proof. exact cons_tags_complete. Qed.
Print Assumptions C11_constructed_tags_complete.

(* ---- identifiers, enumerations ---- *)
Theorem C11_identifiers_unique : forall l, dup_in l = false <-> NoDup l.
Proof. exact dup_in_NoDup. Qed.
Print Assumptions C11_identifiers_unique.

Theorem C11_enum_values_sound : forall items,
  enum_val_clash items = false -> NoDup (explicit_values items).
Proof. exact enum_val_clash_sound. Qed.
Print Assumptions C11_enum_values_sound.

Theorem C11_enum_values_complete_partial : forall items,
  all_valued items \/ none_valued items -> NoDup (explicit_values items) ->
  enum_val_clash items = false.
Proof. exact enum_val_clash_complete_partial. Qed.
Print Assumptions C11_enum_values_complete_partial.

Theorem C11_enum_values_complete_refuted :
  exists items, NoDup (explicit_values items) /\ NoDup (map fst items) /\ enum_val_clash items = true.
Proof. exact enum_val_clash_complete_refuted. Qed.
Print Assumptions C11_enum_values_complete_refuted.

(* ==== modules with COMPONENTS OF and extensible ENUMERATED (Fix/ComponentsOf.v) ====
   [xcheck] = verdict of an asn1c run on the surface syntax = [check] after asn1c's
   expansion [expand_c] (+ the two checks made on the notation as written);
   the specification is [distinct_spec] after X.680's expansion [expand_x680]. *)

(* the bridge: an accepted surface module is an accepted core module *)
Theorem C11_compof_accept_is_check_accept : forall xm, xcheck xm = XAccept ->
  exists m, expand_c xm = Some m /\ check m = Accept /\ pre_reasons xm = [].
Proof. exact xcheck_accept. Qed.
Print Assumptions C11_compof_accept_is_check_accept.

(* accepted => unambiguous, where asn1c's expansion is X.680's.  False without that
   hypothesis (two refutations below). *)
Theorem C11_compof_sound_partial : forall xm m,
  xcheck xm = XAccept -> expand_x680 xm = Some m -> expand_c xm = Some m ->
  chref_free m -> distinct_spec m.
Proof. exact compof_sound_partial. Qed.
Print Assumptions C11_compof_sound_partial.

(* an identifier inherited through COMPONENTS OF is never compared *)
Theorem C11_compof_sound_refuted_ident :
  exists xm m, xcheck xm = XAccept /\ expand_x680 xm = Some m /\ ~ distinct_spec m.
Proof. exact compof_sound_refuted_ident. Qed.
Print Assumptions C11_compof_sound_refuted_ident.

(* types nested in an inherited component lose their extension marker *)
Theorem C11_compof_sound_refuted_nested_ext :
  exists xm m, xcheck xm = XAccept /\ expand_x680 xm = Some m /\ ~ distinct_spec m.
Proof. exact compof_sound_refuted_ext. Qed.
Print Assumptions C11_compof_sound_refuted_nested_ext.

(* unambiguous and well-formed => not rejected, likewise; additionally the first
   additional enumeration of every extensible ENUMERATED must not be negative
   (refuted without: C11_enum_ext_complete_refuted) *)
Theorem C11_compof_complete_partial : forall xm m,
  expand_x680 xm = Some m -> expand_c xm = Some m ->
  xwf_written xm = true -> forallb xenum_adds_nonneg (all_xtypes xm) = true ->
  tagging_wf m -> distinct_spec m -> enums_plain m ->
  xcheck xm = XAccept \/ xcheck xm = XCrashes.
Proof. exact compof_complete_partial. Qed.
Print Assumptions C11_compof_complete_partial.

Theorem C11_enum_ext_complete_refuted :
  exists xm m, expand_x680 xm = Some m /\ expand_c xm = Some m /\ xwf_written xm = true /\
               tagging_wf m /\ distinct_spec m /\ enums_plain m /\ xcheck xm = XReject [XEnumOrder].
Proof. exact enum_ext_complete_refuted. Qed.
Print Assumptions C11_enum_ext_complete_refuted.

(* ---- asn1f_fix_enum's order check of additional enumerations vs X.680 20.4, any values ---- *)
Theorem C11_enum_ext_order_sound : forall l, c_order_err (-1) l = false -> x680_order_ok l = true.
Proof. exact enum_order_sound. Qed.
Print Assumptions C11_enum_ext_order_sound.

Theorem C11_enum_ext_order_complete_partial : forall l,
  x680_order_ok l = true -> match l with v :: _ => 0 <= v | [] => True end ->
  c_order_err (-1) l = false.
Proof. exact enum_order_complete_partial. Qed.
Print Assumptions C11_enum_ext_order_complete_partial.

Theorem C11_enum_ext_order_complete_refuted : exists l, x680_order_ok l = true /\ c_order_err (-1) l = true.
Proof. exact enum_order_complete_refuted. Qed.
Print Assumptions C11_enum_ext_order_complete_refuted.

(* ---- the surface model extends the model of Fix/Tags.v: a module without COMPONENTS OF
        and without extensible enumerations expands to itself (either policy), and the
        two verdict functions agree on it ---- *)
Theorem C11_compof_conservative_expand : forall pol m, expand pol (embed m) = Some m.
Proof. exact expand_embed. Qed.
Print Assumptions C11_compof_conservative_expand.

Theorem C11_compof_conservative_accept : forall m, xcheck (embed m) = XAccept <-> check m = Accept.
Proof. exact xcheck_embed_accept. Qed.
Print Assumptions C11_compof_conservative_accept.

Theorem C11_compof_conservative_crashes : forall m, xcheck (embed m) = XCrashes <-> check m = Crashes.
Proof. exact xcheck_embed_crashes. Qed.
Print Assumptions C11_compof_conservative_crashes.

(* ================================================================ round 3: the tagging MODE along reference chains
   of any length (Fix/TagMode.v: _asn1f_check_if_tag_must_be_explicit, _asn1f_fix_type_tag,
   asn1f_fix_constr_autotag, asn1f_fetch_tags_impl, emit_tags_vectors) against X.680 31.2.7 / 30.6.
   [ds] is ANY list of definitions: cycles, dangling references, repeated names included. *)

(* a reference chain that ends has at most as many hops as there are definitions: the fuel
   [length ds] of the model never cuts a chain short *)
Theorem C11_chain_pigeonhole : forall ds b k e, reaches ds b k e -> (k <= length ds)%nat.
Proof. exact reaches_short. Qed.
Print Assumptions C11_chain_pigeonhole.

(* the verdict "must be EXPLICIT" = "untagged CHOICE or open type behind untagged references"
   (spec [uo]), for every chain *)
Theorem C11_must_explicit_is_untagged_choice_or_open : forall ds fuel b, (length ds <= fuel)%nat ->
  (must_explicit_c ds fuel b = true <-> uo ds b).
Proof. exact must_explicit_iff. Qed.
Print Assumptions C11_must_explicit_is_untagged_choice_or_open.

(* the same decision taken after ONE hop (seeded change C11-5) is right for chains of at most
   one hop and wrong beyond:  Name ::= [APPLICATION 1] CHOICE {..}  Alias ::= Name  /  "Alias" *)
Theorem C11_one_hop_partial : forall ds fuel b,
  (forall r d, b = BRef r -> tlookup ds r = Some d -> ~ is_bref (td_body d)) ->
  must_explicit_1hop ds fuel b = must_explicit_c ds fuel b.
Proof. exact one_hop_partial. Qed.
Print Assumptions C11_one_hop_partial.

Theorem C11_one_hop_refuted :
  exists ds b, must_explicit_1hop ds (length ds) b = true /\ ~ uo ds b /\ must_explicit_c ds (length ds) b = false.
Proof. exact one_hop_refuted. Qed.
Print Assumptions C11_one_hop_refuted.

(* _asn1f_fix_type_tag: the effective mode is X.680 31.2.7's, and the diagnostic appears exactly
   for IMPLICIT written on an untagged CHOICE / open type; [tagging_mode] is functional *)
Theorem C11_tagging_mode : forall ds tg fuel w b r, (length ds <= fuel)%nat ->
  (fix_type_tag tg (must_explicit_c ds fuel b) w = r <-> tagging_mode ds tg w b r).
Proof. exact fix_type_tag_iff. Qed.
Print Assumptions C11_tagging_mode.

(* asn1f_fix_constr_autotag: IMPLICIT unless the component is an untagged CHOICE / open type *)
Theorem C11_automatic_mode : forall ds fuel b, (length ds <= fuel)%nat ->
  automatic_mode ds b (auto_mode (must_explicit_c ds fuel b)).
Proof. exact auto_mode_spec. Qed.
Print Assumptions C11_automatic_mode.

(* with the one-hop test: a legal IMPLICIT is refused, a default / automatic tag X.680 makes
   IMPLICIT becomes EXPLICIT (both halves of what seeded change C11-5 does) *)
Theorem C11_one_hop_mode_refuted :
  exists ds b,
    (forall tg, tagging_mode ds tg MImplicit b (MOk MImplicit)) /\
    (forall tg, fix_type_tag tg (must_explicit_1hop ds (length ds) b) MImplicit = MErr) /\
    tagging_mode ds TgImplicit MDefault b (MOk MImplicit) /\
    fix_type_tag TgImplicit (must_explicit_1hop ds (length ds) b) MDefault = MOk MExplicit /\
    automatic_mode ds b MImplicit /\
    auto_mode (must_explicit_1hop ds (length ds) b) = MExplicit.
Proof. exact one_hop_mode_refuted. Qed.
Print Assumptions C11_one_hop_mode_refuted.

(* the model of round 1 (Fix/Tags.v) takes the same decision: its [must_explicit] is
   [must_explicit_c] on the image of the module, hence = the spec's [untagged_choice], in BOTH
   directions (round 1 had "=>" only), and the diagnostic = failure of [implicit_ok] *)
Theorem C11_must_explicit_abs : forall m p t,
  must_explicit m p t = must_explicit_c (abs_defs m) (S (length (m_defs m))) (abs_ty t).
Proof. exact must_explicit_abs. Qed.
Print Assumptions C11_must_explicit_abs.

Theorem C11_must_explicit_iff_untagged_choice : forall m p t, must_explicit m p t = true <-> untagged_choice m t.
Proof. exact must_explicit_iff_untagged_choice. Qed.
Print Assumptions C11_must_explicit_iff_untagged_choice.

Theorem C11_implicit_diagnostic_iff : forall m p tg t, implicit_error m p tg t = false <-> implicit_ok m tg t.
Proof. exact implicit_error_iff. Qed.
Print Assumptions C11_implicit_diagnostic_iff.

(* a run without "must be EXPLICIT" complaints leaves no IMPLICIT tag on an untagged CHOICE / open type *)
Theorem C11_accepted_tags_legal : forall tg ds,
  (forall d t, In d ds -> td_tag d = Some t -> resolve_tag tg ds t (td_body d) <> MErr) ->
  defs_legal (resolve_defs tg ds).
Proof. exact resolved_legal. Qed.
Print Assumptions C11_accepted_tags_legal.

(* asn1f_fetch_tags_impl (ADD_TAG / skip) on a legal module: what it returns is X.680's tag list,
   and every non-empty X.680 tag list of a type that does not end in an open type is returned *)
Theorem C11_fetch_tags_sound : forall ds, defs_legal ds -> forall fuel tg b l, tag_legal ds tg b ->
  ctags ds fuel false 0 0 tg b = Some l -> tags_of ds tg b l.
Proof. exact ctags_sound. Qed.
Print Assumptions C11_fetch_tags_sound.

Theorem C11_fetch_tags_complete_partial : forall ds tg b l fuel, tags_of ds tg b l -> l <> [] -> ~ ends_open ds b ->
  (length ds <= fuel)%nat -> ctags ds fuel false 0 0 tg b = Some l.
Proof. exact ctags_complete. Qed.
Print Assumptions C11_fetch_tags_complete_partial.

(* emit_tags_vectors: the two vectors written into the generated code *)
Theorem C11_emitted_tags_partial : forall ds tg b l a,
  tags_of ds tg b l -> all_tags_of ds tg b a -> l <> [] -> ~ ends_open ds b ->
  emitted_tags ds tg b = (l, a).
Proof. exact emitted_tags_spec. Qed.
Print Assumptions C11_emitted_tags_partial.

Theorem C11_emitted_tags_sound : forall ds, defs_legal ds -> forall tg b e a, tag_legal ds tg b ->
  emitted_tags ds tg b = (e, a) -> e <> [] -> tags_of ds tg b e /\ all_tags_of ds tg b a.
Proof. exact emitted_tags_sound. Qed.
Print Assumptions C11_emitted_tags_sound.

Theorem C11_emitted_tags_untagged : forall ds b, uo ds b -> emitted_tags ds None b = ([], []).
Proof. exact emitted_tags_untagged. Qed.
Print Assumptions C11_emitted_tags_untagged.

(* without "does not end in an open type":  An ::= [APPLICATION 2] EXPLICIT ANY  gets no tags
   (finding C11-tagged-open-type-tags-dropped) *)
Theorem C11_emitted_tags_open_refuted :
  exists ds tg b l, defs_legal ds /\ tag_legal ds tg b /\ tags_of ds tg b l /\ l <> [] /\ emitted_tags ds tg b = ([], []).
Proof. exact emitted_tags_open_refuted. Qed.
Print Assumptions C11_emitted_tags_open_refuted.

(* ================= wave 4: the status fold (seeded C11-6) and parameterized types (seeded C11-7) ================= *)
From Coq Require Import Permutation.
From A1 Require Fix.Status Fix.StatusProofs Fix.ParamSpec Fix.ParamSpecProofs Fix.ParamDistinct Fix.ParamDistinctProofs.

(* ---- "fatal count turns into exit status": RET2RVAL folds to FATAL iff some component is fatal, whatever the order ---- *)
Theorem C11_status_fold_fatal_iff : forall l : list Status.status,
  Status.fold_status l = Status.SFatal <-> In Status.SFatal l.
Proof. exact StatusProofs.fold_fatal_iff. Qed.
Print Assumptions C11_status_fold_fatal_iff.

Theorem C11_status_fold_warn_iff : forall l : list Status.status,
  Status.fold_status l = Status.SWarn <-> In Status.SWarn l /\ ~ In Status.SFatal l.
Proof. exact StatusProofs.fold_warn_iff. Qed.
Print Assumptions C11_status_fold_warn_iff.

Theorem C11_status_fold_order_irrelevant : forall l l' : list Status.status,
  Permutation l l' -> Status.fold_status l = Status.fold_status l'.
Proof. exact StatusProofs.fold_order_irrelevant. Qed.
Print Assumptions C11_status_fold_order_irrelevant.

(* the call tree of the fixer (passes, asn1f_recurse_expr, members): fatal iff some leaf check is fatal *)
Theorem C11_status_tree_fatal_iff : forall t : Status.stree,
  Status.eval Status.ret2rval t = Status.SFatal <-> In Status.SFatal (Status.leaves t).
Proof. exact StatusProofs.eval_fatal_iff. Qed.
Print Assumptions C11_status_tree_fatal_iff.

(* asn1f_process + asn1c.c: the run stops with a non-zero status before any code is written iff some check of
   some phase of some module was fatal, or warned and -Werror was given *)
Theorem C11_status_run_refused_iff : forall (werror : bool) (mods : list (Status.stree * Status.stree)),
  Status.run_exit Status.ret2rval werror mods <> 0 <->
  In Status.SFatal (Status.all_leaves mods) \/ (werror = true /\ In Status.SWarn (Status.all_leaves mods)).
Proof. exact StatusProofs.run_refused_iff. Qed.
Print Assumptions C11_status_run_refused_iff.

(* "the first recorded problem is sticky" (seeded C11-6): a fatal after a warning is lost, the run exits 0 *)
Theorem C11_status_sticky_refuted :
  exists mods, In Status.SFatal (Status.all_leaves mods) /\ Status.run_exit Status.ret2rval_sticky false mods = 0.
Proof. exact StatusProofs.sticky_run_refuted. Qed.
Print Assumptions C11_status_sticky_refuted.

(* ... and only there: on runs that record no warning the two macros agree - the region the corpus never left *)
Theorem C11_status_sticky_partial : forall l : list Status.status,
  ~ In Status.SWarn l -> Status.fold_with Status.ret2rval_sticky l = Status.fold_status l.
Proof. exact StatusProofs.sticky_partial. Qed.
Print Assumptions C11_status_sticky_partial.

Theorem C11_status_sticky_is_first : forall l : list Status.status,
  Status.fold_with Status.ret2rval_sticky l = hd Status.SOk (filter StatusProofs.nonok l).
Proof. exact StatusProofs.sticky_is_first. Qed.
Print Assumptions C11_status_sticky_is_first.

(* ---- parameterized types: the checks run on the clones; which clone a reference gets is decided by
        asn1p_expr_compare (Fix/ParamSpec.v, C10).  On actual parameters without subtype constraints / nested
        parameter lists / value sets ([plain], [good]) it identifies only equal trees ---- *)
Theorem C11_param_compare_identifies_only_equal : forall a b : ParamSpec.pexpr,
  ParamDistinct.plain a = true -> ParamDistinct.plain b = true -> ParamSpec.ecmp a b = ParamSpec.CEq -> a = b.
Proof. exact ParamDistinctProofs.ecmp_identifies_only_equal. Qed.
Print Assumptions C11_param_compare_identifies_only_equal.

Theorem C11_param_prefix_compare_refuted :
  exists a b, ParamDistinct.plain a = true /\ ParamDistinct.plain b = true /\ ParamDistinct.ecmp_prefix a b = ParamSpec.CEq /\ a <> b.
Proof. exact ParamDistinctProofs.prefix_identifies_different_refuted. Qed.
Print Assumptions C11_param_prefix_compare_refuted.

(* every reference P {actuals} is checked with its own actual parameters *)
Theorem C11_param_reference_checked_on_own_actuals : forall refs : list ParamSpec.pexpr,
  ParamDistinctProofs.goods refs -> ParamDistinct.resolved refs = Some (map Some refs).
Proof. exact ParamDistinctProofs.resolved_own. Qed.
Print Assumptions C11_param_reference_checked_on_own_actuals.

(* the clones  <Template>_<line>P<k>  are the different actual parameter lists, each once (tied to the names in the output) *)
Theorem C11_param_clones_are_the_distinct_actuals : forall refs : list ParamSpec.pexpr,
  ParamDistinctProofs.goods refs ->
  exists tf ks, ParamDistinct.assign_tbl [] refs = Some (tf, ks) /\ NoDup tf /\ (forall x, In x tf <-> In x refs) /\
                ParamDistinct.nclones refs = Some (length tf).
Proof. exact ParamDistinctProofs.clones_are_the_distinct_actuals. Qed.
Print Assumptions C11_param_clones_are_the_distinct_actuals.

Theorem C11_param_indices_are_paramspec's : forall refs tbl,
  option_map snd (ParamDistinct.assign_tbl tbl refs) = ParamSpec.assign tbl refs.
Proof. exact ParamDistinctProofs.assign_tbl_indices. Qed.
Print Assumptions C11_param_indices_are_paramspec's.

(* whatever the per-instantiation check (tags, identifiers, enumerations of the body with the actual parameters
   substituted): the fixer rejects iff the instantiation of SOME reference is faulty *)
Theorem C11_param_rejects_iff_some_reference_faulty : forall (faulty : ParamSpec.pexpr -> bool) refs,
  ParamDistinctProofs.goods refs ->
  ParamDistinct.rejects_with ParamSpec.ecmp faulty refs = Some (ParamDistinct.must_reject faulty refs).
Proof. exact ParamDistinctProofs.rejects_iff_some_reference_faulty. Qed.
Print Assumptions C11_param_rejects_iff_some_reference_faulty.

Theorem C11_param_prefix_rejects_refuted :
  exists faulty refs, ParamDistinctProofs.goods refs /\ ParamDistinct.must_reject faulty refs = true /\
                      ParamDistinct.rejects_with ParamDistinct.ecmp_prefix faulty refs = Some false.
Proof. exact ParamDistinctProofs.prefix_rejects_refuted. Qed.
Print Assumptions C11_param_prefix_rejects_refuted.

Theorem C11_param_prefix_clone_count_refuted :
  exists refs, ParamDistinctProofs.goods refs /\ ParamDistinct.nclones refs = Some 2%nat /\
               ParamDistinct.nclones_with ParamDistinct.ecmp_prefix refs = Some 1%nat.
Proof. exact ParamDistinctProofs.prefix_clone_count_refuted. Qed.
Print Assumptions C11_param_prefix_clone_count_refuted.

(* ---- wave 5: references across modules (coq/Fix/Resolve.v; seeded C11-9) ---- *)
From A1 Require Fix.Resolve Fix.ResolveProofs.

Theorem C11_resolve_iff : forall ms at_ s,
  Resolve.Resolves ms at_ s <-> exists fuel, Resolve.resolve ms fuel at_ s = true.
Proof. exact ResolveProofs.resolve_iff. Qed.
Print Assumptions C11_resolve_iff.

Theorem C11_status_fatal_iff_unresolved : forall ms fuel at_ s,
  Resolve.deref_status (Resolve.lookup ms fuel at_ s) = (-1)%Z <-> Resolve.resolve ms fuel at_ s = false.
Proof. exact ResolveProofs.status_fatal_iff_unresolved. Qed.
Print Assumptions C11_status_fatal_iff_unresolved.

Theorem C11_accepted_only_if_resolves : forall ms fuel at_ s,
  Resolve.exit_code (Resolve.deref_status (Resolve.lookup ms fuel at_ s)) = 0%Z -> Resolve.Resolves ms at_ s.
Proof. exact ResolveProofs.accepted_only_if_resolves. Qed.
Print Assumptions C11_accepted_only_if_resolves.

Theorem C11_fatal_line_implies_failure : forall r,
  Resolve.fatal_printed r = true -> Resolve.exit_code (Resolve.deref_status r) <> 0%Z.
Proof. exact ResolveProofs.fatal_line_implies_failure. Qed.
Print Assumptions C11_fatal_line_implies_failure.

Theorem C11_import_from_absent_module_fatal : forall ms fuel at_ s m n,
  Resolve.find_mod ms at_ = Some m -> Resolve.mem s (Resolve.rdefs m) = false ->
  Resolve.imp_from (Resolve.rimports m) s = Some n -> Resolve.find_mod ms n = None ->
  Resolve.lookup ms (S fuel) at_ s = Resolve.LBroken /\
  Resolve.exit_code (Resolve.deref_status (Resolve.lookup ms (S fuel) at_ s)) = 65%Z.
Proof. exact ResolveProofs.import_from_absent_module_fatal. Qed.
Print Assumptions C11_import_from_absent_module_fatal.

Theorem C11_import_not_exported_fatal : forall ms fuel at_ s m n t,
  Resolve.find_mod ms at_ = Some m -> Resolve.mem s (Resolve.rdefs m) = false ->
  Resolve.imp_from (Resolve.rimports m) s = Some n -> Resolve.find_mod ms n = Some t ->
  Resolve.exported t s = false ->
  Resolve.lookup ms (S fuel) at_ s = Resolve.LBroken /\
  Resolve.exit_code (Resolve.deref_status (Resolve.lookup ms (S fuel) at_ s)) = 65%Z.
Proof. exact ResolveProofs.import_not_exported_fatal. Qed.
Print Assumptions C11_import_not_exported_fatal.

Theorem C11_dedup_status_refuted : exists ms fuel at_ s,
  Resolve.fatal_printed (Resolve.lookup ms fuel at_ s) = true /\ ~ Resolve.Resolves ms at_ s /\
  Resolve.exit_code (Resolve.deref_status_dedup (Resolve.lookup ms fuel at_ s)) = 0%Z.
Proof. exact ResolveProofs.dedup_status_refuted. Qed.
Print Assumptions C11_dedup_status_refuted.
