(* Properties_C02.v — encoders emit the byte-exact standard wire format.
   Model: coq/Leaf/BerTL.v, coq/Rt/{Der,Uper,Oer}.v; tied to the C by checks/c02.py.
   What is stated here:
   - the tag and length octets are the X.690 forms (8.1.2, 10.1) and are what the
     BER fetchers read back;
   - INTEGER contents are the minimal two's complement of the value (8.3.2);
   - the DER encoding of every value of every well-formed type of the algebra is a
     BER encoding of THAT value: an independent reference decoder returns the value
     and exactly the bytes that followed (so a conforming peer decodes the same value);
   - the UPER encoder of the C (std = false) is the X.691 one (std = true) on types
     without semi-constrained INTEGERs; outside, refuted with witnesses (known
     finding).  (A second deviation, the CHOICE index, was repaired in /repo.) *)
From Coq Require Import ZArith List Bool.
From A1 Require Import Base.Bytes Base.Digits Leaf.IntegerConv Leaf.IntegerConvProofs
  Leaf.BerTL Leaf.BerTLProofs Rt.Types Rt.Comb Rt.Der Rt.DerProofs Rt.Uper Rt.UperStd.
Import ListNotations.
Local Open Scope Z_scope.

Theorem C02_tag_octets_x690 : forall tag, tag_ok tag ->
  let c := tag mod 4 in let t := tag / 4 in
  (t <= 30 -> tag_serialize tag = [c * 64 + t]) /\
  (31 <= t -> exists ds,
      tag_serialize tag = (c * 64 + 31) :: mark_cont ds /\
      digits_ok 128 ds /\ dval 128 ds = t /\
      (exists d tl, ds = d :: tl /\ (0 < d \/ tl = []))).
Proof. exact tag_serialize_x690. Qed.
Print Assumptions C02_tag_octets_x690.

Theorem C02_length_octets_minimal : forall len, 0 <= len <= rssize_max ->
  (len <= 127 -> len_serialize len = [len]) /\
  (128 <= len -> exists r bs,
      len_serialize len = (128 + Z.of_nat r) :: bs /\ length bs = r /\ bytes_ok bs /\
      be_val bs = len /\ (1 <= r <= 8)%nat /\ (exists b tl, bs = b :: tl /\ 0 < b)).
Proof. exact len_serialize_minimal. Qed.
Print Assumptions C02_length_octets_minimal.

Theorem C02_tag_read_back : forall tag rest, tag_ok tag ->
  fetch_tag (tag_serialize tag ++ rest) = FOk tag (length (tag_serialize tag)).
Proof. exact tag_roundtrip. Qed.
Print Assumptions C02_tag_read_back.

Theorem C02_length_read_back : forall len rest constructed, 0 <= len <= rssize_max ->
  fetch_length constructed (len_serialize len ++ rest) = FOk len (length (len_serialize len)).
Proof. exact length_roundtrip. Qed.
Print Assumptions C02_length_read_back.

Theorem C02_integer_contents_minimal : forall v, - two63 <= v < two63 ->
  twos_value (imax2INTEGER v) = v /\ minimal_twos (imax2INTEGER v) = true /\
  bytes_ok (imax2INTEGER v) /\ imax2INTEGER v <> [].
Proof. exact imax2INTEGER_canonical. Qed.
Print Assumptions C02_integer_contents_minimal.

Theorem C02_der_is_a_ber_encoding_of_the_value : forall t v bs rest,
  wf_ty t = true -> wt t v = true -> der t v = Some bs -> zlen bs <= rssize_max ->
  opt_ok t v rest -> ber_dec t (bs ++ rest) = Some (v, rest).
Proof. exact der_decodes_all. Qed.
Print Assumptions C02_der_is_a_ber_encoding_of_the_value.

Theorem C02_uper_model_is_standard_partial : forall t, std_safe t = true ->
  forall v, uper false t v = uper true t v.
Proof. exact uper_model_is_standard. Qed.
Print Assumptions C02_uper_model_is_standard_partial.

Theorem C02_uper_semiconstrained_refuted :
  exists t v, uper_encode false t v <> uper_encode true t v.
Proof. exact uper_semiconstrained_refuted. Qed.
Print Assumptions C02_uper_semiconstrained_refuted.

Theorem C02_uper_semiconstrained_lower_bound_refuted :
  exists t v, uper_encode false t v = None /\ uper_encode true t v <> None.
Proof. exact uper_semiconstrained_lb_refuted. Qed.
Print Assumptions C02_uper_semiconstrained_lower_bound_refuted.

(* repaired in /repo (fix: b565b4c): the tables the compiler used to emit *)
Theorem C02_old_choice_tables_were_not_canonical :
  exists alts i, c_index alts i <> canonical_index alts i.
Proof. exact old_choice_tables_were_not_canonical. Qed.
Print Assumptions C02_old_choice_tables_were_not_canonical.

(* ===================================================================== *)
(* Extensibility layer (coq/Rt/Ext.v, ExtFormat.v; notes/design/EXT.md): the wire format of the framing of
   extension additions, against the wording of X.696 16.4 and X.691 11.2, 11.6, 11.9. *)
From A1 Require Import Rt.UperBits Rt.Ext Rt.ExtFormat Rt.ExtProofs.

(* -- X.696 16.4: presence bitmap = length octet, unused-bits octet (8 - n mod 8) mod 8, the bits zero padded -- *)
Theorem C02_ext_unused_bits_range : forall n, 0 <= unused_bits n <= 7.
Proof. exact unused_bits_range. Qed.
Print Assumptions C02_ext_unused_bits_range.

Theorem C02_ext_unused_bits_fill : forall n, 0 <= n -> (n + unused_bits n) mod 8 = 0.
Proof. exact unused_bits_fill. Qed.
Print Assumptions C02_ext_unused_bits_fill.

Theorem C02_ext_oer_bitmap_format : forall pres bm, oer_ext_bitmap pres = Some bm ->
  exists body, bm = (1 + (zlen pres + 7) / 8) :: unused_bits (zlen pres) :: body /\
    zlen body = (zlen pres + 7) / 8 /\
    bytes_bits body = pres ++ repeat false (Z.to_nat (unused_bits (zlen pres))).
Proof. exact oer_ext_bitmap_format. Qed.
Print Assumptions C02_ext_oer_bitmap_format.

(* -- X.696 16.2-16.3: the preamble = extension bit, then the presence bits of the OPTIONAL/DEFAULT root components, zero
      padded to whole octets: the extension bit is the FIRST bit of the encoding for any number of such components -- *)
Theorem C02_ext_oer_preamble_format : forall tg root adds rvs avs bs,
  ext_oer (ESeq tg root adds) (EVSeq rvs avs) = Some bs ->
  exists tail,
    bytes_bits bs = (existsb is_present avs :: presence_bits root rvs)
                    ++ repeat false (pad_len (S (length (presence_bits root rvs)))) ++ bytes_bits tail.
Proof. exact ext_oer_preamble_format. Qed.
Print Assumptions C02_ext_oer_preamble_format.

(* -- X.691 11.2 / 11.9.3.5-8: the open type is the contents cut into fragments, each behind its length octet(s) -- *)
Theorem C02_ext_open_type_is_spec : forall c, open_type c = open_type_spec c.
Proof. exact open_type_is_spec. Qed.
Print Assumptions C02_ext_open_type_is_spec.

(* every fragment but the last is m * 16K (1 <= m <= 4), a last fragment below 16K is always there, the sizes add up *)
Theorem C02_ext_fragments_shape : forall fuel n, 0 <= n -> (Z.to_nat (n / 16384) < fuel)%nat ->
  exists init last, fragments fuel n = init ++ [last] /\ 0 <= last < 16384 /\
    Forall (fun k => exists m, 1 <= m <= 4 /\ k = m * 16384) init /\
    fold_right Z.add 0 (fragments fuel n) = n.
Proof. exact fragments_shape. Qed.
Print Assumptions C02_ext_fragments_shape.

(* ... of length 0 after an exact multiple of 16K (11.9.3.8.3) *)
Theorem C02_ext_fragments_exact_multiple : forall fuel n m, 1 <= m -> n = m * 16384 ->
  (Z.to_nat (n / 16384) < fuel)%nat -> exists init, fragments fuel n = init ++ [0].
Proof. exact fragments_exact_multiple. Qed.
Print Assumptions C02_ext_fragments_exact_multiple.

(* the payloads of the fragments, concatenated, are the contents *)
Theorem C02_ext_open_type_payloads : forall c,
  concat (frag_payloads (fragments (S (length c)) (zlen c)) c) = c.
Proof. exact open_type_payloads. Qed.
Print Assumptions C02_ext_open_type_payloads.

(* the open type is a whole number of octets and its contents has at least one *)
Theorem C02_ext_open_type_octet_aligned : forall c, (length (open_type c) mod 8 = 0)%nat.
Proof. exact open_type_octet_aligned. Qed.
Print Assumptions C02_ext_open_type_octet_aligned.

Theorem C02_ext_open_type_content_nonempty : forall std t v c, uper_encode std t v = Some c -> 1 <= zlen c.
Proof. exact uper_encode_nonempty. Qed.
Print Assumptions C02_ext_open_type_content_nonempty.

(* -- X.691 11.9.3.4 / 11.6: the bits uper_put_nslength / uper_put_nsnnwn write, for every count they accept
      (above 64 / 63: the single bit 1 first), and the C's readers read them back -- *)
Theorem C02_ext_nslength_format : forall n b, nslength n = Some b ->
  (1 <= n <= 64 /\ b = false :: nbits 6 (n - 1)) \/
  (64 < n < 16384 /\ b = true :: frag_header n).
Proof. exact nslength_format. Qed.
Print Assumptions C02_ext_nslength_format.

Theorem C02_ext_nslength_readback : forall n b r, nslength n = Some b -> get_nslength (b ++ r) = Some (n, r).
Proof. exact nslength_rt. Qed.
Print Assumptions C02_ext_nslength_readback.

Theorem C02_ext_nsnnwn_format : forall n b, nsnnwn n = Some b ->
  (0 <= n <= 63 /\ b = false :: nbits 6 n) \/
  (exists k, 63 < n /\ 1 <= k <= 3 /\ 256 ^ (k - 1) <= n < 256 ^ k /\
             b = true :: nbits 8 k ++ nbits (Z.to_nat (8 * k)) n).
Proof. exact nsnnwn_format. Qed.
Print Assumptions C02_ext_nsnnwn_format.

Theorem C02_ext_nsnnwn_readback : forall n b r, n < 65536 ->
  nsnnwn n = Some b -> get_nsnnwn (b ++ r) = Some (n, r).
Proof. exact nsnnwn_rt. Qed.
Print Assumptions C02_ext_nsnnwn_readback.

(* -- version brackets: asn1c's flattened reading is not the standard's grouped one -- *)
Theorem C02_ext_version_brackets_refuted :
  ext_uper true wit_flat wit_flat_val <> ext_uper true wit_grouped wit_grouped_val /\
  ext_oer wit_flat wit_flat_val <> ext_oer wit_grouped wit_grouped_val.
Proof. exact ext_version_brackets_refuted. Qed.
Print Assumptions C02_ext_version_brackets_refuted.

(* ---------------- SET and DEFAULT components (Rt/SetDef.v, notes/design/SetDef.md) ---------------- *)
From Coq Require Import Sorted.
From A1 Require Import Rt.SetDef Rt.SetDefProofs.

(* X.690 11.5, X.691 19.5 (canonical), X.696 16: a value equal to the DEFAULT is not encoded — member absent or
   member stored, DER, PER and OER *)
Theorem C02_setdef_default_not_encoded : forall d t v std,
  is_default_value v d = true ->
  cder false (CDef d t) (VSome v) = Some [] /\ cder false (CDef d t) VNone = Some [] /\
  cuper false std (CDef d t) (VSome v) = Some [] /\ cuper false std (CDef d t) VNone = Some [] /\
  coer false (CDef d t) (VSome v) = Some [] /\ coer false (CDef d t) VNone = Some [].
Proof. exact default_not_encoded. Qed.
Print Assumptions C02_setdef_default_not_encoded.

Theorem C02_setdef_non_default_encoded : forall d t v std,
  is_default_value v d = false ->
  cder false (CDef d t) (VSome v) = cder false t v /\
  cuper false std (CDef d t) (VSome v) = cuper false std t v /\
  coer false (CDef d t) (VSome v) = coer false t v.
Proof. exact non_default_encoded. Qed.
Print Assumptions C02_setdef_non_default_encoded.

(* the preamble bits the C writes (asked member by member through default_value_cmp) are the standard's *)
Theorem C02_setdef_preamble_is_spec : forall ms vs, cpresence false ms vs = spec_preamble ms vs.
Proof. exact cpresence_is_spec. Qed.
Print Assumptions C02_setdef_preamble_is_spec.

(* the generated comparison is the standard's equality but for a TRUE stored as 0xff against DEFAULT TRUE ... *)
Theorem C02_setdef_default_cmp_partial : forall raw v d,
  (raw = false \/ v <> VBool true \/ d <> VBool true) -> dflt_eqb raw v d = is_default_value v d.
Proof. exact dflt_cmp_partial. Qed.
Print Assumptions C02_setdef_default_cmp_partial.

(* ... where DER carries the default value (known findings C01-boolean-default-true, C06-default-boolean-true-octet) *)
Theorem C02_setdef_der_default_true_refuted :
  exists t v, cwf_d t = true /\ cwt_d t v = true /\ cder true t v <> spec_der t v /\
              cder true t v = Some [48; 3; 1; 1; 255] /\ spec_der t v = Some [48; 0].
Proof. exact der_default_true_refuted. Qed.
Print Assumptions C02_setdef_der_default_true_refuted.

(* X.690 10.3: the contents of a SET's DER are the members' encodings, every member once ... *)
Theorem C02_setdef_set_content : forall raw tg ms vs bs,
  forallb has_tag ms = true -> cder raw (CSet tg ms) (VSeq vs) = Some bs ->
  exists es idx, enc_cms (cder raw) ms vs = Some es /\
                 bs = tlv tg true (concat (map (fun i => nth i es []) idx)) /\
                 NoDup idx /\ (forall i, In i idx <-> (i < length ms)%nat).
Proof. exact cder_set_content. Qed.
Print Assumptions C02_setdef_set_content.

(* ... and both tables the order is taken from (the compiler's tag2el, the per-value table of SET_encode_der) are
   in ascending order of (class, number) *)
Theorem C02_setdef_tag2el_sorted : forall ms, StronglySorted key_le (tag2el ms).
Proof. exact tag2el_sorted. Qed.
Print Assumptions C02_setdef_tag2el_sorted.

Theorem C02_setdef_dynamic_table_sorted : forall (l : list (Z * list Z)), StronglySorted key_le (sort_keyed l).
Proof. exact sort_keyed_sorted. Qed.
Print Assumptions C02_setdef_dynamic_table_sorted.
