(* Properties_C02.v — encoders emit the byte-exact standard wire format.
   Model: coq/Leaf/BerTL.v, coq/Rt/{Der,Uper,Oer}.v; tied to the C by checks/c02.py.
   What is stated here:
   - the tag and length octets are the X.690 forms (8.1.2, 10.1) and are what the
     BER fetchers read back;
   - INTEGER contents are the minimal two's complement of the value (8.3.2);
   - the DER encoding of every value of every well-formed type of the algebra is a
     BER encoding of THAT value: an independent reference decoder returns the value
     and exactly the bytes that followed (so a conforming peer decodes the same value);
   - the UPER encoder of the C (std = false) is the X.691 one (std = true) on types
     without semi-constrained INTEGERs; outside, refuted with witnesses (known
     finding).  (A second deviation, the CHOICE index, was repaired in /repo.) *)
From Coq Require Import ZArith List Bool.
From A1 Require Import Base.Bytes Base.Digits Leaf.IntegerConv Leaf.IntegerConvProofs
  Leaf.BerTL Leaf.BerTLProofs Rt.Types Rt.Comb Rt.Der Rt.DerProofs Rt.Uper Rt.UperStd.
Import ListNotations.
Local Open Scope Z_scope.

Theorem C02_tag_octets_x690 : forall tag, tag_ok tag ->
  let c := tag mod 4 in let t := tag / 4 in
  (t <= 30 -> tag_serialize tag = [c * 64 + t]) /\
  (31 <= t -> exists ds,
      tag_serialize tag = (c * 64 + 31) :: mark_cont ds /\
      digits_ok 128 ds /\ dval 128 ds = t /\
      (exists d tl, ds = d :: tl /\ (0 < d \/ tl = []))).
Proof. exact tag_serialize_x690. Qed.
Print Assumptions C02_tag_octets_x690.

Theorem C02_length_octets_minimal : forall len, 0 <= len <= rssize_max ->
  (len <= 127 -> len_serialize len = [len]) /\
  (128 <= len -> exists r bs,
      len_serialize len = (128 + Z.of_nat r) :: bs /\ length bs = r /\ bytes_ok bs /\
      be_val bs = len /\ (1 <= r <= 8)%nat /\ (exists b tl, bs = b :: tl /\ 0 < b)).
Proof. exact len_serialize_minimal. Qed.
Print Assumptions C02_length_octets_minimal.

Theorem C02_tag_read_back : forall tag rest, tag_ok tag ->
  fetch_tag (tag_serialize tag ++ rest) = FOk tag (length (tag_serialize tag)).
Proof. exact tag_roundtrip. Qed.
Print Assumptions C02_tag_read_back.

Theorem C02_length_read_back : forall len rest constructed, 0 <= len <= rssize_max ->
  fetch_length constructed (len_serialize len ++ rest) = FOk len (length (len_serialize len)).
Proof. exact length_roundtrip. Qed.
Print Assumptions C02_length_read_back.

Theorem C02_integer_contents_minimal : forall v, - two63 <= v < two63 ->
  twos_value (imax2INTEGER v) = v /\ minimal_twos (imax2INTEGER v) = true /\
  bytes_ok (imax2INTEGER v) /\ imax2INTEGER v <> [].
Proof. exact imax2INTEGER_canonical. Qed.
Print Assumptions C02_integer_contents_minimal.

Theorem C02_der_is_a_ber_encoding_of_the_value : forall t v bs rest,
  wf_ty t = true -> wt t v = true -> der t v = Some bs -> zlen bs <= rssize_max ->
  opt_ok t v rest -> ber_dec t (bs ++ rest) = Some (v, rest).
Proof. exact der_decodes_all. Qed.
Print Assumptions C02_der_is_a_ber_encoding_of_the_value.

Theorem C02_uper_model_is_standard_partial : forall t, std_safe t = true ->
  forall v, uper false t v = uper true t v.
Proof. exact uper_model_is_standard. Qed.
Print Assumptions C02_uper_model_is_standard_partial.

Theorem C02_uper_semiconstrained_refuted :
  exists t v, uper_encode false t v <> uper_encode true t v.
Proof. exact uper_semiconstrained_refuted. Qed.
Print Assumptions C02_uper_semiconstrained_refuted.

Theorem C02_uper_semiconstrained_lower_bound_refuted :
  exists t v, uper_encode false t v = None /\ uper_encode true t v <> None.
Proof. exact uper_semiconstrained_lb_refuted. Qed.
Print Assumptions C02_uper_semiconstrained_lower_bound_refuted.

(* repaired in /repo (fix: b565b4c): the tables the compiler used to emit *)
Theorem C02_old_choice_tables_were_not_canonical :
  exists alts i, c_index alts i <> canonical_index alts i.
Proof. exact old_choice_tables_were_not_canonical. Qed.
Print Assumptions C02_old_choice_tables_were_not_canonical.
