(* Properties_C07.v — encoder API contract.
   Model: coq/Rt/AppApi.v (asn_application.c: asn_encode, asn_encode_to_buffer,
   asn_encode_to_new_buffer, asn_encode_internal, the three internal callbacks);
   tied to the C by checks/c07.py.  An inner encoder is any function that uses its
   callback only through the success flags; [well_behaved] is what the wrappers need
   of it (see AppApi.v).  Stated for EVERY well-behaved inner encoder, every chunk
   list, every buffer size, every fault index, every allocation oracle. *)
From Coq Require Import ZArith List Bool.
From A1 Require Import Base.Bytes Rt.Types Rt.Der Rt.Uper Rt.Oer Rt.AppApi Rt.AppApiProofs.
Import ListNotations.
Local Open Scope Z_scope.

(* the reported size is the number of octets delivered to the callback; a failure is -1 with an errno *)
Theorem C07_size_accounting : forall bits enc, well_behaved bits enc ->
  exists calls delivered r, fault_free_run bits enc calls delivered r /\
    calls = length delivered /\
    (0 <= encoded r -> encoded r = total delivered /\ err r = E0) /\
    (encoded r < 0 -> encoded r = -1 /\ (err r = EBADF \/ err r = ENOENT)).
Proof. exact size_accounting. Qed.
Print Assumptions C07_size_accounting.

(* a callback failing at invocation k: -1, EIO, k+1 invocations, the first k chunks delivered;
   the outcome is Done: the two asserts of asn_encode do not fire *)
Theorem C07_cb_failure_eio : forall bits enc, well_behaved bits enc ->
  forall calls delivered r, fault_free_run bits enc calls delivered r ->
  forall k, (k < calls)%nat ->
  asn_encode (Some (user_cb (Some k))) true (Op bits enc) (0%nat, []) =
  Done ((S k, firstn k delivered), {| encoded := -1; err := EIO |}).
Proof. exact cb_failure_eio. Qed.
Print Assumptions C07_cb_failure_eio.

(* asn_encode_to_buffer, every size 0..|array|: same result as asn_encode, no stray write,
   the array holds the chunks that fit followed by its old contents *)
Theorem C07_to_buffer_contract : forall bits enc, well_behaved bits enc ->
  forall calls delivered r, fault_free_run bits enc calls delivered r ->
  forall mem size, 0 <= size <= zlen mem ->
  exists st, asn_encode_to_buffer true (Op bits enc) (Some mem) size = Done (st, r) /\
    o_oob st = false /\
    o_mem st = concat (fit_prefix size delivered) ++ skipn (length (concat (fit_prefix size delivered))) mem /\
    o_comp st = total delivered.
Proof. exact to_buffer_contract. Qed.
Print Assumptions C07_to_buffer_contract.

Theorem C07_to_buffer_bounded : forall bits enc, well_behaved bits enc ->
  forall mem size, 0 <= size <= zlen mem ->
  exists st r, asn_encode_to_buffer true (Op bits enc) (Some mem) size = Done (st, r) /\
    o_oob st = false /\ zlen (o_mem st) = zlen mem /\
    skipn (Z.to_nat size) (o_mem st) = skipn (Z.to_nat size) mem.
Proof. exact to_buffer_bounded. Qed.
Print Assumptions C07_to_buffer_bounded.

Theorem C07_to_buffer_size_invariant : forall bits enc, well_behaved bits enc ->
  forall calls delivered r, fault_free_run bits enc calls delivered r ->
  forall mem1 size1 mem2 size2, 0 <= size1 <= zlen mem1 -> 0 <= size2 <= zlen mem2 ->
  exists st1 st2,
    asn_encode_to_buffer true (Op bits enc) (Some mem1) size1 = Done (st1, r) /\
    asn_encode_to_buffer true (Op bits enc) (Some mem2) size2 = Done (st2, r).
Proof. exact to_buffer_size_invariant. Qed.
Print Assumptions C07_to_buffer_size_invariant.

Theorem C07_to_buffer_complete_when_fits : forall bits enc, well_behaved bits enc ->
  forall calls delivered r, fault_free_run bits enc calls delivered r ->
  forall mem size, 0 <= size <= zlen mem -> total delivered <= size ->
  exists st, asn_encode_to_buffer true (Op bits enc) (Some mem) size = Done (st, r) /\
    o_mem st = concat delivered ++ skipn (length (concat delivered)) mem.
Proof. exact to_buffer_complete_when_fits. Qed.
Print Assumptions C07_to_buffer_complete_when_fits.

(* asn_encode_to_new_buffer, every allocation oracle: NULL or the exact content, the size of asn_encode,
   no abort (the terminator fits), no stray write *)
Theorem C07_new_buffer_exact : forall bits enc, well_behaved bits enc ->
  forall calls delivered r, fault_free_run bits enc calls delivered r ->
  forall malloc_ok afail,
  exists buf, asn_encode_to_new_buffer true (Op bits enc) malloc_ok afail =
              Done {| nb_buffer := buf; nb_result := r; nb_bad := false |} /\
    (buf = None \/ buf = Some (concat delivered)) /\
    (malloc_ok = false -> buf = None) /\
    (encoded r < 0 -> buf = None) /\
    (malloc_ok = true -> (forall i, afail i = false) -> 0 <= encoded r -> buf = Some (concat delivered)).
Proof. exact new_buffer_exact. Qed.
Print Assumptions C07_new_buffer_exact.

(* asn_application.h: "On failure: (.buffer) is NULL" *)
Theorem C07_new_buffer_null_on_failure : forall bits enc, well_behaved bits enc ->
  forall calls delivered r, fault_free_run bits enc calls delivered r -> encoded r < 0 ->
  forall malloc_ok afail,
  asn_encode_to_new_buffer true (Op bits enc) malloc_ok afail =
  Done {| nb_buffer := None; nb_result := r; nb_bad := false |}.
Proof. exact new_buffer_null_on_failure. Qed.
Print Assumptions C07_new_buffer_null_on_failure.

(* outside the contract the asserts of asn_application.c do fire (so the contract is what keeps them quiet) *)
Theorem C07_asserts_fire_outside_contract :
  asn_encode_to_buffer true (Op false (run_script miscounting)) (Some [0; 0; 0; 0]) 4 = Aborted 3 /\
  asn_encode_to_new_buffer true (Op false (run_script miscounting)) true (fun _ => false) = Aborted 4 /\
  asn_encode (Some (user_cb (Some 0%nat))) true (Op false (run_script swallowing)) (0%nat, []) = Aborted 1 /\
  asn_encode (Some (user_cb (Some 0%nat))) true (Op false (run_script null_failed_type)) (0%nat, []) = Aborted 2.
Proof. exact asserts_fire_outside_contract. Qed.
Print Assumptions C07_asserts_fire_outside_contract.

(* parameter errors *)
Theorem C07_einval : forall S (cb : option (cbT S)) args_ok op s,
  cb = None \/ args_ok = false ->
  exists s', asn_encode cb args_ok op s = Done (s', {| encoded := -1; err := EINVAL |}).
Proof. exact asn_encode_einval. Qed.
Print Assumptions C07_einval.

Theorem C07_enoent : forall S (cb : cbT S) s,
  asn_encode (Some cb) true NoOp s = Done (s, {| encoded := -1; err := ENOENT |}).
Proof. exact asn_encode_enoent. Qed.
Print Assumptions C07_enoent.

(* the encoders of the codec model are well-behaved, un-encodable values included *)
Theorem C07_der_encoder_well_behaved : forall t v, well_behaved false (der_encoder t v).
Proof. exact der_encoder_well_behaved. Qed.
Print Assumptions C07_der_encoder_well_behaved.

Theorem C07_oer_encoder_well_behaved : forall t v, well_behaved false (oer_encoder t v).
Proof. exact oer_encoder_well_behaved. Qed.
Print Assumptions C07_oer_encoder_well_behaved.

Theorem C07_uper_encoder_well_behaved : forall t v, well_behaved true (uper_encoder t v).
Proof. exact uper_encoder_well_behaved. Qed.
Print Assumptions C07_uper_encoder_well_behaved.

(* through asn_encode the application receives the model's complete encoding, or -1/EBADF *)
Theorem C07_der_api : forall t v, exists calls delivered r,
  fault_free_run false (der_encoder t v) calls delivered r /\ (concat delivered, r) = api_view (der t v).
Proof. exact der_api. Qed.
Print Assumptions C07_der_api.

Theorem C07_oer_api : forall t v, exists calls delivered r,
  fault_free_run false (oer_encoder t v) calls delivered r /\ (concat delivered, r) = api_view (oer t v).
Proof. exact oer_api. Qed.
Print Assumptions C07_oer_api.

Theorem C07_uper_api_complete_encoding : forall t v, exists calls delivered r,
  fault_free_run true (uper_encoder t v) calls delivered r /\
  (concat delivered, r) = api_view (uper_encode false t v).
Proof. exact uper_api. Qed.
Print Assumptions C07_uper_api_complete_encoding.

Theorem C07_unencodable_fails : forall bits (o : option bytes) chunking,
  o = None ->
  let enc := run_script (bytes_script chunking o) in
  (forall S (cb : cbT S) s, asn_encode (Some cb) true (Op bits enc) s = Done (s, {| encoded := -1; err := EBADF |})) /\
  (forall mem size, exists st, asn_encode_to_buffer true (Op bits enc) (Some mem) size = Done (st, {| encoded := -1; err := EBADF |}) /\ o_mem st = mem) /\
  (forall m af, exists b, asn_encode_to_new_buffer true (Op bits enc) m af =
                Done {| nb_buffer := b; nb_result := {| encoded := -1; err := EBADF |}; nb_bad := false |}).
Proof. exact unencodable_fails. Qed.
Print Assumptions C07_unencodable_fails.

Theorem C07_chunking_irrelevant : forall ch1 ch2 o m,
  (forall bs, concat (ch1 bs) = bs) -> (forall bs, concat (ch2 bs) = bs) ->
  asn_encode_to_new_buffer true (Op false (run_script (bytes_script ch1 o))) m (fun _ => false) =
  asn_encode_to_new_buffer true (Op false (run_script (bytes_script ch2 o))) m (fun _ => false).
Proof. exact chunking_irrelevant. Qed.
Print Assumptions C07_chunking_irrelevant.
