(* Properties_C07.v — encoder API contract.
   Model: coq/Rt/AppApi.v (asn_application.c: asn_encode, asn_encode_to_buffer,
   asn_encode_to_new_buffer, asn_encode_internal, the three internal callbacks);
   tied to the C by checks/c07.py.  An inner encoder is any function that uses its
   callback only through the success flags; [well_behaved] is what the wrappers need
   of it (see AppApi.v).  Stated for EVERY well-behaved inner encoder, every chunk
   list, every buffer size, every fault index, every allocation oracle. *)
From Coq Require Import ZArith List Bool.
From A1 Require Import Base.Bytes Rt.Types Rt.Der Rt.Uper Rt.Oer Rt.AppApi Rt.AppApiProofs Rt.XerEnc Rt.XerEncProofs Rt.NewBufCap Rt.XerChunk Rt.XerChunkProofs.
Import ListNotations.
Local Open Scope Z_scope.

(* the reported size is the number of octets delivered to the callback; a failure is -1 with an errno *)
Theorem C07_size_accounting : forall bits enc, well_behaved bits enc ->
  exists calls delivered r, fault_free_run bits enc calls delivered r /\
    calls = length delivered /\
    (0 <= encoded r -> encoded r = total delivered /\ err r = E0) /\
    (encoded r < 0 -> encoded r = -1 /\ (err r = EBADF \/ err r = ENOENT)).
Proof. exact size_accounting. Qed.
Print Assumptions C07_size_accounting.

(* a callback failing at invocation k: -1, EIO, k+1 invocations, the first k chunks delivered;
   the outcome is Done: the two asserts of asn_encode do not fire *)
Theorem C07_cb_failure_eio : forall bits enc, well_behaved bits enc ->
  forall calls delivered r, fault_free_run bits enc calls delivered r ->
  forall k, (k < calls)%nat ->
  asn_encode (Some (user_cb (Some k))) true (Op bits enc) (0%nat, []) =
  Done ((S k, firstn k delivered), {| encoded := -1; err := EIO |}).
Proof. exact cb_failure_eio. Qed.
Print Assumptions C07_cb_failure_eio.

(* asn_encode_to_buffer, every size 0..|array|: same result as asn_encode, no stray write,
   the array holds the chunks that fit followed by its old contents *)
Theorem C07_to_buffer_contract : forall bits enc, well_behaved bits enc ->
  forall calls delivered r, fault_free_run bits enc calls delivered r ->
  forall mem size, 0 <= size <= zlen mem ->
  exists st, asn_encode_to_buffer true (Op bits enc) (Some mem) size = Done (st, r) /\
    o_oob st = false /\
    o_mem st = concat (fit_prefix size delivered) ++ skipn (length (concat (fit_prefix size delivered))) mem /\
    o_comp st = total delivered.
Proof. exact to_buffer_contract. Qed.
Print Assumptions C07_to_buffer_contract.

Theorem C07_to_buffer_bounded : forall bits enc, well_behaved bits enc ->
  forall mem size, 0 <= size <= zlen mem ->
  exists st r, asn_encode_to_buffer true (Op bits enc) (Some mem) size = Done (st, r) /\
    o_oob st = false /\ zlen (o_mem st) = zlen mem /\
    skipn (Z.to_nat size) (o_mem st) = skipn (Z.to_nat size) mem.
Proof. exact to_buffer_bounded. Qed.
Print Assumptions C07_to_buffer_bounded.

Theorem C07_to_buffer_size_invariant : forall bits enc, well_behaved bits enc ->
  forall calls delivered r, fault_free_run bits enc calls delivered r ->
  forall mem1 size1 mem2 size2, 0 <= size1 <= zlen mem1 -> 0 <= size2 <= zlen mem2 ->
  exists st1 st2,
    asn_encode_to_buffer true (Op bits enc) (Some mem1) size1 = Done (st1, r) /\
    asn_encode_to_buffer true (Op bits enc) (Some mem2) size2 = Done (st2, r).
Proof. exact to_buffer_size_invariant. Qed.
Print Assumptions C07_to_buffer_size_invariant.

Theorem C07_to_buffer_complete_when_fits : forall bits enc, well_behaved bits enc ->
  forall calls delivered r, fault_free_run bits enc calls delivered r ->
  forall mem size, 0 <= size <= zlen mem -> total delivered <= size ->
  exists st, asn_encode_to_buffer true (Op bits enc) (Some mem) size = Done (st, r) /\
    o_mem st = concat delivered ++ skipn (length (concat delivered)) mem.
Proof. exact to_buffer_complete_when_fits. Qed.
Print Assumptions C07_to_buffer_complete_when_fits.

(* asn_encode_to_new_buffer, every allocation oracle: NULL or the exact content, the size of asn_encode,
   no abort (the terminator fits), no stray write *)
Theorem C07_new_buffer_exact : forall bits enc, well_behaved bits enc ->
  forall calls delivered r, fault_free_run bits enc calls delivered r ->
  forall malloc_ok afail,
  exists buf, asn_encode_to_new_buffer true (Op bits enc) malloc_ok afail =
              Done {| nb_buffer := buf; nb_result := r; nb_bad := false |} /\
    (buf = None \/ buf = Some (concat delivered)) /\
    (malloc_ok = false -> buf = None) /\
    (encoded r < 0 -> buf = None) /\
    (malloc_ok = true -> (forall i, afail i = false) -> 0 <= encoded r -> buf = Some (concat delivered)).
Proof. exact new_buffer_exact. Qed.
Print Assumptions C07_new_buffer_exact.

(* asn_application.h: "On failure: (.buffer) is NULL" *)
Theorem C07_new_buffer_null_on_failure : forall bits enc, well_behaved bits enc ->
  forall calls delivered r, fault_free_run bits enc calls delivered r -> encoded r < 0 ->
  forall malloc_ok afail,
  asn_encode_to_new_buffer true (Op bits enc) malloc_ok afail =
  Done {| nb_buffer := None; nb_result := r; nb_bad := false |}.
Proof. exact new_buffer_null_on_failure. Qed.
Print Assumptions C07_new_buffer_null_on_failure.

(* outside the contract the asserts of asn_application.c do fire (so the contract is what keeps them quiet) *)
Theorem C07_asserts_fire_outside_contract :
  asn_encode_to_buffer true (Op false (run_script miscounting)) (Some [0; 0; 0; 0]) 4 = Aborted 3 /\
  asn_encode_to_new_buffer true (Op false (run_script miscounting)) true (fun _ => false) = Aborted 4 /\
  asn_encode (Some (user_cb (Some 0%nat))) true (Op false (run_script swallowing)) (0%nat, []) = Aborted 1 /\
  asn_encode (Some (user_cb (Some 0%nat))) true (Op false (run_script null_failed_type)) (0%nat, []) = Aborted 2.
Proof. exact asserts_fire_outside_contract. Qed.
Print Assumptions C07_asserts_fire_outside_contract.

(* parameter errors *)
Theorem C07_einval : forall S (cb : option (cbT S)) args_ok op s,
  cb = None \/ args_ok = false ->
  exists s', asn_encode cb args_ok op s = Done (s', {| encoded := -1; err := EINVAL |}).
Proof. exact asn_encode_einval. Qed.
Print Assumptions C07_einval.

Theorem C07_enoent : forall S (cb : cbT S) s,
  asn_encode (Some cb) true NoOp s = Done (s, {| encoded := -1; err := ENOENT |}).
Proof. exact asn_encode_enoent. Qed.
Print Assumptions C07_enoent.

(* the encoders of the codec model are well-behaved, un-encodable values included *)
Theorem C07_der_encoder_well_behaved : forall t v, well_behaved false (der_encoder t v).
Proof. exact der_encoder_well_behaved. Qed.
Print Assumptions C07_der_encoder_well_behaved.

Theorem C07_oer_encoder_well_behaved : forall t v, well_behaved false (oer_encoder t v).
Proof. exact oer_encoder_well_behaved. Qed.
Print Assumptions C07_oer_encoder_well_behaved.

Theorem C07_uper_encoder_well_behaved : forall t v, well_behaved true (uper_encoder t v).
Proof. exact uper_encoder_well_behaved. Qed.
Print Assumptions C07_uper_encoder_well_behaved.

(* through asn_encode the application receives the model's complete encoding, or -1/EBADF *)
Theorem C07_der_api : forall t v, exists calls delivered r,
  fault_free_run false (der_encoder t v) calls delivered r /\ (concat delivered, r) = api_view (der t v).
Proof. exact der_api. Qed.
Print Assumptions C07_der_api.

Theorem C07_oer_api : forall t v, exists calls delivered r,
  fault_free_run false (oer_encoder t v) calls delivered r /\ (concat delivered, r) = api_view (oer t v).
Proof. exact oer_api. Qed.
Print Assumptions C07_oer_api.

Theorem C07_uper_api_complete_encoding : forall t v, exists calls delivered r,
  fault_free_run true (uper_encoder t v) calls delivered r /\
  (concat delivered, r) = api_view (uper_encode false t v).
Proof. exact uper_api. Qed.
Print Assumptions C07_uper_api_complete_encoding.

Theorem C07_unencodable_fails : forall bits (o : option bytes) chunking,
  o = None ->
  let enc := run_script (bytes_script chunking o) in
  (forall S (cb : cbT S) s, asn_encode (Some cb) true (Op bits enc) s = Done (s, {| encoded := -1; err := EBADF |})) /\
  (forall mem size, exists st, asn_encode_to_buffer true (Op bits enc) (Some mem) size = Done (st, {| encoded := -1; err := EBADF |}) /\ o_mem st = mem) /\
  (forall m af, exists b, asn_encode_to_new_buffer true (Op bits enc) m af =
                Done {| nb_buffer := b; nb_result := {| encoded := -1; err := EBADF |}; nb_bad := false |}).
Proof. exact unencodable_fails. Qed.
Print Assumptions C07_unencodable_fails.

Theorem C07_chunking_irrelevant : forall ch1 ch2 o m,
  (forall bs, concat (ch1 bs) = bs) -> (forall bs, concat (ch2 bs) = bs) ->
  asn_encode_to_new_buffer true (Op false (run_script (bytes_script ch1 o))) m (fun _ => false) =
  asn_encode_to_new_buffer true (Op false (run_script (bytes_script ch2 o))) m (fun _ => false).
Proof. exact chunking_irrelevant. Qed.
Print Assumptions C07_chunking_irrelevant.

(* ---- the XER encoders with the size accounting of asn_internal.h made explicit (Rt/XerEnc.v):
   ASN__CALLBACK adds to er.encoded exactly when the callback succeeded, ASN__TEXT_INDENT is one
   invocation per level; the value is a named tree of any nesting depth ---- *)

(* ASN__TEXT_INDENT(nl, level), EVERY level: the newline and one chunk of four spaces per level are
   offered in order, and all of them are counted *)
Theorem C07_xer_indent_accounting : forall (nl : bool) (level : nat),
  scr (text_indent nl level)
      ((if nl then [nl1] else []) ++ repeat sp4 level)
      (Some ((if nl then 1 else 0) + 4 * Z.of_nat level)).
Proof. exact text_indent_script. Qed.
Print Assumptions C07_xer_indent_accounting.

(* every encoder function of the algebra, every value, every indentation level, BASIC and CANONICAL:
   it offers a fixed chunk list in order, stops at the first failing invocation with -1, and otherwise
   reports the size of what it offered *)
Theorem C07_xer_encoders_scripted : forall can v il, exists cs r, scr (xenc can v il) cs r.
Proof. exact xenc_scripted. Qed.
Print Assumptions C07_xer_encoders_scripted.

Theorem C07_xer_encoder_well_behaved : forall can tag v, well_behaved false (xer_encoder can tag v).
Proof. exact xer_encoder_well_behaved. Qed.
Print Assumptions C07_xer_encoder_well_behaved.

(* through asn_encode, at every depth: reported size = octets delivered; a callback failing at k gives
   -1/EIO after k+1 invocations and the first k chunks *)
Theorem C07_xer_api : forall can tag v, exists calls delivered r,
  fault_free_run false (xer_encoder can tag v) calls delivered r /\
  calls = length delivered /\
  (0 <= encoded r -> encoded r = total delivered /\ err r = E0) /\
  (encoded r < 0 -> encoded r = -1 /\ (err r = EBADF \/ err r = ENOENT)) /\
  (forall k, (k < calls)%nat ->
     asn_encode (Some (user_cb (Some k))) true (Op false (xer_encoder can tag v)) (0%nat, []) =
     Done ((S k, firstn k delivered), {| encoded := -1; err := EIO |})).
Proof. exact xer_api. Qed.
Print Assumptions C07_xer_api.

(* the CANONICAL-XER SET OF detour (every element into a buffer of its own, sorted, one invocation per
   buffer): what is emitted is what the elements counted (assert(control_size == er.encoded) is quiet) *)
Theorem C07_xer_setof_canonical_control_size : forall mode vs il bufs,
  collect ((fix go (vs : list xv) : list (bytes * option Z) :=
              match vs with
              | [] => []
              | e :: tl => if is_missing e then go tl
                           else setof_item true mode il (fun l => xenc true e l) bytes buf_cb [] :: go tl
              end) vs) = Some bufs ->
  scr (xenc true (XVSetOf mode vs) il) (sort_bufs bufs) (Some (total bufs)).
Proof. exact setof_canonical_control_size. Qed.
Print Assumptions C07_xer_setof_canonical_control_size.

(* depth made explicit: BASIC-XER of a SEQUENCE chain nested d levels deep around any leaf has the size
   given by the closed recursion chain_size (two indentations per level, growing with the level), for
   every d and every starting level *)
Theorem C07_xer_chain_size_every_depth : forall nm leaf cs0 n0,
  (forall il, scr (xenc false leaf il) cs0 (Some n0)) ->
  forall d il, exists cs, scr (xenc false (chain nm leaf d) il) cs (Some (chain_size (zlen nm) n0 il d)).
Proof. exact chain_basic_xer_size. Qed.
Print Assumptions C07_xer_chain_size_every_depth.

(* ---- the growth rule of dynamic_encoder_cb, exactly (Rt/NewBufCap.v) ---- *)

(* after ANY chunk list the allocation is the least 16 * 2^j STRICTLY above the octets collected: the
   terminator fits at every total (2^k - 1, 2^k, 2^k + 1 included), at most twice the need is held *)
Theorem C07_new_buffer_capacity : forall cs,
  exists st, emit (dynamic_cb no_fail) dyn_start cs = (st, true) /\
             d_comp st = total cs /\ cap_ok (d_cap st) (total cs).
Proof. exact new_buffer_capacity. Qed.
Print Assumptions C07_new_buffer_capacity.

Theorem C07_new_buffer_capacity_unique : forall c1 c2 n, 0 <= n -> cap_ok c1 n -> cap_ok c2 n -> c1 = c2.
Proof. exact cap_ok_unique. Qed.
Print Assumptions C07_new_buffer_capacity_unique.

Theorem C07_new_buffer_capacity_at_powers : forall k : nat, (4 <= k)%nat ->
  cap_ok (2 ^ Z.of_nat k) (2 ^ Z.of_nat k - 1) /\
  cap_ok (2 ^ Z.of_nat (S k)) (2 ^ Z.of_nat k) /\
  cap_ok (2 ^ Z.of_nat (S k)) (2 ^ Z.of_nat k + 1).
Proof. exact capacity_at_powers. Qed.
Print Assumptions C07_new_buffer_capacity_at_powers.

(* ---- chunked body writers: primitive bodies longer than one local scratch buffer (Rt/XerChunk.v) ---- *)

(* the flush loop with the counter kept by hand (INTEGER__dump's shape; any item text, any threshold, with or
   without the trimmed separator): for EVERY contents length the writer offers a fixed chunk list, stops at
   the first failing invocation, and reports the sum of the chunk lengths = the length of the whole text *)
Theorem C07_chunked_writer_size : forall (item : Z -> bytes) (thr : Z) (trim : bool),
  (forall b, item b <> []) ->
  forall buf, exists cs,
  scr (writer item thr true trim buf) cs (Some (zlen (body_text item trim buf))) /\
  concat cs = body_text item trim buf /\
  total cs = zlen (body_text item trim buf).
Proof. exact writer_script. Qed.
Print Assumptions C07_chunked_writer_size.

(* INTEGER__dump, every contents length (decimal within intmax_t, xx:yy:zz beyond): reported = delivered = text *)
Theorem C07_int_dump_size : forall content, exists cs,
  scr (int_dump content) cs (Some (zlen (int_dump_text content))) /\
  concat cs = int_dump_text content /\
  total cs = zlen (int_dump_text content).
Proof. exact int_dump_script. Qed.
Print Assumptions C07_int_dump_size.

(* beyond intmax_t the size is 3n - 1 for n significant octets, however many flushes that takes *)
Theorem C07_int_dump_hex_size : forall content,
  8 < zlen (strip_leading content) ->
  exists cs, scr (int_dump content) cs (Some (3 * zlen (strip_leading content) - 1)).
Proof. exact int_dump_hex_size. Qed.
Print Assumptions C07_int_dump_hex_size.

(* bounded writes into the local buffer: no chunk of the dump exceeds 30 characters (scratch[32]) *)
Theorem C07_int_dump_chunks_fit_scratch : forall content,
  8 < zlen (strip_leading content) ->
  (forall S (cb : cbT S) s,
     int_dump content S cb s =
     let (s', ok) := emit cb s (writer_chunks hex3c int_thr true (strip_leading content) []) in
     (s', if ok then Some (total (writer_chunks hex3c int_thr true (strip_leading content) [])) else None)) /\
  Forall (fun c => zlen c <= 30 /\ zlen c <= int_scratch) (writer_chunks hex3c int_thr true (strip_leading content) []).
Proof. exact int_dump_chunks_fit_scratch. Qed.
Print Assumptions C07_int_dump_chunks_fit_scratch.

(* through xer_encode and asn_encode, an INTEGER of ANY contents length: size told = octets delivered; a callback
   failing at invocation k (inside the flush loop included) gives -1/EIO after k+1 invocations, first k chunks *)
Theorem C07_int_xer_api : forall can tag content, exists calls delivered r,
  fault_free_run false (int_xer_encoder can tag content) calls delivered r /\
  calls = length delivered /\
  (0 <= encoded r -> encoded r = total delivered /\ err r = E0) /\
  (encoded r < 0 -> encoded r = -1 /\ (err r = EBADF \/ err r = ENOENT)) /\
  (forall k, (k < calls)%nat ->
     asn_encode (Some (user_cb (Some k))) true (Op false (int_xer_encoder can tag content)) (0%nat, []) =
     Done ((S k, firstn k delivered), {| encoded := -1; err := EIO |})).
Proof. exact int_xer_api. Qed.
Print Assumptions C07_int_xer_api.

(* the same for any scripted body writer wrapped by xer_encode *)
Theorem C07_body_xer_api : forall can tag body, scripted_step body ->
  exists calls delivered r,
  fault_free_run false (step_inner (xer_encode_body can tag body)) calls delivered r /\
  calls = length delivered /\
  (0 <= encoded r -> encoded r = total delivered /\ err r = E0) /\
  (encoded r < 0 -> encoded r = -1 /\ (err r = EBADF \/ err r = ENOENT)) /\
  (forall k, (k < calls)%nat ->
     asn_encode (Some (user_cb (Some k))) true (Op false (step_inner (xer_encode_body can tag body))) (0%nat, []) =
     Done ((S k, firstn k delivered), {| encoded := -1; err := EIO |})).
Proof. exact body_xer_api. Qed.
Print Assumptions C07_body_xer_api.

(* the variant that does not count inside the flush branch ("the total is added once at the end"): false from
   11 octets on (witness: delivers 32 characters, reports 2) ... *)
Theorem C07_int_dump_lastonly_refuted :
  exists content delivered n,
    int_dump_gen false content (list bytes) collect_cb [] = (delivered, Some n) /\
    total delivered = zlen (int_dump_text content) /\
    n <> total delivered.
Proof. exact int_dump_lastonly_refuted. Qed.
Print Assumptions C07_int_dump_lastonly_refuted.

(* ... and indistinguishable from the code up to 10 octets: a corpus of bodies that fit one scratch buffer cannot see it *)
Theorem C07_int_dump_lastonly_agrees_upto_10 : forall content S (cb : cbT S) s,
  zlen (strip_leading content) <= 10 ->
  int_dump_gen false content S cb s = int_dump content S cb s.
Proof. exact int_dump_lastonly_agrees_upto_10. Qed.
Print Assumptions C07_int_dump_lastonly_agrees_upto_10.
