(* Properties_C07.v — placeholder while the tie is brought up *)
From Coq Require Import ZArith.
