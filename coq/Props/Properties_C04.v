(* Properties_C04.v -- decoding arbitrary bytes terminates and reports
   consumed <= size; no fetcher indexes outside the buffer.
   Model: coq/Leaf/BerTL.v, coq/Rt/{Comb,Der,Uper,Oer}.v; tied to the C by checks/c04.py.
   Every statement below is for EVERY input (byte lists are plain [list Z], bit
   lists plain [list bool]: no range or well-formedness hypothesis on the input)
   and for every type of the algebra unless a hypothesis says otherwise.
   What is stated here:
   - the three reference decoders are total functions (Coq fixpoints: termination
     is by construction) and what they return as "rest" is a SUFFIX of what they
     were given: [exists pre, input = pre ++ rest];
   - hence the consumed count of ber_decode / oer_decode is within 0 .. size, and
     that of uper_decode (whole octets, at least one) is within 1 .. size on a
     non-empty buffer (on the empty buffer the model reports 1 for a zero-bit
     type: the corner is shown, the C answers RC_WMORE there);
   - each leaf fetcher returns exactly a prefix / rest split of its input, with
     the number of octets or bits it is specified to consume (never past the end);
   - the fuel of the internal loops is never the reason of a failure when each
     item consumes something (any larger fuel gives the same answer); the
     zero-progress case, which the fuel exists for, is exhibited; in PER / OER a
     zero-progress item is bounded by the decoded count (<= 65536 per fragment);
   - what the decoders accept is a value of the shape the type describes;
   - the four leaf functions that SKIP what an extensible type does not know
     (ber_skip_length, uper_open_type_skip, oer_open_type_skip, xer_skip_unknown;
     model Rt/SafetySkip.v, the end-of-contents reads of ber_skip_length written out
     as indexed reads that can fail) never read at an index >= size, never report
     more than size, need no fuel, and look at the counted octets only. *)
From Coq Require Import ZArith List Bool.
From A1 Require Import Base.Bytes Leaf.BerTL Leaf.BerTLProofs
  Rt.Types Rt.Comb Rt.Der Rt.Uper Rt.Oer Rt.Ext Rt.Safety Rt.SafetyFuel Rt.SafetyShape Rt.SafetySkip.
Import ListNotations.
Local Open Scope Z_scope.

(* ---------------- rest is a suffix of the input ---------------- *)

Theorem C04_ber_rest_is_suffix : forall (t : ty) (bs : list Z) (v : val) (r : list Z),
  ber_dec t bs = Some (v, r) -> exists pre, bs = pre ++ r.
Proof. exact ber_dec_suffix. Qed.
Print Assumptions C04_ber_rest_is_suffix.

Theorem C04_uper_rest_is_suffix : forall (std : bool) (t : ty) (bs : list bool) (v : val) (r : list bool),
  uper_dec std t bs = Some (v, r) -> exists pre, bs = pre ++ r.
Proof. exact uper_dec_suffix. Qed.
Print Assumptions C04_uper_rest_is_suffix.

Theorem C04_oer_rest_is_suffix : forall (t : ty) (bs : list Z) (v : val) (r : list Z),
  oer_dec t bs = Some (v, r) -> exists pre, bs = pre ++ r.
Proof. exact oer_dec_suffix. Qed.
Print Assumptions C04_oer_rest_is_suffix.

(* ---------------- consumed <= size ---------------- *)

Theorem C04_ber_consumed_le_size : forall (t : ty) (bs : list Z) (v : val) (n : Z),
  ber_decode t bs = Some (v, n) -> 0 <= n <= zlen bs.
Proof. exact ber_decode_consumed. Qed.
Print Assumptions C04_ber_consumed_le_size.

Theorem C04_uper_consumed_le_size : forall (std : bool) (t : ty) (bs : list Z) (v : val) (n : Z),
  uper_decode std t bs = Some (v, n) -> 1 <= n /\ (bs <> [] -> n <= zlen bs).
Proof. exact uper_decode_consumed. Qed.
Print Assumptions C04_uper_consumed_le_size.

Theorem C04_uper_consumed_empty_corner : uper_decode false (TNull 20) [] = Some (VNull, 1).
Proof. exact uper_decode_empty_corner. Qed.
Print Assumptions C04_uper_consumed_empty_corner.

Theorem C04_oer_consumed_le_size : forall (t : ty) (bs : list Z) (v : val) (n : Z),
  oer_decode t bs = Some (v, n) -> 0 <= n <= zlen bs.
Proof. exact oer_decode_consumed. Qed.
Print Assumptions C04_oer_consumed_le_size.

(* ---------------- leaf fetchers stay inside the buffer ---------------- *)

Theorem C04_take_in_bounds : forall (A : Type) (n : Z) (bs a r : list A),
  take n bs = Some (a, r) -> bs = a ++ r /\ zlen a = n.
Proof. exact @take_spec. Qed.
Print Assumptions C04_take_in_bounds.

Theorem C04_take_bits_in_bounds : forall (w : nat) (bs a r : list bool),
  take_bits w bs = Some (a, r) -> bs = a ++ r /\ length a = w.
Proof. exact take_bits_spec. Qed.
Print Assumptions C04_take_bits_in_bounds.

Theorem C04_get_bits_in_bounds : forall (w : nat) (bs : list bool) (v : Z) (r : list bool),
  get_bits w bs = Some (v, r) -> exists a, bs = a ++ r /\ length a = w /\ v = bits_val a.
Proof. exact get_bits_spec. Qed.
Print Assumptions C04_get_bits_in_bounds.

Theorem C04_bits_value_bounded : forall a : list bool, 0 <= bits_val a < 2 ^ zlen a.
Proof. exact bits_val_bound. Qed.
Print Assumptions C04_bits_value_bounded.

Theorem C04_get_bytes_in_bounds : forall (n : nat) (bs : list bool) (x : list Z) (r : list bool),
  get_bytes n bs = Some (x, r) ->
  exists a, bs = a ++ r /\ (length a = 8 * n)%nat /\ length x = n.
Proof. exact get_bytes_spec. Qed.
Print Assumptions C04_get_bytes_in_bounds.

Theorem C04_get_length_in_bounds : forall (bs : list bool) (n : Z) (more : bool) (r : list bool),
  get_length bs = Some (n, more, r) ->
  exists a, bs = a ++ r /\ (length a = 8 \/ length a = 16)%nat /\ 0 <= n <= 65536.
Proof. exact get_length_spec. Qed.
Print Assumptions C04_get_length_in_bounds.

Theorem C04_oer_get_length_in_bounds : forall (bs : list Z) (n : Z) (r : list Z),
  oer_get_length bs = Some (n, r) -> exists a, bs = a ++ r /\ (1 <= length a)%nat.
Proof. exact oer_get_length_spec. Qed.
Print Assumptions C04_oer_get_length_in_bounds.

Theorem C04_oer_get_quantity_in_bounds : forall (bs : list Z) (n : Z) (r : list Z),
  oer_get_quantity bs = Some (n, r) -> exists a, bs = a ++ r /\ (2 <= length a)%nat.
Proof. exact oer_get_quantity_spec. Qed.
Print Assumptions C04_oer_get_quantity_in_bounds.

Theorem C04_oer_get_tag_in_bounds : forall (bs : list Z) (tg : Z) (r : list Z),
  oer_get_tag bs = Some (tg, r) -> exists a, bs = a ++ r /\ (1 <= length a)%nat.
Proof. exact oer_get_tag_spec. Qed.
Print Assumptions C04_oer_get_tag_in_bounds.

Theorem C04_fetch_tag_in_bounds : forall (buf : list Z) (v : Z) (n : nat),
  fetch_tag buf = FOk v n -> (1 <= n <= length buf)%nat.
Proof. exact ber_fetch_tag_in_bounds. Qed.
Print Assumptions C04_fetch_tag_in_bounds.

(* the count, for any octets (no bytes_ok hypothesis) *)
Theorem C04_fetch_length_in_bounds : forall (c : bool) (buf : list Z) (v : Z) (n : nat),
  fetch_length c buf = FOk v n -> (1 <= n <= length buf)%nat.
Proof. exact fetch_length_count. Qed.
Print Assumptions C04_fetch_length_in_bounds.

(* the value too, when the buffer holds octets *)
Theorem C04_fetch_length_value_in_range : forall (c : bool) (buf : list Z) (v : Z) (n : nat),
  bytes_ok buf -> fetch_length c buf = FOk v n ->
  (1 <= n <= length buf)%nat /\ -1 <= v <= rssize_max.
Proof. exact ber_fetch_length_in_bounds. Qed.
Print Assumptions C04_fetch_length_value_in_range.

Theorem C04_tlv_header_in_bounds : forall (bs : list Z) (tg : Z) (c : bool) (len : Z) (rest : list Z),
  tlv_open bs = Some (tg, c, len, rest) ->
  exists hdr, bs = hdr ++ rest /\ (2 <= length hdr)%nat.
Proof. exact tlv_open_spec. Qed.
Print Assumptions C04_tlv_header_in_bounds.

(* ---------------- fuel is never the reason of a failure ---------------- *)

Theorem C04_until_fuel_suffices : forall (A B : Type) (item : list B -> option (A * list B))
    (stop : list B -> bool),
  (forall (s : list B) (a : A) (r : list B), item s = Some (a, r) -> (length r < length s)%nat) ->
  forall (s : list B) (f : nat), (length s < f)%nat ->
  dec_until item stop f s = dec_until item stop (S (length s)) s.
Proof. exact @dec_until_fuel_suffices. Qed.
Print Assumptions C04_until_fuel_suffices.

Theorem C04_until_zero_progress_needs_fuel : forall (A B : Type) (item : list B -> option (A * list B))
    (stop : list B -> bool) (s : list B) (a : A),
  item s = Some (a, s) -> stop s = false -> forall f : nat, dec_until item stop f s = None.
Proof. exact @dec_until_no_progress. Qed.
Print Assumptions C04_until_zero_progress_needs_fuel.

(* every BER TLV consumes at least its header: only OPTIONAL can return its input *)
Theorem C04_ber_tlv_progress : forall (t : ty) (bs : list Z) (v : val) (r : list Z),
  strict t = true -> ber_dec t bs = Some (v, r) -> (length r < length bs)%nat.
Proof. exact ber_dec_progress. Qed.
Print Assumptions C04_ber_tlv_progress.

Theorem C04_ber_seqof_fuel_suffices : forall e : ty, strict e = true ->
  forall (c : list Z) (f : nat), (length c < f)%nat ->
  dec_until (ber_dec e) at_end f c = dec_until (ber_dec e) at_end (S (length c)) c.
Proof. exact ber_seqof_fuel_suffices. Qed.
Print Assumptions C04_ber_seqof_fuel_suffices.

(* the zero-progress witness: an OPTIONAL element whose tag does not match *)
Theorem C04_ber_seqof_zero_progress_witness :
  forall f : nat, dec_until (ber_dec (TOpt (TBool 4))) at_end f [8; 1; 0] = None.
Proof. exact ber_seqof_opt_zero_progress. Qed.
Print Assumptions C04_ber_seqof_zero_progress_witness.

Theorem C04_counted_fuel_suffices : forall (A : Type) (item : list bool -> option (A * list bool)),
  (forall (s : list bool) (v : A) (r : list bool), item s = Some (v, r) -> exists pre, s = pre ++ r) ->
  forall (bs : list bool) (f : nat), (length bs < f)%nat ->
  get_counted item f bs = get_counted item (S (length bs)) bs.
Proof. exact @get_counted_fuel_suffices. Qed.
Print Assumptions C04_counted_fuel_suffices.

(* PER / OER element loops run "count" times, whatever each item consumes *)
Theorem C04_items_count_bounded : forall (A St : Type) (item : St -> option (A * St))
    (n : nat) (s : St) (l : list A) (r : St),
  dec_items item n s = Some (l, r) -> length l = n.
Proof. exact @dec_items_length. Qed.
Print Assumptions C04_items_count_bounded.

Theorem C04_items_zero_progress : forall (A St : Type) (item : St -> option (A * St)) (a : A),
  (forall s : St, item s = Some (a, s)) ->
  forall (n : nat) (s : St), dec_items item n s = Some (repeat a n, s).
Proof. exact @dec_items_zero_progress. Qed.
Print Assumptions C04_items_zero_progress.

Theorem C04_uper_zero_progress_witness :
  uper_dec false (TSeqOf 64 (SCon 0 None false) (TNull 20)) (bytes_bits [127])
  = Some (VList (repeat VNull 127), []).
Proof. exact uper_seqof_null_127. Qed.
Print Assumptions C04_uper_zero_progress_witness.

Theorem C04_oer_zero_progress_witness :
  oer_dec (TSeqOf 64 (SCon 0 None false) (TNull 20)) [2; 1; 0]
  = Some (VList (repeat VNull 256), []).
Proof. exact oer_seqof_null_256. Qed.
Print Assumptions C04_oer_zero_progress_witness.

(* ---------------- what is accepted has the shape of the type ---------------- *)

Theorem C04_ber_accepts_well_shaped : forall (t : ty) (bs : list Z) (v : val) (r : list Z),
  ber_dec t bs = Some (v, r) -> shape_ok t v = true.
Proof. exact ber_dec_shape. Qed.
Print Assumptions C04_ber_accepts_well_shaped.

Theorem C04_uper_accepts_well_shaped : forall (std : bool) (t : ty) (bs : list bool) (v : val) (r : list bool),
  uper_dec std t bs = Some (v, r) -> shape_ok t v = true.
Proof. exact uper_dec_shape. Qed.
Print Assumptions C04_uper_accepts_well_shaped.

Theorem C04_oer_accepts_well_shaped : forall (t : ty) (bs : list Z) (v : val) (r : list Z),
  oer_dec t bs = Some (v, r) -> shape_ok t v = true.
Proof. exact oer_dec_shape. Qed.
Print Assumptions C04_oer_accepts_well_shaped.

(* ---------------- skipping what an extensible type does not know ---------------- *)

(* ber_skip_length (no stack limit from a codec context): a positive answer is within the buffer *)
Theorem C04_ber_skip_length_in_bounds : forall (c : bool) (buf : list Z) (n : nat),
  ber_skip_length c buf = SOk n -> (1 <= n <= length buf)%nat.
Proof. exact ber_skip_length_in_bounds. Qed.
Print Assumptions C04_ber_skip_length_in_bounds.

(* ptr[0] and ptr[1] of the end-of-contents test are inside [0, size) whenever they are read *)
Theorem C04_ber_skip_length_reads_in_bounds : forall (c : bool) (buf : list Z),
  ber_skip_length c buf <> SOob.
Proof. exact ber_skip_length_reads_in_bounds. Qed.
Print Assumptions C04_ber_skip_length_reads_in_bounds.

(* with the test in front of the recursive call (seeded/C04-2) the read is outside *)
Theorem C04_ber_skip_length_early_eoc_test_refuted :
  skip_loop_early (skip_length 3) 3 1 [0] = SOob /\ ber_skip_length true [128; 0] = SMore.
Proof. exact early_eoc_test_reads_outside. Qed.
Print Assumptions C04_ber_skip_length_early_eoc_test_refuted.

(* recursion depth and loop count are bounded by the size: the model's fuel is never the answer,
   and any larger fuel gives the same answer *)
Theorem C04_ber_skip_length_total : forall (c : bool) (buf : list Z), ber_skip_length c buf <> SFuel.
Proof. exact ber_skip_length_total. Qed.
Print Assumptions C04_ber_skip_length_total.

Theorem C04_ber_skip_length_any_fuel : forall (c : bool) (buf : list Z) (f : nat),
  (length buf < f)%nat -> skip_length f c buf = ber_skip_length c buf.
Proof. exact ber_skip_length_any_fuel. Qed.
Print Assumptions C04_ber_skip_length_any_fuel.

(* nothing behind the counted octets influences a positive answer *)
Theorem C04_ber_skip_length_prefix_determined : forall (c : bool) (buf : list Z) (n : nat) (ext : list Z),
  ber_skip_length c buf = SOk n -> ber_skip_length c (buf ++ ext) = SOk n.
Proof. exact ber_skip_length_prefix_determined. Qed.
Print Assumptions C04_ber_skip_length_prefix_determined.

(* uper_open_type_skip (what the C does, std = false, and X.691, std = true): the rest is a suffix and
   at least the length determinant is consumed *)
Theorem C04_uper_open_skip_in_bounds : forall (bs r : list bool),
  uper_open_skip bs = Some r -> exists a, bs = a ++ r /\ (8 <= length a)%nat.
Proof. exact uper_open_skip_in_bounds. Qed.
Print Assumptions C04_uper_open_skip_in_bounds.

(* oer_open_type_skip = oer_fetch_length *)
Theorem C04_oer_skip_in_bounds : forall (bs : list Z) (v : Z) (n : nat),
  oer_skip bs = FOk v n -> (1 <= n <= length bs)%nat.
Proof. exact oer_skip_in_bounds. Qed.
Print Assumptions C04_oer_skip_in_bounds.

Theorem C04_oer_skip_is_fetch_length : forall (bs : list Z) (v : Z) (r : list Z),
  oer_fetch_length bs = Some (v, r) -> exists n, oer_skip bs = FOk v n /\ r = skipn n bs.
Proof. exact oer_skip_is_fetch_length. Qed.
Print Assumptions C04_oer_skip_is_fetch_length.

Theorem C04_oer_open_skip_in_bounds : forall (bs r : list Z),
  oer_open_skip bs = Some r -> exists a, bs = a ++ r /\ (1 <= length a)%nat.
Proof. exact oer_open_skip_in_bounds. Qed.
Print Assumptions C04_oer_open_skip_in_bounds.

Theorem C04_oer_open_type_skip_in_bounds : forall bs v n,
  oer_open_type_skip_m bs = FOk v n -> (1 <= n <= length bs)%nat.
Proof. exact oer_open_type_skip_in_bounds. Qed.
Print Assumptions C04_oer_open_type_skip_in_bounds.

(* xer_skip_unknown: the depth counter never leaves the range its assert demands; the answers are 0, 1 and -1
   (answer 2 went with fix 01 of notes/fixes/I: the closing tag that ends the skip is the skipped element's own) *)
Theorem C04_xer_skip_depth : forall (t : xct) (depth r d : Z), 0 < depth -> xer_skip t depth = (r, d) ->
  (r = 0 -> 0 < d) /\ (r = 1 -> d = 0) /\ (r = -1 -> d = depth) /\
  (r = 0 \/ r = 1 \/ r = -1).
Proof. exact xer_skip_depth. Qed.
Print Assumptions C04_xer_skip_depth.

Theorem C04_xer_skip_run_safe : forall (evs : list xct) (depth : Z) (k : nat) (r d : Z) (n : nat),
  0 < depth -> xer_skip_run evs depth k = (r, d, n) ->
  (k <= n <= k + length evs)%nat /\ (r = 0 -> 0 < d) /\ (r = 1 -> d = 0) /\ (r = 0 \/ r = 1 \/ r = -1).
Proof. exact xer_skip_run_safe. Qed.
Print Assumptions C04_xer_skip_run_safe.

(* ---------------------------------------------------------------------------------------------
   The tag-to-member lookups of the BER decoders of SEQUENCE / SET / CHOICE (Rt/SafetyTagMap.v):
   the SAFETY side.  No hypothesis on the tables: every member table, every tag table (sorted or
   not, offsets right or wrong), every entry bsearch() may have returned, every tag, every input. *)
From A1 Require Import Rt.SafetyTagMap.
From Coq Require Import Sorted.

(* bsearch() indexes inside the table and needs no fuel *)
Theorem C04_tagmap_bsearch_in_table : forall (cmp : entry -> comparison) (m : list entry) (p : nat),
  bsearch cmp m = Some p -> (p < length m)%nat /\ exists e, nth_error m p = Some e /\ cmp e = Eq.
Proof. exact bsearch_in_table. Qed.
Print Assumptions C04_tagmap_bsearch_in_table.

Theorem C04_tagmap_bsearch_any_fuel : forall (cmp : entry -> comparison) (m : list entry) (fuel : nat),
  (length m < fuel)%nat -> bsearch_loop fuel cmp m 0 (length m) = bsearch cmp m.
Proof. exact bsearch_any_fuel. Qed.
Print Assumptions C04_tagmap_bsearch_any_fuel.

(* the scan of the entries bearing the tag: whatever entry was probed, the member it answers lies
   in the window [edx, edx_max] and is named by an entry of the table *)
Theorem C04_tagmap_pick_in_window : forall (m : list entry) (probe edx edx_max k : nat),
  seq_pick m probe edx edx_max = PSome k ->
  (edx <= k <= edx_max)%nat /\ exists e, In e m /\ el_no e = k.
Proof. exact seq_pick_window. Qed.
Print Assumptions C04_tagmap_pick_in_window.

(* ... and the two pointers it forms stay inside a table whose offsets are inside (checked by the
   tie on every table the compiler emits) *)
Theorem C04_tagmap_pick_stays_inside : forall (m : list entry) (probe edx edx_max : nat),
  offsets_inside m = true -> (probe < length m)%nat -> seq_pick m probe edx edx_max <> POutside.
Proof. exact seq_pick_inside. Qed.
Print Assumptions C04_tagmap_pick_stays_inside.

(* the lookup of SEQUENCE_decode_ber never returns a member below the current position *)
Theorem C04_seq_lookup_never_goes_back : forall (els : list elem) (m : list entry) (edx : nat) (tag : Z) (n : nat),
  seq_find els m edx tag = Some n -> (edx <= n <= edx + opt_of els edx)%nat.
Proof. exact seq_find_not_below. Qed.
Print Assumptions C04_seq_lookup_never_goes_back.

Theorem C04_seq_lookup_in_member_table : forall (els : list elem) (m : list entry) (edx : nat) (tag : Z) (n : nat),
  names_members (length els) m = true -> seq_find els m edx tag = Some n -> (n < length els)%nat.
Proof. exact seq_find_in_table. Qed.
Print Assumptions C04_seq_lookup_in_member_table.

(* hence the member loop terminates (its fuel is never the answer; any larger fuel gives the same
   answer) and decodes no member twice *)
Theorem C04_seq_member_loop_terminates : forall (els : list elem) (m : list entry) (first_ext : option nat)
    (reent : list bool) (tlvs : list Z),
  seq_members els m first_ext reent tlvs <> LFuel.
Proof. exact seq_members_terminates. Qed.
Print Assumptions C04_seq_member_loop_terminates.

Theorem C04_seq_member_loop_any_fuel : forall (els : list elem) (m : list entry) (first_ext : option nat)
    (reent : list bool) (tlvs : list Z) (fuel : nat),
  (length els + length tlvs < fuel)%nat ->
  member_loop (seq_find els m) (length els) (opt_of els) (ext_from first_ext) (fun i => nth i reent false)
              fuel 0 tlvs [] = seq_members els m first_ext reent tlvs.
Proof. exact seq_members_any_fuel. Qed.
Print Assumptions C04_seq_member_loop_any_fuel.

Theorem C04_seq_no_member_decoded_twice : forall (els : list elem) (m : list entry) (first_ext : option nat)
    (reent : list bool) (tlvs : list Z) (tr : list nat),
  seq_members els m first_ext reent tlvs = LOk tr ->
  StronglySorted lt tr /\ NoDup tr /\ (length tr <= length tlvs)%nat.
Proof. exact seq_members_no_member_twice. Qed.
Print Assumptions C04_seq_no_member_decoded_twice.

(* the same loop under ANY lookup that never goes back (the one fact the loop needs) *)
Theorem C04_member_loop_total_under_monotone_lookup :
  forall (find : nat -> Z -> option nat) (count : nat) (optional : nat -> nat) (in_ext reentrant : nat -> bool),
  (forall edx tag n, find edx tag = Some n -> (edx <= n)%nat) ->
  forall (fuel edx : nat) (tlvs : list Z) (done : list nat),
  Forall (fun d => (d < edx)%nat) done -> ((count - edx) + length tlvs < fuel)%nat ->
  member_loop find count optional in_ext reentrant fuel edx tlvs done <> LFuel.
Proof. exact member_loop_total_gen. Qed.
Print Assumptions C04_member_loop_total_under_monotone_lookup.

(* the backwards walk without the lower bound (seeded/C04-5), on the tables asn1c emits for a legal
   type: the lookup goes back; a member is decoded twice; with a member that keeps a decoder context
   the loop never ends, whatever the fuel *)
Theorem C04_backwards_walk_goes_back_refuted :
  bsearch (seq_cmp 24 1) wit_map = Some 2%nat /\
  seq_pick_back wit_map 2 1 2 = PSome 0 /\
  seq_pick wit_map 2 1 2 = PNone /\
  seq_find_back wit_els wit_map 1 24 = Some 0%nat /\
  seq_find wit_els wit_map 1 24 = None.
Proof. exact scan_back_below_refuted. Qed.
Print Assumptions C04_backwards_walk_goes_back_refuted.

Theorem C04_backwards_walk_decodes_twice_refuted :
  seq_members_back wit_els wit_map None [false; false; false; false] wit_tlvs = LOk [0; 0; 2]%nat /\
  seq_members wit_els wit_map None [false; false; false; false] wit_tlvs = LFail.
Proof. exact seq_members_back_twice_refuted. Qed.
Print Assumptions C04_backwards_walk_decodes_twice_refuted.

Theorem C04_backwards_walk_hangs_refuted : forall fuel : nat,
  member_loop (seq_find_back wit_els_os wit_map_os) 4 (opt_of wit_els_os) (ext_from None)
              (fun i => nth i [true; false; false; true] false) fuel 0 [16; 16; 4] [] = LFuel.
Proof. exact seq_members_back_hangs_refuted. Qed.
Print Assumptions C04_backwards_walk_hangs_refuted.

(* SET: the presence test precedes the member's decoder; SET / CHOICE: the member is one the table names *)
Theorem C04_set_no_member_decoded_twice : forall (m : list entry) (ext : bool) (tlvs : list Z) (tr : list nat),
  set_members m ext tlvs = Some tr -> NoDup tr /\ (length tr <= length tlvs)%nat.
Proof. exact set_members_no_member_twice. Qed.
Print Assumptions C04_set_no_member_decoded_twice.

Theorem C04_tag_find_in_member_table : forall (count : nat) (m : list entry) (tag : Z) (n : nat),
  names_members count m = true -> tag_find m tag = Some n -> (n < count)%nat.
Proof. exact tag_find_in_table. Qed.
Print Assumptions C04_tag_find_in_member_table.

(* ------------------------------------------------------------------------------------------------
   Rt/SafetyFrag.v: the buffers that reassemble a fragmented PER value (X.691 11.9.3.8), as functions of
   the chunk sizes the length determinants announce, in ANY order *)
From A1 Require Import Rt.SafetyFrag.

(* uper_open_type_get_simple(): every store of a fragment lies inside the block as it is at that moment *)
Theorem C04_frag_opentype_writes_in_bounds : forall cs : list Z,
  Forall chunk_ok cs -> total cs < two58 -> Forall wr_in (ot_writes (ot_c cs)).
Proof. exact ot_writes_in_bounds. Qed.
Print Assumptions C04_frag_opentype_writes_in_bounds.

Theorem C04_frag_opentype_length_is_total : forall cs : list Z,
  Forall chunk_ok cs -> total cs < two58 -> ot_len (ot_c cs) = total cs /\ total cs <= ot_size (ot_c cs).
Proof. exact ot_length_is_total. Qed.
Print Assumptions C04_frag_opentype_length_is_total.

(* the loop's invariant itself, from any state that satisfies it: bufLen <= bufSize <= 4 bufLen + 320K *)
Theorem C04_frag_opentype_invariant : forall (cs : list Z) (bufLen bufSize : Z),
  Forall chunk_ok cs -> ot_inv bufLen bufSize -> bufLen + total cs < two58 ->
  let r := ot_run grow_c cs bufLen bufSize in
  Forall wr_in (ot_writes r) /\ ot_len r = bufLen + total cs /\ ot_inv (ot_len r) (ot_size r) /\
  Forall (fun q => 0 <= q <= 4 * (bufLen + total cs) + 5 * frag_max) (ot_reqs r).
Proof. exact ot_run_safe. Qed.
Print Assumptions C04_frag_opentype_invariant.

Theorem C04_frag_opentype_requests_linear : forall cs : list Z,
  Forall chunk_ok cs -> total cs < two58 ->
  Forall (fun q => 0 <= q <= 4 * total cs + 5 * frag_max) (ot_reqs (ot_c cs)).
Proof. exact ot_requests_linear. Qed.
Print Assumptions C04_frag_opentype_requests_linear.

(* seeded/C04-6: "the first fragment sizes the buffer, the following ones double it" *)
Theorem C04_frag_opentype_doubling_refuted :
  Forall chunk_ok [16384; 65536; 83] /\
  forallb wr_inb (ot_writes (ot_double [16384; 65536; 83])) = false /\
  ot_writes (ot_double [16384; 65536]) = [mkW 0 16384 16384; mkW 16384 65536 32768] /\
  forallb wr_inb (ot_writes (ot_c [16384; 65536; 83])) = true /\
  ot_reqs (ot_c [16384; 65536; 83]) = [16384; 131072].
Proof. exact ot_doubling_refuted. Qed.
Print Assumptions C04_frag_opentype_doubling_refuted.

(* OCTET STRING / BIT STRING / ANY (brk = true) and INTEGER (brk = false): fragments and the terminating NUL *)
Theorem C04_frag_string_writes_in_bounds : forall (brk : bool) (cs : list Z),
  Forall chunk_ok cs -> cs <> [] -> Forall wr_in (snd (str_all brk 1 cs)).
Proof. exact str_writes_in_bounds. Qed.
Print Assumptions C04_frag_string_writes_in_bounds.

Theorem C04_frag_string_no_slack_refuted :
  forallb wr_inb (snd (str_all true 0 [16384; 65536; 5])) = false /\
  forallb wr_inb (snd (str_all true 1 [16384; 65536; 5])) = true /\
  fst (str_all true 1 [16384; 65536; 5]) = [16385; 81921; 81926].
Proof. exact str_no_slack_refuted. Qed.
Print Assumptions C04_frag_string_no_slack_refuted.

(* asn_set_add(): the slot written is inside the array after every number of calls *)
Theorem C04_frag_array_writes_in_bounds : forall n : nat, Forall wr_in (a_writes (arr_run n 0 0)).
Proof. exact arr_writes_in_bounds. Qed.
Print Assumptions C04_frag_array_writes_in_bounds.

(* the contents: every way of cutting a value into fragments is reassembled to the value (what the tie observes as
   "the same value as the largest-first fragmentation") *)
Theorem C04_frag_opentype_reassembles : forall frs : list (list Z),
  Forall chunk_ok (sizes frs) -> Z.of_nat (length (concat frs)) < two58 ->
  exists b, ot_data grow_c frs [] 0 = Some (b, length (concat frs)) /\ firstn (length (concat frs)) b = concat frs.
Proof. exact ot_reassembles. Qed.
Print Assumptions C04_frag_opentype_reassembles.

Theorem C04_frag_opentype_order_independent : forall frs1 frs2 : list (list Z),
  Forall chunk_ok (sizes frs1) -> Forall chunk_ok (sizes frs2) -> concat frs1 = concat frs2 ->
  Z.of_nat (length (concat frs1)) < two58 ->
  exists b1 b2 n, ot_data grow_c frs1 [] 0 = Some (b1, n) /\ ot_data grow_c frs2 [] 0 = Some (b2, n) /\ firstn n b1 = firstn n b2.
Proof. exact ot_order_independent. Qed.
Print Assumptions C04_frag_opentype_order_independent.

Theorem C04_frag_opentype_doubling_store_refuted :
  ot_data grow_double [repeat 1 3; repeat 2 9] [] 0 = None /\
  ot_data grow_c [repeat 1 3; repeat 2 9] [] 0 = Some (repeat 1 3 ++ repeat 2 9 ++ repeat 0 9, 12%nat).
Proof. exact ot_data_doubling_refuted. Qed.
Print Assumptions C04_frag_opentype_doubling_store_refuted.
