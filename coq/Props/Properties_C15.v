(* Properties_C15.v — bounded stack and heap (PARTIAL: proved on a model).
   Model: coq/Rt/Depth.v — the decoder call graph of a module with the set of
   decoders that evaluate ASN__STACK_OVERFLOW_CHECK (stack part), and the size of
   the value returned by the reference decoders of coq/Rt (heap part).  Real
   frame sizes, real stack exhaustion and the real allocator are runtime facts:
   checks/c15.py ties them (child processes under setrlimit, a peak-live-bytes meter).
   What is stated here:
   - if every cycle of the call graph passes a guarded decoder, then for EVERY
     positive frame size a call stack on which no guard has fired has at most
     max_stack/frame + R + 1 frames and uses at most max_stack + (R+1)*biggest-frame
     bytes, and an input asking for deeper nesting makes a guard fire within that
     depth (R+1 = longest run of unguarded decoders);
   - the hypothesis holds for the BER, UPER, OER and XER graphs of the check's
     modules (every constructed decoder of every syntax evaluates the check), so
     the bound holds for every recursive type in every syntax (all_syntaxes);
     an unguarded cycle would admit call stacks of every length (general theorem);
   - the value the reference BER decoder returns is never larger than the number
     of octets it consumed (every type of the algebra, every input);
   - for OER and UPER that is false without a count guard: SEQUENCE OF NULL. *)
From Coq Require Import ZArith List Bool.
From A1 Require Import Base.Bytes Rt.Types Rt.Der Rt.Oer Rt.Uper Rt.Depth Rt.DepthProofs.
Import ListNotations.
Local Open Scope Z_scope.

Theorem C15_guarded_recursion_partial : forall (g : cgraph) (n R : nat) (fr : node -> Z) (f max : Z),
  all_cycles_guarded g n = Some R ->
  0 < f -> (forall v, f <= fr v) -> 0 <= max ->
  forall c, is_chain g c = true -> admissible g fr max 0 c = true ->
  Z.of_nat (length c) <= max / f + Z.of_nat (S R).
Proof. exact guarded_recursion. Qed.
Print Assumptions C15_guarded_recursion_partial.

Theorem C15_guarded_stack_bound_partial : forall (g : cgraph) (n R : nat) (fr : node -> Z) (F max : Z),
  all_cycles_guarded g n = Some R ->
  (forall v, 0 <= fr v <= F) -> 0 <= max ->
  forall c, is_chain g c = true -> admissible g fr max 0 c = true ->
  usage fr c <= max + F * Z.of_nat (S R).
Proof. exact guarded_stack_bound. Qed.
Print Assumptions C15_guarded_stack_bound_partial.

Theorem C15_deep_nesting_fails_partial : forall (g : cgraph) (n R : nat) (fr : node -> Z) (f max : Z),
  all_cycles_guarded g n = Some R ->
  0 < f -> (forall v, f <= fr v) -> 0 <= max ->
  forall path, is_chain g path = true ->
  max / f + Z.of_nat (S R) < Z.of_nat (length path) ->
  exists k, run_path g fr max 0 0 path = GuardFired k /\
            Z.of_nat k <= max / f + Z.of_nat (S R) + 1.
Proof. exact deep_nesting_fails. Qed.
Print Assumptions C15_deep_nesting_fails_partial.

Theorem C15_unguarded_cycle_unbounded : forall (g : cgraph) (pre cyc : list node),
  unguarded_cycle g pre cyc = true ->
  forall (fr : node -> Z) (max : Z) (k : nat),
    let c := pre ++ rep_cycle cyc k ++ [hd O cyc] in
    is_chain g c = true /\ admissible g fr max 0 c = true /\ (k <= length c)%nat.
Proof. exact unguarded_cycle_unbounded. Qed.
Print Assumptions C15_unguarded_cycle_unbounded.

Theorem C15_guarded_recursion_all_syntaxes : forall (g : cgraph) (fr : node -> Z) (f max : Z),
  In g [cg_ber; cg_uper; cg_oer; cg_xer] ->
  0 < f -> (forall v, f <= fr v) -> 0 <= max ->
  forall c, is_chain g c = true -> admissible g fr max 0 c = true ->
  Z.of_nat (length c) <= max / f + 1.
Proof. exact guarded_recursion_all_syntaxes. Qed.
Print Assumptions C15_guarded_recursion_all_syntaxes.

Theorem C15_deep_nesting_fails_all_syntaxes : forall (g : cgraph) (fr : node -> Z) (f max : Z),
  In g [cg_ber; cg_uper; cg_oer; cg_xer] ->
  0 < f -> (forall v, f <= fr v) -> 0 <= max ->
  forall path, is_chain g path = true ->
  max / f + 1 < Z.of_nat (length path) ->
  exists k, run_path g fr max 0 0 path = GuardFired k /\ Z.of_nat k <= max / f + 2.
Proof. exact deep_nesting_fails_all_syntaxes. Qed.
Print Assumptions C15_deep_nesting_fails_all_syntaxes.

Theorem C15_heap_linear_ber_partial : forall t bs v rest,
  ber_dec t bs = Some (v, rest) -> vsize v + zlen rest <= zlen bs.
Proof. exact heap_linear. Qed.
Print Assumptions C15_heap_linear_ber_partial.

Theorem C15_heap_linear_ber_decode_partial : forall t bs v n,
  ber_decode t bs = Some (v, n) -> vsize v <= n.
Proof. exact heap_linear_decode. Qed.
Print Assumptions C15_heap_linear_ber_decode_partial.

Theorem C15_zero_width_oer : forall tg s tg' bs N r,
  oer_get_quantity bs = Some (N, r) ->
  oer_dec (TSeqOf tg s (TNull tg')) bs = Some (null_list (Z.to_nat N), r).
Proof. exact zero_width_oer. Qed.
Print Assumptions C15_zero_width_oer.

Theorem C15_heap_linear_oer_refuted :
  exists t bs v n, oer_decode t bs = Some (v, n) /\ n = 3 /\ vsize v = 65536.
Proof. exact heap_linear_oer_refuted. Qed.
Print Assumptions C15_heap_linear_oer_refuted.

Theorem C15_heap_linear_uper_refuted :
  exists t bs v n, uper_decode false t bs = Some (v, n) /\ n = 2 /\ vsize v = 16384.
Proof. exact heap_linear_uper_refuted. Qed.
Print Assumptions C15_heap_linear_uper_refuted.
