(* Properties_C15.v — bounded stack and heap (PARTIAL: proved on a model).
   Model: coq/Rt/Depth.v — the decoder call graph of a module with the set of
   decoders that evaluate ASN__STACK_OVERFLOW_CHECK (stack part), and the size of
   the value returned by the reference decoders of coq/Rt (heap part).  Real
   frame sizes, real stack exhaustion and the real allocator are runtime facts:
   checks/c15.py ties them (child processes under setrlimit, a peak-live-bytes meter).
   What is stated here:
   - if every cycle of the call graph passes a guarded decoder, then for EVERY
     positive frame size a call stack on which no guard has fired has at most
     max_stack/frame + R + 1 frames and uses at most max_stack + (R+1)*biggest-frame
     bytes, and an input asking for deeper nesting makes a guard fire within that
     depth (R+1 = longest run of unguarded decoders);
   - the hypothesis holds for the BER, UPER, OER and XER graphs of the check's
     modules (every constructed decoder of every syntax evaluates the check), so
     the bound holds for every recursive type in every syntax (all_syntaxes);
     an unguarded cycle would admit call stacks of every length (general theorem);
   - the value the reference BER decoder returns is never larger than the number
     of octets it consumed (every type of the algebra, every input);
   - for OER and UPER that is false without a count guard: SEQUENCE OF NULL;
   - WHEN the UPER string / list decoders allocate (coq/Rt/HeapBound.v: [get_sized] of Rt/Uper.v
     instrumented with the check's allocation meter, following OCTET_STRING_decode_uper /
     BIT_STRING_decode_uper / SET_OF_decode_uper + asn_set_add): allocation per received
     fragment (<= 64K units) keeps the peak live heap below factor * input + a constant that
     mentions NEITHER bound of the SIZE constraint, for every SIZE constraint and every
     input (complete, truncated, lying about its length); sizing the buffer (reserving the
     array) from the upper bound of a SIZE RANGE changes no decoded value and is unbounded
     over the family SIZE(lo..h), h >= 64K, on every input, the empty one included. *)
From Coq Require Import ZArith List Bool.
From A1 Require Import Base.Bytes Rt.Types Rt.Der Rt.Oer Rt.Uper Rt.Depth Rt.DepthProofs Rt.HeapBound Rt.HeapBoundProofs Rt.HeapOer Rt.HeapOerProofs Rt.HeapOerFuel.
Import ListNotations.
Local Open Scope Z_scope.

Theorem C15_guarded_recursion_partial : forall (g : cgraph) (n R : nat) (fr : node -> Z) (f max : Z),
  all_cycles_guarded g n = Some R ->
  0 < f -> (forall v, f <= fr v) -> 0 <= max ->
  forall c, is_chain g c = true -> admissible g fr max 0 c = true ->
  Z.of_nat (length c) <= max / f + Z.of_nat (S R).
Proof. exact guarded_recursion. Qed.
Print Assumptions C15_guarded_recursion_partial.

Theorem C15_guarded_stack_bound_partial : forall (g : cgraph) (n R : nat) (fr : node -> Z) (F max : Z),
  all_cycles_guarded g n = Some R ->
  (forall v, 0 <= fr v <= F) -> 0 <= max ->
  forall c, is_chain g c = true -> admissible g fr max 0 c = true ->
  usage fr c <= max + F * Z.of_nat (S R).
Proof. exact guarded_stack_bound. Qed.
Print Assumptions C15_guarded_stack_bound_partial.

Theorem C15_deep_nesting_fails_partial : forall (g : cgraph) (n R : nat) (fr : node -> Z) (f max : Z),
  all_cycles_guarded g n = Some R ->
  0 < f -> (forall v, f <= fr v) -> 0 <= max ->
  forall path, is_chain g path = true ->
  max / f + Z.of_nat (S R) < Z.of_nat (length path) ->
  exists k, run_path g fr max 0 0 path = GuardFired k /\
            Z.of_nat k <= max / f + Z.of_nat (S R) + 1.
Proof. exact deep_nesting_fails. Qed.
Print Assumptions C15_deep_nesting_fails_partial.

Theorem C15_unguarded_cycle_unbounded : forall (g : cgraph) (pre cyc : list node),
  unguarded_cycle g pre cyc = true ->
  forall (fr : node -> Z) (max : Z) (k : nat),
    let c := pre ++ rep_cycle cyc k ++ [hd O cyc] in
    is_chain g c = true /\ admissible g fr max 0 c = true /\ (k <= length c)%nat.
Proof. exact unguarded_cycle_unbounded. Qed.
Print Assumptions C15_unguarded_cycle_unbounded.

Theorem C15_guarded_recursion_all_syntaxes : forall (g : cgraph) (fr : node -> Z) (f max : Z),
  In g [cg_ber; cg_uper; cg_oer; cg_xer] ->
  0 < f -> (forall v, f <= fr v) -> 0 <= max ->
  forall c, is_chain g c = true -> admissible g fr max 0 c = true ->
  Z.of_nat (length c) <= max / f + 1.
Proof. exact guarded_recursion_all_syntaxes. Qed.
Print Assumptions C15_guarded_recursion_all_syntaxes.

Theorem C15_deep_nesting_fails_all_syntaxes : forall (g : cgraph) (fr : node -> Z) (f max : Z),
  In g [cg_ber; cg_uper; cg_oer; cg_xer] ->
  0 < f -> (forall v, f <= fr v) -> 0 <= max ->
  forall path, is_chain g path = true ->
  max / f + 1 < Z.of_nat (length path) ->
  exists k, run_path g fr max 0 0 path = GuardFired k /\ Z.of_nat k <= max / f + 2.
Proof. exact deep_nesting_fails_all_syntaxes. Qed.
Print Assumptions C15_deep_nesting_fails_all_syntaxes.

Theorem C15_heap_linear_ber_partial : forall t bs v rest,
  ber_dec t bs = Some (v, rest) -> vsize v + zlen rest <= zlen bs.
Proof. exact heap_linear. Qed.
Print Assumptions C15_heap_linear_ber_partial.

Theorem C15_heap_linear_ber_decode_partial : forall t bs v n,
  ber_decode t bs = Some (v, n) -> vsize v <= n.
Proof. exact heap_linear_decode. Qed.
Print Assumptions C15_heap_linear_ber_decode_partial.

Theorem C15_zero_width_oer : forall tg s tg' bs N r,
  oer_get_quantity bs = Some (N, r) ->
  oer_dec (TSeqOf tg s (TNull tg')) bs = Some (null_list (Z.to_nat N), r).
Proof. exact zero_width_oer. Qed.
Print Assumptions C15_zero_width_oer.

Theorem C15_heap_linear_oer_refuted :
  exists t bs v n, oer_decode t bs = Some (v, n) /\ n = 3 /\ vsize v = 65536.
Proof. exact heap_linear_oer_refuted. Qed.
Print Assumptions C15_heap_linear_oer_refuted.

Theorem C15_heap_linear_uper_refuted :
  exists t bs v n, uper_decode false t bs = Some (v, n) /\ n = 2 /\ vsize v = 16384.
Proof. exact heap_linear_uper_refuted. Qed.
Print Assumptions C15_heap_linear_uper_refuted.

(* ---------------- round C15x: allocation per fragment (Rt/HeapBound.v) ---------------- *)

(* the instrumented decoders ARE the reference decoder of Rt/Uper.v, under either policy *)
Theorem C15_string_alloc_erasure : forall (A : Type) (item : list bool -> option (A * list bool)) (mem : Z -> Z)
  (pol : policy) (s : scon) (bs : list bool),
  fst (str_dec item item mem true pol s bs) = get_sized item s bs.
Proof. exact @str_dec_erase. Qed.
Print Assumptions C15_string_alloc_erasure.

Theorem C15_list_alloc_erasure : forall (A : Type) (item : list bool -> option (A * list bool)) (esz : Z)
  (nobit : list bool -> list bool -> bool) (pol : policy) (s : scon) (bs : list bool),
  fst (lst_dec item esz false nobit true pol s bs) = get_sized item s bs.
Proof. exact @lst_dec_erase. Qed.
Print Assumptions C15_list_alloc_erasure.

(* strings: units of at least w bits in the encoding and at most U bytes in memory *)
Theorem C15_string_heap_per_fragment_partial : forall (A : Type) (item item_x : list bool -> option (A * list bool))
  (mem : Z -> Z) (w U : Z),
  1 <= w -> 0 <= U ->
  (forall bs a r, item bs = Some (a, r) -> zlen r + w <= zlen bs) ->
  (forall bs a r, item_x bs = Some (a, r) -> zlen r + w <= zlen bs) ->
  (forall n, 0 <= n -> 0 <= mem n <= U * n) ->
  forall (chk : bool) (s : scon) (bs : list bool), scon_ok s ->
  w * m_peak (snd (str_dec item item_x mem chk PerFragment s bs)) <= 2 * U * zlen bs + w * (3 * 65536 * U + 2).
Proof. exact @str_heap_frag_bound. Qed.
Print Assumptions C15_string_heap_per_fragment_partial.

(* OCTET STRING of Rt/Uper.v: peak <= 2 * input octets + 196610 *)
Theorem C15_octet_string_heap_partial : forall (chk : bool) (s : scon) (bs : list bool), scon_ok s ->
  8 * m_peak (snd (str_dec get_octet get_octet (mem_of 1) chk PerFragment s bs)) <= 2 * zlen bs + 8 * 196610.
Proof. exact octet_string_heap_bound. Qed.
Print Assumptions C15_octet_string_heap_partial.

(* "allocate ub + 1 up front": on EVERY input, for every range with ub >= 64K *)
Theorem C15_string_prealloc_every_input : forall (A : Type) (item item_x : list bool -> option (A * list bool)) (mem : Z -> Z)
  (chk : bool) (lo h : Z) (bs : list bool), 65536 <= h ->
  mem h + 1 <= m_peak (snd (str_dec item item_x mem chk PreallocUb (SCon lo (Some h) false) bs)) /\
  mem h + 1 <= m_maxreq (snd (str_dec item item_x mem chk PreallocUb (SCon lo (Some h) false) bs)).
Proof. exact @str_prealloc_peak. Qed.
Print Assumptions C15_string_prealloc_every_input.

Theorem C15_string_heap_prealloc_refuted : forall c K : Z,
  exists s bs, scon_ok s /\
    c * zlen bs + K < m_peak (snd (str_dec get_octet get_octet (mem_of 1) false PreallocUb s bs)).
Proof. exact str_heap_prealloc_refuted. Qed.
Print Assumptions C15_string_heap_prealloc_refuted.

(* lists: elements of esz bytes, the `no bit consumed && nelems > 200` guard in place; the element
   decoder may consume nothing at all *)
Theorem C15_list_heap_partial : forall (A : Type) (item : list bool -> option (A * list bool)) (esz : Z),
  0 <= esz ->
  (forall bs a r, item bs = Some (a, r) -> zlen r <= zlen bs) ->
  forall nobit : list bool -> list bool -> bool,
  (forall bs a r, item bs = Some (a, r) -> nobit bs r = (length r =? length bs)%nat) ->
  forall (chk : bool) (s : scon) (bs : list bool),
  let ml := snd (lst_dec item esz true nobit chk PerFragment s bs) in
  l_count (snd ml) <= zlen bs + 201 /\ m_peak (fst ml) <= (esz + 24) * (zlen bs + 201) + 32.
Proof. exact @lst_heap_bound. Qed.
Print Assumptions C15_list_heap_partial.

Theorem C15_list_prealloc_refuted : forall c K : Z,
  exists s bs, c * zlen bs + K <
    m_peak (fst (snd (lst_dec (fun bs0 : list bool => match bs0 with b :: r => Some (b, r) | [] => None end)
                             4 true nobit_len false PreallocUb s bs))).
Proof. exact lst_prealloc_refuted. Qed.
Print Assumptions C15_list_prealloc_refuted.

Theorem C15_list_no_guard_refuted :
  exists bs, zlen bs = 16 /\
    l_count (snd (snd (lst_dec (fun bs0 : list bool => Some (tt, bs0)) 4 false nobit_len false PerFragment (SCon 0 None false) bs))) = 16383.
Proof. exact lst_no_guard_refuted. Qed.
Print Assumptions C15_list_no_guard_refuted.

(* the functions the check runs next to the C (ocaml/drv_c15.ml: c15_str, c15_lst) *)
Theorem C15_front_end_string_heap_partial : forall (ub : nat) (bpc w : Z) (s : scon) (bs : list bool),
  1 <= w -> w <= Z.of_nat ub -> 0 <= bpc -> w <= 8 * Z.max 1 bpc -> scon_ok s ->
  w * m_peak (snd (c15_str PerFragment ub bpc s bs)) <= 2 * Z.max 1 bpc * zlen bs + w * (3 * 65536 * Z.max 1 bpc + 2).
Proof. exact c15_str_heap_bound. Qed.
Print Assumptions C15_front_end_string_heap_partial.

Theorem C15_front_end_string_prealloc : forall (ub : nat) (bpc lo h : Z) (bs : list bool), 65536 <= h ->
  mem_of bpc h + 1 <= m_peak (snd (c15_str PreallocUb ub bpc (SCon lo (Some h) false) bs)) /\
  mem_of bpc h + 1 <= m_maxreq (snd (c15_str PreallocUb ub bpc (SCon lo (Some h) false) bs)).
Proof. exact c15_str_prealloc_peak. Qed.
Print Assumptions C15_front_end_string_prealloc.

Theorem C15_front_end_list_heap_partial : forall (ub : nat) (esz : Z) (s : scon) (bs : list bool), 0 <= esz ->
  let ml := snd (c15_lst PerFragment ub esz s bs) in
  l_count (snd ml) <= zlen bs + 201 /\ m_peak (fst ml) <= (esz + 24) * (zlen bs + 201) + 32.
Proof. exact c15_lst_heap_bound. Qed.
Print Assumptions C15_front_end_list_heap_partial.

(* ---------------- round C15w: nested lists in OER (Rt/HeapOer.v) ---------------- *)

(* SET_OF_decode_oer with its per-element guard, lists nested to ANY depth over any fixed-width
   leaf (width 0 = NULL): peak heap linear in the input octets, constants of the type only *)
Theorem C15_oer_nested_heap_linear_partial : forall (t : lty) (bs : list Z), wf t ->
  2 * m_peak (r_m (oll_run PerElement t bs)) <= 3 * (ca t * zlen bs + cb t).
Proof. exact oll_heap_linear. Qed.
Print Assumptions C15_oer_nested_heap_linear_partial.

(* what the element loop relies on, per type: live heap <= ca * consumed + cb, consumed <= input, width class *)
Theorem C15_oer_nested_decoder_invariant : forall (t : lty), wf t -> forall F : nat,
  dec_ok (ca t) (cb t) (zw t) (oll_dec PerElement F t).
Proof. exact oll_dec_ok. Qed.
Print Assumptions C15_oer_nested_decoder_invariant.

(* Rows ::= SEQUENCE OF Row, Row ::= SEQUENCE OF NULL *)
Theorem C15_oer_null_rows_heap_partial : forall bs : list Z,
  m_peak (r_m (oll_run PerElement null_rows bs)) <= 6180 * zlen bs + 6252.
Proof. exact null_rows_heap_linear. Qed.
Print Assumptions C15_oer_null_rows_heap_partial.

(* the up-front test "a quantity above 200 must be covered by the octets left" instead of the per-element
   guard: K rows, each announcing the octets behind it, are ACCEPTED and cost 18 K (K - 1) bytes for 9 K + 9 octets *)
Theorem C15_oer_upfront_quadratic : forall K : nat, 9 * Z.of_nat K + 9 <= rsize_max ->
  let x := oll_run UpFront null_rows (bomb K) in
  r_rc x = ROk /\ zlen (bomb K) = 9 * Z.of_nat K + 9 /\
  18 * Z.of_nat K * (Z.of_nat K - 1) <= m_live (r_m x) /\ m_live (r_m x) <= m_peak (r_m x).
Proof. exact upfront_quadratic. Qed.
Print Assumptions C15_oer_upfront_quadratic.

Theorem C15_oer_nested_heap_upfront_refuted : forall c K0 : Z, 0 <= c -> 0 <= K0 -> c + K0 <= 1000000000000000 ->
  exists bs, r_rc (oll_run UpFront null_rows bs) = ROk /\
             c * zlen bs + K0 < m_peak (r_m (oll_run UpFront null_rows bs)).
Proof. exact upfront_refuted. Qed.
Print Assumptions C15_oer_nested_heap_upfront_refuted.

(* ... and the per-element guard keeps the very same inputs under the linear bound *)
Theorem C15_oer_bomb_per_element : forall K : nat,
  m_peak (r_m (oll_run PerElement null_rows (bomb K))) <= 6180 * zlen (bomb K) + 6252.
Proof. exact bomb_per_element. Qed.
Print Assumptions C15_oer_bomb_per_element.

(* the fuel the element loops get from [oll_run] (input length + 202) is enough under the per-element guard:
   the model's outcome is always one of the C's (RC_OK, RC_WMORE, RC_FAIL) *)
Theorem C15_oer_nested_fuel_suffices : forall (t : lty) (bs : list Z), wf t ->
  r_rc (oll_run PerElement t bs) <> RFuel.
Proof. exact oll_run_nofuel. Qed.
Print Assumptions C15_oer_nested_fuel_suffices.
