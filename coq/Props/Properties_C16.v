(* Properties_C16.v — INTEGER and REAL conversion helpers are exact and produce
   canonical contents.  Only statements, each closed by [exact] of a lemma proved
   elsewhere, with Print Assumptions beneath.  Models: Leaf/IntegerConv.v and
   Leaf/RealConv.v (tied to skeletons/INTEGER.c and skeletons/REAL.c by the
   correspondence run of bin/vcheck C16). *)
From Coq Require Import ZArith List Bool.
From A1 Require Import Base.Bytes Leaf.IntegerConv Leaf.IntegerConvProofs Leaf.StrtoxProofs.
From A1 Require Import Leaf.RealConv Leaf.RealConvProofs.
Import ListNotations.
Local Open Scope Z_scope.

(* -- every intmax_t / long value: stored octets are the minimal two's-complement
      form of v, and conversion back returns v -- *)
Theorem C16_imax_canonical : forall v, - two63 <= v < two63 ->
  twos_value (imax2INTEGER v) = v /\ minimal_twos (imax2INTEGER v) = true /\
  bytes_ok (imax2INTEGER v) /\ imax2INTEGER v <> [].
Proof. exact imax2INTEGER_canonical. Qed.
Print Assumptions C16_imax_canonical.

Theorem C16_imax_roundtrip : forall v, - two63 <= v < two63 ->
  INTEGER2imax (imax2INTEGER v) = COk v.
Proof. exact imax_roundtrip. Qed.
Print Assumptions C16_imax_roundtrip.

Theorem C16_long_roundtrip : forall v, - two63 <= v < two63 ->
  INTEGER2long (long2INTEGER v) = COk v.
Proof. exact long_roundtrip. Qed.
Print Assumptions C16_long_roundtrip.

(* -- conversion back reports a range error exactly when the value does not fit,
      for contents octets of any length, minimal or not -- *)
Theorem C16_INTEGER2imax_exact : forall bs, bytes_ok bs -> bs <> [] ->
  INTEGER2imax bs =
  if IntegerConvProofs.in_imax (twos_value bs) then COk (twos_value bs) else CErange.
Proof. exact INTEGER2imax_exact. Qed.
Print Assumptions C16_INTEGER2imax_exact.

Theorem C16_INTEGER2long_exact : forall bs, bytes_ok bs -> bs <> [] ->
  INTEGER2long bs =
  if IntegerConvProofs.in_imax (twos_value bs) then COk (twos_value bs) else CErange.
Proof. exact INTEGER2long_exact. Qed.
Print Assumptions C16_INTEGER2long_exact.

(* -- uintmax_t -- *)
Theorem C16_umax_canonical : forall u, 0 <= u < two64 ->
  twos_value (umax2INTEGER u) = u /\ minimal_twos (umax2INTEGER u) = true /\
  bytes_ok (umax2INTEGER u) /\ umax2INTEGER u <> [].
Proof. exact umax2INTEGER_canonical. Qed.
Print Assumptions C16_umax_canonical.

Theorem C16_umax_roundtrip : forall u, 0 <= u < two64 ->
  INTEGER2umax (umax2INTEGER u) = COk u.
Proof. exact umax_roundtrip. Qed.
Print Assumptions C16_umax_roundtrip.

(* full statement "range error exactly when the value does not fit uintmax_t" is
   false of the code (negative contents are accepted): refuted + partial *)
Theorem C16_INTEGER2umax_exact_partial : forall bs,
  bytes_ok bs -> 0 <= twos_value bs -> be_val bs = twos_value bs ->
  INTEGER2umax bs = if twos_value bs <? two64 then COk (twos_value bs) else CErange.
Proof. exact INTEGER2umax_exact_nonneg. Qed.
Print Assumptions C16_INTEGER2umax_exact_partial.

Theorem C16_INTEGER2umax_exact_refuted :
  exists bs, bytes_ok bs /\ twos_value bs < 0 /\ INTEGER2umax bs = COk 255.
Proof. exact INTEGER2umax_exact_refuted. Qed.
Print Assumptions C16_INTEGER2umax_exact_refuted.

(* -- unsigned long goes through the signed path: holds below 2^63, refuted above -- *)
Theorem C16_ulong_canonical_partial : forall u, 0 <= u < two63 ->
  twos_value (ulong2INTEGER u) = u /\ minimal_twos (ulong2INTEGER u) = true.
Proof. exact ulong2INTEGER_canonical_partial. Qed.
Print Assumptions C16_ulong_canonical_partial.

Theorem C16_ulong_roundtrip_partial : forall u, 0 <= u < two63 ->
  INTEGER2ulong (ulong2INTEGER u) = COk u.
Proof. exact ulong_roundtrip_partial. Qed.
Print Assumptions C16_ulong_roundtrip_partial.

Theorem C16_ulong_canonical_refuted :
  exists u, 0 <= u < two64 /\ twos_value (ulong2INTEGER u) <> u.
Proof. exact ulong_canonical_refuted. Qed.
Print Assumptions C16_ulong_canonical_refuted.

Theorem C16_ulong_roundtrip_refuted :
  exists u, 0 <= u < two64 /\ INTEGER2ulong (ulong2INTEGER u) <> COk u.
Proof. exact ulong_roundtrip_refuted. Qed.
Print Assumptions C16_ulong_roundtrip_refuted.

(* -- the decimal text parsers accept exactly the in-range numerals -- *)
Theorem C16_strtoimax_exact : forall s cs rest,
  cs <> [] -> digits_ok cs -> stops rest ->
  let v := if is_neg s then - num cs else num cs in
  if StrtoxProofs.in_imax v
  then strtoimax_lim (sign_prefix s ++ cs ++ rest)
       = (match rest with [] => SOk | _ => SExtra end, zlen (sign_prefix s ++ cs), v)
  else exists p, strtoimax_lim (sign_prefix s ++ cs ++ rest) = (SRange, p, 0).
Proof. exact strtoimax_exact. Qed.
Print Assumptions C16_strtoimax_exact.

Theorem C16_strtol_exact : forall s cs rest,
  cs <> [] -> digits_ok cs -> stops rest ->
  let v := if is_neg s then - num cs else num cs in
  if StrtoxProofs.in_imax v
  then strtol_lim (sign_prefix s ++ cs ++ rest)
       = (match rest with [] => SOk | _ => SExtra end, zlen (sign_prefix s ++ cs), v)
  else exists p, strtol_lim (sign_prefix s ++ cs ++ rest) = (SRange, p, 0).
Proof. exact strtol_exact. Qed.
Print Assumptions C16_strtol_exact.

Theorem C16_strtoumax_exact : forall (plus : bool) cs rest,
  cs <> [] -> digits_ok cs -> stops rest ->
  let pre := if plus then [43] else [] in
  if num cs <? two64
  then strtoumax_lim (pre ++ cs ++ rest)
       = (match rest with [] => SOk | _ => SExtra end, zlen (pre ++ cs), num cs)
  else exists p, strtoumax_lim (pre ++ cs ++ rest) = (SRange, p, 0).
Proof. exact strtoumax_exact. Qed.
Print Assumptions C16_strtoumax_exact.

Theorem C16_strtoul_exact : forall (plus : bool) cs rest,
  cs <> [] -> digits_ok cs -> stops rest ->
  let pre := if plus then [43] else [] in
  if num cs <? two64
  then strtoul_lim (pre ++ cs ++ rest)
       = (match rest with [] => SOk | _ => SExtra end, zlen (pre ++ cs), num cs)
  else exists p, strtoul_lim (pre ++ cs ++ rest) = (SRange, p, 0).
Proof. exact strtoul_exact. Qed.
Print Assumptions C16_strtoul_exact.

(* ======================================================================== *)
(* REAL <-> double (model: Leaf/RealConv.v).  A double is its 64-bit pattern d:
   sign d / 2^63, biased exponent d_exp d = (d / 2^52) mod 2^11, fraction
   d_frac d = d mod 2^52.  The ISO 6093 text form (strtod) is not modelled. *)

(* -- every normal double (any sign, any fraction) comes back bit for bit -- *)
Theorem C16_real_roundtrip_normal : forall d,
  0 <= d < two64 /\ 1 <= d_exp d <= 2046 -> REAL2double (double2REAL d) = ROk d.
Proof. exact real_roundtrip_normal. Qed.
Print Assumptions C16_real_roundtrip_normal.

(* -- zeros and infinities of both signs, and their stored octets -- *)
Theorem C16_real_roundtrip_specials :
  REAL2double (double2REAL 0) = ROk 0 /\
  REAL2double (double2REAL neg_zero_bits) = ROk neg_zero_bits /\
  REAL2double (double2REAL pos_inf_bits) = ROk pos_inf_bits /\
  REAL2double (double2REAL neg_inf_bits) = ROk neg_inf_bits /\
  double2REAL 0 = [] /\ double2REAL neg_zero_bits = [67] /\
  double2REAL pos_inf_bits = [64] /\ double2REAL neg_inf_bits = [65].
Proof. exact real_roundtrip_specials. Qed.
Print Assumptions C16_real_roundtrip_specials.

(* -- every NaN bit pattern is stored as NOT-A-NUMBER and read back as a NaN -- *)
Theorem C16_real_roundtrip_nan : forall d, 0 <= d < two64 -> is_nan d = true ->
  double2REAL d = [66] /\ REAL2double (double2REAL d) = RNaN.
Proof. exact real_roundtrip_nan. Qed.
Print Assumptions C16_real_roundtrip_nan.

(* -- every subnormal double comes back bit for bit (no hidden bit is added) -- *)
Theorem C16_real_roundtrip_subnormal : forall d,
  0 <= d < two64 /\ d_exp d = 0 /\ d_frac d <> 0 -> REAL2double (double2REAL d) = ROk d.
Proof. exact real_roundtrip_subnormal. Qed.
Print Assumptions C16_real_roundtrip_subnormal.

(* -- the full round trip, for all 2^64 bit patterns -- *)
Theorem C16_real_roundtrip : forall d, 0 <= d < two64 ->
  REAL2double (double2REAL d) = if is_nan d then RNaN else ROk d.
Proof. exact real_roundtrip. Qed.
Print Assumptions C16_real_roundtrip.

(* -- DER form (X.690 8.5, 11.3: base 2, F = 0, minimal exponent octets with the
      matching length code, odd mantissa in the fewest octets), for all 2^64
      bit patterns -- *)
Theorem C16_real_der_form : forall d, 0 <= d < two64 ->
  der_real_form (double2REAL d) = true.
Proof. exact real_der_form. Qed.
Print Assumptions C16_real_der_form.

(* -- the written (sign, N, E) denotes exactly the double:
      N * 2^E = (2^52 + f) * 2^(e - 1075), N odd -- *)
Theorem C16_real_value_exact : forall d, 0 <= d < two64 /\ 1 <= d_exp d <= 2046 ->
  exists N E, real_value (double2REAL d) = Some (d_sign d, N, E) /\
              d_exp d - 1075 <= E /\ N mod 2 = 1 /\
              N * 2 ^ (E - (d_exp d - 1075)) = two52 + d_frac d.
Proof. exact real_value_exact. Qed.
Print Assumptions C16_real_value_exact.

(* -- subnormals: N * 2^E = f * 2^-1074, N odd -- *)
Theorem C16_real_value_exact_subnormal : forall d,
  0 <= d < two64 /\ d_exp d = 0 /\ d_frac d <> 0 ->
  exists N E, real_value (double2REAL d) = Some (d_sign d, N, E) /\
              -1074 <= E /\ N mod 2 = 1 /\
              N * 2 ^ (E + 1074) = d_frac d.
Proof. exact real_value_exact_subnormal. Qed.
Print Assumptions C16_real_value_exact_subnormal.
