(* Properties_C18.v — open types governed by an information object set (filled in with the proofs). *)
From Coq Require Import ZArith List Bool.
From A1 Require Import Rt.Types Rt.OpenType.
