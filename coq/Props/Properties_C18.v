(* Properties_C18.v — open types governed by an information object set.
   Model: coq/Rt/OpenType.v (the generated selector, the table the compiler emits
   for an object set, DER encoder and BER decoder of a SEQUENCE { identifier,
   open-type members }), on top of coq/Rt/Der.v; tied to the C by checks/c18.py.
   What is stated here (unbounded over tables, identifiers, row types of the
   modelled algebra, values, trailing bytes):
   - the selector returns a row whose identifier cell compares equal, the first one;
     with pairwise distinct identifier cells exactly the row the set pairs with the
     value, and None iff no row has it;
   - decoding the DER of a frame whose open-type values belong to the selected row
     returns the identifier, that row and the same values (open-type members with
     or without a tag of their own);
   - an identifier without a row fails; bytes the selected row's type does not decode
     fail, no other row is tried; whatever is accepted was decoded by the selected
     row's type and carries its presence index;
   - the table the compiler emits is the set as written for INTEGER identifiers and
     no element set made of one object alone — refuted for OBJECT IDENTIFIER
     identifiers and for a lone object (known findings). *)
From Coq Require Import ZArith List Bool.
From A1 Require Import Base.Bytes Leaf.BerTL Rt.Types Rt.Comb Rt.Der Rt.DerProofs Rt.OpenType Rt.OpenTypeProofs.
Import ListNotations.
Local Open Scope Z_scope.

Theorem C18_select_sound : forall tbl v i tys, select tbl v = Some (i, tys) ->
  exists r, nth_error tbl i = Some r /\ id_eqb v (fst r) = true /\ snd r = tys /\
            (forall j' r', (j' < i)%nat -> nth_error tbl j' = Some r' -> id_eqb v (fst r') = false).
Proof. exact select_sound. Qed.
Print Assumptions C18_select_sound.

Theorem C18_select_paired : forall tbl v, ids_distinct tbl ->
  (forall i r, nth_error tbl i = Some r -> id_eqb v (fst r) = true -> select tbl v = Some (i, snd r)) /\
  (select tbl v = None <-> (forall r, In r tbl -> id_eqb v (fst r) = false)).
Proof. exact select_paired. Qed.
Print Assumptions C18_select_paired.

Theorem C18_opentype_roundtrip : forall f idv i tys vs bs rest,
  wf_ty (f_idt f) = true -> not_opt (f_idt f) = true -> wt (f_idt f) idv = true ->
  tags_ok (f_opens f) = true ->
  select (f_tbl f) idv = Some (i, tys) -> opens_ok tys vs = true ->
  der_frame f (idv, with_row i vs) = Some bs -> zlen bs <= rssize_max ->
  ber_dec_frame f (bs ++ rest) = Some ((idv, with_row i vs), rest).
Proof. exact opentype_roundtrip. Qed.
Print Assumptions C18_opentype_roundtrip.

Theorem C18_unknown_identifier_fails : forall f c idv r,
  f_opens f <> [] -> ber_dec (f_idt f) c = Some (idv, r) -> select (f_tbl f) idv = None ->
  dec_frame_body f c = None.
Proof. exact opentype_unknown_id_fails. Qed.
Print Assumptions C18_unknown_identifier_fails.

Theorem C18_opentype_mismatch_fails : forall f c idv r i t tys tag tags,
  f_opens f = tag :: tags -> ber_dec (f_idt f) c = Some (idv, r) ->
  select (f_tbl f) idv = Some (i, t :: tys) -> dec_open tag t r = None ->
  dec_frame_body f c = None.
Proof. exact opentype_mismatch_fails. Qed.
Print Assumptions C18_opentype_mismatch_fails.

Theorem C18_opentype_decodes_paired : forall f bs idv ovs rest,
  f_opens f <> [] -> ber_dec_frame f bs = Some ((idv, ovs), rest) ->
  exists i tys c r, select (f_tbl f) idv = Some (i, tys) /\
    ber_dec (f_idt f) c = Some (idv, r) /\
    length ovs = length (f_opens f) /\ Forall (fun ov => fst ov = i) ovs /\
    (forall tag tags, f_opens f = tag :: tags ->
       exists t tys' v ovs' r', tys = t :: tys' /\ ovs = (i, v) :: ovs' /\ dec_open tag t r = Some (v, r')).
Proof. exact opentype_decodes_paired. Qed.
Print Assumptions C18_opentype_decodes_paired.

Theorem C18_compile_table_partial : forall s,
  Forall (fun g => length g <> 1%nat) s -> Forall (fun r => exists z, fst r = VInt z) (concat s) ->
  compile_table s = spec_table s.
Proof. exact compile_table_partial. Qed.
Print Assumptions C18_compile_table_partial.

Theorem C18_oid_identifier_refuted :
  exists s v, select (spec_table s) v <> None /\ select (compile_table s) v = None.
Proof. exact oid_identifier_refuted. Qed.
Print Assumptions C18_oid_identifier_refuted.

Theorem C18_oid_empty_selects_refuted :
  exists s, select (spec_table s) (VOct []) = None /\ select (compile_table s) (VOct []) <> None.
Proof. exact oid_empty_selects_refuted. Qed.
Print Assumptions C18_oid_empty_selects_refuted.

Theorem C18_lone_object_refuted :
  exists s v, select (spec_table s) v <> None /\ select (compile_table s) v = None.
Proof. exact lone_object_refuted. Qed.
Print Assumptions C18_lone_object_refuted.
