(* Properties_C18.v — open types governed by an information object set.
   Model: coq/Rt/OpenType.v (the generated selector, the table the compiler emits
   for an object set, DER encoder and BER decoder of a SEQUENCE { identifier,
   open-type members }), on top of coq/Rt/Der.v; tied to the C by checks/c18.py.
   What is stated here (unbounded over tables, identifiers, row types of the
   modelled algebra, values, trailing bytes):
   - the selector returns a row whose identifier cell compares equal, the first one;
     with pairwise distinct identifier cells exactly the row the set pairs with the
     value, and None iff no row has it;
   - decoding the DER of a frame whose open-type values belong to the selected row
     returns the identifier, that row and the same values (open-type members with
     or without a tag of their own);
   - an identifier without a row fails; bytes the selected row's type does not decode
     fail, no other row is tried; whatever is accepted was decoded by the selected
     row's type and carries its presence index;
   - the table the compiler emits is the set as written for INTEGER identifiers and
     no element set made of one object alone — refuted for OBJECT IDENTIFIER
     identifiers and for a lone object (known findings);
   - the REPRESENTATION of identifier cells (Rt/OpenTypeCell.v): the minimal
     two's-complement octets of an identifier denote it, for every integer; the
     compiler's INTEGER_t emitter (-fwide-types) yields exactly these octets, and
     yields something exactly on 0..32767; INTEGER_compare == 0 on two non-empty
     INTEGER_t is equality of the integers they denote; the selector over octet cells
     that denote the identifiers, given any octets denoting the decoded identifier, is
     the selector over the abstract cells, so
     the emitted INTEGER_t table resolves like the set as written and the frame
     decoders over it are the abstract ones; a cell one octet short loses its row
     and answers to another identifier (witness);
   - the table as a MATRIX over a class of ANY shape (Rt/OpenTypeMatrix.v: n fields in class order,
     identifier column ic, member column fc, objects as written setting any subset of the fields):
     the dense emission has rows x columns cells and cell (r, c) is field c of object r (None when
     unset); the generated selector, which indexes the flat array as rows[row * columns + column],
     is the selection on the set as written; for objects that set the identifier and the members'
     type fields it is OpenType.select on the table of the set as written, so every frame theorem
     above transfers to every class shape; an emission that skips unset cells under the same header
     (seeded change C18-4) refuses a row, answers with the wrong presence index, or walks beyond
     the array (witnesses) and cannot be told from the dense one when every object sets every
     field; presence_index = row + 1 is the alternative of the row only if every object sets the
     member's field (in general: the number of earlier rows that set it; witness = known finding);
     a set with references to other sets keeps every object only if it has nothing but references
     (witness for the mixed case = known finding). *)
From Coq Require Import ZArith List Bool.
From A1 Require Import Base.Bytes Leaf.BerTL Rt.Types Rt.Comb Rt.Der Rt.DerProofs Rt.Uper Rt.OpenType Rt.OpenTypeProofs Rt.OpenTypeCell Rt.OpenTypeCellProofs Rt.OpenTypeMatrix Rt.OpenTypeMatrixProofs Rt.UperCounted Rt.Oer Rt.OpenTypeFrame Rt.OpenTypeFrameProofs Rt.OpenTypeContainer Rt.OpenTypeContainerProofs.
Import ListNotations.
Local Open Scope Z_scope.

Theorem C18_select_sound : forall tbl v i tys, select tbl v = Some (i, tys) ->
  exists r, nth_error tbl i = Some r /\ id_eqb v (fst r) = true /\ snd r = tys /\
            (forall j' r', (j' < i)%nat -> nth_error tbl j' = Some r' -> id_eqb v (fst r') = false).
Proof. exact select_sound. Qed.
Print Assumptions C18_select_sound.

Theorem C18_select_paired : forall tbl v, ids_distinct tbl ->
  (forall i r, nth_error tbl i = Some r -> id_eqb v (fst r) = true -> select tbl v = Some (i, snd r)) /\
  (select tbl v = None <-> (forall r, In r tbl -> id_eqb v (fst r) = false)).
Proof. exact select_paired. Qed.
Print Assumptions C18_select_paired.

Theorem C18_opentype_roundtrip : forall f idv i tys vs bs rest,
  wf_ty (f_idt f) = true -> not_opt (f_idt f) = true -> wt (f_idt f) idv = true ->
  tags_ok (f_opens f) = true ->
  select (f_tbl f) idv = Some (i, tys) -> opens_ok tys vs = true ->
  der_frame f (idv, with_row i vs) = Some bs -> zlen bs <= rssize_max ->
  ber_dec_frame f (bs ++ rest) = Some ((idv, with_row i vs), rest).
Proof. exact opentype_roundtrip. Qed.
Print Assumptions C18_opentype_roundtrip.

Theorem C18_unknown_identifier_fails : forall f c idv r,
  f_opens f <> [] -> ber_dec (f_idt f) c = Some (idv, r) -> select (f_tbl f) idv = None ->
  dec_frame_body f c = None.
Proof. exact opentype_unknown_id_fails. Qed.
Print Assumptions C18_unknown_identifier_fails.

Theorem C18_opentype_mismatch_fails : forall f c idv r i t tys tag tags,
  f_opens f = tag :: tags -> ber_dec (f_idt f) c = Some (idv, r) ->
  select (f_tbl f) idv = Some (i, t :: tys) -> dec_open tag t r = None ->
  dec_frame_body f c = None.
Proof. exact opentype_mismatch_fails. Qed.
Print Assumptions C18_opentype_mismatch_fails.

Theorem C18_opentype_decodes_paired : forall f bs idv ovs rest,
  f_opens f <> [] -> ber_dec_frame f bs = Some ((idv, ovs), rest) ->
  exists i tys c r, select (f_tbl f) idv = Some (i, tys) /\
    ber_dec (f_idt f) c = Some (idv, r) /\
    length ovs = length (f_opens f) /\ Forall (fun ov => fst ov = i) ovs /\
    (forall tag tags, f_opens f = tag :: tags ->
       exists t tys' v ovs' r', tys = t :: tys' /\ ovs = (i, v) :: ovs' /\ dec_open tag t r = Some (v, r')).
Proof. exact opentype_decodes_paired. Qed.
Print Assumptions C18_opentype_decodes_paired.

Theorem C18_compile_table_partial : forall s,
  Forall (fun g => length g <> 1%nat) s -> Forall (fun r => exists z, fst r = VInt z) (concat s) ->
  compile_table s = spec_table s.
Proof. exact compile_table_partial. Qed.
Print Assumptions C18_compile_table_partial.

Theorem C18_oid_identifier_refuted :
  exists s v, select (spec_table s) v <> None /\ select (compile_table s) v = None.
Proof. exact oid_identifier_refuted. Qed.
Print Assumptions C18_oid_identifier_refuted.

Theorem C18_oid_empty_selects_refuted :
  exists s, select (spec_table s) (VOct []) = None /\ select (compile_table s) (VOct []) <> None.
Proof. exact oid_empty_selects_refuted. Qed.
Print Assumptions C18_oid_empty_selects_refuted.

Theorem C18_lone_object_refuted :
  exists s v, select (spec_table s) v <> None /\ select (compile_table s) v = None.
Proof. exact lone_object_refuted. Qed.
Print Assumptions C18_lone_object_refuted.

(* ---------------- identifier cells as emitted ---------------- *)

Theorem C18_cell_octets_denotes : forall z,
  twos_value (cell_octets z) = z /\ minimal_twos (cell_octets z) = true /\
  bytes_ok (cell_octets z) /\ cell_octets z <> [].
Proof. exact cell_octets_denotes. Qed.
Print Assumptions C18_cell_octets_denotes.

Theorem C18_emit_wide_cell_exact : forall z bs, emit_wide_cell z = Some bs -> bs = cell_octets z.
Proof. exact emit_wide_cell_exact. Qed.
Print Assumptions C18_emit_wide_cell_exact.

Theorem C18_emit_wide_cell_domain : forall z, emit_wide_cell z = None <-> (z < 0 \/ 32767 < z).
Proof. exact emit_wide_cell_domain. Qed.
Print Assumptions C18_emit_wide_cell_domain.

Theorem C18_octets_eqb_value : forall a b, bytes_ok a -> bytes_ok b -> a <> [] -> b <> [] ->
  (octets_eqb a b = true <-> twos_value a = twos_value b).
Proof. exact octets_eqb_value. Qed.
Print Assumptions C18_octets_eqb_value.

Theorem C18_select_denoting : forall etbl tbl key, cells_denote etbl tbl -> bytes_ok key -> key <> [] ->
  select_octets etbl key = select tbl (VInt (twos_value key)).
Proof. exact select_denoting. Qed.
Print Assumptions C18_select_denoting.

Theorem C18_select_encoded : forall tbl z, int_cells tbl ->
  select_rep RWide (encode_table tbl) (VInt z) = select tbl (VInt z).
Proof. exact select_encoded. Qed.
Print Assumptions C18_select_encoded.

Theorem C18_emit_table_wide_partial : forall s t,
  Forall (fun g => length g <> 1%nat) s -> int_cells (concat s) ->
  emit_table RWide s = Some t ->
  t = encode_table (spec_table s) /\
  forall z, select_rep RWide t (VInt z) = select (spec_table s) (VInt z).
Proof. exact emit_table_wide_partial. Qed.
Print Assumptions C18_emit_table_wide_partial.

Theorem C18_emit_rows_wide_domain : forall tbl, int_cells tbl ->
  (emit_rows RWide tbl <> None <-> Forall (fun r => exists z, fst r = VInt z /\ 0 <= z <= 32767) tbl).
Proof. exact emit_rows_wide_domain. Qed.
Print Assumptions C18_emit_rows_wide_domain.

Theorem C18_wide_ber_frame_equiv : forall idt opens tbl bs, int_cells tbl -> int_ty idt = true ->
  ber_dec_frame_rep RWide (Frame idt opens (encode_table tbl)) bs = ber_dec_frame (Frame idt opens tbl) bs.
Proof. exact wide_ber_frame_equiv. Qed.
Print Assumptions C18_wide_ber_frame_equiv.

Theorem C18_wide_uper_frame_equiv : forall tg c opens tbl bs, int_cells tbl ->
  uper_dec_frame_rep RWide (Frame (TInt tg c) opens (encode_table tbl)) bs =
  uper_dec_frame (Frame (TInt tg c) opens tbl) bs.
Proof. exact wide_uper_frame_equiv_int. Qed.
Print Assumptions C18_wide_uper_frame_equiv.

Theorem C18_wide_encoders_equiv : forall idt opens tbl fv,
  der_frame (Frame idt opens (encode_table tbl)) fv = der_frame (Frame idt opens tbl) fv /\
  uper_frame (Frame idt opens (encode_table tbl)) fv = uper_frame (Frame idt opens tbl) fv.
Proof. intros. split; [apply der_frame_encoded|apply uper_frame_encoded]. Qed.
Print Assumptions C18_wide_encoders_equiv.

Theorem C18_short_cell_refuted :
  exists z bs t, emit_wide_cell_short z = Some bs /\
    select_rep RWide [(VOct bs, [t])] (VInt z) = None /\
    select_rep RWide [(VOct bs, [t])] (VInt (z - 256)) <> None /\
    select_rep RWide (encode_table [(VInt z, [t])]) (VInt z) <> None /\
    select_rep RWide (encode_table [(VInt z, [t])]) (VInt (z - 256)) = None.
Proof. exact short_cell_refuted. Qed.
Print Assumptions C18_short_cell_refuted.

(* ---------------- round 3: the table as a matrix over any class shape ---------------- *)
Local Open Scope nat_scope.

Theorem C18_matrix_shape : forall (A : Type) n (objs : list (obj A)),
  length (e_cells (emit_dense n objs)) = e_rows (emit_dense n objs) * n /\
  forall r c o, nth_error objs r = Some o -> c < n ->
    cell_at (emit_dense n objs) r c = Some (lookup c o).
Proof. intros. split; [apply cells_dense_length|apply cell_at_dense]. Qed.
Print Assumptions C18_matrix_shape.

Theorem C18_select_dense_written : forall (A : Type) (eq : A -> bool) n ic fc (objs : list (obj A)),
  ic < n -> fc < n ->
  select_flat eq (emit_dense n objs) ic fc = select_written eq ic fc objs 0.
Proof. exact select_dense_written. Qed.
Print Assumptions C18_select_dense_written.

Theorem C18_select_written_first : forall (A : Type) (eq : A -> bool) ic fc (objs : list (obj A)),
  (forall r tc, select_written eq ic fc objs 0 = SelRow r tc ->
     exists o idc, nth_error objs r = Some o /\ lookup ic o = Some idc /\ eq idc = true /\ tc = lookup fc o /\
       forall j o', j < r -> nth_error objs j = Some o' -> exists c', lookup ic o' = Some c' /\ eq c' = false) /\
  (select_written eq ic fc objs 0 = SelNone ->
     Forall (fun o => exists c, lookup ic o = Some c /\ eq c = false) objs) /\
  (Forall (fun o => lookup ic o <> None) objs -> select_written eq ic fc objs 0 <> SelStuck).
Proof.
  intros. repeat split.
  - intros r tc H. apply select_written_row in H.
    destruct H as (k & o & idc & -> & H). exists o, idc. exact H.
  - apply select_written_none.
  - apply select_written_defined.
Qed.
Print Assumptions C18_select_written_first.

Theorem C18_select_matrix_table : forall v n ic mcols j fc (objs : list (obj setting)) tbl,
  table_of ic mcols objs = Some tbl -> nth_error mcols j = Some fc -> ic < n -> fc < n ->
  select_flat (id_is v) (emit_dense n objs) ic fc
  = match select_col tbl v j with
    | Some (i, t) => SelRow i (Some (ST t))
    | None => SelNone
    end.
Proof. exact select_matrix_table. Qed.
Print Assumptions C18_select_matrix_table.

Theorem C18_emit_skip_complete : forall (A : Type) n (objs : list (obj A)),
  Forall (fun o => forall c, c < n -> lookup c o <> None) objs ->
  emit_skip n objs = emit_dense n objs.
Proof. exact emit_skip_complete. Qed.
Print Assumptions C18_emit_skip_complete.

Theorem C18_emit_skip_refused_refuted :
  exists n ic fc (objs : list (obj nat)) v,
    ic < n /\ fc < n /\
    select_written (Nat.eqb v) ic fc objs 0 = SelRow 1 (Some 12) /\
    select_flat (Nat.eqb v) (emit_skip n objs) ic fc = SelNone.
Proof. exact emit_skip_refused_refuted. Qed.
Print Assumptions C18_emit_skip_refused_refuted.

Theorem C18_emit_skip_wrong_row_refuted :
  exists n ic fc (objs : list (obj nat)) v,
    ic < n /\ fc < n /\
    select_written (Nat.eqb v) ic fc objs 0 = SelRow 4 (Some 15) /\
    select_flat (Nat.eqb v) (emit_skip n objs) ic fc = SelRow 3 (Some 15).
Proof. exact emit_skip_wrong_row_refuted. Qed.
Print Assumptions C18_emit_skip_wrong_row_refuted.

Theorem C18_emit_skip_out_of_bounds_refuted :
  exists n ic fc (objs : list (obj nat)) v,
    ic < n /\ fc < n /\
    select_written (Nat.eqb v) ic fc objs 0 = SelRow 2 (Some 13) /\
    select_flat (Nat.eqb v) (emit_skip n objs) ic fc = SelStuck /\
    length (e_cells (emit_skip n objs)) < e_rows (emit_skip n objs) * e_cols (emit_skip n objs).
Proof. exact emit_skip_out_of_bounds_refuted. Qed.
Print Assumptions C18_emit_skip_out_of_bounds_refuted.

Theorem C18_presence_alternative_partial : forall (A : Type) fc (objs : list (obj A)) r o,
  Forall (fun o => lookup fc o <> None) objs ->
  nth_error objs r = Some o -> nth_error (alts fc objs) r = lookup fc o.
Proof. exact alts_complete. Qed.
Print Assumptions C18_presence_alternative_partial.

Theorem C18_presence_alternative_counted : forall (A : Type) fc (objs : list (obj A)) r o s,
  nth_error objs r = Some o -> lookup fc o = Some s ->
  nth_error (alts fc objs) (count_set fc (firstn r objs)) = Some s.
Proof. exact alts_counted. Qed.
Print Assumptions C18_presence_alternative_counted.

Theorem C18_presence_row_plus_one_refuted :
  exists fc (objs : list (obj nat)) r o t,
    nth_error objs r = Some o /\ lookup fc o = Some t /\
    nth_error (alts fc objs) r <> Some t /\
    nth_error (alts fc objs) (count_set fc (firstn r objs)) = Some t.
Proof. exact presence_row_plus_one_refuted. Qed.
Print Assumptions C18_presence_row_plus_one_refuted.

Theorem C18_compile_objs_partial : forall (A : Type) (s : eset A),
  (has_ref s = false -> Forall (fun g => length g <> 1) s -> compile_objs s = spec_objs s) /\
  (has_ref s = true -> Forall (Forall (ref_faithful A)) s -> compile_objs s = spec_objs s).
Proof. intros. split; [apply compile_objs_partial|apply compile_objs_refs]. Qed.
Print Assumptions C18_compile_objs_partial.

Theorem C18_compile_objs_mixed_refuted :
  exists (s : eset nat), compile_objs s <> spec_objs s /\ exists o, In o (spec_objs s) /\ ~ In o (compile_objs s).
Proof. exact compile_objs_mixed_refuted. Qed.
Print Assumptions C18_compile_objs_mixed_refuted.

(* ---------------- round 4: the governing SEQUENCE of any shape (Rt/OpenTypeFrame.v) and the container of an
   open type (Rt/OpenTypeContainer.v).
   - the reference `{@r}` / `{@.r}` resolves to the member whose name EQUALS r: the first such member, THE member
     of that name when member names are distinct, at the position of r whatever the other members are called;
     no member of that name: no selector (the compiler refuses);
   - the generated selector of an open type is a function of the NAMED member alone (its class field's column and
     its value): frames that agree on that member select the same row whatever the other members hold;
   - the prefix look-up (strncmp up to the first dot; seeded change C18-8) is none of that: witnesses;
   - the UPER reader accepts a container exactly when the selected type decodes from it and at most 7 zero bits
     are left, or nothing was read and the container is one 00 octet: a container with a whole octet (or more)
     left over is rejected, for every type, container and continuation; the relaxed test (C18-9) accepts 00 00
     as NULL: witness;
   - the OER reader compares the inner decoder's `consumed` with the container (C18-fix-9; finding
     C18-oer-open-type-leftover, fixed): whatever it accepts used the container up, a container that is exactly one
     encoding of the selected type is accepted, and one the type decodes from with octets left over is refused,
     for every type and container (02 00 00 under a NULL row: refused). ---------------- *)

Theorem C18_reference_resolves_exact : forall (ms : list name) (r : name) (i : nat), find_name ms r = Some i ->
  nth_error ms i = Some r /\ (forall j, (j < i)%nat -> nth_error ms j <> Some r).
Proof. exact find_name_exact. Qed.
Print Assumptions C18_reference_resolves_exact.

Theorem C18_reference_unresolved : forall (ms : list name) (r : name), find_name ms r = None <-> ~ In r ms.
Proof. exact find_name_none. Qed.
Print Assumptions C18_reference_unresolved.

Theorem C18_reference_resolves_named : forall (ms : list name) (r : name) (i : nat),
  NoDup ms -> nth_error ms i = Some r -> find_name ms r = Some i.
Proof. exact find_name_nodup. Qed.
Print Assumptions C18_reference_resolves_named.

Theorem C18_reference_independent_of_other_names : forall (pre pre' post post' : list name) (r : name),
  ~ In r pre -> ~ In r pre' -> length pre = length pre' ->
  find_name (pre ++ r :: post) r = find_name (pre' ++ r :: post') r.
Proof. exact find_name_independent. Qed.
Print Assumptions C18_reference_independent_of_other_names.

Theorem C18_selector_reads_named_member : forall (ms : list member) (rows : list (list Z)) (s r : name) (i : nat) (m : member),
  ref_name s = Some r -> NoDup (map m_name ms) -> nth_error ms i = Some m -> m_name m = r ->
  select_named ms rows s = select_member m rows.
Proof. exact select_named_by_name. Qed.
Print Assumptions C18_selector_reads_named_member.

Theorem C18_selector_ignores_other_members : forall (ms ms' : list member) (rows : list (list Z)) (s r : name) (i : nat) (m : member),
  ref_name s = Some r -> map m_name ms = map m_name ms' -> NoDup (map m_name ms) ->
  nth_error ms i = Some m -> nth_error ms' i = Some m -> m_name m = r ->
  select_named ms rows s = select_named ms' rows s.
Proof. exact select_named_other_members. Qed.
Print Assumptions C18_selector_ignores_other_members.

Theorem C18_named_row_sound : forall (col : nat) (v : Z) (rows : list (list Z)) (i : nat), find_row col v rows = Some i ->
  exists r, nth_error rows i = Some r /\ nth_error r col = Some v /\
            (forall j rj, (j < i)%nat -> nth_error rows j = Some rj -> nth_error rj col <> Some v).
Proof. exact find_row_sound. Qed.
Print Assumptions C18_named_row_sound.

Theorem C18_prefix_lookup_refuted : exists (ms : list name) (r : name) (i : nat),
  NoDup ms /\ nth_error ms i = Some r /\ find_name ms r = Some i /\ find_prefix ms r <> Some i.
Proof. exact find_prefix_refuted. Qed.
Print Assumptions C18_prefix_lookup_refuted.

Theorem C18_prefix_selector_refuted : exists (ms : list member) (rows : list (list Z)) (s : name),
  NoDup (map m_name ms) /\ select_named ms rows s = Some 0%nat /\ select_named_prefix ms rows s = Some 1%nat.
Proof. exact select_named_prefix_refuted. Qed.
Print Assumptions C18_prefix_selector_refuted.

Theorem C18_dotted_reference_refuted : exists (ms : list name) (s : name),
  resolve_ref ms s = None /\ resolve_prefix ms s = Some 0%nat.
Proof. exact dotted_reference_refuted. Qed.
Print Assumptions C18_dotted_reference_refuted.

Theorem C18_uper_container_rule : forall (t : ty) (bytes : list Z) (rest : list bool), bytes_ok bytes ->
  uper_dec_open t (counted (map byte_bits bytes) ++ rest) =
  match uper_dec false t (bytes_bits bytes) with
  | Some (v, pad) => if container_ok (bytes_bits bytes) pad then Some (v, rest) else None
  | None => None
  end.
Proof. exact uper_dec_open_wire. Qed.
Print Assumptions C18_uper_container_rule.

Theorem C18_uper_container_longer_rejected : forall (t : ty) (bytes : list Z) (rest : list bool) (v : val) (pad : list bool),
  bytes_ok bytes -> uper_dec false t (bytes_bits bytes) = Some (v, pad) -> (8 <= length pad)%nat ->
  ~ (length pad = 8%nat /\ length bytes = 1%nat) ->
  uper_dec_open t (counted (map byte_bits bytes) ++ rest) = None.
Proof. exact uper_open_leftover_rejected. Qed.
Print Assumptions C18_uper_container_longer_rejected.

Theorem C18_uper_container_accepts_exhausted : forall (t : ty) (bytes : list Z) (rest : list bool) (v : val) (r : list bool),
  bytes_ok bytes -> uper_dec_open t (counted (map byte_bits bytes) ++ rest) = Some (v, r) ->
  r = rest /\ exists pad, uper_dec false t (bytes_bits bytes) = Some (v, pad) /\ pad = repeat false (length pad) /\
    ((length pad < 8)%nat \/ (length pad = 8%nat /\ length bytes = 1%nat)).
Proof. exact uper_open_accepts_exhausted. Qed.
Print Assumptions C18_uper_container_accepts_exhausted.

Theorem C18_container_exhausted : forall (ib pad : list bool) (n used : nat),
  length ib = (8 * n)%nat -> (used + length pad = 8 * n)%nat -> container_ok ib pad = true ->
  pad = repeat false (length pad) /\ ((8 * n < used + 8)%nat \/ (used = 0%nat /\ n = 1%nat)).
Proof. exact container_ok_exhausted. Qed.
Print Assumptions C18_container_exhausted.

Theorem C18_container_zero_bit_type : forall (ib : list bool) (n : nat),
  length ib = (8 * n)%nat -> (2 <= n)%nat -> container_ok ib ib = false.
Proof. exact container_zero_bit_type. Qed.
Print Assumptions C18_container_zero_bit_type.

Theorem C18_container_relaxed_refuted : exists (t : ty) (bytes : list Z) (v : val),
  bytes_ok bytes /\ length bytes = 2%nat /\
  uper_dec_open_with container_relaxed t (counted (map byte_bits bytes)) = Some (v, []) /\
  uper_dec_open t (counted (map byte_bits bytes)) = None.
Proof. exact container_relaxed_refuted. Qed.
Print Assumptions C18_container_relaxed_refuted.

Theorem C18_oer_container_exhausted : forall (t : ty) (bs : list Z) (v : val) (r : list Z), oer_dec_open t bs = Some (v, r) ->
  exists n c r0, oer_get_length bs = Some (n, r0) /\ take n r0 = Some (c, r) /\ oer_dec t c = Some (v, []).
Proof. exact oer_open_exhausts. Qed.
Print Assumptions C18_oer_container_exhausted.

Theorem C18_oer_container_exact_accepted : forall (t : ty) (bs : list Z) (n : Z) (c r0 r : list Z) (v : val),
  oer_get_length bs = Some (n, r0) -> take n r0 = Some (c, r) -> oer_dec t c = Some (v, []) ->
  oer_dec_open t bs = Some (v, r).
Proof. exact oer_open_accepts. Qed.
Print Assumptions C18_oer_container_exact_accepted.

Theorem C18_oer_container_leftover_rejected : forall (t : ty) (bs : list Z) (n : Z) (c r0 r : list Z) (v : val) (left : list Z),
  oer_get_length bs = Some (n, r0) -> take n r0 = Some (c, r) -> oer_dec t c = Some (v, left) -> left <> [] ->
  oer_dec_open t bs = None.
Proof. exact oer_open_leftover_rejected. Qed.
Print Assumptions C18_oer_container_leftover_rejected.

(* ---- round 5 (Rt/OpenTypeFrag.v): the loop of uper_open_type_put with its need_eom decision, contents of any length ---- *)
From A1 Require Import Rt.Ext Rt.OpenTypeFrag Rt.OpenTypeFragProofs.

Theorem C18_open_put_is_fragments : forall c : list Z, open_put_c c = open_type_spec c.
Proof. exact open_put_c_is_spec. Qed.
Print Assumptions C18_open_put_is_fragments.

Theorem C18_open_put_is_counted : forall c : list Z, open_put_c c = counted (map byte_bits c).
Proof. exact open_put_c_is_counted. Qed.
Print Assumptions C18_open_put_is_counted.

Theorem C18_uper_open_is_open_put : forall (t : ty) (v : val), uper_open t v =
  match uper_encode false t v with Some bytes => Some (open_put_c bytes) | None => None end.
Proof. exact uper_open_is_open_put. Qed.
Print Assumptions C18_uper_open_is_open_put.

Theorem C18_open_put_exact_multiple : forall (eom : eom_rule) (c : list Z) (m : Z), 1 <= m <= 4 -> zlen c = m * 16384 ->
  open_put eom (S (length c)) c =
  nbits 8 (192 + m) ++ bytes_bits c ++ (if eom 0 (m * 16384) true then nbits 8 0 else []).
Proof. exact open_put_exact. Qed.
Print Assumptions C18_open_put_exact_multiple.

Theorem C18_eom_only_after_64k_short : forall (c : list Z) (m : Z), 1 <= m <= 3 -> zlen c = m * 16384 ->
  open_put_c c = open_put_64k c ++ nbits 8 0.
Proof. exact open_put_64k_short. Qed.
Print Assumptions C18_eom_only_after_64k_short.

Theorem C18_eom_only_after_64k_differs : forall (c : list Z) (m : Z), 1 <= m <= 3 -> zlen c = m * 16384 ->
  open_put_64k c <> open_type_spec c.
Proof. exact open_put_64k_differs. Qed.
Print Assumptions C18_eom_only_after_64k_differs.

Theorem C18_eom_only_after_64k_same_at_64k : forall c : list Z, zlen c = 65536 -> open_put_64k c = open_put_c c.
Proof. exact open_put_64k_same_at_64k. Qed.
Print Assumptions C18_eom_only_after_64k_same_at_64k.

Theorem C18_open_put_reassembles : forall (c : list Z) (r : list bool), bytes_ok c ->
  get_open_bytes (open_put_c c ++ r) = Some (c, r).
Proof. exact open_put_c_reassembles. Qed.
Print Assumptions C18_open_put_reassembles.

Theorem C18_eom_only_after_64k_starves : forall (c : list Z) (m : Z), 1 <= m <= 3 -> zlen c = m * 16384 -> bytes_ok c ->
  get_open_bytes (open_put_64k c) = None.
Proof. exact open_put_64k_starves. Qed.
Print Assumptions C18_eom_only_after_64k_starves.
