(* Properties_C03.v — decoders accept every valid encoding (BER part, on the model).
   Spec: coq/Rt/BerVariants.v — [ber_var t oc v], the encoder of the family of
   alternative valid BER encodings of a value: the oracle [oc] (a tree mirroring
   the value) picks for every TLV the length form (minimal; long form with any
   number 1..126 of length octets, i.e. with leading zero octets; indefinite on
   constructed TLVs: SEQUENCE, SEQUENCE OF, SET OF, EXPLICIT tag wrappers) and for
   every SET OF the order in which the elements are written.
   Decoder: coq/Rt/Der.v [ber_dec]/[ber_decode], the reference BER decoder the C is
   compared with by checks/c03.py (which also compares [ber_var] with an independent
   re-encoder, byte for byte).
   Stated here:
   - ber_fetch_length (model of the C) reads every long form with leading zeros back;
     side conditions derived from the model's loop: at most 126 length octets, the
     value fits them, value <= RSSIZE_MAX;
   - ber_complete: for every well-formed type, well-typed value and EVERY oracle the
     reference decoder returns the value (SET OF: elements in the order written, i.e.
     the same value up to SET OF order) and consumes exactly the encoding;
   - every permutation of SET OF elements is denoted by some oracle;
   - DER is the member of the family with the canonical choices;
   - (later rounds, below) tag-to-member maps, OER length determinants in every form, and
     the XER text reader: every legal spelling of every character is read as that character.
   Not modelled in Coq (tie only, see notes/design/C03.md): constructed OCTET STRINGs,
   UPER/OER/XER variants, and the C's ber_check_tags chain rule (the reference decoder
   accepts mixed chains; the C does not: finding C03-ber-chain-mixed-lengths). *)
From Coq Require Import ZArith List Bool Permutation.
From A1 Require Import Base.Bytes Leaf.BerTL Leaf.BerTLProofs Rt.Types Rt.Comb Rt.Der Rt.DerProofs
  Rt.BerVariants Rt.BerVariantsProofs.
Import ListNotations.
Local Open Scope Z_scope.

Theorem C03_long_form_length_read_back : forall n len rest c,
  long_ok n len = true -> 0 <= len <= rssize_max ->
  fetch_length c ((128 + Z.of_nat n) :: be_bytes n len ++ rest) = FOk len (S n).
Proof. exact fetch_length_long. Qed.
Print Assumptions C03_long_form_length_read_back.

Theorem C03_any_length_form_read_back : forall lf len rest c, 0 <= len <= rssize_max ->
  fetch_length c (len_var lf len ++ rest) = FOk len (length (len_var lf len)).
Proof. exact fetch_length_var. Qed.
Print Assumptions C03_any_length_form_read_back.

(* in a stream: whatever follows is left untouched; the value comes back up to SET OF order *)
Theorem C03_ber_complete_stream : forall t oc v bs rest,
  wf_ty t = true -> not_opt t = true -> wt0 t v = true ->
  ber_var t oc v = Some bs -> zlen bs <= rssize_max ->
  ber_dec t (bs ++ rest) = Some (var_val t oc v, rest) /\ veq t v (var_val t oc v).
Proof. exact ber_complete. Qed.
Print Assumptions C03_ber_complete_stream.

(* what asn_decode reports: RC_OK, the value, the full length consumed *)
Theorem C03_ber_complete : forall t oc v bs,
  wf_ty t = true -> not_opt t = true -> wt0 t v = true ->
  ber_variant oc t v = Some bs -> zlen bs <= rssize_max ->
  ber_decode t bs = Some (var_val t oc v, zlen bs).
Proof. exact ber_complete_decode. Qed.
Print Assumptions C03_ber_complete.

(* the values the C can hold (DerProofs.wt) are well typed in the sense used above *)
Theorem C03_wt_values : forall t v, wt t v = true -> wt0 t v = true.
Proof. exact wt_wt0. Qed.
Print Assumptions C03_wt_values.

(* the oracle reaches every order of the elements of a SET OF, and only orders *)
Theorem C03_setof_every_order : forall (A : Type) (l l' : list A),
  Permutation l l' -> exists p, permute p l = l'.
Proof. exact @permute_complete. Qed.
Print Assumptions C03_setof_every_order.

Theorem C03_setof_only_orders : forall (A : Type) p (l : list A), Permutation l (permute p l).
Proof. exact @permute_perm. Qed.
Print Assumptions C03_setof_only_orders.

(* DER is the variant with the canonical choices, and it decodes to the value itself *)
Theorem C03_der_is_canonical_variant : forall t v, wt t v = true -> ber_var t ch_canon v = der t v.
Proof. exact ber_var_canon. Qed.
Print Assumptions C03_der_is_canonical_variant.

Theorem C03_canonical_choices_keep_value : forall t v, var_val t ch_canon v = v.
Proof. exact var_val_canon. Qed.
Print Assumptions C03_canonical_choices_keep_value.

(* ===================================================================== *)
(* Extensibility layer (coq/Rt/Ext.v, ExtProofs.v; notes/design/EXT.md): valid encodings from OTHER versions
   of an extensible SEQUENCE.  An encoding produced for a prefix type (the first additions [known]) decodes under
   the full type (additions [known ++ more]) to the value with the remaining additions absent: the presence
   bitmap (OER) / the addition count (UPER) is shorter than the reader's list, the missing bits mean absent. *)
From A1 Require Import Rt.Uper Rt.Oer Rt.Ext Rt.ExtFormat Rt.ExtProofs.

Theorem C03_ext_uper_older_sender : forall std tg root known more rvs avs bits rest,
  wf_ety_uper (ESeq tg root known) = true -> wt_ety_uper std (ESeq tg root known) (EVSeq rvs avs) ->
  ext_uper std (ESeq tg root known) (EVSeq rvs avs) = Some bits ->
  ext_uper_dec std (ESeq tg root (known ++ more)) (bits ++ rest) = Some (EVSeq rvs (avs ++ absent_all more), rest).
Proof. exact ext_uper_seq_bwd. Qed.
Print Assumptions C03_ext_uper_older_sender.

Theorem C03_ext_oer_older_sender : forall tg root known more rvs avs bs rest,
  wf_ety_oer (ESeq tg root known) = true -> wt_ety_oer (ESeq tg root known) (EVSeq rvs avs) ->
  ext_oer (ESeq tg root known) (EVSeq rvs avs) = Some bs ->
  ext_oer_dec (ESeq tg root (known ++ more)) (bs ++ rest) = Some (EVSeq rvs (avs ++ absent_all more), rest).
Proof. exact ext_oer_seq_bwd. Qed.
Print Assumptions C03_ext_oer_older_sender.

Theorem C03_ext_ber_older_sender : forall tg root known more rvs avs bs rest,
  wf_ety_der (ESeq tg root known) = true -> wt_ety_der (ESeq tg root known) (EVSeq rvs avs) = true ->
  ext_der (ESeq tg root known) (EVSeq rvs avs) = Some bs -> zlen bs <= rssize_max ->
  ext_ber_dec (ESeq tg root (known ++ more)) (bs ++ rest) = Some (EVSeq rvs (avs ++ absent_all more), rest).
Proof. exact ext_ber_seq_bwd. Qed.
Print Assumptions C03_ext_ber_older_sender.

(* a NEWER sender: the additions the reader does not know are skipped, whatever their size, in all three
   syntaxes (UPER / OER: since the repairs of uper_open_type_skip / oer_open_type_skip) *)
Theorem C03_ext_ber_newer_sender : forall tg root adds rvs avs bs rest k,
  wf_ety_der (ESeq tg root adds) = true -> wt_ety_der (ESeq tg root adds) (EVSeq rvs avs) = true ->
  ext_der (ESeq tg root adds) (EVSeq rvs avs) = Some bs -> zlen bs <= rssize_max ->
  ext_ber_dec (ESeq tg root (firstn k adds)) (bs ++ rest) = Some (EVSeq rvs (firstn k avs), rest).
Proof. exact ext_ber_seq_fwd. Qed.
Print Assumptions C03_ext_ber_newer_sender.

Theorem C03_ext_uper_newer_sender : forall std tg root adds rvs avs bits rest k,
  wf_ety_uper (ESeq tg root adds) = true -> wt_ety_uper std (ESeq tg root adds) (EVSeq rvs avs) ->
  ext_uper std (ESeq tg root adds) (EVSeq rvs avs) = Some bits ->
  ext_uper_dec std (truncate_ty k (ESeq tg root adds)) (bits ++ rest) = Some (truncate_val k (EVSeq rvs avs), rest).
Proof. exact ext_uper_forward_compat. Qed.
Print Assumptions C03_ext_uper_newer_sender.

Theorem C03_ext_oer_newer_sender : forall tg root adds rvs avs bs rest k,
  wf_ety_oer (ESeq tg root adds) = true -> wt_ety_oer (ESeq tg root adds) (EVSeq rvs avs) ->
  ext_oer (ESeq tg root adds) (EVSeq rvs avs) = Some bs ->
  ext_oer_dec (truncate_ty k (ESeq tg root adds)) (bs ++ rest) = Some (truncate_val k (EVSeq rvs avs), rest).
Proof. exact ext_oer_forward_compat. Qed.
Print Assumptions C03_ext_oer_newer_sender.


(* ===================================================================== *)
(* Tag-to-member maps (coq/Rt/TagMap.v, TagMapProofs.v): the sorted table asn1c emits for every SEQUENCE, SET and
   CHOICE, searched by the BER decoders with bsearch().  For a SEQUENCE the comparison function accepts EVERY entry
   that carries the tag at or after the current member, so the library may return any of them; the decoder rewinds
   to the first entry with the tag (toff_first), scans to the last (toff_last), skips entries before the current
   member and stops beyond the members that may come next.  [wf_mapb] is what the compiler must emit (evaluated by
   checks/c03.py on every generated table); [sole_in_window] is X.680's distinct-tags rule for a run of OPTIONAL
   members and the member after it. *)
From Coq Require Import Arith.
From A1 Require Import Rt.TagMap Rt.TagMapProofs.

Theorem C03_bsearch_returns_an_accepted_entry : forall cmp m p, bsearch cmp m = Some p ->
  exists e, nth_error m p = Some e /\ cmp e = Eq.
Proof. exact bsearch_sound. Qed.
Print Assumptions C03_bsearch_returns_an_accepted_entry.

Theorem C03_bsearch_finds_an_accepted_entry : forall cmp m, mono cmp m ->
  (exists i e, nth_error m i = Some e /\ cmp e = Eq) -> exists p, bsearch cmp m = Some p.
Proof. exact bsearch_complete. Qed.
Print Assumptions C03_bsearch_finds_an_accepted_entry.

Theorem C03_sorted_map_is_ordered_for_sequence_keys : forall tag edx m, sortedb m = true -> mono (seq_cmp tag edx) m.
Proof. exact seq_cmp_mono. Qed.
Print Assumptions C03_sorted_map_is_ordered_for_sequence_keys.

Theorem C03_sorted_map_is_ordered_for_tag_keys : forall tag m, sortedb m = true -> mono (tag_only_cmp tag) m.
Proof. exact tag_only_cmp_mono. Qed.
Print Assumptions C03_sorted_map_is_ordered_for_tag_keys.

(* the rewind: from ANY entry with a tag, toff_first .. toff_last are all the entries with that tag *)
Theorem C03_tagmap_rewind_reaches_every_entry_of_the_tag : forall m p e, wf_mapb m = true -> nth_error m p = Some e ->
  slice m (Z.of_nat p + toff_first e) (Z.of_nat p + toff_last e) = Some (filter (same_tag e) m).
Proof. exact wf_slice. Qed.
Print Assumptions C03_tagmap_rewind_reaches_every_entry_of_the_tag.

(* every probe position gives the member the specification names *)
Theorem C03_tagmap_lookup_for_every_probe : forall m p e tag edx edx_max,
  wf_mapb m = true -> nth_error m p = Some e -> el_tag e = tag ->
  seq_pick m p edx edx_max = of_opt (spec_pick m tag edx edx_max).
Proof. exact seq_pick_any_probe. Qed.
Print Assumptions C03_tagmap_lookup_for_every_probe.

Theorem C03_tagmap_lookup_probe_independent : forall m p q e e' edx edx_max,
  wf_mapb m = true -> nth_error m p = Some e -> nth_error m q = Some e' -> el_tag e = el_tag e' ->
  seq_pick m p edx edx_max = seq_pick m q edx edx_max.
Proof. exact seq_pick_probe_independent. Qed.
Print Assumptions C03_tagmap_lookup_probe_independent.

(* ... and that member is the first one at or after edx that carries the tag *)
Theorem C03_tagmap_lookup_first_member : forall m tag edx edx_max k p e,
  wf_mapb m = true -> sole_in_window m tag edx edx_max k ->
  nth_error m p = Some e -> seq_cmp tag edx e = Eq ->
  seq_pick m p edx edx_max = PSome k.
Proof. exact seq_pick_first. Qed.
Print Assumptions C03_tagmap_lookup_first_member.

Theorem C03_tagmap_sole_member_is_the_first : forall m tag edx edx_max k, sole_in_window m tag edx edx_max k ->
  forall x, In x m -> el_tag x = tag -> (edx <= el_no x)%nat -> (k <= el_no x)%nat.
Proof. exact sole_is_first. Qed.
Print Assumptions C03_tagmap_sole_member_is_the_first.

(* the whole search of SEQUENCE_decode_ber: linear part over at most 8 members, then the map *)
Theorem C03_sequence_member_search : forall els m edx tag opt t0 k,
  wf_mapb m = true -> els_map_ok els m -> 0 <= tag ->
  nth_error els edx = Some (t0, opt) -> (k < length els)%nat ->
  sole_in_window m tag edx (edx + opt) k ->
  seq_find els m edx tag = Some k.
Proof. exact seq_find_correct. Qed.
Print Assumptions C03_sequence_member_search.

(* SET_decode_ber / CHOICE_decode_ber *)
Theorem C03_set_choice_member_search : forall m tag k,
  sortedb m = true -> (exists e, In e m /\ el_tag e = tag) ->
  (forall x, In x m -> el_tag x = tag -> el_no x = k) ->
  tag_find m tag = Some k.
Proof. exact tag_find_correct. Qed.
Print Assumptions C03_set_choice_member_search.

(* the scan that starts at the probed entry (seeded/C03-4) depends on the probe: on the table of that change's demo
   type the library's bsearch() returns entry 1, from which the member is not found *)
Theorem C03_tagmap_scan_without_rewind_refuted :
  wf_mapb demo_map = true /\
  bsearch (seq_cmp 8 0) demo_map = Some 1%nat /\
  seq_pick demo_map 1 0 1 = PSome 1%nat /\
  seq_pick_norewind demo_map 1 1 = PNone /\
  seq_pick_norewind demo_map 0 1 = PSome 1%nat.
Proof. exact norewind_refuted. Qed.
Print Assumptions C03_tagmap_scan_without_rewind_refuted.

(* ===================================================================== *)
(* OER: every legal form of every length determinant (coq/Rt/OerVariants.v, OerVariantsProofs.v).  [oer_var] /
   [ext_oer_var] write a value with the form the oracle picks at each determinant position; [oer_cdec] /
   [ext_oer_cdec] are the decoders of the C with oer_fetch_length at every position. *)
From A1 Require Import Rt.OerProofs Rt.OerVariants Rt.OerVariantsProofs.

Theorem C03_oer_long_form_length_read_back : forall k n r, olong_ok k n = true -> 0 <= n <= rssize_max ->
  oer_fetch_length ((128 + Z.of_nat k) :: be_bytes k n ++ r) = Some (n, r).
Proof. exact oer_fetch_length_long. Qed.
Print Assumptions C03_oer_long_form_length_read_back.

Theorem C03_oer_any_length_form_read_back : forall lf n r, 0 <= n <= rssize_max ->
  oer_fetch_length (oer_len_var lf n ++ r) = Some (n, r).
Proof. exact oer_fetch_length_var. Qed.
Print Assumptions C03_oer_any_length_form_read_back.

Theorem C03_oer_any_quantity_form_read_back : forall lf z n r, (z <= 255)%nat -> 0 <= n <= rssize_max ->
  oer_fetch_quantity (oer_qty_var lf z n ++ r) = Some (n, r).
Proof. exact oer_fetch_quantity_var. Qed.
Print Assumptions C03_oer_any_quantity_form_read_back.

Theorem C03_oer_complete_stream : forall t oc v bs rest,
  wf_ty_oer t = true -> not_opt t = true -> wt_oer t v = true -> oer_var t oc v = Some bs ->
  oer_cdec t (bs ++ rest) = Some (v, rest).
Proof. exact oer_complete. Qed.
Print Assumptions C03_oer_complete_stream.

Theorem C03_oer_complete : forall t oc v bs,
  wf_ty_oer t = true -> not_opt t = true -> wt_oer t v = true -> oer_variant oc t v = Some bs ->
  oer_cdecode t bs = Some (v, zlen bs).
Proof. exact oer_complete_decode. Qed.
Print Assumptions C03_oer_complete.

(* extensible SEQUENCE / CHOICE: the length of the extension presence bitmap and of every open type as well *)
Theorem C03_ext_oer_complete_stream : forall t oc v bs rest,
  wf_ety_oer t = true -> wt_ety_oer_var t v -> ext_oer_var t oc v = Some bs ->
  ext_oer_cdec t (bs ++ rest) = Some (v, rest).
Proof. exact ext_oer_complete. Qed.
Print Assumptions C03_ext_oer_complete_stream.

Theorem C03_ext_oer_complete : forall t oc v bs,
  wf_ety_oer t = true -> wt_ety_oer_var t v -> ext_oer_var t oc v = Some bs ->
  ext_oer_cdecode t bs = Some (v, zlen bs).
Proof. exact ext_oer_complete_decode. Qed.
Print Assumptions C03_ext_oer_complete.

(* the canonical encoding is the member of the family with the canonical choices *)
Theorem C03_oer_canonical_is_a_variant : forall t v, oer_var t ch_canon v = oer t v.
Proof. exact oer_var_canon. Qed.
Print Assumptions C03_oer_canonical_is_a_variant.

(* the decoder parametrised by the two readers of lengths is the shared reference decoder Rt/Oer.v:oer_dec when given that
   decoder's readers: oer_cdec differs from it in oer_fetch_length / oer_fetch_quantity (the C's readers) only *)
Theorem C03_oer_c_decoder_differs_in_length_readers_only : forall t bs,
  oer_dec_g oer_get_length oer_get_quantity t bs = oer_dec t bs.
Proof. exact oer_dec_g_ref. Qed.
Print Assumptions C03_oer_c_decoder_differs_in_length_readers_only.

(* ---- round c03z: VALUE-LEVEL completeness of the XER text reader (coq/Rt/EntrefComplete.v, EntrefCompleteProofs.v) ----
   The reader is the model of OS__strtoent / OCTET_STRING__convert_entrefs of coq/Rt/ResumeX.v (C05 proves that it inverts the one
   spelling the library's encoder writes).  Completeness: EVERY legal spelling of every character is read as that character. *)
From A1 Require Import Rt.Resume Rt.ResumeX Rt.EntrefComplete Rt.EntrefCompleteProofs.

(* a numeric character reference with ANY digit string - decimal or hexadecimal, any number of leading zeros, every hex digit
   a..f in either case, chosen digit by digit - that denotes a code point 1..0x10ffff is read as the UTF-8 octets of that code
   point and consumed in full, whatever follows *)
Theorem C03_entref_complete : forall hexa ds rest,
  Forall (fun d => 0 <= fst d < base_of hexa) ds -> 0 < ref_val (base_of hexa) ds <= last_unicode ->
  ref_at (ref_chars hexa ds ++ rest) = XChars (utf8_of (ref_val (base_of hexa) ds)) (length (ref_chars hexa ds)).
Proof. intros hexa ds rest H1 H2. apply entref_complete. split; assumption. Qed.
Print Assumptions C03_entref_complete.

(* no code point is missing from the family: each has spellings of both kinds, in either case, behind any number of zeros *)
Theorem C03_entref_every_code_point_has_spellings : forall hexa (up : bool) (zeros : nat) cp, 0 < cp <= last_unicode ->
  exists ds, spelling_ok hexa ds /\ ref_val (base_of hexa) ds = cp /\ length ds = (zeros + 7)%nat.
Proof. exact spelling_exists. Qed.
Print Assumptions C03_entref_every_code_point_has_spellings.

(* a text in which every character is written in any of its spellings (raw UTF-8, &amp; &lt; &gt;, numeric reference), followed by
   a tag, is read as the string it spells and consumed in full *)
Theorem C03_entref_text_complete : forall its acc rest, Forall item_ok its ->
  entref_step acc (text_chars its ++ 60 :: rest) = (OK, length (text_chars its), acc ++ text_val its).
Proof. exact entref_text_complete. Qed.
Print Assumptions C03_entref_text_complete.

(* the reader with the digit table as a parameter is, with the C's table, the reader of ResumeX ... *)
Theorem C03_entref_reader_parametrised : forall w, ref_at_g digit_c w = ref_at w.
Proof. exact ref_at_g_digit_of. Qed.
Print Assumptions C03_entref_reader_parametrised.

(* ... and with the lower-case-only table (seeded/C03-6) completeness is FALSE: "&#xE9;" is a legal spelling of U+00E9 it does not read *)
Theorem C03_entref_complete_lowercase_table_refuted : exists hexa ds rest,
  spelling_ok hexa ds /\
  ref_at_g digit_lower (ref_chars hexa ds ++ rest) <> XChars (utf8_of (ref_val (base_of hexa) ds)) (length (ref_chars hexa ds)).
Proof. exact entref_complete_lower_refuted. Qed.
Print Assumptions C03_entref_complete_lowercase_table_refuted.

(* ---------------- SET and DEFAULT components (Rt/SetDef.v, notes/design/SetDef.md) ---------------- *)
From A1 Require Import Rt.SetDef Rt.SetDefProofs.

(* the BER reader takes the members of a SET in ANY order — every list of member indices that mentions each
   member once — and returns the value DER would have given *)
Theorem C03_setdef_set_any_order : forall tg ms vs es idx rest,
  cwf_d (CSet tg ms) = true -> cwt_d (CSet tg ms) (VSeq vs) = true ->
  enc_cms (cder false) ms vs = Some es ->
  NoDup idx -> (forall i, In i idx <-> (i < length ms)%nat) ->
  let c := concat (map (fun i => nth i es []) idx) in
  zlen (tlv tg true c) <= rssize_max ->
  cber_dec (CSet tg ms) (tlv tg true c ++ rest) = Some (strip_dflt (CSet tg ms) (VSeq vs), rest).
Proof. exact cber_set_any_order. Qed.
Print Assumptions C03_setdef_set_any_order.

(* a default value PRESENT in the encoding (valid BER; not DER) is read: the encoding of the value under the type
   with the DEFAULT read as OPTIONAL *)
Theorem C03_setdef_default_present_read : forall t v bs rest,
  cwf_d t = true -> is_marker t = false -> cwt_d t v = true -> cder false t v = Some bs -> zlen bs <= rssize_max ->
  cber_dec t (bs ++ rest) = Some (strip_dflt t v, rest).
Proof. exact cder_roundtrip_in_stream. Qed.
Print Assumptions C03_setdef_default_present_read.
(* ---- PrimB: restricted character strings (Rt/PrimB.v) ----
   The reference decoders accept what the encoders emit for the string types of coq/Rt/PrimB.v (known-multiplier types with SIZE /
   extensible SIZE / FROM constraints, UTF8String and the others; top level, EXPLICIT tags, SEQUENCE member, SEQUENCE OF element),
   whatever follows the encoding in the stream.  Hypotheses: coq/Rt/PrimBProofs.v ([wf_leaf]: every character code fits the
   width the writer uses; the C's plain NumericString violates it, C01_primb_uper_leaf_numeric_plain_refuted). *)
From A1 Require Import Rt.Uper Rt.UperProofs Rt.Oer Rt.OerProofs Rt.PrimB Rt.PrimBProofs.

(* unaligned PER, both readings: every encoding of a well-typed value is accepted, read as that value, and the reader stops
   exactly at its end *)
Theorem C03_primb_uper_accepts : forall std t v bits rest,
  wf_sty_uper std t = true -> wt_sty_uper std t v = true -> pb_uper std t v = Some bits ->
  pb_uper_dec std t (bits ++ rest) = Some (v, rest).
Proof. exact pb_uper_roundtrip_in_stream. Qed.
Print Assumptions C03_primb_uper_accepts.

(* BER: the DER encoding (string leaves are primitive OCTET STRING TLVs with the string's tag) is accepted *)
Theorem C03_primb_ber_accepts : forall t v bs rest,
  DerProofs.wf_ty (der_ty t) = true -> DerProofs.wt (der_ty t) v = true -> pb_der t v = Some bs ->
  zlen bs <= rssize_max -> pb_ber_dec t (bs ++ rest) = Some (v, rest).
Proof. exact pb_der_roundtrip_in_stream. Qed.
Print Assumptions C03_primb_ber_accepts.

(* OER: with or without length determinant (fixed SIZE of a known-multiplier type: size in octets) *)
Theorem C03_primb_oer_accepts : forall t v bs rest,
  OerProofs.wf_ty_oer (oer_ty t) = true -> OerProofs.wt_oer (oer_ty t) v = true -> pb_oer t v = Some bs ->
  pb_oer_dec t (bs ++ rest) = Some (v, rest).
Proof. exact pb_oer_roundtrip_in_stream. Qed.
Print Assumptions C03_primb_oer_accepts.
(* ------------------------------------------------------------------ *)
(* ENUMERATED / BIT STRING layer (Rt/PrimA.v, Rt/PrimAProofs.v; notes/design/PrimA.md):
   the readers of the model of the C accept the STANDARD encodings (the spec_ functions) and return the value *)
From A1 Require Import Rt.Uper Rt.Oer Rt.Ext Rt.PrimA Rt.PrimAProofs.

Theorem C03_prima_enum_uper_accepts_spec : forall root ext adds z enc rest,
  enum_ok root ext adds -> enum_table root adds = sort_z root ++ adds ->
  spec_enum_uper root ext adds z = Some enc ->
  enum_uper_dec root ext adds (enc ++ rest) = Some (z, rest).
Proof. exact enum_uper_dec_accepts_spec. Qed.
Print Assumptions C03_prima_enum_uper_accepts_spec.

Theorem C03_prima_bits_uper_accepts_spec : forall s bs enc rest, scon_ok s ->
  strip_tz bs = bs -> in_scon s (zlen bs) = true ->
  spec_bits_uper s false bs = Some enc -> bits_uper_dec s (enc ++ rest) = Some (bs, rest).
Proof. exact bits_uper_dec_accepts_spec. Qed.
Print Assumptions C03_prima_bits_uper_accepts_spec.

Theorem C03_prima_bits_oer_accepts_spec : forall s bs enc rest,
  (match oer_fixed_size s with Some n => zlen bs = n | None => zlen bs + 8 <= rssize_max end) ->
  spec_bits_oer s bs = Some enc -> bits_oer_dec s (enc ++ rest) = Some (bs, rest).
Proof. exact bits_oer_dec_accepts_spec. Qed.
Print Assumptions C03_prima_bits_oer_accepts_spec.

Theorem C03_prima_bits_ber_contents_accepted : forall body u (bs : list bool),
  body <> [] -> 0 <= u <= 7 -> bits_of_contents (u :: body) =
    Some (firstn (Z.to_nat (8 * zlen body - u)) (bytes_bits body)).
Proof. exact bits_of_contents_accepts. Qed.
Print Assumptions C03_prima_bits_ber_contents_accepted.
(* ---- round c03w: XER, "unknown extension additions are skipped" for ARBITRARY XML subtrees (coq/Rt/XerSkip.v, XerSkipProofs.v) ----
   The step function is the model of xer_skip_unknown() of Rt/SafetySkip.v (C04 proves it safe); here its COMPLETENESS: over every
   well-formed XML forest - an inductive tree type with arbitrary element names, among them the name N of the element being decoded,
   which xer_check_tag() classifies differently - the machine consumes exactly the unknown element and stops with depth 0. *)
From A1 Require Import Rt.SafetySkip Rt.XerSkip Rt.XerSkipProofs.

(* a well-formed subtree met while skipping leaves the depth counter where it was and does not end the skip (any depth > 0, any
   names, any accumulated counts, whatever follows) *)
Theorem C03_xer_skip_subtree_neutral : forall N f rest d a b, 0 < d ->
  skip_run N (flatf f ++ rest) d a b = skip_run N rest d (ntags (flatf f) + a)%nat (length (flatf f) + b)%nat.
Proof. exact forest_neutral. Qed.
Print Assumptions C03_xer_skip_subtree_neutral.

(* started behind the opening tag of an unknown element <n>, the skip ends exactly at that element's closing tag, depth 0, answer 1 (the
   caller advances over the closing tag), for EVERY content and EVERY name n - the name N of the element being decoded included *)
Theorem C03_xer_skip_complete : forall N n kids rest,
  skip_run N (flatf kids ++ TClose n :: rest) 1 0%nat 0%nat =
  (1, 0, S (ntags (flatf kids)), (1 + length (flatf kids))%nat).
Proof. exact skip_complete. Qed.
Print Assumptions C03_xer_skip_complete.

(* together with the opening tag the caller consumed before: the whole element, nothing more *)
Theorem C03_xer_skip_consumes_exactly_the_element : forall N n kids rest,
  skip_run N (flatf kids ++ TClose n :: rest) 1 0%nat 0%nat = (1, 0, S (ntags (flatf kids)), (length (flat (XNode n kids)) - 1)%nat).
Proof. exact skip_consumes_element. Qed.
Print Assumptions C03_xer_skip_consumes_exactly_the_element.

(* the names are irrelevant, the skipped element's own too: subtrees with the same numbers of tags and tokens are skipped alike *)
Theorem C03_xer_skip_names_irrelevant : forall N n1 n2 kids1 kids2 rest1 rest2,
  ntags (flatf kids1) = ntags (flatf kids2) -> length (flatf kids1) = length (flatf kids2) ->
  skip_run N (flatf kids1 ++ TClose n1 :: rest1) 1 0%nat 0%nat = skip_run N (flatf kids2 ++ TClose n2 :: rest2) 1 0%nat 0%nat.
Proof. exact skip_names_irrelevant. Qed.
Print Assumptions C03_xer_skip_names_irrelevant.

(* the name-sensitive variant of seeded/C03-9 (a closing tag named N ends the skip at once) is NOT complete: <1><0>text</0></1> in element 0 *)
Theorem C03_xer_skip_name_sensitive_variant_refuted : exists N n kids rest, n <> N /\
  skip_run_seed N (flatf kids ++ TClose n :: rest) 1 0%nat 0%nat <> (1, 0, S (ntags (flatf kids)), (length (flat (XNode n kids)) - 1)%nat).
Proof. exact skip_seed_refuted. Qed.
Print Assumptions C03_xer_skip_name_sensitive_variant_refuted.

(* the whole extensions section as SEQUENCE_decode_xer / SET_decode_xer walk it (phases 1 and 3): ANY number of unknown additions with
   arbitrary subtrees, then the closing tag of the element being decoded -> RC_OK, everything consumed.  Side condition: the additions
   do not carry a known member's name (an addition may carry the name N itself) *)
Theorem C03_xer_extensions_section_complete : forall N known f rest k,
  forallb (root_unknown known) f = true ->
  ext_run N known (flatf f ++ TClose N :: rest) Ph1 k = XDone (length (flatf f) + 1 + k)%nat.
Proof. exact ext_section_complete. Qed.
Print Assumptions C03_xer_extensions_section_complete.

(* ... in particular the addition that is called like the element it sits in, with any content (the documents of the former finding
   C03-xer-unknown-addition-named-like-enclosing, repaired by fix 01 of notes/fixes/I): <N><N>..</N></N> is read to its end *)
Theorem C03_xer_extensions_section_own_name : forall N kids rest,
  ext_run N (fun _ => false) (flat (XNode N kids) ++ TClose N :: rest) Ph1 0%nat = XDone (length (flat (XNode N kids)) + 1)%nat.
Proof. exact ext_section_own_name. Qed.
Print Assumptions C03_xer_extensions_section_own_name.

(* ---------------- the NUMBER of length octets (coq/Rt/LenOctets.v; tie: lib/c03_lenk.py) ---------------- *)
From A1 Require Import Rt.SafetySkip Rt.LenOctets.

(* X.690 8.1.3.5: 0x80+k, any count z of leading zero octets, the m octets of the true length, k = z + m <= 126 - also with k beyond
   the 8 octets of the C's ber_tlv_len_t: the model of ber_fetch_length bounds the VALUE, never the COUNT *)
Theorem C03_length_any_octet_count : forall (z m : nat) (len : Z) (rest : list Z) (c : bool),
  (1 <= z + m <= 126)%nat -> 0 <= len < 256 ^ Z.of_nat m -> len <= rssize_max ->
  fetch_length c ((128 + Z.of_nat (z + m)) :: padded_len z m len ++ rest) = FOk len (S (z + m)).
Proof. exact fetch_length_padded. Qed.
Print Assumptions C03_length_any_octet_count.

Theorem C03_length_k_octets : forall (k m : nat) (len : Z) (rest : list Z) (c : bool),
  (1 <= k <= 126)%nat -> (m <= k)%nat -> 0 <= len < 256 ^ Z.of_nat m -> len <= rssize_max ->
  fetch_length c ((128 + Z.of_nat k) :: repeat 0 (k - m) ++ be_bytes m len ++ rest) = FOk len (S k).
Proof. exact fetch_length_any_count. Qed.
Print Assumptions C03_length_k_octets.

(* 127: the reserved first octet 0xFF is refused *)
Theorem C03_length_reserved_refused : forall (c : bool) (rest : list Z), fetch_length c (255 :: rest) = FErr.
Proof. exact fetch_length_reserved. Qed.
Print Assumptions C03_length_reserved_refused.

(* the skipper of unknown extension additions (ber_skip_length) steps over a TLV body behind such a length, whatever follows *)
Theorem C03_skip_length_any_octet_count : forall (z m : nat) (content rest : list Z) (c : bool),
  (1 <= z + m <= 126)%nat -> zlen content < 256 ^ Z.of_nat m -> zlen content <= rssize_max ->
  ber_skip_length c ((128 + Z.of_nat (z + m)) :: padded_len z m (zlen content) ++ content ++ rest)
  = SOk (S (z + m) + length content).
Proof. exact skip_length_padded. Qed.
Print Assumptions C03_skip_length_any_octet_count.

(* a fetcher that bounds the count of length octets by the width of the length type (seeded/C03-10) refuses a valid length *)
Theorem C03_length_count_bounded_fetcher_refuted :
  exists (z m : nat) (len : Z), (1 <= z + m <= 126)%nat /\ 0 <= len < 256 ^ Z.of_nat m /\ len <= rssize_max /\
    fetch_length_counted 8 false ((128 + Z.of_nat (z + m)) :: padded_len z m len) <> FOk len (S (z + m)).
Proof. exact counted_fetcher_refuted. Qed.
Print Assumptions C03_length_count_bounded_fetcher_refuted.
