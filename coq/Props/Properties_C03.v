(* Properties_C03.v — decoders accept every valid encoding (BER part, on the model).
   Spec: coq/Rt/BerVariants.v — [ber_var t oc v], the encoder of the family of
   alternative valid BER encodings of a value: the oracle [oc] (a tree mirroring
   the value) picks for every TLV the length form (minimal; long form with any
   number 1..126 of length octets, i.e. with leading zero octets; indefinite on
   constructed TLVs: SEQUENCE, SEQUENCE OF, SET OF, EXPLICIT tag wrappers) and for
   every SET OF the order in which the elements are written.
   Decoder: coq/Rt/Der.v [ber_dec]/[ber_decode], the reference BER decoder the C is
   compared with by checks/c03.py (which also compares [ber_var] with an independent
   re-encoder, byte for byte).
   Stated here:
   - ber_fetch_length (model of the C) reads every long form with leading zeros back;
     side conditions derived from the model's loop: at most 126 length octets, the
     value fits them, value <= RSSIZE_MAX;
   - ber_complete: for every well-formed type, well-typed value and EVERY oracle the
     reference decoder returns the value (SET OF: elements in the order written, i.e.
     the same value up to SET OF order) and consumes exactly the encoding;
   - every permutation of SET OF elements is denoted by some oracle;
   - DER is the member of the family with the canonical choices.
   Not modelled in Coq (tie only, see notes/design/C03.md): constructed OCTET STRINGs,
   UPER/OER/XER variants, and the C's ber_check_tags chain rule (the reference decoder
   accepts mixed chains; the C does not: finding C03-ber-chain-mixed-lengths). *)
From Coq Require Import ZArith List Bool Permutation.
From A1 Require Import Base.Bytes Leaf.BerTL Leaf.BerTLProofs Rt.Types Rt.Comb Rt.Der Rt.DerProofs
  Rt.BerVariants Rt.BerVariantsProofs.
Import ListNotations.
Local Open Scope Z_scope.

Theorem C03_long_form_length_read_back : forall n len rest c,
  long_ok n len = true -> 0 <= len <= rssize_max ->
  fetch_length c ((128 + Z.of_nat n) :: be_bytes n len ++ rest) = FOk len (S n).
Proof. exact fetch_length_long. Qed.
Print Assumptions C03_long_form_length_read_back.

Theorem C03_any_length_form_read_back : forall lf len rest c, 0 <= len <= rssize_max ->
  fetch_length c (len_var lf len ++ rest) = FOk len (length (len_var lf len)).
Proof. exact fetch_length_var. Qed.
Print Assumptions C03_any_length_form_read_back.

(* in a stream: whatever follows is left untouched; the value comes back up to SET OF order *)
Theorem C03_ber_complete_stream : forall t oc v bs rest,
  wf_ty t = true -> not_opt t = true -> wt0 t v = true ->
  ber_var t oc v = Some bs -> zlen bs <= rssize_max ->
  ber_dec t (bs ++ rest) = Some (var_val t oc v, rest) /\ veq t v (var_val t oc v).
Proof. exact ber_complete. Qed.
Print Assumptions C03_ber_complete_stream.

(* what asn_decode reports: RC_OK, the value, the full length consumed *)
Theorem C03_ber_complete : forall t oc v bs,
  wf_ty t = true -> not_opt t = true -> wt0 t v = true ->
  ber_variant oc t v = Some bs -> zlen bs <= rssize_max ->
  ber_decode t bs = Some (var_val t oc v, zlen bs).
Proof. exact ber_complete_decode. Qed.
Print Assumptions C03_ber_complete.

(* the values the C can hold (DerProofs.wt) are well typed in the sense used above *)
Theorem C03_wt_values : forall t v, wt t v = true -> wt0 t v = true.
Proof. exact wt_wt0. Qed.
Print Assumptions C03_wt_values.

(* the oracle reaches every order of the elements of a SET OF, and only orders *)
Theorem C03_setof_every_order : forall (A : Type) (l l' : list A),
  Permutation l l' -> exists p, permute p l = l'.
Proof. exact @permute_complete. Qed.
Print Assumptions C03_setof_every_order.

Theorem C03_setof_only_orders : forall (A : Type) p (l : list A), Permutation l (permute p l).
Proof. exact @permute_perm. Qed.
Print Assumptions C03_setof_only_orders.

(* DER is the variant with the canonical choices, and it decodes to the value itself *)
Theorem C03_der_is_canonical_variant : forall t v, wt t v = true -> ber_var t ch_canon v = der t v.
Proof. exact ber_var_canon. Qed.
Print Assumptions C03_der_is_canonical_variant.

Theorem C03_canonical_choices_keep_value : forall t v, var_val t ch_canon v = v.
Proof. exact var_val_canon. Qed.
Print Assumptions C03_canonical_choices_keep_value.

(* ===================================================================== *)
(* Extensibility layer (coq/Rt/Ext.v, ExtProofs.v; notes/design/EXT.md): valid encodings from OTHER versions
   of an extensible SEQUENCE.  An encoding produced for a prefix type (the first additions [known]) decodes under
   the full type (additions [known ++ more]) to the value with the remaining additions absent: the presence
   bitmap (OER) / the addition count (UPER) is shorter than the reader's list, the missing bits mean absent. *)
From A1 Require Import Rt.Uper Rt.Oer Rt.Ext Rt.ExtFormat Rt.ExtProofs.

Theorem C03_ext_uper_older_sender : forall std tg root known more rvs avs bits rest,
  wf_ety_uper (ESeq tg root known) = true -> wt_ety_uper std (ESeq tg root known) (EVSeq rvs avs) ->
  ext_uper std (ESeq tg root known) (EVSeq rvs avs) = Some bits ->
  ext_uper_dec std (ESeq tg root (known ++ more)) (bits ++ rest) = Some (EVSeq rvs (avs ++ absent_all more), rest).
Proof. exact ext_uper_seq_bwd. Qed.
Print Assumptions C03_ext_uper_older_sender.

Theorem C03_ext_oer_older_sender : forall tg root known more rvs avs bs rest,
  wf_ety_oer (ESeq tg root known) = true -> wt_ety_oer (ESeq tg root known) (EVSeq rvs avs) ->
  ext_oer (ESeq tg root known) (EVSeq rvs avs) = Some bs ->
  ext_oer_dec (ESeq tg root (known ++ more)) (bs ++ rest) = Some (EVSeq rvs (avs ++ absent_all more), rest).
Proof. exact ext_oer_seq_bwd. Qed.
Print Assumptions C03_ext_oer_older_sender.

Theorem C03_ext_ber_older_sender : forall tg root known more rvs avs bs rest,
  wf_ety_der (ESeq tg root known) = true -> wt_ety_der (ESeq tg root known) (EVSeq rvs avs) = true ->
  ext_der (ESeq tg root known) (EVSeq rvs avs) = Some bs -> zlen bs <= rssize_max ->
  ext_ber_dec (ESeq tg root (known ++ more)) (bs ++ rest) = Some (EVSeq rvs (avs ++ absent_all more), rest).
Proof. exact ext_ber_seq_bwd. Qed.
Print Assumptions C03_ext_ber_older_sender.

(* a NEWER sender: the additions the reader does not know are skipped, whatever their size, in all three
   syntaxes (UPER / OER: since the repairs of uper_open_type_skip / oer_open_type_skip) *)
Theorem C03_ext_ber_newer_sender : forall tg root adds rvs avs bs rest k,
  wf_ety_der (ESeq tg root adds) = true -> wt_ety_der (ESeq tg root adds) (EVSeq rvs avs) = true ->
  ext_der (ESeq tg root adds) (EVSeq rvs avs) = Some bs -> zlen bs <= rssize_max ->
  ext_ber_dec (ESeq tg root (firstn k adds)) (bs ++ rest) = Some (EVSeq rvs (firstn k avs), rest).
Proof. exact ext_ber_seq_fwd. Qed.
Print Assumptions C03_ext_ber_newer_sender.

Theorem C03_ext_uper_newer_sender : forall std tg root adds rvs avs bits rest k,
  wf_ety_uper (ESeq tg root adds) = true -> wt_ety_uper std (ESeq tg root adds) (EVSeq rvs avs) ->
  ext_uper std (ESeq tg root adds) (EVSeq rvs avs) = Some bits ->
  ext_uper_dec std (truncate_ty k (ESeq tg root adds)) (bits ++ rest) = Some (truncate_val k (EVSeq rvs avs), rest).
Proof. exact ext_uper_forward_compat. Qed.
Print Assumptions C03_ext_uper_newer_sender.

Theorem C03_ext_oer_newer_sender : forall tg root adds rvs avs bs rest k,
  wf_ety_oer (ESeq tg root adds) = true -> wt_ety_oer (ESeq tg root adds) (EVSeq rvs avs) ->
  ext_oer (ESeq tg root adds) (EVSeq rvs avs) = Some bs ->
  ext_oer_dec (truncate_ty k (ESeq tg root adds)) (bs ++ rest) = Some (truncate_val k (EVSeq rvs avs), rest).
Proof. exact ext_oer_forward_compat. Qed.
Print Assumptions C03_ext_oer_newer_sender.
