(* Properties_C03.v — decoders accept every valid encoding (placeholder; grown below). *)
From Coq Require Import ZArith List Bool.
From A1 Require Import Rt.BerVariants.
Import ListNotations.

Theorem C03_permute_identity : forall (A : Type) (l : list A), permute [] l = l.
Proof. induction l; cbn; unfold insert_at; cbn; congruence. Qed.
Print Assumptions C03_permute_identity.
