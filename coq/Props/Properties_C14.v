(* Properties_C14.v — structure lifecycle is leak-free and double-free-free (PARTIAL).
   What a proof can carry here is the OWNERSHIP DISCIPLINE, on a model (coq/Rt/Heap.v): which
   blocks a decoded structure holds ([owned], at the granularity of the structs asn1c
   generates), which blocks the three free_struct methods release ([free_model], the
   traversals of SEQUENCE_free / SET_OF_free / CHOICE_free / OCTET_STRING_free / native frees),
   the ledger of live blocks with its two violations (free of a dead block = double free, free
   of a block never handed out = foreign free), memset-to-zero and the CALLOC structure.
   The real allocator, the detection of double frees, the behaviour of decoders and encoders
   under a failing allocation and on failing paths are runtime facts: they are observed on the
   C by checks/c14.py (link-time ledger harness/allocwrap.c, every history x every failing
   allocation), which also compares the C's live-block counts with [owned]. *)
From Coq Require Import ZArith List Bool Permutation.
From A1 Require Import Rt.Types Rt.Heap Rt.HeapProofs Rt.Der Rt.DerProofs Rt.HeapX Rt.HeapXProofs.
From A1 Require Rt.HeapW Rt.HeapWProofs.
Import ListNotations.

(* every FREEMEM a free method performs hits a block the structure owns, every owned block is
   hit, the struct block itself exactly when the method is ASFM_FREE_EVERYTHING ... *)
Theorem C14_free_exact : forall t m p s,
  Permutation (free_model t m p s) (owned t (is_everything m) p s).
Proof. exact free_exact. Qed.
Print Assumptions C14_free_exact.

(* ... and no block is owned twice, so each is released exactly once *)
Theorem C14_owned_nodup : forall t b p s, NoDup (owned t b p s).
Proof. exact owned_nodup. Qed.
Print Assumptions C14_owned_nodup.

Theorem C14_free_each_once : forall t m p s, NoDup (free_model t m p s).
Proof. exact free_each_once. Qed.
Print Assumptions C14_free_each_once.

(* on the ledger: ASN_STRUCT_FREE commits no violation and leaves no block of the structure live *)
Theorem C14_free_balanced : forall t p s,
  run_frees (owned t true p s) (free_model t FreeEverything p s) = Some [].
Proof. exact free_balanced. Qed.
Print Assumptions C14_free_balanced.

(* ASN_STRUCT_RESET and ASN_STRUCT_FREE_CONTENTS_ONLY leave exactly the top block live *)
Theorem C14_reset_balanced : forall t p s, is_slot t = false -> shape t s = true ->
  run_frees (owned t true p s) (free_model t FreeUnderlyingAndReset p s) = Some [(p, KStruct)] /\
  run_frees (owned t true p s) (free_model t FreeUnderlying p s) = Some [(p, KStruct)].
Proof. exact reset_balanced. Qed.
Print Assumptions C14_reset_balanced.

(* after RESET the structure is the one a decoder given NULL would CALLOC; it owns nothing and a
   further RESET/FREE_CONTENTS_ONLY of it releases nothing *)
Theorem C14_reset_is_fresh : forall t s, shape t s = true ->
  after FreeUnderlyingAndReset s = Some (zero t) /\
  shape t (zero t) = true /\
  (forall p, owned t false p (zero t) = []) /\
  (forall p, free_model t FreeUnderlyingAndReset p (zero t) = []).
Proof. exact reset_is_fresh. Qed.
Print Assumptions C14_reset_is_fresh.

(* the structure a successful decode of a well-typed value builds is laid out for its type
   (so the theorems above apply to it) *)
Theorem C14_decoded_structures_are_shaped : forall oer_decoder t v, wt t v = true -> shape t (of_val oer_decoder t v) = true.
Proof. exact shape_of_val. Qed.
Print Assumptions C14_decoded_structures_are_shaped.

(* end to end on the model *)
Theorem C14_decoded_lifecycle : forall oer_decoder t v, is_slot t = false -> wt t v = true ->
  let s := of_val oer_decoder t v in
  apply_free t FreeEverything (owned t true [] s) s = (Some [], None) /\
  apply_free t FreeUnderlyingAndReset (owned t true [] s) s = (Some [([], KStruct)], Some (zero t)) /\
  owned t true [] (zero t) = [([], KStruct)].
Proof. exact decoded_lifecycle. Qed.
Print Assumptions C14_decoded_lifecycle.

(* ================================================================================================
   Round c14x (model coq/Rt/HeapX.v).  Leaf structures on the BYTE level - the fields of the C types,
   bits_unused and the decoder context included - and the clean-up of an open type reader whose inner
   decoder fails; extension holders = SEQUENCE with pointer-member additions. *)

(* the span each free function passes to memset under ASFM_FREE_UNDERLYING_AND_RESET is the whole C type *)
Theorem C14_leaf_wiped_is_sizeof : forall k, wiped k = sizeof k.
Proof. exact wiped_is_sizeof. Qed.
Print Assumptions C14_leaf_wiped_is_sizeof.

(* ASN_STRUCT_RESET of a leaf structure (any kind, any contents) leaves the structure CALLOC gives: every byte zero *)
Theorem C14_leaf_reset_is_calloc : forall k bs, length bs = sizeof k ->
  snd (leaf_free k FreeUnderlyingAndReset bs) = calloc k.
Proof. exact leaf_reset_is_calloc. Qed.
Print Assumptions C14_leaf_reset_is_calloc.

(* ... field by field, the extra fields (bits_unused, _asn_ctx) included *)
Theorem C14_leaf_reset_clears_every_field : forall k f o l bs, length bs = sizeof k ->
  field_at k f = Some (o, l) ->
  slice o l (snd (leaf_free k FreeUnderlyingAndReset bs)) = repeat 0%Z l.
Proof. exact leaf_reset_clears_every_field. Qed.
Print Assumptions C14_leaf_reset_clears_every_field.

Theorem C14_leaf_calloc_owns_nothing : forall k m,
  fst (leaf_free k m (calloc k)) = if is_everything m then [KStruct] else [].
Proof. exact leaf_calloc_owns_nothing. Qed.
Print Assumptions C14_leaf_calloc_owns_nothing.

Theorem C14_leaf_reset_then_free : forall k bs, length bs = sizeof k ->
  fst (leaf_free k FreeEverything (snd (leaf_free k FreeUnderlyingAndReset bs))) = [KStruct] /\
  leaf_free k FreeUnderlyingAndReset (snd (leaf_free k FreeUnderlyingAndReset bs)) = ([], calloc k).
Proof. exact leaf_reset_then_free. Qed.
Print Assumptions C14_leaf_reset_then_free.

Theorem C14_leaf_free_events_nodup : forall k m bs, NoDup (fst (leaf_free k m bs)).
Proof. exact leaf_free_events_nodup. Qed.
Print Assumptions C14_leaf_free_events_nodup.

(* "a later decode behaves exactly as into a fresh one": any decoder, as a function of (structure bytes, input) *)
Theorem C14_decode_after_reset_is_fresh : forall (A : Type) k (dec : list Z -> A) bs, length bs = sizeof k ->
  dec (snd (leaf_free k FreeUnderlyingAndReset bs)) = dec (calloc k).
Proof. exact decode_after_reset_is_fresh. Qed.
Print Assumptions C14_decode_after_reset_is_fresh.

(* the decoder that does read the old state: BIT_STRING_decode_uper writes bits_unused only for lengths that are
   not a multiple of 8; after RESET its result is the count the length dictates, without RESET it need not be *)
Theorem C14_uper_bits_unused_after_reset : forall bs n, length bs = sizeof LBits ->
  uper_bits_unused (snd (leaf_free LBits FreeUnderlyingAndReset bs)) n = spec_bits_unused n.
Proof. exact uper_bits_unused_after_reset. Qed.
Print Assumptions C14_uper_bits_unused_after_reset.

Theorem C14_uper_bits_unused_stale_refuted : exists prior n, length prior = sizeof LBits /\
  uper_bits_unused prior n <> spec_bits_unused n.
Proof. exact uper_bits_unused_stale_refuted. Qed.
Print Assumptions C14_uper_bits_unused_stale_refuted.

(* a RESET that clears buf, size and the context but spares bits_unused is not the CALLOC structure *)
Theorem C14_partial_reset_refuted : exists bs, length bs = sizeof LBits /\
  clear_field LBits FCtxLeft (clear_field LBits FCtxPtr (clear_field LBits FCtxContext (clear_field LBits FCtxPhaseStep
    (clear_field LBits FSize (clear_field LBits FBuf bs))))) <> calloc LBits.
Proof. exact partial_reset_refuted. Qed.
Print Assumptions C14_partial_reset_refuted.

(* open type reader (oer_open_type_get): a failure INSIDE the container leaves the ledger as it was before the call *)
Theorem C14_open_get_fail_balanced : forall t p slot s live,
  NoDup (live ++ inner_owned t p slot s) ->
  exists live', run_frees (live ++ inner_owned t p slot s) (fst (fst (open_get t p slot (InnerFail s)))) = Some live'
                /\ Permutation live live'.
Proof. exact open_get_fail_balanced. Qed.
Print Assumptions C14_open_get_fail_balanced.

Theorem C14_open_get_fail_slot : forall t p slot s, shape t s = true ->
  snd (fst (open_get t p slot (InnerFail s))) = match slot with None => None | Some _ => Some (zero t) end.
Proof. exact open_get_fail_slot. Qed.
Print Assumptions C14_open_get_fail_slot.

(* the dispose method must be chosen BEFORE the inner decoder runs: chosen afterwards, a failure in a pointer-member
   addition leaves the member's own block live behind a NULL slot *)
Theorem C14_open_get_late_dispose_leaks : forall t p s live,
  is_slot t = false -> shape t s = true ->
  NoDup (live ++ inner_owned t p None s) ->
  exists live', run_frees (live ++ inner_owned t p None s) (open_get_late t p (InnerFail s)) = Some live'
                /\ Permutation ((p, KStruct) :: live) live'.
Proof. exact open_get_late_dispose_leaks. Qed.
Print Assumptions C14_open_get_late_dispose_leaks.

(* extension holders: the structure left by a failure inside the container of addition j *)
Theorem C14_absent_from_wt : forall tg root adds vs j,
  wt (ext_holder tg root adds) (VSeq vs) = true ->
  wt (ext_holder tg root adds) (VSeq (absent_from (length root + j) vs)) = true.
Proof. exact absent_from_wt. Qed.
Print Assumptions C14_absent_from_wt.

Theorem C14_fail_in_addition_slots : forall o root adds vs j, length vs = length (root ++ map TOpt adds) ->
  of_members (of_val o) (root ++ map TOpt adds) (absent_from (length root + j) vs) =
  firstn (length root + j) (of_members (of_val o) (root ++ map TOpt adds) vs)
    ++ repeat (SPtr None) (length vs - (length root + j)).
Proof. exact fail_in_addition_slots. Qed.
Print Assumptions C14_fail_in_addition_slots.

Theorem C14_fail_in_addition_lifecycle : forall oerd tg root adds vs j,
  wt (ext_holder tg root adds) (VSeq vs) = true ->
  let t := ext_holder tg root adds in
  let s := fail_in_addition oerd (length root) j t (VSeq vs) in
  shape t s = true /\
  apply_free t FreeEverything (owned t true [] s) s = (Some [], None) /\
  apply_free t FreeUnderlyingAndReset (owned t true [] s) s = (Some [([], KStruct)], Some (zero t)).
Proof. exact fail_in_addition_lifecycle. Qed.
Print Assumptions C14_fail_in_addition_lifecycle.


(* ---- round c14w: the element loop of the list decoders and the dynamic-buffer encoder wrapper (coq/Rt/HeapW.v) ---- *)
Module W.
Import A1.Rt.HeapW A1.Rt.HeapWProofs.

(* every error exit after k successful appends leaves each block owned exactly once *)
Theorem C14_list_exit_owned_once : forall k x, exists s,
  list_run Correct k x = Some s /\ NoDup (live s) /\ NoDup (owners s) /\ Permutation (live s) (owners s).
Proof. exact list_exit_owned_once. Qed.
Print Assumptions C14_list_exit_owned_once.

Theorem C14_list_exit_free_balanced : forall k x, list_lifecycle Correct k x = Some [].
Proof. exact list_exit_free_balanced. Qed.
Print Assumptions C14_list_exit_free_balanced.

(* the shared-exit variant: double free for every k *)
Theorem C14_list_shared_exit_double_free : forall k, list_lifecycle SharedExit k XBomb = None.
Proof. exact list_shared_exit_double_free. Qed.
Print Assumptions C14_list_shared_exit_double_free.

Theorem C14_list_shared_exit_refuted : exists k x, list_lifecycle SharedExit k x <> Some [].
Proof. exact list_shared_exit_refuted. Qed.
Print Assumptions C14_list_shared_exit_refuted.

(* the wrapper owns the buffer until success; on failure it is released exactly once *)
Theorem C14_dyn_wrapper_balanced : forall script enc_ok, exists d r,
  dyn_run DCorrect script enc_ok = Some (d, r) /\ dlive d = opt_l r.
Proof. exact dyn_wrapper_balanced. Qed.
Print Assumptions C14_dyn_wrapper_balanced.

Theorem C14_dyn_wrapper_failure_frees : forall script enc_ok d,
  dyn_run DCorrect script enc_ok = Some (d, None) -> dlive d = [].
Proof. exact dyn_wrapper_failure_frees. Qed.
Print Assumptions C14_dyn_wrapper_failure_frees.

(* the no-free variant leaks for every script that reached the callback *)
Theorem C14_dyn_nofree_leaks : forall script, script <> [] -> Forall (fun c => snd c = true) script ->
  exists d b, dyn_run NoFree script false = Some (d, None) /\ dlive d = [b].
Proof. exact dyn_nofree_leaks. Qed.
Print Assumptions C14_dyn_nofree_leaks.

Theorem C14_dyn_nofree_refuted : exists script enc_ok d, dyn_run NoFree script enc_ok = Some (d, None) /\ dlive d <> [].
Proof. exact dyn_nofree_refuted. Qed.
Print Assumptions C14_dyn_nofree_refuted.
End W.
