(* Properties_C14.v — structure lifecycle is leak-free and double-free-free (PARTIAL).
   What a proof can carry here is the OWNERSHIP DISCIPLINE, on a model (coq/Rt/Heap.v): which
   blocks a decoded structure holds ([owned], at the granularity of the structs asn1c
   generates), which blocks the three free_struct methods release ([free_model], the
   traversals of SEQUENCE_free / SET_OF_free / CHOICE_free / OCTET_STRING_free / native frees),
   the ledger of live blocks with its two violations (free of a dead block = double free, free
   of a block never handed out = foreign free), memset-to-zero and the CALLOC structure.
   The real allocator, the detection of double frees, the behaviour of decoders and encoders
   under a failing allocation and on failing paths are runtime facts: they are observed on the
   C by checks/c14.py (link-time ledger harness/allocwrap.c, every history x every failing
   allocation), which also compares the C's live-block counts with [owned]. *)
From Coq Require Import ZArith List Bool Permutation.
From A1 Require Import Rt.Types Rt.Heap Rt.HeapProofs Rt.Der Rt.DerProofs.
Import ListNotations.

(* every FREEMEM a free method performs hits a block the structure owns, every owned block is
   hit, the struct block itself exactly when the method is ASFM_FREE_EVERYTHING ... *)
Theorem C14_free_exact : forall t m p s,
  Permutation (free_model t m p s) (owned t (is_everything m) p s).
Proof. exact free_exact. Qed.
Print Assumptions C14_free_exact.

(* ... and no block is owned twice, so each is released exactly once *)
Theorem C14_owned_nodup : forall t b p s, NoDup (owned t b p s).
Proof. exact owned_nodup. Qed.
Print Assumptions C14_owned_nodup.

Theorem C14_free_each_once : forall t m p s, NoDup (free_model t m p s).
Proof. exact free_each_once. Qed.
Print Assumptions C14_free_each_once.

(* on the ledger: ASN_STRUCT_FREE commits no violation and leaves no block of the structure live *)
Theorem C14_free_balanced : forall t p s,
  run_frees (owned t true p s) (free_model t FreeEverything p s) = Some [].
Proof. exact free_balanced. Qed.
Print Assumptions C14_free_balanced.

(* ASN_STRUCT_RESET and ASN_STRUCT_FREE_CONTENTS_ONLY leave exactly the top block live *)
Theorem C14_reset_balanced : forall t p s, is_slot t = false -> shape t s = true ->
  run_frees (owned t true p s) (free_model t FreeUnderlyingAndReset p s) = Some [(p, KStruct)] /\
  run_frees (owned t true p s) (free_model t FreeUnderlying p s) = Some [(p, KStruct)].
Proof. exact reset_balanced. Qed.
Print Assumptions C14_reset_balanced.

(* after RESET the structure is the one a decoder given NULL would CALLOC; it owns nothing and a
   further RESET/FREE_CONTENTS_ONLY of it releases nothing *)
Theorem C14_reset_is_fresh : forall t s, shape t s = true ->
  after FreeUnderlyingAndReset s = Some (zero t) /\
  shape t (zero t) = true /\
  (forall p, owned t false p (zero t) = []) /\
  (forall p, free_model t FreeUnderlyingAndReset p (zero t) = []).
Proof. exact reset_is_fresh. Qed.
Print Assumptions C14_reset_is_fresh.

(* the structure a successful decode of a well-typed value builds is laid out for its type
   (so the theorems above apply to it) *)
Theorem C14_decoded_structures_are_shaped : forall oer_decoder t v, wt t v = true -> shape t (of_val oer_decoder t v) = true.
Proof. exact shape_of_val. Qed.
Print Assumptions C14_decoded_structures_are_shaped.

(* end to end on the model *)
Theorem C14_decoded_lifecycle : forall oer_decoder t v, is_slot t = false -> wt t v = true ->
  let s := of_val oer_decoder t v in
  apply_free t FreeEverything (owned t true [] s) s = (Some [], None) /\
  apply_free t FreeUnderlyingAndReset (owned t true [] s) s = (Some [([], KStruct)], Some (zero t)) /\
  owned t true [] (zero t) = [([], KStruct)].
Proof. exact decoded_lifecycle. Qed.
Print Assumptions C14_decoded_lifecycle.
