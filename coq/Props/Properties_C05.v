(* Properties_C05.v — chunked decoding equals one-shot decoding.
   Model: coq/Rt/Resume.v (generic restartable machine, feeding discipline of
   the manual, the reference BER decoder with More/Fail, machines modelled on
   ber_decode_primitive and ber_check_tags); tied to the C by checks/c05.py. *)
From Coq Require Import ZArith List Bool.
From A1 Require Import Base.Bytes Leaf.BerTL Rt.Types Rt.Comb Rt.Der Rt.DerProofs Rt.Resume Rt.ResumeProofs.
Import ListNotations.
Local Open Scope Z_scope.

(* every chunking of the input — any number of chunks, any sizes, empty and
   one-byte chunks included — fed to a coherent machine with the unconsumed
   bytes re-presented, ends with the one-shot code, consumed count and context
   (the decoded value lives in the context, as in the C) *)
Theorem C05_coherent_implies_chunk_independent :
  forall (ctx : Type) (step : ctx -> list Z -> code * nat * ctx), coherent step ->
  forall (c0 : ctx) (input : list Z) (chunks : list (list Z)),
    chunking_of input chunks -> feed0 step c0 chunks = step c0 input.
Proof. exact coherent_implies_chunk_independent. Qed.
Print Assumptions C05_coherent_implies_chunk_independent.

Theorem C05_coherent_bytewise :
  forall (ctx : Type) (step : ctx -> list Z -> code * nat * ctx), coherent step ->
  forall (c0 : ctx) (input : list Z), input <> [] ->
    feed0 step c0 (bytewise input) = step c0 input.
Proof. exact coherent_bytewise. Qed.
Print Assumptions C05_coherent_bytewise.

Theorem C05_coherent_prefix_of_ok :
  forall (ctx : Type) (step : ctx -> list Z -> code * nat * ctx), coherent step ->
  forall c0 p q k c', step c0 (p ++ q) = (OK, k, c') ->
  forall r1 k1 c1, step c0 p = (r1, k1, c1) -> r1 = MORE \/ (r1 = OK /\ k1 = k /\ c1 = c').
Proof. exact coherent_prefix_of_ok. Qed.
Print Assumptions C05_coherent_prefix_of_ok.

(* non-vacuity: a machine that consumes eagerly and keeps state is coherent *)
Theorem C05_toy_coherent : coherent toy_step.
Proof. exact toy_coherent. Qed.
Print Assumptions C05_toy_coherent.
