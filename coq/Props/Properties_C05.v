(* Properties_C05.v — chunked decoding equals one-shot decoding.
   Model: coq/Rt/Resume.v (generic restartable machine, feeding discipline of
   the manual, the reference BER decoder with More/Fail, machines modelled on
   ber_decode_primitive and ber_check_tags); tied to the C by checks/c05.py. *)
From Coq Require Import ZArith List Bool.
From A1 Require Import Base.Bytes Leaf.BerTL Leaf.BerTLProofs Rt.Types Rt.Comb Rt.Der Rt.DerProofs Rt.Resume Rt.ResumeProofs Rt.Oer Rt.ResumeX Rt.ResumeXProofs Rt.ResumeT Rt.ResumeTProofs Rt.SafetySkip Rt.ResumeS.
Import ListNotations.
Local Open Scope Z_scope.

(* every chunking of the input — any number of chunks, any sizes, empty and
   one-byte chunks included — fed to a coherent machine with the unconsumed
   bytes re-presented, ends with the one-shot code, consumed count and context
   (the decoded value lives in the context, as in the C) *)
Theorem C05_coherent_implies_chunk_independent :
  forall (ctx : Type) (step : ctx -> list Z -> code * nat * ctx), coherent step ->
  forall (c0 : ctx) (input : list Z) (chunks : list (list Z)),
    chunking_of input chunks -> feed0 step c0 chunks = step c0 input.
Proof. exact coherent_implies_chunk_independent. Qed.
Print Assumptions C05_coherent_implies_chunk_independent.

Theorem C05_coherent_bytewise :
  forall (ctx : Type) (step : ctx -> list Z -> code * nat * ctx), coherent step ->
  forall (c0 : ctx) (input : list Z), input <> [] ->
    feed0 step c0 (bytewise input) = step c0 input.
Proof. exact coherent_bytewise. Qed.
Print Assumptions C05_coherent_bytewise.

Theorem C05_coherent_prefix_of_ok :
  forall (ctx : Type) (step : ctx -> list Z -> code * nat * ctx), coherent step ->
  forall c0 p q k c', step c0 (p ++ q) = (OK, k, c') ->
  forall r1 k1 c1, step c0 p = (r1, k1, c1) -> r1 = MORE \/ (r1 = OK /\ k1 = k /\ c1 = c').
Proof. exact coherent_prefix_of_ok. Qed.
Print Assumptions C05_coherent_prefix_of_ok.

(* non-vacuity: a machine that consumes eagerly and keeps state is coherent *)
Theorem C05_toy_coherent : coherent toy_step.
Proof. exact toy_coherent. Qed.
Print Assumptions C05_toy_coherent.

(* C05, second half, on the reference decoder of the model (Rt/Resume.v ber_dec3 =
   Rt/Der.v ber_dec with the RC_WMORE / RC_FAIL distinction): every proper prefix
   of the DER encoding of a well-typed value of a well-formed type gives More —
   never OK, never Fail — with consumed 0 *)
Theorem C05_prefix_wmore : forall t v bs p q,
  wf_ty t = true -> wt t v = true -> der t v = Some bs -> zlen bs <= rssize_max ->
  bs = p ++ q -> q <> [] -> ber_dec3 t p = RMore /\ ber_decode3 t p = (MORE, 0, None).
Proof. exact prefix_wmore. Qed.
Print Assumptions C05_prefix_wmore.

(* the fetchers never change a definite answer when more bytes arrive *)
Theorem C05_fetch_tag_ext : forall buf more,
  match fetch_tag buf with FMore => True | r => fetch_tag (buf ++ more) = r end.
Proof. exact fetch_tag_ext. Qed.
Print Assumptions C05_fetch_tag_ext.

Theorem C05_fetch_length_ext : forall c buf more,
  match fetch_length c buf with FMore => True | r => fetch_length c (buf ++ more) = r end.
Proof. exact fetch_length_ext. Qed.
Print Assumptions C05_fetch_length_ext.

(* machine modelled on ber_decode_primitive (asn_codecs_prim.c) *)
Theorem C05_prim_coherent : forall tg, coherent (prim_step tg).
Proof. exact prim_coherent. Qed.
Print Assumptions C05_prim_coherent.

(* machine modelled on ber_check_tags with a restart context (ber_decoder.c), as the
   constructed decoders call it: coherent for every chain of tags (any number of
   EXPLICIT tags, definite and indefinite lengths): the locals limit_len and
   expect_00_terminators travel in the context.  Finding C05-ber-tagchain-restart
   (fixed) was the refutation of this statement for chains of two tags. *)
Theorem C05_chain_coherent : forall tags, coherent (chain_step tags).
Proof. exact chain_coherent. Qed.
Print Assumptions C05_chain_coherent.

Theorem C05_chain_chunk_independent : forall tags input chunks,
  chunking_of input chunks -> feed0 (chain_step tags) chain_ctx0 chunks = chain_step tags chain_ctx0 input.
Proof. exact chain_chunk_independent. Qed.
Print Assumptions C05_chain_chunk_independent.

(* ---- the XER string body (Rt/ResumeX.v entref_step = OCTET_STRING__convert_entrefs under
   xer_decode_general: a complete reference becomes its character; a reference cut by the
   end of the buffer is not consumed, RC_WMORE): coherent, hence the same string, code and
   consumed count for every chunking *)
Theorem C05_entref_coherent : coherent entref_step.
Proof. exact entref_coherent. Qed.
Print Assumptions C05_entref_coherent.

Theorem C05_entref_chunk_independent : forall acc input chunks,
  chunking_of input chunks -> feed0 entref_step acc chunks = entref_step acc input.
Proof. exact entref_chunk_independent. Qed.
Print Assumptions C05_entref_chunk_independent.

(* the value: the text the XER encoder writes for a string s ("&amp;" "&lt;" "&gt;" for the
   three characters it escapes), followed by the closing tag, is read back as s *)
Theorem C05_entref_roundtrip : forall s rest,
  entref_step [] (xer_escape s ++ 60 :: rest) = (OK, length (xer_escape s), s).
Proof. exact entref_roundtrip. Qed.
Print Assumptions C05_entref_roundtrip.

(* the reader has no failing input: whatever the text (a reference to the code point 0 -
   "&#0;", "&#;", "&#x;" - included: its '&' is copied verbatim since the repair of
   C05-xer-entref-nul-abort / C04-xer-charref-zero-assert), the answer is RC_OK when the
   closing '<' is in the window and RC_WMORE otherwise, and never more is consumed than given *)
Theorem C05_entref_total : forall acc w,
  exists k o, (k <= length w)%nat /\
    entref_step acc w = ((if find_lt w O then OK else MORE), k, acc ++ o).
Proof. exact entref_total. Qed.
Print Assumptions C05_entref_total.

(* ---- OER: skipping the open type of an extension addition the reader does not know
   (oer_open_type_skip; full = true: determinant and contents must be in the window, the
   repaired code and X.696; full = false: the code before the repair) *)
Theorem C05_oer_skip_coherent : forall full, coherent (skip_step full).
Proof. exact skip_coherent. Qed.
Print Assumptions C05_oer_skip_coherent.

Theorem C05_oer_skip_prefix_wmore : forall c p q,
  zlen c <= rssize_max -> oer_open c = p ++ q -> q <> [] -> skip_step true tt p = (MORE, O, tt).
Proof. exact skip_prefix_wmore. Qed.
Print Assumptions C05_oer_skip_prefix_wmore.

Theorem C05_oer_skip_whole : forall c rest, zlen c <= rssize_max ->
  skip_step true tt (oer_open c ++ rest) = (OK, length (oer_open c), tt).
Proof. exact skip_whole. Qed.
Print Assumptions C05_oer_skip_whole.

Theorem C05_oer_skip_prefix_wmore_c_refuted : exists c p q,
  zlen c <= rssize_max /\ oer_open c = p ++ q /\ q <> [] /\ skip_step false tt p = (OK, 1%nat, tt).
Proof. exact skip_prefix_wmore_c_refuted. Qed.
Print Assumptions C05_oer_skip_prefix_wmore_c_refuted.

(* the loop of SEQUENCE_decode_oer phase 4 over the unread rest of the presence bitmap *)
Theorem C05_oer_skips_coherent : forall full, coherent (skips_step full).
Proof. exact skips_coherent. Qed.
Print Assumptions C05_oer_skips_coherent.

Theorem C05_oer_skips_chunk_independent : forall full bits input chunks,
  chunking_of input chunks -> feed0 (skips_step full) bits chunks = skips_step full bits input.
Proof. exact skips_chunk_independent. Qed.
Print Assumptions C05_oer_skips_chunk_independent.

Theorem C05_oer_skips_whole : forall cs rest, adds_ok cs ->
  skips_step true (adds_bits cs) (adds_enc cs ++ rest) = (OK, length (adds_enc cs), []).
Proof. exact skips_whole. Qed.
Print Assumptions C05_oer_skips_whole.

Theorem C05_oer_skips_prefix_wmore : forall cs p q, adds_ok cs -> adds_enc cs = p ++ q -> q <> [] ->
  exists k bits', skips_step true (adds_bits cs) p = (MORE, k, bits') /\ (k <= length p)%nat.
Proof. exact skips_prefix_wmore. Qed.
Print Assumptions C05_oer_skips_prefix_wmore.

(* ---- third layer (Rt/ResumeT.v): ber_check_tags with its tag_mode (-1 IMPLICIT in place, 0, +1 EXPLICIT in
   place: what the member table says for a member that tags a REFERENCE) and last_tag_form (1, 0, -1) *)

(* restart test on ctx->step (the code): coherent whatever the tag_mode, the demanded last form, the tags *)
Theorem C05_chainm_coherent : forall mode ltf tags, coherent (chainm_step KStep mode ltf tags).
Proof. exact chainm_coherent. Qed.
Print Assumptions C05_chainm_coherent.

(* hence every chunking ends like the one-shot call: code, octets consumed, and the context handed to the
   caller: ctx->left = the last length, or minus the number of end-of-contents pairs still owed *)
Theorem C05_chainm_chunk_independent : forall mode ltf tags input chunks,
  chunking_of input chunks ->
  feed0 (chainm_step KStep mode ltf tags) chain_ctx0 chunks = chainm_step KStep mode ltf tags chain_ctx0 input.
Proof. exact chainm_chunk_independent. Qed.
Print Assumptions C05_chainm_chunk_independent.

(* the restart test written on tagno (= step - 1 for tag_mode +1): the same function for tag_mode 0 and -1 ... *)
Theorem C05_chainm_tagno_agrees : forall mode ltf tags c w,
  mode <> 1 -> chainm_step KTagno mode ltf tags c w = chainm_step KStep mode ltf tags c w.
Proof. exact chainm_tagno_agrees. Qed.
Print Assumptions C05_chainm_tagno_agrees.

Theorem C05_chainm_tagno_coherent : forall mode ltf tags, mode <> 1 -> coherent (chainm_step KTagno mode ltf tags).
Proof. exact chainm_tagno_coherent. Qed.
Print Assumptions C05_chainm_tagno_coherent.

(* ... and not chunk independent for tag_mode +1: a5 80 | 30 80 under `w [5] EXPLICIT Inner` *)
Theorem C05_chainm_tagno_refuted :
  exists tags input chunks, chunking_of input chunks /\
    feed0 (chainm_step KTagno 1 1 tags) chain_ctx0 chunks <> chainm_step KTagno 1 1 tags chain_ctx0 input.
Proof. exact chainm_tagno_refuted. Qed.
Print Assumptions C05_chainm_tagno_refuted.

(* tag_mode 0 with last_tag_form 1 is the machine of the first layer *)
Theorem C05_chainm_mode0_is_chain : forall tags c w, chainm_step KStep 0 1 tags c w = chain_step tags c w.
Proof. exact chainm_mode0_is_chain. Qed.
Print Assumptions C05_chainm_mode0_is_chain.

(* ber_decode_primitive for a member that tags a reference to a primitive type in place (ber_check_tags without a
   restart context, tag_mode -1 / 0 / +1, any number of own tags): nothing consumed until the whole TLV chain is there *)
Theorem C05_primm_coherent : forall mode tags, coherent (primm_step mode tags).
Proof. exact primm_coherent. Qed.
Print Assumptions C05_primm_coherent.

Theorem C05_primm_chunk_independent : forall mode tags input chunks,
  chunking_of input chunks -> feed0 (primm_step mode tags) None chunks = primm_step mode tags None input.
Proof. exact primm_chunk_independent. Qed.
Print Assumptions C05_primm_chunk_independent.

(* fourth layer (Rt/ResumeS.v): the branch of SET_decode_ber / CHOICE_decode_ber / SEQUENCE_decode_ber that skips a TLV
   the reader does not know (extensible type, newer sender): every final answer of ber_skip_length (a count, the error)
   is stable under more input; the branch - nothing consumed on RC_WMORE, tag + L + V advanced over in one step - is
   coherent, so every chunking ends like the one-shot call; the variant that advances over the tag before asking for
   the length (RC_WMORE with the tag octets consumed, no state recording it) is not resumable *)
Theorem C05_ber_skip_length_final : forall c buf r ext,
  ber_skip_length c buf = r -> sfin r -> ber_skip_length c (buf ++ ext) = r.
Proof. exact ber_skip_length_final. Qed.
Print Assumptions C05_ber_skip_length_final.

Theorem C05_skipu_coherent : coherent (skipu_step false).
Proof. exact skipu_coherent. Qed.
Print Assumptions C05_skipu_coherent.

Theorem C05_skipu_chunk_independent : forall input chunks,
  chunking_of input chunks -> feed0 (skipu_step false) tt chunks = skipu_step false tt input.
Proof. exact skipu_chunk_independent. Qed.
Print Assumptions C05_skipu_chunk_independent.

Theorem C05_skipu_tag_first_oneshot_same : forall w, fst (skip_unknown true w) = fst (skip_unknown false w) /\
  (fst (skip_unknown false w) = OK -> skip_unknown true w = skip_unknown false w).
Proof. exact skipu_oneshot_same. Qed.
Print Assumptions C05_skipu_tag_first_oneshot_same.

Theorem C05_skipu_tag_first_refuted : ~ resumable (skipu_step true).
Proof. exact skipu_tag_first_refuted. Qed.
Print Assumptions C05_skipu_tag_first_refuted.
