(* Properties_C09.v — PER/OER-visible constraints are the effective constraint.
   Only statements, each closed by [exact] of a lemma proved in Fix/CrangeProofs.v
   or Fix/PerOerProofs.v, with Print Assumptions beneath.  Model: Fix/Crange.v,
   Fix/PerOerVisible.v (tied to libasn1fix/asn1fix_crange.c, asn1fix_constraint.c,
   libasn1compiler/asn1c_C.c and libasn1print/asn1print.c by bin/vcheck C09);
   Spec: Fix/CtSpec.v.

   What is proved: the interval algebra (layer i of the design) and the table
   emitter; compute on a leaf.  What is NOT proved: the recursive compute over
   whole constraint trees against CtSpec.per_effective (crange_effective); that
   statement is refuted by four witnesses below and otherwise only tested by the
   check's oracle. *)
From Coq Require Import ZArith List Bool Permutation.
From A1 Require Import Fix.Crange Fix.PerOerVisible Fix.CtSpec Fix.CrangeProofs Fix.PerOerProofs Fix.CtNest Fix.CtNestProofs.
Import ListNotations.
Local Open Scope Z_scope.

(* -- _range_split: the pieces cover exactly ra (split_cover), as long as the
      INTMAX guards are not hit; with them the cover is lost -- *)
Theorem C09_split_cover_partial : forall ra rb ps,
  split ra rb = Some ps -> wfp ra -> wfp rb -> guard_free rb ->
  (forall z, inl ps z <-> inp ra z) /\ Forall wfp ps.
Proof. exact split_some. Qed.
Print Assumptions C09_split_cover_partial.

Theorem C09_split_cover_refuted : exists ra rb ps z,
  split ra rb = Some ps /\ wfp ra /\ wfp rb /\ inp ra z /\ ~ inl ps z.
Proof. exact split_cover_refuted. Qed.
Print Assumptions C09_split_cover_refuted.

Theorem C09_split_none_inside : forall ra rb,
  split ra rb = None -> overlap ra rb = true -> forall z, inp ra z -> inp rb z.
Proof. exact split_none. Qed.
Print Assumptions C09_split_none_inside.

(* -- _range_intersection (unflagged / PER mode): [[inter r w]] = [[r]] /\ [[w]],
      for every fuel the model passes (result IOk, i.e. not IFuel) -- *)
Theorem C09_intersection_denotes : forall r w strict r',
  range_intersection r w strict false = IOk r' ->
  wfr r -> wfr w -> Forall guard_free (parts w) ->
  (forall z, den r' z <-> den r z /\ den w z) /\ wfr r'.
Proof. exact intersection_denotes. Qed.
Print Assumptions C09_intersection_denotes.

(* -- _range_union: sort + merge of overlapping / adjacent elements keeps the set -- *)
Theorem C09_union_denotes : forall els, Forall wfp els ->
  (forall z, inl (range_union els) z <-> inl els z) /\ Forall wfp (range_union els).
Proof. exact union_denotes. Qed.
Print Assumptions C09_union_denotes.

(* -- canonical form: the result of _range_union is sorted and consecutive
      elements are separated by a gap of at least one integer
      (snd a = EV x, fst b = EV y, x + 1 < y) -- *)
Theorem C09_canonical_sorted_disjoint : forall els, Forall wfp els -> chain_gap (range_union els).
Proof. exact canonical_sorted_disjoint. Qed.
Print Assumptions C09_canonical_sorted_disjoint.

(* -- _range_canonicalize keeps the set -- *)
Theorem C09_canonicalize_denotes : forall r, wfr r ->
  (forall z, den (range_canonicalize r) z <-> den r z) /\ wfr (range_canonicalize r).
Proof. exact canonicalize_denotes. Qed.
Print Assumptions C09_canonicalize_denotes.

(* -- compute on a leaf "(lo..hi)" / "(v)" applied to a parent range m selects
      the values of the parent between the endpoints (MIN / MAX = the parent's) -- *)
Theorem C09_leaf_denotes_partial : forall lo hi m r,
  wfr m -> leaf lo hi VisNone (Some m) true = ROk r ->
  wfp (fill lo (Some m), fill hi (Some m)) -> guard_free (fill lo (Some m), fill hi (Some m)) ->
  (forall z, den r z <-> den m z /\ inp (fill lo (Some m), fill hi (Some m)) z) /\ wfr r.
Proof. exact leaf_denotes_partial. Qed.
Print Assumptions C09_leaf_denotes_partial.

(* -- the emitted asn_per_constraint_t row is the X.691 layout of (lower bound,
      upper bound, marker) of the computed range: range_bits = ceil(log2(ub-lb+1)),
      effective_bits rule, flags -- except for an extensible range without lower
      bound, which loses its extension bit -- *)
Theorem C09_per_row_is_layout_partial : forall rg,
  r_incompat rg = false -> r_notPER rg = false -> r_empty rg = false ->
  r_left rg <> EMax -> r_right rg <> EMin ->
  (forall lo hi, r_left rg = EV lo -> r_right rg = EV hi -> lo <= hi /\ hi - lo + 1 <= two128) ->
  (r_left rg = EMin -> r_ext rg = false) ->
  per_row_of (Some rg) = tables_of (eff_of_range rg).
Proof. exact per_row_is_layout_partial. Qed.
Print Assumptions C09_per_row_is_layout_partial.

Theorem C09_per_row_is_layout_refuted : exists rg,
  r_incompat rg = false /\ r_notPER rg = false /\ r_empty rg = false /\
  per_row_of (Some rg) <> tables_of (eff_of_range rg).
Proof. exact per_row_is_layout_refuted. Qed.
Print Assumptions C09_per_row_is_layout_refuted.

(* -- equal hull and marker => equal row (the table-level half of
      equal_sets_equal_layout) -- *)
Theorem C09_equal_hull_equal_row : forall r1 r2,
  r_incompat r1 = false -> r_notPER r1 = false -> r_incompat r2 = false -> r_notPER r2 = false ->
  r_left r1 = r_left r2 -> r_right r1 = r_right r2 -> r_ext r1 = r_ext r2 -> r_empty r1 = r_empty r2 ->
  per_row_of (Some r1) = per_row_of (Some r2).
Proof. exact equal_hull_equal_row. Qed.
Print Assumptions C09_equal_hull_equal_row.

(* -- crange_effective, the full statement
        forall chain, accepted chain -> root not empty ->
          fst (per_tables TInteger (pullup false chain)) = tables_of (per_effective false chain)
      is false of the code; one witness per known finding -- *)
Theorem C09_crange_effective_refuted_additions : exists chain,
  accepted chain /\ e_empty (per_effective false chain) = false /\ ~ crange_effective_at chain.
Proof. exact crange_effective_refuted_additions. Qed.
Print Assumptions C09_crange_effective_refuted_additions.

Theorem C09_crange_effective_refuted_chain_marker : exists chain,
  accepted chain /\ e_empty (per_effective false chain) = false /\ ~ crange_effective_at chain.
Proof. exact crange_effective_refuted_chain_marker. Qed.
Print Assumptions C09_crange_effective_refuted_chain_marker.

Theorem C09_crange_effective_refuted_empty_operand : exists chain,
  accepted chain /\ e_empty (per_effective false chain) = false /\ ~ crange_effective_at chain.
Proof. exact crange_effective_refuted_empty_operand. Qed.
Print Assumptions C09_crange_effective_refuted_empty_operand.

Theorem C09_crange_effective_refuted_unconstrained_ext : exists chain,
  accepted chain /\ e_empty (per_effective false chain) = false /\ ~ crange_effective_at chain.
Proof. exact crange_effective_refuted_unconstrained_ext. Qed.
Print Assumptions C09_crange_effective_refuted_unconstrained_ext.

(* ==== nested extension markers (Fix/CtNest.v, Fix/CtNestProofs.v) ====
   Markers inside the operands of set arithmetic — SIZE(...) operands; the grammar
   has no other nested marker.  Spec: X.680 G.4 extensibility of set arithmetic
   (CtNest.next); model: the operand loop of ACT_CA_UNI / ACT_CA_CSV in
   asn1constraint_compute_constraint_range with _range_merge_in. *)

(* Spec: the flag of a union does not depend on the order of the operands ... *)
Theorem C09_ext_union_comm : forall a b, next (NUnion a b) = next (NUnion b a).
Proof. exact next_union_comm. Qed.
Print Assumptions C09_ext_union_comm.

(* ... it is the disjunction over the operands, for unions of any length ... *)
Theorem C09_ext_union_is_disjunction : forall a l, next (nunions a l) = existsb next (a :: l).
Proof. exact next_nunions_all. Qed.
Print Assumptions C09_ext_union_is_disjunction.

(* ... hence invariant under every permutation of the operands *)
Theorem C09_ext_union_perm : forall a l b l',
  Permutation (a :: l) (b :: l') -> next (nunions a l) = next (nunions b l').
Proof. exact next_nunions_perm. Qed.
Print Assumptions C09_ext_union_perm.

(* the "first operand only" reading is neither *)
Theorem C09_ext_first_operand_only_refuted : exists a b,
  next_first (NUnion a b) <> next_first (NUnion b a) /\
  next_first (NUnion a b) <> (next a || next b).
Proof. exact next_first_refuted. Qed.
Print Assumptions C09_ext_first_operand_only_refuted.

(* model: folding the computed operands with _range_merge_in gives the disjunction
   of their flags, in any order *)
Theorem C09_merge_fold_ext_is_disjunction : forall rest first,
  r_ext (uni_fold range_merge_in first rest) = r_ext first || existsb r_ext rest.
Proof. exact uni_fold_ext. Qed.
Print Assumptions C09_merge_fold_ext_is_disjunction.

Theorem C09_merge_fold_ext_perm : forall a l b l',
  Permutation (a :: l) (b :: l') ->
  r_ext (uni_fold range_merge_in a l) = r_ext (uni_fold range_merge_in b l').
Proof. exact uni_fold_ext_perm. Qed.
Print Assumptions C09_merge_fold_ext_perm.

(* without `into->extensible |= cr->extensible` in _range_merge_in the flag
   depends on the order of two non-empty operands *)
Theorem C09_merge_without_ext_refuted : exists a b,
  r_empty a = false /\ r_empty b = false /\
  r_ext (uni_fold merge_in_noext a [b]) <> r_ext (uni_fold merge_in_noext b [a]) /\
  r_ext (uni_fold merge_in_noext a [b]) <> (r_ext a || r_ext b).
Proof. exact uni_fold_noext_refuted. Qed.
Print Assumptions C09_merge_without_ext_refuted.

(* model: Crange.compute on a union node whose operands compute to compatible,
   PER-visible ranges IS that fold (any number of operands) ... *)
Theorem C09_compute_union_is_fold : forall rq v minmax c t cs ts,
  op_ok rq v minmax c t -> Forall2 (op_ok rq v minmax) cs ts ->
  forall ex, exists ex',
    compute (PUni (c :: cs)) rq v minmax ex =
    (ROk (range_canonicalize (uni_fold range_merge_in (first_acc minmax t) ts)), ex').
Proof. exact compute_uni_is_fold. Qed.
Print Assumptions C09_compute_union_is_fold.

(* ... so the extensible flag of the computed union is the disjunction of the
   operands' flags (and the parent's) ... *)
Theorem C09_compute_union_ext : forall rq v minmax c t cs ts,
  op_ok rq v minmax c t -> Forall2 (op_ok rq v minmax) cs ts ->
  forall ex, exists r ex',
    compute (PUni (c :: cs)) rq v minmax ex = (ROk r, ex') /\
    r_ext r = r_ext (match minmax with Some m => m | None => range_new end) || existsb r_ext (t :: ts).
Proof. exact compute_uni_ext. Qed.
Print Assumptions C09_compute_union_ext.

(* ... and two unions over the same operands in different orders get the same flag *)
Theorem C09_compute_union_ext_perm : forall rq v minmax c t cs ts c' t' cs' ts',
  op_ok rq v minmax c t -> Forall2 (op_ok rq v minmax) cs ts ->
  op_ok rq v minmax c' t' -> Forall2 (op_ok rq v minmax) cs' ts' ->
  Permutation (t :: ts) (t' :: ts') ->
  forall ex1 ex2, exists r1 e1 r2 e2,
    compute (PUni (c :: cs)) rq v minmax ex1 = (ROk r1, e1) /\
    compute (PUni (c' :: cs')) rq v minmax ex2 = (ROk r2, e2) /\
    r_ext r1 = r_ext r2.
Proof. exact compute_uni_ext_perm. Qed.
Print Assumptions C09_compute_union_ext_perm.

(* a SIZE operand is computed in the same state whatever precedes it *)
Theorem C09_size_operand_state_independent : forall c v minmax ex,
  compute (PSize c) ReqSize v minmax ex = compute (PSize c) ReqSize v minmax true.
Proof. exact compute_size_exmet. Qed.
Print Assumptions C09_size_operand_state_independent.

(* whole expressions: the un-parenthesised SEQUENCE SIZE(...) OF spelling has the
   combined constraint of the parenthesised one along every reference chain
   (was: marker lost, C09-bare-size-marker-lost; assert on a constrained
   reference, C09-bare-size-child-assert; both repaired in asn1constraint_pullup) *)
Theorem C09_bare_size_same_as_parenthesised : forall s rest,
  npullup true ([NRoot (NSize s)] :: rest) = npullup false ([NRoot (NSize s)] :: rest).
Proof. exact bare_size_same. Qed.
Print Assumptions C09_bare_size_same_as_parenthesised.
