(* Properties_C10.v — accepted specifications yield internally consistent descriptors.
   Only statements, each closed by [exact] of a lemma proved elsewhere, with Print
   Assumptions beneath.  Checker and runtime-lookup model: Rt/WfDescr.v; tied to the
   code asn1c generates by harness/dumpdescr.c, which regenerates Gen_Descr_<n>.v on
   every run of bin/vcheck C10. *)
From Coq Require Import ZArith List Bool.
From A1 Require Import Rt.WfDescr Rt.WfDescrProofs.
Import ListNotations.
Open Scope Z_scope.

Theorem C10_member_types_exist : forall T d m, wf_descr_all T = true -> In d (t_descrs T) -> In m (d_elems d) ->
  exists d', nthZ (t_descrs T) (m_type m) = Some d'.
Proof. exact member_types_exist. Qed.
Print Assumptions C10_member_types_exist.
