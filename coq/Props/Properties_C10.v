(* Properties_C10.v — accepted specifications yield internally consistent descriptors.
   Only statements, each closed by [exact] of a lemma proved elsewhere, with Print
   Assumptions beneath.  Checker and the model of the runtime's lookups: Rt/WfDescr.v;
   tied to the code asn1c generates by harness/dumpdescr.c, which regenerates
   Gen_Descr_<n>.v (obligation: wf_descr_all tab = true) on every run of bin/vcheck C10.
   What is NOT here (observed per run, not proved): asn1c terminates by exit, and the C
   compiler accepts its output. *)
From Coq Require Import ZArith List Bool.
From A1 Require Import Rt.WfDescr Rt.WfDescrProofs.
Import ListNotations.
Open Scope Z_scope.

(* -- binary search, as bsearch(3) performs it, over any table the comparator splits into
      below / matching / above, finds a match iff a linear scan does -- *)
Theorem C10_bsearch_correct : forall (A : Type) (c : A -> comparison) (tbl : list A),
  partitioned c tbl -> (linear c tbl = true <-> exists j, bsearch c tbl = Some j).
Proof. exact (@bsearch_correct). Qed.
Print Assumptions C10_bsearch_correct.

(* -- CHOICE / SET decoders (key = tag, _t2e_cmp on class then number): on a map the checker accepts
      as sorted, the search succeeds iff some entry carries the tag, and it returns such an entry -- *)
Theorem C10_bsearch_tag_correct : forall t key, ssorted t2e_lt_strict t = true ->
  ((exists e, In e t /\ te_tag e = key) <->
   exists j e, bsearch (tag_key_cmp key) t = Some j /\ nth_error t j = Some e /\ te_tag e = key).
Proof. exact bsearch_tag_correct. Qed.
Print Assumptions C10_bsearch_tag_correct.

(* -- SEQUENCE decoder (key = tag and current member index; equal tags are ordered by el_no and the
      comparison sends a key with a larger el_no to the right) -- *)
Theorem C10_bsearch_seq_correct : forall t key edx, ssorted t2e_lt_seq t = true ->
  ((exists e, In e t /\ te_tag e = key /\ edx <= te_el e) <->
   exists j e, bsearch (seq_cmp key edx) t = Some j /\ nth_error t j = Some e /\ te_tag e = key /\ edx <= te_el e).
Proof. exact bsearch_seq_correct. Qed.
Print Assumptions C10_bsearch_seq_correct.

(* -- end to end on an accepted table: every alternative / member with a known tag is found by the lookup -- *)
Theorem C10_choice_member_found : forall T d i m, wf_descr_all T = true -> In d (t_descrs T) -> d_kind d = KChoice ->
  nth_error (d_elems d) i = Some m -> m_tag m <> -1 ->
  exists t canon es j e, d_spec d = SChoice t canon es /\ bsearch (tag_key_cmp (m_tag m)) t = Some j
                     /\ nth_error t j = Some e /\ te_tag e = m_tag m.
Proof. exact choice_member_found. Qed.
Print Assumptions C10_choice_member_found.

Theorem C10_sequence_member_found : forall T d i m edx, wf_descr_all T = true -> In d (t_descrs T) -> d_kind d = KSeq ->
  nth_error (d_elems d) i = Some m -> m_tag m <> -1 -> edx <= Z.of_nat i ->
  exists t oms roms aoms fe j e, d_spec d = SSeq t oms roms aoms fe /\ bsearch (seq_cmp (m_tag m) edx) t = Some j
                     /\ nth_error t j = Some e /\ te_tag e = m_tag m /\ edx <= te_el e.
Proof. exact sequence_member_found. Qed.
Print Assumptions C10_sequence_member_found.

(* -- UPER/OER SEQUENCE preamble: the encoder writes bit k for member oms[k] (k < roms_count); the decoder
      gives member i the bit number "optional members before i".  On an accepted descriptor these agree -- *)
Theorem C10_oms_index_correct : forall T d, (t_per T || t_oer T) = true -> seq_ok T d = true ->
  (forall k, Z.of_nat k < seq_roms d ->
     exists i m, nth_error (seq_oms d) k = Some (Z.of_nat i) /\ (i < seq_root_end d)%nat /\
                 nth_error (d_elems d) i = Some m /\ is_opt m = true /\ decoder_bit_position (d_elems d) i = Z.of_nat k)
  /\
  (forall i m, (i < seq_root_end d)%nat -> nth_error (d_elems d) i = Some m -> is_opt m = true ->
     0 <= decoder_bit_position (d_elems d) i < seq_roms d /\
     nth_error (seq_oms d) (Z.to_nat (decoder_bit_position (d_elems d) i)) = Some (Z.of_nat i)).
Proof. exact oms_index_correct. Qed.
Print Assumptions C10_oms_index_correct.

(* -- CHOICE canonical-order tables: mutually inverse permutations of 0..n-1 (which of the two is the
      RIGHT one for X.691 is property C02's business: finding C02-uper-choice-order) -- *)
Theorem C10_canonical_inverse : forall n a b, inverse_perms n a b = true ->
  forall i, 0 <= i < n ->
    exists x y, nthZ a i = Some x /\ 0 <= x < n /\ nthZ b x = Some i
             /\ nthZ b i = Some y /\ 0 <= y < n /\ nthZ a y = Some i.
Proof. exact canonical_inverse. Qed.
Print Assumptions C10_canonical_inverse.

(* -- every descriptor a member refers to is in the table -- *)
Theorem C10_member_types_exist : forall T d m, wf_descr_all T = true -> In d (t_descrs T) -> In m (d_elems d) ->
  exists d', nthZ (t_descrs T) (m_type m) = Some d'.
Proof. exact member_types_exist. Qed.
Print Assumptions C10_member_types_exist.

(* ================= round 2: parameterized types (Fix/ParamSpec.v) and the per-type file set (Fix/FileSet.v) =================
   Tied to the C per run: checks/c10.py reads the specialization index of every instantiation site out of the generated
   headers (<Template>_<line>P<k>) and the "Compiled <stem>.c" lines of asn1c, and compares them with
   ParamSpec.spec_indices / FileSet.file_stems computed by the extracted model. *)
From A1 Require Import Fix.Printer Fix.NameClash Fix.ParamSpec Fix.ParamSpecProofs Fix.FileSet Fix.FileSetProofs.

(* -- asn1p_expr_compare (as compare_specializations uses it) says "equal" exactly when the two actual parameter lists
      agree after erasing subtype constraints and nested actual parameter lists, and no value set is compared -- *)
Theorem C10_spec_compare_characterised : forall a b, ecmp a b = CEq <-> key a = key b /\ novs (key a) = true.
Proof. exact ecmp_eq_iff. Qed.
Print Assumptions C10_spec_compare_characterised.

(* -- the lookup loop of asn1f_parameterization_fork never reaches the unimplemented constraint comparison
      (the "terminates by exit" clause, for this loop): every reference list free of value sets gets its indices
      ([novs]: no value set in a compared position) -- *)
Theorem C10_spec_lookup_total : forall refs, Forall (fun a => novs (key a) = true) refs ->
  exists ks, spec_indices refs = Some ks /\ length ks = length refs.
Proof. exact assign_total. Qed.
Print Assumptions C10_spec_lookup_total.

(* -- THE decision: two references to a template share a C type iff their actual parameter lists have the same key;
      indices are dense in order of first use -- *)
Theorem C10_spec_index_partition : forall refs ks, Forall (fun a => novs (key a) = true) refs -> spec_indices refs = Some ks ->
  length ks = length refs /\
  forall i j a b ki kj, nth_error refs i = Some a -> nth_error refs j = Some b -> nth_error ks i = Some ki -> nth_error ks j = Some kj ->
    (ki = kj <-> key a = key b).
Proof. exact spec_index_partition. Qed.
Print Assumptions C10_spec_index_partition.

Theorem C10_spec_index_dense : forall refs ks i k, spec_indices refs = Some ks -> nth_error ks i = Some k -> (k <= i)%nat.
Proof. exact spec_index_dense. Qed.
Print Assumptions C10_spec_index_dense.

(* -- resolving the same reference again (the fixer does, several times per reference) changes nothing -- *)
Theorem C10_spec_fork_idempotent : forall tbl a tbl' k, tbl_ok tbl -> novs (key a) = true -> fork tbl a = Some (tbl', k) ->
  fork tbl' a = Some (tbl', k).
Proof. exact fork_idempotent. Qed.
Print Assumptions C10_spec_fork_idempotent.

(* -- the defect of the unchanged tree, stated: constraints and nested parameter lists never influence the index ... -- *)
Theorem C10_spec_ignores_constraints : forall refs, spec_indices (map key refs) = spec_indices refs.
Proof. exact spec_ignores_constraints. Qed.
Print Assumptions C10_spec_ignores_constraints.

(* ... so "different actual parameters, different C type" is refuted: P {INTEGER (0..7)} / P {INTEGER (0..255)} and
   P {Q {BOOLEAN}} / P {Q {INTEGER}} are one specialization (finding C10-param-actuals-compared-shallowly; replayed on the
   C by the modules PaTwice and PaNestedActual of every run) *)
Theorem C10_spec_distinct_constraints_refuted : exists a b, a <> b /\ spec_indices [wrap [a]; wrap [b]] = Some [0; 0]%nat.
Proof. exact distinct_constraints_share_refuted. Qed.
Print Assumptions C10_spec_distinct_constraints_refuted.

Theorem C10_spec_distinct_nested_refuted : exists a b, a <> b /\ spec_indices [wrap [a]; wrap [b]] = Some [0; 0]%nat.
Proof. exact distinct_nested_actuals_share_refuted. Qed.
Print Assumptions C10_spec_distinct_nested_refuted.

(* -- the per-type files: on a module list asn1c accepts, whose names are ASN.1 names, no two top-level expressions are
      saved under the same stem (nothing is overwritten, every #include "<stem>.h" has one referent) -- *)
Theorem C10_file_name_injective : forall ms e1 e2, clean ms = true -> In e1 (flat ms) -> In e2 (flat ms) ->
  cname ms e1 = cname ms e2 -> e1 = e2.
Proof. exact cname_injective. Qed.
Print Assumptions C10_file_name_injective.

Theorem C10_file_stems_nodup : forall ms stems, clean (map to_nmod ms) = true -> file_stems ms = Some stems -> NoDup stems.
Proof. exact file_stems_nodup. Qed.
Print Assumptions C10_file_stems_nodup.

(* -- and the module prefix cannot be dropped: wherever it is added the bare identifier belongs to another expression too -- *)
Theorem C10_file_prefix_necessary : forall ms e, marked ms e = true -> exists e', In e' (flat ms) /\ e' <> e /\ snd e' = snd e.
Proof. exact prefix_necessary. Qed.
Print Assumptions C10_file_prefix_necessary.

(* ================= round 3: type references (Rt/WfAlias.v) =================
   An [xtable] = the dumped table + the identity of every pointer-valued slot (harness/dumpdescr.c, `#X` lines) + the
   reference hops `A ::= [tag] T (constraint)` the generator of the module knows (lib/c10_refs.py).  The generated
   obligation of every module is now [wf_x xtab = true] (it contains [wf_descr_all]); the theorems say what that buys
   for chains of references of ANY length. *)
From A1 Require Import Rt.WfAlias Rt.WfAliasProofs.

(* -- a reference descriptor has the op table, the member table (same C object, same content), the element count and
      the representation facts of the type its chain ends in (its C type is a typedef of that type's); its tag vectors
      are the X.680 tagging of that type's along the chain; its specifics are the SAME record for every kind but
      INTEGER / REAL, and equal in content along hops that do not re-constrain an INTEGER / REAL ([rigid]) -- *)
Theorem C10_alias_chain_invariant : forall X i j path, wf_x X = true -> reaches X i j path ->
  forall a xa, nthZ (t_descrs (xt_tab X)) i = Some a -> nthZ (xt_x X) i = Some xa ->
  exists t xt, nthZ (t_descrs (xt_tab X)) j = Some t /\ nthZ (xt_x X) j = Some xt
    /\ d_kind a = d_kind t /\ x_op xa = x_op xt /\ x_el xa = x_el xt /\ x_ec xa = x_ec xt /\ d_elems a = d_elems t
    /\ x_rep xa = x_rep xt /\ int_width (d_spec a) = int_width (d_spec t)
    /\ d_tags a = chain_tags path (d_tags t) /\ d_all a = chain_all path (d_all t)
    /\ (numeric_kind (d_kind t) = false -> x_sp xa = x_sp xt)
    /\ (forallb (fun h => rigid h (d_kind t)) path = true -> d_spec a = d_spec t).
Proof. exact alias_chain_invariant. Qed.
Print Assumptions C10_alias_chain_invariant.

(* -- THE decision the seeded change C10-5 corrupts: specifics of a reference descriptor = specifics of its terminal type -- *)
Theorem C10_alias_specifics_terminal : forall X i j path a xa t xt, wf_x X = true -> reaches X i j path -> terminal X j ->
  nthZ (t_descrs (xt_tab X)) i = Some a -> nthZ (xt_x X) i = Some xa ->
  nthZ (t_descrs (xt_tab X)) j = Some t -> nthZ (xt_x X) j = Some xt ->
  x_op xa = x_op xt /\ d_kind a = d_kind t /\ x_el xa = x_el xt /\ d_elems a = d_elems t
  /\ x_rep xa = x_rep xt /\ int_width (d_spec a) = int_width (d_spec t)
  /\ (numeric_kind (d_kind t) = false -> x_sp xa = x_sp xt /\ d_spec a = d_spec t)
  /\ (forallb (fun h => rigid h (d_kind t)) path = true -> d_spec a = d_spec t).
Proof. exact alias_specifics_terminal. Qed.
Print Assumptions C10_alias_specifics_terminal.

(* -- "its terminal type" is well defined: one chain, one end -- *)
Theorem C10_alias_terminal_unique : forall X i j path, wf_x X = true -> reaches X i j path -> terminal X j ->
  forall j' path', reaches X i j' path' -> terminal X j' -> j = j' /\ path = path'.
Proof. exact terminal_unique. Qed.
Print Assumptions C10_alias_terminal_unique.

(* -- tags: the full chain = the tags written along the hops, outermost first, then the terminal's; the outermost
      effective tag = the first tag written, or the terminal's vector when no hop is tagged -- *)
Theorem C10_alias_tags : forall X i j path a t, wf_x X = true -> reaches X i j path ->
  nthZ (t_descrs (xt_tab X)) i = Some a -> nthZ (t_descrs (xt_tab X)) j = Some t ->
  d_all a = written_tags path ++ d_all t
  /\ d_tags a = chain_tags path (d_tags t)
  /\ (forall w ws, written_tags path = w :: ws -> exists r, d_tags a = w :: r)
  /\ (written_tags path = [] -> d_tags a = d_tags t).
Proof. exact alias_tags. Qed.
Print Assumptions C10_alias_tags.

(* -- every USE position (member, OF element, CHOICE alternative): a component written without a tag of its own whose
      type is a reference carries the outermost tag of the chain (-1: none, an untagged CHOICE or open type) -- *)
Theorem C10_member_tag_through_chain : forall X d m j path a t, wf_x X = true ->
  In d (t_descrs (xt_tab X)) -> In m (d_elems d) -> m_tmode m = 0 ->
  reaches X (m_type m) j path ->
  nthZ (t_descrs (xt_tab X)) (m_type m) = Some a -> nthZ (t_descrs (xt_tab X)) j = Some t ->
  m_tag m = hd (-1) (chain_tags path (d_tags t)).
Proof. exact member_tag_through_chain. Qed.
Print Assumptions C10_member_tag_through_chain.

(* -- and the table part of the obligation is still there -- *)
Theorem C10_wf_x_contains_wf_descr_all : forall X, wf_x X = true -> wf_descr_all (xt_tab X) = true.
Proof. exact wf_x_table. Qed.
Print Assumptions C10_wf_x_contains_wf_descr_all.

(* ================================================================ round 4: the status folding of the compile loop
   (coq/Fix/CompileFold.v: asn1_compile / asn1c_compile_expr of libasn1compiler/asn1compiler.c).  An emission unit is a type
   (own verdict of its emitter + EMBEDded components, whose returned status the code drops and whose failure it counts) or a
   parameterized type (its specializations). *)
From Coq Require Import Permutation.
From A1 Require Import Fix.CompileFold Fix.CompileFoldProofs.

(* -- exit status 0 iff every unit, specialization and component can be emitted (the full statement: the failure counter
      of asn1c_compile_expr reaches the exit status although EMBED drops the returned one) -- *)
Theorem C10_exit_zero_iff_all_ok : forall us : list eunit,
  exit_status us = 0 <-> forallb all_ok us = true.
Proof. exact exit_zero_iff_all_ok. Qed.
Print Assumptions C10_exit_zero_iff_all_ok.

(* -- ... independent of the order of the top-level expressions / modules, and of the order in which the specializations
      of a parameterized type were first used -- *)
Theorem C10_exit_order_independent : forall us us' : list eunit,
  Permutation us us' -> (exit_status us = 0 <-> exit_status us' = 0).
Proof. exact exit_order_independent. Qed.
Print Assumptions C10_exit_order_independent.

Theorem C10_spec_loop_order_independent : forall ss ss' : list eunit,
  Permutation ss ss' -> (ret (UParam ss) = 0 <-> ret (UParam ss') = 0).
Proof. exact spec_loop_order_independent. Qed.
Print Assumptions C10_spec_loop_order_independent.

(* -- a non-zero exit has a top-level expression with a failing part; when the loop over the top-level expressions itself
      stopped, it stopped at the FIRST failing unit: everything before it was emitted -- *)
Theorem C10_exit_nonzero_has_culprit : forall us : list eunit, exit_status us <> 0 ->
  exists pre u post, us = pre ++ u :: post /\ all_ok u = false.
Proof. exact exit_nonzero_has_culprit. Qed.
Print Assumptions C10_exit_nonzero_has_culprit.

Theorem C10_top_ret_is_first_failure : forall us : list eunit, top_ret us <> 0 ->
  exists pre u post, us = pre ++ u :: post /\ Forall (fun y => ret y = 0) pre /\ ret u <> 0.
Proof. exact top_ret_is_first_failure. Qed.
Print Assumptions C10_top_ret_is_first_failure.

(* -- "rejected => diagnostic": a non-zero exit prints at least one FATAL line; and the check's oracle
      (a FATAL `Cannot compile` line / an #error directive <=> non-zero exit), now on every input -- *)
Theorem C10_rejected_is_diagnosed : forall us : list eunit, exit_status us <> 0 -> (top_fatals us >= 1)%nat.
Proof. exact rejected_is_diagnosed. Qed.
Print Assumptions C10_rejected_is_diagnosed.

Theorem C10_fatal_iff_nonzero_exit : forall us : list eunit,
  top_fatals us = O <-> exit_status us = 0.
Proof. exact fatal_iff_nonzero_exit. Qed.
Print Assumptions C10_fatal_iff_nonzero_exit.

(* -- the last-wins fold (seeded change C10-6) does not: it accepts a module with a failed specialization,
      and its verdict depends on the order -- *)
Theorem C10_last_wins_refuted :
  exists us : list eunit, forallb members_ok us = true /\ exit_last us = 0 /\ forallb all_ok us = false.
Proof. exact last_wins_refuted. Qed.
Print Assumptions C10_last_wins_refuted.

Theorem C10_last_wins_order_dependent :
  exists ss ss' : list eunit, Permutation ss ss' /\ ret_last (UParam ss) = 0 /\ ret_last (UParam ss') <> 0.
Proof. exact last_wins_order_dependent. Qed.
Print Assumptions C10_last_wins_order_dependent.

(* ---- round 5: names DERIVED from a type name (Fix/DerivedNames.v: register_global_name / c_name_clash) ---- *)
From A1 Require Fix.DerivedNames.

(* a clash is reported iff some type shares a registered name with an earlier type of another identity:
   the module of the two plays no part *)
Theorem C10_derived_clash_spec :
  forall (name : Type) (neqb : name -> name -> bool), (forall a b, neqb a b = true <-> a = b) ->
  forall ts : list (DerivedNames.ty name),
  DerivedNames.scan name neqb ts = true <->
  exists l1 t l2, ts = l1 ++ t :: l2 /\ exists u, In u l1 /\ DerivedNames.share name u t.
Proof. exact DerivedNames.scan_spec. Qed.
Print Assumptions C10_derived_clash_spec.

(* the decision restricted to expressions of one module (seeded change C10-9) never reports more, agrees on
   one-module inputs, and reports NOTHING when every type sits in a module of its own *)
Theorem C10_same_module_clash_weaker :
  forall (name : Type) (neqb : name -> name -> bool), (forall a b, neqb a b = true <-> a = b) ->
  forall ts, DerivedNames.scan_same_module name neqb ts = true -> DerivedNames.scan name neqb ts = true.
Proof. exact DerivedNames.same_module_weaker. Qed.
Print Assumptions C10_same_module_clash_weaker.

Theorem C10_same_module_clash_blind :
  forall (name : Type) (neqb : name -> name -> bool), (forall a b, neqb a b = true <-> a = b) ->
  forall ts : list (DerivedNames.ty name),
  (forall l1 t l2 u, ts = l1 ++ t :: l2 -> In u l1 -> DerivedNames.tmod name u <> DerivedNames.tmod name t) ->
  DerivedNames.scan_same_module name neqb ts = false.
Proof. exact DerivedNames.same_module_blind. Qed.
Print Assumptions C10_same_module_clash_blind.

Theorem C10_same_module_clash_agrees_in_one_module :
  forall (name : Type) (neqb : name -> name -> bool), (forall a b, neqb a b = true <-> a = b) ->
  forall ts m, (forall t, In t ts -> DerivedNames.tmod name t = m) ->
  DerivedNames.scan_same_module name neqb ts = DerivedNames.scan name neqb ts.
Proof. exact DerivedNames.same_module_agrees_in_one_module. Qed.
Print Assumptions C10_same_module_clash_agrees_in_one_module.
