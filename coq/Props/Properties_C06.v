(* Properties_C06.v — canonical encodings depend only on the abstract value. (stub, being filled) *)
From Coq Require Import ZArith List Bool.
From A1 Require Import Base.Bytes Rt.Types Rt.Der.
Import ListNotations.
Local Open Scope Z_scope.
