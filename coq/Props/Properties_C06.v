(* Properties_C06.v — canonical encodings depend only on the abstract value.
   Model: coq/Rt/{Der,Uper,Oer}.v (the SET OF sorting of SET_OF__encode_sorted is
   Der.sort_encodings / Uper.sort_bit_encodings: insertion sort with _el_buf_cmp =
   lex_leb), coq/Leaf/IntegerConv.v (the strip loop of INTEGER_encode_der);
   definitions of this property in coq/Rt/Canonical.v; tied to the C by checks/c06.py.
   What is stated here:
   - _el_buf_cmp (lex_leb) is a total order on octet strings; sorting with it yields a
     sorted permutation; the result does not depend on the order of the input (so it is
     the same for ANY correct sorting algorithm, qsort included);
   - for CUPER the sort key (encoding padded to octets) is not injective on bit
     strings: invariance holds when the key is injective on the members, the list of
     keys is always invariant, and without injectivity it is refuted;
   - DER and UPER of two values that differ only in the order of SET OF members, at
     any depth, are equal (UPER: under key injectivity at every SET OF);
   - OER: refuted (SET_OF_encode_oer writes the members in memory order);
   - the strip loop maps all contents octets denoting one integer to one octet string;
   - compare_struct on INTEGER_t (coq/Rt/CanonicalCompare.v) is the order of the values.
   - canonical order against length fragmentation (coq/Rt/CanonicalFrag.v): the UPER of a
     SET OF is the fragments of the sorted WHOLE list (not sorted fragments); that is
     permutation-invariant for any fragment unit and any length; sorting inside the
     fragment loop agrees up to K members and is refuted beyond.
   - DEFAULT components of an extensible SEQUENCE, root and extension additions, for INTEGER /
     ENUMERATED / BOOLEAN / NULL defaults (coq/Rt/CanonicalDefault.v over coq/Rt/Ext.v): the
     encoders that ask default_value_cmp at every place are independent of explicit-vs-absent;
     those that ask at some places only are refuted.
   - time types (coq/Leaf/GTimeCanon.v over the C17 models Leaf/GTime.v, CivilTime.v): the DER of a
     GeneralizedTime is asn_time2GT_frac(force_gmt) of what asn_GT2time_frac read; it depends only on
     the instant and the fraction value (nanos), has the X.690 11.7 shape (14 digits, minimal fraction,
     Z) for years 0..9999 and is idempotent; the "already canonical" fast path that accepts 10/12/14
     digits (seeded/C06-7) is refuted, and so is one that requires 14 (second 60 is carried by the
     reader, not by the verbatim text); UTCTime's DER is the stored text (refuted), the canonicaliser
     proposed for it is a function of the instant, of the 11.8 shape and idempotent in 1960..2059.
   DEFAULT of other types, BIT STRING unused bits, wide INTEGER_t in PER/OER/XER and
   CANONICAL-XER are outside the modelled algebra: tie only. *)
From Coq Require Import ZArith List Bool Permutation Sorted.
From A1 Require Import Base.Bytes Leaf.IntegerConv Rt.Types Rt.Comb Rt.Der Rt.Uper Rt.Oer
  Rt.Canonical Rt.CanonicalProofs Rt.CanonicalCompare Rt.CanonicalCompareProofs
  Rt.CanonicalFrag Rt.CanonicalFragProofs Rt.Ext Rt.CanonicalDefault Rt.CanonicalDefaultProofs.
Import ListNotations.
Local Open Scope Z_scope.

Theorem C06_el_buf_cmp_total_order :
  (forall a, lex_leb a a = true) /\
  (forall a b, lex_leb a b = true \/ lex_leb b a = true) /\
  (forall a b c, lex_leb a b = true -> lex_leb b c = true -> lex_leb a c = true) /\
  (forall a b, lex_leb a b = true -> lex_leb b a = true -> a = b).
Proof. exact (conj lex_leb_refl (conj lex_leb_total (conj lex_leb_trans lex_leb_antisym))). Qed.
Print Assumptions C06_el_buf_cmp_total_order.

Theorem C06_sort_yields_sorted_permutation : forall l,
  Permutation (sort_encodings l) l /\ StronglySorted (fun a b => lex_leb a b = true) (sort_encodings l).
Proof. exact sort_encodings_sorted_perm. Qed.
Print Assumptions C06_sort_yields_sorted_permutation.

Theorem C06_sorted_permutation_unique : forall l1 l2,
  StronglySorted (fun a b => lex_leb a b = true) l1 -> StronglySorted (fun a b => lex_leb a b = true) l2 ->
  Permutation l1 l2 -> l1 = l2.
Proof.
  exact (fun l1 l2 => sorted_perm_unique lex_leb l1 l2 (fun a b _ _ => lex_leb_antisym a b)).
Qed.
Print Assumptions C06_sorted_permutation_unique.

Theorem C06_setof_sort_perm : forall l1 l2, Permutation l1 l2 -> sort_encodings l1 = sort_encodings l2.
Proof. exact setof_sort_perm. Qed.
Print Assumptions C06_setof_sort_perm.

Theorem C06_setof_sort_bits_perm_partial : forall l1 l2,
  (forall x y, In x l1 -> In y l1 -> pad_key x = pad_key y -> x = y) ->
  Permutation l1 l2 -> sort_bit_encodings l1 = sort_bit_encodings l2.
Proof. exact setof_sort_bits_perm. Qed.
Print Assumptions C06_setof_sort_bits_perm_partial.

Theorem C06_setof_sort_bits_keys_perm : forall l1 l2,
  Permutation l1 l2 -> map pad_key (sort_bit_encodings l1) = map pad_key (sort_bit_encodings l2).
Proof. exact setof_sort_bits_keys_perm. Qed.
Print Assumptions C06_setof_sort_bits_keys_perm.

Theorem C06_setof_sort_bits_perm_refuted :
  exists l1 l2, Permutation l1 l2 /\ concat (sort_bit_encodings l1) <> concat (sort_bit_encodings l2).
Proof. exact setof_sort_bits_perm_refuted. Qed.
Print Assumptions C06_setof_sort_bits_perm_refuted.

Theorem C06_der_setof_order_irrelevant : forall t v1 v2, same_abs t v1 v2 -> der t v1 = der t v2.
Proof. exact der_same_abs. Qed.
Print Assumptions C06_der_setof_order_irrelevant.

Theorem C06_uper_setof_order_irrelevant_partial : forall std t v1 v2,
  setof_keys_ok std t -> same_abs t v1 v2 -> uper_encode std t v1 = uper_encode std t v2.
Proof. exact uper_encode_same_abs. Qed.
Print Assumptions C06_uper_setof_order_irrelevant_partial.

Theorem C06_oer_setof_order_refuted : exists t v1 v2, same_abs t v1 v2 /\ oer t v1 <> oer t v2.
Proof. exact oer_setof_order_refuted. Qed.
Print Assumptions C06_oer_setof_order_refuted.

Theorem C06_minimal_twos_unique : forall l1 l2, bytes_ok l1 -> bytes_ok l2 ->
  minimal_twos l1 = true -> minimal_twos l2 = true -> twos_value l1 = twos_value l2 -> l1 = l2.
Proof. exact minimal_twos_unique. Qed.
Print Assumptions C06_minimal_twos_unique.

Theorem C06_strip_leading_canonical : forall b1 b2,
  twos_value b1 = twos_value b2 -> bytes_ok b1 -> bytes_ok b2 -> b1 <> [] -> b2 <> [] ->
  strip b1 = strip b2.
Proof. exact strip_leading_canonical. Qed.
Print Assumptions C06_strip_leading_canonical.

Theorem C06_strip_sign_padding : forall bs k, bytes_ok bs -> bs <> [] ->
  strip (repeat (if 128 <=? hd 0 bs then 255 else 0) k ++ bs) = strip bs.
Proof. exact strip_sign_padding. Qed.
Print Assumptions C06_strip_sign_padding.

Theorem C06_fixed_width_members_have_injective_keys : forall std e n,
  fixed_bits e = Some n -> key_injective std e.
Proof. exact fixed_bits_key_injective. Qed.
Print Assumptions C06_fixed_width_members_have_injective_keys.

Theorem C06_uper_setof_order_irrelevant_fixed_width : forall std tg s e n v1 v2,
  fixed_bits e = Some n -> same_abs (TSetOf tg s e) v1 v2 ->
  uper_encode std (TSetOf tg s e) v1 = uper_encode std (TSetOf tg s e) v2.
Proof. exact uper_setof_fixed_width. Qed.
Print Assumptions C06_uper_setof_order_irrelevant_fixed_width.

(* compare_struct on INTEGER_t (INTEGER_compare, coq/Rt/CanonicalCompare.v): the order
   of the values, whatever sign-extension octets either buffer holds; hence the same
   answer for any two representations of the same pair of values.  Findings
   C01-wide-integer-compare and C06-integer-compare-negative-order (fixed) were the
   refutations of this statement. *)
Theorem C06_integer_compare_by_value : forall a b,
  bytes_ok a -> bytes_ok b -> a <> [] -> b <> [] ->
  int_compare a b = (twos_value a ?= twos_value b).
Proof. exact int_compare_value. Qed.
Print Assumptions C06_integer_compare_by_value.

Theorem C06_integer_compare_representation_independent : forall a1 a2 b1 b2,
  bytes_ok a1 -> bytes_ok a2 -> bytes_ok b1 -> bytes_ok b2 ->
  a1 <> [] -> a2 <> [] -> b1 <> [] -> b2 <> [] ->
  twos_value a1 = twos_value a2 -> twos_value b1 = twos_value b2 ->
  int_compare a1 b1 = int_compare a2 b2.
Proof. exact int_compare_same_value. Qed.
Print Assumptions C06_integer_compare_representation_independent.

(* Canonical order against length fragmentation (X.691 11.9 / 22.1; seeded change C06-4).
   [chunks K] is the split made by the loop around uper_put_length (fragment unit K,
   16384 in X.691 and in the C), [render K] writes every fragment under the length
   determinant its own size decides, [frag_whole K] fragments the sorted list,
   [frag_each K] sorts each fragment of the list as it is in memory. *)
Theorem C06_counted_is_fragments_in_order : forall items,
  counted items = render 16384 (chunks 16384 (S (length items)) items)
  /\ concat (chunks 16384 (S (length items)) items) = items.
Proof. exact counted_fragments. Qed.
Print Assumptions C06_counted_is_fragments_in_order.

Theorem C06_fragment_loop_is_render_of_chunks : forall K, 0 < K -> forall fuel items,
  put_counted_g K fuel items = render K (chunks K fuel items).
Proof. exact put_counted_g_render. Qed.
Print Assumptions C06_fragment_loop_is_render_of_chunks.

Theorem C06_fragment_loop_16K_is_model : forall fuel items,
  put_counted_g 16384 fuel items = put_counted fuel items.
Proof. exact put_counted_g_16K. Qed.
Print Assumptions C06_fragment_loop_16K_is_model.

Theorem C06_uper_setof_sorts_whole_list : forall std tg s e vs es,
  option_all (map (uper std e) vs) = Some es ->
  uper std (TSetOf tg s e) (VList vs) = sized s (sort_bit_encodings es)
  /\ Permutation (sort_bit_encodings es) es
  /\ StronglySorted (fun a b => key_leb a b = true) (sort_bit_encodings es).
Proof. exact uper_setof_sorts_whole_list. Qed.
Print Assumptions C06_uper_setof_sorts_whole_list.

Theorem C06_uper_setof_fragments_of_sorted : forall std tg e vs es,
  option_all (map (uper std e) vs) = Some es ->
  uper std (TSetOf tg (SCon 0 None false) e) (VList vs) = Some (frag_whole 16384 es)
  /\ concat (chunks 16384 (S (length es)) (sort_bit_encodings es)) = sort_bit_encodings es.
Proof. exact uper_setof_fragments_of_sorted. Qed.
Print Assumptions C06_uper_setof_fragments_of_sorted.

Theorem C06_fragments_of_sorted_perm_invariant : forall K l1 l2,
  (forall x y, In x l1 -> In y l1 -> pad_key x = pad_key y -> x = y) ->
  Permutation l1 l2 -> frag_whole K l1 = frag_whole K l2.
Proof. exact frag_whole_perm. Qed.
Print Assumptions C06_fragments_of_sorted_perm_invariant.

Theorem C06_per_fragment_sort_agrees_up_to_one_unit : forall K l,
  0 < K -> zlen l <= K -> frag_each K l = frag_whole K l.
Proof. exact frag_each_small. Qed.
Print Assumptions C06_per_fragment_sort_agrees_up_to_one_unit.

Theorem C06_per_fragment_sort_perm_refuted :
  exists K l1 l2, 0 < K /\ Permutation l1 l2
    /\ (forall x y, In x l1 -> In y l1 -> pad_key x = pad_key y -> x = y)
    /\ frag_whole K l1 = frag_whole K l2
    /\ frag_each K l1 <> frag_each K l2.
Proof. exact frag_each_perm_refuted. Qed.
Print Assumptions C06_per_fragment_sort_perm_refuted.

(* DEFAULT components: stored explicitly or left absent (coq/Rt/CanonicalDefault.v).
   [dflt_rel d v1 v2]: the two stored component values are equal, or both are at the
   DEFAULT d (absent, or stored and equal to it); dr / da = DEFAULTs of the root members
   and of the extension additions.  Seeded changes C06-3 and C06-5 are
   [dfl_oer_stored_bit]; the repaired finding C06-uper-extension-default is
   [dfl_uper_root_only]. *)
Theorem C06_default_der_representation_independent : forall dr da t rvs1 rvs2 avs1 avs2,
  Forall3 dflt_rel dr rvs1 rvs2 -> Forall3 dflt_rel da avs1 avs2 ->
  dfl_der dr da t (EVSeq rvs1 avs1) = dfl_der dr da t (EVSeq rvs2 avs2).
Proof. exact dfl_der_indep. Qed.
Print Assumptions C06_default_der_representation_independent.

Theorem C06_default_uper_representation_independent : forall dr da t rvs1 rvs2 avs1 avs2,
  Forall3 dflt_rel dr rvs1 rvs2 -> Forall3 dflt_rel da avs1 avs2 -> forall std,
  dfl_uper std dr da t (EVSeq rvs1 avs1) = dfl_uper std dr da t (EVSeq rvs2 avs2).
Proof. exact dfl_uper_indep. Qed.
Print Assumptions C06_default_uper_representation_independent.

Theorem C06_default_oer_representation_independent : forall dr da t rvs1 rvs2 avs1 avs2,
  Forall3 dflt_rel dr rvs1 rvs2 -> Forall3 dflt_rel da avs1 avs2 ->
  dfl_oer dr da t (EVSeq rvs1 avs1) = dfl_oer dr da t (EVSeq rvs2 avs2).
Proof. exact dfl_oer_indep. Qed.
Print Assumptions C06_default_oer_representation_independent.

Theorem C06_default_never_encoded : forall dv v x,
  elide1 (Some dv) v = VSome x -> leaf_eqb x dv = false.
Proof. exact elide1_not_default. Qed.
Print Assumptions C06_default_never_encoded.

Theorem C06_default_elision_idempotent : forall ds vs, elide ds (elide ds vs) = elide ds vs.
Proof. exact elide_idem. Qed.
Print Assumptions C06_default_elision_idempotent.

Theorem C06_default_oer_stored_extension_bit_partial : forall dr da t rvs avs,
  elide da avs = avs ->
  dfl_oer_stored_bit dr da t (EVSeq rvs avs) = dfl_oer dr da t (EVSeq rvs avs).
Proof. exact dfl_oer_stored_bit_agrees. Qed.
Print Assumptions C06_default_oer_stored_extension_bit_partial.

Theorem C06_default_oer_stored_extension_bit_refuted :
  exists dr da t rvs avs1 avs2, Forall3 dflt_rel da avs1 avs2
    /\ dfl_oer dr da t (EVSeq rvs avs1) = dfl_oer dr da t (EVSeq rvs avs2)
    /\ dfl_oer_stored_bit dr da t (EVSeq rvs avs1) = Some [0; 1]
    /\ dfl_oer_stored_bit dr da t (EVSeq rvs avs2) = Some [128; 1; 2; 7; 0].
Proof. exact dfl_oer_stored_bit_refuted. Qed.
Print Assumptions C06_default_oer_stored_extension_bit_refuted.

Theorem C06_default_uper_count_only_partial : forall std dr da t rvs avs,
  elide da avs = avs ->
  dfl_uper_count_only std dr da t (EVSeq rvs avs) = dfl_uper std dr da t (EVSeq rvs avs).
Proof. exact dfl_uper_count_only_agrees. Qed.
Print Assumptions C06_default_uper_count_only_partial.

Theorem C06_default_uper_count_only_refuted :
  exists dr da t rvs avs1 avs2, Forall3 dflt_rel da avs1 avs2
    /\ dfl_uper false dr da t (EVSeq rvs avs1) = dfl_uper false dr da t (EVSeq rvs avs2)
    /\ dfl_uper_count_only false dr da t (EVSeq rvs avs1) <> dfl_uper_count_only false dr da t (EVSeq rvs avs2).
Proof. exact dfl_uper_count_only_refuted. Qed.
Print Assumptions C06_default_uper_count_only_refuted.

Theorem C06_default_uper_root_only_refuted :
  exists dr da t rvs avs1 avs2, Forall3 dflt_rel da avs1 avs2
    /\ dfl_uper false dr da t (EVSeq rvs avs1) = dfl_uper false dr da t (EVSeq rvs avs2)
    /\ dfl_uper_root_only false dr da t (EVSeq rvs avs1) <> dfl_uper_root_only false dr da t (EVSeq rvs avs2).
Proof. exact dfl_uper_root_only_refuted. Qed.
Print Assumptions C06_default_uper_root_only_refuted.

(* ------------------------------------------------------------------ *)
(* time types: one instant stored in any accepted spelling *)
From A1 Require Import Leaf.StrtoxProofs Leaf.CivilTime Leaf.GTime Leaf.GTimeProofs Leaf.GTimeCanon Leaf.GTimeCanonProofs.

Theorem C06_gt_fraction_text_depends_on_value fv fd : 0 <= fd -> 0 <= fv < 10 ^ fd ->
  frac_text fv fd = frac_canon (nanos fv fd).
Proof. exact (frac_text_nanos fv fd). Qed.
Print Assumptions C06_gt_fraction_text_depends_on_value.

Theorem C06_gt_reader_result_invariant bs lg t fv fd :
  GT2time_frac bs lg = GtOk t fv fd -> t <> -1 /\ 0 <= fd /\ 0 <= fv < 10 ^ fd.
Proof. exact (GT2time_frac_res bs lg t fv fd). Qed.
Print Assumptions C06_gt_reader_result_invariant.

Theorem C06_gt_der_depends_on_value_only s1 lg1 s2 lg2 t fv1 fd1 fv2 fd2 :
  GT2time_frac s1 lg1 = GtOk t fv1 fd1 -> GT2time_frac s2 lg2 = GtOk t fv2 fd2 ->
  nanos fv1 fd1 = nanos fv2 fd2 ->
  gt_canon s1 lg1 = gt_canon s2 lg2.
Proof. exact (gt_canon_same_value s1 lg1 s2 lg2 t fv1 fd1 fv2 fd2). Qed.
Print Assumptions C06_gt_der_depends_on_value_only.

Theorem C06_gt_equal_fractions_equal_nanos fv1 fd1 fv2 fd2 : 0 <= fd1 <= 9 -> 0 <= fd2 <= 9 ->
  fv1 * 10 ^ fd2 = fv2 * 10 ^ fd1 -> nanos fv1 fd1 = nanos fv2 fd2.
Proof. exact (nanos_equal_fractions fv1 fd1 fv2 fd2). Qed.
Print Assumptions C06_gt_equal_fractions_equal_nanos.

Theorem C06_gt_der_text bs lg t fv fd : GT2time_frac bs lg = GtOk t fv fd -> t_min <= t < t_max ->
  gt_canon bs lg = Some (gt_body (gmtime t) ++ frac_canon (nanos fv fd) ++ [90]).
Proof. exact (gt_canon_spec bs lg t fv fd). Qed.
Print Assumptions C06_gt_der_text.

Theorem C06_gt_der_shape bs lg t fv fd : GT2time_frac bs lg = GtOk t fv fd -> t_min <= t < t_max ->
  exists ds fr, gt_canon bs lg = Some (ds ++ fr ++ [90]) /\
    digits_ok ds /\ length ds = 14%nat /\ min_fraction fr.
Proof. exact (gt_canon_shape bs lg t fv fd). Qed.
Print Assumptions C06_gt_der_shape.

Theorem C06_gt_der_idempotent bs lg t fv fd : GT2time_frac bs lg = GtOk t fv fd -> t_min <= t < t_max ->
  exists out, gt_canon bs lg = Some out /\ forall lg', gt_canon out lg' = Some out.
Proof. exact (gt_canon_idempotent bs lg t fv fd). Qed.
Print Assumptions C06_gt_der_idempotent.

Theorem C06_gt_fast_path_unchanged_elsewhere_partial ok bs lg :
  ok bs = false -> gt_canon_with ok bs lg = gt_canon bs lg.
Proof. exact (gt_canon_fast_partial ok bs lg). Qed.
Print Assumptions C06_gt_fast_path_unchanged_elsewhere_partial.

Theorem C06_gt_fast_path_refuted :
  GT2time_frac s_2026_hm 0 = GtOk 1767268800 0 0 /\ GT2time_frac s_2026_h 0 = GtOk 1767268800 0 0 /\
  GT2time_frac s_2026 0 = GtOk 1767268800 0 0 /\
  gt_canon s_2026_hm 0 = Some s_2026 /\ gt_canon s_2026_h 0 = Some s_2026 /\ gt_canon s_2026 0 = Some s_2026 /\
  gt_canon_fast s_2026_hm 0 = Some s_2026_hm /\ gt_canon_fast s_2026_h 0 = Some s_2026_h /\
  gt_canon_fast s_2026 0 = Some s_2026 /\ s_2026_hm <> s_2026 /\ s_2026_h <> s_2026.
Proof. exact gt_canon_fast_refuted. Qed.
Print Assumptions C06_gt_fast_path_refuted.

Theorem C06_gt_fast_path_14_digits_refuted :
  gt_fast14_ok s_leap = true /\ GT2time_frac s_leap 0 = GtOk 1483228800 0 0 /\
  GT2time_frac s_2017 0 = GtOk 1483228800 0 0 /\
  gt_canon s_leap 0 = Some s_2017 /\ gt_canon_fast14 s_leap 0 = Some s_leap /\ s_leap <> s_2017.
Proof. exact gt_canon_fast14_refuted. Qed.
Print Assumptions C06_gt_fast_path_14_digits_refuted.

Theorem C06_ut_canon_depends_on_instant_only s1 lg1 s2 lg2 t a1 b1 a2 b2 :
  UT2time s1 lg1 = GtOk t a1 b1 -> UT2time s2 lg2 = GtOk t a2 b2 -> ut_canon s1 lg1 = ut_canon s2 lg2.
Proof. exact (ut_canon_same_instant s1 lg1 s2 lg2 t a1 b1 a2 b2). Qed.
Print Assumptions C06_ut_canon_depends_on_instant_only.

Theorem C06_ut_canon_shape_idempotent bs lg t a b : UT2time bs lg = GtOk t a b -> ut_min <= t < ut_max ->
  exists out ds, ut_canon bs lg = Some out /\ out = ds ++ [90] /\ digits_ok ds /\ length ds = 12%nat /\
    forall lg', ut_canon out lg' = Some out.
Proof. exact (ut_canon_idempotent bs lg t a b). Qed.
Print Assumptions C06_ut_canon_shape_idempotent.

(* UTCTime_encode_der (fix 05 of notes/fixes/I): canonical whenever asn_UT2time reads the stored text *)
Theorem C06_ut_der_depends_on_instant_only s1 lg1 s2 lg2 t a1 b1 a2 b2 :
  UT2time s1 lg1 = GtOk t a1 b1 -> UT2time s2 lg2 = GtOk t a2 b2 -> ut_min <= t < ut_max ->
  ut_der s1 lg1 = ut_der s2 lg2.
Proof. exact (ut_der_same_instant s1 lg1 s2 lg2 t a1 b1 a2 b2). Qed.
Print Assumptions C06_ut_der_depends_on_instant_only.

Theorem C06_ut_der_shape_idempotent bs lg t a b : UT2time bs lg = GtOk t a b -> ut_min <= t < ut_max ->
  exists ds, ut_der bs lg = ds ++ [90] /\ digits_ok ds /\ length ds = 12%nat /\
    forall lg', ut_der (ut_der bs lg) lg' = ut_der bs lg.
Proof. exact (ut_der_shape_idempotent bs lg t a b). Qed.
Print Assumptions C06_ut_der_shape_idempotent.

Theorem C06_ut_der_unread_verbatim bs lg : ut_canon bs lg = None -> ut_der bs lg = bs.
Proof. exact (ut_der_unread_verbatim bs lg). Qed.
Print Assumptions C06_ut_der_unread_verbatim.

Theorem C06_ut_der_witnesses :
  UT2time u_2026_hm 0 = GtOk 1767268800 0 0 /\ UT2time u_2026 0 = GtOk 1767268800 0 0 /\
  UT2time u_2026_off 0 = GtOk 1767268800 0 0 /\
  ut_der u_2026_hm 0 = u_2026 /\ ut_der u_2026_off 0 = u_2026 /\ ut_der u_2026 0 = u_2026.
Proof. exact ut_der_witnesses. Qed.
Print Assumptions C06_ut_der_witnesses.

(* compare_struct of GeneralizedTime, instants equal: the fraction branch *)
Theorem C06_gt_compare_fix_is_value_order av ad bv bd : 0 <= ad <= 9 -> 0 <= bd <= 9 ->
  frac_cmp_fix av ad bv bd = (nanos av ad ?= nanos bv bd).
Proof. exact (frac_cmp_fix_nanos av ad bv bd). Qed.
Print Assumptions C06_gt_compare_fix_is_value_order.

Theorem C06_gt_compare_fraction_value_order av ad bv bd : 0 <= ad -> 0 <= bd ->
  frac_cmp_c av ad bv bd = frac_cmp_fix av ad bv bd.
Proof. exact (frac_cmp_c_value_order av ad bv bd). Qed.
Print Assumptions C06_gt_compare_fraction_value_order.

Theorem C06_gt_compare_fraction_nanos av ad bv bd : 0 <= ad <= 9 -> 0 <= bd <= 9 ->
  frac_cmp_c av ad bv bd = (nanos av ad ?= nanos bv bd).
Proof. exact (frac_cmp_c_nanos av ad bv bd). Qed.
Print Assumptions C06_gt_compare_fraction_nanos.

Theorem C06_gt_compare_fraction_eq_iff av ad bv bd : 0 <= ad -> 0 <= bd ->
  (frac_cmp_c av ad bv bd = Eq <-> av * 10 ^ bd = bv * 10 ^ ad).
Proof. exact (frac_cmp_c_eq_iff av ad bv bd). Qed.
Print Assumptions C06_gt_compare_fraction_eq_iff.

Theorem C06_gt_compare_fraction_antisym av ad bv bd : 0 <= ad -> 0 <= bd ->
  frac_cmp_c bv bd av ad = CompOpp (frac_cmp_c av ad bv bd).
Proof. exact (frac_cmp_c_antisym av ad bv bd). Qed.
Print Assumptions C06_gt_compare_fraction_antisym.

Theorem C06_gt_compare_fraction_witnesses :
  frac_cmp_c 5 1 50 2 = Eq /\ frac_cmp_c 0 0 0 1 = Eq /\
  frac_cmp_c 5 1 25 2 = Gt /\ frac_cmp_c 25 2 3 1 = Lt.
Proof. exact frac_cmp_c_witnesses. Qed.
Print Assumptions C06_gt_compare_fraction_witnesses.
