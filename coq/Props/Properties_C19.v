(* Properties_C19.v — reentrancy.  Only statements, each closed by [exact] of a
   lemma proved elsewhere, with Print Assumptions beneath.
   Model: Conc/Interleave.v (threads, footprints, schedules); checker: Conc/Reach.v
   (tied to the skeleton object files by harness/statics.py, which regenerates
   Gen_Statics.v on every run of bin/vcheck C19). *)
From Coq Require Import List PArith Bool.
From A1 Require Import Conc.Reach Conc.ReachProofs.
Import ListNotations.

(* -- the closure computed by the checker is graph reachability -- *)
Theorem C19_reach_sound : forall g es fuel x,
  length (universe g es) <= fuel -> path g es x -> In x (reachable g es fuel).
Proof. exact reach_sound. Qed.
Print Assumptions C19_reach_sound.

Theorem C19_reach_complete : forall g es fuel x, In x (reachable g es fuel) -> path g es x.
Proof. exact reach_complete. Qed.
Print Assumptions C19_reach_complete.

(* -- the boolean obligation of Gen_Statics.v means: no flagged writable object is
      connected to an entry point; and a failing obligation names one that is -- *)
Theorem C19_checker_sound : forall F, no_writable_reachable F = true ->
  forall x, path (f_edges F) (f_entries F) x -> flagged F x = false.
Proof. exact no_writable_reachable_sound. Qed.
Print Assumptions C19_checker_sound.

Theorem C19_checker_complete : forall F, no_writable_reachable F = false ->
  exists x, path (f_edges F) (f_entries F) x /\ flagged F x = true.
Proof. exact no_writable_reachable_complete. Qed.
Print Assumptions C19_checker_complete.
