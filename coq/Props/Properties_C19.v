(* Properties_C19.v — reentrancy.  Only statements, each closed by [exact] of a
   lemma proved elsewhere, with Print Assumptions beneath.
   Model: Conc/Interleave.v (threads, footprints, schedules); checker: Conc/Reach.v
   (tied to the skeleton object files by harness/statics.py, which regenerates
   Gen_Statics.v on every run of bin/vcheck C19). *)
From Coq Require Import List PArith Bool.
From A1 Require Import Conc.Reach Conc.ReachProofs Conc.Interleave Conc.InterleaveProofs Conc.Link Conc.Descr Conc.DescrClosure.
Import ListNotations.

(* -- the closure computed by the checker is graph reachability -- *)
Theorem C19_reach_sound : forall g es fuel x,
  length (universe g es) <= fuel -> path g es x -> In x (reachable g es fuel).
Proof. exact reach_sound. Qed.
Print Assumptions C19_reach_sound.

(* the same with the fuel bound in its sharpest form: U any list holding the
   entries and all edge targets — for the duplicate-free list of nodes its length
   is the number of nodes *)
Theorem C19_reach_sound_nodes : forall g es U fuel x,
  incl es U -> (forall a b, In (a, b) g -> In b U) -> length U <= fuel ->
  path g es x -> In x (reachable g es fuel).
Proof. exact reach_sound_nodes. Qed.
Print Assumptions C19_reach_sound_nodes.

Theorem C19_reach_complete : forall g es fuel x, In x (reachable g es fuel) -> path g es x.
Proof. exact reach_complete. Qed.
Print Assumptions C19_reach_complete.

(* -- the boolean obligation of Gen_Statics.v means: no flagged writable object is
      connected to an entry point; and a failing obligation names one that is -- *)
Theorem C19_checker_sound : forall F, no_writable_reachable F = true ->
  forall x, path (f_edges F) (f_entries F) x -> flagged F x = false.
Proof. exact no_writable_reachable_sound. Qed.
Print Assumptions C19_checker_sound.

Theorem C19_checker_complete : forall F, no_writable_reachable F = false ->
  exists x, path (f_edges F) (f_entries F) x /\ flagged F x = true.
Proof. exact no_writable_reachable_complete. Qed.
Print Assumptions C19_checker_complete.

(* -- steps of different threads that do not write shared locations commute
      (results included), for any store -- *)
Theorem C19_disjoint_commute : forall cls t1 t2 s1 s2 m,
  t1 <> t2 -> step_ok s1 -> step_ok s2 ->
  respects cls t1 s1 -> respects cls t2 s2 ->
  no_shared_write cls s1 -> no_shared_write cls s2 ->
  (forall l, exec s1 (exec s2 m) l = exec s2 (exec s1 m) l) /\
  out s1 (exec s2 m) = out s1 m /\ out s2 (exec s1 m) = out s2 m.
Proof. exact disjoint_commute. Qed.
Print Assumptions C19_disjoint_commute.

(* -- any number of threads, any scripts, any schedule that runs them to
      completion: if no step writes a shared location and no thread touches
      another thread's private locations, each thread's sequence of results and
      its final private state are those of running that thread alone -- *)
Theorem C19_interleaving_irrelevant : forall cls (P : tid -> list step) m0,
  (forall t s, In s (P t) -> step_ok s /\ respects cls t s /\ no_shared_write cls s) ->
  forall sch, completes sch m0 P ->
  forall t, trace (run sch (init m0 P)) t = snd (solo (P t) m0) /\
            forall l, cls l = Priv t -> st (run sch (init m0 P)) l = fst (solo (P t) m0) l.
Proof. exact interleaving_irrelevant. Qed.
Print Assumptions C19_interleaving_irrelevant.

(* -- the same for schedules that stop anywhere: every thread has run a prefix
      of its script exactly as it would alone -- *)
Theorem C19_interleaving_prefix : forall cls (P : tid -> list step) m0,
  (forall t s, In s (P t) -> step_ok s /\ respects cls t s /\ no_shared_write cls s) ->
  forall sch t, exists done, P t = done ++ scripts (run sch (init m0 P)) t /\
    trace (run sch (init m0 P)) t = snd (solo done m0) /\
    forall l, cls l = Priv t -> st (run sch (init m0 P)) l = fst (solo done m0) l.
Proof. exact interleaving_prefix. Qed.
Print Assumptions C19_interleaving_prefix.

(* -- the hypothesis cannot be dropped: one shared counter and the result of a
      thread depends on the schedule -- *)
Theorem C19_shared_write_breaks :
  completes [0; 1] ex_m0 ex_Q /\ respects ex_cls 1 ex_bump /\ step_ok ex_bump /\
  trace (run [0; 1] (init ex_m0 ex_Q)) 1 <> snd (solo (ex_Q 1) ex_m0).
Proof. exact shared_write_breaks. Qed.
Print Assumptions C19_shared_write_breaks.

(* -- the tie: the obligation of Gen_Statics.v, together with the stated
      assumption relating the relocation view to real footprints, is the
      hypothesis of the interleaving theorem -- *)
Theorem C19_statics_imply_irrelevant :
  forall (F : facts) (cls : loc -> region) (obj_of : loc -> option id)
         (calls : tid -> list (id * step)) (m0 : store),
  (forall t f s, In (f, s) (calls t) -> In f (f_entries F)) ->
  (forall t f s, In (f, s) (calls t) -> step_ok s /\ respects cls t s) ->
  (forall t f s l, In (f, s) (calls t) -> In l (writes s) -> cls l = SW ->
     exists o, obj_of l = Some o /\ path (f_edges F) [f] o /\ flagged F o = true) ->
  no_writable_reachable F = true ->
  forall sch, completes sch m0 (prog calls) ->
  forall t, trace (run sch (init m0 (prog calls))) t = snd (solo (prog calls t) m0) /\
            forall l, cls l = Priv t -> st (run sch (init m0 (prog calls))) l = fst (solo (prog calls t) m0) l.
Proof. exact statics_imply_irrelevant. Qed.
Print Assumptions C19_statics_imply_irrelevant.

(* -- "type descriptors are read-only" as an explicit hypothesis (Conc/Descr.v).
      The tables are writable memory (class SW is allowed for them); what is
      assumed is [descr_unchanged]: no call has a table location in its write
      set.  harness/c19drv.c ties it to the code: the writable image of the
      skeleton + generated objects is mapped read-only before first use and every
      operation is run on every type; a store faults and is reported. -- *)

(* along every interleaving (complete or not) the tables keep their initial contents *)
Theorem C19_descr_invariant : forall (D : loc -> bool) (P : tid -> list step) m0,
  (forall t s, In s (P t) -> descr_unchanged D s) ->
  forall sch l, D l = true -> st (run sch (init m0 P)) l = m0 l.
Proof. exact descr_invariant. Qed.
Print Assumptions C19_descr_invariant.

(* the hypothesis cannot be dropped: a step that "resolves once" into a table slot *)
Theorem C19_descr_write_breaks :
  ~ descr_unchanged ex_D ex_patch /\
  st (run [0] (init (fun _ => 0) (fun t => match t with O => [ex_patch] | _ => [] end))) 9%positive <> 0.
Proof. exact descr_write_breaks. Qed.
Print Assumptions C19_descr_write_breaks.

(* the tie, refined: with [descr_unchanged] for every call, the footprint assumption
   about the relocation view is needed only for shared writable locations OUTSIDE the
   tables; conclusion = interleaving irrelevant + tables constant *)
Theorem C19_statics_and_descr_imply_irrelevant :
  forall (F : facts) (cls : loc -> region) (D : loc -> bool) (obj_of : loc -> option id)
         (calls : tid -> list (id * step)) (m0 : store),
  (forall t f s, In (f, s) (calls t) -> In f (f_entries F)) ->
  (forall t f s, In (f, s) (calls t) -> step_ok s /\ respects cls t s) ->
  (forall t f s, In (f, s) (calls t) -> descr_unchanged D s) ->
  (forall t f s l, In (f, s) (calls t) -> In l (writes s) -> cls l = SW -> D l = false ->
     exists o, obj_of l = Some o /\ path (f_edges F) [f] o /\ flagged F o = true) ->
  no_writable_reachable F = true ->
  (forall sch, completes sch m0 (prog calls) ->
   forall t, trace (run sch (init m0 (prog calls))) t = snd (solo (prog calls t) m0) /\
             forall l, cls l = Priv t -> st (run sch (init m0 (prog calls))) l = fst (solo (prog calls t) m0) l) /\
  (forall sch l, D l = true -> st (run sch (init m0 (prog calls))) l = m0 l).
Proof. exact statics_and_descr_imply_irrelevant. Qed.
Print Assumptions C19_statics_and_descr_imply_irrelevant.

(* -- round 3 (Conc/DescrClosure.v, seeded change C19-5: a per-type cache behind a new pointer field of the
      SET specifics).  (1) D as the union of the parts of all descriptors: the specifics and the maps behind
      them are parts like the member table; (2) pointer closure: nothing outside D becomes reachable through
      D while nobody writes D. -- *)

(* [descr_unchanged] of the union of parts = no listed part of no listed descriptor is in the write set *)
Theorem C19_descr_unchanged_parts : forall (L : layout) (tds : list nat) (ps : list part) (s : step),
  descr_unchanged (image_of L tds ps) s <->
  (forall d p l, In d tds -> In p ps -> In l (L d p) -> ~ In l (writes s)).
Proof. exact descr_unchanged_parts. Qed.
Print Assumptions C19_descr_unchanged_parts.

(* the instance asked for: a store into the specifics of any descriptor falsifies the hypothesis *)
Theorem C19_specifics_write_breaks : forall (L : layout) (tds : list nat) (ps : list part) d l (s : step),
  In d tds -> In PSpecifics ps -> In l (L d PSpecifics) -> In l (writes s) ->
  ~ descr_unchanged (image_of L tds ps) s.
Proof. exact specifics_write_breaks. Qed.
Print Assumptions C19_specifics_write_breaks.

(* a pointer-closed image stays pointer-closed along every interleaving (complete or not) when no step writes it *)
Theorem C19_closure_invariant : forall (ptr : val -> option loc) (D : loc -> bool) (P : tid -> list step) m0,
  (forall t s, In s (P t) -> descr_unchanged D s) ->
  closed ptr D m0 ->
  forall sch, closed ptr D (st (run sch (init m0 P))).
Proof. exact closure_invariant. Qed.
Print Assumptions C19_closure_invariant.

(* so whatever a codec reaches from descriptor roots by following stored pointers lies in D, at every point of
   every schedule, and is never a thread-private location: memory outside D cannot become shared through D *)
Theorem C19_no_private_reachable : forall (ptr : val -> option loc) (D : loc -> bool) (cls : loc -> region)
    (P : tid -> list step) m0 (roots : loc -> Prop),
  (forall l t, D l = true -> cls l <> Priv t) ->
  (forall t s, In s (P t) -> descr_unchanged D s) ->
  closed ptr D m0 -> (forall l, roots l -> D l = true) ->
  forall sch l t, reach ptr (st (run sch (init m0 P))) roots l -> cls l <> Priv t.
Proof. exact no_private_reachable. Qed.
Print Assumptions C19_no_private_reachable.

(* the hypothesis cannot be dropped: "allocate at first use and keep the pointer in the specifics" (C19-5) leaves an
   image that is no longer closed, with a private location of thread 0 reachable from the descriptor *)
Theorem C19_publish_breaks :
  closed pb_ptr pb_D pb_m0 /\
  ~ descr_unchanged pb_D pb_publish /\
  ~ closed pb_ptr pb_D (st (run [0] (init pb_m0 pb_P))) /\
  reach pb_ptr (st (run [0] (init pb_m0 pb_P))) (fun l => l = 9%positive) 20%positive /\
  pb_cls 20%positive = Priv 0.
Proof. exact publish_breaks. Qed.
Print Assumptions C19_publish_breaks.
