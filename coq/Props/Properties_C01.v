(* Properties_C01.v — encode-then-decode returns the same value.
   Model: coq/Rt/{Der,Uper,Oer}.v; tied to the C by checks/c01.py.
   Proved here for DER/BER, unaligned PER (both the X.691 reading and the reading
   that mirrors the C, including 16K fragmentation) and OER over the whole
   first-milestone algebra; the XER syntaxes and the types outside the algebra
   are covered by the tie only (see DESIGN.md, C01: partial). *)
From Coq Require Import ZArith List Bool.
From A1 Require Import Base.Bytes Leaf.BerTL Rt.Types Rt.Comb Rt.Der Rt.DerProofs
  Rt.Uper Rt.UperProofs Rt.Oer Rt.OerProofs Rt.OerTotal.
Import ListNotations.
Local Open Scope Z_scope.

(* decoding the produced bytes returns RC_OK with the same value and consumes
   exactly the bytes that were produced *)
Theorem C01_der_roundtrip : forall t v bs,
  wf_ty t = true -> not_opt t = true -> wt t v = true -> der t v = Some bs ->
  zlen bs <= rssize_max -> ber_decode t bs = Some (v, zlen bs).
Proof. exact der_roundtrip. Qed.
Print Assumptions C01_der_roundtrip.

(* ... also when other bytes follow (the form the induction needs, and what a
   decoder embedded in a larger stream sees) *)
Theorem C01_der_roundtrip_in_stream : forall t v bs rest,
  wf_ty t = true -> wt t v = true -> der t v = Some bs -> zlen bs <= rssize_max ->
  opt_ok t v rest -> ber_dec t (bs ++ rest) = Some (v, rest).
Proof. exact der_decodes_all. Qed.
Print Assumptions C01_der_roundtrip_in_stream.

(* non-vacuity: a concrete well-formed type and value meet the hypotheses *)
Example C01_example :
  let t := TSeq 64 [TInt 8 (ICon (Some 0) (Some 255) false); TOpt (TBool 4);
                    TChoice [TNull 20; TInt 8 (ICon None None false)];
                    TSetOf 68 (SCon 0 None false) (TTag 131 (TInt 8 (ICon None None false)))] in
  let v := VSeq [VInt 200; VNone; VChoice 1 (VInt (-3)); VList [VInt 1; VInt 300]] in
  wf_ty t = true /\ wt t v = true /\ not_opt t = true /\
  ber_decode t (match der t v with Some bs => bs | None => [] end) = Some (v, 24).
Proof. vm_compute. repeat split; reflexivity. Qed.

(* -- unaligned PER, for both readings of the model (std = true: X.691;
      std = false: what the C writes) -- *)
Theorem C01_uper_roundtrip_in_stream : forall std t v bits rest,
  wf_ty_uper t = true -> wt_uper std t v = true -> uper std t v = Some bits ->
  uper_dec std t (bits ++ rest) = Some (v, rest).
Proof. exact uper_roundtrip_in_stream. Qed.
Print Assumptions C01_uper_roundtrip_in_stream.

Theorem C01_uper_roundtrip : forall std t v bytes,
  wf_ty_uper t = true -> wt_uper std t v = true -> uper_encode std t v = Some bytes ->
  uper_decode std t bytes = Some (v, zlen bytes) /\ 1 <= zlen bytes.
Proof. exact uper_decode_roundtrip. Qed.
Print Assumptions C01_uper_roundtrip.

(* -- OER -- *)
Theorem C01_oer_roundtrip_in_stream : forall t v bs rest,
  wf_ty_oer t = true -> not_opt t = true -> wt_oer t v = true -> oer t v = Some bs ->
  oer_dec t (bs ++ rest) = Some (v, rest).
Proof. exact oer_roundtrip_in_stream. Qed.
Print Assumptions C01_oer_roundtrip_in_stream.

Theorem C01_oer_roundtrip : forall t v bs,
  wf_ty_oer t = true -> not_opt t = true -> wt_oer t v = true -> oer t v = Some bs ->
  oer_decode t bs = Some (v, zlen bs).
Proof. exact oer_decode_roundtrip. Qed.
Print Assumptions C01_oer_roundtrip.

(* "encoding ... succeeds" for OER: every well-typed value inside its constraints is encodable *)
Theorem C01_oer_encode_decode : forall t v,
  wf_ty_oer t = true -> not_opt t = true -> wt_oer t v = true -> oer_in t v = true ->
  exists bs, oer t v = Some bs /\ oer_decode t bs = Some (v, zlen bs) /\
             forall rest, oer_dec t (bs ++ rest) = Some (v, rest).
Proof. exact oer_encode_decode. Qed.
Print Assumptions C01_oer_encode_decode.

(* ===================================================================== *)
(* Extensibility layer (coq/Rt/Ext.v, ExtProofs.v; notes/design/EXT.md): extensible SEQUENCE
   { root, ..., additions } and extensible CHOICE { root, ..., extension alternatives } over the
   base algebra.  std is the switch of the base codec model, handed down to the components
   (std = false: what the C does there); the framing of the extensions has one reading, the C's
   and the standards' alike since the repairs of uper_put_nslength, uper_put_nsnnwn,
   uper_open_type_skip and oer_open_type_skip. *)
From A1 Require Import Rt.Ext Rt.ExtFormat Rt.ExtProofs.

(* -- unaligned PER: round trip, any number of additions / extension alternatives the encoder accepts
      (wf_ety_uper bounds the extension alternatives by 65536: uper_get_nsnnwn reads two octets) -- *)
Theorem C01_ext_uper_roundtrip_in_stream : forall std t v bits rest,
  wf_ety_uper t = true -> wt_ety_uper std t v ->
  ext_uper std t v = Some bits -> ext_uper_dec std t (bits ++ rest) = Some (v, rest).
Proof. exact ext_uper_roundtrip_in_stream. Qed.
Print Assumptions C01_ext_uper_roundtrip_in_stream.

Theorem C01_ext_uper_roundtrip : forall std t v bytes,
  wf_ety_uper t = true -> wt_ety_uper std t v ->
  ext_uper_encode std t v = Some bytes ->
  ext_uper_decode std t bytes = Some (v, zlen bytes) /\ 1 <= zlen bytes.
Proof. exact ext_uper_decode_roundtrip. Qed.
Print Assumptions C01_ext_uper_roundtrip.

(* -- OER: round trip -- *)
Theorem C01_ext_oer_roundtrip_in_stream : forall t v bs rest,
  wf_ety_oer t = true -> wt_ety_oer t v -> ext_oer t v = Some bs ->
  ext_oer_dec t (bs ++ rest) = Some (v, rest).
Proof. exact ext_oer_roundtrip_in_stream. Qed.
Print Assumptions C01_ext_oer_roundtrip_in_stream.

Theorem C01_ext_oer_roundtrip : forall t v bs,
  wf_ety_oer t = true -> wt_ety_oer t v -> ext_oer t v = Some bs ->
  ext_oer_decode t bs = Some (v, zlen bs).
Proof. exact ext_oer_decode_roundtrip. Qed.
Print Assumptions C01_ext_oer_roundtrip.

(* -- DER / BER -- *)
Theorem C01_ext_ber_roundtrip_in_stream : forall t v bs rest,
  wf_ety_der t = true -> wt_ety_der t v = true -> ext_der t v = Some bs -> zlen bs <= rssize_max ->
  ext_ber_dec t (bs ++ rest) = Some (v, rest).
Proof. exact ext_ber_roundtrip_in_stream. Qed.
Print Assumptions C01_ext_ber_roundtrip_in_stream.

Theorem C01_ext_ber_roundtrip : forall t v bs,
  wf_ety_der t = true -> wt_ety_der t v = true -> ext_der t v = Some bs -> zlen bs <= rssize_max ->
  ext_ber_decode t bs = Some (v, zlen bs).
Proof. exact ext_ber_decode_roundtrip. Qed.
Print Assumptions C01_ext_ber_roundtrip.

(* -- forward compatibility: a reader that knows only the first k additions gets the known part back and
      leaves exactly what followed; every unknown present addition is skipped, whatever its size -- *)
Theorem C01_ext_uper_forward_compat : forall std tg root adds rvs avs bits rest k,
  wf_ety_uper (ESeq tg root adds) = true -> wt_ety_uper std (ESeq tg root adds) (EVSeq rvs avs) ->
  ext_uper std (ESeq tg root adds) (EVSeq rvs avs) = Some bits ->
  ext_uper_dec std (truncate_ty k (ESeq tg root adds)) (bits ++ rest) = Some (truncate_val k (EVSeq rvs avs), rest).
Proof. exact ext_uper_forward_compat. Qed.
Print Assumptions C01_ext_uper_forward_compat.

Theorem C01_ext_oer_forward_compat : forall tg root adds rvs avs bs rest k,
  wf_ety_oer (ESeq tg root adds) = true -> wt_ety_oer (ESeq tg root adds) (EVSeq rvs avs) ->
  ext_oer (ESeq tg root adds) (EVSeq rvs avs) = Some bs ->
  ext_oer_dec (truncate_ty k (ESeq tg root adds)) (bs ++ rest) = Some (truncate_val k (EVSeq rvs avs), rest).
Proof. exact ext_oer_forward_compat. Qed.
Print Assumptions C01_ext_oer_forward_compat.

Theorem C01_ext_ber_forward_compat : forall tg root adds rvs avs bs rest k,
  wf_ety_der (ESeq tg root adds) = true -> wt_ety_der (ESeq tg root adds) (EVSeq rvs avs) = true ->
  ext_der (ESeq tg root adds) (EVSeq rvs avs) = Some bs -> zlen bs <= rssize_max ->
  ext_ber_dec (ESeq tg root (firstn k adds)) (bs ++ rest) = Some (EVSeq rvs (firstn k avs), rest).
Proof. exact ext_ber_seq_fwd. Qed.
Print Assumptions C01_ext_ber_forward_compat.

(* -- non-vacuity: the inputs that used to refute the statements above (65 additions, extension alternative
      index 64, an unknown one-octet addition) satisfy their hypotheses and come back -- *)
Theorem C01_ext_uper_seq65_example :
  wf_ety_uper wit_seq65 = true /\ wt_ety_uper false wit_seq65 wit_val65 /\
  exists bits, ext_uper false wit_seq65 wit_val65 = Some bits /\
    ext_uper_dec false wit_seq65 bits = Some (wit_val65, []) /\
    firstn 12 bits = [true; true; true; false; true; false; false; false; false; false; true; true].
Proof. exact ext_uper_seq65_example. Qed.
Print Assumptions C01_ext_uper_seq65_example.

Theorem C01_ext_uper_choice66_example :
  wf_ety_uper wit_choice66 = true /\ wt_ety_uper false wit_choice66 wit_alt64 /\
  exists bits, ext_uper false wit_choice66 wit_alt64 = Some bits /\
    ext_uper_dec false wit_choice66 bits = Some (wit_alt64, []) /\
    firstn 18 bits = [true; true; false; false; false; false; false; false; false; true;
                      false; true; false; false; false; false; false; false].
Proof. exact ext_uper_choice66_example. Qed.
Print Assumptions C01_ext_uper_choice66_example.

Theorem C01_ext_forward_compat_example :
  (exists bits, ext_uper false wit_seq2 wit_val2 = Some bits /\
     ext_uper_dec false (truncate_ty 1 wit_seq2) bits = Some (truncate_val 1 wit_val2, [])) /\
  (exists bs, ext_oer wit_seq2 wit_val2 = Some bs /\
     ext_oer_dec (truncate_ty 1 wit_seq2) bs = Some (truncate_val 1 wit_val2, [])).
Proof. exact ext_forward_compat_example. Qed.
Print Assumptions C01_ext_forward_compat_example.

(* the OER preamble of a SEQUENCE with nine OPTIONAL root members has two octets; the extension bit is the first bit
   of the first (C02_ext_oer_preamble_format), the value with an addition comes back (SEQUENCE_decode_oer used to
   look for the bit in the second octet: finding C01-ext-oer-preamble-over-8-optionals, fixed) *)
Theorem C01_ext_oer_preamble9_example :
  wf_ety_oer wit_seq_p9 = true /\ wt_ety_oer wit_seq_p9 wit_val_p9 /\
  ext_oer wit_seq_p9 wit_val_p9 = Some [128; 0; 255; 2; 7; 128; 1; 255] /\
  ext_oer_dec wit_seq_p9 [128; 0; 255; 2; 7; 128; 1; 255] = Some (wit_val_p9, []).
Proof. exact ext_oer_preamble9_example. Qed.
Print Assumptions C01_ext_oer_preamble9_example.

(* ---------------- SET and DEFAULT components (Rt/SetDef.v, notes/design/SetDef.md) ---------------- *)
From A1 Require Import Rt.Uper Rt.UperProofs Rt.Oer Rt.OerProofs Rt.SetDef Rt.SetDefProofs.

(* DER written (members of a SET in the order SET_encode_der chooses, a value equal to its DEFAULT
   omitted), BER read, arbitrary data may follow: the value comes back with every stored default ABSENT *)
Theorem C01_setdef_der_roundtrip_in_stream : forall t v bs rest,
  cwf_d t = true -> is_marker t = false -> cwt_d t v = true -> cder false t v = Some bs -> zlen bs <= rssize_max ->
  cber_dec t (bs ++ rest) = Some (strip_dflt t v, rest).
Proof. exact cder_roundtrip_in_stream. Qed.
Print Assumptions C01_setdef_der_roundtrip_in_stream.

Theorem C01_setdef_der_roundtrip : forall t v bs,
  cwf_d t = true -> is_marker t = false -> cwt_d t v = true -> cder false t v = Some bs -> zlen bs <= rssize_max ->
  cber_decode t bs = Some (strip_dflt t v, zlen bs).
Proof. exact cder_roundtrip. Qed.
Print Assumptions C01_setdef_der_roundtrip.

(* unaligned PER and OER of a SEQUENCE with OPTIONAL / DEFAULT components: the value comes back with every
   absent DEFAULT component FILLED IN (default_value_set) *)
Theorem C01_setdef_uper_roundtrip_in_stream : forall std t v bits rest,
  cwf_u t = true -> is_marker t = false -> cwt_u std t v = true -> cuper false std t v = Some bits ->
  cuper_dec std t (bits ++ rest) = Some (fill_dflt t v, rest).
Proof. exact cuper_roundtrip_in_stream. Qed.
Print Assumptions C01_setdef_uper_roundtrip_in_stream.

Theorem C01_setdef_oer_roundtrip_in_stream : forall t v bs rest,
  cwf_o t = true -> is_marker t = false -> cwt_o t v = true -> coer false t v = Some bs ->
  coer_dec t (bs ++ rest) = Some (fill_dflt t v, rest).
Proof. exact coer_roundtrip_in_stream. Qed.
Print Assumptions C01_setdef_oer_roundtrip_in_stream.
(* ---- PrimB: restricted character strings (Rt/PrimB.v) ----
   IA5String, VisibleString, PrintableString, NumericString, BMPString, UniversalString (known-multiplier types, with no
   constraint / SIZE / extensible SIZE / FROM), UTF8String and the other string types, at top level, under EXPLICIT tags, as a
   mandatory or OPTIONAL member of a SEQUENCE next to members of the base algebra, and as the element of a SEQUENCE OF.
   Unaligned PER is modelled on its own (coq/Rt/PrimB.v: both readings), DER / BER and OER by translation to the base algebra.
   [wf_leaf std l] (coq/Rt/PrimBProofs.v): for the (constraint, width) pair the writer uses inside the root and - when the SIZE is
   extensible and the pair is reachable - outside it, the character goes out as it is (as_is), or through a canonical map of
   at most 16 bits that hold every index, or as an offset from the lower bound in bits that hold every offset. *)
From A1 Require Import Rt.Uper Rt.UperProofs Rt.Oer Rt.OerProofs Rt.PrimB Rt.PrimBProofs.

(* the PER reader of a string leaf returns the octets of the value and leaves exactly what followed the encoding *)
Theorem C01_primb_uper_leaf_rt : forall std l bs bits rest,
  wf_leaf std l = true -> bytes_ok bs -> uper_leaf std l bs = Some bits ->
  uper_leaf_dec std l (bits ++ rest) = Some (bs, rest).
Proof. exact uper_leaf_rt. Qed.
Print Assumptions C01_primb_uper_leaf_rt.

Theorem C01_primb_pb_uper_roundtrip_in_stream : forall std t v bits rest,
  wf_sty_uper std t = true -> wt_sty_uper std t v = true -> pb_uper std t v = Some bits ->
  pb_uper_dec std t (bits ++ rest) = Some (v, rest).
Proof. exact pb_uper_roundtrip_in_stream. Qed.
Print Assumptions C01_primb_pb_uper_roundtrip_in_stream.

(* complete encodings: the value comes back and exactly the octets produced (at least one) are consumed *)
Theorem C01_primb_pb_uper_decode_roundtrip : forall std t v bytes,
  wf_sty_uper std t = true -> wt_sty_uper std t v = true -> pb_uper_encode std t v = Some bytes ->
  pb_uper_decode std t bytes = Some (v, zlen bytes) /\ 1 <= zlen bytes.
Proof. exact pb_uper_decode_roundtrip. Qed.
Print Assumptions C01_primb_pb_uper_decode_roundtrip.

Theorem C01_primb_pb_der_roundtrip_in_stream : forall t v bs rest,
  DerProofs.wf_ty (der_ty t) = true -> DerProofs.wt (der_ty t) v = true -> pb_der t v = Some bs ->
  zlen bs <= rssize_max -> pb_ber_dec t (bs ++ rest) = Some (v, rest).
Proof. exact pb_der_roundtrip_in_stream. Qed.
Print Assumptions C01_primb_pb_der_roundtrip_in_stream.

Theorem C01_primb_pb_der_roundtrip : forall t v bs,
  DerProofs.wf_ty (der_ty t) = true -> DerProofs.wt (der_ty t) v = true -> pb_der t v = Some bs ->
  zlen bs <= rssize_max -> pb_ber_decode t bs = Some (v, zlen bs).
Proof. exact pb_der_roundtrip. Qed.
Print Assumptions C01_primb_pb_der_roundtrip.

Theorem C01_primb_pb_oer_roundtrip_in_stream : forall t v bs rest,
  OerProofs.wf_ty_oer (oer_ty t) = true -> OerProofs.wt_oer (oer_ty t) v = true -> pb_oer t v = Some bs ->
  pb_oer_dec t (bs ++ rest) = Some (v, rest).
Proof. exact pb_oer_roundtrip_in_stream. Qed.
Print Assumptions C01_primb_pb_oer_roundtrip_in_stream.

(* the condition is needed: in the C's reading a NumericString without any constraint gets (32..57) in 4 bits and no
   character map; '5' - 32 = 21 is truncated to 5 and read back as '%' (finding C01-uper-numericstring-range) *)
Theorem C01_primb_uper_leaf_numeric_plain_refuted : exists l bs bits,
  wf_leaf false l = false /\ uper_leaf false l bs = Some bits /\ bytes_ok bs /\
  uper_leaf_dec false l bits <> Some (bs, []).
Proof. exact uper_leaf_numeric_plain_refuted. Qed.
Print Assumptions C01_primb_uper_leaf_numeric_plain_refuted.

(* ... and it is the only type of the family without a permitted-alphabet constraint that violates it *)
Theorem C01_primb_wf_leaf_no_from : forall std tg k sz,
  std = true \/ k <> KNumeric \/ sz <> None -> wf_leaf std (Str tg k sz None) = true.
Proof. exact wf_leaf_no_from. Qed.
Print Assumptions C01_primb_wf_leaf_no_from.

(* non-vacuity: SEQUENCE { a IA5String (SIZE(1..5,...)), b [0] EXPLICIT NumericString (FROM("0".."9")) OPTIONAL, c BOOLEAN }
   with { a "Hi", b "42", c TRUE } meets the hypotheses in both readings, and its encoding is read back *)
Theorem C01_primb_example :
  wf_sty_uper false ex_sty = true /\ wt_sty_uper false ex_sty ex_sval = true /\
  pb_uper_encode false ex_sty ex_sval = Some [140; 141; 32; 72; 80] /\
  pb_uper_decode false ex_sty [140; 141; 32; 72; 80] = Some (ex_sval, 5).
Proof.
  split; [exact (proj1 ex_s_meets_hypotheses)|].
  split; [exact (proj1 (proj2 (proj2 ex_s_meets_hypotheses)))|].
  split; [exact (proj2 (proj2 ex_s_uper))|exact (proj2 ex_s_uper_decodes)].
Qed.
Print Assumptions C01_primb_example.
(* ------------------------------------------------------------------ *)
(* ENUMERATED / BIT STRING layer (Rt/PrimA.v, Rt/PrimAProofs.v; notes/design/PrimA.md):
   round trips of the model of the C, each also when followed by arbitrary further data *)
From A1 Require Import Rt.Uper Rt.Oer Rt.Ext Rt.PrimA Rt.PrimAProofs.

Theorem C01_prima_enum_uper_roundtrip : forall root ext adds z enc rest,
  enum_ok root ext adds -> enum_uper root ext adds z = Some enc ->
  enum_uper_dec root ext adds (enc ++ rest) = Some (z, rest).
Proof. exact enum_uper_rt. Qed.
Print Assumptions C01_prima_enum_uper_roundtrip.

Theorem C01_prima_enum_oer_roundtrip : forall z rest, fits_long z = true ->
  enum_oer_dec (enum_oer z ++ rest) = Some (z, rest).
Proof. exact enum_oer_rt. Qed.
Print Assumptions C01_prima_enum_oer_roundtrip.

Theorem C01_prima_bits_contents_roundtrip : forall bs, bits_of_contents (bits_contents bs) = Some bs.
Proof. exact bits_contents_rt. Qed.
Print Assumptions C01_prima_bits_contents_roundtrip.

(* what the UPER reader returns is the string the C transmits: stripped, padded to the lower bound *)
Theorem C01_prima_bits_uper_transmitted : forall s bs enc rest, scon_ok s ->
  bits_uper s bs = Some enc -> bits_uper_dec s (enc ++ rest) = Some (bits_sent s bs, rest).
Proof. exact bits_uper_rt. Qed.
Print Assumptions C01_prima_bits_uper_transmitted.

Theorem C01_prima_bits_uper_roundtrip_partial : forall s bs enc rest, scon_ok s ->
  strip_tz bs = bs ->
  (match s with SCon lo hi _ => size_constrained hi = true -> lo <= zlen bs end) ->
  bits_uper s bs = Some enc -> bits_uper_dec s (enc ++ rest) = Some (bs, rest).
Proof. exact bits_uper_roundtrip_partial. Qed.
Print Assumptions C01_prima_bits_uper_roundtrip_partial.

Theorem C01_prima_bits_uper_roundtrip_refuted :
  exists s bs enc, scon_ok s /\ bits_uper s bs = Some enc /\ bits_uper_dec s enc <> Some (bs, []).
Proof. exact bits_uper_roundtrip_refuted. Qed.
Print Assumptions C01_prima_bits_uper_roundtrip_refuted.

Theorem C01_prima_bits_oer_roundtrip : forall s bs enc rest,
  (match oer_fixed_size s with Some n => zlen bs = n | None => zlen bs + 8 <= rssize_max end) ->
  bits_oer s bs = Some enc -> bits_oer_dec s (enc ++ rest) = Some (bs, rest).
Proof. exact bits_oer_rt. Qed.
Print Assumptions C01_prima_bits_oer_roundtrip.

Theorem C01_prima_uper_roundtrip_in_stream : forall t v bits rest,
  pty_ok t -> pval_ok false t v -> p_uper false t v = Some bits ->
  p_uper_dec false t (bits ++ rest) = Some (v, rest).
Proof. exact p_uper_roundtrip_in_stream. Qed.
Print Assumptions C01_prima_uper_roundtrip_in_stream.

Theorem C01_prima_uper_decode_roundtrip : forall t v bytes,
  pty_ok t -> pval_ok false t v -> p_uper_encode false t v = Some bytes ->
  p_uper_decode false t bytes = Some (v, zlen bytes) /\ 1 <= zlen bytes.
Proof. exact p_uper_decode_roundtrip. Qed.
Print Assumptions C01_prima_uper_decode_roundtrip.

Theorem C01_prima_oer_roundtrip_in_stream : forall t v bs rest,
  pty_ok_oer t -> pval_ok_oer t v -> p_oer false t v = Some bs ->
  p_oer_dec t (bs ++ rest) = Some (v, rest).
Proof. exact p_oer_roundtrip_in_stream. Qed.
Print Assumptions C01_prima_oer_roundtrip_in_stream.

Theorem C01_prima_leaf_ber_roundtrip_in_stream : forall l x bs rest,
  tag_good (leaf_tag l) ->
  match l, x with
  | LEnum _ _ _ _, XEnum z => fits_long z = true
  | LBits _ _ _, XBits b => True
  | _, _ => False
  end ->
  p_der false (PElem (ELeaf l)) (PVElem x) = Some bs -> zlen bs <= rssize_max ->
  p_ber_dec (PElem (ELeaf l)) (bs ++ rest) = Some (PVElem x, rest).
Proof. exact leaf_ber_roundtrip_in_stream. Qed.
Print Assumptions C01_prima_leaf_ber_roundtrip_in_stream.
(* ================= DEFAULT components of an extensible SEQUENCE (root members and extension additions) =================
   Encoders: coq/Rt/CanonicalDefault.v (a stored component equal to its DEFAULT is absent at every place an encoder looks
   at it).  Decoders: coq/Rt/DefaultRt.v (which absent components `default_value_set` fills in: BER none; UPER all; OER the
   root always, the additions only when the extension bit is set).  The structure that comes back is in general not the one
   that went in; the round trip holds up to [dflt_equiv] (component by component equal, or both at the DEFAULT), and
   equivalent structures have the same DER / UPER / OER octets.  Tie: lib/c01_dflt.py. *)
From A1 Require Import Rt.Canonical Rt.CanonicalDefault Rt.DefaultRt Rt.DefaultRtProofs.

Theorem C01_default_oer_roundtrip_in_stream : forall dr da t v bs rest,
  wf_ety_oer t = true -> wt_ety_oer t v -> dflt_shape dr da t ->
  dfl_oer dr da t v = Some bs ->
  exists v', dfl_oer_dec dr da t (bs ++ rest) = Some (v', rest) /\ dflt_equiv dr da v v'.
Proof. exact dfl_oer_roundtrip_in_stream. Qed.
Print Assumptions C01_default_oer_roundtrip_in_stream.

(* the structure SEQUENCE_decode_oer leaves behind, exactly (what the tie compares pointer by pointer): root DEFAULTs always
   stored; the DEFAULTs of the additions stored when some addition was encoded (extension bit set), absent otherwise *)
Theorem C01_default_oer_roundtrip_exact : forall dr da tg root adds rvs avs bs rest,
  wf_ety_oer (ESeq tg root adds) = true -> wt_ety_oer (ESeq tg root adds) (EVSeq rvs avs) ->
  dfl_oer dr da (ESeq tg root adds) (EVSeq rvs avs) = Some bs ->
  dfl_oer_dec dr da (ESeq tg root adds) (bs ++ rest) =
    Some (EVSeq (fill dr (elide dr rvs))
                (if existsb is_present (elide da avs) then fill da (elide da avs) else elide da avs), rest).
Proof. exact dfl_oer_roundtrip_exact. Qed.
Print Assumptions C01_default_oer_roundtrip_exact.

(* complete encodings: exactly the octets produced are consumed; the result has the DER of the original and re-encodes
   to the same OER octets *)
Theorem C01_default_oer_roundtrip : forall dr da t v bs,
  wf_ety_oer t = true -> wt_ety_oer t v -> dflt_shape dr da t ->
  dfl_oer dr da t v = Some bs ->
  exists v', dfl_oer_decode dr da t bs = Some (v', zlen bs) /\ dflt_equiv dr da v v' /\
             dfl_der dr da t v' = dfl_der dr da t v /\ dfl_oer dr da t v' = Some bs.
Proof. exact dfl_oer_roundtrip. Qed.
Print Assumptions C01_default_oer_roundtrip.

Theorem C01_default_uper_roundtrip : forall std dr da t v bytes,
  wf_ety_uper t = true -> wt_ety_uper std t v -> dflt_shape dr da t ->
  dfl_uper std dr da t v = Some bytes ->
  exists v', dfl_uper_decode std dr da t bytes = Some (v', zlen bytes) /\ dflt_equiv dr da v v' /\
             dfl_der dr da t v' = dfl_der dr da t v /\ dfl_uper std dr da t v' = Some bytes.
Proof. exact dfl_uper_roundtrip. Qed.
Print Assumptions C01_default_uper_roundtrip.

(* DER written, BER read: nothing is filled in, the components at their DEFAULT come back absent *)
Theorem C01_default_ber_roundtrip : forall dr da t v bs,
  wf_ety_der t = true -> wt_ety_der t v = true -> dflt_shape dr da t ->
  dfl_der dr da t v = Some bs -> zlen bs <= rssize_max ->
  dfl_ber_decode dr da t bs = Some (elide_v dr da v, zlen bs) /\ dflt_equiv dr da v (elide_v dr da v).
Proof. exact dfl_ber_roundtrip. Qed.
Print Assumptions C01_default_ber_roundtrip.

(* transcoding: structures that denote the same value have the same octets in each of the three syntaxes *)
Theorem C01_default_equiv_same_der : forall dr da t v1 v2,
  dflt_equiv dr da v1 v2 -> dfl_der dr da t v1 = dfl_der dr da t v2.
Proof. exact dflt_equiv_same_der. Qed.
Print Assumptions C01_default_equiv_same_der.

Theorem C01_default_equiv_same_uper : forall std dr da t v1 v2,
  dflt_equiv dr da v1 v2 -> dfl_uper std dr da t v1 = dfl_uper std dr da t v2.
Proof. exact dflt_equiv_same_uper. Qed.
Print Assumptions C01_default_equiv_same_uper.

Theorem C01_default_equiv_same_oer : forall dr da t v1 v2,
  dflt_equiv dr da v1 v2 -> dfl_oer dr da t v1 = dfl_oer dr da t v2.
Proof. exact dflt_equiv_same_oer. Qed.
Print Assumptions C01_default_equiv_same_oer.

(* the encoder of the seeded change C01-7 (presence bitmap of the additions from pointer presence): the same octets as
   the real one exactly where no addition is stored with its DEFAULT value ... *)
Theorem C01_default_oer_ptr_bitmap_agrees : forall dr da t rvs avs,
  elide da avs = avs ->
  dfl_oer_ptr_bitmap dr da t (EVSeq rvs avs) = dfl_oer dr da t (EVSeq rvs avs).
Proof. exact dfl_oer_ptr_bitmap_agrees. Qed.
Print Assumptions C01_default_oer_ptr_bitmap_agrees.

(* ... and elsewhere octets the decoder cannot read (the seed's own type and value: level 5 and flag TRUE stored, note present) *)
Theorem C01_default_oer_ptr_bitmap_refuted :
  wf_ety_oer wit7_t = true /\ wt_ety_oer wit7_t wit7_v /\ dflt_shape wit7_dr wit7_da wit7_t /\
  dfl_oer wit7_dr wit7_da wit7_t wit7_v = Some [128; 200; 2; 5; 32; 4; 3; 97; 98; 99] /\
  dfl_oer_ptr_bitmap wit7_dr wit7_da wit7_t wit7_v = Some [128; 200; 2; 5; 224; 4; 3; 97; 98; 99] /\
  dfl_oer_dec wit7_dr wit7_da wit7_t [128; 200; 2; 5; 224; 4; 3; 97; 98; 99] = None.
Proof. exact dfl_oer_ptr_bitmap_refuted. Qed.
Print Assumptions C01_default_oer_ptr_bitmap_refuted.

(* non-vacuity, and the asymmetry of SEQUENCE_decode_oer: with the extension bit set the DEFAULT additions come back
   stored, without it they stay absent *)
Theorem C01_default_oer_roundtrip_example :
  dfl_oer_decode wit7_dr wit7_da wit7_t [128; 200; 2; 5; 32; 4; 3; 97; 98; 99] = Some (wit7_v, 10) /\
  dfl_oer_decode wit7_dr wit7_da wit7_t [0; 200] = Some (EVSeq [VInt 200] [VNone; VNone; VNone], 2) /\
  dfl_oer wit7_dr wit7_da wit7_t (EVSeq [VInt 200] [VSome (VInt 5); VSome (VBool true); VNone]) = Some [0; 200].
Proof. exact dfl_oer_roundtrip_example. Qed.
Print Assumptions C01_default_oer_roundtrip_example.

(* -- the width of an OER-visible INTEGER constraint with a negative lower bound
      (Rt/WidthRt.v; tie: lib/c01_width.py, the lb x ub width-boundary modules) -- *)
From A1 Require Import Rt.WidthRt.

(* the width [oer_int_ct] emits is the least of 1, 2, 4, 8 octets whose two's-complement
   range holds BOTH bounds (0 = length-prefixed when none does) *)
Theorem C01_oer_width_signed_least : forall l h w, l < 0 ->
  fst (oer_int_ct (ICon (Some l) (Some h) false)) = w ->
  In w [0; 1; 2; 4; 8] /\
  (w = 0 -> fits_s 8 l h = false) /\
  (w <> 0 -> fits_s w l h = true) /\
  (forall w', In w' [1; 2; 4; 8] -> w' < w -> fits_s w' l h = false).
Proof. exact oer_width_signed_least. Qed.
Print Assumptions C01_oer_width_signed_least.

(* hence every value between the bounds, the bounds included, fits that width *)
Theorem C01_oer_width_signed_holds : forall l h z w, l < 0 -> l <= z <= h ->
  fst (oer_int_ct (ICon (Some l) (Some h) false)) = w -> w <> 0 ->
  - 2 ^ (8 * w - 1) <= z <= 2 ^ (8 * w - 1) - 1.
Proof. exact oer_width_signed_holds. Qed.
Print Assumptions C01_oer_width_signed_holds.

(* the decision of seeded/C01-9 (upper test without "- 1") is the same function away
   from the upper bounds 2^7, 2^15, 2^31 ... *)
Theorem C01_oer_width_shift_agrees : forall l h, l < 0 ->
  h <> 128 -> h <> 32768 -> h <> 2147483648 ->
  oer_int_ct_shift l h = oer_int_ct (ICon (Some l) (Some h) false).
Proof. exact oer_width_shift_agrees. Qed.
Print Assumptions C01_oer_width_shift_agrees.

(* ... one size too small exactly there, for every lower bound of that size ... *)
Theorem C01_oer_width_shift_differs : forall l,
  (-128 <= l < 0 -> oer_int_ct_shift l 128 = (1, false) /\
                    oer_int_ct (ICon (Some l) (Some 128) false) = (2, false)) /\
  (-32768 <= l < 0 -> oer_int_ct_shift l 32768 = (2, false) /\
                      oer_int_ct (ICon (Some l) (Some 32768) false) = (4, false)) /\
  (-2147483648 <= l < 0 -> oer_int_ct_shift l 2147483648 = (4, false) /\
                           oer_int_ct (ICon (Some l) (Some 2147483648) false) = (8, false)).
Proof. exact oer_width_shift_differs. Qed.
Print Assumptions C01_oer_width_shift_differs.

(* ... and then the encoder refuses the upper bound itself, which the real width encodes *)
Theorem C01_oer_width_shift_refuted : forall l,
  (-128 <= l < 0 ->
     oer_int_with (oer_int_ct_shift l 128) 128 = None /\
     oer_int (ICon (Some l) (Some 128) false) 128 = Some [0; 128]) /\
  (-32768 <= l < 0 ->
     oer_int_with (oer_int_ct_shift l 32768) 32768 = None /\
     oer_int (ICon (Some l) (Some 32768) false) 32768 = Some [0; 0; 128; 0]).
Proof. exact oer_width_shift_refuted. Qed.
Print Assumptions C01_oer_width_shift_refuted.
