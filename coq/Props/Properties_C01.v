(* Properties_C01.v — encode-then-decode returns the same value.
   Model: coq/Rt/{Der,Uper,Oer}.v; tied to the C by checks/c01.py.
   Proved here for DER/BER over the whole first-milestone algebra; the UPER and
   OER round trips of the model and the XER syntaxes are covered by the tie only
   (see DESIGN.md, C01: partial). *)
From Coq Require Import ZArith List Bool.
From A1 Require Import Base.Bytes Leaf.BerTL Rt.Types Rt.Comb Rt.Der Rt.DerProofs.
Import ListNotations.
Local Open Scope Z_scope.

(* decoding the produced bytes returns RC_OK with the same value and consumes
   exactly the bytes that were produced *)
Theorem C01_der_roundtrip : forall t v bs,
  wf_ty t = true -> not_opt t = true -> wt t v = true -> der t v = Some bs ->
  zlen bs <= rssize_max -> ber_decode t bs = Some (v, zlen bs).
Proof. exact der_roundtrip. Qed.
Print Assumptions C01_der_roundtrip.

(* ... also when other bytes follow (the form the induction needs, and what a
   decoder embedded in a larger stream sees) *)
Theorem C01_der_roundtrip_in_stream : forall t v bs rest,
  wf_ty t = true -> wt t v = true -> der t v = Some bs -> zlen bs <= rssize_max ->
  opt_ok t v rest -> ber_dec t (bs ++ rest) = Some (v, rest).
Proof. exact der_decodes_all. Qed.
Print Assumptions C01_der_roundtrip_in_stream.

(* non-vacuity: a concrete well-formed type and value meet the hypotheses *)
Example C01_example :
  let t := TSeq 64 [TInt 8 (ICon (Some 0) (Some 255) false); TOpt (TBool 4);
                    TChoice [TNull 20; TInt 8 (ICon None None false)];
                    TSetOf 68 (SCon 0 None false) (TTag 131 (TInt 8 (ICon None None false)))] in
  let v := VSeq [VInt 200; VNone; VChoice 1 (VInt (-3)); VList [VInt 1; VInt 300]] in
  wf_ty t = true /\ wt t v = true /\ not_opt t = true /\
  ber_decode t (match der t v with Some bs => bs | None => [] end) = Some (v, 24).
Proof. vm_compute. repeat split; reflexivity. Qed.
