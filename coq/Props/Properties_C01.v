(* Properties_C01.v — encode-then-decode returns the same value.
   Model: coq/Rt/{Der,Uper,Oer}.v; tied to the C by checks/c01.py.
   Proved here for DER/BER, unaligned PER (both the X.691 reading and the reading
   that mirrors the C, including 16K fragmentation) and OER over the whole
   first-milestone algebra; the XER syntaxes and the types outside the algebra
   are covered by the tie only (see DESIGN.md, C01: partial). *)
From Coq Require Import ZArith List Bool.
From A1 Require Import Base.Bytes Leaf.BerTL Rt.Types Rt.Comb Rt.Der Rt.DerProofs
  Rt.Uper Rt.UperProofs Rt.Oer Rt.OerProofs Rt.OerTotal.
Import ListNotations.
Local Open Scope Z_scope.

(* decoding the produced bytes returns RC_OK with the same value and consumes
   exactly the bytes that were produced *)
Theorem C01_der_roundtrip : forall t v bs,
  wf_ty t = true -> not_opt t = true -> wt t v = true -> der t v = Some bs ->
  zlen bs <= rssize_max -> ber_decode t bs = Some (v, zlen bs).
Proof. exact der_roundtrip. Qed.
Print Assumptions C01_der_roundtrip.

(* ... also when other bytes follow (the form the induction needs, and what a
   decoder embedded in a larger stream sees) *)
Theorem C01_der_roundtrip_in_stream : forall t v bs rest,
  wf_ty t = true -> wt t v = true -> der t v = Some bs -> zlen bs <= rssize_max ->
  opt_ok t v rest -> ber_dec t (bs ++ rest) = Some (v, rest).
Proof. exact der_decodes_all. Qed.
Print Assumptions C01_der_roundtrip_in_stream.

(* non-vacuity: a concrete well-formed type and value meet the hypotheses *)
Example C01_example :
  let t := TSeq 64 [TInt 8 (ICon (Some 0) (Some 255) false); TOpt (TBool 4);
                    TChoice [TNull 20; TInt 8 (ICon None None false)];
                    TSetOf 68 (SCon 0 None false) (TTag 131 (TInt 8 (ICon None None false)))] in
  let v := VSeq [VInt 200; VNone; VChoice 1 (VInt (-3)); VList [VInt 1; VInt 300]] in
  wf_ty t = true /\ wt t v = true /\ not_opt t = true /\
  ber_decode t (match der t v with Some bs => bs | None => [] end) = Some (v, 24).
Proof. vm_compute. repeat split; reflexivity. Qed.

(* -- unaligned PER, for both readings of the model (std = true: X.691;
      std = false: what the C writes) -- *)
Theorem C01_uper_roundtrip_in_stream : forall std t v bits rest,
  wf_ty_uper t = true -> wt_uper std t v = true -> uper std t v = Some bits ->
  uper_dec std t (bits ++ rest) = Some (v, rest).
Proof. exact uper_roundtrip_in_stream. Qed.
Print Assumptions C01_uper_roundtrip_in_stream.

Theorem C01_uper_roundtrip : forall std t v bytes,
  wf_ty_uper t = true -> wt_uper std t v = true -> uper_encode std t v = Some bytes ->
  uper_decode std t bytes = Some (v, zlen bytes) /\ 1 <= zlen bytes.
Proof. exact uper_decode_roundtrip. Qed.
Print Assumptions C01_uper_roundtrip.

(* -- OER -- *)
Theorem C01_oer_roundtrip_in_stream : forall t v bs rest,
  wf_ty_oer t = true -> not_opt t = true -> wt_oer t v = true -> oer t v = Some bs ->
  oer_dec t (bs ++ rest) = Some (v, rest).
Proof. exact oer_roundtrip_in_stream. Qed.
Print Assumptions C01_oer_roundtrip_in_stream.

Theorem C01_oer_roundtrip : forall t v bs,
  wf_ty_oer t = true -> not_opt t = true -> wt_oer t v = true -> oer t v = Some bs ->
  oer_decode t bs = Some (v, zlen bs).
Proof. exact oer_decode_roundtrip. Qed.
Print Assumptions C01_oer_roundtrip.

(* "encoding ... succeeds" for OER: every well-typed value inside its constraints is encodable *)
Theorem C01_oer_encode_decode : forall t v,
  wf_ty_oer t = true -> not_opt t = true -> wt_oer t v = true -> oer_in t v = true ->
  exists bs, oer t v = Some bs /\ oer_decode t bs = Some (v, zlen bs) /\
             forall rest, oer_dec t (bs ++ rest) = Some (v, rest).
Proof. exact oer_encode_decode. Qed.
Print Assumptions C01_oer_encode_decode.

(* ===================================================================== *)
(* Extensibility layer (coq/Rt/Ext.v, ExtProofs.v; notes/design/EXT.md): extensible SEQUENCE
   { root, ..., additions } and extensible CHOICE { root, ..., extension alternatives } over the
   base algebra.  std is the switch of the base codec model, handed down to the components
   (std = false: what the C does there); the framing of the extensions has one reading, the C's
   and the standards' alike since the repairs of uper_put_nslength, uper_put_nsnnwn,
   uper_open_type_skip and oer_open_type_skip. *)
From A1 Require Import Rt.Ext Rt.ExtFormat Rt.ExtProofs.

(* -- unaligned PER: round trip, any number of additions / extension alternatives the encoder accepts
      (wf_ety_uper bounds the extension alternatives by 65536: uper_get_nsnnwn reads two octets) -- *)
Theorem C01_ext_uper_roundtrip_in_stream : forall std t v bits rest,
  wf_ety_uper t = true -> wt_ety_uper std t v ->
  ext_uper std t v = Some bits -> ext_uper_dec std t (bits ++ rest) = Some (v, rest).
Proof. exact ext_uper_roundtrip_in_stream. Qed.
Print Assumptions C01_ext_uper_roundtrip_in_stream.

Theorem C01_ext_uper_roundtrip : forall std t v bytes,
  wf_ety_uper t = true -> wt_ety_uper std t v ->
  ext_uper_encode std t v = Some bytes ->
  ext_uper_decode std t bytes = Some (v, zlen bytes) /\ 1 <= zlen bytes.
Proof. exact ext_uper_decode_roundtrip. Qed.
Print Assumptions C01_ext_uper_roundtrip.

(* -- OER: round trip -- *)
Theorem C01_ext_oer_roundtrip_in_stream : forall t v bs rest,
  wf_ety_oer t = true -> wt_ety_oer t v -> ext_oer t v = Some bs ->
  ext_oer_dec t (bs ++ rest) = Some (v, rest).
Proof. exact ext_oer_roundtrip_in_stream. Qed.
Print Assumptions C01_ext_oer_roundtrip_in_stream.

Theorem C01_ext_oer_roundtrip : forall t v bs,
  wf_ety_oer t = true -> wt_ety_oer t v -> ext_oer t v = Some bs ->
  ext_oer_decode t bs = Some (v, zlen bs).
Proof. exact ext_oer_decode_roundtrip. Qed.
Print Assumptions C01_ext_oer_roundtrip.

(* -- DER / BER -- *)
Theorem C01_ext_ber_roundtrip_in_stream : forall t v bs rest,
  wf_ety_der t = true -> wt_ety_der t v = true -> ext_der t v = Some bs -> zlen bs <= rssize_max ->
  ext_ber_dec t (bs ++ rest) = Some (v, rest).
Proof. exact ext_ber_roundtrip_in_stream. Qed.
Print Assumptions C01_ext_ber_roundtrip_in_stream.

Theorem C01_ext_ber_roundtrip : forall t v bs,
  wf_ety_der t = true -> wt_ety_der t v = true -> ext_der t v = Some bs -> zlen bs <= rssize_max ->
  ext_ber_decode t bs = Some (v, zlen bs).
Proof. exact ext_ber_decode_roundtrip. Qed.
Print Assumptions C01_ext_ber_roundtrip.

(* -- forward compatibility: a reader that knows only the first k additions gets the known part back and
      leaves exactly what followed; every unknown present addition is skipped, whatever its size -- *)
Theorem C01_ext_uper_forward_compat : forall std tg root adds rvs avs bits rest k,
  wf_ety_uper (ESeq tg root adds) = true -> wt_ety_uper std (ESeq tg root adds) (EVSeq rvs avs) ->
  ext_uper std (ESeq tg root adds) (EVSeq rvs avs) = Some bits ->
  ext_uper_dec std (truncate_ty k (ESeq tg root adds)) (bits ++ rest) = Some (truncate_val k (EVSeq rvs avs), rest).
Proof. exact ext_uper_forward_compat. Qed.
Print Assumptions C01_ext_uper_forward_compat.

Theorem C01_ext_oer_forward_compat : forall tg root adds rvs avs bs rest k,
  wf_ety_oer (ESeq tg root adds) = true -> wt_ety_oer (ESeq tg root adds) (EVSeq rvs avs) ->
  ext_oer (ESeq tg root adds) (EVSeq rvs avs) = Some bs ->
  ext_oer_dec (truncate_ty k (ESeq tg root adds)) (bs ++ rest) = Some (truncate_val k (EVSeq rvs avs), rest).
Proof. exact ext_oer_forward_compat. Qed.
Print Assumptions C01_ext_oer_forward_compat.

Theorem C01_ext_ber_forward_compat : forall tg root adds rvs avs bs rest k,
  wf_ety_der (ESeq tg root adds) = true -> wt_ety_der (ESeq tg root adds) (EVSeq rvs avs) = true ->
  ext_der (ESeq tg root adds) (EVSeq rvs avs) = Some bs -> zlen bs <= rssize_max ->
  ext_ber_dec (ESeq tg root (firstn k adds)) (bs ++ rest) = Some (EVSeq rvs (firstn k avs), rest).
Proof. exact ext_ber_seq_fwd. Qed.
Print Assumptions C01_ext_ber_forward_compat.

(* -- non-vacuity: the inputs that used to refute the statements above (65 additions, extension alternative
      index 64, an unknown one-octet addition) satisfy their hypotheses and come back -- *)
Theorem C01_ext_uper_seq65_example :
  wf_ety_uper wit_seq65 = true /\ wt_ety_uper false wit_seq65 wit_val65 /\
  exists bits, ext_uper false wit_seq65 wit_val65 = Some bits /\
    ext_uper_dec false wit_seq65 bits = Some (wit_val65, []) /\
    firstn 12 bits = [true; true; true; false; true; false; false; false; false; false; true; true].
Proof. exact ext_uper_seq65_example. Qed.
Print Assumptions C01_ext_uper_seq65_example.

Theorem C01_ext_uper_choice66_example :
  wf_ety_uper wit_choice66 = true /\ wt_ety_uper false wit_choice66 wit_alt64 /\
  exists bits, ext_uper false wit_choice66 wit_alt64 = Some bits /\
    ext_uper_dec false wit_choice66 bits = Some (wit_alt64, []) /\
    firstn 18 bits = [true; true; false; false; false; false; false; false; false; true;
                      false; true; false; false; false; false; false; false].
Proof. exact ext_uper_choice66_example. Qed.
Print Assumptions C01_ext_uper_choice66_example.

Theorem C01_ext_forward_compat_example :
  (exists bits, ext_uper false wit_seq2 wit_val2 = Some bits /\
     ext_uper_dec false (truncate_ty 1 wit_seq2) bits = Some (truncate_val 1 wit_val2, [])) /\
  (exists bs, ext_oer wit_seq2 wit_val2 = Some bs /\
     ext_oer_dec (truncate_ty 1 wit_seq2) bs = Some (truncate_val 1 wit_val2, [])).
Proof. exact ext_forward_compat_example. Qed.
Print Assumptions C01_ext_forward_compat_example.

(* the OER preamble of a SEQUENCE with nine OPTIONAL root members has two octets; the extension bit is the first bit
   of the first (C02_ext_oer_preamble_format), the value with an addition comes back (SEQUENCE_decode_oer used to
   look for the bit in the second octet: finding C01-ext-oer-preamble-over-8-optionals, fixed) *)
Theorem C01_ext_oer_preamble9_example :
  wf_ety_oer wit_seq_p9 = true /\ wt_ety_oer wit_seq_p9 wit_val_p9 /\
  ext_oer wit_seq_p9 wit_val_p9 = Some [128; 0; 255; 2; 7; 128; 1; 255] /\
  ext_oer_dec wit_seq_p9 [128; 0; 255; 2; 7; 128; 1; 255] = Some (wit_val_p9, []).
Proof. exact ext_oer_preamble9_example. Qed.
Print Assumptions C01_ext_oer_preamble9_example.

(* ---------------- SET and DEFAULT components (Rt/SetDef.v, notes/design/SetDef.md) ---------------- *)
From A1 Require Import Rt.Uper Rt.UperProofs Rt.Oer Rt.OerProofs Rt.SetDef Rt.SetDefProofs.

(* DER written (members of a SET in the order SET_encode_der chooses, a value equal to its DEFAULT
   omitted), BER read, arbitrary data may follow: the value comes back with every stored default ABSENT *)
Theorem C01_setdef_der_roundtrip_in_stream : forall t v bs rest,
  cwf_d t = true -> is_marker t = false -> cwt_d t v = true -> cder false t v = Some bs -> zlen bs <= rssize_max ->
  cber_dec t (bs ++ rest) = Some (strip_dflt t v, rest).
Proof. exact cder_roundtrip_in_stream. Qed.
Print Assumptions C01_setdef_der_roundtrip_in_stream.

Theorem C01_setdef_der_roundtrip : forall t v bs,
  cwf_d t = true -> is_marker t = false -> cwt_d t v = true -> cder false t v = Some bs -> zlen bs <= rssize_max ->
  cber_decode t bs = Some (strip_dflt t v, zlen bs).
Proof. exact cder_roundtrip. Qed.
Print Assumptions C01_setdef_der_roundtrip.

(* unaligned PER and OER of a SEQUENCE with OPTIONAL / DEFAULT components: the value comes back with every
   absent DEFAULT component FILLED IN (default_value_set) *)
Theorem C01_setdef_uper_roundtrip_in_stream : forall std t v bits rest,
  cwf_u t = true -> is_marker t = false -> cwt_u std t v = true -> cuper false std t v = Some bits ->
  cuper_dec std t (bits ++ rest) = Some (fill_dflt t v, rest).
Proof. exact cuper_roundtrip_in_stream. Qed.
Print Assumptions C01_setdef_uper_roundtrip_in_stream.

Theorem C01_setdef_oer_roundtrip_in_stream : forall t v bs rest,
  cwf_o t = true -> is_marker t = false -> cwt_o t v = true -> coer false t v = Some bs ->
  coer_dec t (bs ++ rest) = Some (fill_dflt t v, rest).
Proof. exact coer_roundtrip_in_stream. Qed.
Print Assumptions C01_setdef_oer_roundtrip_in_stream.
