(* Properties_C01.v — encode-then-decode returns the same value.
   Model: coq/Rt/{Der,Uper,Oer}.v; tied to the C by checks/c01.py.
   Proved here for DER/BER, unaligned PER (both the X.691 reading and the reading
   that mirrors the C, including 16K fragmentation) and OER over the whole
   first-milestone algebra; the XER syntaxes and the types outside the algebra
   are covered by the tie only (see DESIGN.md, C01: partial). *)
From Coq Require Import ZArith List Bool.
From A1 Require Import Base.Bytes Leaf.BerTL Rt.Types Rt.Comb Rt.Der Rt.DerProofs
  Rt.Uper Rt.UperProofs Rt.Oer Rt.OerProofs Rt.OerTotal.
Import ListNotations.
Local Open Scope Z_scope.

(* decoding the produced bytes returns RC_OK with the same value and consumes
   exactly the bytes that were produced *)
Theorem C01_der_roundtrip : forall t v bs,
  wf_ty t = true -> not_opt t = true -> wt t v = true -> der t v = Some bs ->
  zlen bs <= rssize_max -> ber_decode t bs = Some (v, zlen bs).
Proof. exact der_roundtrip. Qed.
Print Assumptions C01_der_roundtrip.

(* ... also when other bytes follow (the form the induction needs, and what a
   decoder embedded in a larger stream sees) *)
Theorem C01_der_roundtrip_in_stream : forall t v bs rest,
  wf_ty t = true -> wt t v = true -> der t v = Some bs -> zlen bs <= rssize_max ->
  opt_ok t v rest -> ber_dec t (bs ++ rest) = Some (v, rest).
Proof. exact der_decodes_all. Qed.
Print Assumptions C01_der_roundtrip_in_stream.

(* non-vacuity: a concrete well-formed type and value meet the hypotheses *)
Example C01_example :
  let t := TSeq 64 [TInt 8 (ICon (Some 0) (Some 255) false); TOpt (TBool 4);
                    TChoice [TNull 20; TInt 8 (ICon None None false)];
                    TSetOf 68 (SCon 0 None false) (TTag 131 (TInt 8 (ICon None None false)))] in
  let v := VSeq [VInt 200; VNone; VChoice 1 (VInt (-3)); VList [VInt 1; VInt 300]] in
  wf_ty t = true /\ wt t v = true /\ not_opt t = true /\
  ber_decode t (match der t v with Some bs => bs | None => [] end) = Some (v, 24).
Proof. vm_compute. repeat split; reflexivity. Qed.

(* -- unaligned PER, for both readings of the model (std = true: X.691;
      std = false: what the C writes) -- *)
Theorem C01_uper_roundtrip_in_stream : forall std t v bits rest,
  wf_ty_uper t = true -> wt_uper std t v = true -> uper std t v = Some bits ->
  uper_dec std t (bits ++ rest) = Some (v, rest).
Proof. exact uper_roundtrip_in_stream. Qed.
Print Assumptions C01_uper_roundtrip_in_stream.

Theorem C01_uper_roundtrip : forall std t v bytes,
  wf_ty_uper t = true -> wt_uper std t v = true -> uper_encode std t v = Some bytes ->
  uper_decode std t bytes = Some (v, zlen bytes) /\ 1 <= zlen bytes.
Proof. exact uper_decode_roundtrip. Qed.
Print Assumptions C01_uper_roundtrip.

(* -- OER -- *)
Theorem C01_oer_roundtrip_in_stream : forall t v bs rest,
  wf_ty_oer t = true -> not_opt t = true -> wt_oer t v = true -> oer t v = Some bs ->
  oer_dec t (bs ++ rest) = Some (v, rest).
Proof. exact oer_roundtrip_in_stream. Qed.
Print Assumptions C01_oer_roundtrip_in_stream.

Theorem C01_oer_roundtrip : forall t v bs,
  wf_ty_oer t = true -> not_opt t = true -> wt_oer t v = true -> oer t v = Some bs ->
  oer_decode t bs = Some (v, zlen bs).
Proof. exact oer_decode_roundtrip. Qed.
Print Assumptions C01_oer_roundtrip.

(* "encoding ... succeeds" for OER: every well-typed value inside its constraints is encodable *)
Theorem C01_oer_encode_decode : forall t v,
  wf_ty_oer t = true -> not_opt t = true -> wt_oer t v = true -> oer_in t v = true ->
  exists bs, oer t v = Some bs /\ oer_decode t bs = Some (v, zlen bs) /\
             forall rest, oer_dec t (bs ++ rest) = Some (v, rest).
Proof. exact oer_encode_decode. Qed.
Print Assumptions C01_oer_encode_decode.
