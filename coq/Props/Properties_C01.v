(* Properties_C01.v — encode-then-decode returns the same value.
   Model: coq/Rt/{Der,Uper,Oer}.v; tied to the C by checks/c01.py.
   Proved here for DER/BER, unaligned PER (both the X.691 reading and the reading
   that mirrors the C, including 16K fragmentation) and OER over the whole
   first-milestone algebra; the XER syntaxes and the types outside the algebra
   are covered by the tie only (see DESIGN.md, C01: partial). *)
From Coq Require Import ZArith List Bool.
From A1 Require Import Base.Bytes Leaf.BerTL Rt.Types Rt.Comb Rt.Der Rt.DerProofs
  Rt.Uper Rt.UperProofs Rt.Oer Rt.OerProofs Rt.OerTotal.
Import ListNotations.
Local Open Scope Z_scope.

(* decoding the produced bytes returns RC_OK with the same value and consumes
   exactly the bytes that were produced *)
Theorem C01_der_roundtrip : forall t v bs,
  wf_ty t = true -> not_opt t = true -> wt t v = true -> der t v = Some bs ->
  zlen bs <= rssize_max -> ber_decode t bs = Some (v, zlen bs).
Proof. exact der_roundtrip. Qed.
Print Assumptions C01_der_roundtrip.

(* ... also when other bytes follow (the form the induction needs, and what a
   decoder embedded in a larger stream sees) *)
Theorem C01_der_roundtrip_in_stream : forall t v bs rest,
  wf_ty t = true -> wt t v = true -> der t v = Some bs -> zlen bs <= rssize_max ->
  opt_ok t v rest -> ber_dec t (bs ++ rest) = Some (v, rest).
Proof. exact der_decodes_all. Qed.
Print Assumptions C01_der_roundtrip_in_stream.

(* non-vacuity: a concrete well-formed type and value meet the hypotheses *)
Example C01_example :
  let t := TSeq 64 [TInt 8 (ICon (Some 0) (Some 255) false); TOpt (TBool 4);
                    TChoice [TNull 20; TInt 8 (ICon None None false)];
                    TSetOf 68 (SCon 0 None false) (TTag 131 (TInt 8 (ICon None None false)))] in
  let v := VSeq [VInt 200; VNone; VChoice 1 (VInt (-3)); VList [VInt 1; VInt 300]] in
  wf_ty t = true /\ wt t v = true /\ not_opt t = true /\
  ber_decode t (match der t v with Some bs => bs | None => [] end) = Some (v, 24).
Proof. vm_compute. repeat split; reflexivity. Qed.

(* -- unaligned PER, for both readings of the model (std = true: X.691;
      std = false: what the C writes) -- *)
Theorem C01_uper_roundtrip_in_stream : forall std t v bits rest,
  wf_ty_uper t = true -> wt_uper std t v = true -> uper std t v = Some bits ->
  uper_dec std t (bits ++ rest) = Some (v, rest).
Proof. exact uper_roundtrip_in_stream. Qed.
Print Assumptions C01_uper_roundtrip_in_stream.

Theorem C01_uper_roundtrip : forall std t v bytes,
  wf_ty_uper t = true -> wt_uper std t v = true -> uper_encode std t v = Some bytes ->
  uper_decode std t bytes = Some (v, zlen bytes) /\ 1 <= zlen bytes.
Proof. exact uper_decode_roundtrip. Qed.
Print Assumptions C01_uper_roundtrip.

(* -- OER -- *)
Theorem C01_oer_roundtrip_in_stream : forall t v bs rest,
  wf_ty_oer t = true -> not_opt t = true -> wt_oer t v = true -> oer t v = Some bs ->
  oer_dec t (bs ++ rest) = Some (v, rest).
Proof. exact oer_roundtrip_in_stream. Qed.
Print Assumptions C01_oer_roundtrip_in_stream.

Theorem C01_oer_roundtrip : forall t v bs,
  wf_ty_oer t = true -> not_opt t = true -> wt_oer t v = true -> oer t v = Some bs ->
  oer_decode t bs = Some (v, zlen bs).
Proof. exact oer_decode_roundtrip. Qed.
Print Assumptions C01_oer_roundtrip.

(* "encoding ... succeeds" for OER: every well-typed value inside its constraints is encodable *)
Theorem C01_oer_encode_decode : forall t v,
  wf_ty_oer t = true -> not_opt t = true -> wt_oer t v = true -> oer_in t v = true ->
  exists bs, oer t v = Some bs /\ oer_decode t bs = Some (v, zlen bs) /\
             forall rest, oer_dec t (bs ++ rest) = Some (v, rest).
Proof. exact oer_encode_decode. Qed.
Print Assumptions C01_oer_encode_decode.

(* ===================================================================== *)
(* Extensibility layer (coq/Rt/Ext.v, ExtProofs.v; notes/design/EXT.md): extensible SEQUENCE
   { root, ..., additions } and extensible CHOICE { root, ..., extension alternatives } over the
   base algebra.  std = true: X.691 / X.696; std = false: what the C does. *)
From A1 Require Import Rt.Ext Rt.ExtFormat Rt.ExtProofs.

(* -- unaligned PER: round trip.  [ext_count_ok]: under X.691 any count; for the C at most 64
      additions / extension alternatives (refuted beyond: below) -- *)
Theorem C01_ext_uper_roundtrip_in_stream : forall std t v bits rest,
  wf_ety_uper t = true -> wt_ety_uper std t v -> ext_count_ok std t ->
  ext_uper std t v = Some bits -> ext_uper_dec std t (bits ++ rest) = Some (v, rest).
Proof. exact ext_uper_roundtrip_in_stream. Qed.
Print Assumptions C01_ext_uper_roundtrip_in_stream.

Theorem C01_ext_uper_roundtrip : forall std t v bytes,
  wf_ety_uper t = true -> wt_ety_uper std t v -> ext_count_ok std t ->
  ext_uper_encode std t v = Some bytes ->
  ext_uper_decode std t bytes = Some (v, zlen bytes) /\ 1 <= zlen bytes.
Proof. exact ext_uper_decode_roundtrip. Qed.
Print Assumptions C01_ext_uper_roundtrip.

Theorem C01_ext_uper_roundtrip_c_refuted :
  exists t v bits, wf_ety_uper t = true /\ wt_ety_uper false t v /\
    ext_uper false t v = Some bits /\ ext_uper_dec false t bits <> Some (v, []).
Proof. exact ext_uper_roundtrip_c_refuted. Qed.
Print Assumptions C01_ext_uper_roundtrip_c_refuted.

Theorem C01_ext_uper_choice_roundtrip_c_refuted :
  exists t v bits, wf_ety_uper t = true /\ wt_ety_uper false t v /\
    ext_uper false t v = Some bits /\ ext_uper_dec false t bits <> Some (v, []) /\
    ext_uper false t v <> ext_uper true t v.
Proof. exact ext_uper_choice_roundtrip_c_refuted. Qed.
Print Assumptions C01_ext_uper_choice_roundtrip_c_refuted.

(* -- OER: round trip, for the C's reader and the X.696 reader alike -- *)
Theorem C01_ext_oer_roundtrip_in_stream : forall std t v bs rest,
  wf_ety_oer t = true -> wt_ety_oer t v -> ext_oer t v = Some bs ->
  ext_oer_dec std t (bs ++ rest) = Some (v, rest).
Proof. exact ext_oer_roundtrip_in_stream. Qed.
Print Assumptions C01_ext_oer_roundtrip_in_stream.

Theorem C01_ext_oer_roundtrip : forall std t v bs,
  wf_ety_oer t = true -> wt_ety_oer t v -> ext_oer t v = Some bs ->
  ext_oer_decode std t bs = Some (v, zlen bs).
Proof. exact ext_oer_decode_roundtrip. Qed.
Print Assumptions C01_ext_oer_roundtrip.

(* -- DER / BER -- *)
Theorem C01_ext_ber_roundtrip_in_stream : forall t v bs rest,
  wf_ety_der t = true -> wt_ety_der t v = true -> ext_der t v = Some bs -> zlen bs <= rssize_max ->
  ext_ber_dec t (bs ++ rest) = Some (v, rest).
Proof. exact ext_ber_roundtrip_in_stream. Qed.
Print Assumptions C01_ext_ber_roundtrip_in_stream.

Theorem C01_ext_ber_roundtrip : forall t v bs,
  wf_ety_der t = true -> wt_ety_der t v = true -> ext_der t v = Some bs -> zlen bs <= rssize_max ->
  ext_ber_decode t bs = Some (v, zlen bs).
Proof. exact ext_ber_decode_roundtrip. Qed.
Print Assumptions C01_ext_ber_roundtrip.

(* -- forward compatibility: a reader that knows only the first k additions gets the known part back and
      leaves exactly what followed.  UPER/OER: provided every unknown present addition is one the reader's skip
      routine gets over ([uper_skippable] / [oer_skippable]: anything under the standards; for the C only
      encodings of 3n octets or the octet 00 / only empty encodings) -- *)
Theorem C01_ext_uper_forward_compat : forall std tg root adds rvs avs bits rest k,
  wf_ety_uper (ESeq tg root adds) = true -> wt_ety_uper std (ESeq tg root adds) (EVSeq rvs avs) ->
  ext_count_ok std (ESeq tg root adds) ->
  ext_uper std (ESeq tg root adds) (EVSeq rvs avs) = Some bits ->
  all_enc (uper_encode std) (fun c => uper_skippable std c = true) (skipn k adds) (skipn k avs) ->
  ext_uper_dec std (truncate_ty k (ESeq tg root adds)) (bits ++ rest) = Some (truncate_val k (EVSeq rvs avs), rest).
Proof. exact ext_uper_forward_compat. Qed.
Print Assumptions C01_ext_uper_forward_compat.

Theorem C01_ext_uper_forward_compat_std : forall tg root adds rvs avs bits rest k,
  wf_ety_uper (ESeq tg root adds) = true -> wt_ety_uper true (ESeq tg root adds) (EVSeq rvs avs) ->
  ext_uper true (ESeq tg root adds) (EVSeq rvs avs) = Some bits ->
  ext_uper_dec true (truncate_ty k (ESeq tg root adds)) (bits ++ rest) = Some (truncate_val k (EVSeq rvs avs), rest).
Proof. exact ext_uper_forward_compat_std. Qed.
Print Assumptions C01_ext_uper_forward_compat_std.

Theorem C01_ext_uper_forward_compat_c_refuted :
  exists t v k bits, wf_ety_uper t = true /\ wt_ety_uper false t v /\ ext_uper false t v = Some bits /\
    ext_uper true t v = Some bits /\
    ext_uper_dec false (truncate_ty k t) bits = None /\
    ext_uper_dec true (truncate_ty k t) bits = Some (truncate_val k v, []).
Proof. exact ext_uper_forward_compat_c_refuted. Qed.
Print Assumptions C01_ext_uper_forward_compat_c_refuted.

Theorem C01_ext_oer_forward_compat : forall std tg root adds rvs avs bs rest k,
  wf_ety_oer (ESeq tg root adds) = true -> wt_ety_oer (ESeq tg root adds) (EVSeq rvs avs) ->
  ext_oer (ESeq tg root adds) (EVSeq rvs avs) = Some bs ->
  all_enc oer (oer_skippable std) (skipn k adds) (skipn k avs) ->
  ext_oer_dec std (truncate_ty k (ESeq tg root adds)) (bs ++ rest) = Some (truncate_val k (EVSeq rvs avs), rest).
Proof. exact ext_oer_forward_compat. Qed.
Print Assumptions C01_ext_oer_forward_compat.

Theorem C01_ext_oer_forward_compat_std : forall tg root adds rvs avs bs rest k,
  wf_ety_oer (ESeq tg root adds) = true -> wt_ety_oer (ESeq tg root adds) (EVSeq rvs avs) ->
  ext_oer (ESeq tg root adds) (EVSeq rvs avs) = Some bs ->
  ext_oer_dec true (truncate_ty k (ESeq tg root adds)) (bs ++ rest) = Some (truncate_val k (EVSeq rvs avs), rest).
Proof. exact ext_oer_forward_compat_std. Qed.
Print Assumptions C01_ext_oer_forward_compat_std.

Theorem C01_ext_oer_forward_compat_c_refuted :
  exists t v k bs, wf_ety_oer t = true /\ wt_ety_oer t v /\ ext_oer t v = Some bs /\
    ext_oer_dec false (truncate_ty k t) bs <> Some (truncate_val k v, []) /\
    ext_oer_dec true (truncate_ty k t) bs = Some (truncate_val k v, []).
Proof. exact ext_oer_forward_compat_c_refuted. Qed.
Print Assumptions C01_ext_oer_forward_compat_c_refuted.

Theorem C01_ext_ber_forward_compat : forall tg root adds rvs avs bs rest k,
  wf_ety_der (ESeq tg root adds) = true -> wt_ety_der (ESeq tg root adds) (EVSeq rvs avs) = true ->
  ext_der (ESeq tg root adds) (EVSeq rvs avs) = Some bs -> zlen bs <= rssize_max ->
  ext_ber_dec (ESeq tg root (firstn k adds)) (bs ++ rest) = Some (EVSeq rvs (firstn k avs), rest).
Proof. exact ext_ber_seq_fwd. Qed.
Print Assumptions C01_ext_ber_forward_compat.
