(* Properties_C17.v — OBJECT IDENTIFIER arcs and GeneralizedTime/UTCTime
   conversions round-trip and produce the canonical forms.  Only statements,
   each closed by [exact] of a lemma proved elsewhere, with Print Assumptions
   beneath.  Models: Leaf/Oid.v (skeletons/OBJECT_IDENTIFIER.c, RELATIVE-OID.c),
   Leaf/CivilTime.v + Leaf/GTime.v (skeletons/GeneralizedTime.c, UTCTime.c),
   tied to the C by the correspondence run of bin/vcheck C17. *)
From Coq Require Import ZArith List Bool.
From A1 Require Import Base.Bytes Leaf.IntegerConv Leaf.StrtoxProofs Leaf.Decimal
  Leaf.Oid Leaf.OidProofs Leaf.OidSlots Leaf.OidSlotsProofs Leaf.CivilTime Leaf.CivilTimeProofs Leaf.GTime Leaf.GTimeProofs.
Import ListNotations.
Local Open Scope Z_scope.

(* ---------------- OBJECT IDENTIFIER ---------------- *)

(* every arc vector the first-pair test accepts, any length, 32-bit arcs:
   setting the arcs and reading them back returns the same vector *)
Theorem C17_oid_roundtrip : forall arc0 arc1 tl,
  valid_first_pair arc0 arc1 -> Forall arc_ok tl ->
  exists bs, set_arcs (arc0 :: arc1 :: tl) = SetOk bs /\
             get_arcs bs = OArcs (arc0 :: arc1 :: tl).
Proof. exact oid_roundtrip. Qed.
Print Assumptions C17_oid_roundtrip.

(* the stored octets are the concatenation of X.690 8.19 subidentifiers
   (continuation bit on all but the last octet, no 0x80 lead octet) whose
   values are 40*arc0+arc1, arc2, ... *)
Theorem C17_oid_x690_form : forall arc0 arc1 tl,
  valid_first_pair arc0 arc1 -> Forall arc_ok tl ->
  exists subs, set_arcs (arc0 :: arc1 :: tl) = SetOk (concat subs) /\
               Forall subid_form subs /\
               map subid_value subs = (40 * arc0 + arc1) :: tl.
Proof. exact oid_x690_form. Qed.
Print Assumptions C17_oid_x690_form.

(* valid_first_pair is exactly the accepted set: anything else is ERANGE,
   fewer than two arcs EINVAL *)
Theorem C17_oid_set_rejects : forall arc0 arc1 tl,
  0 <= arc0 -> 0 <= arc1 -> ~ valid_first_pair arc0 arc1 ->
  set_arcs (arc0 :: arc1 :: tl) = SetErange.
Proof. exact set_arcs_rejects. Qed.
Print Assumptions C17_oid_set_rejects.

(* one subidentifier: set_single_arc then get_single_arc is the identity, with
   any bytes following *)
Theorem C17_single_arc_inverse : forall v rest, arc_ok v ->
  get_single_arc (arc_octets v ++ rest) = GOk v (zlen (arc_octets v)) rest.
Proof. exact get_single_arc_octets. Qed.
Print Assumptions C17_single_arc_inverse.

Theorem C17_single_arc_form : forall v, arc_ok v ->
  subid_form (arc_octets v) /\ subid_value (arc_octets v) = v.
Proof. exact arc_octets_form. Qed.
Print Assumptions C17_single_arc_form.

(* RELATIVE-OID: same, without the first-pair packing; any length incl. 0 *)
Theorem C17_reloid_roundtrip : forall arcs, Forall arc_ok arcs ->
  exists bs, reloid_set_arcs arcs = SetOk bs /\ reloid_get_arcs bs = OArcs arcs /\
             bs = concat (map arc_octets arcs) /\
             Forall subid_form (map arc_octets arcs) /\
             map subid_value (map arc_octets arcs) = arcs.
Proof. exact reloid_roundtrip. Qed.
Print Assumptions C17_reloid_roundtrip.

(* parsing the dotted text of any arc vector returns it — for the printed
   decimal form, and for any digit strings (leading zeros) with white space
   around *)
Theorem C17_oid_text_roundtrip : forall arcs, arcs <> [] -> Forall arc_ok arcs ->
  parse_arcs (oid_text arcs) = POk arcs (zlen (oid_text arcs)).
Proof. exact oid_text_roundtrip. Qed.
Print Assumptions C17_oid_text_roundtrip.

Theorem C17_oid_text_roundtrip_ws : forall dss ws1 ws2,
  dss <> [] -> Forall numeral_ok dss -> ws_ok ws1 -> ws_ok ws2 ->
  parse_arcs (ws1 ++ dotted dss ++ ws2)
  = POk (map num dss) (zlen (ws1 ++ dotted dss ++ ws2)).
Proof. exact oid_text_roundtrip_ws. Qed.
Print Assumptions C17_oid_text_roundtrip_ws.

(* the model's loop fuel always suffices (no input reaches the OutOfFuel result) *)
Theorem C17_oid_total : forall bs,
  (get_arcs bs <> OFuel /\ reloid_get_arcs bs <> OFuel) /\ parse_arcs bs <> PFuel.
Proof. exact oid_total. Qed.
Print Assumptions C17_oid_total.

(* observation, not a claim of the property: a terminated subidentifier of any
   length is accepted and its value reduced modulo 2^32 *)
Theorem C17_single_arc_wraps : forall xs l rest,
  Forall (fun x => 128 <= x < 256) xs -> 0 <= l < 128 ->
  get_single_arc (xs ++ l :: rest) = GOk (subid_value (xs ++ [l]) mod two32) (zlen xs + 1) rest.
Proof. exact get_single_arc_wraps. Qed.
Print Assumptions C17_single_arc_wraps.

(* ---------------- caller-supplied capacity (Leaf/OidSlots.v) ----------------
   OBJECT_IDENTIFIER_get_arcs / RELATIVE_OID_get_arcs / OBJECT_IDENTIFIER_parse_arcs
   take the caller's array and its number of slots.  [..._arr bs arr] is the
   model with that array as a parameter (length arr = arc_slots, contents
   arbitrary); [..._into bs slots] = (returned count, first min(count, slots)
   cells) on an array that started out blank. *)

(* for EVERY contents octet string and EVERY capacity: the returned count is
   that of the capacity-free model (so it does not depend on the capacity,
   failure included) and the stored prefix is the first [slots] arcs *)
Theorem C17_get_arcs_into : forall bs slots,
  get_arcs_into bs slots =
  match get_arcs bs with OArcs l => Some (length l, firstn slots l) | _ => None end.
Proof. exact get_arcs_into_spec. Qed.
Print Assumptions C17_get_arcs_into.

Theorem C17_reloid_get_arcs_into : forall bs slots,
  reloid_get_arcs_into bs slots =
  match reloid_get_arcs bs with OArcs l => Some (length l, firstn slots l) | _ => None end.
Proof. exact reloid_get_arcs_into_spec. Qed.
Print Assumptions C17_reloid_get_arcs_into.

Theorem C17_get_arcs_count_independent : forall bs s1 s2,
  option_map fst (get_arcs_into bs s1) = option_map fst (get_arcs_into bs s2) /\
  option_map fst (reloid_get_arcs_into bs s1) = option_map fst (reloid_get_arcs_into bs s2).
Proof. exact get_arcs_count_independent. Qed.
Print Assumptions C17_get_arcs_count_independent.

(* the caller's array, whatever it held: same length afterwards (nothing is
   written beyond the capacity), the first min(n, slots) cells are the first
   arcs, every cell from index n on is untouched *)
Theorem C17_get_arcs_array_contract : forall bs arr l, get_arcs bs = OArcs l ->
  exists arr', get_arcs_arr bs arr = IArcs (length l) arr' /\
               length arr' = length arr /\
               firstn (Nat.min (length l) (length arr)) arr' = firstn (length arr) l /\
               skipn (length l) arr' = skipn (length l) arr.
Proof. exact get_arcs_arr_contract. Qed.
Print Assumptions C17_get_arcs_array_contract.

Theorem C17_reloid_get_arcs_array_contract : forall bs arr l, reloid_get_arcs bs = OArcs l ->
  exists arr', reloid_get_arcs_arr bs arr = IArcs (length l) arr' /\
               length arr' = length arr /\
               firstn (Nat.min (length l) (length arr)) arr' = firstn (length arr) l /\
               skipn (length l) arr' = skipn (length l) arr.
Proof. exact reloid_get_arcs_arr_contract. Qed.
Print Assumptions C17_reloid_get_arcs_array_contract.

(* set the arcs, read them back into an array of any size *)
Theorem C17_oid_roundtrip_slots : forall arc0 arc1 tl,
  valid_first_pair arc0 arc1 -> Forall arc_ok tl ->
  exists bs, set_arcs (arc0 :: arc1 :: tl) = SetOk bs /\
    forall slots, get_arcs_into bs slots
                  = Some (length (arc0 :: arc1 :: tl), firstn slots (arc0 :: arc1 :: tl)).
Proof. exact oid_roundtrip_slots. Qed.
Print Assumptions C17_oid_roundtrip_slots.

(* the documented sizing idiom: ask with no slots, allocate, ask again *)
Theorem C17_oid_sizing_idiom : forall arc0 arc1 tl,
  valid_first_pair arc0 arc1 -> Forall arc_ok tl ->
  exists bs n, set_arcs (arc0 :: arc1 :: tl) = SetOk bs /\
    get_arcs_into bs 0 = Some (n, []) /\
    get_arcs_into bs n = Some (n, arc0 :: arc1 :: tl).
Proof. exact oid_sizing_idiom. Qed.
Print Assumptions C17_oid_sizing_idiom.

Theorem C17_reloid_roundtrip_slots : forall arcs, Forall arc_ok arcs ->
  exists bs, reloid_set_arcs arcs = SetOk bs /\
    forall slots, reloid_get_arcs_into bs slots = Some (length arcs, firstn slots arcs).
Proof. exact reloid_roundtrip_slots. Qed.
Print Assumptions C17_reloid_roundtrip_slots.

(* the text parser: every text, every capacity *)
Theorem C17_parse_arcs_into : forall cs slots,
  parse_arcs_into cs slots =
  match parse_arcs cs with POk l _ => Some (length l, firstn slots l) | _ => None end.
Proof. exact parse_arcs_into_spec. Qed.
Print Assumptions C17_parse_arcs_into.

Theorem C17_parse_arcs_array_contract : forall cs arr l e, parse_arcs cs = POk l e ->
  exists arr', parse_arcs_arr cs arr = QOk (length l) arr' e /\
               length arr' = length arr /\
               firstn (Nat.min (length l) (length arr)) arr' = firstn (length arr) l /\
               skipn (length l) arr' = skipn (length l) arr.
Proof. exact parse_arcs_arr_contract. Qed.
Print Assumptions C17_parse_arcs_array_contract.

Theorem C17_oid_text_slots : forall arcs slots, arcs <> [] -> Forall arc_ok arcs ->
  parse_arcs_into (oid_text arcs) slots = Some (length arcs, firstn slots arcs).
Proof. exact oid_text_slots. Qed.
Print Assumptions C17_oid_text_slots.

Theorem C17_oid_text_slots_ws : forall dss ws1 ws2 slots,
  dss <> [] -> Forall numeral_ok dss -> ws_ok ws1 -> ws_ok ws2 ->
  parse_arcs_into (ws1 ++ dotted dss ++ ws2) slots
  = Some (length dss, firstn slots (map num dss)).
Proof. exact oid_text_slots_ws. Qed.
Print Assumptions C17_oid_text_slots_ws.

(* get_single_arc / get_first_arcs handed the first k octets of a buffer that
   starts with a subidentifier: nothing / EINVAL / the value, by k alone *)
Theorem C17_single_arc_buffer_len : forall v rest k, arc_ok v ->
  get_single_arc (firstn k (arc_octets v ++ rest)) =
  if (k =? 0)%nat then GNone
  else if (k <? length (arc_octets v))%nat then GEinval
  else GOk v (zlen (arc_octets v)) (firstn (k - length (arc_octets v)) rest).
Proof. exact single_arc_buffer_len. Qed.
Print Assumptions C17_single_arc_buffer_len.

Theorem C17_first_arcs_buffer_len : forall arc0 arc1 rest k,
  valid_first_pair arc0 arc1 ->
  let e := arc_octets (40 * arc0 + arc1) in
  get_first_arcs (firstn k (e ++ rest)) =
  if (k =? 0)%nat then FNone
  else if (k <? length e)%nat then FEinval
  else FOk arc0 arc1 (zlen e) (firstn (k - length e) rest).
Proof. exact first_arcs_buffer_len. Qed.
Print Assumptions C17_first_arcs_buffer_len.

(* ---------------- calendar arithmetic (the modelled libc) ---------------- *)

(* every day number, no bound: date of the day, back to the day *)
Theorem C17_civil_inverse_days : forall n,
  let '(y, m, d) := civil_from_days n in days_from_civil y m d = n.
Proof. exact days_civil_days. Qed.
Print Assumptions C17_civil_inverse_days.

(* every valid proleptic Gregorian date, any year in Z *)
Theorem C17_civil_inverse_dates : forall y m d, valid_date y m d = true ->
  civil_from_days (days_from_civil y m d) = (y, m, d).
Proof. exact civil_days_civil. Qed.
Print Assumptions C17_civil_inverse_dates.

Theorem C17_civil_valid : forall n,
  let '(y, m, d) := civil_from_days n in valid_date y m d = true.
Proof. exact civil_from_days_valid. Qed.
Print Assumptions C17_civil_valid.

(* timegm undoes gmtime, and localtime once the zone offset is taken out of
   tm_sec (what asn_time2GT_frac does), for every t and every offset *)
Theorem C17_timegm_gmtime : forall t, timegm_val (gmtime t) = t.
Proof. exact timegm_gmtime. Qed.
Print Assumptions C17_timegm_gmtime.

Theorem C17_timegm_localtime : forall t gmtoff,
  let lt := localtime t gmtoff in timegm_val (set_sec lt (tm_sec lt - gmtoff)) = t.
Proof. exact timegm_localtime. Qed.
Print Assumptions C17_timegm_localtime.

(* ---------------- GeneralizedTime / UTCTime ---------------- *)

(* every t in years 0000..9999 except t = -1, every zone offset: the forced-GMT
   text is 14 digits and 'Z', and reading it back (under any zone) returns t *)
Theorem C17_gt_roundtrip_partial : forall t gmtoff lg, t_min <= t < t_max -> t <> -1 ->
  exists txt ds, time2GT (localtime t gmtoff) true = Some txt /\
    txt = ds ++ [90] /\ digits_ok ds /\ length ds = 14%nat /\
    GT2time txt lg = GtOk t 0 0 /\ GT2time_frac txt lg = GtOk t 0 0.
Proof. exact gt_roundtrip_partial. Qed.
Print Assumptions C17_gt_roundtrip_partial.

(* the full statement (without t <> -1) is false of the code: 19691231235959Z
   is read back as the error value *)
Theorem C17_gt_roundtrip_refuted :
  exists t gmtoff, t_min <= t < t_max /\
    time2GT (localtime t gmtoff) true = Some (map Z.of_nat [49;57;54;57;49;50;51;49;50;51;53;57;53;57;90]%nat) /\
    GT2time (map Z.of_nat [49;57;54;57;49;50;51;49;50;51;53;57;53;57;90]%nat) 0 = GtFail.
Proof. exact gt_roundtrip_refuted. Qed.
Print Assumptions C17_gt_roundtrip_refuted.

(* UTCTime: the same inside the window 1960-01-01 .. 2059-12-31 the pivot implements *)
Theorem C17_ut_roundtrip_partial : forall t gmtoff lg, ut_min <= t < ut_max -> t <> -1 ->
  exists txt ds, time2UT (localtime t gmtoff) true = Some txt /\
    txt = ds ++ [90] /\ digits_ok ds /\ length ds = 12%nat /\
    UT2time txt lg = GtOk t 0 0.
Proof. exact ut_roundtrip_partial. Qed.
Print Assumptions C17_ut_roundtrip_partial.

(* outside the window (here 2060-01-01) the text is read a century earlier *)
Theorem C17_ut_roundtrip_refuted :
  exists t, t_min <= t < t_max /\
    time2UT (localtime t 0) true = Some (map Z.of_nat [54;48;48;49;48;49;48;48;48;48;48;48;90]%nat) /\
    UT2time (map Z.of_nat [54;48;48;49;48;49;48;48;48;48;48;48;90]%nat) 0 = GtOk (t - 3155760000) 0 0.
Proof. exact ut_roundtrip_refuted. Qed.
Print Assumptions C17_ut_roundtrip_refuted.

(* reading side of the fraction: up to nine fraction digits after the 14-digit
   body come back exactly, with t (the writing side asn_time2GT_frac is modelled
   and tied, not proved) *)
Theorem C17_gt_frac_read : forall t fds lg, t_min <= t < t_max -> t <> -1 ->
  digits_ok fds -> zlen fds <= 9 ->
  GT2time_frac (gt_body (gmtime t) ++ 46 :: fds ++ [90]) lg = GtOk t (num fds) (zlen fds).
Proof. exact gt_frac_read. Qed.
Print Assumptions C17_gt_frac_read.

(* the GeneralizedTime / UTCTime parser never reads past its buffer, any input *)
Theorem C17_gt_no_oob : forall bs lg,
  GT2time_frac bs lg <> GtOob /\ GT2time bs lg <> GtOob /\ UT2time bs lg <> GtOob.
Proof. exact gt_no_oob. Qed.
Print Assumptions C17_gt_no_oob.
