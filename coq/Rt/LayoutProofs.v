(* Rt/LayoutProofs.v — property C13: the encoders that walk the C structure through the
   member-table flags (Rt/Layout.v) produce, for EVERY layout, the bytes the
   representation-free codec model (Rt/Oer.v, Rt/Der.v) produces for the value the
   structure denotes.  Hence two builds of the same module whose tables differ only in
   ATF_POINTER flags (-findirect-choice; DEFAULT members under -fwide-types) emit the
   same OER and DER bytes for structures denoting the same value. *)
From Coq Require Import ZArith List Bool Lia.
From A1 Require Import Base.Bytes Leaf.IntegerConv Rt.Types Rt.TypesInd Rt.Comb Rt.Der Rt.Uper Rt.Oer Rt.Layout.
Import ListNotations.
Local Open Scope Z_scope.

(* ---------------- the loops in nth_error form ---------------- *)

Lemma pick_alt_nth {B} (f : ty -> lay -> B) (d : B) : forall alts ls i,
  pick_alt f d alts ls i =
  match nth_error alts i, nth_error ls i with Some a, Some la => f a la | _, _ => d end.
Proof.
  induction alts as [|a r IH]; intros ls i.
  - destruct ls; destruct i; reflexivity.
  - destruct ls as [|l lr]; destruct i as [|j]; try reflexivity.
    + simpl. destruct (nth_error r j); reflexivity.
    + simpl. apply IH.
Qed.

Lemma enc_alt_nth {B} (enc : ty -> val -> option B) (v : val) : forall alts i,
  enc_alt enc v alts i = match nth_error alts i with Some a => enc a v | None => None end.
Proof.
  induction alts as [|a r IH]; intros i.
  - destruct i; reflexivity.
  - destruct i as [|j]; [reflexivity|]. simpl. apply IH.
Qed.

Lemma outmost_tag_choice alts i v' :
  outmost_tag (TChoice alts) (VChoice i v') =
  match nth_error alts i with Some a => outmost_tag a v' | None => 0 end.
Proof.
  cbn [outmost_tag]. revert i. induction alts as [|a r IH]; intros i.
  - destruct i; reflexivity.
  - destruct i as [|j]; [reflexivity|]. simpl. apply IH.
Qed.

Lemma Forall_nth {A} (P : A -> Prop) l i a : Forall P l -> nth_error l i = Some a -> P a.
Proof. intros H E. rewrite Forall_forall in H. apply H. eapply nth_error_In; eauto. Qed.

(* one-step unfoldings *)
Lemma abs_seq tg ms l cs : abs (TSeq tg ms) l (SStruct cs) =
  match abs_cells abs ms (lay_subs l) cs with Some vs => Some (VSeq vs) | None => None end.
Proof. reflexivity. Qed.
Lemma abs_choice alts l i c : abs (TChoice alts) l (SUnion (S i) c) =
  pick_alt (fun a la => match fetch (lay_ptr la) c with
                        | FOk s' => match abs a la s' with Some v => Some (VChoice i v) | None => None end
                        | _ => None end) None alts (lay_subs l) i.
Proof. reflexivity. Qed.

(* ---------------- generic member / element lemmas ---------------- *)

Lemma abs_opt_some t' l s v : abs (TOpt t') l s = Some v -> exists v', v = VSome v'.
Proof. cbn [abs]. destruct (abs t' l s); intros H; inversion H; eauto. Qed.

Lemma abs_is_opt_not_none m l s v : is_opt m = true -> abs m l s = Some v -> v <> VNone.
Proof.
  destruct m; try discriminate. intros _ H. apply abs_opt_some in H. destruct H as [v' ->]. discriminate.
Qed.

Section Cells.
  Variable encc : ty -> lay -> sval -> option (list Z).
  Variable enc : ty -> val -> option (list Z).
  Hypothesis enc_absent : forall t', enc (TOpt t') VNone = Some [].

  Lemma cells_agree ms :
    Forall (fun m => forall l s v, abs m l s = Some v -> encc m l s = enc m v) ms ->
    forall ls cs vs, abs_cells abs ms ls cs = Some vs ->
      enc_cells encc ms ls cs = enc_members enc ms vs /\ presence_cells ms ls cs = presence_bits ms vs.
  Proof.
    induction 1 as [|m ms Hm _ IH]; intros ls cs vs Ha.
    - destruct ls; destruct cs; simpl in Ha; inversion Ha; subst; split; reflexivity.
    - destruct ls as [|l ls]; destruct cs as [|c cs]; try (simpl in Ha; discriminate).
      simpl in Ha.
      destruct (on_cell abs (Some VNone) m l c) as [a|] eqn:Ec; [|discriminate].
      destruct (abs_cells abs ms ls cs) as [b|] eqn:Eb; [|discriminate].
      inversion Ha; subst vs. destruct (IH _ _ _ Eb) as [IH1 IH2].
      simpl. rewrite IH1, IH2. unfold on_cell in *.
      destruct (fetch (lay_ptr l) c) as [| |s] eqn:Ef.
      + destruct (is_opt m) eqn:Eo; [|discriminate]. inversion Ec; subst a.
        destruct m; try discriminate. rewrite enc_absent. split; reflexivity.
      + discriminate.
      + rewrite (Hm _ _ _ Ec). split; [reflexivity|].
        destruct (is_opt m) eqn:Eo; [|reflexivity].
        pose proof (abs_is_opt_not_none _ _ _ _ Eo Ec) as Hn.
        destruct a; try reflexivity. contradiction.
  Qed.

  Lemma elems_agree e le :
    (forall s v, abs e le s = Some v -> encc e le s = enc e v) ->
    forall els vs, option_all (map (abs e le) els) = Some vs ->
      option_all (map (encc e le) els) = option_all (map (enc e) vs) /\ zlen els = zlen vs.
  Proof.
    intros He. induction els as [|s0 els IH]; intros vs H.
    - simpl in H. inversion H. split; reflexivity.
    - simpl in H. destruct (abs e le s0) as [v|] eqn:Ev; [|discriminate].
      destruct (option_all (map (abs e le) els)) as [r|] eqn:Er; [|discriminate].
      inversion H; subst vs. destruct (IH _ eq_refl) as [IH1 IH2].
      simpl. rewrite (He _ _ Ev), IH1. split; [reflexivity|].
      unfold zlen in *. simpl length. lia.
  Qed.
End Cells.

(* ---------------- asn_TYPE_outmost_tag ---------------- *)

Theorem outmost_tag_c_abs : forall t l x v, abs t l x = Some v -> outmost_tag_c t l x = outmost_tag t v.
Proof.
  induction t as [tg|tg|tg c0|tg sc|tg ms H|tg sc e IHe|tg sc e IHe|alts H|tg t' IHt|t' IHt] using ty_ind'; intros l x v Ha; try reflexivity.
  - (* CHOICE *)
    destruct x as [| | | | |els|[|i] c]; try (cbn [abs] in Ha; discriminate).
    rewrite abs_choice, pick_alt_nth in Ha.
    cbn [outmost_tag_c]. rewrite pick_alt_nth.
    destruct (nth_error alts i) as [a|] eqn:Ea; [|discriminate].
    destruct (nth_error (lay_subs l) i) as [la|] eqn:El; [|discriminate].
    destruct (fetch (lay_ptr la) c) as [| |x'] eqn:Ef; try discriminate.
    destruct (abs a la x') as [v'|] eqn:Ev; [|discriminate].
    inversion Ha; subst v. rewrite outmost_tag_choice, Ea.
    exact (Forall_nth _ _ _ _ H Ea _ _ _ Ev).
  - (* OPTIONAL *)
    cbn [abs] in Ha. destruct (abs t' l x) as [v'|] eqn:Ev; [|discriminate].
    inversion Ha; subst v. cbn [outmost_tag_c outmost_tag]. apply IHt. exact Ev.
Qed.

(* ---------------- OER ---------------- *)

Lemma oer_opt_none t' : oer (TOpt t') VNone = Some [].
Proof. reflexivity. Qed.

Theorem oer_c_abs : forall t l x v, abs t l x = Some v -> oer_c t l x = oer t v.
Proof.
  induction t as [tg|tg|tg c0|tg sc|tg ms H|tg sc e IHe|tg sc e IHe|alts H|tg t' IHt|t' IHt] using ty_ind'; intros l x v Ha.
  - destruct x; cbn [abs] in Ha; inversion Ha; reflexivity.
  - destruct x; cbn [abs] in Ha; inversion Ha; reflexivity.
  - destruct x; cbn [abs] in Ha; inversion Ha; reflexivity.
  - destruct x; cbn [abs] in Ha; inversion Ha; reflexivity.
  - (* SEQUENCE *)
    destruct x as [| | | |cs| |]; try (cbn [abs] in Ha; discriminate).
    rewrite abs_seq in Ha.
    destruct (abs_cells abs ms (lay_subs l) cs) as [vs|] eqn:Ec; [|discriminate].
    inversion Ha; subst v.
    destruct (cells_agree oer_c oer oer_opt_none ms H _ _ _ Ec) as [E1 E2].
    cbn [oer_c oer]. rewrite E1, E2. reflexivity.
  - (* SEQUENCE OF *)
    destruct x as [| | | | |els|]; try (cbn [abs] in Ha; discriminate).
    cbn [abs] in Ha.
    destruct (option_all (map (abs e (elem_lay l)) els)) as [vs|] eqn:Ee; [|discriminate].
    inversion Ha; subst v.
    destruct (elems_agree oer_c oer e (elem_lay l) (IHe (elem_lay l)) _ _ Ee) as [E1 E2].
    cbn [oer_c oer]. rewrite E1, E2. reflexivity.
  - (* SET OF *)
    destruct x as [| | | | |els|]; try (cbn [abs] in Ha; discriminate).
    cbn [abs] in Ha.
    destruct (option_all (map (abs e (elem_lay l)) els)) as [vs|] eqn:Ee; [|discriminate].
    inversion Ha; subst v.
    destruct (elems_agree oer_c oer e (elem_lay l) (IHe (elem_lay l)) _ _ Ee) as [E1 E2].
    cbn [oer_c oer]. rewrite E1, E2. reflexivity.
  - (* CHOICE *)
    destruct x as [| | | | |els|[|i] c]; try (cbn [abs] in Ha; discriminate).
    rewrite abs_choice, pick_alt_nth in Ha.
    destruct (nth_error alts i) as [a|] eqn:Ea; [|discriminate].
    destruct (nth_error (lay_subs l) i) as [la|] eqn:El; [|discriminate].
    destruct (fetch (lay_ptr la) c) as [| |x'] eqn:Ef; try discriminate.
    destruct (abs a la x') as [v'|] eqn:Ev; [|discriminate].
    inversion Ha; subst v.
    cbn [oer_c]. rewrite pick_alt_nth, Ea, El, Ef.
    rewrite (Forall_nth _ _ _ _ H Ea _ _ _ Ev).
    rewrite (outmost_tag_c_abs _ _ _ _ Ev).
    change (oer (TChoice alts) (VChoice i v')) with
      (match enc_alt oer v' alts i with
       | Some body => Some (oer_tag (outmost_tag (TChoice alts) (VChoice i v')) ++ body)
       | None => None end).
    rewrite enc_alt_nth, Ea, outmost_tag_choice, Ea. reflexivity.
  - (* EXPLICIT tag *)
    cbn [abs] in Ha. cbn [oer_c oer]. destruct x; apply IHt; exact Ha.
  - (* OPTIONAL *)
    cbn [abs] in Ha. destruct (abs t' l x) as [v'|] eqn:Ev; [|discriminate].
    inversion Ha; subst v. cbn [oer_c oer]. destruct x; apply IHt; exact Ev.
Qed.

(* ---------------- DER ---------------- *)

Lemma der_opt_none t' : der (TOpt t') VNone = Some [].
Proof. reflexivity. Qed.

Theorem der_c_abs : forall t l x v, abs t l x = Some v -> der_c t l x = der t v.
Proof.
  induction t as [tg|tg|tg c0|tg sc|tg ms H|tg sc e IHe|tg sc e IHe|alts H|tg t' IHt|t' IHt] using ty_ind'; intros l x v Ha.
  - destruct x; cbn [abs] in Ha; inversion Ha; reflexivity.
  - destruct x; cbn [abs] in Ha; inversion Ha; reflexivity.
  - destruct x; cbn [abs] in Ha; inversion Ha; reflexivity.
  - destruct x; cbn [abs] in Ha; inversion Ha; reflexivity.
  - destruct x as [| | | |cs| |]; try (cbn [abs] in Ha; discriminate).
    rewrite abs_seq in Ha.
    destruct (abs_cells abs ms (lay_subs l) cs) as [vs|] eqn:Ec; [|discriminate].
    inversion Ha; subst v.
    destruct (cells_agree der_c der der_opt_none ms H _ _ _ Ec) as [E1 _].
    cbn [der_c der]. rewrite E1. reflexivity.
  - destruct x as [| | | | |els|]; try (cbn [abs] in Ha; discriminate).
    cbn [abs] in Ha.
    destruct (option_all (map (abs e (elem_lay l)) els)) as [vs|] eqn:Ee; [|discriminate].
    inversion Ha; subst v.
    destruct (elems_agree der_c der e (elem_lay l) (IHe (elem_lay l)) _ _ Ee) as [E1 _].
    cbn [der_c der]. rewrite E1. reflexivity.
  - destruct x as [| | | | |els|]; try (cbn [abs] in Ha; discriminate).
    cbn [abs] in Ha.
    destruct (option_all (map (abs e (elem_lay l)) els)) as [vs|] eqn:Ee; [|discriminate].
    inversion Ha; subst v.
    destruct (elems_agree der_c der e (elem_lay l) (IHe (elem_lay l)) _ _ Ee) as [E1 _].
    cbn [der_c der]. rewrite E1. reflexivity.
  - destruct x as [| | | | |els|[|i] c]; try (cbn [abs] in Ha; discriminate).
    rewrite abs_choice, pick_alt_nth in Ha.
    destruct (nth_error alts i) as [a|] eqn:Ea; [|discriminate].
    destruct (nth_error (lay_subs l) i) as [la|] eqn:El; [|discriminate].
    destruct (fetch (lay_ptr la) c) as [| |x'] eqn:Ef; try discriminate.
    destruct (abs a la x') as [v'|] eqn:Ev; [|discriminate].
    inversion Ha; subst v.
    cbn [der_c]. rewrite pick_alt_nth, Ea, El, Ef.
    rewrite (Forall_nth _ _ _ _ H Ea _ _ _ Ev).
    change (der (TChoice alts) (VChoice i v')) with (enc_alt der v' alts i).
    rewrite enc_alt_nth, Ea. reflexivity.
  - cbn [abs] in Ha.
    assert (E : der_c t' l x = der t' v) by (apply IHt; exact Ha).
    cbn [der_c der]. destruct x; rewrite E; reflexivity.
  - cbn [abs] in Ha. destruct (abs t' l x) as [v'|] eqn:Ev; [|discriminate].
    inversion Ha; subst v. cbn [der_c der]. destruct x; apply IHt; exact Ev.
Qed.

(* ---------------- the invariance statements ---------------- *)

(* DESIGN's enc_depends_on_erasure for the pointer flags: layouts are exactly what the
   erasure forgets; structures that denote the same value encode to the same bytes *)
Theorem oer_layout_invariant : forall t l1 s1 l2 s2 v,
  abs t l1 s1 = Some v -> abs t l2 s2 = Some v -> oer_c t l1 s1 = oer_c t l2 s2.
Proof. intros. rewrite (oer_c_abs _ _ _ _ H), (oer_c_abs _ _ _ _ H0). reflexivity. Qed.

Theorem der_layout_invariant : forall t l1 s1 l2 s2 v,
  abs t l1 s1 = Some v -> abs t l2 s2 = Some v -> der_c t l1 s1 = der_c t l2 s2.
Proof. intros. rewrite (der_c_abs _ _ _ _ H), (der_c_abs _ _ _ _ H0). reflexivity. Qed.

(* ---------------- the structures exist: repr ---------------- *)

Lemma fetch_wrap p s : fetch p (wrap p s) = FOk s.
Proof. destruct p; reflexivity. Qed.

Lemma repr_cells_abs ms :
  Forall (fun m => forall l v s, repr m l v = Some s -> abs m l s = Some v) ms ->
  forall ls vs cs, repr_cells repr ms ls vs = Some cs -> abs_cells abs ms ls cs = Some vs.
Proof.
  induction 1 as [|m ms Hm _ IH]; intros ls vs cs Hr.
  - destruct ls; destruct vs; simpl in Hr; inversion Hr; reflexivity.
  - destruct ls as [|l ls]; destruct vs as [|v vs]; try (simpl in Hr; discriminate).
    simpl in Hr.
    match type of Hr with match ?X with _ => _ end = _ => destruct X as [c|] eqn:Ec; [|discriminate] end.
    destruct (repr_cells repr ms ls vs) as [cs'|] eqn:Er; [|discriminate].
    inversion Hr; subst cs. simpl. rewrite (IH _ _ _ Er).
    assert (Hc : on_cell abs (Some VNone) m l c = Some v).
    { unfold on_cell.
      assert (Hgen : forall s0, repr m l v = Some s0 -> c = wrap (lay_ptr l) s0 ->
                                match fetch (lay_ptr l) c with
                                | FOk s => abs m l s | FNull => if is_opt m then Some VNone else None | FWild => None end = Some v).
      { intros s0 E0 ->. rewrite fetch_wrap. apply Hm. exact E0. }
      destruct v;
        try (destruct (repr m l _) as [s0|] eqn:E0 in Ec; [|discriminate]; inversion Ec; subst c; eapply Hgen; eauto; fail).
      (* VNone *)
      destruct (is_opt m) eqn:Eo; simpl in Ec; [|discriminate].
      destruct (lay_ptr l) eqn:Ep; [|discriminate]. inversion Ec; subst c. simpl. reflexivity. }
    rewrite Hc. reflexivity.
Qed.

Lemma repr_elems_abs e le :
  (forall v x, repr e le v = Some x -> abs e le x = Some v) ->
  forall vs els, option_all (map (repr e le) vs) = Some els -> option_all (map (abs e le) els) = Some vs.
Proof.
  intros He. induction vs as [|v vs IH]; intros els Ee.
  - simpl in Ee. inversion Ee. reflexivity.
  - simpl in Ee. destruct (repr e le v) as [x0|] eqn:E0; [|discriminate].
    destruct (option_all (map (repr e le) vs)) as [r|] eqn:Er; [|discriminate].
    inversion Ee; subst els. simpl. rewrite (He _ _ E0), (IH _ eq_refl). reflexivity.
Qed.

Theorem repr_abs : forall t l v x, repr t l v = Some x -> abs t l x = Some v.
Proof.
  induction t as [tg|tg|tg c0|tg sc|tg ms H|tg sc e IHe|tg sc e IHe|alts H|tg t' IHt|t' IHt] using ty_ind'; intros l v x Hr.
  - destruct v; cbn [repr] in Hr; inversion Hr; reflexivity.
  - destruct v; cbn [repr] in Hr; inversion Hr; reflexivity.
  - destruct v; cbn [repr] in Hr; inversion Hr; reflexivity.
  - destruct v; cbn [repr] in Hr; inversion Hr; reflexivity.
  - destruct v as [| | | |vs| | | |]; try (cbn [repr] in Hr; discriminate).
    cbn [repr] in Hr.
    destruct (repr_cells repr ms (lay_subs l) vs) as [cs|] eqn:Ec; [|discriminate].
    inversion Hr; subst x. rewrite abs_seq, (repr_cells_abs ms H _ _ _ Ec). reflexivity.
  - destruct v as [| | | | |vs| | |]; try (cbn [repr] in Hr; discriminate).
    cbn [repr] in Hr.
    destruct (option_all (map (repr e (elem_lay l)) vs)) as [els|] eqn:Ee; [|discriminate].
    inversion Hr; subst x. cbn [abs].
    rewrite (repr_elems_abs e (elem_lay l) (IHe (elem_lay l)) _ _ Ee). reflexivity.
  - destruct v as [| | | | |vs| | |]; try (cbn [repr] in Hr; discriminate).
    cbn [repr] in Hr.
    destruct (option_all (map (repr e (elem_lay l)) vs)) as [els|] eqn:Ee; [|discriminate].
    inversion Hr; subst x. cbn [abs].
    rewrite (repr_elems_abs e (elem_lay l) (IHe (elem_lay l)) _ _ Ee). reflexivity.
  - destruct v as [| | | | | |i v'| |]; try (cbn [repr] in Hr; discriminate).
    cbn [repr] in Hr. rewrite pick_alt_nth in Hr.
    destruct (nth_error alts i) as [a|] eqn:Ea; [|discriminate].
    destruct (nth_error (lay_subs l) i) as [la|] eqn:El; [|discriminate].
    destruct (repr a la v') as [x'|] eqn:Es; [|discriminate].
    inversion Hr; subst x. rewrite abs_choice, pick_alt_nth, Ea, El, fetch_wrap.
    rewrite (Forall_nth _ _ _ _ H Ea _ _ _ Es). reflexivity.
  - cbn [repr] in Hr. cbn [abs]. destruct v; apply IHt; exact Hr.
  - destruct v as [| | | | | | | |v']; try (cbn [repr] in Hr; discriminate).
    cbn [repr] in Hr. cbn [abs]. rewrite (IHt _ _ _ Hr). reflexivity.
Qed.

(* the statement in terms of builds: the structure a build with layout l holds for v *)
Theorem oer_any_layout : forall t l v s, repr t l v = Some s -> oer_c t l s = oer t v.
Proof. intros. apply oer_c_abs. apply repr_abs. exact H. Qed.

Theorem der_any_layout : forall t l v s, repr t l v = Some s -> der_c t l s = der t v.
Proof. intros. apply der_c_abs. apply repr_abs. exact H. Qed.

Theorem oer_two_builds_same_bytes : forall t v l1 l2 s1 s2,
  repr t l1 v = Some s1 -> repr t l2 v = Some s2 ->
  oer_c t l1 s1 = oer_c t l2 s2 /\ der_c t l1 s1 = der_c t l2 s2.
Proof.
  intros t v l1 l2 s1 s2 H1 H2.
  rewrite (oer_any_layout _ _ _ _ H1), (oer_any_layout _ _ _ _ H2),
          (der_any_layout _ _ _ _ H1), (der_any_layout _ _ _ _ H2). split; reflexivity.
Qed.

(* ---------------- non-vacuity, and the seeded mistake ---------------- *)

(* Outer ::= CHOICE { num BOOLEAN, inner CHOICE { text OCTET STRING, flag [0] NULL } }, inner selected *)
Definition ex_t : ty := TChoice [TBool 4; TChoice [TOct 16 (SCon 0 None false); TNull 2]].
Definition ex_v : val := VChoice 1 (VChoice 0 (VOct [104; 105])).
Definition ex_inline : lay := L false [L false []; L false [L false []; L false []]].
Definition ex_indirect : lay := L false [L false []; L true [L false []; L false []]].   (* -findirect-choice *)

Definition on_repr {B} (t : ty) (l : lay) (v : val) (f : sval -> option B) : option B :=
  match repr t l v with Some s => f s | None => None end.

Example ex_repr_inline : on_repr ex_t ex_inline ex_v (oer_c ex_t ex_inline) = Some [4; 4; 2; 104; 105].
Proof. vm_compute. reflexivity. Qed.

Example ex_repr_indirect : on_repr ex_t ex_indirect ex_v (oer_c ex_t ex_indirect) = Some [4; 4; 2; 104; 105].
Proof. vm_compute. reflexivity. Qed.

Example ex_layouts_differ : on_repr ex_t ex_inline ex_v Some <> on_repr ex_t ex_indirect ex_v Some.
Proof. vm_compute. discriminate. Qed.

(* the seeded order (tag looked up at the slot address) agrees on the inline build and is
   stuck on the pointer build: the model separates the two *)
Example tag_at_slot_inline_ok : on_repr ex_t ex_inline ex_v (oer_c_tag_at_slot ex_t ex_inline) = oer ex_t ex_v.
Proof. vm_compute. reflexivity. Qed.

Example tag_at_slot_indirect_differs :
  on_repr ex_t ex_indirect ex_v Some <> None /\
  on_repr ex_t ex_indirect ex_v (oer_c_tag_at_slot ex_t ex_indirect) <> oer ex_t ex_v.
Proof. split; vm_compute; discriminate. Qed.
