(* Rt/Heap.v — C14: the ownership discipline of decoded structures, on a model.
   (Executable definitions only; proofs are in Rt/HeapProofs.v.)

   A structure in memory is an [sv]: what the bytes of the C struct hold, at the
   granularity at which asn1c lays the generated structs out for the modelled
   algebra (Rt/Types.v):
     - BOOLEAN_t / NULL_t / long                          : a scalar, inline, owns nothing; INTEGER is a
                                                            native long unless a bound lies outside 32 bits
                                                            ([int_native] = asn1c_type_fits_long), then it is
                                                            an INTEGER_t with a contents buffer like
     - OCTET_STRING_t                                     : buf pointer (NULL or one block);
     - SEQUENCE                                           : its members, INLINE, except OPTIONAL
                                                            members which are pointers (ATF_POINTER);
                                                            plus the decoder scratch ctx->ptr, which
                                                            SEQUENCE_decode_oer (and only it) leaves
                                                            allocated after a complete decode (the
                                                            presence-bitmap reader) for SEQUENCE_free;
     - SEQUENCE OF / SET OF (asn_anonymous_set_)          : the array block (absent while the list
                                                            is empty: asn_set_add allocates it on the
                                                            first element) and the elements, each a
                                                            separately allocated structure;
     - CHOICE                                             : present (0 = nothing) + the selected
                                                            member, inline;
     - an EXPLICIT tag changes nothing in memory.
   A block is identified by the position of its owner in the structure tree and
   its role there.  [owned] says which blocks a structure holds (allocation
   order of the decoders: the struct itself first, then what hangs off it);
   [free_model] is the traversal the free_struct methods perform
   (SEQUENCE_free, SET_OF_free, CHOICE_free, OCTET_STRING_free, the native
   frees), emitting one event per FREEMEM of a non-NULL pointer, in the C's
   order, for the three methods of enum asn_struct_free_method. *)
From Coq Require Import ZArith List Bool.
From A1 Require Import Leaf.IntegerConv Rt.Types.
Import ListNotations.
Local Open Scope Z_scope.

Inductive bkind := KStruct | KBuf | KArr | KScratch.
Definition path := list nat.             (* child indices, innermost first *)
Definition block : Type := path * bkind.

Inductive sv :=
| SScalar (z : Z)
| SOct (buf : option (list Z))
| SSeq (scr : bool) (ms : list sv)
| SList (arr : bool) (els : list sv)
| SChoice (present : nat) (m : sv)
| SPtr (p : option sv).

(* ---- the walk over members / elements / the selected alternative, shared by
        [owned] and [free_model] (function parameter outside the fix) ---- *)
Definition walk_members {A} (f : ty -> A -> path -> sv -> list block) (a : A) (p : path)
  : list ty -> nat -> list sv -> list block :=
  fix go ms i ss :=
    match ms, ss with
    | m :: ms', s :: ss' => f m a (i :: p) s ++ go ms' (S i) ss'
    | _, _ => []
    end.

Definition walk_elems (g : path -> sv -> list block) (p : path) : nat -> list sv -> list block :=
  fix go i els :=
    match els with
    | s :: r => g (i :: p) s ++ go (S i) r
    | [] => []
    end.

Definition walk_alt {A} (f : ty -> A -> path -> sv -> list block) (a : A) (q : path) (m : sv)
  : list ty -> nat -> list block :=
  fix pick alts i :=
    match alts, i with
    | t :: _, O => f t a q m
    | _ :: r, S j => pick r j
    | [], _ => []
    end.

(* ---- what a structure owns ---- *)
Definition box (b : bool) (p : path) : list block := if b then [(p, KStruct)] else [].
Definition buf_block (buf : option (list Z)) (p : path) : list block :=
  match buf with Some _ => [(p, KBuf)] | None => [] end.
Definition arr_block (arr : bool) (p : path) : list block := if arr then [(p, KArr)] else [].
Definition scr_block (scr : bool) (p : path) : list block := if scr then [(p, KScratch)] else [].

(* asn1c_type_fits_long without -fwide-types: native unless a bound is outside the 32-bit range
   (the unsigned special cases: 0..MAX-like and upper bounds up to 2^32-1 stay native) *)
Definition in32 (z : Z) : bool := (-2147483648 <=? z) && (z <=? 2147483647).
Definition int_native (c : icon) : bool :=
  match c with
  | ICon None None _ => true
  | ICon (Some l) None _ => in32 l
  | ICon None (Some h) _ => in32 h
  | ICon (Some l) (Some h) _ =>
      if (0 <=? l) && (2147483647 <? h) && (h <=? 4294967295) then true
      else in32 l && in32 h
  end.

(* [b]: the structure itself is a heap block (it is behind a pointer: the top
   level, a list element, an OPTIONAL member) rather than part of its parent *)
Fixpoint owned (t : ty) (b : bool) (p : path) (s : sv) {struct t} : list block :=
  match t, s with
  | TBool _, SScalar _ | TNull _, SScalar _ | TInt _ _, SScalar _ => box b p
  | TOct _ _, SOct buf | TInt _ _, SOct buf => box b p ++ buf_block buf p
  | TSeq _ ms, SSeq scr ss => box b p ++ scr_block scr p ++ walk_members owned false p ms O ss
  | TSeqOf _ _ e, SList arr els | TSetOf _ _ e, SList arr els =>
      box b p ++ arr_block arr p ++ walk_elems (owned e true) p O els
  | TChoice alts, SChoice pres m =>
      box b p ++ match pres with O => [] | S i => walk_alt owned false (i :: p) m alts i end
  | TTag _ t', _ => owned t' b p s
  | TOpt t', SPtr (Some s') => owned t' true p s'
  | TOpt _, SPtr None => []
  | _, _ => []
  end.

(* ---- the free_struct methods ---- *)
Inductive meth := FreeEverything | FreeUnderlying | FreeUnderlyingAndReset.
Definition is_everything (m : meth) : bool := match m with FreeEverything => true | _ => false end.
(* the final switch(method) of every free function *)
Definition fin (m : meth) (p : path) : list block := box (is_everything m) p.

Fixpoint free_model (t : ty) (m : meth) (p : path) (s : sv) {struct t} : list block :=
  match t, s with
  | TBool _, SScalar _ | TNull _, SScalar _ | TInt _ _, SScalar _ => fin m p
  | TOct _ _, SOct buf | TInt _ _, SOct buf => buf_block buf p ++ fin m p
  | TSeq _ ms, SSeq scr ss =>
      (* inline members: ASN_STRUCT_FREE_CONTENTS_ONLY; pointer members (the TOpt case below):
         if(memb_ptr) ASN_STRUCT_FREE; then FREEMEM(ctx->ptr) (NULL outside a decode), then the switch *)
      walk_members free_model FreeUnderlying p ms O ss ++ scr_block scr p ++ fin m p
  | TSeqOf _ _ e, SList arr els | TSetOf _ _ e, SList arr els =>
      (* ASN_STRUCT_FREE on every element, asn_set_empty (the array), the switch *)
      walk_elems (free_model e FreeEverything) p O els ++ arr_block arr p ++ fin m p
  | TChoice alts, SChoice pres mm =>
      match pres with O => [] | S i => walk_alt free_model FreeUnderlying (i :: p) mm alts i end ++ fin m p
  | TTag _ t', _ => free_model t' m p s
  | TOpt t', SPtr (Some s') => free_model t' FreeEverything p s'
  | TOpt _, SPtr None => []
  | _, _ => []
  end.

(* ---- what memset(ptr, 0, struct_size) leaves, and what CALLOC(1, struct_size) gives ---- *)
Fixpoint memset0 (s : sv) : sv :=
  match s with
  | SScalar _ => SScalar 0
  | SOct _ => SOct None
  | SSeq _ ms => SSeq false (map memset0 ms)
  | SList _ _ => SList false []
  | SChoice _ _ => SChoice O (SScalar 0)
  | SPtr _ => SPtr None
  end.

Fixpoint zero (t : ty) : sv :=
  match t with
  | TBool _ | TNull _ => SScalar 0
  | TInt _ c => if int_native c then SScalar 0 else SOct None
  | TOct _ _ => SOct None
  | TSeq _ ms => SSeq false (map zero ms)
  | TSeqOf _ _ _ | TSetOf _ _ _ => SList false []
  | TChoice _ => SChoice O (SScalar 0)
  | TTag _ t' => zero t'
  | TOpt _ => SPtr None
  end.

(* the structure the method leaves behind: gone / as it was, with dangling
   pointers (the documented danger of FREE_CONTENTS_ONLY) / zeroed *)
Definition after (m : meth) (s : sv) : option sv :=
  match m with
  | FreeEverything => None
  | FreeUnderlying => Some s
  | FreeUnderlyingAndReset => Some (memset0 s)
  end.

(* ---- a structure laid out for a type ---- *)
Definition shape_members (f : ty -> sv -> bool) : list ty -> list sv -> bool :=
  fix go ms ss :=
    match ms, ss with
    | [], [] => true
    | m :: ms', s :: ss' => f m s && go ms' ss'
    | _, _ => false
    end.

Definition shape_alt (f : ty -> sv -> bool) (m : sv) : list ty -> nat -> bool :=
  fix pick alts i :=
    match alts, i with
    | t :: _, O => f t m
    | _ :: r, S j => pick r j
    | [], _ => false
    end.

Fixpoint shape (t : ty) (s : sv) {struct t} : bool :=
  match t, s with
  | TBool _, SScalar _ | TNull _, SScalar _ => true
  | TInt _ c, SScalar _ => int_native c
  | TInt _ c, SOct _ => negb (int_native c)
  | TOct _ _, SOct _ => true
  | TSeq _ ms, SSeq _ ss => shape_members shape ms ss
  | TSeqOf _ _ e, SList arr els | TSetOf _ _ e, SList arr els =>
      forallb (shape e) els && (arr || match els with [] => true | _ => false end)
  | TChoice alts, SChoice pres m =>
      match pres with O => true | S i => shape_alt shape m alts i end
  | TTag _ t', _ => shape t' s
  | TOpt t', SPtr (Some s') => shape t' s'
  | TOpt _, SPtr None => true
  | _, _ => false
  end.

(* ---- the structure a successful decode of value v builds ---- *)
(* [oerd]: the decode was done by the OER decoder (each SEQUENCE keeps its scratch) *)
Definition of_members (f : ty -> val -> sv) : list ty -> list val -> list sv :=
  fix go ms vs :=
    match ms, vs with
    | m :: ms', v :: vs' => f m v :: go ms' vs'
    | _, _ => []
    end.

Definition of_alt (f : ty -> val -> sv) (v : val) : list ty -> nat -> sv :=
  fix pick alts i :=
    match alts, i with
    | t :: _, O => f t v
    | _ :: r, S j => pick r j
    | [], _ => SScalar 0
    end.

Fixpoint of_val (oerd : bool) (t : ty) (v : val) {struct t} : sv :=
  match t, v with
  | TBool _, VBool b => SScalar (if b then 1 else 0)
  | TNull _, VNull => SScalar 0
  | TInt _ c, VInt z => if int_native c then SScalar z else SOct (Some (imax2INTEGER z))
  | TOct _ _, VOct bs => SOct (Some bs)
  | TSeq _ ms, VSeq vs => SSeq oerd (of_members (of_val oerd) ms vs)
  | TSeqOf _ _ e, VList vs | TSetOf _ _ e, VList vs =>
      SList (match vs with [] => false | _ => true end) (map (of_val oerd e) vs)
  | TChoice alts, VChoice i v' => SChoice (S i) (of_alt (of_val oerd) v' alts i)
  | TTag _ t', _ => of_val oerd t' v
  | TOpt _, VNone => SPtr None
  | TOpt t', VSome v' => SPtr (Some (of_val oerd t' v'))
  | _, _ => SScalar 0
  end.

(* ---- the ledger of harness/allocwrap.c, abstractly ---- *)
Definition bkind_eq_dec (a b : bkind) : {a = b} + {a <> b}.
Proof. decide equality. Defined.
Definition block_eq_dec (a b : block) : {a = b} + {a <> b}.
Proof. decide equality; [apply bkind_eq_dec | apply (list_eq_dec Nat.eq_dec)]. Defined.

(* free of a block: it must be live (else: double free or foreign free, a violation) *)
Definition ledger_free (live : list block) (b : block) : option (list block) :=
  if in_dec block_eq_dec b live then Some (remove block_eq_dec b live) else None.

Fixpoint run_frees (live : list block) (evs : list block) : option (list block) :=
  match evs with
  | [] => Some live
  | e :: r => match ledger_free live e with Some l => run_frees l r | None => None end
  end.

(* the whole lifecycle step ASN_STRUCT_FREE / ASN_STRUCT_RESET on a top-level
   structure: resulting ledger (None = violation) and resulting structure *)
Definition apply_free (t : ty) (m : meth) (live : list block) (s : sv) : option (list block) * option sv :=
  (run_frees live (free_model t m [] s), after m s).

Definition count_kind (k : bkind) (l : list block) : nat :=
  length (filter (fun b => if bkind_eq_dec (snd b) k then true else false) l).
