(* Rt/UperBits.v — bit-level lemmas for the UPER round trip (Rt/Uper.v):
   nbits / bits_val / take_bits / get_bits / get_octet, range_bits, and the
   octet packing of a complete encoding (bits_to_bytes / bytes_bits). *)
From Coq Require Import ZArith List Lia Bool ZifyBool.
From A1 Require Import Base.Bytes Rt.Types Rt.Comb Rt.Der Rt.Uper.
Import ListNotations.
Local Open Scope Z_scope.

(* lia/nia see through division and modulo by constants *)
Local Ltac Zify.zify_post_hook ::= Z.to_euclidean_division_equations.

(* ---------------- powers of two ---------------- *)

Lemma pow2_pos k : 0 < 2 ^ Z.of_nat k.
Proof. apply Z.pow_pos_nonneg; lia. Qed.

Lemma pow2_S k : 2 ^ Z.of_nat (S k) = 2 * 2 ^ Z.of_nat k.
Proof. rewrite Nat2Z.inj_succ, Z.pow_succ_r by lia. reflexivity. Qed.

Lemma pow2_zlen_pos {A} (l : list A) : 0 < 2 ^ zlen l.
Proof. apply pow2_pos. Qed.

(* ---------------- nbits / bits_val ---------------- *)

Lemma nbits_length w n : length (nbits w n) = w.
Proof. induction w; cbn [nbits length]; auto. Qed.

Lemma nbits_S k n : nbits (S k) n = Z.odd (n / 2 ^ Z.of_nat k) :: nbits k n.
Proof. reflexivity. Qed.

Lemma bits_val_nbits w n : bits_val (nbits w n) = n mod 2 ^ Z.of_nat w.
Proof.
  induction w as [|k IH].
  - cbn. now rewrite Z.mod_1_r.
  - rewrite nbits_S. cbn [bits_val]. unfold zlen. rewrite nbits_length, IH, pow2_S.
    pose proof (pow2_pos k) as HP. set (P := 2 ^ Z.of_nat k) in *.
    rewrite (Z.mul_comm 2 P), Z.rem_mul_r by lia.
    rewrite (Zmod_odd (n / P)). destruct (Z.odd (n / P)); lia.
Qed.

Lemma bits_val_bound bs : 0 <= bits_val bs < 2 ^ zlen bs.
Proof.
  induction bs as [|b tl IH]; cbn [bits_val].
  - unfold zlen; cbn. lia.
  - unfold zlen in *. cbn [length]. rewrite pow2_S.
    pose proof (pow2_pos (length tl)). destruct b; lia.
Qed.

Lemma take_bits_app x r : take_bits (length x) (x ++ r) = Some (x, r).
Proof.
  induction x as [|b tl IH]; cbn [length take_bits app]; [reflexivity|].
  rewrite IH. reflexivity.
Qed.

Lemma get_bits_nbits_mod w n r :
  get_bits w (nbits w n ++ r) = Some (n mod 2 ^ Z.of_nat w, r).
Proof.
  unfold get_bits. pose proof (take_bits_app (nbits w n) r) as H.
  rewrite nbits_length in H. rewrite H, bits_val_nbits. reflexivity.
Qed.

Lemma get_bits_nbits w n r : 0 <= n < 2 ^ Z.of_nat w ->
  get_bits w (nbits w n ++ r) = Some (n, r).
Proof. intros H. rewrite get_bits_nbits_mod, Z.mod_small by exact H. reflexivity. Qed.

Lemma get_octet_byte b r : 0 <= b < 256 -> get_octet (byte_bits b ++ r) = Some (b, r).
Proof. intros H. unfold get_octet, byte_bits. apply get_bits_nbits. exact H. Qed.

Lemma get_bytes_bits bs r : bytes_ok bs ->
  get_bytes (length bs) (bytes_bits bs ++ r) = Some (bs, r).
Proof.
  induction 1 as [|b tl Hb Htl IH]; [reflexivity|].
  cbn [length get_bytes]. unfold bytes_bits in *. cbn [flat_map]. rewrite <- app_assoc.
  fold (get_octet (byte_bits b ++ flat_map byte_bits tl ++ r)).
  rewrite get_octet_byte by exact Hb. rewrite IH. reflexivity.
Qed.

(* ---------------- range_bits ---------------- *)

Lemma range_bits_spec range : 1 <= range -> range <= 2 ^ Z.of_nat (range_bits range).
Proof.
  intros H. unfold range_bits. rewrite Z2Nat.id by apply Z.log2_up_nonneg.
  destruct (Z.eq_dec range 1) as [->|Hne]; [cbn; lia|].
  apply Z.log2_up_spec. lia.
Qed.

Lemma get_bits_range range n r : 0 <= n < range ->
  get_bits (range_bits range) (nbits (range_bits range) n ++ r) = Some (n, r).
Proof.
  intros H. apply get_bits_nbits. pose proof (range_bits_spec range ltac:(lia)). lia.
Qed.

(* ---------------- packing into octets ---------------- *)

(* nbits looks only at the low bits *)
Lemma nbits_add_mul j : forall k n c, (j <= k)%nat ->
  nbits j (n + c * 2 ^ Z.of_nat k) = nbits j n.
Proof.
  induction j as [|j IH]; intros k n c Hjk; [reflexivity|].
  rewrite !nbits_S. rewrite IH by lia. f_equal.
  replace (Z.of_nat k) with (Z.of_nat (k - j) + Z.of_nat j) by lia.
  rewrite Z.pow_add_r by lia. rewrite Z.mul_assoc, Z.div_add by (pose proof (pow2_pos j); lia).
  replace (k - j)%nat with (S (k - j - 1)) by lia. rewrite pow2_S.
  rewrite Z.odd_add. replace (c * (2 * 2 ^ Z.of_nat (k - j - 1))) with (2 * (c * 2 ^ Z.of_nat (k - j - 1))) by ring.
  rewrite Z.odd_mul. cbn. rewrite xorb_false_r. reflexivity.
Qed.

Lemma nbits_zero w : nbits w 0 = repeat false w.
Proof.
  induction w as [|w IH]; [reflexivity|]. rewrite nbits_S, IH. rewrite Z.div_0_l by (pose proof (pow2_pos w); lia).
  reflexivity.
Qed.

Lemma nbits_bits_val h : nbits (length h) (bits_val h) = h.
Proof.
  induction h as [|b tl IH]; [reflexivity|].
  cbn [length bits_val]. rewrite nbits_S. unfold zlen.
  pose proof (bits_val_bound tl) as Hb. unfold zlen in Hb.
  pose proof (pow2_pos (length tl)) as HP.
  f_equal.
  - destruct b.
    + rewrite <- (Z.mul_1_l (2 ^ Z.of_nat (length tl))) at 1.
      rewrite Z.add_comm, Z.div_add by lia. rewrite Z.div_small by lia. reflexivity.
    + rewrite Z.add_0_l, Z.div_small by lia. reflexivity.
  - destruct b.
    + rewrite Z.add_comm. rewrite <- (Z.mul_1_l (2 ^ Z.of_nat (length tl))) at 1.
      rewrite nbits_add_mul by lia. exact IH.
    + rewrite Z.add_0_l. exact IH.
Qed.

(* shifting left appends zero bits *)
Lemma nbits_shift a : forall b x,
  nbits (a + b) (x * 2 ^ Z.of_nat b) = nbits a x ++ repeat false b.
Proof.
  induction a as [|a IH]; intros b x.
  - cbn [Nat.add nbits app]. replace (x * 2 ^ Z.of_nat b) with (0 + x * 2 ^ Z.of_nat b) by lia.
    rewrite nbits_add_mul by lia. apply nbits_zero.
  - cbn [Nat.add]. rewrite !nbits_S. cbn [app]. rewrite IH. f_equal.
    rewrite Nat2Z.inj_add, Z.pow_add_r by lia.
    rewrite Z.div_mul_cancel_r; [reflexivity| |]; pose proof (pow2_pos a); pose proof (pow2_pos b); lia.
Qed.

Lemma byte_bits_chunk h : (length h <= 8)%nat ->
  byte_bits (bits_val h * 2 ^ (8 - zlen h)) = h ++ repeat false (8 - length h).
Proof.
  intros Hl. unfold byte_bits.
  replace 8%nat with (length h + (8 - length h))%nat at 1 by lia.
  replace (8 - zlen h) with (Z.of_nat (8 - length h)) by (unfold zlen; lia).
  rewrite nbits_shift, nbits_bits_val. reflexivity.
Qed.

(* number of zero bits that complete the last octet *)
Definition pad_len (n : nat) : nat := ((8 - n mod 8) mod 8)%nat.

Lemma pack_bits_spec : forall fuel bs, (length bs < fuel)%nat ->
  bytes_bits (pack_bits fuel bs) = bs ++ repeat false (pad_len (length bs)) /\
  zlen (pack_bits fuel bs) = (zlen bs + 7) / 8.
Proof.
  induction fuel as [|f IH]; intros bs Hf; [lia|].
  destruct bs as [|b0 tl0] eqn:Ebs.
  - cbn. split; reflexivity.
  - rewrite <- Ebs in *. assert (Hne : bs <> []) by (rewrite Ebs; discriminate).
    assert (Hpack : pack_bits (S f) bs =
              bits_val (firstn 8 bs) * 2 ^ (8 - zlen (firstn 8 bs)) :: pack_bits f (skipn 8 bs)).
    { rewrite Ebs. reflexivity. }
    rewrite Hpack. clear Hpack.
    assert (Hlen0 : (0 < length bs)%nat) by (rewrite Ebs; cbn; lia).
    pose proof (firstn_skipn 8 bs) as Hsplit.
    pose proof (firstn_length 8 bs) as Hfl. pose proof (skipn_length 8 bs) as Hsl.
    destruct (IH (skipn 8 bs) ltac:(lia)) as [IH1 IH2].
    unfold bytes_bits in *. cbn [flat_map]. rewrite IH1.
    rewrite byte_bits_chunk by lia. rewrite zlen_cons, IH2. unfold zlen. rewrite Hfl, Hsl.
    destruct (Nat.le_gt_cases (length bs) 8) as [Hle|Hgt].
    + (* last chunk *)
      assert (Hs : skipn 8 bs = []) by (apply skipn_all2; lia).
      assert (Hfn : firstn 8 bs = bs) by (apply firstn_all2; lia).
      rewrite Hs, Hfn. replace (length bs - 8)%nat with 0%nat by lia.
      replace (Nat.min 8 (length bs)) with (length bs) by lia.
      replace (pad_len 0) with 0%nat by reflexivity. cbn [repeat app]. rewrite app_nil_r.
      split.
      * f_equal. f_equal. unfold pad_len.
        destruct (Nat.eq_dec (length bs) 8) as [E8|N8]; [rewrite E8; reflexivity|].
        rewrite (Nat.mod_small (length bs) 8) by lia. rewrite Nat.mod_small by lia. reflexivity.
      * lia.
    + replace (Nat.min 8 (length bs)) with 8%nat by lia. cbn [repeat Nat.sub app].
      rewrite app_nil_r. rewrite app_assoc, Hsplit.
      split.
      * f_equal. f_equal. unfold pad_len.
        replace (length bs) with ((length bs - 8) + 1 * 8)%nat at 2 by lia.
        rewrite Nat.mod_add by lia. reflexivity.
      * replace (Z.of_nat (length bs) + 7) with ((Z.of_nat (length bs - 8) + 7) + 1 * 8) by lia.
        rewrite Z.div_add by lia. reflexivity.
Qed.

Lemma bits_to_bytes_spec bs :
  bytes_bits (bits_to_bytes bs) = bs ++ repeat false (pad_len (length bs)) /\
  zlen (bits_to_bytes bs) = (zlen bs + 7) / 8.
Proof. unfold bits_to_bytes. apply pack_bits_spec. lia. Qed.
