(* Rt/CanonicalProofs.v — C06: the canonical encoders of the codec model depend
   only on the abstract value.
     - lex_leb is a total order on octet strings (reflexive, transitive, total,
       antisymmetric); insertion sort yields a sorted permutation; a sorted
       permutation under an order that is antisymmetric on the members is unique;
     - hence sort_encodings (DER) is invariant under permutation, and
       sort_bit_encodings (CUPER) is whenever the padded key is injective on the
       members (refuted without that: "1" / "10"); its list of keys always is;
     - DER and UPER of two values that differ only in SET OF order (at any depth)
       are equal; OER is not (refuted: SET_OF_encode_oer writes memory order);
     - the INTEGER strip loop yields the unique minimal two's-complement form. *)
From Coq Require Import ZArith List Lia Bool ZifyBool Permutation Sorted.
From A1 Require Import Base.Bytes Leaf.IntegerConv Leaf.IntegerConvProofs
  Rt.Types Rt.TypesInd Rt.Comb Rt.Der Rt.Uper Rt.Oer Rt.Canonical.
Import ListNotations.
Local Open Scope Z_scope.

(* ---------------- lex_leb is a total order ---------------- *)

Lemma lex_leb_refl a : lex_leb a a = true.
Proof.
  induction a as [|x a IH]; cbn; auto.
  rewrite Z.ltb_irrefl. exact IH.
Qed.

Lemma lex_leb_total a : forall b, lex_leb a b = true \/ lex_leb b a = true.
Proof.
  induction a as [|x a IH]; intros [|y b]; cbn; auto.
  destruct (x <? y) eqn:E1; auto.
  destruct (y <? x) eqn:E2; auto.
Qed.

Lemma lex_leb_trans a : forall b c, lex_leb a b = true -> lex_leb b c = true -> lex_leb a c = true.
Proof.
  induction a as [|x a IH]; intros [|y b] [|z c]; cbn; auto; try discriminate.
  destruct (x <? y) eqn:E1.
  - intros _. destruct (y <? z) eqn:E2.
    + intros _. replace (x <? z) with true by lia. reflexivity.
    + destruct (z <? y) eqn:E3; [discriminate|]. intros _.
      replace (x <? z) with true by lia. reflexivity.
  - destruct (y <? x) eqn:E2; [discriminate|]. intros H1.
    destruct (y <? z) eqn:E3.
    + intros _. replace (x <? z) with true by lia. reflexivity.
    + destruct (z <? y) eqn:E4; [discriminate|]. intros H2.
      replace (x <? z) with false by lia. replace (z <? x) with false by lia.
      eapply IH; eauto.
Qed.

Lemma lex_leb_antisym a : forall b, lex_leb a b = true -> lex_leb b a = true -> a = b.
Proof.
  induction a as [|x a IH]; intros [|y b]; cbn; auto; try discriminate.
  destruct (x <? y) eqn:E1.
  - replace (y <? x) with false by lia. discriminate.
  - destruct (y <? x) eqn:E2; [discriminate|].
    intros H1 H2. assert (x = y) by lia. subst. f_equal. apply IH; assumption.
Qed.

(* ---------------- insertion sort: sorted permutation, unique ---------------- *)

Section ISortProofs.
  Context {A : Type}.
  Variable leb : A -> A -> bool.
  Hypothesis leb_total : forall a b, leb a b = true \/ leb b a = true.
  Hypothesis leb_trans : forall a b c, leb a b = true -> leb b c = true -> leb a c = true.
  Let R (a b : A) : Prop := leb a b = true.

  Lemma ins_perm x l : Permutation (ins leb x l) (x :: l).
  Proof.
    induction l as [|y tl IH]; cbn; auto.
    destruct (leb x y); auto.
    eapply perm_trans; [apply perm_skip; exact IH|apply perm_swap].
  Qed.

  Lemma isort_perm l : Permutation (isort leb l) l.
  Proof.
    induction l as [|x tl IH]; cbn; auto.
    eapply perm_trans; [apply ins_perm|]. apply perm_skip; exact IH.
  Qed.

  Lemma ins_sorted x l : StronglySorted R l -> StronglySorted R (ins leb x l).
  Proof.
    induction l as [|y tl IH]; intros HS; cbn.
    - constructor; constructor.
    - inversion HS as [|? ? HS' HF]; subst.
      destruct (leb x y) eqn:E.
      + constructor; [exact HS|]. constructor; [exact E|].
        rewrite Forall_forall in *. intros z Hz. unfold R. eapply leb_trans; [exact E|]. apply HF; exact Hz.
      + constructor; [apply IH; exact HS'|].
        assert (Hyx : leb y x = true) by (destruct (leb_total x y); congruence).
        rewrite Forall_forall in *. intros z Hz.
        apply (Permutation_in _ (ins_perm x tl)) in Hz. destruct Hz as [<-|Hz]; [exact Hyx|apply HF; exact Hz].
  Qed.

  Lemma isort_sorted l : StronglySorted R (isort leb l).
  Proof.
    induction l as [|x tl IH]; cbn; [constructor|]. apply ins_sorted; exact IH.
  Qed.

  (* uniqueness needs antisymmetry only on the members of the list *)
  Lemma sorted_perm_unique l1 : forall l2,
    (forall a b, In a l1 -> In b l1 -> leb a b = true -> leb b a = true -> a = b) ->
    StronglySorted R l1 -> StronglySorted R l2 -> Permutation l1 l2 -> l1 = l2.
  Proof.
    induction l1 as [|a t1 IH]; intros l2 Hanti HS1 HS2 HP.
    - apply Permutation_nil in HP. subst; reflexivity.
    - destruct l2 as [|b t2]; [apply Permutation_sym, Permutation_nil in HP; discriminate|].
      inversion HS1 as [|? ? HS1' HF1]; subst. inversion HS2 as [|? ? HS2' HF2]; subst.
      rewrite Forall_forall in HF1, HF2.
      assert (Hb : In b (a :: t1)) by (eapply Permutation_in; [apply Permutation_sym; exact HP|left; reflexivity]).
      assert (Ha : In a (b :: t2)) by (eapply Permutation_in; [exact HP|left; reflexivity]).
      assert (Eab : a = b).
      { destruct Hb as [Hb|Hb]; [exact Hb|]. destruct Ha as [Ha|Ha]; [symmetry; exact Ha|].
        apply Hanti; [left; reflexivity|right; exact Hb|apply HF1; exact Hb|apply HF2; exact Ha]. }
      subst b. f_equal. apply IH; auto.
      + intros x y Hx Hy. apply Hanti; right; assumption.
      + eapply Permutation_cons_inv; exact HP.
  Qed.

  Theorem isort_perm_invariant l1 l2 :
    (forall a b, In a l1 -> In b l1 -> leb a b = true -> leb b a = true -> a = b) ->
    Permutation l1 l2 -> isort leb l1 = isort leb l2.
  Proof.
    intros Hanti HP. apply sorted_perm_unique.
    - intros a b Ha Hb. apply Hanti; eapply Permutation_in; try apply isort_perm; assumption.
    - apply isort_sorted.
    - apply isort_sorted.
    - eapply perm_trans; [apply isort_perm|]. eapply perm_trans; [exact HP|]. apply Permutation_sym, isort_perm.
  Qed.
End ISortProofs.

(* ---------------- DER: sort_encodings ---------------- *)

Lemma insert_sorted_ins x l : insert_sorted x l = ins lex_leb x l.
Proof. induction l as [|y tl IH]; cbn; [reflexivity|]. rewrite IH. reflexivity. Qed.

Lemma sort_encodings_isort l : sort_encodings l = isort lex_leb l.
Proof.
  unfold sort_encodings, isort. induction l as [|x tl IH]; cbn; [reflexivity|].
  rewrite IH. apply insert_sorted_ins.
Qed.

Theorem setof_sort_perm l1 l2 : Permutation l1 l2 -> sort_encodings l1 = sort_encodings l2.
Proof.
  intros HP. rewrite !sort_encodings_isort.
  apply isort_perm_invariant; [apply lex_leb_total|apply lex_leb_trans| |exact HP].
  intros a b _ _. apply lex_leb_antisym.
Qed.

Theorem sort_encodings_sorted_perm l :
  Permutation (sort_encodings l) l /\ StronglySorted (fun a b => lex_leb a b = true) (sort_encodings l).
Proof.
  rewrite sort_encodings_isort. split.
  - apply isort_perm.
  - apply isort_sorted; [apply lex_leb_total|apply lex_leb_trans].
Qed.

(* ---------------- CUPER: sort_bit_encodings ---------------- *)

Definition key_leb (x y : list bool) : bool := lex_leb (pad_key x) (pad_key y).

Lemma insert_by_key_ins x l : insert_by_key x l = ins key_leb x l.
Proof. induction l as [|y tl IH]; cbn; [reflexivity|]. rewrite IH. reflexivity. Qed.

Lemma sort_bit_encodings_isort l : sort_bit_encodings l = isort key_leb l.
Proof.
  unfold sort_bit_encodings, isort. induction l as [|x tl IH]; cbn; [reflexivity|].
  rewrite IH. apply insert_by_key_ins.
Qed.

Lemma key_leb_total a b : key_leb a b = true \/ key_leb b a = true.
Proof. apply lex_leb_total. Qed.
Lemma key_leb_trans a b c : key_leb a b = true -> key_leb b c = true -> key_leb a c = true.
Proof. apply lex_leb_trans. Qed.

(* what holds when the key is injective on the members *)
Theorem setof_sort_bits_perm l1 l2 :
  (forall x y, In x l1 -> In y l1 -> pad_key x = pad_key y -> x = y) ->
  Permutation l1 l2 -> sort_bit_encodings l1 = sort_bit_encodings l2.
Proof.
  intros Hinj HP. rewrite !sort_bit_encodings_isort.
  apply isort_perm_invariant; [apply key_leb_total|apply key_leb_trans| |exact HP].
  intros a b Ha Hb H1 H2. apply Hinj; auto. apply lex_leb_antisym; assumption.
Qed.

(* what holds always: the sequence of keys does not depend on the input order,
   i.e. the outputs are equal up to the order of members with equal keys *)
Lemma map_ins_key x l : map pad_key (ins key_leb x l) = ins lex_leb (pad_key x) (map pad_key l).
Proof.
  induction l as [|y tl IH]; cbn [ins map]; [reflexivity|].
  change (key_leb x y) with (lex_leb (pad_key x) (pad_key y)).
  destruct (lex_leb (pad_key x) (pad_key y)); cbn [map]; [reflexivity|]. rewrite IH. reflexivity.
Qed.

Lemma map_isort_key l : map pad_key (isort key_leb l) = isort lex_leb (map pad_key l).
Proof.
  induction l as [|x tl IH]; [reflexivity|].
  change (isort key_leb (x :: tl)) with (ins key_leb x (isort key_leb tl)).
  change (isort lex_leb (map pad_key (x :: tl))) with (ins lex_leb (pad_key x) (isort lex_leb (map pad_key tl))).
  rewrite map_ins_key, IH. reflexivity.
Qed.

Theorem setof_sort_bits_keys_perm l1 l2 :
  Permutation l1 l2 -> map pad_key (sort_bit_encodings l1) = map pad_key (sort_bit_encodings l2).
Proof.
  intros HP. rewrite !sort_bit_encodings_isort, !map_isort_key.
  apply isort_perm_invariant; [apply lex_leb_total|apply lex_leb_trans| |].
  - intros a b _ _. apply lex_leb_antisym.
  - apply Permutation_map. exact HP.
Qed.

(* and what does not: two different bit strings with the same padded octets *)
Theorem setof_sort_bits_perm_refuted :
  exists l1 l2, Permutation l1 l2 /\ concat (sort_bit_encodings l1) <> concat (sort_bit_encodings l2).
Proof.
  exists [[true]; [true; false]], [[true; false]; [true]]. split.
  - apply perm_swap.
  - vm_compute. discriminate.
Qed.

(* ---------------- values: same abstract value => same encoding ---------------- *)

Lemma option_all_perm {A} (xs ys : list (option A)) : Permutation xs ys ->
  (option_all xs = None /\ option_all ys = None) \/
  (exists a b, option_all xs = Some a /\ option_all ys = Some b /\ Permutation a b).
Proof.
  induction 1 as [|x l l' HP IH|x y l|l l' l'' HP1 IH1 HP2 IH2].
  - right. exists [], []. cbn. auto.
  - destruct x as [x|]; cbn; [|left; auto].
    destruct IH as [[-> ->]|(a & b & -> & -> & HPab)]; [left; auto|].
    right. exists (x :: a), (x :: b). auto.
  - destruct x as [x|], y as [y|]; cbn; try (left; split; reflexivity).
    destruct (option_all l) as [r|]; [|left; auto].
    right. exists (y :: x :: r), (x :: y :: r). repeat split. apply perm_swap.
  - destruct IH1 as [[E1 E2]|(a & b & E1 & E2 & HPab)].
    + destruct IH2 as [[E3 E4]|(a' & b' & E3 & E4 & _)]; [left; auto|congruence].
    + destruct IH2 as [[E3 E4]|(a' & b' & E3 & E4 & HPab')]; [congruence|].
      right. exists a, b'. repeat split; auto. rewrite E2 in E3. inversion E3; subst.
      eapply perm_trans; eauto.
Qed.

Lemma map_Forall2_eq {A B} (f : A -> B) l1 l2 : Forall2 (fun a b => f a = f b) l1 l2 -> map f l1 = map f l2.
Proof. induction 1; cbn; congruence. Qed.

Lemma Forall2_same_abs_map {B} (enc : ty -> val -> B) e l1 l2 :
  (forall v1 v2, same_abs e v1 v2 -> enc e v1 = enc e v2) ->
  Forall2 (same_abs e) l1 l2 -> map (enc e) l1 = map (enc e) l2.
Proof.
  intros H HF. apply map_Forall2_eq. induction HF; constructor; auto.
Qed.

Lemma enc_members_same {B} (enc : ty -> val -> option (list B)) ms : 
  Forall (fun m => forall v1 v2, same_abs m v1 v2 -> enc m v1 = enc m v2) ms ->
  forall vs1 vs2, Forall3 same_abs ms vs1 vs2 -> enc_members enc ms vs1 = enc_members enc ms vs2.
Proof.
  intros HF vs1 vs2 H3. induction H3 as [|m v1 v2 ms' vs1' vs2' Hm H3' IH]; cbn; auto.
  inversion HF; subst. rewrite (H1 _ _ Hm), (IH H2). reflexivity.
Qed.

Lemma presence_bits_same ms : forall vs1 vs2, Forall3 same_abs ms vs1 vs2 ->
  presence_bits ms vs1 = presence_bits ms vs2.
Proof.
  intros vs1 vs2 H3. induction H3 as [|m v1 v2 ms' vs1' vs2' Hm H3' IH]; cbn; auto.
  rewrite IH. f_equal.
  destruct (is_opt m) eqn:E; auto.
  destruct m; try discriminate. inversion Hm; subst; reflexivity.
Qed.

Lemma enc_alt_same {B} (enc : ty -> val -> option B) alts :
  Forall (fun m => forall v1 v2, same_abs m v1 v2 -> enc m v1 = enc m v2) alts ->
  forall i a v1 v2, nth_error alts i = Some a -> same_abs a v1 v2 ->
  enc_alt enc v1 alts i = enc_alt enc v2 alts i.
Proof.
  induction 1 as [|x l Hx HF IH]; intros [|i] a v1 v2 Hn Hs; cbn in *; try discriminate.
  - inversion Hn; subst. apply Hx; exact Hs.
  - eapply IH; eauto.
Qed.

Lemma der_tag tg t v :
  der (TTag tg t) v = match der t v with Some c => Some (tlv tg true c) | None => None end.
Proof. destruct v; reflexivity. Qed.

Theorem der_same_abs t : forall v1 v2, same_abs t v1 v2 -> der t v1 = der t v2.
Proof.
  induction t using ty_ind'; intros v1 v2 Hs; inversion Hs; subst; auto.
  - (* SEQUENCE *) cbn [der].
    match goal with HA : Forall _ ms, HF : Forall3 same_abs _ _ _ |- _ => rewrite (enc_members_same der ms HA _ _ HF) end.
    reflexivity.
  - (* SEQUENCE OF *) cbn [der].
    match goal with HF : Forall2 _ _ _ |- _ => rewrite (Forall2_same_abs_map der t _ _ IHt HF) end.
    reflexivity.
  - (* SET OF *) cbn [der].
    match goal with HP : Permutation _ _, HF : Forall2 _ _ _ |- _ =>
      rewrite <- (Forall2_same_abs_map der t _ _ IHt HF);
      destruct (option_all_perm _ _ (Permutation_map (der t) HP)) as [[-> ->]|(a & b & -> & -> & HP')]; auto;
      rewrite (setof_sort_perm _ _ HP'); reflexivity end.
  - (* CHOICE *) cbn [der].
    match goal with HA : Forall _ alts |- _ => eapply (enc_alt_same der alts HA); eauto end.
  - (* EXPLICIT tag *) rewrite !der_tag.
    match goal with Hs' : same_abs t _ _ |- _ => rewrite (IHt _ _ Hs') end. reflexivity.
  - (* OPTIONAL *) cbn [der]. apply IHt; assumption.
Qed.

(* ---------------- UPER ---------------- *)

Lemma uper_tag std tg t v : uper std (TTag tg t) v = uper std t v.
Proof. destruct v; reflexivity. Qed.

Lemma Forall_mp {A} (P Q : A -> Prop) l : Forall (fun x => P x -> Q x) l -> Forall P l -> Forall Q l.
Proof. induction 1; intros HP; inversion HP; subst; constructor; auto. Qed.

Lemma setof_keys_ok_list std l :
  (fix go (l : list ty) : Prop := match l with [] => True | m :: r => setof_keys_ok std m /\ go r end) l ->
  Forall (setof_keys_ok std) l.
Proof. induction l as [|m r IH]; intros H; constructor; destruct H; auto. Qed.

Lemma option_all_In {A B} (f : A -> option B) l : forall a x,
  option_all (map f l) = Some a -> In x a -> exists v, In v l /\ f v = Some x.
Proof.
  induction l as [|v l IH]; intros a x; cbn.
  - intros E. inversion E; subst. intros [].
  - destruct (f v) as [b|] eqn:Ef; [|discriminate].
    destruct (option_all (map f l)) as [r|] eqn:Er; [|discriminate].
    intros E. inversion E; subst. intros [<-|Hx].
    + exists v. auto.
    + destruct (IH r x eq_refl Hx) as (v' & Hv' & Ev'). exists v'. auto.
Qed.

Theorem uper_same_abs std t : setof_keys_ok std t ->
  forall v1 v2, same_abs t v1 v2 -> uper std t v1 = uper std t v2.
Proof.
  induction t using ty_ind'; intros Hk v1 v2 Hs; inversion Hs; subst; auto.
  - (* SEQUENCE *) cbn [uper].
    match goal with HA : Forall _ ms, HF : Forall3 same_abs _ _ _ |- _ =>
      pose proof (Forall_mp _ _ _ HA (setof_keys_ok_list std ms Hk)) as HA';
      rewrite (enc_members_same (uper std) ms HA' _ _ HF), (presence_bits_same ms _ _ HF) end.
    reflexivity.
  - (* SEQUENCE OF *) cbn [uper]. cbn in Hk.
    match goal with HF : Forall2 _ _ _ |- _ => rewrite (Forall2_same_abs_map (uper std) t _ _ (IHt Hk) HF) end.
    reflexivity.
  - (* SET OF *) cbn [uper]. destruct Hk as [Hinj Hk].
    match goal with HP : Permutation _ _, HF : Forall2 _ _ _ |- _ =>
      rewrite <- (Forall2_same_abs_map (uper std) t _ _ (IHt Hk) HF);
      destruct (option_all_perm _ _ (Permutation_map (uper std t) HP)) as [[-> ->]|(a & b & Ea & -> & HP')]; auto end.
    rewrite Ea. rewrite (setof_sort_bits_perm a b); auto.
    intros x y Hx Hy Hxy.
    destruct (option_all_In _ _ _ _ Ea Hx) as (vx & _ & Evx).
    destruct (option_all_In _ _ _ _ Ea Hy) as (vy & _ & Evy).
    eapply Hinj; eauto.
  - (* CHOICE *) cbn [uper].
    match goal with HA : Forall _ alts |- _ =>
      pose proof (Forall_mp _ _ _ HA (setof_keys_ok_list std alts Hk)) as HA';
      erewrite (enc_alt_same (uper std) alts HA'); eauto end.
  - (* EXPLICIT tag *) rewrite !uper_tag. apply IHt; assumption.
  - (* OPTIONAL *) cbn [uper]. apply IHt; assumption.
Qed.

Corollary uper_encode_same_abs std t v1 v2 : setof_keys_ok std t -> same_abs t v1 v2 ->
  uper_encode std t v1 = uper_encode std t v2.
Proof. intros Hk Hs. unfold uper_encode. rewrite (uper_same_abs std t Hk v1 v2 Hs). reflexivity. Qed.

(* ---------------- OER: refuted ---------------- *)

Definition setof_int : ty := TSetOf 68 (SCon 0 None false) (TInt 8 (ICon None None false)).

Theorem oer_setof_order_refuted :
  exists t v1 v2, same_abs t v1 v2 /\ oer t v1 <> oer t v2.
Proof.
  exists setof_int, (VList [VInt 5; VInt 3]), (VList [VInt 3; VInt 5]). split.
  - eapply SA_setof; [apply perm_swap|]. repeat constructor.
  - vm_compute. discriminate.
Qed.

(* the same witness: DER and UPER agree, as the theorems say *)
Example der_setof_witness :
  der setof_int (VList [VInt 5; VInt 3]) = der setof_int (VList [VInt 3; VInt 5]) /\
  der setof_int (VList [VInt 5; VInt 3]) = Some [49; 6; 2; 1; 3; 2; 1; 5].
Proof. vm_compute. auto. Qed.

(* ---------------- INTEGER contents: the minimal form is unique ---------------- *)

Lemma twos_range bs : bytes_ok bs -> bs <> [] ->
  - (128 * 256 ^ (zlen bs - 1)) <= twos_value bs < 128 * 256 ^ (zlen bs - 1).
Proof.
  destruct bs as [|b tl]; [congruence|]. intros Hok _.
  apply bytes_ok_inv in Hok. destruct Hok as [Hb Htl].
  pose proof (be_val_bound tl Htl) as Hv. pose proof (zlen_pos_pow tl) as HP.
  rewrite twos_value_cons, zlen_cons. replace (zlen tl + 1 - 1) with (zlen tl) by lia.
  set (P := 256 ^ zlen tl) in *. set (V := be_val tl) in *. unfold sbyte.
  destruct (128 <=? b) eqn:E; nia.
Qed.

Lemma be_val_inj l1 : forall l2, bytes_ok l1 -> bytes_ok l2 -> length l1 = length l2 ->
  be_val l1 = be_val l2 -> l1 = l2.
Proof.
  induction l1 as [|a t1 IH]; intros [|b t2] H1 H2 HL HV; try discriminate; auto.
  apply bytes_ok_inv in H1. destruct H1 as [Ha Ht1].
  apply bytes_ok_inv in H2. destruct H2 as [Hb Ht2].
  cbn [length] in HL. assert (HL' : length t1 = length t2) by lia.
  cbn [be_val] in HV. unfold zlen in HV. rewrite HL' in HV. fold (zlen t2) in HV.
  pose proof (be_val_bound t1 Ht1) as B1. pose proof (be_val_bound t2 Ht2) as B2.
  unfold zlen in B1. rewrite HL' in B1. fold (zlen t2) in B1.
  pose proof (zlen_pos_pow t2) as HP.
  set (P := 256 ^ zlen t2) in *.
  assert (a = b) by nia. subst b. f_equal. apply IH; auto. lia.
Qed.

Lemma twos_value_inj l1 l2 : bytes_ok l1 -> bytes_ok l2 -> length l1 = length l2 ->
  twos_value l1 = twos_value l2 -> l1 = l2.
Proof.
  destruct l1 as [|a t1], l2 as [|b t2]; intros H1 H2 HL HV; try discriminate; auto.
  apply bytes_ok_inv in H1. destruct H1 as [Ha Ht1].
  apply bytes_ok_inv in H2. destruct H2 as [Hb Ht2].
  cbn [length] in HL. assert (HL' : length t1 = length t2) by lia.
  rewrite !twos_value_cons in HV. unfold zlen in HV. rewrite HL' in HV. fold (zlen t2) in HV.
  pose proof (be_val_bound t1 Ht1) as B1. pose proof (be_val_bound t2 Ht2) as B2.
  unfold zlen in B1. rewrite HL' in B1. fold (zlen t2) in B1.
  pose proof (zlen_pos_pow t2) as HP.
  set (P := 256 ^ zlen t2) in *.
  assert (Hs : sbyte a = sbyte b) by (unfold sbyte in *; destruct (128 <=? a), (128 <=? b); nia).
  assert (a = b) by (unfold sbyte in Hs; destruct (128 <=? a) eqn:?, (128 <=? b) eqn:?; lia).
  subst b. f_equal. apply be_val_inj; auto. lia.
Qed.

(* a minimal form of n octets denotes a value that does not fit n-1 octets *)
Lemma minimal_length_le l1 l2 : bytes_ok l1 -> bytes_ok l2 -> l2 <> [] ->
  minimal_twos l1 = true -> twos_value l1 = twos_value l2 -> (length l1 <= length l2)%nat.
Proof.
  intros H1 H2 Hne Hmin HV.
  destruct l1 as [|a [|a1 t1]]; [discriminate| |].
  - destruct l2; [congruence|cbn; lia].
  - pose proof (minimal_big a a1 t1 H1 Hmin) as Hbig.
    pose proof (twos_range l2 H2 Hne) as Hr. rewrite <- HV in Hr.
    destruct (Nat.le_gt_cases (length (a :: a1 :: t1)) (length l2)) as [|Hlt]; auto.
    exfalso. cbn [length] in Hlt.
    assert (Hle : zlen l2 - 1 <= zlen t1) by (unfold zlen; lia).
    assert (0 <= zlen l2 - 1) by (destruct l2; [congruence|rewrite zlen_cons; pose proof (zlen_nonneg l2); lia]).
    assert (HPle : 256 ^ (zlen l2 - 1) <= 256 ^ zlen t1) by (apply Z.pow_le_mono_r; lia).
    lia.
Qed.

Theorem minimal_twos_unique l1 l2 : bytes_ok l1 -> bytes_ok l2 ->
  minimal_twos l1 = true -> minimal_twos l2 = true -> twos_value l1 = twos_value l2 -> l1 = l2.
Proof.
  intros H1 H2 M1 M2 HV.
  assert (N1 : l1 <> []) by (destruct l1; [discriminate|congruence]).
  assert (N2 : l2 <> []) by (destruct l2; [discriminate|congruence]).
  apply twos_value_inj; auto.
  apply Nat.le_antisymm; eapply minimal_length_le; eauto.
Qed.

(* INTEGER_encode_der strips the contents octets: any two buffers denoting the
   same integer are written as the same octets *)
Theorem strip_leading_canonical b1 b2 :
  twos_value b1 = twos_value b2 -> bytes_ok b1 -> bytes_ok b2 -> b1 <> [] -> b2 <> [] ->
  strip b1 = strip b2.
Proof.
  intros HV H1 H2 N1 N2.
  destruct (strip_spec b1 H1 N1) as (V1 & M1 & O1 & _ & _).
  destruct (strip_spec b2 H2 N2) as (V2 & M2 & O2 & _ & _).
  apply minimal_twos_unique; auto. congruence.
Qed.

(* sign-extension padding in particular *)
Corollary strip_sign_padding bs k : bytes_ok bs -> bs <> [] ->
  strip (repeat (if 128 <=? hd 0 bs then 255 else 0) k ++ bs) = strip bs.
Proof.
  intros Hok Hne. induction k as [|k IH]; [reflexivity|].
  cbn [repeat app]. rewrite <- IH.
  destruct bs as [|b tl]; [congruence|]. cbn [hd] in *.
  destruct (repeat (if 128 <=? b then 255 else 0) k ++ b :: tl) as [|c r] eqn:E.
  { destruct k; discriminate. }
  assert (Hc : c = (if 128 <=? b then 255 else 0) \/ c = b).
  { destruct k; cbn in E; inversion E; auto. }
  rewrite strip_cons2.
  apply bytes_ok_inv in Hok. destruct Hok as [Hb _].
  destruct (128 <=? b) eqn:Eb.
  - assert (128 <= c) by lia.
    replace ((255 =? 0) && (c <? 128)) with false by lia.
    replace ((255 =? 255) && (128 <=? c)) with true by lia. reflexivity.
  - assert (c < 128) by lia.
    replace ((0 =? 0) && (c <? 128)) with true by lia. reflexivity.
Qed.

(* non-vacuity of [setof_keys_ok]: SET OF BOOLEAN, at any depth of SEQUENCE OF *)
Example setof_keys_ok_bool std s1 s2 : setof_keys_ok std (TSeqOf 64 s1 (TSetOf 68 s2 (TBool 4))).
Proof.
  cbn. split; [|exact I].
  intros v1 v2 b1 b2 H1 H2 HK.
  destruct v1; cbn in H1; try discriminate. destruct v2; cbn in H2; try discriminate.
  inversion H1; inversion H2; subst.
  destruct b, b0; vm_compute in HK; congruence.
Qed.

Example uper_setof_bool_witness :
  uper false (TSetOf 68 (SCon 0 None false) (TBool 4)) (VList [VBool true; VBool false; VBool true]) =
  uper false (TSetOf 68 (SCon 0 None false) (TBool 4)) (VList [VBool false; VBool true; VBool true]).
Proof. vm_compute. reflexivity. Qed.

(* ---------------- members of one fixed width: the padded key is injective ---------------- *)

Lemma bits_val_bound l : 0 <= bits_val l < 2 ^ zlen l.
Proof.
  induction l as [|b tl IH]; cbn [bits_val]; [cbn; lia|].
  rewrite zlen_cons, Z.pow_add_r by (pose proof (zlen_nonneg tl); lia).
  destruct b; lia.
Qed.

Lemma bits_val_inj l1 : forall l2, length l1 = length l2 -> bits_val l1 = bits_val l2 -> l1 = l2.
Proof.
  induction l1 as [|a t1 IH]; intros [|b t2] HL HV; try discriminate; auto.
  cbn [length] in HL. assert (HL' : length t1 = length t2) by lia.
  cbn [bits_val] in HV. unfold zlen in HV. rewrite HL' in HV. fold (zlen t2) in HV.
  pose proof (bits_val_bound t1) as B1. pose proof (bits_val_bound t2) as B2.
  unfold zlen in B1. rewrite HL' in B1. fold (zlen t2) in B1.
  destruct a, b; try lia; f_equal; apply IH; auto; lia.
Qed.

Lemma pack_bits_cons f x t :
  pack_bits (S f) (x :: t) =
  bits_val (firstn 8 (x :: t)) * 2 ^ (8 - zlen (firstn 8 (x :: t))) :: pack_bits f (skipn 8 (x :: t)).
Proof. reflexivity. Qed.

Lemma pack_bits_inj f : forall b1 b2, length b1 = length b2 -> (length b1 < f)%nat ->
  pack_bits f b1 = pack_bits f b2 -> b1 = b2.
Proof.
  induction f as [|f IH]; intros b1 b2 HL Hf HP; [lia|].
  destruct b1 as [|x t1], b2 as [|y t2]; try discriminate; auto.
  rewrite !pack_bits_cons in HP.
  remember (firstn 8 (x :: t1)) as h1 eqn:Eh1. remember (firstn 8 (y :: t2)) as h2 eqn:Eh2.
  remember (skipn 8 (x :: t1)) as r1 eqn:Er1. remember (skipn 8 (y :: t2)) as r2 eqn:Er2.
  assert (Hh : length h1 = length h2) by (subst h1 h2; rewrite !firstn_length; lia).
  assert (Hr : length r1 = length r2) by (subst r1 r2; rewrite !skipn_length; lia).
  assert (Hrf : (length r1 < f)%nat) by (subst r1; rewrite skipn_length; cbn [length] in *; lia).
  injection HP as HV HR.
  assert (Hz : zlen h1 = zlen h2) by (unfold zlen; lia).
  rewrite Hz in HV.
  assert (H8 : zlen h2 <= 8) by (unfold zlen; subst h2; rewrite firstn_length; lia).
  assert (Hp : 0 < 2 ^ (8 - zlen h2)) by (apply Z.pow_pos_nonneg; lia).
  set (P := 2 ^ (8 - zlen h2)) in *.
  assert (HV' : bits_val h1 = bits_val h2) by (apply (Z.mul_reg_r _ _ P); [lia|exact HV]).
  rewrite <- (firstn_skipn 8 (x :: t1)), <- (firstn_skipn 8 (y :: t2)).
  rewrite <- Eh1, <- Eh2, <- Er1, <- Er2. f_equal.
  - apply bits_val_inj; assumption.
  - apply IH; assumption.
Qed.

Lemma pad_key_inj_len b1 b2 : length b1 = length b2 -> pad_key b1 = pad_key b2 -> b1 = b2.
Proof.
  intros HL HK. unfold pad_key, bits_to_bytes in HK. rewrite <- HL in HK.
  eapply pack_bits_inj; eauto.
Qed.

Lemma nbits_length w n : length (nbits w n) = w.
Proof. induction w; cbn; auto. Qed.

Lemma fixed_bits_length std t : forall n v b,
  fixed_bits t = Some n -> uper std t v = Some b -> length b = n.
Proof.
  induction t using ty_ind'; intros n v b HF HU; try discriminate.
  - destruct v; try discriminate. cbn in *. inversion HF; inversion HU; subst. reflexivity.
  - destruct v; try discriminate. cbn in *. inversion HF; inversion HU; subst. reflexivity.
  - destruct c as [[l|] [h|] [|]]; try discriminate. cbn in HF. inversion HF; subst.
    destruct v; try discriminate. cbn in HU.
    destruct ((l <=? z) && (z <=? h)); [|discriminate].
    inversion HU; subst. cbn [app]. apply nbits_length.
  - (* SEQUENCE *)
    destruct v; try discriminate. cbn [uper] in HU.
    destruct (enc_members (uper std) ms vs) as [body|] eqn:EM; [|discriminate].
    inversion HU; subst. clear HU.
    revert n vs body HF EM.
    induction H as [|m ms' Hm HA IH]; intros n vs body HF EM.
    + destruct vs; cbn in EM; [|discriminate]. inversion EM; subst. cbn in HF. inversion HF. reflexivity.
    + destruct vs as [|v vs']; [discriminate|].
      cbn in EM.
      destruct (uper std m v) as [a|] eqn:Ea; [|discriminate].
      destruct (enc_members (uper std) ms' vs') as [b'|] eqn:Eb; [|discriminate].
      inversion EM; subst. clear EM.
      cbn [fixed_bits] in HF. fold fixed_bits in HF.
      destruct (is_opt m) eqn:Eo; [discriminate|].
      destruct (fixed_bits m) as [na|] eqn:Ena; [|discriminate].
      match type of HF with match ?g with _ => _ end = _ => destruct g as [nb|] eqn:Enb; [|discriminate] end.
      inversion HF; subst. clear HF.
      cbn [presence_bits]. rewrite Eo. cbn [app].
      specialize (IH nb vs' b' Enb Eb).
      rewrite app_length in IH |- *. rewrite app_length.
      rewrite (Hm na v a eq_refl Ea). lia.
  - (* tag *) rewrite uper_tag in HU. cbn in HF. eapply IHt; eauto.
Qed.

Lemma fixed_bits_keys_ok std t : forall n, fixed_bits t = Some n -> setof_keys_ok std t.
Proof.
  induction t using ty_ind'; intros n HF; try discriminate; try exact I.
  - cbn [setof_keys_ok]. revert n HF.
    induction H as [|m ms' Hm HA IH]; intros n HF; [exact I|].
    cbn [fixed_bits] in HF. fold fixed_bits in HF.
    destruct (is_opt m); [discriminate|].
    destruct (fixed_bits m) as [na|] eqn:Ena; [|discriminate].
    match type of HF with match ?g with _ => _ end = _ => destruct g as [nb|] eqn:Enb; [|discriminate] end.
    split; [eapply Hm; eauto|eapply IH; eauto].
  - cbn in *. eapply IHt; eauto.
Qed.

Theorem fixed_bits_key_injective std e n : fixed_bits e = Some n -> key_injective std e.
Proof.
  intros HF v1 v2 b1 b2 H1 H2 HK. apply pad_key_inj_len; auto.
  rewrite (fixed_bits_length std e n v1 b1 HF H1), (fixed_bits_length std e n v2 b2 HF H2). reflexivity.
Qed.

(* the UPER theorem without hypothesis for SET OF over fixed-width members, at any depth
   of SEQUENCE OF / EXPLICIT tags above it *)
Theorem uper_setof_fixed_width std tg s e n v1 v2 :
  fixed_bits e = Some n -> same_abs (TSetOf tg s e) v1 v2 ->
  uper_encode std (TSetOf tg s e) v1 = uper_encode std (TSetOf tg s e) v2.
Proof.
  intros HF Hs. apply uper_encode_same_abs; auto.
  cbn. split; [eapply fixed_bits_key_injective; eauto|eapply fixed_bits_keys_ok; eauto].
Qed.

Example fixed_bits_example :
  fixed_bits (TSeq 64 [TBool 4; TTag 10 (TInt 8 (ICon (Some 0) (Some 255) false))]) = Some 9%nat.
Proof. vm_compute. reflexivity. Qed.
