(* Rt/Canonical.v — definitions for C06 (canonical encodings depend only on the
   abstract value): a generic insertion sort, the relation "same abstract value"
   on the in-memory values of the codec model, and the side condition under which
   the UPER sort key of SET OF members is injective.  No proofs here. *)
From Coq Require Import ZArith List Bool Permutation.
From A1 Require Import Base.Bytes Rt.Types Rt.Comb Rt.Der Rt.Uper Rt.Oer.
Import ListNotations.
Local Open Scope Z_scope.

(* insertion sort with an arbitrary comparison; Der.sort_encodings and
   Uper.sort_bit_encodings are instances (CanonicalProofs: sort_encodings_isort,
   sort_bit_encodings_isort) *)
Section ISort.
  Context {A : Type}.
  Variable leb : A -> A -> bool.
  Fixpoint ins (x : A) (l : list A) : list A :=
    match l with
    | [] => [x]
    | y :: tl => if leb x y then x :: l else y :: ins x tl
    end.
  Definition isort (l : list A) : list A := fold_right ins [] l.
End ISort.

Inductive Forall3 {A B C} (R : A -> B -> C -> Prop) : list A -> list B -> list C -> Prop :=
| F3_nil : Forall3 R [] [] []
| F3_cons a b c la lb lc : R a b c -> Forall3 R la lb lc -> Forall3 R (a :: la) (b :: lb) (c :: lc).

(* [same_abs t v1 v2]: v1 and v2 are two in-memory values of type t that denote
   the same abstract value: equal except for the order of the members of SET OF
   lists, at any depth.  (The other representation changes of the property text —
   INTEGER leading octets, DEFAULT, BIT STRING unused bits — do not exist in the
   model's value algebra: VInt carries the abstract integer.) *)
Inductive same_abs : ty -> val -> val -> Prop :=
| SA_refl t v : same_abs t v v
| SA_seq tg ms vs1 vs2 : Forall3 same_abs ms vs1 vs2 -> same_abs (TSeq tg ms) (VSeq vs1) (VSeq vs2)
| SA_seqof tg s e l1 l2 : Forall2 (same_abs e) l1 l2 -> same_abs (TSeqOf tg s e) (VList l1) (VList l2)
| SA_setof tg s e l1 l1' l2 : Permutation l1 l1' -> Forall2 (same_abs e) l1' l2 ->
                             same_abs (TSetOf tg s e) (VList l1) (VList l2)
| SA_choice alts i a v1 v2 : nth_error alts i = Some a -> same_abs a v1 v2 ->
                             same_abs (TChoice alts) (VChoice i v1) (VChoice i v2)
| SA_tag tg t v1 v2 : same_abs t v1 v2 -> same_abs (TTag tg t) v1 v2
| SA_opt t v1 v2 : same_abs t v1 v2 -> same_abs (TOpt t) (VSome v1) (VSome v2).

(* The CUPER sort key of a SET OF member is its encoding padded with zero bits
   to whole octets (SET_OF__encode_sorted: buffer + bits_unused; _el_buf_cmp
   compares the padded octets and their number, not bits_unused).  The key is
   not injective on arbitrary bit strings ("1" and "10" have the key 80); it is
   on the encodings of the values of one type whenever that type's encoding is
   prefix-free, which is the hypothesis [setof_keys_ok] at every SET OF. *)
Definition key_injective (std : bool) (e : ty) : Prop :=
  forall v1 v2 b1 b2, uper std e v1 = Some b1 -> uper std e v2 = Some b2 ->
                      pad_key b1 = pad_key b2 -> b1 = b2.

Fixpoint setof_keys_ok (std : bool) (t : ty) {struct t} : Prop :=
  match t with
  | TBool _ | TNull _ | TInt _ _ | TOct _ _ => True
  | TSeq _ ms => (fix go (l : list ty) : Prop := match l with [] => True | m :: r => setof_keys_ok std m /\ go r end) ms
  | TSeqOf _ _ e => setof_keys_ok std e
  | TSetOf _ _ e => key_injective std e /\ setof_keys_ok std e
  | TChoice alts => (fix go (l : list ty) : Prop := match l with [] => True | m :: r => setof_keys_ok std m /\ go r end) alts
  | TTag _ t' => setof_keys_ok std t'
  | TOpt t' => setof_keys_ok std t'
  end.

(* a syntactic class of member types all of whose UPER encodings have the same number of
   bits (BOOLEAN, NULL, INTEGER with both bounds and no extension marker, SEQUENCEs of
   such without OPTIONAL members, EXPLICIT tags): for them [key_injective] is proved
   (CanonicalProofs.fixed_bits_key_injective) *)
Fixpoint fixed_bits (t : ty) {struct t} : option nat :=
  match t with
  | TBool _ => Some 1%nat
  | TNull _ => Some 0%nat
  | TInt _ (ICon (Some l) (Some h) false) => Some (range_bits (h - l + 1))
  | TSeq _ ms =>
      (fix go (l : list ty) : option nat :=
         match l with
         | [] => Some 0%nat
         | m :: r => match (if is_opt m then None else fixed_bits m), go r with
                     | Some a, Some b => Some (a + b)%nat
                     | _, _ => None
                     end
         end) ms
  | TTag _ t' => fixed_bits t'
  | _ => None
  end.

