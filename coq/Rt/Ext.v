(* Rt/Ext.v — the extensibility layer over the codec model: an extensible
   SEQUENCE { root..., ..., additions... } and an extensible CHOICE
   { root..., ..., extension alternatives... } whose components are types of the
   base algebra (Rt/Types.v).  Executable model only; proofs in ExtProofs.v.

   What is modelled is what the C does (constr_SEQUENCE.c, constr_SEQUENCE_oer.c,
   constr_CHOICE.c, constr_CHOICE_oer.c, per_opentype.c, per_support.c,
   oer_support.c, oer_decoder.c).  The flag [std] is the one of the base codec
   model (Rt/Uper.v) and is only handed down to the components:
     std = false : the C (semi-constrained INTEGER, CHOICE index of the base layer);
     std = true  : X.691 (08/2015).
   The framing of the extensions itself (X.691 clauses 11.2, 11.6, 11.9, 19, 23 /
   X.696 clauses 16, 20, 30) has one reading: since the repairs of
   uper_put_nslength, uper_put_nsnnwn (leading 1 bit above 64 additions / above
   extension alternative index 63), uper_open_type_skip (unknown additions of
   any size, not only 3n octets) and oer_open_type_skip (the contents is skipped,
   not only its length determinant) the C is the standard here.
   asn1c makes every extension addition an omissible member (EM_OMITABLE), and
   flattens version brackets [[ ]] into separate additions; an addition is
   therefore a plain type here and its value is VNone / VSome v.
   Extensible types nested inside other types are outside this layer (the base
   [ty] cannot carry them). *)
From Coq Require Import ZArith List Bool.
From A1 Require Import Base.Bytes Leaf.IntegerConv Leaf.BerTL Rt.Types Rt.Comb Rt.Der Rt.Uper Rt.Oer.
Import ListNotations.
Local Open Scope Z_scope.

Inductive ety :=
| ESeq (tg : Z) (root : list ty) (adds : list ty)
| EChoice (root : list ty) (exts : list ty).

(* EVSeq: one value per root member (VNone/VSome for OPTIONAL ones), one VNone/VSome
   per addition.  EVAlt i v: alternative i of root ++ exts. *)
Inductive eval :=
| EVSeq (rvs : list val) (avs : list val)
| EVAlt (i : nat) (v : val).

Definition is_present (v : val) : bool := match v with VNone => false | _ => true end.
Definition absent_all (ts : list ty) : list val := map (fun _ => VNone) ts.

(* ---------------- shared loops ---------------- *)

(* the present additions, each encoded by [enc] and wrapped as an open type *)
Definition enc_additions {B} (enc : ty -> val -> option (list Z)) (wrap : list Z -> list B)
  : list ty -> list val -> option (list B) :=
  fix go ts vs :=
    match ts, vs with
    | [], [] => Some []
    | t :: ts', v :: vs' =>
        match v with
        | VNone => go ts' vs'
        | VSome v' =>
            match enc t v', go ts' vs' with
            | Some c, Some r => Some (wrap c ++ r)
            | _, _ => None
            end
        | _ => None
        end
    | _, _ => None
    end.

(* unknown additions: one skip per set bit of what is left of the bitmap *)
Definition skip_rest {St} (skip : St -> option St) : list bool -> St -> option St :=
  fix go bm s :=
    match bm with
    | [] => Some s
    | false :: bm' => go bm' s
    | true :: bm' => match skip s with Some r => go bm' r | None => None end
    end.

(* the additions this type knows, driven by the presence bitmap of the sender:
   a bitmap shorter than the list leaves the rest absent, a longer one is skipped *)
Definition dec_additions {St} (get : ty -> St -> option (val * St)) (skip : St -> option St)
  : list ty -> list bool -> St -> option (list val * St) :=
  fix go ts bm s :=
    match ts with
    | [] => match skip_rest skip bm s with Some r => Some ([], r) | None => None end
    | t :: ts' =>
        match bm with
        | [] => Some (absent_all ts, s)
        | false :: bm' =>
            match go ts' bm' s with
            | Some (vs, r) => Some (VNone :: vs, r)
            | None => None
            end
        | true :: bm' =>
            match get t s with
            | Some (v, r) =>
                match go ts' bm' r with
                | Some (vs, r') => Some (VSome v :: vs, r')
                | None => None
                end
            | None => None
            end
        end
    end.

(* ---------------- DER / BER ---------------- *)

(* X.690: extension additions are further (omissible) members, in the order written *)
Definition ext_seq_ty (tg : Z) (root adds : list ty) : ty := TSeq tg (root ++ map TOpt adds).

Definition ext_der (t : ety) (v : eval) : option (list Z) :=
  match t, v with
  | ESeq tg root adds, EVSeq rvs avs =>
      if (length rvs =? length root)%nat then der (ext_seq_ty tg root adds) (VSeq (rvs ++ avs)) else None
  | EChoice root exts, EVAlt i v' => der (TChoice (root ++ exts)) (VChoice i v')
  | _, _ => None
  end.

(* any definite-length TLV (ber_skip_length on what DER produces) *)
Definition skip_tlv (bs : list Z) : option (unit * list Z) :=
  match tlv_open bs with
  | Some (_, _, len, rest) =>
      if (0 <=? len) && (len <=? zlen rest) then Some (tt, skipn (Z.to_nat len) rest) else None
  | None => None
  end.

Definition ext_ber_dec (t : ety) (bs : list Z) : option (eval * list Z) :=
  match t with
  | ESeq tg root adds =>
      in_cons tg bs (fun c =>
        match dec_members ber_dec (root ++ map TOpt adds) c with
        | Some (vs, r) =>
            (* SEQUENCE_decode_ber phase 3: what an extensible type does not know is skipped *)
            match dec_until skip_tlv at_end (S (length r)) r with
            | Some (_, r') => Some (EVSeq (firstn (length root) vs) (skipn (length root) vs), r')
            | None => None
            end
        | None => None
        end)
  | EChoice root exts =>
      match ber_dec (TChoice (root ++ exts)) bs with
      | Some (VChoice i v, r) => Some (EVAlt i v, r)
      | _ => None
      end
  end.

Definition ext_ber_decode (t : ety) (bs : list Z) : option (eval * Z) :=
  match ext_ber_dec t bs with
  | Some (v, rest) => Some (v, zlen bs - zlen rest)
  | None => None
  end.

(* ---------------- unaligned PER ---------------- *)

(* X.691 11.9.3.4 normally small length (uper_put_nslength) *)
Definition nslength (n : Z) : option (list bool) :=
  if n <=? 0 then None
  else if n <=? 64 then Some (nbits 7 (n - 1))
  else if n <=? 127 then Some ([true] ++ nbits 8 n)
  else if n <? 16384 then Some ([true] ++ nbits 16 (n + 32768))
  else None.

Definition get_nslength (bs : list bool) : option (Z * list bool) :=
  match bs with
  | false :: r => match get_bits 6 r with Some (n, r') => Some (n + 1, r') | None => None end
  | true :: r => match get_length r with Some (n, false, r') => Some (n, r') | _ => None end
  | [] => None
  end.

(* X.691 11.6 normally small non-negative whole number (uper_put_nsnnwn) *)
Definition nsnnwn (n : Z) : option (list bool) :=
  if n <? 0 then None
  else if n <=? 63 then Some (nbits 7 n)
  else
    let k := if n <? 256 then 1 else if n <? 65536 then 2 else if n <? 16777216 then 3 else 0 in
    if k =? 0 then None
    else Some ([true] ++ nbits 8 k ++ nbits (Z.to_nat (8 * k)) n).

Definition get_nsnnwn (bs : list bool) : option (Z * list bool) :=
  match bs with
  | false :: r => get_bits 6 r
  | true :: r =>
      match get_bits 8 r with
      | Some (l, r') =>
          if l =? 0 then Some (0, r')
          else if l <? 3 then get_bits (Z.to_nat (8 * l)) r'
          else None
      | None => None
      end
  | [] => None
  end.

(* X.691 11.2 open type: the complete encoding (whole octets, at least one) behind a
   general length determinant, fragmented per 11.9.3.8 (uper_open_type_put) *)
Definition open_type (content : list Z) : list bool := counted (map byte_bits content).

Definition get_open_bytes (bs : list bool) : option (list Z * list bool) :=
  get_counted get_octet (S (length bs)) bs.

(* uper_open_type_get_simple: at most 7 zero padding bits, or the one-octet
   encoding 00 of an empty bit string *)
Definition uper_open_get (std : bool) (t : ty) (bs : list bool) : option (val * list bool) :=
  match get_open_bytes bs with
  | Some (buf, r) =>
      match uper_dec std t (bytes_bits buf) with
      | Some (v, pad) =>
          if ((zlen pad <? 8) || ((zlen pad =? 8) && (zlen buf =? 1))) && forallb negb pad
          then Some (v, r) else None
      | None => None
      end
  | None => None
  end.

(* uper_open_type_skip: uper_sot_suck consumes the whole contents (24 bits at a
   time, then the one or two octets left), whatever its size *)
Definition uper_open_skip (bs : list bool) : option (list bool) :=
  match get_open_bytes bs with
  | Some (_, r) => Some r
  | None => None
  end.

Definition ext_uper (std : bool) (t : ety) (v : eval) : option (list bool) :=
  match t, v with
  | ESeq _ root adds, EVSeq rvs avs =>
      match enc_members (uper std) root rvs, enc_additions (uper_encode std) open_type adds avs with
      | Some body, Some ots =>
          if existsb is_present avs then
            match nslength (zlen adds) with
            | Some nl => Some ([true] ++ presence_bits root rvs ++ body ++ nl ++ map is_present avs ++ ots)
            | None => None
            end
          else Some ([false] ++ presence_bits root rvs ++ body)
      | _, _ => None
      end
  | EChoice root exts, EVAlt i v' =>
      if (i <? length root)%nat then
        match enc_alt (uper std) v' root i with
        | Some body => Some ([false] ++ nbits (range_bits (zlen root)) (choice_index (cstd std) root i) ++ body)
        | None => None
        end
      else
        let j := (i - length root)%nat in
        match enc_alt (uper_encode std) v' exts j, nsnnwn (choice_index (cstd std) exts j) with
        | Some c, Some ix => Some ([true] ++ ix ++ open_type c)
        | _, _ => None
        end
  | _, _ => None
  end.

Definition ext_uper_encode (std : bool) (t : ety) (v : eval) : option (list Z) :=
  match ext_uper std t v with
  | Some [] => Some [0]
  | Some bits => Some (bits_to_bytes bits)
  | None => None
  end.

Definition ext_uper_dec (std : bool) (t : ety) (bs : list bool) : option (eval * list bool) :=
  match t with
  | ESeq _ root adds =>
      match bs with
      | e :: r0 =>
          match take_bits (length (filter is_opt root)) r0 with
          | Some (pres, r1) =>
              match dec_members_pres (uper_dec std) root pres r1 with
              | Some (rvs, r2) =>
                  if e then
                    match get_nslength r2 with
                    | Some (n, r3) =>
                        match take_bits (Z.to_nat n) r3 with
                        | Some (bm, r4) =>
                            match dec_additions (uper_open_get std) uper_open_skip adds bm r4 with
                            | Some (avs, r5) => Some (EVSeq rvs avs, r5)
                            | None => None
                            end
                        | None => None
                        end
                    | None => None
                    end
                  else Some (EVSeq rvs (absent_all adds), r2)
              | None => None
              end
          | None => None
          end
      | [] => None
      end
  | EChoice root exts =>
      match bs with
      | false :: r =>
          match get_bits (range_bits (zlen root)) r with
          | Some (idx, r') =>
              if idx <=? zlen root - 1 then
                match dec_alt (uper_dec std) (fun i _ => choice_index (cstd std) root i =? idx) r' root O with
                | Some (VChoice i v, r'') => Some (EVAlt i v, r'')
                | _ => None
                end
              else None
          | None => None
          end
      | true :: r =>
          match get_nsnnwn r with
          | Some (idx, r') =>
              match dec_alt (uper_open_get std)
                      (fun i _ => choice_index (cstd std) exts (i - length root) =? idx) r' exts (length root) with
              | Some (VChoice i v, r'') => Some (EVAlt i v, r'')
              | _ => None
              end
          | None => None
          end
      | [] => None
      end
  end.

Definition ext_uper_decode (std : bool) (t : ety) (bytes : list Z) : option (eval * Z) :=
  match ext_uper_dec std t (bytes_bits bytes) with
  | Some (v, rest) =>
      let used := zlen (bytes_bits bytes) - zlen rest in
      Some (v, Z.max 1 ((used + 7) / 8))
  | None => None
  end.

(* ---------------- OER ---------------- *)

(* X.696 30: open type = length determinant + the encoding (oer_open_type_put) *)
Definition oer_open (c : list Z) : list Z := oer_length (zlen c) ++ c.

(* X.696 16.4: the presence bitmap as a BIT STRING: length, unused-bits octet, bits.
   SEQUENCE_encode_oer writes the length as a single octet (asserts <= 127) *)
Definition unused_bits (n : Z) : Z := (8 - n mod 8) mod 8.

Definition oer_ext_bitmap (pres : list bool) : option (list Z) :=
  let n := zlen pres in
  let nb := (n + 7) / 8 in
  if 1 + nb <=? 127 then Some ([1 + nb; unused_bits n] ++ bits_to_bytes pres) else None.

Definition ext_oer (t : ety) (v : eval) : option (list Z) :=
  match t, v with
  | ESeq _ root adds, EVSeq rvs avs =>
      match enc_members oer root rvs, enc_additions oer oer_open adds avs with
      | Some body, Some ots =>
          let any := existsb is_present avs in
          let pre := bits_to_bytes (any :: presence_bits root rvs) in
          if any then
            match oer_ext_bitmap (map is_present avs) with
            | Some bm => Some (pre ++ body ++ bm ++ ots)
            | None => None
            end
          else Some (pre ++ body)
      | _, _ => None
      end
  | EChoice root exts, EVAlt i v' =>
      let all := root ++ exts in
      match enc_alt oer v' all i with
      | Some body =>
          Some (oer_tag (outmost_tag (TChoice all) (VChoice i v')) ++
                (if (i <? length root)%nat then body else oer_open body))
      | None => None
      end
  | _, _ => None
  end.

(* oer_fetch_length: short form, or long form with any number of leading zero
   octets (even nothing but zeros: length 0), at most sizeof(size_t) significant
   octets and a value up to RSIZE_MAX *)
Fixpoint drop_zeros (bs : list Z) : list Z :=
  match bs with
  | b :: tl => if b =? 0 then drop_zeros tl else bs
  | [] => []
  end.

Definition rsize_max : Z := 9223372036854775807.

Definition oer_fetch_length (bs : list Z) : option (Z * list Z) :=
  match bs with
  | [] => None
  | b :: r =>
      if b <? 128 then Some (b, r)
      else match take (b - 128) r with
           | Some (os, r') =>
               if 8 <? zlen (drop_zeros os) then None
               else if rsize_max <? be_val os then None
               else Some (be_val os, r')
           | None => None
           end
  end.

(* oer_open_type_get: the contents are handed to the member decoder; what it leaves
   inside the container is ignored *)
Definition oer_open_get (t : ty) (bs : list Z) : option (val * list Z) :=
  match oer_fetch_length bs with
  | Some (n, r) =>
      match take n r with
      | Some (c, r') => match oer_dec t c with Some (v, _) => Some (v, r') | None => None end
      | None => None
      end
  | None => None
  end.

(* oer_open_type_skip: the length determinant and that many octets *)
Definition oer_open_skip (bs : list Z) : option (list Z) :=
  match oer_fetch_length bs with
  | Some (n, r) => match take n r with Some (_, r') => Some r' | None => None end
  | None => None
  end.

Definition ext_oer_dec (t : ety) (bs : list Z) : option (eval * list Z) :=
  match t with
  | ESeq _ root adds =>
      let nopt := length (filter is_opt root) in
      match take (Z.of_nat ((S nopt + 7) / 8)) bs with
      | Some (pb, r0) =>
          match take_bits (S nopt) (bytes_bits pb) with
          | Some (e :: pres, _) =>
              match dec_members_pres oer_dec root pres r0 with
              | Some (rvs, r1) =>
                  if e then
                    match oer_fetch_length r1 with
                    | Some (len, r2) =>
                        match take len r2 with
                        | Some (u :: bmo, r3) =>
                            (* SEQUENCE_decode_oer masks the unused-bits octet with 7 *)
                            let unused := u mod 8 in
                            if (0 <? unused) && (zlen bmo =? 0) then None
                            else
                              match take_bits (Z.to_nat (8 * zlen bmo - unused)) (bytes_bits bmo) with
                              | Some (bm, _) =>
                                  match dec_additions oer_open_get oer_open_skip adds bm r3 with
                                  | Some (avs, r4) => Some (EVSeq rvs avs, r4)
                                  | None => None
                                  end
                              | None => None
                              end
                        | _ => None
                        end
                    | None => None
                    end
                  else Some (EVSeq rvs (absent_all adds), r1)
              | None => None
              end
          | _ => None
          end
      | None => None
      end
  | EChoice root exts =>
      match oer_get_tag bs with
      | Some (tg, r) =>
          let sel := fun (_ : nat) (a : ty) => tag_in tg (first_tags a) in
          if existsb (sel O) root then
            match dec_alt oer_dec sel r root O with
            | Some (VChoice i v, r') => Some (EVAlt i v, r')
            | _ => None
            end
          else
            match dec_alt oer_open_get sel r exts (length root) with
            | Some (VChoice i v, r') => Some (EVAlt i v, r')
            | _ => None
            end
      | None => None
      end
  end.

Definition ext_oer_decode (t : ety) (bs : list Z) : option (eval * Z) :=
  match ext_oer_dec t bs with
  | Some (v, rest) => Some (v, zlen bs - zlen rest)
  | None => None
  end.

(* ---------------- format specifications (C02) ---------------- *)

(* X.691 11.9.3.5-8: the sizes of the fragments a contents of n octets is cut into:
   m * 16K (1 <= m <= 4) while at least 16K are left, then one fragment below 16K
   (possibly empty: 11.9.3.8.3) *)
Fixpoint fragments (fuel : nat) (n : Z) : list Z :=
  match fuel with
  | O => []
  | S f =>
      if n <? 16384 then [n]
      else let m := Z.min (n / 16384) 4 in m * 16384 :: fragments f (n - m * 16384)
  end.

Definition frag_header (k : Z) : list bool :=
  if k <=? 127 then nbits 8 k
  else if k <? 16384 then nbits 16 (k + 32768)
  else nbits 8 (192 + k / 16384).

Fixpoint emit_frags (sizes : list Z) (content : list Z) : list bool :=
  match sizes with
  | [] => []
  | k :: tl =>
      frag_header k ++ bytes_bits (firstn (Z.to_nat k) content) ++ emit_frags tl (skipn (Z.to_nat k) content)
  end.

(* the open type as X.691 words it *)
Definition open_type_spec (content : list Z) : list bool :=
  emit_frags (fragments (S (length content)) (zlen content)) content.

(* the truncation of a type / value to the first k additions or extension alternatives *)
Definition truncate_ty (k : nat) (t : ety) : ety :=
  match t with
  | ESeq tg root adds => ESeq tg root (firstn k adds)
  | EChoice root exts => EChoice root (firstn k exts)
  end.

Definition truncate_val (k : nat) (v : eval) : eval :=
  match v with
  | EVSeq rvs avs => EVSeq rvs (firstn k avs)
  | EVAlt i v' => EVAlt i v'
  end.
