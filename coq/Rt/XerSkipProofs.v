(* XerSkipProofs.v — the skip machine of the XER decoders consumes exactly the subtree of an unknown element,
   whatever names occur inside it (induction over XML trees); the name-sensitive variant does not. *)
From Coq Require Import ZArith List Bool Lia.
From A1 Require Import Rt.SafetySkip Rt.XerSkip.
Import ListNotations.
Local Open Scope Z_scope.

(* ---- nested induction over trees *)
Section XtreeInd.
  Variable P : xtree -> Prop.
  Hypothesis HE : forall n, P (XEmpty n).
  Hypothesis HT : P XText.
  Hypothesis HN : forall n kids, Forall P kids -> P (XNode n kids).
  Fixpoint xtree_ind' (t : xtree) : P t :=
    match t with
    | XEmpty n => HE n
    | XText => HT
    | XNode n kids =>
        HN n kids ((fix go (l : list xtree) : Forall P l :=
                      match l with
                      | [] => Forall_nil _
                      | x :: tl => Forall_cons _ (xtree_ind' x) (go tl)
                      end) kids)
    end.
End XtreeInd.

(* ---- unfolding lemmas *)
Lemma flatf_nil : flatf [] = [].
Proof. reflexivity. Qed.
Lemma flatf_cons t tl : flatf (t :: tl) = flat t ++ flatf tl.
Proof. reflexivity. Qed.
Lemma flat_node n kids : flat (XNode n kids) = TOpen n :: flatf kids ++ [TClose n].
Proof. reflexivity. Qed.

Lemma ntags_app a b : ntags (a ++ b) = (ntags a + ntags b)%nat.
Proof. unfold ntags. rewrite filter_app, app_length. reflexivity. Qed.
Lemma ntags_cons_tag t l : is_tag t = true -> ntags (t :: l) = S (ntags l).
Proof. intros H. unfold ntags. cbn [filter]. rewrite H. reflexivity. Qed.

Lemma run_text sk N tl d a b : skip_run_g sk N (TText :: tl) d a b = skip_run_g sk N tl d a (S b).
Proof. reflexivity. Qed.

Lemma run_tag0 sk N t c tl d d' a b :
  classify N t = Some c -> sk c d = (0, d') ->
  skip_run_g sk N (t :: tl) d a b = skip_run_g sk N tl d' (S a) (S b).
Proof. intros H1 H2. cbn [skip_run_g]. rewrite H1, H2. reflexivity. Qed.

Lemma run_tag_stop sk N t c tl d r d' a b :
  classify N t = Some c -> sk c d = (r, d') -> r <> 0 ->
  skip_run_g sk N (t :: tl) d a b = (r, d', S a, if r =? 1 then S b else b).
Proof.
  intros H1 H2 H3. cbn [skip_run_g]. rewrite H1, H2.
  destruct (r =? 0) eqn:E; [apply Z.eqb_eq in E; contradiction|reflexivity].
Qed.

(* ---- what xer_skip_unknown answers on the tags of a well-formed subtree (either name class) *)
Lemma step_open N n d : exists c, classify N (TOpen n) = Some c /\ xer_skip c d = (0, d + 1).
Proof. cbn [classify]. destruct (n =? N); eexists; split; reflexivity. Qed.

Lemma step_both N n d : exists c, classify N (TBoth n) = Some c /\ xer_skip c d = (0, d).
Proof. cbn [classify]. destruct (n =? N); eexists; split; reflexivity. Qed.

Lemma step_close_inner N n d : 0 < d -> exists c, classify N (TClose n) = Some c /\ xer_skip c (d + 1) = (0, d).
Proof.
  intros Hd. cbn [classify].
  assert (E : (d + 1 - 1 =? 0) = false) by (apply Z.eqb_neq; lia).
  destruct (n =? N); eexists; (split; [reflexivity|]); cbn [xer_skip]; rewrite E; f_equal; lia.
Qed.

Lemma step_close_last N n : exists c, classify N (TClose n) = Some c /\ xer_skip c 1 = (1, 0).
Proof. cbn [classify]. destruct (n =? N); eexists; split; reflexivity. Qed.

(* ---- a subtree leaves the depth counter where it was and never ends the skip *)
Definition neutral (N : Z) (toks : list xtok) : Prop :=
  forall rest d a b, 0 < d ->
    skip_run N (toks ++ rest) d a b = skip_run N rest d (ntags toks + a)%nat (length toks + b)%nat.

Lemma neutral_nil N : neutral N [].
Proof. intros rest d a b _. reflexivity. Qed.

Lemma neutral_app N x y : neutral N x -> neutral N y -> neutral N (x ++ y).
Proof.
  intros Hx Hy rest d a b Hd. rewrite <- app_assoc, Hx, Hy by assumption.
  rewrite ntags_app, app_length. f_equal; lia.
Qed.

Lemma tree_neutral N : forall t, neutral N (flat t).
Proof.
  induction t as [n| |n kids IH] using xtree_ind'.
  - intros rest d a b Hd. cbn [flat app]. destruct (step_both N n d) as (c & Hc & Hs).
    unfold skip_run. rewrite (run_tag0 _ _ _ _ _ _ _ _ _ Hc Hs). reflexivity.
  - intros rest d a b Hd. cbn [flat app]. unfold skip_run. rewrite run_text. reflexivity.
  - assert (Hk : neutral N (flatf kids)).
    { induction IH as [|x l Hx _ IHl]; [apply neutral_nil|]. rewrite flatf_cons. apply neutral_app; assumption. }
    intros rest d a b Hd. rewrite flat_node. cbn [app].
    destruct (step_open N n d) as (c & Hc & Hs).
    unfold skip_run. rewrite (run_tag0 _ _ _ _ _ _ _ _ _ Hc Hs).
    rewrite <- app_assoc. fold (skip_run N). rewrite Hk by lia. cbn [app].
    destruct (step_close_inner N n d Hd) as (c2 & Hc2 & Hs2).
    unfold skip_run. rewrite (run_tag0 _ _ _ _ _ _ _ _ _ Hc2 Hs2).
    rewrite (ntags_cons_tag (TOpen n)) by reflexivity. rewrite ntags_app, (ntags_cons_tag (TClose n)) by reflexivity.
    cbn [length]. rewrite app_length. cbn [length]. f_equal; unfold ntags; cbn [filter length]; lia.
Qed.

Lemma forest_neutral N : forall f, neutral N (flatf f).
Proof.
  induction f as [|t tl IH]; [apply neutral_nil|]. rewrite flatf_cons. apply neutral_app; [apply tree_neutral|exact IH].
Qed.

(* ---- completeness: started behind the opening tag of an unknown element <n>, the machine stops exactly at that
   element's closing tag with depth 0 and answer 1, for EVERY content and EVERY name n - the element's own name
   included, which may be the name N of the element being decoded *)
Theorem skip_complete : forall N n kids rest,
  skip_run N (flatf kids ++ TClose n :: rest) 1 0%nat 0%nat =
  (1, 0, S (ntags (flatf kids)), (1 + length (flatf kids))%nat).
Proof.
  intros N n kids rest. rewrite forest_neutral by lia.
  destruct (step_close_last N n) as (c & Hc & Hs).
  unfold skip_run. rewrite (run_tag_stop _ _ _ _ _ _ _ _ _ _ Hc Hs) by discriminate.
  cbn [Z.eqb Pos.eqb]. f_equal; try (f_equal; lia); lia.
Qed.

(* the same in words of the C: the tokens consumed are the children and (the caller advances: answer 1) the
   closing tag: together with the opening tag the caller consumed before, the whole element [XNode n kids] *)
Corollary skip_consumes_element : forall N n kids rest,
  skip_run N (flatf kids ++ TClose n :: rest) 1 0%nat 0%nat =
  (1, 0, S (ntags (flatf kids)), (length (flat (XNode n kids)) - 1)%nat).
Proof.
  intros N n kids rest. rewrite skip_complete.
  rewrite flat_node. cbn [length]. rewrite app_length. cbn [length]. f_equal. lia.
Qed.

(* two subtrees of the same shape are skipped alike, whatever their names (the roots' names too): the answer
   depends on the numbers of tags and tokens only *)
Corollary skip_names_irrelevant : forall N n1 n2 kids1 kids2 rest1 rest2,
  ntags (flatf kids1) = ntags (flatf kids2) -> length (flatf kids1) = length (flatf kids2) ->
  skip_run N (flatf kids1 ++ TClose n1 :: rest1) 1 0%nat 0%nat =
  skip_run N (flatf kids2 ++ TClose n2 :: rest2) 1 0%nat 0%nat.
Proof. intros. rewrite !skip_complete. congruence. Qed.

(* ---- the name-sensitive variant (seeded/C03-9) is NOT complete: enclosing element 0, unknown <1><0>text</0></1> *)
Theorem skip_seed_refuted : exists N n kids rest, n <> N /\
  skip_run_seed N (flatf kids ++ TClose n :: rest) 1 0%nat 0%nat <>
  (1, 0, S (ntags (flatf kids)), (length (flat (XNode n kids)) - 1)%nat).
Proof.
  exists 0, 1, [XNode 0 [XText]], [TClose 0]. split; [lia|]. vm_compute. discriminate.
Qed.

(* ---- the whole extensions section (phases 1 and 3 of SEQUENCE / SET) *)
Lemma ext_text sk N kn tl ph k : ext_run_g sk N kn (TText :: tl) ph k = ext_run_g sk N kn tl ph (S k).
Proof. reflexivity. Qed.

Lemma ext3_tag0 sk N kn t c tl d d' k :
  classify N t = Some c -> sk c d = (0, d') ->
  ext_run_g sk N kn (t :: tl) (Ph3 d) k = ext_run_g sk N kn tl (Ph3 d') (S k).
Proof. intros H1 H2. cbn [ext_run_g]. rewrite H1, H2. reflexivity. Qed.

Definition neutral3 (N : Z) (kn : Z -> bool) (toks : list xtok) : Prop :=
  forall rest d k, 0 < d ->
    ext_run N kn (toks ++ rest) (Ph3 d) k = ext_run N kn rest (Ph3 d) (length toks + k)%nat.

Lemma neutral3_app N kn x y : neutral3 N kn x -> neutral3 N kn y -> neutral3 N kn (x ++ y).
Proof.
  intros Hx Hy rest d k Hd. rewrite <- app_assoc, Hx, Hy by assumption. rewrite app_length. f_equal. lia.
Qed.

Lemma tree_neutral3 N kn : forall t, neutral3 N kn (flat t).
Proof.
  induction t as [n| |n kids IH] using xtree_ind'.
  - intros rest d k Hd. cbn [flat app]. destruct (step_both N n d) as (c & Hc & Hs).
    unfold ext_run. rewrite (ext3_tag0 _ _ _ _ _ _ _ _ _ Hc Hs). reflexivity.
  - intros rest d k Hd. cbn [flat app]. unfold ext_run. rewrite ext_text. reflexivity.
  - assert (Hk : neutral3 N kn (flatf kids)).
    { induction IH as [|x l Hx _ IHl]; [intros rest d k _; reflexivity|]. rewrite flatf_cons. apply neutral3_app; assumption. }
    intros rest d k Hd. rewrite flat_node. cbn [app].
    destruct (step_open N n d) as (c & Hc & Hs).
    unfold ext_run. rewrite (ext3_tag0 _ _ _ _ _ _ _ _ _ Hc Hs).
    rewrite <- app_assoc. fold (ext_run N kn). rewrite Hk by lia. cbn [app].
    destruct (step_close_inner N n d Hd) as (c2 & Hc2 & Hs2).
    unfold ext_run. rewrite (ext3_tag0 _ _ _ _ _ _ _ _ _ Hc2 Hs2).
    cbn [length]. rewrite app_length. cbn [length]. f_equal. lia.
Qed.

Lemma forest_neutral3 N kn : forall f, neutral3 N kn (flatf f).
Proof.
  induction f as [|t tl IH]; [intros rest d k _; reflexivity|]. rewrite flatf_cons. apply neutral3_app; [apply tree_neutral3|exact IH].
Qed.

(* one unknown addition in phase 1: consumed as a whole, back in phase 1 *)
Lemma ext_addition N kn t rest k :
  root_unknown kn t = true ->
  ext_run N kn (flat t ++ rest) Ph1 k = ext_run N kn rest Ph1 (length (flat t) + k)%nat.
Proof.
  intros Hu. destruct t as [n| |n kids].
  - cbn [flat app]. unfold root_unknown in Hu. cbn [root_name] in Hu. apply negb_true_iff in Hu.
    unfold ext_run. cbn [ext_run_g classify]. rewrite Hu. reflexivity.
  - cbn [flat app]. unfold ext_run. rewrite ext_text. reflexivity.
  - unfold root_unknown in Hu. cbn [root_name] in Hu. apply negb_true_iff in Hu.
    rewrite flat_node. cbn [app]. unfold ext_run. cbn [ext_run_g classify]. rewrite Hu.
    rewrite <- app_assoc. fold (ext_run N kn). rewrite forest_neutral3 by lia. cbn [app].
    unfold ext_run. cbn [ext_run_g classify].
    assert (Hs : forall c, (c = XClosing \/ c = XUnkClosing) -> xer_skip c 1 = (1, 0))
      by (intros c [-> | ->]; reflexivity).
    rewrite (Hs (if n =? N then XClosing else XUnkClosing)) by (destruct (n =? N); auto).
    cbn [Z.eqb Pos.eqb].
    cbn [length]. rewrite app_length. cbn [length]. f_equal. lia.
Qed.

(* any number of unknown additions with arbitrary subtrees and arbitrary names (not a known member's), then the
   closing tag of the element being decoded: RC_OK, everything consumed *)
Theorem ext_section_complete : forall N kn f rest k,
  forallb (root_unknown kn) f = true ->
  ext_run N kn (flatf f ++ TClose N :: rest) Ph1 k = XDone (length (flatf f) + 1 + k)%nat.
Proof.
  intros N kn f. induction f as [|t tl IH]; intros rest k Hu.
  - cbn [flatf flat_all app]. unfold ext_run. cbn [ext_run_g classify]. rewrite Z.eqb_refl. f_equal.
  - cbn [forallb] in Hu. apply andb_true_iff in Hu. destruct Hu as [Hu1 Hu2].
    rewrite flatf_cons, <- app_assoc, ext_addition by assumption. rewrite IH by assumption.
    rewrite app_length. f_equal. lia.
Qed.

(* in particular an addition that carries the name of the element it is in (X.680 allows it) is skipped like any
   other: the document of the former finding C03-xer-unknown-addition-named-like-enclosing, <0><0>text</0></0> *)
Theorem ext_section_own_name : forall N kids rest,
  ext_run N (fun _ => false) (flat (XNode N kids) ++ TClose N :: rest) Ph1 0%nat =
  XDone (length (flat (XNode N kids)) + 1)%nat.
Proof.
  intros N kids rest. pose proof (ext_section_complete N (fun _ => false) [XNode N kids] rest 0%nat eq_refl) as H.
  rewrite flatf_cons, flatf_nil, app_nil_r in H. rewrite H. f_equal. lia.
Qed.
