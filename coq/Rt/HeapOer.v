(* Rt/HeapOer.v — C15: WHEN the OER decoder of nested SEQUENCE OF / SET OF allocates.
   Executable definitions only (proofs: HeapOerProofs.v).

   Rt/HeapBound.v meters ONE list (UPER).  The bomb guard of SET_OF_decode_oer is a
   decision that only shows its worth when lists NEST: OER hands the whole rest of
   the buffer to every nested decoder, so "the announced quantity is covered by the
   octets that are left" holds for every inner list again and again, while
   "more than 200 elements decoded and still no octet consumed" is paid for by
   every list separately.

   SET_OF_decode_oer (skeletons/constr_SET_OF_oer.c), statement by statement:

       st = CALLOC(1, specs->struct_size);                         <- [lhd] bytes
       len_size = oer_fetch_quantity(ptr, size, &length);          <- [fetch_qty]
          0 -> RC_WMORE;  -1 -> RC_FAIL;  ADVANCE(len_size); ctx->left = length;
       base_ptr = ptr; base_ctx_left = ctx->left;
       for(; ctx->left > 0; ctx->left--) {
           rv = element decoder(ptr, size);  ADVANCE(rv.consumed);
           RC_OK:   ASN_SET_ADD(list, elem);                       <- [set_add] of HeapBound.v
                    if(rv.consumed == 0 && base_ptr == ptr
                       && (base_ctx_left - ctx->left) > 200) FAIL; <- the per-element guard
           RC_WMORE / RC_FAIL: return it;
       }
       RC_OK

   [gpol] selects the decision the check ties to the C:
     [PerElement]  the code above;
     [UpFront]     no per-element test; instead, right after the quantity is read,
                   `if(length > 200 && length > size - len_size) RETURN(RC_WMORE)`
                   (a quantity above 200 must be covered by the octets left);
     [NoGuard]     neither.
   The leaves are the element types whose OER encoding has a fixed width of w octets
   ([LLeaf 0 4] = NULL, [LLeaf 1 4] = BOOLEAN): they check `size < w` (RC_WMORE),
   then allocate their value.  The meter is the one of HeapBound.v (= harness/moddrv_c15.inc). *)
From Coq Require Import ZArith List Bool.
From A1 Require Import Base.Bytes Rt.HeapBound.
Import ListNotations.
Local Open Scope Z_scope.

Inductive lty := LLeaf (w : nat) (esz : Z) | LList (e : lty).

Inductive gpol := PerElement | UpFront | NoGuard.
Definition is_per (g : gpol) : bool := match g with PerElement => true | _ => false end.
Definition is_upfront (g : gpol) : bool := match g with UpFront => true | _ => false end.

Inductive orc := ROk | RMore | RFail | RFuel.

(* outcome, position reached, octets consumed up to there, meter *)
Record res := mkR { r_rc : orc; r_rest : list Z; r_used : Z; r_m : meter }.

(* ---------------- oer_fetch_length / oer_fetch_quantity ---------------- *)
Definition rsize_max : Z := 9223372036854775807.      (* RSIZE_MAX = SIZE_MAX >> 1 *)

Fixpoint strip0 (bs : list Z) : list Z :=
  match bs with
  | b :: r => if b =? 0 then strip0 r else bs
  | [] => []
  end.

(* the first n octets (all of them are needed), structural on the input: no [Z.to_nat] of an announced length *)
Fixpoint take_le (n : Z) (bs : list Z) : option (list Z * list Z) :=
  match bs with
  | [] => if n <=? 0 then Some ([], []) else None
  | b :: r =>
      if n <=? 0 then Some ([], bs)
      else match take_le (n - 1) r with
           | Some (a, r') => Some (b :: a, r')
           | None => None
           end
  end.

Inductive qres := QMore | QFail | QOk (q : Z) (rest : list Z) (used : Z).

(* the unsigned number in [os]: more than sizeof(size_t) significant octets, or a value above RSIZE_MAX, is refused *)
Definition qnum (os rest : list Z) (used : Z) : qres :=
  if 8 <? zlen (strip0 os) then QFail
  else if rsize_max <? be_val os then QFail
  else QOk (be_val os) rest used.

Definition fetch_len (bs : list Z) : qres :=
  match bs with
  | [] => QMore
  | b :: r =>
      if b <? 128 then QOk b r 1
      else match take_le (b - 128) r with
           | None => QMore
           | Some (os, r') => qnum os r' (1 + zlen os)
           end
  end.

Definition fetch_qty (bs : list Z) : qres :=
  match fetch_len bs with
  | QOk len r u =>
      match take_le len r with
      | None => QMore                       (* (len_len + len) > size *)
      | Some (os, r') => qnum os r' (u + zlen os)
      end
  | q => q
  end.

(* ---------------- the decoders ---------------- *)
Definition lhd : Z := 48.        (* A_SEQUENCE_OF(x) + asn_struct_ctx_t on LP64 *)

Fixpoint has (w : nat) (bs : list Z) : bool :=
  match w, bs with
  | O, _ => true
  | S w', _ :: r => has w' r
  | S _, [] => false
  end.

Section Items.
  Variable g : gpol.
  Variable dec : list Z -> meter -> res.

  (* for(; ctx->left > 0; ctx->left--): [left] still to come, [done] = base_ctx_left - ctx->left,
     [fresh] = (base_ptr == ptr), [u] = octets this list has consumed so far *)
  Fixpoint oll_items (fuel : nat) (left done : Z) (fresh : bool) (u : Z) (bs : list Z) (m : meter) (l : lst)
    : res * lst :=
    if left <=? 0 then (mkR ROk bs u m, l)
    else
      match fuel with
      | O => (mkR RFuel bs u m, l)
      | S f =>
          let r := dec bs m in
          match r_rc r with
          | ROk =>
              let '(m2, l2) := set_add (r_m r) l in
              let fresh' := fresh && (r_used r =? 0) in
              if is_per g && fresh' && (200 <? done) then (mkR RFail (r_rest r) (u + r_used r) m2, l2)
              else oll_items f (left - 1) (done + 1) fresh' (u + r_used r) (r_rest r) m2 l2
          | rc => (mkR rc (r_rest r) (u + r_used r) (r_m r), l)
          end
      end.
End Items.

(* [F] = the fuel of every element loop: length of the whole input + 202 suffices (HeapOerProofs) *)
Fixpoint oll_dec (g : gpol) (F : nat) (t : lty) (bs : list Z) (m : meter) {struct t} : res :=
  match t with
  | LLeaf w esz =>
      if has w bs then mkR ROk (skipn w bs) (Z.of_nat w) (m_malloc m esz)
      else mkR RMore bs 0 m
  | LList e =>
      let m1 := m_malloc m lhd in
      match fetch_qty bs with
      | QMore => mkR RMore bs 0 m1
      | QFail => mkR RFail bs 0 m1
      | QOk q r u =>
          if is_upfront g && (200 <? q) && (zlen r <? q) then mkR RMore bs 0 m1
          else fst (oll_items g (oll_dec g F e) F q 0 true u r m1 l0)
      end
  end.

Definition oll_run (g : gpol) (t : lty) (bs : list Z) : res :=
  oll_dec g (length bs + 202)%nat t bs m0.

(* ---------------- the constants of the linear bound ---------------- *)
Definition zw (t : lty) : bool := match t with LLeaf O _ => true | _ => false end.

Fixpoint wf (t : lty) : Prop :=
  match t with LLeaf _ esz => 0 <= esz | LList e => wf e end.

(* live heap <= ca * octets consumed + cb *)
Fixpoint cb (t : lty) : Z :=
  match t with
  | LLeaf _ esz => esz
  | LList e => if zw e then lhd + 202 * (cb e + 16) + 16 else lhd + cb e + 16
  end.

Fixpoint ca (t : lty) : Z :=
  match t with
  | LLeaf _ _ => 0
  | LList e => if zw e then 0 else ca e + cb e + 16
  end.

(* ---------------- the family that defeats the up-front test ---------------- *)
(* a 9-octet quantity field: 08 + eight big-endian octets (leading zeros are skipped by the C) *)
Definition qhdr (q : Z) : list Z := 8 :: be_bytes 8 q.

(* j rows; every row announces as many elements as there are octets behind it *)
Fixpoint rows (j : nat) : list Z :=
  match j with
  | O => []
  | S j' => qhdr (zlen (rows j')) ++ rows j'
  end.

Definition bomb (K : nat) : list Z := qhdr (Z.of_nat K) ++ rows K.

Definition null_rows : lty := LList (LList (LLeaf 0 4)).    (* Rows ::= SEQUENCE OF Row, Row ::= SEQUENCE OF NULL *)

(* ---------------- front end for the check (ocaml/drv_c15.ml: c15_oll) ---------------- *)
Definition c15_oll (g : gpol) (t : lty) (bs : list Z) : res := oll_run g t bs.
