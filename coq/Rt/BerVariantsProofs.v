(* Rt/BerVariantsProofs.v — every member of the family of variant encodings
   (BerVariants.ber_var: any definite length form incl. long forms with leading
   zero octets, indefinite length on any constructed TLV, SET OF elements in any
   order) is decoded by the reference BER decoder to the value (SET OF: in the
   order written), consuming exactly the encoding. *)
From Coq Require Import ZArith List Lia Bool ZifyBool Permutation.
From A1 Require Import Base.Bytes Base.Digits Leaf.IntegerConv Leaf.IntegerConvProofs
  Leaf.BerTL Leaf.BerTLProofs Rt.Types Rt.TypesInd Rt.Comb Rt.Der Rt.DerProofs Rt.BerVariants.
Import ListNotations.
Local Open Scope Z_scope.

(* ---------------- the leaf: ber_fetch_length reads a padded long form back ---------------- *)

(* side conditions of the C (fetch_len_loop): 1..126 length octets, the value
   fits them, and the value is at most RSSIZE_MAX *)
Theorem fetch_length_long n len rest c :
  long_ok n len = true -> 0 <= len <= rssize_max ->
  fetch_length c ((128 + Z.of_nat n) :: be_bytes n len ++ rest) = FOk len (S n).
Proof.
  unfold long_ok. intros H Hl.
  apply andb_true_iff in H. destruct H as [H H3].
  apply andb_true_iff in H. destruct H as [H1 H2].
  cbn [fetch_length].
  destruct (128 + Z.of_nat n <? 128) eqn:E1; [lia|].
  destruct (c && (128 + Z.of_nat n =? 128)) eqn:E2; [lia|].
  destruct (128 + Z.of_nat n =? 255) eqn:E3; [lia|].
  replace (128 + Z.of_nat n - 128) with (Z.of_nat n) by lia. rewrite Nat2Z.id.
  assert (Hm : len mod 256 ^ Z.of_nat n = len) by (apply Z.mod_small; lia).
  rewrite fetch_len_loop_be.
  - rewrite Hm. replace (0 * 256 ^ Z.of_nat n + len) with len by lia.
    replace (1 + n)%nat with (S n) by lia. reflexivity.
  - lia.
  - lia.
  - rewrite Hm. lia.
Qed.

Lemma len_var_length_long n len : long_ok n len = true ->
  length (len_var (LLong n) len) = S n.
Proof. intros H. cbn [len_var]. rewrite H. cbn [length]. rewrite be_bytes_length. reflexivity. Qed.

Theorem fetch_length_var lf len rest c : 0 <= len <= rssize_max ->
  fetch_length c (len_var lf len ++ rest) = FOk len (length (len_var lf len)).
Proof.
  intros Hl. destruct lf as [|n|]; cbn [len_var]; try (apply length_roundtrip; exact Hl).
  destruct (long_ok n len) eqn:E; [|apply length_roundtrip; exact Hl].
  cbn [app length]. rewrite be_bytes_length. apply fetch_length_long; assumption.
Qed.

(* ---------------- headers ---------------- *)

Lemma tlv_open_var lf tg c content rest : tag_good tg -> zlen content <= rssize_max ->
  tlv_open (tag_bytes tg c ++ len_var lf (zlen content) ++ content ++ rest)
  = Some (tg, c, zlen content, content ++ rest).
Proof.
  intros Hg Hl.
  destruct (tag_bytes_fetch tg c (len_var lf (zlen content) ++ content ++ rest) Hg)
    as (Hf & b & tl & Hb & Hc & Hpos).
  unfold tlv_open. rewrite Hb. rewrite <- Hb. rewrite Hf. rewrite Hc.
  rewrite skipn_app_length.
  rewrite (fetch_length_var lf (zlen content) (content ++ rest) c) by (pose proof (zlen_nonneg content); lia).
  rewrite skipn_app_length. reflexivity.
Qed.

Lemma tlv_open_indef tg more : tag_good tg ->
  tlv_open (tag_bytes tg true ++ 128 :: more) = Some (tg, true, -1, more).
Proof.
  intros Hg.
  destruct (tag_bytes_fetch tg true (128 :: more) Hg) as (Hf & b & tl & Hb & Hc & Hpos).
  unfold tlv_open. rewrite Hb. rewrite <- Hb. rewrite Hf. rewrite Hc.
  rewrite skipn_app_length. reflexivity.
Qed.

Lemma vtlv_prim lf tg content :
  vtlv lf tg false content = tag_bytes tg false ++ len_var lf (zlen content) ++ content.
Proof. destruct lf; reflexivity. Qed.

Lemma vtlv_head lf tg c content : exists more, vtlv lf tg c content = tag_bytes tg c ++ more.
Proof. destruct lf; destruct c; cbn [vtlv]; eauto. Qed.

Lemma vtlv_length lf tg c content : zlen content <= zlen (vtlv lf tg c content).
Proof.
  destruct lf; destruct c; cbn [vtlv]; rewrite ?zlen_app, ?zlen_cons, ?zlen_app;
    repeat match goal with |- context [zlen ?l] => lazymatch goal with
           | _ : 0 <= zlen l |- _ => fail | _ => pose proof (zlen_nonneg l) end end; lia.
Qed.

Lemma in_prim_vtlv {A} lf tg content rest (k : list Z -> option A) :
  tag_good tg -> zlen content <= rssize_max ->
  in_prim tg (vtlv lf tg false content ++ rest) k =
  match k content with Some a => Some (a, rest) | None => None end.
Proof.
  intros Hg Hl. rewrite vtlv_prim. rewrite <- !app_assoc.
  unfold in_prim. rewrite tlv_open_var by assumption.
  rewrite Z.eqb_refl. pose proof (zlen_nonneg content).
  destruct (0 <=? zlen content) eqn:E1; [|lia].
  rewrite zlen_app. destruct (zlen content <=? zlen content + zlen rest) eqn:E2;
    [|pose proof (zlen_nonneg rest); lia].
  cbn [andb]. unfold zlen. rewrite Nat2Z.id. rewrite firstn_app_length, skipn_app_length. reflexivity.
Qed.

(* a constructed variant TLV, whatever its length form: the content decoder
   must stop at the end of the contents, be it the end of the buffer (definite)
   or the end-of-contents octets (indefinite) *)
Lemma in_cons_vtlv {A} lf tg content rest (k : list Z -> option (A * list Z)) (a : A) :
  tag_good tg -> zlen content <= rssize_max ->
  (forall tail, at_end tail = true -> k (content ++ tail) = Some (a, tail)) ->
  in_cons tg (vtlv lf tg true content ++ rest) k = Some (a, rest).
Proof.
  intros Hg Hl Hk.
  assert (Hdef : in_cons tg ((tag_bytes tg true ++ len_var lf (zlen content) ++ content) ++ rest) k = Some (a, rest)).
  { rewrite <- !app_assoc. unfold in_cons. rewrite tlv_open_var by assumption.
    rewrite Z.eqb_refl. pose proof (zlen_nonneg content).
    destruct (zlen content =? -1) eqn:E0; [lia|].
    rewrite zlen_app. destruct (zlen content <=? zlen content + zlen rest) eqn:E2;
      [|pose proof (zlen_nonneg rest); lia].
    unfold zlen. rewrite Nat2Z.id. rewrite firstn_app_length, skipn_app_length.
    pose proof (Hk [] eq_refl) as H0. rewrite app_nil_r in H0. rewrite H0. reflexivity. }
  destruct lf as [|n|]; cbn [vtlv]; try exact Hdef.
  rewrite <- app_assoc. cbn [app]. rewrite <- app_assoc. cbn [app].
  unfold in_cons. rewrite tlv_open_indef by assumption.
  rewrite Z.eqb_refl. cbn [Z.eqb].
  rewrite (Hk (0 :: 0 :: rest) eq_refl). reflexivity.
Qed.

Lemma peek_tag_head tg c more rest : tag_good tg ->
  peek_tag ((tag_bytes tg c ++ more) ++ rest) = Some tg.
Proof.
  intros Hg. unfold peek_tag. rewrite <- app_assoc.
  destruct (tag_bytes_fetch tg c (more ++ rest) Hg) as (Hf & _). rewrite Hf. reflexivity.
Qed.

Lemma head_not_at_end tg c more rest : tag_good tg ->
  at_end ((tag_bytes tg c ++ more) ++ rest) = false.
Proof.
  intros Hg. rewrite <- app_assoc.
  destruct (tag_bytes_fetch tg c (more ++ rest) Hg) as (_ & b & tl & Hb & _ & Hpos).
  rewrite Hb. unfold at_end. destruct tl; [reflexivity|].
  destruct (b =? 0) eqn:E; [lia|reflexivity].
Qed.

Lemma head_nonempty tg c more : tag_good tg -> (1 <= length (tag_bytes tg c ++ more))%nat.
Proof.
  intros Hg. destruct (tag_bytes_fetch tg c more Hg) as (_ & b & tl & Hb & _).
  rewrite Hb. cbn [length]. lia.
Qed.

(* what can follow the contents of a constructed value *)
Lemma peek_at_end tail : at_end tail = true -> peek_tag tail = None \/ peek_tag tail = Some 0.
Proof.
  destruct tail as [|b1 [|b2 r]]; cbn [at_end]; intros H; try discriminate.
  - left. reflexivity.
  - right. apply andb_true_iff in H. destruct H as [H1 _]. apply Z.eqb_eq in H1. subst b1. reflexivity.
Qed.

(* ---------------- well-typed values (no order condition on SET OF) ---------------- *)

Fixpoint wt0 (t : ty) (v : val) {struct t} : bool :=
  match t, v with
  | TBool _, VBool _ => true
  | TNull _, VNull => true
  | TInt _ _, VInt z => fits_long z
  | TOct _ _, VOct bs => bytes_okb bs
  | TSeq _ ms, VSeq vs =>
      (fix go (ms : list ty) (vs : list val) : bool :=
         match ms, vs with
         | [], [] => true
         | m :: ms', v :: vs' => wt0 m v && go ms' vs'
         | _, _ => false
         end) ms vs
  | TSeqOf _ _ e, VList vs => forallb (wt0 e) vs
  | TSetOf _ _ e, VList vs => forallb (wt0 e) vs
  | TChoice alts, VChoice i v' =>
      (fix pick (alts : list ty) (i : nat) : bool :=
         match alts, i with
         | a :: _, O => wt0 a v'
         | _ :: r, S j => pick r j
         | [], _ => false
         end) alts i
  | TTag _ t', _ => wt0 t' v
  | TOpt _, VNone => true
  | TOpt t', VSome v' => wt0 t' v'
  | _, _ => false
  end.

Lemma wt_wt0 t : forall v, wt t v = true -> wt0 t v = true.
Proof.
  induction t using ty_ind'; intros v Hw; try (destruct v; try discriminate; exact Hw).
  - (* SEQUENCE *)
    destruct v; try discriminate. cbn [wt wt0] in *. revert vs Hw.
    induction H as [|m ms' Hm Hms IH]; intros vs Hw; destruct vs as [|v vs']; try discriminate; [reflexivity|].
    apply andb_true_iff in Hw. destruct Hw as [H1 H2].
    rewrite (Hm v H1). rewrite (IH vs' H2). reflexivity.
  - destruct v; try discriminate. cbn [wt wt0] in *.
    rewrite forallb_forall in *. intros x Hx. apply IHt. apply Hw. exact Hx.
  - destruct v; try discriminate. cbn [wt wt0] in *.
    apply andb_true_iff in Hw. destruct Hw as [Hw _].
    rewrite forallb_forall in *. intros x Hx. apply IHt. apply Hw. exact Hx.
  - (* CHOICE *)
    destruct v; try discriminate. cbn [wt wt0] in *. revert i Hw.
    induction H as [|a r Ha Hr IH]; intros i Hw; destruct i; try discriminate.
    + apply Ha. exact Hw.
    + apply IH. exact Hw.
  - cbn [wt wt0] in *. apply IHt. exact Hw.
  - destruct v; try discriminate; cbn [wt wt0] in *; [reflexivity|]. apply IHt. exact Hw.
Qed.

(* ---------------- first tags ---------------- *)

Lemma wf_first_tags_pos t : wf_ty t = true -> forall x, In x (first_tags t) -> 0 < x.
Proof.
  induction t using ty_ind'; intros Hwf x Hx; cbn [wf_ty first_tags] in *;
    try (destruct Hx as [<-|[]]; lia).
  - (* CHOICE *)
    apply andb_true_iff in Hwf. destruct Hwf as [Hwf _].
    apply andb_true_iff in Hwf. destruct Hwf as [Hwf _].
    apply andb_true_iff in Hwf. destruct Hwf as [Hwf _].
    induction H as [|a r Ha Hr IH]; [destruct Hx|].
    cbn [forallb] in Hwf. apply andb_true_iff in Hwf. destruct Hwf as [Hw1 Hw2].
    cbn [flat_map] in Hx. apply in_app_or in Hx. destruct Hx as [Hx|Hx]; [eapply Ha; eauto|eapply IH; eauto].
  - apply andb_true_iff in Hwf. destruct Hwf as [Hw _]. eapply IHt; eauto.
Qed.

Lemma opt_ok_at_end t v tail : wf_ty t = true -> at_end tail = true -> opt_ok t v tail.
Proof.
  intros Hwf He. unfold opt_ok. destruct t; auto. destruct v; auto.
  destruct (peek_at_end tail He) as [-> | ->]; [exact I|].
  destruct (tag_in 0 (first_tags t)) eqn:E; [|reflexivity].
  apply tag_in_In in E. cbn [wf_ty] in Hwf. apply andb_true_iff in Hwf. destruct Hwf as [Hw _].
  pose proof (wf_first_tags_pos t Hw 0 E). lia.
Qed.

Lemma opt_ok_not_opt t v rest : not_opt t = true -> opt_ok t v rest.
Proof. unfold opt_ok. destruct t; auto. discriminate. Qed.

(* a non-optional type's variant encoding starts with one of its first tags *)
Lemma var_head t : forall oc v bs, wf_ty t = true -> not_opt t = true -> ber_var t oc v = Some bs ->
  exists tg cb more, bs = tag_bytes tg cb ++ more /\ tag_good tg /\ In tg (first_tags t).
Proof.
  induction t using ty_ind'; intros oc v bs Hwf Hno Hd; cbn [wf_ty] in Hwf; cbn [first_tags].
  - destruct v; try discriminate. injection Hd as <-.
    destruct (vtlv_head (ch_lf oc) tg false [if b then 255 else 0]) as [more ->]. eauto 8 using wf_tag_good, in_eq.
  - destruct v; try discriminate. injection Hd as <-.
    destruct (vtlv_head (ch_lf oc) tg false []) as [more ->]. eauto 8 using wf_tag_good, in_eq.
  - destruct v; try discriminate. injection Hd as <-.
    destruct (vtlv_head (ch_lf oc) tg false (imax2INTEGER z)) as [more ->]. eauto 8 using wf_tag_good, in_eq.
  - destruct v; try discriminate. injection Hd as <-.
    destruct (vtlv_head (ch_lf oc) tg false bs0) as [more ->]. eauto 8 using wf_tag_good, in_eq.
  - destruct v; try discriminate. cbn [ber_var] in Hd.
    destruct (var_members ber_var (ch_subs oc) ms vs) as [b|]; [|discriminate]. injection Hd as <-.
    apply andb_true_iff in Hwf. destruct Hwf as [Hwf _].
    apply andb_true_iff in Hwf. destruct Hwf as [Hwf _].
    destruct (vtlv_head (ch_lf oc) tg true b) as [more ->]. eauto 8 using wf_tag_good, in_eq.
  - destruct v; try discriminate. cbn [ber_var] in Hd.
    destruct (var_elems (ber_var t) (ch_subs oc) vs) as [cs|]; [|discriminate]. injection Hd as <-.
    apply andb_true_iff in Hwf. destruct Hwf as [Hwf _].
    apply andb_true_iff in Hwf. destruct Hwf as [Hwf _].
    destruct (vtlv_head (ch_lf oc) tg true (concat cs)) as [more ->]. eauto 8 using wf_tag_good, in_eq.
  - destruct v; try discriminate. cbn [ber_var] in Hd.
    destruct (var_elems (ber_var t) (ch_subs oc) vs) as [cs|]; [|discriminate]. injection Hd as <-.
    apply andb_true_iff in Hwf. destruct Hwf as [Hwf _].
    apply andb_true_iff in Hwf. destruct Hwf as [Hwf _].
    destruct (vtlv_head (ch_lf oc) tg true (concat (permute (ch_perm oc) cs))) as [more ->]. eauto 8 using wf_tag_good, in_eq.
  - destruct v; try discriminate. cbn [ber_var] in Hd.
    apply andb_true_iff in Hwf. destruct Hwf as [Hwf _].
    apply andb_true_iff in Hwf. destruct Hwf as [Hwf _].
    apply andb_true_iff in Hwf. destruct Hwf as [Hwf1 Hwf2].
    clear Hno. revert i Hd. induction H as [|a r Ha Hr IHr]; intros i Hd; [destruct i; discriminate|].
    cbn [forallb] in Hwf1, Hwf2.
    apply andb_true_iff in Hwf1. destruct Hwf1 as [Hw1 Hw1r].
    apply andb_true_iff in Hwf2. destruct Hwf2 as [Hw2 Hw2r].
    destruct i; cbn [var_alt] in Hd.
    + destruct (Ha oc v bs Hw1 Hw2 Hd) as (tg & cb & more & E & Hg & Hin).
      exists tg, cb, more. split; [exact E|]. split; [exact Hg|].
      cbn [flat_map]. apply in_or_app. left. exact Hin.
    + destruct (IHr Hw1r Hw2r i Hd) as (tg & cb & more & E & Hg & Hin).
      exists tg, cb, more. split; [exact E|]. split; [exact Hg|].
      cbn [flat_map]. apply in_or_app. right. exact Hin.
  - cbn [ber_var] in Hd. destruct (ber_var t (ch_hd (ch_subs oc)) v) as [b|]; [|discriminate]. injection Hd as <-.
    apply andb_true_iff in Hwf. destruct Hwf as [Hwf _].
    apply andb_true_iff in Hwf. destruct Hwf as [Hwf _].
    destruct (vtlv_head (ch_lf oc) tg true b) as [more ->]. eauto 8 using wf_tag_good, in_eq.
  - discriminate.
Qed.

(* ---------------- the main induction ---------------- *)

Definition RTV (t : ty) : Prop := forall c v bs rest,
  wf_ty t = true -> wt0 t v = true -> ber_var t c v = Some bs -> zlen bs <= rssize_max ->
  opt_ok t v rest -> ber_dec t (bs ++ rest) = Some (var_val t c v, rest).

Lemma var_members_head ms : forall cs vs b rest,
  forallb wf_ty ms = true -> var_members ber_var cs ms vs = Some b ->
  b = [] \/ exists tg, peek_tag (b ++ rest) = Some tg /\ In tg (run_tags ms).
Proof.
  induction ms as [|m ms' IH]; intros cs vs b rest Hwf He; destruct vs as [|v vs']; cbn [var_members] in He; try discriminate.
  - injection He as <-. left. reflexivity.
  - cbn [forallb] in Hwf. apply andb_true_iff in Hwf. destruct Hwf as [Hw Hwr].
    destruct (ber_var m (ch_hd cs) v) as [a|] eqn:Ea; [|discriminate].
    destruct (var_members ber_var (tl cs) ms' vs') as [b'|] eqn:Eb; [|discriminate]. injection He as <-.
    cbn [run_tags].
    destruct (is_opt m) eqn:Eo.
    + destruct m; try discriminate. cbn [ber_var] in Ea. destruct v; try discriminate.
      * injection Ea as <-. cbn [app]. destruct (IH (tl cs) vs' b' rest Hwr Eb) as [->|(tg & Hp & Hin)]; [left; reflexivity|].
        right. exists tg. split; [exact Hp|]. apply in_or_app. right. exact Hin.
      * cbn [wf_ty] in Hw. apply andb_true_iff in Hw. destruct Hw as [Hw1 Hw2].
        destruct (var_head m (ch_hd cs) v a Hw1 Hw2 Ea) as (tg & cb & more & -> & Hg & Hin).
        right. exists tg. rewrite <- app_assoc. rewrite <- (app_assoc _ more). rewrite app_assoc.
        rewrite peek_tag_head by exact Hg. split; [reflexivity|].
        cbn [first_tags]. apply in_or_app. left. exact Hin.
    + assert (Hno : not_opt m = true) by (unfold not_opt; rewrite Eo; reflexivity).
      destruct (var_head m (ch_hd cs) v a Hw Hno Ea) as (tg & cb & more & -> & Hg & Hin).
      right. exists tg. rewrite <- app_assoc. rewrite <- (app_assoc _ more). rewrite app_assoc.
      rewrite peek_tag_head by exact Hg. split; [reflexivity|].
      rewrite app_nil_r. exact Hin.
Qed.

Lemma members_rtv ms : Forall RTV ms -> forall cs vs b tail,
  forallb wf_ty ms = true -> run_distinct ms = true ->
  wt0 (TSeq 0 ms) (VSeq vs) = true -> var_members ber_var cs ms vs = Some b -> zlen b <= rssize_max ->
  at_end tail = true ->
  dec_members ber_dec ms (b ++ tail) = Some (val_members var_val cs ms vs, tail).
Proof.
  induction 1 as [|m ms' Hm Hms IH]; intros cs vs b tail Hwf Hrd Hwt He Hl Hend;
    destruct vs as [|v vs']; cbn [var_members] in He; try discriminate.
  - injection He as <-. reflexivity.
  - cbn [forallb] in Hwf. apply andb_true_iff in Hwf. destruct Hwf as [Hw Hwr].
    cbn [run_distinct] in Hrd. apply andb_true_iff in Hrd. destruct Hrd as [Hd1 Hdr].
    cbn [wt0] in Hwt. apply andb_true_iff in Hwt. destruct Hwt as [Hwt1 Hwtr].
    destruct (ber_var m (ch_hd cs) v) as [a|] eqn:Ea; [|discriminate].
    destruct (var_members ber_var (tl cs) ms' vs') as [b'|] eqn:Eb; [|discriminate]. injection He as <-.
    rewrite zlen_app in Hl. pose proof (zlen_nonneg a). pose proof (zlen_nonneg b').
    cbn [dec_members val_members]. rewrite <- app_assoc.
    rewrite (Hm (ch_hd cs) v a (b' ++ tail) Hw Hwt1 Ea ltac:(lia)).
    + rewrite (IH (tl cs) vs' b' tail Hwr Hdr Hwtr Eb ltac:(lia) Hend). reflexivity.
    + (* an absent OPTIONAL member: what follows does not start with one of its tags *)
      unfold opt_ok. destruct m; auto. destruct v; auto.
      destruct (var_members_head ms' (tl cs) vs' b' tail Hwr Eb) as [->|(tg & Hp & Hin)].
      * cbn [app]. apply (opt_ok_at_end (TOpt m) VNone tail Hw Hend).
      * rewrite Hp. cbn [is_opt first_tags] in Hd1.
        destruct (tag_in tg (first_tags m)) eqn:Et; [|reflexivity].
        apply tag_in_In in Et. exfalso. eapply disjointb_spec; eauto.
Qed.

(* one element: its encoding is not empty, decodes in any context and is not
   mistaken for the end of the contents *)
Definition decodes (e : ty) (v' : val) (bs : list Z) : Prop :=
  (1 <= length bs)%nat /\
  (zlen bs <= rssize_max -> forall rest,
     ber_dec e (bs ++ rest) = Some (v', rest) /\ at_end (bs ++ rest) = false).

Lemma var_elems_decodes e : RTV e -> wf_ty e = true -> not_opt e = true -> forall vs cs bss,
  forallb (wt0 e) vs = true -> var_elems (ber_var e) cs vs = Some bss ->
  Forall2 (decodes e) (val_elems (var_val e) cs vs) bss.
Proof.
  intros He Hw Hno. induction vs as [|v vs' IH]; intros cs bss Hwt Ho; cbn [var_elems] in Ho.
  - injection Ho as <-. constructor.
  - destruct (ber_var e (ch_hd cs) v) as [a|] eqn:Ea; [|discriminate].
    destruct (var_elems (ber_var e) (tl cs) vs') as [r|] eqn:Er; [|discriminate]. injection Ho as <-.
    cbn [forallb] in Hwt. apply andb_true_iff in Hwt. destruct Hwt as [Hwt1 Hwtr].
    cbn [val_elems]. constructor; [|apply IH; assumption].
    destruct (var_head e (ch_hd cs) v a Hw Hno Ea) as (tg & cb & more & Eh & Hg & _).
    split; [rewrite Eh; apply head_nonempty; exact Hg|].
    intros Hl rest. split.
    + apply He; try assumption. apply opt_ok_not_opt. exact Hno.
    + rewrite Eh. apply head_not_at_end. exact Hg.
Qed.

Lemma decodes_length e vs' bss : Forall2 (decodes e) vs' bss -> (length vs' <= length (concat bss))%nat.
Proof.
  induction 1 as [|v b vs bs [Hb _] _ IH]; [cbn; lia|].
  cbn [concat length]. rewrite app_length. lia.
Qed.

Lemma dec_until_items e vs' bss : Forall2 (decodes e) vs' bss -> forall fuel tail,
  zlen (concat bss) <= rssize_max -> (length vs' < fuel)%nat -> at_end tail = true ->
  dec_until (ber_dec e) at_end fuel (concat bss ++ tail) = Some (vs', tail).
Proof.
  induction 1 as [|v b vs bs [Hb Hd] _ IH]; intros fuel tail Hl Hf Hend.
  - destruct fuel; [cbn in Hf; lia|]. cbn [concat app dec_until]. rewrite Hend. reflexivity.
  - cbn [concat] in *. rewrite zlen_app in Hl.
    pose proof (zlen_nonneg b). pose proof (zlen_nonneg (concat bs)).
    destruct fuel as [|f]; [lia|]. cbn [dec_until]. rewrite <- app_assoc.
    destruct (Hd ltac:(lia) (concat bs ++ tail)) as [Hdec Hne].
    rewrite Hne, Hdec.
    rewrite (IH f tail ltac:(lia) ltac:(cbn [length] in Hf; lia) Hend). reflexivity.
Qed.

Lemma Forall2_firstn {A B} (R : A -> B -> Prop) l1 l2 : Forall2 R l1 l2 ->
  forall k, Forall2 R (firstn k l1) (firstn k l2).
Proof. induction 1; intros [|k]; cbn [firstn]; constructor; auto. Qed.

Lemma Forall2_skipn {A B} (R : A -> B -> Prop) l1 l2 : Forall2 R l1 l2 ->
  forall k, Forall2 R (skipn k l1) (skipn k l2).
Proof. induction 1; intros [|k]; cbn [skipn]; try constructor; auto. Qed.

Lemma Forall2_insert_at {A B} (R : A -> B -> Prop) k x y l1 l2 : R x y -> Forall2 R l1 l2 ->
  Forall2 R (insert_at k x l1) (insert_at k y l2).
Proof.
  intros Hxy H. unfold insert_at. apply Forall2_app; [apply Forall2_firstn; exact H|].
  constructor; [exact Hxy|apply Forall2_skipn; exact H].
Qed.

Lemma Forall2_permute {A B} (R : A -> B -> Prop) l1 l2 : Forall2 R l1 l2 ->
  forall p, Forall2 R (permute p l1) (permute p l2).
Proof.
  induction 1 as [|x y l1 l2 Hxy H IH]; intros p; cbn [permute]; [constructor|].
  apply Forall2_insert_at; [exact Hxy|apply IH].
Qed.

Lemma insert_at_perm {A} k (x : A) l : Permutation (x :: l) (insert_at k x l).
Proof.
  unfold insert_at. rewrite <- (firstn_skipn k l) at 1. apply Permutation_middle.
Qed.

(* the order a SET OF is written in is a permutation of its elements ... *)
Lemma permute_perm {A} p (l : list A) : Permutation l (permute p l).
Proof.
  revert p. induction l as [|x l IH]; intros p; cbn [permute]; [constructor|].
  eapply perm_trans; [apply perm_skip; apply (IH (tl p))|apply insert_at_perm].
Qed.

(* ... and every permutation is denoted by some list of positions *)
Lemma permute_complete {A} (l : list A) : forall l', Permutation l l' -> exists p, permute p l = l'.
Proof.
  induction l as [|x l IH]; intros l' Hp.
  - apply Permutation_nil in Hp. subst. exists []. reflexivity.
  - assert (Hin : In x l') by (eapply Permutation_in; [exact Hp|left; reflexivity]).
    apply in_split in Hin. destruct Hin as (l1 & l2 & ->).
    apply Permutation_cons_app_inv in Hp.
    destruct (IH (l1 ++ l2) Hp) as [p Hq].
    exists (length l1 :: p). cbn [permute hd tl]. rewrite Hq.
    unfold insert_at. rewrite firstn_app_length. rewrite skipn_app_length. reflexivity.
Qed.

Lemma permute_length {A} p (l : list A) : length (permute p l) = length l.
Proof. symmetry. apply Permutation_length. apply permute_perm. Qed.

Lemma zlen_concat_perm (l l' : list (list Z)) : Permutation l l' -> zlen (concat l) = zlen (concat l').
Proof.
  induction 1; cbn [concat]; rewrite ?zlen_app; try lia.
Qed.

Lemma alts_rtv alts : Forall RTV alts -> forall i k c v bs rest tg,
  forallb wf_ty alts = true -> forallb not_opt alts = true -> alts_distinct alts = true ->
  wt0 (TChoice alts) (VChoice i v) = true -> var_alt ber_var c v alts i = Some bs ->
  zlen bs <= rssize_max ->
  peek_tag (bs ++ rest) = Some tg ->
  dec_alt ber_dec (fun _ a => tag_in tg (first_tags a)) (bs ++ rest) alts k
  = Some (VChoice (k + i) (val_alt var_val c v alts i), rest).
Proof.
  induction 1 as [|a r Ha Hr IH]; intros i k c v bs rest tg Hwf Hno Hdis Hwt He Hl Hp;
    [destruct i; discriminate|].
  cbn [forallb] in Hwf, Hno. apply andb_true_iff in Hwf. destruct Hwf as [Hw Hwr].
  apply andb_true_iff in Hno. destruct Hno as [Hn Hnr].
  cbn [alts_distinct] in Hdis. apply andb_true_iff in Hdis. destruct Hdis as [Hd Hdr].
  cbn [dec_alt]. destruct i as [|j]; cbn [var_alt] in He; cbn [wt0] in Hwt; cbn [val_alt].
  - destruct (var_head a c v bs Hw Hn He) as (tg' & cb & more & Eh & Hg & Hin).
    assert (tg' = tg).
    { rewrite Eh in Hp. rewrite peek_tag_head in Hp by exact Hg. congruence. }
    subst tg'. apply tag_in_In in Hin. rewrite Hin.
    rewrite (Ha c v bs rest Hw Hwt He Hl).
    + replace (k + 0)%nat with k by lia. reflexivity.
    + apply opt_ok_not_opt. exact Hn.
  - assert (Hnot : tag_in tg (first_tags a) = false).
    { destruct (tag_in tg (first_tags a)) eqn:Et; [|reflexivity]. exfalso.
      apply tag_in_In in Et.
      clear IH Ha. revert j He Hwt. clear Hr.
      induction r as [|b r' IHr]; intros j He Hwt; [destruct j; discriminate|].
      cbn [forallb] in Hwr, Hnr, Hd. apply andb_true_iff in Hwr. destruct Hwr as [Hwb Hwr'].
      apply andb_true_iff in Hnr. destruct Hnr as [Hnb Hnr'].
      apply andb_true_iff in Hd. destruct Hd as [Hdb Hd'].
      cbn [alts_distinct] in Hdr. apply andb_true_iff in Hdr. destruct Hdr as [_ Hdr'].
      destruct j; cbn [var_alt] in He.
      - destruct (var_head b c v bs Hwb Hnb He) as (tg' & cb & more & Eh & Hg & Hin).
        rewrite Eh in Hp. rewrite peek_tag_head in Hp by exact Hg. injection Hp as ->.
        eapply disjointb_spec; eauto.
      - eapply IHr; eauto. }
    rewrite Hnot.
    rewrite (IH j (S k) c v bs rest tg Hwr Hnr Hdr Hwt He Hl Hp).
    replace (S k + j)%nat with (k + S j)%nat by lia. reflexivity.
Qed.

Theorem var_decodes_all t : RTV t.
Proof.
  induction t using ty_ind'; intros oc v bs rest Hwf Hwt Hd Hl Hok; cbn [wf_ty] in Hwf.
  - (* BOOLEAN *)
    destruct v; try discriminate. injection Hd as <-. cbn [ber_dec var_val].
    pose proof (vtlv_length (ch_lf oc) tg false [if b then 255 else 0]).
    rewrite in_prim_vtlv by (try apply wf_tag_good; auto; lia).
    destruct b; reflexivity.
  - destruct v; try discriminate. injection Hd as <-. cbn [ber_dec var_val].
    pose proof (vtlv_length (ch_lf oc) tg false []).
    rewrite in_prim_vtlv by (try apply wf_tag_good; auto; lia). reflexivity.
  - (* INTEGER *)
    destruct v; try discriminate. injection Hd as <-. cbn [ber_dec var_val].
    cbn [wt0] in Hwt. unfold fits_long in Hwt.
    destruct (imax2INTEGER_canonical z ltac:(lia)) as (Hv & _ & _ & Hne).
    pose proof (vtlv_length (ch_lf oc) tg false (imax2INTEGER z)).
    rewrite in_prim_vtlv by (try apply wf_tag_good; auto; lia).
    destruct (imax2INTEGER z) eqn:E; [congruence|]. rewrite Hv.
    unfold fits_long. destruct ((- two63 <=? z) && (z <? two63)) eqn:E2; [reflexivity|lia].
  - destruct v; try discriminate. injection Hd as <-. cbn [ber_dec var_val].
    pose proof (vtlv_length (ch_lf oc) tg false bs0).
    rewrite in_prim_vtlv by (try apply wf_tag_good; auto; lia). reflexivity.
  - (* SEQUENCE *)
    destruct v; try discriminate. cbn [ber_var] in Hd.
    destruct (var_members ber_var (ch_subs oc) ms vs) as [b|] eqn:Ec; [|discriminate]. injection Hd as <-.
    apply andb_true_iff in Hwf. destruct Hwf as [Hwf Hrd].
    apply andb_true_iff in Hwf. destruct Hwf as [Htg Hwm].
    cbn [ber_dec var_val]. pose proof (vtlv_length (ch_lf oc) tg true b).
    rewrite (in_cons_vtlv (ch_lf oc) tg b rest (dec_members ber_dec ms) (val_members var_val (ch_subs oc) ms vs));
      [reflexivity|apply wf_tag_good; exact Htg|lia|].
    intros tail Hend. apply (members_rtv ms H (ch_subs oc) vs b tail Hwm Hrd Hwt Ec ltac:(lia) Hend).
  - (* SEQUENCE OF *)
    destruct v; try discriminate. cbn [ber_var] in Hd.
    destruct (var_elems (ber_var t) (ch_subs oc) vs) as [cs|] eqn:Ec; [|discriminate]. injection Hd as <-.
    apply andb_true_iff in Hwf. destruct Hwf as [Hwf Hno].
    apply andb_true_iff in Hwf. destruct Hwf as [Htg Hwe].
    cbn [ber_dec var_val]. pose proof (vtlv_length (ch_lf oc) tg true (concat cs)).
    cbn [wt0] in Hwt.
    pose proof (var_elems_decodes t IHt Hwe Hno vs (ch_subs oc) cs Hwt Ec) as HF.
    rewrite (in_cons_vtlv (ch_lf oc) tg (concat cs) rest _ (val_elems (var_val t) (ch_subs oc) vs));
      [reflexivity|apply wf_tag_good; exact Htg|lia|].
    intros tail Hend. apply (dec_until_items t _ _ HF); [lia| |exact Hend].
    pose proof (decodes_length t _ _ HF). rewrite app_length. lia.
  - (* SET OF: any order *)
    destruct v; try discriminate. cbn [ber_var] in Hd.
    destruct (var_elems (ber_var t) (ch_subs oc) vs) as [cs|] eqn:Ec; [|discriminate]. injection Hd as <-.
    apply andb_true_iff in Hwf. destruct Hwf as [Hwf Hno].
    apply andb_true_iff in Hwf. destruct Hwf as [Htg Hwe].
    cbn [ber_dec var_val]. pose proof (vtlv_length (ch_lf oc) tg true (concat (permute (ch_perm oc) cs))).
    cbn [wt0] in Hwt.
    pose proof (var_elems_decodes t IHt Hwe Hno vs (ch_subs oc) cs Hwt Ec) as HF.
    pose proof (Forall2_permute _ _ _ HF (ch_perm oc)) as HP. clear HF. rename HP into HF.
    rewrite (in_cons_vtlv (ch_lf oc) tg (concat (permute (ch_perm oc) cs)) rest _
               (permute (ch_perm oc) (val_elems (var_val t) (ch_subs oc) vs)));
      [reflexivity|apply wf_tag_good; exact Htg|lia|].
    intros tail Hend. apply (dec_until_items t _ _ HF); [lia| |exact Hend].
    pose proof (decodes_length t _ _ HF). rewrite app_length. lia.
  - (* CHOICE *)
    destruct v; try discriminate. cbn [ber_var] in Hd.
    apply andb_true_iff in Hwf. destruct Hwf as [Hwf Hne].
    apply andb_true_iff in Hwf. destruct Hwf as [Hwf Hdis].
    apply andb_true_iff in Hwf. destruct Hwf as [Hwa Hno].
    cbn [ber_dec var_val].
    assert (Hhead : exists tg, peek_tag (bs ++ rest) = Some tg).
    { assert (Hn : not_opt (TChoice alts) = true) by reflexivity.
      assert (Hw : wf_ty (TChoice alts) = true).
      { cbn [wf_ty]. rewrite Hwa, Hno, Hdis, Hne. reflexivity. }
      destruct (var_head (TChoice alts) oc (VChoice i v) bs Hw Hn Hd) as (tg & cb & more & -> & Hg & _).
      exists tg. apply peek_tag_head. exact Hg. }
    destruct Hhead as [tg Hp]. rewrite Hp.
    rewrite (alts_rtv alts H i O oc v bs rest tg Hwa Hno Hdis Hwt Hd Hl Hp). reflexivity.
  - (* EXPLICIT tag *)
    cbn [ber_var] in Hd. destruct (ber_var t (ch_hd (ch_subs oc)) v) as [b|] eqn:Ec; [|discriminate]. injection Hd as <-.
    apply andb_true_iff in Hwf. destruct Hwf as [Hwf Hno].
    apply andb_true_iff in Hwf. destruct Hwf as [Htg Hwt'].
    cbn [ber_dec var_val]. pose proof (vtlv_length (ch_lf oc) tg true b).
    cbn [wt0] in Hwt.
    apply in_cons_vtlv; [apply wf_tag_good; exact Htg|lia|].
    intros tail Hend. apply IHt; try assumption; [lia|]. apply opt_ok_not_opt. exact Hno.
  - (* OPTIONAL *)
    apply andb_true_iff in Hwf. destruct Hwf as [Hw Hno].
    destruct v; try discriminate; cbn [ber_var] in Hd; cbn [ber_dec var_val].
    + injection Hd as <-. cbn [app]. unfold opt_ok in Hok.
      destruct (peek_tag rest); [rewrite Hok|]; reflexivity.
    + cbn [wt0] in Hwt.
      destruct (var_head t oc v bs Hw Hno Hd) as (tg & cb & more & Eh & Hg & Hin).
      rewrite Eh at 1. rewrite peek_tag_head by exact Hg.
      apply tag_in_In in Hin. rewrite Hin.
      rewrite (IHt oc v bs rest Hw Hwt Hd Hl); [reflexivity|].
      apply opt_ok_not_opt. exact Hno.
Qed.

(* ---------------- "the same value up to the order of SET OF elements" ---------------- *)

Inductive veq : ty -> val -> val -> Prop :=
| veq_same t v : veq t v v
| veq_seq tg ms vs vs' : veqs ms vs vs' -> veq (TSeq tg ms) (VSeq vs) (VSeq vs')
| veq_seqof tg s e vs vs' : Forall2 (veq e) vs vs' -> veq (TSeqOf tg s e) (VList vs) (VList vs')
| veq_setof tg s e vs l vs' : Forall2 (veq e) vs l -> Permutation l vs' ->
                              veq (TSetOf tg s e) (VList vs) (VList vs')
| veq_choice alts i a v v' : nth_error alts i = Some a -> veq a v v' ->
                             veq (TChoice alts) (VChoice i v) (VChoice i v')
| veq_tag tg t v v' : veq t v v' -> veq (TTag tg t) v v'
| veq_opt t v v' : veq t v v' -> veq (TOpt t) (VSome v) (VSome v')
with veqs : list ty -> list val -> list val -> Prop :=
| veqs_same ms vs : veqs ms vs vs
| veqs_cons m ms v vs v' vs' : veq m v v' -> veqs ms vs vs' -> veqs (m :: ms) (v :: vs) (v' :: vs').

Lemma var_val_veq t : forall oc v, veq t v (var_val t oc v).
Proof.
  induction t using ty_ind'; intros oc v; try apply veq_same.
  - destruct v; try apply veq_same. cbn [var_val]. apply veq_seq.
    generalize (ch_subs oc). revert vs.
    induction H as [|m ms' Hm Hms IH]; intros vs cs; [destruct vs; apply veqs_same|].
    destruct vs as [|v vs']; [apply veqs_same|]. cbn [val_members].
    apply veqs_cons; [apply Hm|apply IH].
  - destruct v; try apply veq_same. cbn [var_val]. apply veq_seqof.
    generalize (ch_subs oc). induction vs as [|v vs' IH]; intros cs; cbn [val_elems]; constructor; auto.
  - destruct v; try apply veq_same. cbn [var_val].
    apply veq_setof with (l := val_elems (var_val t) (ch_subs oc) vs); [|apply permute_perm].
    generalize (ch_subs oc). induction vs as [|v vs' IH]; intros cs; cbn [val_elems]; constructor; auto.
  - destruct v; try apply veq_same. cbn [var_val].
    assert (Haux : (exists a, nth_error alts i = Some a /\ veq a v (val_alt var_val oc v alts i))
                   \/ val_alt var_val oc v alts i = v).
    { revert i. induction H as [|a r Ha Hr IH]; intros i; [right; destruct i; reflexivity|].
      destruct i as [|j]; cbn [val_alt nth_error].
      - left. exists a. split; [reflexivity|apply Ha].
      - apply IH. }
    destruct Haux as [(a & Hn & Hv)| ->]; [eapply veq_choice; eauto|apply veq_same].
  - cbn [var_val]. apply veq_tag. apply IHt.
  - destruct v; try apply veq_same. cbn [var_val]. apply veq_opt. apply IHt.
Qed.

(* ---------------- C03 for BER on the model ---------------- *)

Theorem ber_complete t oc v bs rest :
  wf_ty t = true -> not_opt t = true -> wt0 t v = true ->
  ber_var t oc v = Some bs -> zlen bs <= rssize_max ->
  ber_dec t (bs ++ rest) = Some (var_val t oc v, rest) /\ veq t v (var_val t oc v).
Proof.
  intros Hwf Hno Hwt Hd Hl. split; [|apply var_val_veq].
  apply var_decodes_all; try assumption. apply opt_ok_not_opt. exact Hno.
Qed.

(* what asn_decode reports: RC_OK, the value, the full length consumed *)
Theorem ber_complete_decode t oc v bs :
  wf_ty t = true -> not_opt t = true -> wt0 t v = true ->
  ber_var t oc v = Some bs -> zlen bs <= rssize_max ->
  ber_decode t bs = Some (var_val t oc v, zlen bs).
Proof.
  intros Hwf Hno Hwt Hd Hl. unfold ber_decode.
  destruct (ber_complete t oc v bs [] Hwf Hno Hwt Hd Hl) as [H _]. rewrite app_nil_r in H.
  rewrite H. f_equal. f_equal. unfold zlen. cbn [length]. lia.
Qed.

(* without SET OF reordering the decoded value is the value *)
Lemma permute_nil {A} (l : list A) : permute [] l = l.
Proof. induction l as [|x l IH]; cbn [permute hd tl]; [reflexivity|]. rewrite IH. reflexivity. Qed.

(* ---------------- DER is the variant with the canonical choices ---------------- *)

Lemma vtlv_canon tg c content : vtlv LShort tg c content = tlv tg c content.
Proof. destruct c; reflexivity. Qed.

Theorem ber_var_canon t : forall v, wt t v = true -> ber_var t ch_canon v = der t v.
Proof.
  induction t using ty_ind'; intros v Hw;
    try (destruct v; try discriminate; cbn [ber_var der ch_lf ch_canon]; rewrite vtlv_canon; reflexivity).
  - (* SEQUENCE *)
    destruct v; try discriminate. cbn [ber_var der ch_lf ch_subs ch_canon].
    assert (E : var_members ber_var [] ms vs = enc_members der ms vs).
    { cbn [wt] in Hw. revert vs Hw.
      induction H as [|m ms' Hm Hms IH]; intros vs Hw; destruct vs as [|v vs']; try discriminate; [reflexivity|].
      apply andb_true_iff in Hw. destruct Hw as [H1 H2].
      cbn [var_members enc_members ch_hd tl]. rewrite (Hm v H1). rewrite (IH vs' H2). reflexivity. }
    rewrite E. destruct (enc_members der ms vs); [rewrite vtlv_canon|]; reflexivity.
  - (* SEQUENCE OF *)
    destruct v; try discriminate. cbn [ber_var der ch_lf ch_subs ch_canon]. cbn [wt] in Hw.
    assert (E : var_elems (ber_var t) [] vs = option_all (map (der t) vs)).
    { induction vs as [|v vs' IH]; [reflexivity|].
      cbn [forallb] in Hw. apply andb_true_iff in Hw. destruct Hw as [H1 H2].
      cbn [var_elems map option_all ch_hd tl]. rewrite (IHt v H1). rewrite (IH H2).
      destruct (der t v); [|reflexivity]. destruct (option_all (map (der t) vs')); reflexivity. }
    rewrite E. destruct (option_all (map (der t) vs)); [rewrite vtlv_canon|]; reflexivity.
  - (* SET OF: a well-typed value is stored in encoding order *)
    destruct v; try discriminate. cbn [ber_var der ch_lf ch_subs ch_perm ch_canon]. cbn [wt] in Hw.
    apply andb_true_iff in Hw. destruct Hw as [Hw Hs].
    assert (E : var_elems (ber_var t) [] vs = option_all (map (der t) vs)).
    { clear Hs. induction vs as [|v vs' IH]; [reflexivity|].
      cbn [forallb] in Hw. apply andb_true_iff in Hw. destruct Hw as [H1 H2].
      cbn [var_elems map option_all ch_hd tl]. rewrite (IHt v H1). rewrite (IH H2).
      destruct (der t v); [|reflexivity]. destruct (option_all (map (der t) vs')); reflexivity. }
    rewrite E. destruct (option_all (map (der t) vs)) as [cs|]; [|reflexivity].
    apply sorted_flag in Hs. rewrite Hs. rewrite permute_nil. rewrite vtlv_canon. reflexivity.
  - (* CHOICE *)
    destruct v; try discriminate. cbn [ber_var der]. cbn [wt] in Hw. revert i Hw.
    induction H as [|a r Ha Hr IH]; intros i Hw; destruct i; try discriminate; cbn [var_alt enc_alt].
    + apply Ha. exact Hw.
    + apply IH. exact Hw.
  - (* EXPLICIT tag *)
    cbn [ber_var der ch_lf ch_subs ch_hd ch_canon]. cbn [wt] in Hw. rewrite (IHt v Hw).
    destruct (der t v); [rewrite vtlv_canon|]; reflexivity.
  - destruct v; try discriminate; cbn [ber_var der]; [reflexivity|]. cbn [wt] in Hw. apply IHt. exact Hw.
Qed.

(* and the canonical choices do not reorder anything: the decoded value is the value *)
Theorem var_val_canon t : forall v, var_val t ch_canon v = v.
Proof.
  induction t using ty_ind'; intros v; try reflexivity.
  - destruct v; try reflexivity. cbn [var_val ch_subs ch_canon]. f_equal.
    revert vs. induction H as [|m ms' Hm Hms IH]; intros vs; [destruct vs; reflexivity|].
    destruct vs as [|v vs']; [reflexivity|]. cbn [val_members ch_hd tl]. rewrite Hm, IH. reflexivity.
  - destruct v; try reflexivity. cbn [var_val ch_subs ch_canon]. f_equal.
    induction vs as [|v vs' IH]; [reflexivity|]. cbn [val_elems ch_hd tl]. rewrite IHt, IH. reflexivity.
  - destruct v; try reflexivity. cbn [var_val ch_subs ch_perm ch_canon]. f_equal. rewrite permute_nil.
    induction vs as [|v vs' IH]; [reflexivity|]. cbn [val_elems ch_hd tl]. rewrite IHt, IH. reflexivity.
  - destruct v; try reflexivity. cbn [var_val]. f_equal.
    revert i. induction H as [|a r Ha Hr IH]; intros i; [destruct i; reflexivity|].
    destruct i; cbn [val_alt]; [apply Ha|apply IH].
  - cbn [var_val ch_subs ch_hd ch_canon]. apply IHt.
  - destruct v; try reflexivity. cbn [var_val]. f_equal. apply IHt.
Qed.

(* non-vacuity: [7] EXPLICIT INTEGER, value 5, outer length indefinite, inner
   length in long form with two leading zero octets: a7 80 02 83 00 00 01 05 00 00 *)
Example ber_complete_instance :
  let t := TTag 30 (TInt 8 (ICon None None false)) in
  let oc := Ch LIndef [] [Ch (LLong 3) [] []] in
  ber_var t oc (VInt 5) = Some [167; 128; 2; 131; 0; 0; 1; 5; 0; 0] /\
  ber_decode t [167; 128; 2; 131; 0; 0; 1; 5; 0; 0] = Some (VInt 5, 10) /\
  wf_ty t = true /\ wt0 t (VInt 5) = true.
Proof. vm_compute. repeat split. Qed.

(* SET OF INTEGER {1,2,3} written in the order 3,2,1 *)
Example ber_complete_instance_setof :
  let t := TSetOf 68 (SCon 0 None false) (TInt 8 (ICon None None false)) in
  let oc := Ch LShort [2; 1]%nat [] in
  ber_var t oc (VList [VInt 1; VInt 2; VInt 3]) = Some [49; 9; 2; 1; 3; 2; 1; 2; 2; 1; 1] /\
  ber_decode t [49; 9; 2; 1; 3; 2; 1; 2; 2; 1; 1] = Some (VList [VInt 3; VInt 2; VInt 1], 11).
Proof. vm_compute. repeat split. Qed.
