(* Rt/XerEncProofs.v — the XER encoders of Rt/XerEnc.v keep the size contract of the
   encoder API (C07) at every nesting depth: whatever the value, what the encoder
   reports is the number of octets it delivered, and it stops at the first failing
   callback invocation with -1.  Proved by closing the accounting macros under
   composition ([scr]), then structural induction over the named value tree. *)
From Coq Require Import ZArith List Bool Lia ZifyBool.
From A1 Require Import Base.Bytes Leaf.Decimal Rt.AppApi Rt.AppApiProofs Rt.XerEnc.
Import ListNotations.
Local Open Scope Z_scope.

(* [st] offers the chunks [cs] in order, stops at the first failure (result None), and when all
   succeed returns [r]; a reported size is the size of the chunks *)
Definition scr (st : step) (cs : list bytes) (r : option Z) : Prop :=
  (forall S (cb : cbT S) s, st S cb s = let (s', ok) := emit cb s cs in (s', if ok then r else None)) /\
  (forall n, r = Some n -> n = total cs).

Definition scripted_step (st : step) : Prop := exists cs r, scr st cs r.

Lemma scr_ret0 : scr ret0 [] (Some 0).
Proof. split; [reflexivity | intros n H; inversion H; reflexivity]. Qed.

Lemma scr_failed : scr failed [] None.
Proof. split; [reflexivity | discriminate]. Qed.

Lemma scr_cb1 c : scr (cb1 c) [c] (Some (zlen c)).
Proof.
  split.
  - intros S cb s. unfold cb1. cbn [emit]. destruct (cb s c) as [s1 ok]. destruct ok; reflexivity.
  - intros n H. inversion H. rewrite total_cons, total_nil. lia.
Qed.

Lemma scr_cb3 a b c : scr (cb3 a b c) [a; b; c] (Some (zlen a + zlen b + zlen c)).
Proof.
  split.
  - intros S cb s. unfold cb3. cbn [emit].
    destruct (cb s a) as [s1 ok1]. destruct ok1; cbn [negb]; [|reflexivity].
    destruct (cb s1 b) as [s2 ok2]. destruct ok2; cbn [negb]; [|reflexivity].
    destruct (cb s2 c) as [s3 ok3]. destruct ok3; reflexivity.
  - intros n H. inversion H. rewrite !total_cons, total_nil. lia.
Qed.

(* the composition a; f(what a added): the chunks of both, the sum of both *)
Lemma scr_then_n a f cs1 r1 :
  scr a cs1 r1 ->
  (forall n, r1 = Some n -> exists cs2 r2, scr (f n) cs2 r2) ->
  exists cs r, scr (then_n a f) cs r /\
    (r1 = None -> cs = cs1 /\ r = None) /\
    (forall n, r1 = Some n -> exists cs2 r2, scr (f n) cs2 r2 /\ cs = cs1 ++ cs2 /\
                                             r = match r2 with Some m => Some (n + m) | None => None end).
Proof.
  intros [Ha Hta] Hf. destruct r1 as [n|].
  - destruct (Hf n eq_refl) as (cs2 & r2 & [Hb Htb]).
    exists (cs1 ++ cs2), (match r2 with Some m => Some (n + m) | None => None end).
    split; [split|split].
    + intros S cb s. unfold then_n. rewrite Ha, emit_app.
      destruct (emit cb s cs1) as [s1 ok1]. destruct ok1; [|reflexivity].
      rewrite Hb. destruct (emit cb s1 cs2) as [s2 ok2]. destruct ok2; [|reflexivity].
      destruct r2; reflexivity.
    + intros k Hk. destruct r2 as [m|]; [|discriminate]. inversion Hk.
      rewrite total_app, <- (Hta n eq_refl), <- (Htb m eq_refl). reflexivity.
    + discriminate.
    + intros k Hk. inversion Hk; subst k. exists cs2, r2. repeat split; assumption.
  - exists cs1, None. split; [split|split].
    + intros S cb s. unfold then_n. rewrite Ha.
      destruct (emit cb s cs1) as [s1 ok1]. destruct ok1; reflexivity.
    + discriminate.
    + intros _. split; reflexivity.
    + discriminate.
Qed.

Lemma ss_then_n a f : scripted_step a -> (forall n, scripted_step (f n)) -> scripted_step (then_n a f).
Proof.
  intros (cs1 & r1 & Ha) Hf.
  destruct (scr_then_n a f cs1 r1 Ha (fun n _ => Hf n)) as (cs & r & H & _).
  exists cs, r. exact H.
Qed.

Lemma ss_seqs a b : scripted_step a -> scripted_step b -> scripted_step (seqs a b).
Proof. intros Ha Hb. apply ss_then_n; [exact Ha | intros _; exact Hb]. Qed.

Lemma ss_ret0 : scripted_step ret0.
Proof. eexists; eexists; apply scr_ret0. Qed.
Lemma ss_failed : scripted_step failed.
Proof. eexists; eexists; apply scr_failed. Qed.
Lemma ss_cb1 c : scripted_step (cb1 c).
Proof. eexists; eexists; apply scr_cb1. Qed.
Lemma ss_cb3 a b c : scripted_step (cb3 a b c).
Proof. eexists; eexists; apply scr_cb3. Qed.

(* exact form of a composition whose parts both succeed *)
Lemma scr_seqs_ok a b cs1 n cs2 m :
  scr a cs1 (Some n) -> scr b cs2 (Some m) -> scr (seqs a b) (cs1 ++ cs2) (Some (n + m)).
Proof.
  intros [Ha Hta] [Hb Htb]. split.
  - intros S cb s. unfold seqs, then_n. rewrite Ha, emit_app.
    destruct (emit cb s cs1) as [s1 ok1]. destruct ok1; [|reflexivity].
    rewrite Hb. destruct (emit cb s1 cs2) as [s2 ok2]. destruct ok2; reflexivity.
  - intros k Hk. inversion Hk. rewrite total_app, <- (Hta n eq_refl), <- (Htb m eq_refl). reflexivity.
Qed.

(* ---------------- ASN__TEXT_INDENT: every level, no bound ---------------- *)

Lemma scr_indent_loop : forall level, scr (indent_loop level) (repeat sp4 level) (Some (4 * Z.of_nat level)).
Proof.
  induction level as [|k IH].
  - exact scr_ret0.
  - cbn [indent_loop repeat].
    replace (4 * Z.of_nat (S k)) with (zlen sp4 + 4 * Z.of_nat k) by (unfold zlen, sp4; cbn [length]; lia).
    change (sp4 :: repeat sp4 k) with ([sp4] ++ repeat sp4 k).
    apply scr_seqs_ok; [apply scr_cb1 | exact IH].
Qed.

(* the newline and ONE invocation of four spaces per level, every one of them counted *)
Theorem text_indent_script : forall (nl : bool) (level : nat),
  scr (text_indent nl level)
      ((if nl then [nl1] else []) ++ repeat sp4 level)
      (Some ((if nl then 1 else 0) + 4 * Z.of_nat level)).
Proof.
  intros nl level. unfold text_indent. apply scr_seqs_ok.
  - destruct nl; [apply scr_cb1 | exact scr_ret0].
  - apply scr_indent_loop.
Qed.

Lemma ss_text_indent nl level : scripted_step (text_indent nl level).
Proof. eexists; eexists; apply text_indent_script. Qed.

Lemma ss_ind can level : scripted_step (ind can level).
Proof. unfold ind. destruct can; [apply ss_ret0 | apply ss_text_indent]. Qed.

(* ---------------- OCTET STRING ---------------- *)

Lemma ss_fold_cb1 (f : bytes -> bytes) rows :
  scripted_step (fold_right (fun r acc => seqs (cb1 (f r)) acc) ret0 rows).
Proof.
  induction rows as [|r tl IH]; cbn [fold_right]; [apply ss_ret0 | apply ss_seqs; [apply ss_cb1 | exact IH]].
Qed.

Lemma ss_oct_can bs : scripted_step (oct_can bs).
Proof.
  unfold oct_can. destruct (chunk_by (length bs) 25 bs) as [|r tl]; [apply ss_cb1|].
  apply (ss_fold_cb1 (flat_map hex2)).
Qed.

Lemma ss_oct_rows il : forall rows, scripted_step (oct_rows il rows).
Proof.
  induction rows as [|r tl IH]; [apply ss_ret0|].
  destruct tl as [|r2 tl].
  - cbn [oct_rows]. apply ss_seqs; [apply ss_cb1 | apply ss_text_indent].
  - change (oct_rows il (r :: r2 :: tl)) with
      (seqs (cb1 (row3 r)) (seqs (text_indent true il) (oct_rows il (r2 :: tl)))).
    apply ss_seqs; [apply ss_cb1 | apply ss_seqs; [apply ss_text_indent | exact IH]].
Qed.

Lemma ss_oct_basic bs il : scripted_step (oct_basic bs il).
Proof.
  unfold oct_basic. destruct bs as [|b tl]; [apply ss_ret0|].
  destruct (zlen (b :: tl) <=? 16); [apply ss_cb1|].
  apply ss_seqs; [apply ss_cb1 | apply ss_seqs; [apply ss_text_indent | apply ss_oct_rows]].
Qed.

(* ---------------- X OF items ---------------- *)

Lemma ss_seqof_item can mode il child :
  (forall l, scripted_step (child l)) -> scripted_step (seqof_item can mode il child).
Proof.
  intros Hc. unfold seqof_item. apply ss_seqs; [|apply ss_seqs].
  - destruct mode; try apply ss_ret0. apply ss_seqs; [apply ss_ind | apply ss_cb3].
  - apply ss_then_n; [apply Hc|]. intros n.
    destruct mode; try apply ss_ret0;
      (destruct (n =? 0); [apply ss_seqs; [apply ss_ind | apply ss_cb3] | apply ss_ret0]).
  - destruct mode; try apply ss_ret0. apply ss_cb3.
Qed.

Lemma ss_setof_item can mode il child :
  (forall l, scripted_step (child l)) -> scripted_step (setof_item can mode il child).
Proof.
  intros Hc. unfold setof_item. apply ss_seqs; [|apply ss_seqs; [|apply ss_seqs]].
  - destruct mode; try apply ss_ret0. apply ss_seqs; [apply ss_ind | apply ss_cb3].
  - destruct mode; try apply ss_ret0. apply ss_ind.
  - apply ss_then_n; [apply Hc|]. intros n.
    destruct mode; try apply ss_ret0; (destruct (n =? 0); [apply ss_cb3 | apply ss_ret0]).
  - destruct mode; try apply ss_ret0. apply ss_cb3.
Qed.

(* ---------------- CANONICAL-XER SET OF: buffers, sorted ---------------- *)

Lemma emit_buf_cb : forall cs s, emit buf_cb s cs = (s ++ concat cs, true).
Proof.
  induction cs as [|c cs IH]; intros s; cbn [emit concat].
  - rewrite app_nil_r. reflexivity.
  - unfold buf_cb at 1. rewrite IH, <- app_assoc. reflexivity.
Qed.

(* an element encoded into its own buffer: the buffer holds what it counted *)
Lemma scripted_into_buffer st : scripted_step st ->
  exists b r, st bytes buf_cb [] = (b, r) /\ (forall n, r = Some n -> n = zlen b).
Proof.
  intros (cs & r & [H Ht]). exists (concat cs), r. split.
  - rewrite H, emit_buf_cb. reflexivity.
  - intros n Hn. rewrite (Ht n Hn). reflexivity.
Qed.

Lemma total_insert_sorted x : forall l, total (insert_sorted x l) = zlen x + total l.
Proof.
  induction l as [|y tl IH]; cbn [insert_sorted].
  - rewrite total_cons, total_nil. reflexivity.
  - destruct (lex_le x y).
    + rewrite total_cons. reflexivity.
    + rewrite !total_cons, IH. lia.
Qed.

Lemma total_sort_bufs : forall l, total (sort_bufs l) = total l.
Proof.
  induction l as [|x tl IH]; [reflexivity|].
  unfold sort_bufs in *. cbn [fold_right]. rewrite total_insert_sorted, IH, total_cons. reflexivity.
Qed.

Lemma scr_emit_bufs : forall l, scr (emit_bufs l) l (Some (total l)).
Proof.
  induction l as [|b tl IH].
  - exact scr_ret0.
  - unfold emit_bufs. cbn [fold_right]. rewrite total_cons.
    change (b :: tl) with ([b] ++ tl).
    apply scr_seqs_ok; [apply scr_cb1 | exact IH].
Qed.

Lemma ss_emit_bufs l : scripted_step (emit_bufs l).
Proof. eexists; eexists; apply scr_emit_bufs. Qed.

(* ---------------- the induction principle of the nested value tree ---------------- *)

Section XvInd.
  Variable P : xv -> Prop.
  Hypothesis Hbool : forall b, P (XVBool b).
  Hypothesis Hnull : P XVNull.
  Hypothesis Hint : forall z, P (XVInt z).
  Hypothesis Hoct : forall bs, P (XVOct bs).
  Hypothesis Hseq : forall ms, Forall (fun m => P (snd m)) ms -> P (XVSeq ms).
  Hypothesis Hchoice : forall nm v, P v -> P (XVChoice nm v).
  Hypothesis Hnone : P XVChoiceNone.
  Hypothesis Hseqof : forall mode vs, Forall P vs -> P (XVSeqOf mode vs).
  Hypothesis Hsetof : forall mode vs, Forall P vs -> P (XVSetOf mode vs).
  Hypothesis Hmissing : P XVMissing.

  Fixpoint xv_ind' (v : xv) : P v :=
    match v with
    | XVBool b => Hbool b
    | XVNull => Hnull
    | XVInt z => Hint z
    | XVOct bs => Hoct bs
    | XVSeq ms =>
        Hseq ms ((fix go (ms : list (bytes * xv)) : Forall (fun m => P (snd m)) ms :=
                    match ms with
                    | [] => Forall_nil _
                    | m :: tl => Forall_cons m (xv_ind' (snd m)) (go tl)
                    end) ms)
    | XVChoice nm v => Hchoice nm v (xv_ind' v)
    | XVChoiceNone => Hnone
    | XVSeqOf mode vs =>
        Hseqof mode vs ((fix go (vs : list xv) : Forall P vs :=
                           match vs with [] => Forall_nil _ | e :: tl => Forall_cons e (xv_ind' e) (go tl) end) vs)
    | XVSetOf mode vs =>
        Hsetof mode vs ((fix go (vs : list xv) : Forall P vs :=
                           match vs with [] => Forall_nil _ | e :: tl => Forall_cons e (xv_ind' e) (go tl) end) vs)
    | XVMissing => Hmissing
    end.
End XvInd.

(* ---------------- every encoder of the algebra, every value, every level ---------------- *)

Theorem xenc_scripted : forall can v il, scripted_step (xenc can v il).
Proof.
  intros can v. induction v using xv_ind'; intros il; cbn [xenc].
  - apply ss_cb1.
  - apply ss_ret0.
  - apply ss_cb1.
  - destruct can; [apply ss_oct_can | apply ss_oct_basic].
  - (* SEQUENCE *)
    apply ss_seqs; [|apply ss_ind].
    induction H as [|[nm mv] tl Hm _ IH]; [apply ss_ret0|].
    apply ss_seqs; [|exact IH].
    destruct (is_missing mv); [apply ss_failed|].
    apply ss_seqs; [apply ss_ind|]. apply ss_seqs; [apply ss_cb3|].
    apply ss_seqs; [apply Hm | apply ss_cb3].
  - (* CHOICE *)
    destruct (is_missing v); [apply ss_failed|].
    apply ss_seqs; [apply ss_ind|]. apply ss_seqs; [apply ss_cb3|].
    apply ss_seqs; [apply IHv|]. apply ss_seqs; [apply ss_cb3 | apply ss_ind].
  - apply ss_failed.
  - (* SEQUENCE OF *)
    apply ss_seqs; [|apply ss_ind].
    induction H as [|e tl He _ IH]; [apply ss_ret0|].
    apply ss_seqs; [|exact IH].
    destruct (is_missing e); [apply ss_ret0|].
    apply ss_seqof_item. intros l. apply He.
  - (* SET OF *)
    destruct can.
    + match goal with |- scripted_step (match collect ?l with _ => _ end) => destruct (collect l) as [bufs|] end;
        [apply ss_emit_bufs | apply ss_failed].
    + apply ss_seqs; [|apply ss_ind].
      induction H as [|e tl He _ IH]; [apply ss_ret0|].
      apply ss_seqs; [|exact IH].
      destruct (is_missing e); [apply ss_ret0|].
      apply ss_setof_item. intros l. apply He.
  - apply ss_failed.
Qed.

Theorem xer_encode_scripted : forall can tag v, scripted_step (xer_encode can tag v).
Proof.
  intros can tag v. unfold xer_encode. destruct (is_missing v); [apply ss_failed|].
  apply ss_seqs; [apply ss_cb3|]. apply ss_seqs; [apply xenc_scripted | apply ss_cb3].
Qed.

(* ---------------- from steps to the API contract ---------------- *)

Lemma step_inner_well_behaved st : scripted_step st -> well_behaved false (step_inner st).
Proof.
  intros (cs & r & [H Ht]).
  exists {| chunks := cs; ending := match r with Some n => IOk n | None => IFail true end; on_cb_fail := IFail true |}.
  split.
  - intros S cb s. unfold step_inner, run_script. cbn [chunks ending on_cb_fail].
    rewrite H. destruct (emit cb s cs) as [s' ok]. destruct ok; reflexivity.
  - split; [reflexivity|]. cbn [ending chunks]. destruct r as [n|]; [apply Ht; reflexivity | exact I].
Qed.

Theorem xer_encoder_well_behaved : forall can tag v, well_behaved false (xer_encoder can tag v).
Proof. intros. apply step_inner_well_behaved, xer_encode_scripted. Qed.

(* through asn_encode: the size the application is told is the number of octets its callback got, at every
   nesting depth; a callback failing at any invocation k gives -1/EIO after exactly k+1 invocations with
   the first k chunks delivered; the asserts of asn_encode stay quiet *)
Theorem xer_api : forall can tag v, exists calls delivered r,
  fault_free_run false (xer_encoder can tag v) calls delivered r /\
  calls = length delivered /\
  (0 <= encoded r -> encoded r = total delivered /\ err r = E0) /\
  (encoded r < 0 -> encoded r = -1 /\ (err r = EBADF \/ err r = ENOENT)) /\
  (forall k, (k < calls)%nat ->
     asn_encode (Some (user_cb (Some k))) true (Op false (xer_encoder can tag v)) (0%nat, []) =
     Done ((S k, firstn k delivered), {| encoded := -1; err := EIO |})).
Proof.
  intros can tag v.
  pose proof (xer_encoder_well_behaved can tag v) as Hwb.
  destruct (size_accounting false _ Hwb) as (calls & delivered & r & Hrun & Hc & Hok & Hfail).
  exists calls, delivered, r.
  split; [exact Hrun|]. split; [exact Hc|]. split; [exact Hok|]. split; [exact Hfail|].
  intros k Hk. exact (cb_failure_eio false _ Hwb calls delivered r Hrun k Hk).
Qed.

(* the CANONICAL-XER SET OF detour keeps the books as well: what the sorted buffers hold is
   what the elements counted (the C's assert(control_size == er.encoded) cannot fire) *)
Theorem setof_canonical_control_size : forall mode vs il bufs,
  collect ((fix go (vs : list xv) : list (bytes * option Z) :=
              match vs with
              | [] => []
              | e :: tl => if is_missing e then go tl
                           else setof_item true mode il (fun l => xenc true e l) bytes buf_cb [] :: go tl
              end) vs) = Some bufs ->
  scr (xenc true (XVSetOf mode vs) il) (sort_bufs bufs) (Some (total bufs)).
Proof.
  intros mode vs il bufs H. cbn [xenc]. rewrite H. rewrite <- (total_sort_bufs bufs). apply scr_emit_bufs.
Qed.

(* ---------------- depth made explicit: a chain nested d levels deep ---------------- *)

(* SEQUENCE { <nm> <chain> } nested d times around a leaf *)
Fixpoint chain (nm : bytes) (leaf : xv) (d : nat) : xv :=
  match d with
  | O => leaf
  | S k => XVSeq [(nm, chain nm leaf k)]
  end.

(* BASIC-XER size of the chain: per level the opening and closing tag and two indentations, whose
   sizes grow with the level; no level is exempt *)
Fixpoint chain_size (nmlen leafsize : Z) (il : nat) (d : nat) : Z :=
  match d with
  | O => leafsize
  | S k => (1 + 4 * Z.of_nat il) + (nmlen + 2) + chain_size nmlen leafsize (S il) k + (nmlen + 3)
           + (1 + 4 * Z.of_nat (pred il))
  end.

Theorem chain_basic_xer_size : forall nm leaf cs0 n0,
  (forall il, scr (xenc false leaf il) cs0 (Some n0)) ->
  forall d il, exists cs, scr (xenc false (chain nm leaf d) il) cs (Some (chain_size (zlen nm) n0 il d)).
Proof.
  intros nm leaf cs0 n0 Hleaf. induction d as [|k IH]; intros il.
  - exists cs0. apply Hleaf.
  - destruct (IH (S il)) as (csk & Hk).
    cbn [chain xenc chain_size].
    assert (Hm : is_missing (chain nm leaf k) = false).
    { destruct k; cbn [chain]; [|reflexivity].
      destruct leaf; try reflexivity.
      destruct (Hleaf O) as [Hf _]. specialize (Hf bytes buf_cb []).
      cbn [xenc failed] in Hf. rewrite emit_buf_cb in Hf. discriminate. }
    rewrite Hm.
    eexists.
    replace (1 + 4 * Z.of_nat il + (zlen nm + 2) + chain_size (zlen nm) n0 (S il) k + (zlen nm + 3) + (1 + 4 * Z.of_nat (Init.Nat.pred il)))
      with (((1 + 4 * Z.of_nat il) + ((zlen lt + zlen nm + zlen gt) + (chain_size (zlen nm) n0 (S il) k + (zlen ltsl + zlen nm + zlen gt))) + 0)
            + (1 + 4 * Z.of_nat (Init.Nat.pred il)))
      by (unfold zlen, lt, gt, ltsl; cbn [length]; lia).
    apply scr_seqs_ok; [|unfold ind; apply (text_indent_script true)].
    apply scr_seqs_ok; [|exact scr_ret0].
    apply scr_seqs_ok; [unfold ind; apply (text_indent_script true)|].
    apply scr_seqs_ok; [apply scr_cb3|].
    apply scr_seqs_ok; [exact Hk | apply scr_cb3].
Qed.

(* ---------------- non-vacuity ---------------- *)

Definition ex_rc : xv :=
  XVSeq [([118], XVInt 10); ([99], XVChoice [109] (XVSeq [([118], XVInt 2); ([99], XVChoice [101] XVNull)]))].

Example ex_xer_basic_counts :
  match model_xer_encode false [82; 67] ex_rc None with
  | Done ((calls, delivered), r) => encoded r = total delivered /\ calls = length delivered /\ (calls = 74)%nat
  | Aborted _ => False
  end.
Proof. vm_compute. repeat split. Qed.

Example ex_xer_cb_failure :
  model_xer_encode false [82; 67] ex_rc (Some 7%nat) =
  Done ((8%nat, [[60]; [82; 67]; [62]; [10]; [32; 32; 32; 32]; [60]; [118]]), {| encoded := -1; err := EIO |}).
Proof. vm_compute. reflexivity. Qed.

Example ex_xer_missing_member :
  match model_xer_encode true [84] (XVSeq [([97], XVBool true); ([98], XVMissing)]) None with
  | Done (_, r) => r = {| encoded := -1; err := EBADF |}
  | Aborted _ => False
  end.
Proof. vm_compute. reflexivity. Qed.
