(* Rt/Types.v — the type algebra and abstract values of the constructed-type
   layer (first milestone).  A type carries the tags the ASN.1 source gives it
   after IMPLICIT/EXPLICIT/AUTOMATIC tagging has been resolved:
     - every non-CHOICE base type has exactly one own tag [tg] (its universal
       tag or the IMPLICIT replacement), a tag being the C's ber_tlv_tag_t
       (number * 4 + class);
     - [TTag tg t] is an EXPLICIT tag around t;
     - [TOpt t] marks an OPTIONAL component and occurs only as a direct member
       of a SEQUENCE.
   Type references are inlined by the generator (no recursion in this layer). *)
From Coq Require Import ZArith List Bool.
Import ListNotations.
Local Open Scope Z_scope.

(* INTEGER value constraint: bounds (None = MIN / MAX) and extension marker.
   "no constraint" = ICon None None false. *)
Inductive icon := ICon (lo hi : option Z) (ext : bool).

(* SIZE constraint: lower bound, upper bound (None = MAX), extension marker.
   "no constraint" = SCon 0 None false. *)
Inductive scon := SCon (lo : Z) (hi : option Z) (ext : bool).

Inductive ty :=
| TBool (tg : Z)
| TNull (tg : Z)
| TInt (tg : Z) (c : icon)
| TOct (tg : Z) (s : scon)
| TSeq (tg : Z) (ms : list ty)
| TSeqOf (tg : Z) (s : scon) (e : ty)
| TSetOf (tg : Z) (s : scon) (e : ty)
| TChoice (alts : list ty)
| TTag (tg : Z) (t : ty)
| TOpt (t : ty).

Inductive val :=
| VBool (b : bool)
| VNull
| VInt (z : Z)
| VOct (bs : list Z)
| VSeq (vs : list val)          (* one entry per member; optional ones are VNone / VSome *)
| VList (vs : list val)         (* SEQUENCE OF / SET OF *)
| VChoice (i : nat) (v : val)   (* index in definition order *)
| VNone
| VSome (v : val).

(* universal tags as ber_tlv_tag_t *)
Definition utag (n : Z) : Z := n * 4.
Definition tag_class (tg : Z) : Z := tg mod 4.
Definition tag_number (tg : Z) : Z := tg / 4.

(* the outermost tags a value of the type can start with *)
Fixpoint first_tags (t : ty) : list Z :=
  match t with
  | TBool tg | TNull tg | TInt tg _ | TOct tg _ | TSeq tg _ | TSeqOf tg _ _ | TSetOf tg _ _ => [tg]
  | TChoice alts => flat_map first_tags alts
  | TTag tg _ => [tg]
  | TOpt t => first_tags t
  end.

Definition is_opt (t : ty) : bool := match t with TOpt _ => true | _ => false end.

Definition in_icon (c : icon) (z : Z) : bool :=
  match c with
  | ICon lo hi _ =>
      (match lo with Some l => l <=? z | None => true end) &&
      (match hi with Some h => z <=? h | None => true end)
  end.

Definition in_scon (s : scon) (n : Z) : bool :=
  match s with
  | SCon lo hi _ => (lo <=? n) && (match hi with Some h => n <=? h | None => true end)
  end.

Definition icon_ext (c : icon) : bool := match c with ICon _ _ e => e end.
Definition scon_ext (s : scon) : bool := match s with SCon _ _ e => e end.
