(* Rt/UperStd.v — where the C's UPER encoder is the standard one.
   [std_safe t]: no semi-constrained INTEGER.  Under it the model of the C (std = false) and the
   X.691 reading (std = true) produce the same bits, for every value. *)
From Coq Require Import ZArith List Lia Bool ZifyBool.
From A1 Require Import Base.Bytes Rt.Types Rt.TypesInd Rt.Comb Rt.Der Rt.Uper.
Import ListNotations.
Local Open Scope Z_scope.

Definition choice_ok (alts : list ty) : bool :=
  forallb (fun i => c_index alts i =? canonical_index alts i) (seq 0 (length alts)).

Definition int_std_safe (c : icon) : bool :=
  match c with
  | ICon (Some _) None _ => false
  | _ => true
  end.

Fixpoint std_safe (t : ty) : bool :=
  match t with
  | TInt _ c => int_std_safe c
  | TSeq _ ms => forallb std_safe ms
  | TSeqOf _ _ e | TSetOf _ _ e => std_safe e
  | TChoice alts => forallb std_safe alts
  | TTag _ t' | TOpt t' => std_safe t'
  | _ => true
  end.

Lemma uper_int_std c z : int_std_safe c = true -> uper_int false c z = uper_int true c z.
Proof.
  destruct c as [[l|] [h|] e]; cbn [int_std_safe]; intros H; try discriminate; reflexivity.
Qed.

Lemma enc_members_ext {B} (f g : ty -> val -> option (list B)) ms :
  Forall (fun m => forall v, f m v = g m v) ms ->
  forall vs, enc_members f ms vs = enc_members g ms vs.
Proof.
  induction 1 as [|m ms' Hm Hms IH]; intros vs; destruct vs as [|v vs']; cbn [enc_members]; auto.
  rewrite Hm, IH. reflexivity.
Qed.

Lemma enc_alt_ext {B} (f g : ty -> val -> option B) v alts :
  Forall (fun a => forall v, f a v = g a v) alts ->
  forall i, enc_alt f v alts i = enc_alt g v alts i.
Proof.
  induction 1 as [|a r Ha Hr IH]; intros i; destruct i; cbn [enc_alt]; auto.
Qed.

Lemma map_ext_val {B} (f g : val -> B) vs : (forall v, f v = g v) -> map f vs = map g vs.
Proof. intros H. induction vs; cbn; congruence. Qed.

Lemma choice_ok_index alts i : choice_ok alts = true -> (i < length alts)%nat ->
  c_index alts i = canonical_index alts i.
Proof.
  unfold choice_ok. rewrite forallb_forall. intros H Hi.
  specialize (H i). rewrite in_seq in H. specialize (H ltac:(lia)). lia.
Qed.

Lemma enc_alt_some_lt {B} (f : ty -> val -> option B) v alts : forall i b,
  enc_alt f v alts i = Some b -> (i < length alts)%nat.
Proof.
  induction alts as [|a r IH]; intros i b H; destruct i; cbn [enc_alt length] in *; try discriminate; try lia.
  apply IH in H. lia.
Qed.

Theorem uper_model_is_standard t : std_safe t = true -> forall v, uper false t v = uper true t v.
Proof.
  induction t using ty_ind'; intros Hs v; cbn [std_safe] in Hs.
  - destruct v; reflexivity.
  - destruct v; reflexivity.
  - destruct v; try reflexivity. cbn [uper]. apply uper_int_std. exact Hs.
  - destruct v; reflexivity.
  - destruct v; try reflexivity. cbn [uper].
    rewrite (enc_members_ext (uper false) (uper true) ms); [reflexivity|].
    rewrite forallb_forall in Hs. rewrite Forall_forall in *. intros m Hm. apply H; auto.
  - destruct v; try reflexivity. cbn [uper].
    rewrite (map_ext_val (uper false t) (uper true t)); [reflexivity|]. apply IHt. exact Hs.
  - destruct v; try reflexivity. cbn [uper].
    rewrite (map_ext_val (uper false t) (uper true t)); [reflexivity|]. apply IHt. exact Hs.
  - destruct v; try reflexivity. cbn [uper].
    rewrite (enc_alt_ext (uper false) (uper true) v alts); [reflexivity|].
    rewrite forallb_forall in Hs. rewrite Forall_forall in *. intros a Ha. apply H; auto.
  - cbn [uper]. destruct v; apply IHt; exact Hs.
  - destruct v; try reflexivity. cbn [uper]. apply IHt. exact Hs.
Qed.

(* the two deviations, with witnesses (replayed on the C by checks/c02.py) *)
Theorem uper_semiconstrained_refuted :
  exists t v, uper_encode false t v <> uper_encode true t v.
Proof.
  exists (TInt 8 (ICon (Some 0) None false)), (VInt 128). vm_compute. discriminate.
Qed.

Theorem uper_semiconstrained_lb_refuted :
  exists t v, uper_encode false t v = None /\ uper_encode true t v <> None.
Proof.
  exists (TInt 8 (ICon (Some 5) None false)), (VInt 7). split; vm_compute; [reflexivity|discriminate].
Qed.

(* The CHOICE index deviation (generated to_canonical/from_canonical tables swapped)
   was a finding of this check and is repaired in /repo (commit b565b4c): the model
   of the C now uses the canonical index.  What the old tables computed, and that it
   differs from the canonical index on a non-involutive order, stays provable: *)
Theorem old_choice_tables_were_not_canonical :
  exists alts i, c_index alts i <> canonical_index alts i.
Proof.
  exists [TNull 10; TNull 2; TNull 6], 0%nat. vm_compute. discriminate.
Qed.

Example std_safe_example :
  std_safe (TSeq 64 [TInt 8 (ICon (Some 0) (Some 255) false); TOpt (TBool 4);
                     TChoice [TNull 20; TInt 8 (ICon None None false)]]) = true.
Proof. vm_compute. reflexivity. Qed.
