(* Rt/ConstraintsOpen.v — C08, wave 5.

   (1) Unions whose alternatives overlap, an open-ended one among them (libasn1fix _range_union as modelled by
       Fix/Crange.v [join] / [union_loop]): the right edge of an absorbed open-ended alternative is never lost.
       [join] compares the right edges with [edge_compare] (which knows MAX); the variant that compares the plain
       .value fields when both are values (seeded change C08-10) is stated as [join_values] and refuted.
   (2) A member stored by pointer (CHOICE alternative of a recursive type / under -findirect-choice, OPTIONAL member):
       the walker dispatches to the MEMBER's checker (memb_*_constraint_N when a constraint is written on the member,
       else the type's), whatever the storage.  [dispatch] has the storage flag as an argument and ignores it; the variant
       that hands a by-pointer member to the type's own checker (seeded change C08-11) is [dispatch_ptr_type], refuted. *)
From Coq Require Import ZArith List Lia Bool.
From A1 Require Import Fix.Crange Fix.CrangeProofs.
Import ListNotations.
Local Open Scope Z_scope.

(* ------------------------------------------------------------------ (1) *)
Definition right_open (p : ipair) : bool := match snd p with EMax => true | _ => false end.
Definition left_open (p : ipair) : bool := match fst p with EMin => true | _ => false end.

Lemma join_keeps_right_open : forall ra rb,
  overlap ra rb = true -> right_open ra || right_open rb = true -> right_open (join ra rb) = true.
Proof.
  intros [al ar] [bl br] O H. unfold join. rewrite O. unfold right_open in *. cbn [fst snd] in *.
  destruct ar as [| |x], br as [| |y]; simpl in *; try discriminate; try reflexivity.
Qed.

Lemma join_keeps_left_open : forall ra rb,
  overlap ra rb = true -> left_open ra || left_open rb = true -> left_open (join ra rb) = true.
Proof.
  intros [al ar] [bl br] O H. unfold join. rewrite O. unfold left_open in *. cbn [fst snd] in *.
  destruct al as [| |x], bl as [| |y]; simpl in *; try discriminate; try reflexivity.
Qed.

Lemma ec_refl : forall e, edge_compare e e = 0.
Proof. destruct e; simpl; auto. rewrite Z.gtb_ltb, Z.ltb_irrefl. reflexivity. Qed.
Lemma ec_antisym : forall a b, edge_compare a b = - edge_compare b a.
Proof.
  intros [| |x] [| |y]; simpl; auto. rewrite !Z.gtb_ltb.
  destruct (Z.ltb_spec x y), (Z.ltb_spec y x); lia.
Qed.

(* the joined pair reaches at least as far as both: nothing of either alternative is cut off *)
Lemma join_right_max : forall ra rb, overlap ra rb = true ->
  edge_compare (snd (join ra rb)) (snd ra) >= 0 /\ edge_compare (snd (join ra rb)) (snd rb) >= 0.
Proof.
  intros [al ar] [bl br] O. unfold join. rewrite O. cbn [fst snd].
  destruct (edge_compare ar br >? 0) eqn:C.
  - rewrite ec_refl. lia.
  - rewrite ec_refl. rewrite (ec_antisym br ar). lia.
Qed.

Lemma ec_max_l : forall e, edge_compare EMax e >= 0.
Proof. destruct e; simpl; lia. Qed.

Lemma ec_zero_eq : forall a b, edge_compare a b = 0 -> a = b.
Proof.
  intros [| |x] [| |y]; simpl; try discriminate; try reflexivity.
  destruct (x <? y) eqn:A; [discriminate|]. destruct (x >? y) eqn:B; [discriminate|]. intros _. f_equal. lia.
Qed.

Lemma ec_trans_le : forall a b c, edge_compare a b <= 0 -> edge_compare b c <= 0 -> edge_compare a c <= 0.
Proof.
  intros [| |x] [| |y] [| |z]; simpl; try lia;
    repeat match goal with |- context [if ?c then _ else _] => destruct c eqn:? end; lia.
Qed.

(* an open-ended alternative that starts first absorbs every (well-formed) alternative that starts later: the union of
   `lb..MAX` with anything to its right is `lb..MAX` itself, whatever the later alternatives' right edges are *)
Theorem union_loop_absorbs : forall rest ra,
  right_open ra = true -> Forall wfp rest -> Forall (fun p => edge_compare (fst ra) (fst p) <= 0) rest ->
  union_loop ra rest = [ra].
Proof.
  induction rest as [|rb tl IH]; intros ra R W S; [reflexivity|].
  inversion W as [|? ? Wb Wt]; subst. inversion S as [|? ? Sb St]; subst.
  destruct ra as [al ar]. unfold right_open in R. cbn [snd] in R. destruct ar; try discriminate.
  destruct rb as [bl br]. cbn [fst] in *. destruct Wb as [Wb1 [Wb2 Wb3]]. cbn [fst snd] in *.
  assert (O : overlap (al, EMax) (bl, br) = true).
  { unfold overlap. cbn [fst snd]. apply andb_true_iff. split; apply negb_true_iff.
    - pose proof (ec_trans_le _ _ _ Sb Wb3). lia.
    - pose proof (ec_max_l bl). lia. }
  cbn [union_loop]. unfold joinable. rewrite O. cbn [orb].
  assert (J : join (al, EMax) (bl, br) = (al, EMax)).
  { unfold join. rewrite O. cbn [fst snd]. f_equal.
    - destruct (edge_compare al bl <? 0) eqn:C; [reflexivity|].
      assert (edge_compare al bl = 0) by lia. symmetry. now apply ec_zero_eq.
    - pose proof (ec_max_l br). destruct (edge_compare EMax br >? 0) eqn:C; [reflexivity|].
      assert (edge_compare EMax br = 0) by lia. symmetry. now apply ec_zero_eq. }
  rewrite J. apply IH; auto.
Qed.

(* ... and the value-level consequence: every integer from the open alternative's lower bound on stays permitted *)
Corollary union_loop_absorbs_den : forall rest ra z,
  right_open ra = true -> Forall wfp rest -> Forall (fun p => edge_compare (fst ra) (fst p) <= 0) rest ->
  inp ra z -> inl (union_loop ra rest) z.
Proof.
  intros rest ra z R W S I. rewrite (union_loop_absorbs rest ra R W S). exists ra. split; [left; reflexivity | exact I].
Qed.

(* the seeded variant: right edges compared as plain values, only when both are values *)
Definition join_values (ra rb : ipair) : ipair :=
  if overlap ra rb then
    (if edge_compare (fst ra) (fst rb) <? 0 then fst ra else fst rb,
     match snd ra, snd rb with
     | EV a, EV b => if a >? b then snd ra else snd rb
     | _, _ => snd rb
     end)
  else (fst ra, snd rb).

Theorem join_values_refuted : exists ra rb z,
  wfp ra /\ wfp rb /\ edge_compare (fst ra) (fst rb) <= 0 /\ joinable ra rb = true /\
  inp ra z /\ ~ inp (join_values ra rb) z /\ inp (join ra rb) z.
Proof.
  exists (EV 1, EMax), (EV 5, EV 10), 11. unfold wfp, inp, le_e, ge_e. cbn. repeat split; try discriminate; try lia.
Qed.

(* on unions without an open right end absorbed (both right edges values) the two agree: bounded overlaps, disjoint
   unions and plain ranges cannot tell the variant from _range_union *)
Theorem join_values_same_when_bounded : forall ra rb x y,
  snd ra = EV x -> snd rb = EV y -> join_values ra rb = join ra rb.
Proof.
  intros [al ar] [bl br] x y A B. cbn [snd] in *. subst. unfold join_values, join. cbn [fst snd].
  destruct (overlap (al, EV x) (bl, EV y)); [|reflexivity]. f_equal. simpl.
  destruct (x <? y) eqn:C1; destruct (x >? y) eqn:C2; simpl; try reflexivity; lia.
Qed.

(* ------------------------------------------------------------------ (2) *)
Section Dispatch.
  Variables V R : Type.
  (* a member slot: how it is stored, the checker generated for the slot (None: no constraint written on the
     member), the checker of the member's type *)
  Record slot := mkSlot { s_ptr : bool; s_memb : option (V -> R); s_type : V -> R }.

  (* SEQUENCE_constraint / SET_constraint / CHOICE_constraint on a present member: elm->encoding_constraints
     .general_constraints if set, else elm->type's; memb_ptr dereferenced first when ATF_POINTER - same checker *)
  Definition dispatch (s : slot) (v : V) : R :=
    match s_memb s with Some f => f v | None => s_type s v end.

  Definition dispatch_ptr_type (s : slot) (v : V) : R :=
    if s_ptr s then s_type s v else dispatch s v.

  Theorem dispatch_storage_independent : forall p q m t v,
    dispatch (mkSlot p m t) v = dispatch (mkSlot q m t) v.
  Proof. reflexivity. Qed.

  Theorem dispatch_runs_member_checker : forall s f v, s_memb s = Some f -> dispatch s v = f v.
  Proof. intros s f v H. unfold dispatch. now rewrite H. Qed.

  Theorem dispatch_ptr_type_same_when_inline_or_unconstrained : forall s v,
    s_ptr s = false \/ s_memb s = None -> dispatch_ptr_type s v = dispatch s v.
  Proof.
    intros s v [H|H]; unfold dispatch_ptr_type, dispatch; [now rewrite H|].
    rewrite H. now destruct (s_ptr s).
  Qed.
End Dispatch.

(* the variant skips exactly the constraint written on a by-pointer member *)
Theorem dispatch_ptr_type_refuted : exists (s : slot Z bool) v,
  s_ptr _ _ s = true /\ dispatch _ _ s v = false /\ dispatch_ptr_type _ _ s v = true /\
  dispatch _ _ (mkSlot _ _ false (s_memb _ _ s) (s_type _ _ s)) v = false.
Proof.
  exists (mkSlot Z bool true (Some (fun n => 1 <=? n)) (fun _ => true)), 0. cbn. repeat split.
Qed.
