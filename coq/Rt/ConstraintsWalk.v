(* Rt/ConstraintsWalk.v — C08: the hand-over from a generated checker to the element walker.
   The checker asn1c generates for a list type reached through a REFERENCE that carries its own SIZE
   (`Pair ::= SmallList (SIZE(2))`, member `lst SmallList (SIZE(1..3))`) tests the SIZE and then has to
   return SEQUENCE_OF_constraint / SET_OF_constraint (asn1c_emit_constraint_checking_code switches on
   the TERMINAL type of the expression).  In the model: [chk] of a [CSeqOf] in a slot, or behind
   [CRef true], is the SIZE test followed by [walk_elems].  Stated without any side condition on the
   constraints: acceptance implies that the count passed the SIZE test AND every element passed its own
   checker; rejection of any element rejects the list (first failure wins). *)
From Coq Require Import ZArith List Bool Lia.
From A1 Require Import Rt.Types Fix.Crange Rt.Constraints.
Import ListNotations.
Local Open Scope Z_scope.

Lemma walk_elems_ok : forall (f : val -> res) vs,
  walk_elems f vs = ROk <-> forall v, In v vs -> f v = ROk.
Proof.
  intros f vs. induction vs as [| x r IH]; cbn [walk_elems In].
  - split; [intros _ v [] | reflexivity].
  - destruct (f x) eqn:E.
    + rewrite IH. split.
      * intros H v [<- | Hin]; [exact E | exact (H v Hin)].
      * intros H v Hin. apply H. right. exact Hin.
    + split; [discriminate |]. intros H. specialize (H x (or_introl eq_refl)). congruence.
Qed.

(* the first failing element decides *)
Lemma walk_elems_fail : forall (f : val -> res) pre x post w,
  (forall v, In v pre -> f v = ROk) -> f x = RFail w -> walk_elems f (pre ++ x :: post) = RFail w.
Proof.
  intros f pre x post w Hpre Hx. induction pre as [| p r IH]; cbn [app walk_elems].
  - rewrite Hx. reflexivity.
  - rewrite (Hpre p (or_introl eq_refl)). apply IH. intros v Hin. apply Hpre. right. exact Hin.
Qed.

(* a list in a member / alternative / element slot (inline, or a reference with SIZE written there) *)
Theorem slot_list_checks_elements : forall w sz e vs,
  chk w (CSeqOf sz e) true (VList vs) = ROk <->
  size_check sz (zlength vs) = ROk /\ forall v, In v vs -> chk w e true v = ROk.
Proof.
  intros w sz e vs. cbn [chk]. destruct (size_check sz (zlength vs)) eqn:E.
  - rewrite walk_elems_ok. intuition.
  - split; [discriminate | intros [H _]; discriminate].
Qed.

(* a type DEFINED as a reference to a list type, with or without SIZE of its own (`T ::= L (SIZE(..))`) *)
Theorem reference_definition_checks_elements : forall w sz e vs,
  check w (CRef true (CSeqOf sz e)) (VList vs) = ROk <->
  size_check sz (zlength vs) = ROk /\ forall v, In v vs -> chk w e true v = ROk.
Proof. intros. unfold check. cbn [chk]. apply (slot_list_checks_elements w sz e vs). Qed.

(* ... and one bad element anywhere rejects the list although the SIZE test passed *)
Theorem reference_definition_rejects_bad_element : forall w sz e pre x post why,
  size_check sz (zlength (pre ++ x :: post)) = ROk ->
  (forall v, In v pre -> chk w e true v = ROk) -> chk w e true x = RFail why ->
  check w (CRef true (CSeqOf sz e)) (VList (pre ++ x :: post)) = RFail why.
Proof.
  intros w sz e pre x post why Hs Hpre Hx. unfold check. cbn [chk]. rewrite Hs.
  apply walk_elems_fail; assumption.
Qed.

(* dropping the hand-over (returning 0 right after the SIZE test) is not what the model does *)
Example ex_no_handover_refuted :
  check false (CRef true (CSeqOf [(EV 2, EV 2)] (CInt [(EV 1, EV 10)] []))) (VList [VInt 3; VInt 99]) = RFail WConstraint /\
  size_check [(EV 2, EV 2)] 2 = ROk.
Proof. vm_compute. auto. Qed.
