(* Rt/EntrefComplete.v — the SPELLINGS of a character in the body of an XER text
   type (C03, value-level variants), executable definitions only.

   Rt/ResumeX.v models the reader (OS__strtoent, OCTET_STRING__convert_entrefs);
   its theorem entref_roundtrip says the reader inverts the ONE spelling the
   library's own encoder writes.  C03 needs the completeness side: a peer may
   write every character in any of its legal forms (XML 1.0 [66] CharRef,
   [68] EntityRef, X.693 8.1.4):
     raw UTF-8 | &amp; &lt; &gt; | &#d..d; | &#xh..h;
   where the number may carry any number of leading zeros and every hex digit
   a..f may be written in either case, digit by digit.

   [ref_chars hexa ds]: the characters of a numeric reference whose digits are
   [ds] = (digit value, upper case?) most significant first; [ref_val] the code
   point they denote.  [item] / [text_chars] / [text_val]: a text as a list of
   characters each in one of its spellings, the characters written, the UTF-8
   string denoted.

   [strtoent_g dig] / [ref_at_g dig]: the reader of ResumeX with the digit table
   as a parameter ([dig base ch]); with ResumeX.digit_of it IS the reader of
   ResumeX (EntrefCompleteProofs.ref_at_g_digit_of).  [digit_lower] is the table
   of the `cleaned-up' OS__strtoent: letters in the hexadecimal form only, and
   only a..f. *)
From Coq Require Import ZArith List Bool.
From A1 Require Import Base.Bytes Rt.Resume Rt.ResumeX.
Import ListNotations.
Local Open Scope Z_scope.

Definition digit_char (d : Z * bool) : Z :=
  if fst d <? 10 then 48 + fst d else if snd d then 55 + fst d else 87 + fst d.

Definition ref_val (base : Z) (ds : list (Z * bool)) : Z :=
  fold_left (fun a d => a * base + d) (map fst ds) 0.

Definition base_of (hexa : bool) : Z := if hexa then 16 else 10.

Definition ref_chars (hexa : bool) (ds : list (Z * bool)) : list Z :=
  38 :: 35 :: (if hexa then [120] else []) ++ map digit_char ds ++ [59].

(* a character of a text, in one of its spellings *)
Inductive item :=
| IRaw (cp : Z)                                   (* its UTF-8 octets *)
| INamed (cp : Z)                                 (* &amp; &lt; &gt; *)
| IRef (hexa : bool) (ds : list (Z * bool)).      (* &#...; &#x...; *)

Definition item_cp (it : item) : Z :=
  match it with
  | IRaw c | INamed c => c
  | IRef h ds => ref_val (base_of h) ds
  end.

Definition item_chars (it : item) : list Z :=
  match it with
  | IRaw c => utf8_of c
  | INamed c => if c =? 38 then [38; 97; 109; 112; 59]
                else if c =? 60 then [38; 108; 116; 59] else [38; 103; 116; 59]
  | IRef h ds => ref_chars h ds
  end.

Definition text_chars (its : list item) : list Z := flat_map item_chars its.
Definition text_val (its : list item) : list Z := flat_map (fun it => utf8_of (item_cp it)) its.

(* ---- the reader with the digit table as a parameter ---- *)
Fixpoint strtoent_g (dig : Z -> Z -> option Z) (base : Z) (w : list Z) (val : Z) (n : nat) : nres :=
  match w with
  | [] => NEnd
  | ch :: tl =>
      if ch =? 59 then NVal val (S n)
      else match dig base ch with
           | Some d =>
               let v := val * base + d in
               if last_unicode <? v then NErr else strtoent_g dig base tl v (S n)
           | None => NErr
           end
  end.

Definition ref_at_g (dig : Z -> Z -> option Z) (w : list Z) : xres :=
  match w with
  | _ :: c1 :: rest =>
      if c1 =? 35 then
        match rest with
        | [] => XStall
        | c2 :: rest2 =>
            let hex := c2 =? 120 in
            match strtoent_g dig (if hex then 16 else 10) (if hex then rest2 else rest) 0 O with
            | NErr => verbatim
            | NEnd => XStall
            | NVal v n => if v =? 0 then verbatim else XChars (utf8_of v) ((if hex then 3 else 2) + n)
            end
        end
      else ref_at w
  | _ => ref_at w
  end.

(* the table of OS__strtoent *)
Definition digit_c (base ch : Z) : option Z := digit_of ch.

(* the table after the `clean-up': decimal digits; a..f in base 16 only; no A..F *)
Definition digit_lower (base ch : Z) : option Z :=
  if (48 <=? ch) && (ch <=? 57) then Some (ch - 48)
  else if (base =? 16) && (97 <=? ch) && (ch <=? 102) then Some (ch - 97 + 10)
  else None.

(* ---- front-end helpers (ocaml/drv_c03.ml) ---- *)
(* what the reader makes of one reference standing alone before a '<' *)
Definition ref_read (hexa : bool) (ds : list (Z * bool)) : list Z :=
  match ref_at (ref_chars hexa ds ++ [60]) with
  | XChars out _ => out
  | XStall => []
  end.

Definition text_read (body : list Z) : code * nat * list Z := entref_step [] (body ++ [60]).
