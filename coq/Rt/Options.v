(* Rt/Options.v — property C13, the descriptor level.
   (1) ERASURE: the part of a dumped type descriptor table (harness/dumpdescr.c; the
       record types are C10's, Rt/WfDescr.v) that no representation option may change,
       and the comparison of two tables of the same module up to that erasure.
       What the options legitimately change, and what [view_of] therefore forgets:
         -fwide-types       the op table of INTEGER / ENUMERATED (KNativeInt -> KInt,
                            KNativeEnum -> KEnum; REAL and NativeReal are both KReal),
                            field_width / field_unsigned of the native specifics, the
                            SHARING of descriptors (a member that needs native specifics of
                            its own gets a descriptor of its own, which repeats the
                            member's tag and constraint records): tables are compared by a
                            bisimulation from the PDUs, and a type is looked at THROUGH the
                            member entry that leads to it (effective tag chain, effective
                            PER / OER record);
         -findirect-choice  ATF_POINTER on CHOICE alternatives (and -fwide-types on DEFAULT
                            members): the bit is cleared on every member;
         -no-gen-PER/-OER   the records of the absent codec (hp / ho = false);
         -fno-constraints   the checker slot, which the translator does not print at all;
         naming / include options: nothing.
       td->name is diagnostics only; td->xml_tag is compared where the XER codecs read
       it (PDUs, elements of SEQUENCE OF / SET OF).
   (2) the EMITTER DECISION the options go through: which of the three slots of
       asn_encoding_constraints_t emit_type_DEF() / emit_member_table() fill
       (libasn1compiler/asn1c_C.c), as a function of the generator flags.
   lib/c13_descr.py is the Python twin of (1); the check runs both on every pair of
   dumped tables.  No proofs here (OptionsProofs.v). *)
From Coq Require Import ZArith List Bool.
From A1 Require Import Rt.WfDescr.
Import ListNotations.
Local Open Scope Z_scope.

Record ndescr := mkND { nd : descr; nd_name : list Z; nd_xml : list Z }.
Record ntable := mkNT { nt_roots : Z; nt_descrs : list ndescr }.

(* ---------------- erasure ---------------- *)

Definition erase_kind (k : kind) : kind :=
  match k with KNativeInt => KInt | KNativeEnum => KEnum | _ => k end.

Definition clear_ptr (f : Z) : Z := 2 * (f / 2).          (* flags & ~ATF_POINTER *)

Definition erase_spec (hp : bool) (s : spec) : spec :=
  match s with
  | SChoice t c e => SChoice t (if hp then c else None) e     (* the canonical-order maps are PER's *)
  | SInt v2e e2v ext strict _ _ =>
      match v2e, e2v with
      | [], [] => if (ext =? 0) && (strict =? 0) then SNone else SInt v2e e2v ext strict 0 0
      | _, _ => SInt v2e e2v ext strict 0 0
      end
  | _ => s
  end.

Definition erase_member (hp ho : bool) (m : member) : member :=
  mkM (clear_ptr (m_flags m)) (m_opt m) (m_tag m) (m_tmode m) 0
      (if hp then m_per m else None) (if ho then m_oer m else None) (m_default m) (m_selector m).

(* the member entry a type is reached through: tag, tag mode, PER and OER records (erased) *)
Definition ctx := option (Z * Z * option perc * option oerc)%type.

Definition ctx_of (hp ho : bool) (m : member) : ctx :=
  Some (m_tag m, m_tmode m, (if hp then m_per m else None), (if ho then m_oer m else None)).

(* ber_check_tags / der_write_tags: tag_mode -1 replaces the type's first tag, +1 puts the
   member's tag in front, 0 leaves the type's own tags *)
Definition eff_tags (c : ctx) (tags : list Z) : list Z :=
  match c with
  | None => tags
  | Some (tg, mode, _, _) => if mode =? 0 then tags else if mode <? 0 then tg :: tl tags else tg :: tags
  end.

Record view := mkV {
  v_kind : kind; v_tags : list Z; v_all : list Z; v_per : option perc; v_oer : option oerc;
  v_spec : spec; v_bad : Z; v_xml : option (list Z); v_members : list member }.

Definition view_of (hp ho xml : bool) (c : ctx) (d : ndescr) : view :=
  let dd := nd d in
  mkV (erase_kind (d_kind dd))
      (eff_tags c (d_tags dd))
      (match c with None => d_all dd | Some _ => [] end)
      (match c with Some (_, _, Some p, _) => Some p | _ => if hp then d_per dd else None end)
      (match c with Some (_, _, _, Some o) => Some o | _ => if ho then d_oer dd else None end)
      (erase_spec hp (d_spec dd)) (d_bad dd)
      (if xml then Some (nd_xml d) else None)
      (map (erase_member hp ho) (d_elems dd)).

(* ---------------- decidable equalities ---------------- *)

Definition per1_eq_dec : forall a b : per1, {a = b} + {a <> b}.
Proof. decide equality; apply Z.eq_dec. Defined.
Definition perc_eq_dec : forall a b : perc, {a = b} + {a <> b}.
Proof. decide equality; try apply bool_dec; apply per1_eq_dec. Defined.
Definition oerc_eq_dec : forall a b : oerc, {a = b} + {a <> b}.
Proof. decide equality; apply Z.eq_dec. Defined.
Definition t2e_eq_dec : forall a b : t2e, {a = b} + {a <> b}.
Proof. decide equality; apply Z.eq_dec. Defined.
Definition operc_eq_dec : forall a b : option perc, {a = b} + {a <> b}.
Proof. decide equality; apply perc_eq_dec. Defined.
Definition ooerc_eq_dec : forall a b : option oerc, {a = b} + {a <> b}.
Proof. decide equality; apply oerc_eq_dec. Defined.
Definition zlist_eq_dec : forall a b : list Z, {a = b} + {a <> b} := list_eq_dec Z.eq_dec.
Definition member_eq_dec : forall a b : member, {a = b} + {a <> b}.
Proof. decide equality; try apply bool_dec; try apply Z.eq_dec; [apply ooerc_eq_dec | apply operc_eq_dec]. Defined.
Definition kind_eq_dec : forall a b : kind, {a = b} + {a <> b}.
Proof. decide equality. Defined.
Definition canon_eq_dec : forall a b : option (list Z * list Z), {a = b} + {a <> b}.
Proof. decide equality. decide equality; apply zlist_eq_dec. Defined.
Definition v2e_eq_dec : forall a b : list (Z * list Z), {a = b} + {a <> b}.
Proof. apply list_eq_dec. decide equality; [apply zlist_eq_dec | apply Z.eq_dec]. Defined.
Definition spec_eq_dec : forall a b : spec, {a = b} + {a <> b}.
Proof.
  decide equality; try apply Z.eq_dec; try apply zlist_eq_dec; try apply (list_eq_dec t2e_eq_dec);
    try apply canon_eq_dec; try apply v2e_eq_dec.
Defined.
Definition view_eq_dec : forall a b : view, {a = b} + {a <> b}.
Proof.
  decide equality; try apply Z.eq_dec; try apply zlist_eq_dec; try apply kind_eq_dec; try apply spec_eq_dec;
    try apply operc_eq_dec; try apply ooerc_eq_dec; try apply (list_eq_dec member_eq_dec).
  decide equality; apply zlist_eq_dec.
Defined.

Definition ctx_eq_dec : forall a b : ctx, {a = b} + {a <> b}.
Proof.
  decide equality. decide equality; [apply ooerc_eq_dec|]. decide equality; [apply operc_eq_dec|].
  decide equality; apply Z.eq_dec.
Defined.

(* ---------------- comparison of two tables ---------------- *)

(* work item: descriptor index in A, in B, "the XML tag matters here", the two member contexts *)
Definition item := (Z * Z * bool * ctx * ctx)%type.

Definition item_eq_dec : forall a b : item, {a = b} + {a <> b}.
Proof.
  decide equality; [apply ctx_eq_dec|]. decide equality; [apply ctx_eq_dec|].
  decide equality; [apply bool_dec|]. decide equality; apply Z.eq_dec.
Defined.

Definition mem_item (it : item) (l : list item) : bool :=
  existsb (fun x => if item_eq_dec it x then true else false) l.

Definition is_of (k : kind) : bool := match k with KSeqOf | KSetOf => true | _ => false end.

Definition succs (hp ho : bool) (a b : ndescr) : list item :=
  let ofk := is_of (erase_kind (d_kind (nd a))) in
  map (fun xy => let '(x, y) := xy in (m_type x, m_type y, ofk, ctx_of hp ho x, ctx_of hp ho y))
      (combine (d_elems (nd a)) (d_elems (nd b))).

Inductive verdict := VSim | VDiff | VFuel.

Section Sim.
  Variables (hp ho : bool) (A B : list ndescr).

  (* one node: the two views must be equal; then its successors *)
  Definition step (it : item) : option (list item) :=
    let '(i, j, xml, ca, cb) := it in
    match nthZ A i, nthZ B j with
    | Some a, Some b =>
        if view_eq_dec (view_of hp ho xml ca a) (view_of hp ho xml cb b) then Some (succs hp ho a b) else None
    | _, _ => None
    end.

  Fixpoint sim_loop (fuel : nat) (seen stack : list item) : verdict :=
    match fuel with
    | O => VFuel
    | S f =>
        match stack with
        | [] => VSim
        | it :: rest =>
            if mem_item it seen then sim_loop f seen rest
            else match step it with
                 | Some next => sim_loop f (it :: seen) (next ++ rest)
                 | None => VDiff
                 end
        end
    end.
End Sim.

Definition total_members (T : list ndescr) : nat :=
  fold_right (fun d n => (length (d_elems (nd d)) + n)%nat) O T.

Definition sim_fuel (A B : list ndescr) : nat :=
  let n := (length A + length B + total_members A + total_members B + 4)%nat in (n * n)%nat.

Definition root_items (n : Z) : list item :=
  map (fun i => (i, i, true, None, None) : item) (zseq 0 (Z.to_nat n)).

Definition table_sim (hp ho : bool) (TA TB : ntable) : verdict :=
  if nt_roots TA =? nt_roots TB then
    sim_loop hp ho (nt_descrs TA) (nt_descrs TB) (sim_fuel (nt_descrs TA) (nt_descrs TB)) [] (root_items (nt_roots TA))
  else VDiff.

(* ---------------- the emitter's decision (asn1c_C.c) ---------------- *)

(* the asn1c command-line flags that reach the code generator *)
Record genflags := mkGF {
  gf_oer : bool;          (* A1C_GEN_OER: absent with -no-gen-OER *)
  gf_per : bool;          (* A1C_GEN_PER: absent with -no-gen-PER *)
  gf_no_constraints : bool;   (* -fno-constraints *)
  gf_wide : bool;         (* -fwide-types *)
  gf_indirect : bool;     (* -findirect-choice *)
  gf_compound : bool;     (* -fcompound-names *)
  gf_quoted : bool;       (* -fincludes-quoted *)
  gf_no_deps : bool       (* -fno-include-deps *)
}.

Inductive slot := SlotNull | SlotTable | SlotOwnChecker | SlotParentChecker.

(* what emit_type_DEF() looks at: expr->combined_constraints, and the resolved type *)
Record tinfo := mkTI { ti_constrained : bool; ti_enum : bool; ti_choice : bool; ti_km_string : bool }.

(* { oer_constraints, per_constraints, general_constraints } of a type descriptor *)
Definition type_slots (f : genflags) (ti : tinfo) : slot * slot * slot :=
  ( (if gf_oer f then if ti_constrained ti || ti_enum ti || ti_choice ti then SlotTable else SlotNull else SlotNull),
    (if gf_per f then if ti_constrained ti || ti_enum ti || ti_choice ti || ti_km_string ti then SlotTable else SlotNull else SlotNull),
    (if gf_no_constraints f then SlotNull else if ti_constrained ti then SlotOwnChecker else SlotParentChecker) ).

(* the same triple of a member entry (emit_member_table; expr->constraints of the member) *)
Definition member_slots (f : genflags) (constrained : bool) : slot * slot * slot :=
  ( (if gf_oer f then if constrained then SlotTable else SlotNull else SlotNull),
    (if gf_per f then if constrained then SlotTable else SlotNull else SlotNull),
    (if constrained then if gf_no_constraints f then SlotNull else SlotOwnChecker else SlotNull) ).

Definition codec_slots (s : slot * slot * slot) : slot * slot := (fst (fst s), snd (fst s)).

(* the mistake of seeded change C13-3: one shared test for the three slots *)
Definition type_slots_seeded (f : genflags) (ti : tinfo) : slot * slot * slot :=
  let constrained := ti_constrained ti && negb (gf_no_constraints f) in
  ( (if gf_oer f then if constrained || ti_enum ti || ti_choice ti then SlotTable else SlotNull else SlotNull),
    (if gf_per f then if constrained || ti_enum ti || ti_choice ti || ti_km_string ti then SlotTable else SlotNull else SlotNull),
    (if gf_no_constraints f then SlotNull else if constrained then SlotOwnChecker else SlotParentChecker) ).
