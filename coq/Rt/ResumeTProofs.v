(* Rt/ResumeTProofs.v — proofs about Rt/ResumeT.v (C05, third layer): ber_check_tags is
   coherent (hence chunk independent) for every tag_mode and last_tag_form when the
   restart test is keyed on ctx->step; keyed on tagno it is the same function for
   tag_mode 0 / -1 and is refuted for tag_mode +1. *)
From Coq Require Import ZArith List Lia Bool ZifyBool.
From A1 Require Import Base.Bytes Leaf.BerTL Leaf.BerTLProofs Rt.Resume Rt.ResumeProofs Rt.ResumeT.
Import ListNotations.
Local Open Scope Z_scope.

(* ------------------------------------------------------------------ *)
(* 1. the loop, for any iteration that (a) answers the same on a longer window
      unless it starved, (b) on success stays inside the window and shrinks a
      known limit by exactly the header *)

Section LoopProofs.
  Variable E : Type.
  Variable iter : E -> list Z -> Z -> Z -> iter_res.
  Hypothesis iter_ext : forall e w limit x more,
    match iter e w limit x with
    | IMore => True
    | r => iter e (w ++ more) limit x = r
    end.
  Hypothesis iter_next : forall e w limit x l' x' len adv,
    iter e w limit x = INext l' x' len adv ->
    (adv <= length w)%nat /\ (limit = -1 \/ l' = limit - Z.of_nat adv).

  Lemma g_iter_trunc e w limit x l' x' len adv :
    iter e (trunc limit w) limit x = INext l' x' len adv ->
    (adv <= length w)%nat /\ trunc l' (skipn adv (trunc limit w)) = trunc l' (skipn adv w).
  Proof.
    intros H. destruct (iter_next _ _ _ _ _ _ _ _ H) as [Hadv Hl].
    pose proof (trunc_length limit w) as Htl. split; [lia|].
    revert Hadv. unfold trunc at 1 3.
    destruct ((0 <=? limit) && (limit <? zlen w)) eqn:Eb; [|reflexivity].
    intros Hadv. destruct Hl as [Hl|Hl]; [lia|].
    unfold zlen in Eb. rewrite firstn_length in Hadv.
    apply trunc_skipn_firstn; lia.
  Qed.

  (* the loop as seen from outside: the rest of the window before the cut *)
  Definition g_from (es : list E) (w : list Z) (limit x last : Z) (step consumed : nat) :=
    gen_loop iter es (trunc limit w) limit x last step consumed.

  Lemma g_from_cons e es w limit x last step consumed :
    g_from (e :: es) w limit x last step consumed =
    match iter e (trunc limit w) limit x with
    | IMore => (MORE, consumed, {| cstep := step; cleft := limit; cctx := x |})
    | IFail => (FAIL, consumed, {| cstep := step; cleft := limit; cctx := x |})
    | INext l' x' len adv => g_from es (skipn adv w) l' x' len (S step) (consumed + adv)%nat
    end.
  Proof.
    unfold g_from. cbn [gen_loop].
    destruct (iter e (trunc limit w) limit x) as [l' x' len adv| |] eqn:Ei; [|reflexivity|reflexivity].
    destruct (g_iter_trunc _ _ _ _ _ _ _ _ Ei) as [_ ->]. reflexivity.
  Qed.

  Lemma g_iter_app e w limit x more :
    match iter e (trunc limit w) limit x with
    | IMore => True
    | r => iter e (trunc limit (w ++ more)) limit x = r
    end.
  Proof.
    destruct (trunc_app limit w more) as [m' ->]. apply iter_ext.
  Qed.

  Lemma g_from_shift : forall es w limit x last step consumed,
    g_from es w limit x last step consumed = shift consumed (g_from es w limit x last step O).
  Proof.
    induction es as [|e es IH]; intros w limit x last step consumed.
    - unfold g_from. cbn [gen_loop shift]. rewrite Nat.add_0_r. reflexivity.
    - rewrite !g_from_cons.
      destruct (iter e (trunc limit w) limit x) as [l' x' len adv| |];
        [|cbn [shift]; rewrite Nat.add_0_r; reflexivity|cbn [shift]; rewrite Nat.add_0_r; reflexivity].
      rewrite (IH _ _ _ _ _ (consumed + adv)%nat), (IH _ _ _ _ _ (0 + adv)%nat).
      rewrite shift_shift. reflexivity.
  Qed.

  (* RC_OK and RC_FAIL do not change when more input arrives *)
  Lemma g_from_final : forall es w limit x last step consumed r k c',
    g_from es w limit x last step consumed = (r, k, c') -> r <> MORE ->
    forall more, g_from es (w ++ more) limit x last step consumed = (r, k, c').
  Proof.
    induction es as [|e es IH]; intros w limit x last step consumed r k c' H Hr more.
    - exact H.
    - rewrite g_from_cons in *.
      pose proof (g_iter_app e w limit x more) as He.
      destruct (iter e (trunc limit w) limit x) as [l' x' len adv| |] eqn:Ei.
      + rewrite He. destruct (g_iter_trunc _ _ _ _ _ _ _ _ Ei) as [Hadv _].
        rewrite skipn_app_le by exact Hadv. eapply IH; eassumption.
      + injection H as <- _ _. congruence.
      + rewrite He. exact H.
  Qed.

  (* RC_WMORE after j entries and a octets: on a longer window the loop reaches the
     same point with the locals that were saved, and goes on from there *)
  Lemma g_from_more : forall es w limit x last step consumed k c',
    g_from es w limit x last step consumed = (MORE, k, c') ->
    exists j a, k = (consumed + a)%nat /\ (a <= length w)%nat /\ cstep c' = (step + j)%nat /\
      (j = O -> a = O /\ cleft c' = limit /\ cctx c' = x) /\
      forall more, g_from es (w ++ more) limit x last step consumed =
                   g_from (skipn j es) (skipn a w ++ more) (cleft c') (cctx c') 0 (step + j) k.
  Proof.
    induction es as [|e es IH]; intros w limit x last step consumed k c' H.
    - discriminate.
    - rewrite g_from_cons in H.
      destruct (iter e (trunc limit w) limit x) as [l' x' len adv| |] eqn:Ei.
      + destruct (g_iter_trunc _ _ _ _ _ _ _ _ Ei) as [Hadv _].
        destruct (IH _ _ _ _ _ _ _ _ H) as (j & a & Hk & Ha & Hs & _ & Hext).
        rewrite skipn_length in Ha.
        exists (S j), (adv + a)%nat. repeat split; try lia.
        intros more. rewrite g_from_cons.
        pose proof (g_iter_app e w limit x more) as He. rewrite Ei in He. rewrite He.
        rewrite skipn_app_le by exact Hadv. rewrite Hext.
        cbn [skipn]. replace (S step + j)%nat with (step + S j)%nat by lia.
        rewrite skipn_add. reflexivity.
      + injection H as <- <-. exists O, O. cbn [cstep cleft cctx skipn]. rewrite !Nat.add_0_r.
        repeat split; try lia.
      + discriminate.
  Qed.

  Lemma g_from_le : forall es w limit x last step consumed r k c',
    g_from es w limit x last step consumed = (r, k, c') -> (k <= consumed + length w)%nat.
  Proof.
    induction es as [|e es IH]; intros w limit x last step consumed r k c' H.
    - unfold g_from in H. cbn [gen_loop] in H. injection H as _ <- _. lia.
    - rewrite g_from_cons in H.
      destruct (iter e (trunc limit w) limit x) as [l' x' len adv| |] eqn:Ei.
      + destruct (g_iter_trunc _ _ _ _ _ _ _ _ Ei) as [Hadv _].
        apply IH in H. rewrite skipn_length in H. lia.
      + injection H as _ <- _. lia.
      + injection H as _ <- _. lia.
  Qed.

  Lemma g_step_from rs es c w :
    gen_step iter rs es c w =
    if rs (cstep c)
    then g_from (skipn (cstep c) es) w (cleft c) (cctx c) 0 (cstep c) O
    else g_from (skipn (cstep c) es) w (-1) 0 0 (cstep c) O.
  Proof. unfold gen_step, g_from. destruct (rs (cstep c)); reflexivity. Qed.

  Lemma shift_0 (r : code * nat * chain_ctx) : shift 0 r = r.
  Proof. destruct r as [[a b] d]. reflexivity. Qed.

  (* the machine is coherent as soon as every call entered with step > 0 restores
     the saved locals (what a call entered with step = 0 does is immaterial: nothing
     has been consumed yet, and it does the same again) *)
  Theorem gen_coherent rs es : (forall n, rs (S n) = true) -> coherent (gen_step iter rs es).
  Proof.
    intros Hr. split.
    - intros c p k c' H. rewrite g_step_from in H.
      destruct (rs (cstep c)) eqn:Er.
      + destruct (g_from_more _ _ _ _ _ _ _ _ _ H) as (j & a & Hk & Ha & Hs & H0 & Hext).
        cbn in Hk. subst k. split; [exact Ha|]. intros more.
        rewrite !g_step_from, Er, Hext, Hs.
        destruct j as [|j].
        * destruct (H0 eq_refl) as (-> & -> & ->). rewrite Nat.add_0_r, Er.
          cbn [skipn]. rewrite shift_0. reflexivity.
        * replace (cstep c + S j)%nat with (S (cstep c + j)) by lia. rewrite Hr.
          replace (S (cstep c + j)) with (cstep c + S j)%nat by lia.
          rewrite <- skipn_add. rewrite (g_from_shift _ _ _ _ _ _ a). reflexivity.
      + destruct (g_from_more _ _ _ _ _ _ _ _ _ H) as (j & a & Hk & Ha & Hs & H0 & Hext).
        cbn in Hk. subst k. split; [exact Ha|]. intros more.
        rewrite !g_step_from, Er, Hext, Hs.
        destruct j as [|j].
        * destruct (H0 eq_refl) as (-> & -> & ->). rewrite Nat.add_0_r, Er.
          cbn [skipn]. rewrite shift_0. reflexivity.
        * replace (cstep c + S j)%nat with (S (cstep c + j)) by lia. rewrite Hr.
          replace (S (cstep c + j)) with (cstep c + S j)%nat by lia.
          rewrite <- skipn_add. rewrite (g_from_shift _ _ _ _ _ _ a). reflexivity.
    - intros c p r k c' H Hne more. rewrite g_step_from in *.
      destruct (rs (cstep c)); eapply g_from_final; eassumption.
  Qed.
End LoopProofs.

(* ------------------------------------------------------------------ *)
(* 2. the iteration of ber_check_tags with an optional tag comparison and a form *)

Lemma entry_iter_ext e w limit exp00 more :
  match entry_iter e w limit exp00 with
  | IMore => True
  | r => entry_iter e (w ++ more) limit exp00 = r
  end.
Proof.
  unfold entry_iter. destruct w as [|b0 tl]; [exact I|].
  cbn [app]. change (b0 :: tl ++ more) with ((b0 :: tl) ++ more).
  pose proof (fetch_tag_ext (b0 :: tl) more) as Ht.
  destruct (fetch_tag (b0 :: tl)) as [tg n1| |] eqn:Eft; [|exact I|rewrite Ht; reflexivity].
  rewrite Ht.
  destruct (negb match fst e with Some t => tg =? t | None => true end); [reflexivity|].
  destruct (negb ((snd e =? -1) || (snd e =? (if (b0 / 32) mod 2 =? 1 then 1 else 0)))); [reflexivity|].
  apply fetch_tag_consumed in Eft. rewrite skipn_app_le by lia.
  pose proof (fetch_length_ext ((b0 / 32) mod 2 =? 1) (skipn n1 (b0 :: tl)) more) as Hl.
  destruct (fetch_length ((b0 / 32) mod 2 =? 1) (skipn n1 (b0 :: tl))) as [len n2| |];
    [|exact I|rewrite Hl; reflexivity].
  rewrite Hl.
  destruct (len =? -1).
  - destruct (limit =? -1); reflexivity.
  - destruct (negb (exp00 =? 0)); [reflexivity|].
    destruct (limit =? -1); [reflexivity|].
    destruct (limit =? len + Z.of_nat (n1 + n2)); reflexivity.
Qed.

Lemma entry_iter_next e w limit x l' x' len adv :
  entry_iter e w limit x = INext l' x' len adv ->
  (adv <= length w)%nat /\ (limit = -1 \/ l' = limit - Z.of_nat adv).
Proof.
  unfold entry_iter. destruct w as [|b0 tl]; [discriminate|].
  destruct (fetch_tag (b0 :: tl)) as [tg n1| |] eqn:Eft; [|discriminate|discriminate].
  destruct (negb match fst e with Some t => tg =? t | None => true end); [discriminate|].
  destruct (negb ((snd e =? -1) || (snd e =? (if (b0 / 32) mod 2 =? 1 then 1 else 0)))); [discriminate|].
  apply fetch_tag_consumed in Eft.
  destruct (fetch_length ((b0 / 32) mod 2 =? 1) (skipn n1 (b0 :: tl))) as [ln n2| |] eqn:Efl;
    [|discriminate|discriminate].
  apply fetch_length_le in Efl. rewrite skipn_length in Efl.
  destruct (ln =? -1).
  - destruct (limit =? -1) eqn:El; [|discriminate].
    intros H. injection H as <- <- <- <-. split; [lia|]. left. lia.
  - destruct (negb (x =? 0)); [discriminate|].
    destruct (limit =? -1) eqn:El.
    + intros H. injection H as <- <- <- <-. split; [lia|]. left. lia.
    + destruct (limit =? ln + Z.of_nat (n1 + n2)); [|discriminate].
      intros H. injection H as <- <- <- <-. split; [lia|]. right. reflexivity.
Qed.

(* ------------------------------------------------------------------ *)
(* 3. ber_check_tags, restart test on ctx->step: coherent for every tag_mode,
      last_tag_form and tag list *)

Lemma restored_step_S mode n : restored KStep mode (S n) = true.
Proof. unfold restored. apply Z.ltb_lt. lia. Qed.

Theorem chainm_coherent mode ltf tags : coherent (chainm_step KStep mode ltf tags).
Proof.
  unfold chainm_step. apply gen_coherent.
  - exact entry_iter_ext.
  - exact entry_iter_next.
  - apply restored_step_S.
Qed.

(* every chunking ends like the one-shot call: code, octets consumed, and the
   context handed to the caller (ctx->left = the last length, or minus the number
   of end-of-contents pairs owed) *)
Corollary chainm_chunk_independent mode ltf tags input chunks :
  chunking_of input chunks ->
  feed0 (chainm_step KStep mode ltf tags) chain_ctx0 chunks = chainm_step KStep mode ltf tags chain_ctx0 input.
Proof. apply coherent_implies_chunk_independent. apply chainm_coherent. Qed.

(* ------------------------------------------------------------------ *)
(* 4. restart test on tagno: the same function unless tag_mode = +1 *)

Theorem chainm_tagno_agrees mode ltf tags c w :
  mode <> 1 -> chainm_step KTagno mode ltf tags c w = chainm_step KStep mode ltf tags c w.
Proof.
  intros Hm. unfold chainm_step, gen_step, restored.
  destruct (mode =? 1) eqn:Em; [lia|]. rewrite Z.add_0_r. reflexivity.
Qed.

Lemma coherent_pointwise {ctx} (s1 s2 : ctx -> list Z -> code * nat * ctx) :
  (forall c w, s1 c w = s2 c w) -> coherent s2 -> coherent s1.
Proof.
  intros Heq [Hres Hfin]. split.
  - intros c p k c' H. rewrite Heq in H. destruct (Hres _ _ _ _ H) as [Hk Hm].
    split; [exact Hk|]. intros more. rewrite !Heq. apply Hm.
  - intros c p r k c' H Hr more. rewrite Heq in *. eapply Hfin; eassumption.
Qed.

Corollary chainm_tagno_coherent mode ltf tags :
  mode <> 1 -> coherent (chainm_step KTagno mode ltf tags).
Proof.
  intros Hm. apply (coherent_pointwise _ (chainm_step KStep mode ltf tags)).
  - intros c w. apply chainm_tagno_agrees. exact Hm.
  - apply chainm_coherent.
Qed.

(* ... and for tag_mode = +1 it is not chunk independent.  `w [5] EXPLICIT Inner`,
   Inner ::= SEQUENCE {...}: td->tags = [UNIVERSAL 16] = [64]; a5 80 | 30 80: the
   restart after the wrapper's TL forgets the end-of-contents pair owed for it:
   one-shot left = -2, fed 2+2 left = -1 (the inner decoder then returns two octets
   early and the caller meets 00 00 where it expects its next member). *)
Theorem chainm_tagno_refuted :
  exists tags input chunks, chunking_of input chunks /\
    feed0 (chainm_step KTagno 1 1 tags) chain_ctx0 chunks <> chainm_step KTagno 1 1 tags chain_ctx0 input.
Proof.
  exists [64], [165; 128; 48; 128], [[165; 128]; [48; 128]].
  split; [split; [discriminate|reflexivity]|].
  vm_compute. discriminate.
Qed.

Example chainm_session :
  chainm_step KStep 1 1 [64] chain_ctx0 [165; 128; 48; 128] = (OK, 4%nat, {| cstep := 2; cleft := -2; cctx := 0 |}) /\
  feed0 (chainm_step KStep 1 1 [64]) chain_ctx0 [[165; 128]; [48; 128]] = (OK, 4%nat, {| cstep := 2; cleft := -2; cctx := 0 |}) /\
  feed0 (chainm_step KTagno 1 1 [64]) chain_ctx0 [[165; 128]; [48; 128]] = (OK, 4%nat, {| cstep := 2; cleft := -1; cctx := 0 |}) /\
  (* IMPLICIT in place: the first tag is not compared, [6] IMPLICIT Inner = a6 .. *)
  chainm_step KStep (-1) 1 [64] chain_ctx0 [166; 128] = (OK, 2%nat, {| cstep := 1; cleft := -1; cctx := 0 |}) /\
  chainm_step KStep 0 1 [64] chain_ctx0 [166; 128] = (FAIL, 0%nat, {| cstep := 0; cleft := -1; cctx := 0 |}).
Proof. repeat split; vm_compute; reflexivity. Qed.

(* ------------------------------------------------------------------ *)
(* 5. tag_mode 0, last_tag_form 1 is Resume.chain_step *)

Lemma entries_tags_map tags : entries_tags 1 tags = map (fun t => (Some t, 1)) tags.
Proof.
  induction tags as [|t rest IH]; [reflexivity|].
  cbn [entries_tags map]. destruct rest as [|t2 rest2]; [reflexivity|].
  rewrite IH. reflexivity.
Qed.

Lemma entry_iter_chain t w limit x : entry_iter (Some t, 1) w limit x = chain_iter t w limit x.
Proof.
  unfold entry_iter, chain_iter. destruct w as [|b0 tl]; [reflexivity|].
  cbv zeta. cbn [fst snd].
  destruct (fetch_tag (b0 :: tl)) as [tg n1| |]; [|reflexivity|reflexivity].
  destruct (negb (tg =? t)); [reflexivity|].
  destruct ((b0 / 32) mod 2 =? 1); reflexivity.
Qed.

Lemma gen_loop_chain : forall tags w limit x last step consumed,
  gen_loop entry_iter (map (fun t => (Some t, 1)) tags) w limit x last step consumed =
  chain_loop tags w limit x last step consumed.
Proof.
  induction tags as [|t tags IH]; intros w limit x last step consumed; [reflexivity|].
  cbn [map gen_loop chain_loop]. rewrite entry_iter_chain.
  destruct (chain_iter t w limit x) as [l' x' len adv| |]; [apply IH|reflexivity|reflexivity].
Qed.

Lemma skipn_map_ {A B} (f : A -> B) : forall n l, skipn n (map f l) = map f (skipn n l).
Proof.
  induction n as [|n IH]; intros l; [reflexivity|].
  destruct l as [|a l]; [reflexivity|]. cbn [map skipn]. apply IH.
Qed.

Theorem chainm_mode0_is_chain tags c w : chainm_step KStep 0 1 tags c w = chain_step tags c w.
Proof.
  unfold chainm_step, gen_step, chain_step, restored, entries.
  change (0 =? 1) with false. change (0 =? 0) with true. cbv iota.
  rewrite entries_tags_map, skipn_map_, !gen_loop_chain.
  destruct (cstep c) as [|n]; [reflexivity|].
  replace (0 <? Z.of_nat (S n)) with true by (symmetry; apply Z.ltb_lt; lia).
  reflexivity.
Qed.

(* ------------------------------------------------------------------ *)
(* 6. ber_decode_primitive under a tag_mode *)

Lemma primm_loop_from es w : gen_loop entry_iter es w (-1) 0 0 O O = g_from _ entry_iter es w (-1) 0 0 O O.
Proof. reflexivity. Qed.

Lemma primm_step_more mode tags c p k c' : primm_step mode tags c p = (MORE, k, c') -> k = O /\ c' = c.
Proof.
  unfold primm_step.
  destruct (gen_loop entry_iter (entries mode 0 tags) p (-1) 0 0 0 0) as [[r n] cx].
  destruct r.
  - destruct (cleft cx <=? zlen (skipn n p)); [discriminate|]. intros H; injection H as <- <-; auto.
  - intros H; injection H as <- <-; auto.
  - discriminate.
Qed.

Theorem primm_coherent mode tags : coherent (primm_step mode tags).
Proof.
  split.
  - intros c p k c' H. destruct (primm_step_more _ _ _ _ _ _ H) as [-> ->].
    split; [lia|]. intros more. cbn [skipn].
    destruct (primm_step mode tags c (p ++ more)) as [[a b] d]. reflexivity.
  - intros c p r k c' H Hr more. unfold primm_step in *.
    rewrite primm_loop_from in *.
    destruct (g_from _ entry_iter (entries mode 0 tags) p (-1) 0 0 0 0) as [[r0 n] cx] eqn:Eg.
    destruct r0.
    + pose proof (g_from_le _ _ entry_iter_next _ _ _ _ _ _ _ _ _ _ Eg) as Hn. cbn [Nat.add] in Hn.
      rewrite (g_from_final _ _ entry_iter_ext entry_iter_next _ _ _ _ _ _ _ _ _ _ Eg ltac:(discriminate) more).
      rewrite skipn_app_le by exact Hn.
      set (rest := skipn n p) in *.
      destruct (cleft cx <=? zlen rest) eqn:E1; [|injection H as <- _ _; congruence].
      rewrite zlen_app. pose proof (zlen_nonneg more).
      destruct (cleft cx <=? zlen rest + zlen more) eqn:E2; [|lia].
      rewrite firstn_app_le; [exact H|]. unfold zlen in E1. lia.
    + injection H as <- _ _. congruence.
    + rewrite (g_from_final _ _ entry_iter_ext entry_iter_next _ _ _ _ _ _ _ _ _ _ Eg ltac:(discriminate) more).
      exact H.
Qed.

Corollary primm_chunk_independent mode tags input chunks :
  chunking_of input chunks -> feed0 (primm_step mode tags) None chunks = primm_step mode tags None input.
Proof. apply coherent_implies_chunk_independent. apply primm_coherent. Qed.

(* p [13] EXPLICIT PInt, PInt ::= INTEGER: ad 03 02 01 05, one octet at a time *)
Example primm_session :
  feed0 (primm_step 1 [8]) None (bytewise [173; 3; 2; 1; 5; 77]) = (OK, 5%nat, Some [5]) /\
  primm_step 1 [8] None [173; 3; 2; 1; 5; 77] = (OK, 5%nat, Some [5]) /\
  primm_step (-1) [8] None [142; 1; 5] = (OK, 3%nat, Some [5]) /\
  primm_step 0 [8] None [142; 1; 5] = (FAIL, 0%nat, None).
Proof. repeat split; vm_compute; reflexivity. Qed.
