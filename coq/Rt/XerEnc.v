(* Rt/XerEnc.v — model of the XER encoders (BASIC-XER and CANONICAL-XER) with the size
   accounting of skeletons/asn_internal.h made explicit:

     ASN__CALLBACK(buf, size)          if(cb(buf, size, app_key) < 0) goto cb_failed;
                                       er.encoded += size;
     ASN__CALLBACK3(b1,s1,b2,s2,b3,s3) the three invocations short-circuited by ||,
                                       then er.encoded += s1 + s2 + s3;
     ASN__TEXT_INDENT(nl, level)       ASN__CALLBACK("\n", 1) if nl, then ONE
                                       ASN__CALLBACK("    ", 4) PER LEVEL (a loop over
                                       the level, no bound on it);
     tmper = child(...); if(tmper.encoded == -1) return tmper; er.encoded += tmper.encoded;

   A [step] is a piece of encoder code: it is handed the output callback and its
   state and returns the new state and what it adds to er.encoded ([None]: it left
   through cb_failed / ASN__ENCODE_FAILED, the function returns -1).  It is
   polymorphic in the callback state, so it sees the callback only through the
   success flags.  Every function below is the C function of the same name, line
   by line: xer_encode (xer_encoder.c), SEQUENCE_encode_xer, CHOICE_encode_xer,
   SEQUENCE_OF_encode_xer, SET_OF_encode_xer (with the CANONICAL-XER detour through
   per-element buffers, sorted, one callback invocation per element),
   OCTET_STRING_encode_xer (hex dump: 25-octet pieces in CANONICAL-XER; rows of 16
   octets, each preceded by ASN__TEXT_INDENT, in BASIC-XER), BOOLEAN, NULL,
   INTEGER (native range: one asn__format_to_callback invocation).

   The value is a NAMED value tree [xv]: what the encoder reads from the descriptor
   (member names, xml tags, as_XMLValueList) is carried by the value, so recursive
   types need no unrolling and the nesting depth is unbounded.
   No proofs here (extraction reads this file). *)
From Coq Require Import ZArith List Bool.
From A1 Require Import Base.Bytes Leaf.Decimal Rt.AppApi.
Import ListNotations.
Local Open Scope Z_scope.

(* ---------------- the accounting macros ---------------- *)

Definition step := forall S : Type, cbT S -> S -> S * option Z.

Definition ret0 : step := fun S cb s => (s, Some 0).
(* ASN__ENCODE_FAILED before anything is emitted *)
Definition failed : step := fun S cb s => (s, None).

(* a; then b(what a added); er.encoded += both *)
Definition then_n (a : step) (f : Z -> step) : step := fun S cb s =>
  match a S cb s with
  | (s1, Some n) =>
      match f n S cb s1 with
      | (s2, Some m) => (s2, Some (n + m))
      | (s2, None) => (s2, None)
      end
  | (s1, None) => (s1, None)
  end.
Definition seqs (a b : step) : step := then_n a (fun _ => b).

(* ASN__CALLBACK *)
Definition cb1 (c : bytes) : step := fun S cb s =>
  let (s1, ok) := cb s c in (s1, if ok then Some (zlen c) else None).

(* ASN__CALLBACK3 *)
Definition cb3 (a b c : bytes) : step := fun S cb s =>
  let (s1, ok1) := cb s a in
  if negb ok1 then (s1, None) else
  let (s2, ok2) := cb s1 b in
  if negb ok2 then (s2, None) else
  let (s3, ok3) := cb s2 c in
  (s3, if ok3 then Some (zlen a + zlen b + zlen c) else None).

Definition sp4 : bytes := [32; 32; 32; 32].
Definition nl1 : bytes := [10].

(* for(tmp_i = 0; tmp_i < tmp_level; tmp_i++) ASN__CALLBACK("    ", 4); *)
Fixpoint indent_loop (level : nat) : step :=
  match level with
  | O => ret0
  | S k => seqs (cb1 sp4) (indent_loop k)
  end.

(* ASN__TEXT_INDENT(nl, level); a negative level is clamped to 0: levels are nat here and
   the callers' ilevel - 1 is [pred] *)
Definition text_indent (nl : bool) (level : nat) : step :=
  seqs (if nl then cb1 nl1 else ret0) (indent_loop level).

(* ---------------- named value trees ---------------- *)

(* as_XMLValueList of an X OF: 0 = XMLDelimitedItemList (elements wrapped in <ename>),
   1 = XMLValueList (BOOLEAN / NULL / ENUMERATED elements), 2 = CHOICE elements;
   etag = elm->type->xml_tag, used for an element that encoded to nothing *)
Inductive ofmode := OfItems (ename : bytes) | OfValues (etag : bytes) | OfChoices (etag : bytes).

Inductive xv :=
| XVBool (b : bool)
| XVNull
| XVInt (z : Z)                       (* the number printed by "%jd" / "%ju" *)
| XVOct (bs : bytes)
| XVSeq (ms : list (bytes * xv))      (* the members that are not absent-and-OPTIONAL, with their names *)
| XVChoice (name : bytes) (v : xv)    (* the selected alternative *)
| XVChoiceNone                        (* present == 0 or > elements_count *)
| XVSeqOf (mode : ofmode) (vs : list xv)
| XVSetOf (mode : ofmode) (vs : list xv)
| XVMissing.                          (* a NULL structure pointer: missing mandatory member / alternative / list element *)

Definition is_missing (v : xv) : bool := match v with XVMissing => true | _ => false end.

(* ---------------- primitive bodies ---------------- *)

Definition s_true : bytes := [60; 116; 114; 117; 101; 47; 62].          (* <true/> *)
Definition s_false : bytes := [60; 102; 97; 108; 115; 101; 47; 62].     (* <false/> *)
Definition lt : bytes := [60].
Definition gt : bytes := [62].
Definition ltsl : bytes := [60; 47].
Definition slgt : bytes := [47; 62].
Definition gtnl : bytes := [62; 10].

Definition int_text (z : Z) : bytes :=
  if z <? 0 then 45 :: dec_digits (- z) else dec_digits z.

Definition h2c (n : Z) : Z := if n <? 10 then 48 + n else 55 + n.
Definition hex2 (b : Z) : bytes := [h2c ((b / 16) mod 16); h2c (b mod 16)].
Definition hex3 (b : Z) : bytes := hex2 b ++ [32].
(* a row of the BASIC-XER dump: "AA BB CC " *)
Definition row3 (r : bytes) : bytes := flat_map hex3 r.
(* the last row: the tail space removed *)
Definition row3_trim (r : bytes) : bytes := removelast (row3 r).

(* CANONICAL-XER: scratch of 52, flushed when 50 characters are in (25 octets); the rest is
   always dumped, so an empty string gives one empty chunk *)
Definition oct_can (bs : bytes) : step :=
  match chunk_by (length bs) 25 bs with
  | [] => cb1 []
  | rows => fold_right (fun r acc => seqs (cb1 (flat_map hex2 r)) acc) ret0 rows
  end.

(* BASIC-XER, more than 16 octets: [rows] are the rows of 16 *)
Fixpoint oct_rows (il : nat) (rows : list bytes) : step :=
  match rows with
  | [] => ret0
  | [r] => seqs (cb1 (row3_trim r)) (text_indent true (pred il))
  | r :: tl => seqs (cb1 (row3 r)) (seqs (text_indent true il) (oct_rows il tl))
  end.

Definition oct_basic (bs : bytes) (il : nat) : step :=
  match bs with
  | [] => ret0
  | _ =>
      if zlen bs <=? 16 then cb1 (row3_trim bs)
      else (* i = 0: the empty scratch is dumped, then the indentation of the first row *)
        seqs (cb1 []) (seqs (text_indent true il) (oct_rows il (chunk_by (length bs) 16 bs)))
  end.

(* ---------------- constructed types ---------------- *)

Section Enc.
Variable can : bool.                  (* flags & XER_F_CANONICAL *)

(* if(!xcan) ASN__TEXT_INDENT(1, level) *)
Definition ind (level : nat) : step := if can then ret0 else text_indent true level.

(* one element of SEQUENCE_OF_encode_xer's loop; [child l] = the element's encoder at ilevel l *)
Definition seqof_item (mode : ofmode) (il : nat) (child : nat -> step) : step :=
  seqs (match mode with OfItems nm => seqs (ind il) (cb3 lt nm gt) | _ => ret0 end)
  (seqs (then_n (child (S il)) (fun n =>
           match mode with
           | OfItems _ => ret0
           | OfValues tg | OfChoices tg => if n =? 0 then seqs (ind (S il)) (cb3 lt tg slgt) else ret0
           end))
        (match mode with OfItems nm => cb3 ltsl nm gt | _ => ret0 end)).

(* one element of SET_OF_encode_xer's loop *)
Definition setof_item (mode : ofmode) (il : nat) (child : nat -> step) : step :=
  seqs (match mode with OfItems nm => seqs (ind il) (cb3 lt nm gt) | _ => ret0 end)
  (seqs (match mode with OfValues _ => ind (S il) | _ => ret0 end)
  (seqs (then_n (child (match mode with OfChoices _ => il | _ => S il end)) (fun n =>
           match mode with
           | OfItems _ => ret0
           | OfValues tg | OfChoices tg => if n =? 0 then cb3 lt tg slgt else ret0
           end))
        (match mode with OfItems nm => cb3 ltsl nm gt | _ => ret0 end))).

(* SET_OF_encode_xer_callback: appends to the element's buffer, never fails (allocation
   failure is outside the model) *)
Definition buf_cb : cbT bytes := fun s c => (s ++ c, true).

(* lexicographic order of SET_OF_xer_order: memcmp over the common prefix, then the shorter first *)
Fixpoint lex_le (a b : bytes) : bool :=
  match a, b with
  | [], _ => true
  | _ :: _, [] => false
  | x :: a', y :: b' => if x <? y then true else if y <? x then false else lex_le a' b'
  end.
Fixpoint insert_sorted (x : bytes) (l : list bytes) : list bytes :=
  match l with
  | [] => [x]
  | y :: tl => if lex_le x y then x :: l else y :: insert_sorted x tl
  end.
Definition sort_bufs (l : list bytes) : list bytes := fold_right insert_sorted [] l.

(* for(; enc < end; enc++) ASN__CALLBACK(enc->buffer, enc->offset) *)
Definition emit_bufs (l : list bytes) : step := fold_right (fun b acc => seqs (cb1 b) acc) ret0 l.

(* all elements encoded into their buffers? then the buffers *)
Fixpoint collect (rs : list (bytes * option Z)) : option (list bytes) :=
  match rs with
  | [] => Some []
  | (b, Some _) :: tl => match collect tl with Some l => Some (b :: l) | None => None end
  | (_, None) :: _ => None
  end.

Fixpoint xenc (v : xv) (il : nat) {struct v} : step :=
  match v with
  | XVBool b => cb1 (if b then s_true else s_false)
  | XVNull => ret0
  | XVInt z => cb1 (int_text z)
  | XVOct bs => if can then oct_can bs else oct_basic bs il
  | XVMissing => failed
  | XVChoiceNone => failed
  | XVSeq ms =>
      seqs ((fix go (ms : list (bytes * xv)) : step :=
               match ms with
               | [] => ret0
               | (nm, mv) :: tl =>
                   seqs (if is_missing mv then failed       (* Mandatory element is missing *)
                         else seqs (ind il) (seqs (cb3 lt nm gt) (seqs (xenc mv (S il)) (cb3 ltsl nm gt))))
                        (go tl)
               end) ms)
           (ind (pred il))
  | XVChoice nm mv =>
      if is_missing mv then failed
      else seqs (ind il) (seqs (cb3 lt nm gt) (seqs (xenc mv (S il)) (seqs (cb3 ltsl nm gt) (ind (pred il)))))
  | XVSeqOf mode vs =>
      seqs ((fix go (vs : list xv) : step :=
               match vs with
               | [] => ret0
               | e :: tl => seqs (if is_missing e then ret0       (* if(!memb_ptr) continue; *)
                                  else seqof_item mode il (fun l => xenc e l))
                                 (go tl)
               end) vs)
           (ind (pred il))
  | XVSetOf mode vs =>
      if can then
        (* every element into a buffer of its own; then sorted; one invocation per buffer *)
        match collect ((fix go (vs : list xv) : list (bytes * option Z) :=
                          match vs with
                          | [] => []
                          | e :: tl => if is_missing e then go tl
                                       else setof_item mode il (fun l => xenc e l) bytes buf_cb [] :: go tl
                          end) vs) with
        | Some bufs => emit_bufs (sort_bufs bufs)
        | None => failed
        end
      else
        seqs ((fix go (vs : list xv) : step :=
                 match vs with
                 | [] => ret0
                 | e :: tl => seqs (if is_missing e then ret0
                                    else setof_item mode il (fun l => xenc e l))
                                   (go tl)
                 end) vs)
             (ind (pred il))
  end.

(* xer_encode(td, sptr, flags, cb, app_key): <tag> body </tag>, and "\n" in BASIC-XER *)
Definition xer_encode (tag : bytes) (v : xv) : step :=
  if is_missing v then failed
  else seqs (cb3 lt tag gt) (seqs (xenc v 1) (cb3 ltsl tag (if can then gt else gtnl))).

End Enc.

(* the inner encoder asn_encode_internal calls for ATS_BASIC_XER / ATS_CANONICAL_XER:
   every type of this algebra has an xer_encoder, so a failure maps to EBADF *)
Definition step_inner (st : step) : inner := fun S cb s =>
  let (s', r) := st S cb s in
  (s', match r with Some n => IOk n | None => IFail true end).

Definition xer_encoder (can : bool) (tag : bytes) (v : xv) : inner := step_inner (xer_encode can tag v).

(* entry points of the extracted driver *)
Definition model_xer_encode (can : bool) (tag : bytes) (v : xv) (k : option nat)
  : outcome ((nat * list bytes) * api_res) :=
  asn_encode (Some (user_cb k)) true (Op false (xer_encoder can tag v)) (0%nat, []).

Definition model_xer_tobuf (can : bool) (tag : bytes) (v : xv) (mem : list Z) (size : Z) : outcome (ostate * api_res) :=
  asn_encode_to_buffer true (Op false (xer_encoder can tag v)) (Some mem) size.

Definition model_xer_newbuf (can : bool) (tag : bytes) (v : xv) : outcome newbuf_res :=
  asn_encode_to_new_buffer true (Op false (xer_encoder can tag v)) true (fun _ => false).
