(* Rt/LayoutExt.v — property C13, pointer vs inline member representation on the
   EXTENSION paths (round 4).
   Rt/Layout.v walks the C structure (slots that hold the member or a pointer to it,
   fetched through the ATF_POINTER flag of the member table) for OER and DER over the
   base algebra.  This file adds
     - unaligned PER on the structure for the base algebra ([uper_c]: constr_SEQUENCE.c,
       constr_CHOICE.c, constr_SET_OF.c *_encode_uper), and
     - the extensible types of Rt/Ext.v ([ety]): the structure of an extensible
       SEQUENCE { root, ..., additions } is one struct whose slots are the root members
       followed by the additions; the structure of an extensible CHOICE { root, ..., exts }
       is a union over root ++ exts.  The UPER and OER encoders walk them the way
       SEQUENCE__handle_extensions / SEQUENCE_encode_uper, CHOICE_encode_uper,
       SEQUENCE_encode_oer and CHOICE_encode_oer do: the additions loop and the
       extension-alternative branch fetch the member THROUGH THE FLAG, then wrap the
       member's complete encoding as an open type.
   The walks take the fetch used on the extension path as a parameter [fx]; the code
   that exists uses [fetch] (= [member_ptr]); the seeded mistake of round 4 (an
   extension-alternative helper that re-derives the member address as
   sptr + memb_offset, ignoring ATF_POINTER) is [fetch_inline].
   No proofs here (LayoutExtProofs.v). *)
From Coq Require Import ZArith List Bool.
From A1 Require Import Base.Bytes Leaf.IntegerConv Rt.Types Rt.Comb Rt.Der Rt.Uper Rt.Oer Rt.Layout Rt.Ext.
Import ListNotations.
Local Open Scope Z_scope.

(* the member loop for any output alphabet (Layout.enc_cells is the octet instance) *)
Definition enc_cells_g {B} (enc : ty -> lay -> sval -> option (list B)) : list ty -> list lay -> list cell -> option (list B) :=
  fix go ms ls cs :=
    match ms, ls, cs with
    | [], [], [] => Some []
    | m :: ms', l :: ls', c :: cs' =>
        match on_cell enc (Some []) m l c, go ms' ls' cs' with
        | Some a, Some b => Some (a ++ b)
        | _, _ => None
        end
    | _, _, _ => None
    end.

(* ---------------- unaligned PER on the structure, base algebra ---------------- *)

Section StdC.
  Variable std : bool.

  Fixpoint uper_c (t : ty) (l : lay) (s : sval) {struct t} : option (list bool) :=
    match t, s with
    | TBool _, SBool b => Some [b]
    | TNull _, SNull => Some []
    | TInt _ c, SInt z => uper_int std c z
    | TOct _ sc, SOct bs => sized sc (map byte_bits bs)
    | TSeq _ ms, SStruct cs =>
        match enc_cells_g uper_c ms (lay_subs l) cs with
        | Some body => Some (presence_cells ms (lay_subs l) cs ++ body)
        | None => None
        end
    | TSeqOf _ sc e, SList els =>
        match option_all (map (uper_c e (elem_lay l)) els) with
        | Some es => sized sc es
        | None => None
        end
    | TSetOf _ sc e, SList els =>
        match option_all (map (uper_c e (elem_lay l)) els) with
        | Some es => sized sc (sort_bit_encodings es)
        | None => None
        end
    | TChoice alts, SUnion (S i) c =>
        (* CHOICE_encode_uper: index, then the member fetched through the flag *)
        pick_alt (fun a la =>
                    match fetch (lay_ptr la) c with
                    | FOk s' =>
                        match uper_c a la s' with
                        | Some body => Some (nbits (range_bits (zlen alts)) (choice_index (cstd std) alts i) ++ body)
                        | None => None
                        end
                    | _ => None
                    end) None alts (lay_subs l) i
    | TTag _ t', _ => uper_c t' l s
    | TOpt t', _ => uper_c t' l s
    | _, _ => None
    end.

  (* uper_open_type_put's input: the member's complete encoding, at least one octet *)
  Definition uper_c_encode (t : ty) (l : lay) (s : sval) : option (list Z) :=
    match uper_c t l s with
    | Some [] => Some [0]
    | Some bits => Some (bits_to_bytes bits)
    | None => None
    end.
End StdC.

(* ---------------- extensible types: the structure and the value it denotes ---------------- *)

(* the member fetch that ignores the flag: the slot address itself is taken for the member *)
Definition fetch_inline (_ : bool) (c : cell) : fetched := fetch false c.

(* the additions loop (SEQUENCE__handle_extensions, the extension half of SEQUENCE_encode_oer):
   a NULL slot is an absent addition, a present one is encoded and wrapped as an open type *)
Definition add_cells {B} (fx : bool -> cell -> fetched) (enc : ty -> lay -> sval -> option (list Z)) (wrapf : list Z -> list B)
  : list ty -> list lay -> list cell -> option (list B) :=
  fix go ts ls cs :=
    match ts, ls, cs with
    | [], [], [] => Some []
    | t :: ts', l :: ls', c :: cs' =>
        match fx (lay_ptr l) c with
        | FNull => go ts' ls' cs'
        | FOk s =>
            match enc t l s, go ts' ls' cs' with
            | Some e, Some r => Some (wrapf e ++ r)
            | _, _ => None
            end
        | FWild => None
        end
    | _, _, _ => None
    end.

Fixpoint add_presence (fx : bool -> cell -> fetched) (ls : list lay) (cs : list cell) : list bool :=
  match ls, cs with
  | l :: ls', c :: cs' => (match fx (lay_ptr l) c with FNull => false | _ => true end) :: add_presence fx ls' cs'
  | _, _ => []
  end.

Definition abs_adds : list ty -> list lay -> list cell -> option (list val) :=
  fix go ts ls cs :=
    match ts, ls, cs with
    | [], [], [] => Some []
    | t :: ts', l :: ls', c :: cs' =>
        match fetch (lay_ptr l) c with
        | FNull => match go ts' ls' cs' with Some r => Some (VNone :: r) | None => None end
        | FOk s =>
            match abs t l s, go ts' ls' cs' with
            | Some v, Some r => Some (VSome v :: r)
            | _, _ => None
            end
        | FWild => None
        end
    | _, _, _ => None
    end.

(* the layout of an extensible type: [lay_subs l] = layouts of the root components followed
   by those of the additions / extension alternatives *)
Definition ext_abs (t : ety) (l : lay) (s : sval) : option eval :=
  match t, s with
  | ESeq _ root adds, SStruct cs =>
      let nr := length root in
      match abs_cells abs root (firstn nr (lay_subs l)) (firstn nr cs),
            abs_adds adds (skipn nr (lay_subs l)) (skipn nr cs) with
      | Some rvs, Some avs => Some (EVSeq rvs avs)
      | _, _ => None
      end
  | EChoice root exts, SUnion (S i) c =>
      match abs (TChoice (root ++ exts)) l s with
      | Some (VChoice j v) => Some (EVAlt j v)
      | _ => None
      end
  | _, _ => None
  end.

(* ---------------- UPER of the extensible types on the structure ---------------- *)

Definition ext_uper_gen (fx : bool -> cell -> fetched) (std : bool) (t : ety) (l : lay) (s : sval) : option (list bool) :=
  match t, s with
  | ESeq _ root adds, SStruct cs =>
      let nr := length root in
      let rl := firstn nr (lay_subs l) in
      let al := skipn nr (lay_subs l) in
      let rc := firstn nr cs in
      let ac := skipn nr cs in
      match enc_cells_g (uper_c std) root rl rc, add_cells fx (uper_c_encode std) open_type adds al ac with
      | Some body, Some ots =>
          let pres := add_presence fx al ac in
          if existsb (fun b => b) pres then
            match nslength (zlen adds) with
            | Some nl => Some ([true] ++ presence_cells root rl rc ++ body ++ nl ++ pres ++ ots)
            | None => None
            end
          else Some ([false] ++ presence_cells root rl rc ++ body)
      | _, _ => None
      end
  | EChoice root exts, SUnion (S i) c =>
      pick_alt (fun a la =>
                  if (i <? length root)%nat then
                    (* extension root: CHOICE_encode_uper's own fetch *)
                    match fetch (lay_ptr la) c with
                    | FOk s' =>
                        match uper_c std a la s' with
                        | Some body => Some ([false] ++ nbits (range_bits (zlen root)) (choice_index (cstd std) root i) ++ body)
                        | None => None
                        end
                    | _ => None
                    end
                  else
                    (* extension alternative: normally small index + open type of the member at [fx] *)
                    match fx (lay_ptr la) c with
                    | FOk s' =>
                        match uper_c_encode std a la s', nsnnwn (choice_index (cstd std) exts (i - length root)) with
                        | Some cb, Some ix => Some ([true] ++ ix ++ open_type cb)
                        | _, _ => None
                        end
                    | _ => None
                    end) None (root ++ exts) (lay_subs l) i
  | _, _ => None
  end.

Definition ext_uper_c : bool -> ety -> lay -> sval -> option (list bool) := ext_uper_gen fetch.
Definition ext_uper_c_noderef : bool -> ety -> lay -> sval -> option (list bool) := ext_uper_gen fetch_inline.

Definition ext_uper_c_encode (fx : bool -> cell -> fetched) (std : bool) (t : ety) (l : lay) (s : sval) : option (list Z) :=
  match ext_uper_gen fx std t l s with
  | Some [] => Some [0]
  | Some bits => Some (bits_to_bytes bits)
  | None => None
  end.

(* ---------------- OER of the extensible types on the structure ---------------- *)

Definition ext_oer_gen (fx : bool -> cell -> fetched) (t : ety) (l : lay) (s : sval) : option (list Z) :=
  match t, s with
  | ESeq _ root adds, SStruct cs =>
      let nr := length root in
      let rl := firstn nr (lay_subs l) in
      let al := skipn nr (lay_subs l) in
      let rc := firstn nr cs in
      let ac := skipn nr cs in
      match enc_cells oer_c root rl rc, add_cells fx oer_c oer_open adds al ac with
      | Some body, Some ots =>
          let pres := add_presence fx al ac in
          let any := existsb (fun b => b) pres in
          let pre := bits_to_bytes (any :: presence_cells root rl rc) in
          if any then
            match oer_ext_bitmap pres with
            | Some bm => Some (pre ++ body ++ bm ++ ots)
            | None => None
            end
          else Some (pre ++ body)
      | _, _ => None
      end
  | EChoice root exts, SUnion (S i) c =>
      pick_alt (fun a la =>
                  if (i <? length root)%nat then
                    match fetch (lay_ptr la) c with
                    | FOk s' =>
                        match oer_c a la s' with
                        | Some body => Some (oer_tag (outmost_tag_c a la s') ++ body)
                        | None => None
                        end
                    | _ => None
                    end
                  else
                    match fx (lay_ptr la) c with
                    | FOk s' =>
                        match oer_c a la s' with
                        | Some body => Some (oer_tag (outmost_tag_c a la s') ++ oer_open body)
                        | None => None
                        end
                    | _ => None
                    end) None (root ++ exts) (lay_subs l) i
  | _, _ => None
  end.

Definition ext_oer_c : ety -> lay -> sval -> option (list Z) := ext_oer_gen fetch.
Definition ext_oer_c_noderef : ety -> lay -> sval -> option (list Z) := ext_oer_gen fetch_inline.

(* ---------------- DER: additions are further omissible members ---------------- *)

Definition ext_der_c (t : ety) (l : lay) (s : sval) : option (list Z) :=
  match t with
  | ESeq tg root adds => der_c (ext_seq_ty tg root adds) l s
  | EChoice root exts => der_c (TChoice (root ++ exts)) l s
  end.

(* ---------------- building the structure of an extensible type for a layout ---------------- *)

Definition repr_adds : list ty -> list lay -> list val -> option (list cell) :=
  fix go ts ls vs :=
    match ts, ls, vs with
    | [], [], [] => Some []
    | t :: ts', l :: ls', v :: vs' =>
        let c := match v with
                 | VNone => if lay_ptr l then Some (CPtr None) else None      (* absence needs a pointer slot *)
                 | VSome v' => match repr t l v' with Some s => Some (wrap (lay_ptr l) s) | None => None end
                 | _ => None
                 end in
        match c, go ts' ls' vs' with
        | Some a, Some b => Some (a :: b)
        | _, _ => None
        end
    | _, _, _ => None
    end.

Definition ext_repr (t : ety) (l : lay) (v : eval) : option sval :=
  match t, v with
  | ESeq _ root adds, EVSeq rvs avs =>
      let nr := length root in
      match repr_cells repr root (firstn nr (lay_subs l)) rvs, repr_adds adds (skipn nr (lay_subs l)) avs with
      | Some rc, Some ac => Some (SStruct (rc ++ ac))
      | _, _ => None
      end
  | EChoice root exts, EVAlt i v' => repr (TChoice (root ++ exts)) l (VChoice i v')
  | _, _ => None
  end.

Definition on_ext_repr {B} (t : ety) (l : lay) (v : eval) (f : sval -> option B) : option B :=
  match ext_repr t l v with Some s => f s | None => None end.
