(* WfAliasProofs.v — what an accepted [xtable] (Rt/WfAlias.v) guarantees about references, for chains of ANY length:
   the descriptor of a reference has the op table, member table and (along constraint-free or non-numeric hops) the
   specifics of its TERMINAL type; its tag vectors are the X.680 tagging of the terminal's along the chain; the terminal
   is unique; a member whose type is a reference carries the outermost tag of that chain. *)
From Coq Require Import ZArith List Bool Lia.
From A1 Require Import Rt.WfDescr Rt.WfDescrProofs Rt.WfAlias.
Import ListNotations.
Open Scope Z_scope.

Lemma eqb_of_true : forall A (d : forall a b : A, {a = b} + {a <> b}) a b, eqb_of d a b = true -> a = b.
Proof. intros A d a b. unfold eqb_of. destruct (d a b); [auto | discriminate]. Qed.

Lemma wf_x_parts : forall X, wf_x X = true ->
  wf_descr_all (xt_tab X) = true
  /\ lenZ (xt_x X) = lenZ (t_descrs (xt_tab X))
  /\ forallb (fun dx => forallb snd (xd_clauses X dx)) (combine (t_descrs (xt_tab X)) (xt_x X)) = true
  /\ forallb (hop_ok X) (xt_hops X) = true
  /\ nodupZ (map h_from (xt_hops X)) = true.
Proof.
  intros X H. unfold wf_x in H.
  apply andb_prop in H. destruct H as [H H5].
  apply andb_prop in H. destruct H as [H H4].
  apply andb_prop in H. destruct H as [H H3].
  apply andb_prop in H. destruct H as [H1 H2].
  apply Z.eqb_eq in H2. auto.
Qed.

Lemma wf_x_table : forall X, wf_x X = true -> wf_descr_all (xt_tab X) = true.
Proof. intros X H. apply wf_x_parts in H. tauto. Qed.

(* what one accepted hop says *)
Lemma hop_ok_inv : forall X h, hop_ok X h = true ->
  exists a t xa xt,
    nthZ (t_descrs (xt_tab X)) (h_from h) = Some a /\ nthZ (t_descrs (xt_tab X)) (h_to h) = Some t
    /\ nthZ (xt_x X) (h_from h) = Some xa /\ nthZ (xt_x X) (h_to h) = Some xt
    /\ hop_same h a t xa xt = true /\ hop_tagged h a t = true /\ hop_records h a t = true.
Proof.
  intros X h H. unfold hop_ok, hop_clauses in H.
  destruct (nthZ (t_descrs (xt_tab X)) (h_from h)) as [a|]; [| cbn in H; discriminate].
  destruct (nthZ (t_descrs (xt_tab X)) (h_to h)) as [t|]; [| cbn in H; discriminate].
  destruct (nthZ (xt_x X) (h_from h)) as [xa|]; [| cbn in H; discriminate].
  destruct (nthZ (xt_x X) (h_to h)) as [xt|]; [| cbn in H; discriminate].
  cbn in H.
  apply andb_prop in H. destruct H as [H8 H].
  apply andb_prop in H. destruct H as [H9 H].
  apply andb_prop in H. destruct H as [H10 _].
  exists a, t, xa, xt. repeat split; auto.
Qed.

Lemma hop_same_inv : forall h a t xa xt, hop_same h a t xa xt = true ->
  d_kind a = d_kind t /\ x_op xa = x_op xt /\ x_el xa = x_el xt /\ x_ec xa = x_ec xt /\ d_elems a = d_elems t
  /\ x_rep xa = x_rep xt /\ int_width (d_spec a) = int_width (d_spec t)
  /\ (numeric_kind (d_kind t) = false -> x_sp xa = x_sp xt)
  /\ (rigid h (d_kind t) = true -> d_spec a = d_spec t).
Proof.
  intros h a t xa xt H. unfold hop_same in H.
  apply andb_prop in H. destruct H as [H Hs].
  apply andb_prop in H. destruct H as [H Hi].
  apply andb_prop in H. destruct H as [H Hw].
  apply andb_prop in H. destruct H as [H Hrep].
  apply andb_prop in H. destruct H as [H He].
  apply andb_prop in H. destruct H as [H Hc].
  apply andb_prop in H. destruct H as [H Hl].
  apply andb_prop in H. destruct H as [Hk Ho].
  apply eqb_of_true in Hk. apply eqb_of_true in He.
  apply Z.eqb_eq in Ho. apply Z.eqb_eq in Hl. apply Z.eqb_eq in Hc. apply Z.eqb_eq in Hrep. apply Z.eqb_eq in Hw.
  split; [exact Hk |]. split; [exact Ho |]. split; [exact Hl |]. split; [exact Hc |]. split; [exact He |].
  split; [exact Hrep |]. split; [exact Hw |]. split.
  - intros Hn. rewrite Hn in Hi. cbn in Hi. apply Z.eqb_eq in Hi. exact Hi.
  - intros Hr. rewrite Hr in Hs. cbn in Hs. apply eqb_of_true in Hs. exact Hs.
Qed.

Lemma hop_tagged_inv : forall h a t, hop_tagged h a t = true ->
  d_tags a = hop_tags h (d_tags t) /\ d_all a = hop_all h (d_all t).
Proof.
  intros h a t H. unfold hop_tagged in H. apply andb_prop in H. destruct H as [H1 H2].
  split; apply list_eqb_eq; assumption.
Qed.

Lemma forallb_In : forall A (f : A -> bool) l x, forallb f l = true -> In x l -> f x = true.
Proof. intros A f l x H Hin. rewrite forallb_forall in H. auto. Qed.

(* ---- the chain invariant ---- *)

Theorem alias_chain_invariant : forall X i j path, wf_x X = true -> reaches X i j path ->
  forall a xa, nthZ (t_descrs (xt_tab X)) i = Some a -> nthZ (xt_x X) i = Some xa ->
  exists t xt, nthZ (t_descrs (xt_tab X)) j = Some t /\ nthZ (xt_x X) j = Some xt
    /\ d_kind a = d_kind t /\ x_op xa = x_op xt /\ x_el xa = x_el xt /\ x_ec xa = x_ec xt /\ d_elems a = d_elems t
    /\ x_rep xa = x_rep xt /\ int_width (d_spec a) = int_width (d_spec t)
    /\ d_tags a = chain_tags path (d_tags t) /\ d_all a = chain_all path (d_all t)
    /\ (numeric_kind (d_kind t) = false -> x_sp xa = x_sp xt)
    /\ (forallb (fun h => rigid h (d_kind t)) path = true -> d_spec a = d_spec t).
Proof.
  intros X i j path W R. induction R as [i | h j path Hin R IH]; intros a xa Ha Hxa.
  - exists a, xa. cbn. repeat (split; [solve [auto] |]). auto.
  - destruct (wf_x_parts X W) as (_ & _ & _ & Hh & _).
    pose proof (forallb_In _ _ _ _ Hh Hin) as Hok.
    destruct (hop_ok_inv X h Hok) as (a' & t' & xa' & xt' & Ea & Et & Exa & Ext & Hs & Ht & _).
    rewrite Ha in Ea. inversion Ea; subst a'. rewrite Hxa in Exa. inversion Exa; subst xa'.
    destruct (IH t' xt' Et Ext) as (t & xt & Et2 & Ext2 & Kk & Ko & Ke & Kc & Kl & Krep & Kw & Kt & Kal & Kid & Ksp).
    destruct (hop_same_inv _ _ _ _ _ Hs) as (Jk & Jo & Je & Jc & Jl & Jrep & Jw & Jid & Jsp).
    destruct (hop_tagged_inv _ _ _ Ht) as (Jt & Jal).
    exists t, xt.
    split; [exact Et2 |]. split; [exact Ext2 |]. split; [congruence |]. split; [congruence |]. split; [congruence |].
    split; [congruence |]. split; [congruence |]. split; [congruence |]. split; [congruence |].
    split; [| split; [| split]].
    + cbn [chain_tags fold_right]. fold (chain_tags path (d_tags t)). rewrite <- Kt. exact Jt.
    + cbn [chain_all fold_right]. fold (chain_all path (d_all t)). rewrite <- Kal. exact Jal.
    + intros Hn. rewrite <- Kk in Hn. rewrite (Jid Hn). apply Kid. rewrite <- Kk. exact Hn.
    + intros H. cbn [forallb] in H. apply andb_prop in H. destruct H as [Hr Hrest].
      rewrite <- Kk in Hr. rewrite (Jsp Hr). apply Ksp. exact Hrest.
Qed.

(* THE invariant the seeded change C10-5 is about: specifics of a reference descriptor = specifics of its terminal type,
   through any number of hops, tagged or not.  For every kind but INTEGER / REAL it is the same C object; its content is
   the terminal's as long as no hop re-constrains a numeric type; what it says about the C representation is the
   terminal's always. *)
Theorem alias_specifics_terminal : forall X i j path a xa t xt, wf_x X = true -> reaches X i j path -> terminal X j ->
  nthZ (t_descrs (xt_tab X)) i = Some a -> nthZ (xt_x X) i = Some xa ->
  nthZ (t_descrs (xt_tab X)) j = Some t -> nthZ (xt_x X) j = Some xt ->
  x_op xa = x_op xt /\ d_kind a = d_kind t /\ x_el xa = x_el xt /\ d_elems a = d_elems t
  /\ x_rep xa = x_rep xt /\ int_width (d_spec a) = int_width (d_spec t)
  /\ (numeric_kind (d_kind t) = false -> x_sp xa = x_sp xt /\ d_spec a = d_spec t)
  /\ (forallb (fun h => rigid h (d_kind t)) path = true -> d_spec a = d_spec t).
Proof.
  intros X i j path a xa t xt W R _ Ha Hxa Ht Hxt.
  destruct (alias_chain_invariant X i j path W R a xa Ha Hxa) as (t' & xt' & Et & Ext & Kk & Ko & Ke & _ & Kl & Krep & Kw & _ & _ & Kid & Ksp).
  rewrite Ht in Et. inversion Et; subst t'. rewrite Hxt in Ext. inversion Ext; subst xt'.
  repeat (split; [solve [auto] |]). split; [| exact Ksp].
  intros Hn. split; [exact (Kid Hn) |]. apply Ksp.
  apply forallb_forall. intros h _. unfold rigid. rewrite Hn. rewrite andb_false_r. reflexivity.
Qed.

(* ---- the terminal of a reference is unique ---- *)

Lemma nodupZ_inj : forall A (f : A -> Z) l a b, nodupZ (map f l) = true -> In a l -> In b l -> f a = f b -> a = b.
Proof.
  intros A f l. induction l as [| x r IH]; intros a b H Ha Hb E; [destruct Ha |].
  cbn in H. apply andb_prop in H. destruct H as [Hn Hr].
  apply negb_true_iff in Hn.
  assert (Hno : forall y, In y r -> f x <> f y).
  { intros y Hy Eq. assert (existsb (Z.eqb (f x)) (map f r) = true).
    { apply existsb_exists. exists (f y). split; [apply in_map; exact Hy | apply Z.eqb_eq; exact Eq]. }
    congruence. }
  destruct Ha as [Ha | Ha]; destruct Hb as [Hb | Hb].
  - congruence.
  - subst a. exfalso. apply (Hno b Hb). exact E.
  - subst b. exfalso. apply (Hno a Ha). symmetry. exact E.
  - apply IH; auto.
Qed.

Theorem terminal_unique : forall X i j path, wf_x X = true -> reaches X i j path -> terminal X j ->
  forall j' path', reaches X i j' path' -> terminal X j' -> j = j' /\ path = path'.
Proof.
  intros X i j path W R. destruct (wf_x_parts X W) as (_ & _ & _ & _ & Hnd).
  induction R as [i | h j path Hin R IH]; intros Tj j' path' R' Tj'.
  - inversion R' as [i0 | h0 j0 p0 Hin0 R0]; subst.
    + auto.
    + exfalso. apply (Tj h0 Hin0). reflexivity.
  - inversion R' as [i0 E1 E2 E3 | h0 j0 p0 Hin0 R0 E1 E2 E3].
    + subst. exfalso. apply (Tj' h Hin). reflexivity.
    + assert (h0 = h) by (apply (nodupZ_inj _ h_from (xt_hops X)); auto).
      subst h0. subst. destruct (IH Tj j' p0 R0 Tj') as [E4 E5]. subst. auto.
Qed.

(* ---- tags along a chain ---- *)

Lemma chain_all_written : forall path base, chain_all path base = written_tags path ++ base.
Proof.
  induction path as [| h r IH]; intros base; [reflexivity |].
  cbn [chain_all fold_right]. fold (chain_all r base). rewrite IH. unfold hop_all, written_tags. cbn [filter].
  destruct (h_tag h <? 0); reflexivity.
Qed.

Lemma chain_tags_head : forall path base w ws, written_tags path = w :: ws -> exists r, chain_tags path base = w :: r.
Proof.
  induction path as [| h r IH]; intros base w ws H; [discriminate |].
  cbn [chain_tags fold_right]. fold (chain_tags r base). unfold written_tags in H. cbn [filter] in H. unfold hop_tags.
  destruct (h_tag h <? 0).
  - cbn in H. apply (IH base w ws). exact H.
  - cbn in H. inversion H; subst. eexists; reflexivity.
Qed.

Lemma chain_tags_untagged : forall path base, written_tags path = [] -> chain_tags path base = base.
Proof.
  induction path as [| h r IH]; intros base H; [reflexivity |].
  cbn [chain_tags fold_right]. fold (chain_tags r base). unfold written_tags in H. cbn [filter] in H. unfold hop_tags.
  destruct (h_tag h <? 0).
  - cbn in H. apply IH. exact H.
  - cbn in H. discriminate.
Qed.

(* the full tag chain of a reference = the tags written along the chain, outermost first, then the terminal's;
   its outermost effective tag = the first tag written along the chain, and the terminal's own vector if none is *)
Theorem alias_tags : forall X i j path a t, wf_x X = true -> reaches X i j path ->
  nthZ (t_descrs (xt_tab X)) i = Some a -> nthZ (t_descrs (xt_tab X)) j = Some t ->
  d_all a = written_tags path ++ d_all t
  /\ d_tags a = chain_tags path (d_tags t)
  /\ (forall w ws, written_tags path = w :: ws -> exists r, d_tags a = w :: r)
  /\ (written_tags path = [] -> d_tags a = d_tags t).
Proof.
  intros X i j path a t W R Ha Ht.
  destruct (wf_x_parts X W) as (_ & Hlen & _).
  assert (exists xa, nthZ (xt_x X) i = Some xa) as [xa Hxa].
  { apply nthZ_some. rewrite Hlen. unfold nthZ in Ha. destruct (i <? 0) eqn:E; [discriminate |].
    apply Z.ltb_ge in E. split; [exact E |]. unfold lenZ.
    assert (Z.to_nat i < length (t_descrs (xt_tab X)))%nat by (apply nth_error_Some; congruence). lia. }
  destruct (alias_chain_invariant X i j path W R a xa Ha Hxa) as (t' & xt' & Et & _ & _ & _ & _ & _ & _ & _ & _ & Kt & Kal & _).
  rewrite Ht in Et. inversion Et; subst t'.
  repeat split.
  - rewrite Kal. apply chain_all_written.
  - exact Kt.
  - intros w ws H. rewrite Kt. apply (chain_tags_head path (d_tags t) w ws H).
  - intros H. rewrite Kt. apply chain_tags_untagged. exact H.
Qed.

(* ---- every use position: a member whose type is a reference carries the outermost tag of the chain ---- *)

Lemma in_combine_ex : forall A B (l : list A) (r : list B) a, length l = length r -> In a l -> exists b, In (a, b) (combine l r).
Proof.
  induction l as [| x l IH]; intros r a Hlen Hin; [destruct Hin |].
  destruct r as [| y r]; [discriminate |]. cbn in Hlen. injection Hlen as Hlen.
  destruct Hin as [Hin | Hin].
  - subst. exists y. left. reflexivity.
  - destruct (IH r a Hlen Hin) as [b Hb]. exists b. right. exact Hb.
Qed.

Theorem member_tag_through_chain : forall X d m j path a t, wf_x X = true ->
  In d (t_descrs (xt_tab X)) -> In m (d_elems d) -> m_tmode m = 0 ->
  reaches X (m_type m) j path ->
  nthZ (t_descrs (xt_tab X)) (m_type m) = Some a -> nthZ (t_descrs (xt_tab X)) j = Some t ->
  m_tag m = hd (-1) (chain_tags path (d_tags t)).
Proof.
  intros X d m j path a t W Hd Hm Hmode R Ha Ht.
  destruct (wf_x_parts X W) as (_ & Hlen & Hxd & _).
  assert (Hl : length (t_descrs (xt_tab X)) = length (xt_x X)).
  { unfold lenZ in Hlen. lia. }
  destruct (in_combine_ex _ _ _ _ d Hl Hd) as [x Hx].
  pose proof (forallb_In _ _ _ _ Hxd Hx) as Hc. cbn in Hc.
  apply andb_prop in Hc. destruct Hc as [_ Hc]. apply andb_prop in Hc. destruct Hc as [Hc _].
  pose proof (forallb_In _ _ _ _ Hc Hm) as Hmt. unfold member_tag_ok in Hmt.
  rewrite Hmode in Hmt. cbn in Hmt. rewrite Ha in Hmt. apply Z.eqb_eq in Hmt.
  destruct (alias_tags X (m_type m) j path a t W R Ha Ht) as (_ & Kt & _).
  rewrite Hmt. rewrite Kt. destruct (chain_tags path (d_tags t)); reflexivity.
Qed.

(* ---- non-vacuity: Blob ::= OCTET STRING, Key ::= Blob, Handle ::= [APPLICATION 3] IMPLICIT Key, Flags ::= BIT STRING,
        MyFlags ::= Flags, Rec ::= SEQUENCE { k Key, h Handle } ---- *)
Example sample_x : xtable := mkXT
  (mkTab true true [
    mkD 0 KOctets [16] [16] [] None None SOther 0;
    mkD 1 KOctets [16] [16] [] None None SOther 0;
    mkD 2 KOctets [13] [13; 16] [] None None SOther 0;
    mkD 3 KBits [12] [12] [] None None SOther 0;
    mkD 4 KBits [12] [12] [] None None SOther 0;
    mkD 5 KSeq [64] [64] [mkM 0 0 16 0 1 None None false false; mkM 0 0 13 0 2 None None false false] None None
        (SSeq [mkT 16 0 0 0; mkT 13 1 0 0] [] 0 0 (-1)) 0 ])
  [mkX 1 0 1 0 0; mkX 1 0 1 0 0; mkX 1 0 1 0 0; mkX 2 0 2 0 0; mkX 2 0 2 0 0; mkX 3 1 3 2 0]
  [mkH 1 0 (-1) false false; mkH 2 1 13 true false; mkH 4 3 (-1) false false].

Example sample_x_ok : wf_x sample_x = true.
Proof. vm_compute. reflexivity. Qed.

(* the alias of the BIT STRING with NULL specifics (compiles; the runtime would treat MyFlags as an OCTET STRING) *)
Example sample_x_null_specifics : diagnose_x (mkXT (xt_tab sample_x)
  [mkX 1 0 1 0 0; mkX 1 0 1 0 0; mkX 1 0 1 0 0; mkX 2 0 2 0 0; mkX 2 0 0 0 0; mkX 3 1 3 2 0] (xt_hops sample_x)) = [(4, 11); (4, 8)].
Proof. vm_compute. reflexivity. Qed.

(* the alias naming ANOTHER type's record (what `&asn_SPC_<ReferencedType>_specs` would be if it existed) *)
Example sample_x_other_specifics : diagnose_x (mkXT (xt_tab sample_x)
  [mkX 1 0 1 0 0; mkX 1 0 4 0 0; mkX 1 0 1 0 0; mkX 2 0 2 0 0; mkX 2 0 2 0 0; mkX 3 1 3 2 0] (xt_hops sample_x)) = [(1, 8); (2, 8)].
Proof. vm_compute. reflexivity. Qed.

(* the tag written at a hop dropped from the vectors *)
Example sample_x_lost_tag : diagnose_x (mkXT
  (mkTab true true [ mkD 0 KAny [] [] [] None None SOther 0; mkD 1 KAny [] [] [] None None SOther 0 ])
  [mkX 1 0 1 0 0; mkX 1 0 1 0 0] [mkH 1 0 6 false false]) = [(1, 9)].
Proof. vm_compute. reflexivity. Qed.
