(* Rt/DefaultRt.v — C01, DEFAULT components of an extensible SEQUENCE (root members and
   extension additions): the DECODER side and the value relation of the round trip.
   The encoder side is Rt/CanonicalDefault.v (built for C06, imported, not changed):
   [dfl_der], [dfl_uper], [dfl_oer] = the encoders of Rt/Ext.v after [elide] (a stored
   component equal to its DEFAULT is treated as absent at EVERY place an encoder looks at it).

   What the C decoders do with a component that has a DEFAULT and is not in the encoding
   (`default_value_set` of the member descriptor):
     SEQUENCE_decode_ber   nothing: the pointer stays NULL                       [dfl_ber_dec]
     SEQUENCE_decode_uper  root: filled in when its presence bit is 0; additions: the loop
                           "Fill DEFAULT members in extensions" after the extension part,
                           whether or not the extension bit was set               [dfl_uper_dec]
     SEQUENCE_decode_oer   root: filled in when its preamble bit is 0; additions: filled in
                           inside phase 3 (bitmap bit 0 or bitmap exhausted), which is reached
                           only when the extension bit of the preamble is 1 — with the bit 0
                           phase 2 returns and the additions stay NULL            [dfl_oer_dec]
   So the structure that comes back is in general NOT the one that was encoded (absent ->
   stored default, stored default -> absent): the round trip holds up to [dflt_equiv].
   One more encoder variant, the seeded change C01-7: the extension-addition presence bitmap
   of SEQUENCE_encode_oer written from pointer presence, everything else asking
   default_value_cmp [dfl_oer_ptr_bitmap].
   No proofs here (DefaultRtProofs.v). *)
From Coq Require Import ZArith List Bool.
From A1 Require Import Base.Bytes Rt.Types Rt.Comb Rt.Der Rt.Uper Rt.Oer Rt.Ext Rt.Canonical Rt.CanonicalDefault.
Import ListNotations.
Local Open Scope Z_scope.

(* default_value_set on a NULL pointer *)
Definition fill1 (d : option val) (v : val) : val :=
  match d, v with
  | Some dv, VNone => VSome dv
  | _, _ => v
  end.

Fixpoint fill (ds : list (option val)) (vs : list val) : list val :=
  match ds, vs with
  | d :: ds', v :: vs' => fill1 d v :: fill ds' vs'
  | _, _ => vs
  end.

(* ---------------- decoders ---------------- *)

Definition dfl_ber_dec (dr da : list (option val)) (t : ety) (bs : list Z) : option (eval * list Z) :=
  ext_ber_dec t bs.

Definition dfl_uper_dec (std : bool) (dr da : list (option val)) (t : ety) (bits : list bool)
  : option (eval * list bool) :=
  match ext_uper_dec std t bits with
  | Some (EVSeq rvs avs, r) => Some (EVSeq (fill dr rvs) (fill da avs), r)
  | o => o
  end.

(* the extension bit: the first bit of the (possibly multi-octet) preamble *)
Definition oer_ext_bit (bs : list Z) : bool :=
  match bs with
  | b :: _ => 128 <=? b
  | [] => false
  end.

Definition dfl_oer_dec (dr da : list (option val)) (t : ety) (bs : list Z) : option (eval * list Z) :=
  match ext_oer_dec t bs with
  | Some (EVSeq rvs avs, r) =>
      Some (EVSeq (fill dr rvs) (if oer_ext_bit bs then fill da avs else avs), r)
  | o => o
  end.

(* complete encodings, with the number of octets consumed (what the tie compares) *)
Definition dfl_ber_decode (dr da : list (option val)) (t : ety) (bs : list Z) : option (eval * Z) :=
  match dfl_ber_dec dr da t bs with
  | Some (v, rest) => Some (v, zlen bs - zlen rest)
  | None => None
  end.

Definition dfl_oer_decode (dr da : list (option val)) (t : ety) (bs : list Z) : option (eval * Z) :=
  match dfl_oer_dec dr da t bs with
  | Some (v, rest) => Some (v, zlen bs - zlen rest)
  | None => None
  end.

Definition dfl_uper_decode (std : bool) (dr da : list (option val)) (t : ety) (bytes : list Z) : option (eval * Z) :=
  match ext_uper_decode std t bytes with
  | Some (EVSeq rvs avs, n) => Some (EVSeq (fill dr rvs) (fill da avs), n)
  | o => o
  end.

(* ---------------- the value relation ---------------- *)

(* two stored structures that denote the same abstract value: component by component equal, or
   both at the DEFAULT (absent, or stored with a value equal to it) *)
Definition dflt_equiv (dr da : list (option val)) (v1 v2 : eval) : Prop :=
  match v1, v2 with
  | EVSeq r1 a1, EVSeq r2 a2 => Forall3 dflt_rel dr r1 r2 /\ Forall3 dflt_rel da a1 a2
  | _, _ => v1 = v2
  end.

(* the DEFAULTs are values the generated comparison knows (INTEGER / ENUMERATED / BOOLEAN / NULL),
   one entry per root member and per addition *)
Definition dflt_leaf (d : option val) : Prop :=
  match d with Some dv => leaf_eqb dv dv = true | None => True end.

Definition dflt_shape (dr da : list (option val)) (t : ety) : Prop :=
  match t with
  | ESeq _ root adds =>
      length dr = length root /\ length da = length adds /\ Forall dflt_leaf dr /\ Forall dflt_leaf da
  | EChoice _ _ => True
  end.

(* ---------------- SEQUENCE_encode_oer with the presence bitmap of the additions taken from
   pointer presence (seeded change C01-7); extension bit, root and open types as dfl_oer ------- *)
Definition dfl_oer_ptr_bitmap (dr da : list (option val)) (t : ety) (v : eval) : option (list Z) :=
  match t, v with
  | ESeq _ root adds, EVSeq rvs0 avs0 =>
      let rvs := elide dr rvs0 in
      let avs := elide da avs0 in
      match enc_members oer root rvs, enc_additions oer oer_open adds avs with
      | Some body, Some ots =>
          let any := existsb is_present avs in
          let pre := bits_to_bytes (any :: presence_bits root rvs) in
          if any then
            match oer_ext_bitmap (map is_present avs0) with
            | Some bm => Some (pre ++ body ++ bm ++ ots)
            | None => None
            end
          else Some (pre ++ body)
      | _, _ => None
      end
  | _, _ => dfl_oer dr da t v
  end.
