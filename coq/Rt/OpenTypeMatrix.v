(* Rt/OpenTypeMatrix.v — the object-set table as a MATRIX over an information object
   class of any shape (C18, round 3).  Executable model, no proofs (OpenTypeMatrixProofs.v).

   OpenType.v fixes the class shape: a row is (identifier cell, type cells of the open-type
   members).  What asn1c really emits is a flat array of cells,

       asn_IOS_<Set>_<n>_rows[] = { cell, cell, ... };   asn_IOS_<Set>_<n>[] = { rows, columns, rows[] };

   one cell per FIELD of the class, in the order of the class definition, for every object
   (libasn1parser/asn1p_class.c:asn1p_ioc_row_new, libasn1compiler/asn1c_ioc.c:emit_ioc_table),
   and the generated selector (asn1c_C.c:emit_member_type_selector) addresses it as
   rows[row * columns_count + column] with two column indexes found by field NAME
   (constraining_column = the identifier field, for_column = the member's field).
   A field the object does not set (OPTIONAL / DEFAULT field left out of the WITH SYNTAX text)
   is an EMPTY cell `{ "&field",  }` (all other struct members zero): the matrix is dense.

   Here: [obj] = an object as written (settings by field index, in the order of the WITH SYNTAX
   text), [compile_row] = asn1fix_cws.c filling the row, [emit_dense] = emit_ioc_table,
   [emit_skip] = the emission that leaves unset cells out (seeded change C18-4) under the same
   header, [select_flat] = the generated selector on the flat array, [select_written] = the
   selection on the set as written, [alts] = the alternatives of the CHOICE-shaped open type
   (asn1c_C.c:asn1c_lang_C_OpenType: rows whose cell is unset are skipped), [compile_objs] =
   which objects of a set with references to other sets reach the table. *)
From Coq Require Import ZArith List Bool Arith.
From A1 Require Import Rt.Types Rt.Comb Rt.OpenType.
Import ListNotations.

Section Matrix.

Variable A : Type.        (* a setting: a value or a type *)

(* an object as written: field index -> setting, in WITH SYNTAX order *)
Definition obj := list (nat * A).

Fixpoint lookup (c : nat) (o : obj) : option A :=
  match o with
  | [] => None
  | (k, s) :: tl => if Nat.eqb k c then Some s else lookup c tl
  end.

(* asn1p_ioc_row_new + _asn1f_parse_class_object_data: one cell per class field, in class order *)
Definition compile_row (n : nat) (o : obj) : list (option A) :=
  map (fun c => lookup c o) (seq 0 n).

Definition cells_dense (n : nat) (objs : list obj) : list (option A) :=
  flat_map (compile_row n) objs.

Definition is_set (x : option A) : bool := match x with Some _ => true | None => false end.

(* the emission that skips the cells of unset fields *)
Definition cells_skip (n : nat) (objs : list obj) : list (option A) :=
  flat_map (fun o => filter is_set (compile_row n o)) objs.

(* { rows_count, columns_count, rows[] } *)
Record emitted := Emitted { e_rows : nat; e_cols : nat; e_cells : list (option A) }.

(* emit_ioc_table: `columns` is taken from the first row (0 when there is none) *)
Definition cols_of (n : nat) (objs : list obj) : nat :=
  match objs with [] => O | _ => n end.

Definition emit_dense (n : nat) (objs : list obj) : emitted :=
  Emitted (length objs) (cols_of n objs) (cells_dense n objs).

Definition emit_skip (n : nat) (objs : list obj) : emitted :=
  Emitted (length objs) (cols_of n objs) (cells_skip n objs).

(* &itable->rows[row * itable->columns_count + column]; None = beyond the array *)
Definition cell_at (e : emitted) (r c : nat) : option (option A) :=
  nth_error (e_cells e) (r * e_cols e + c).

(* result of the generated selector:
   SelNone      {0, 0}: no row;
   SelRow r tc  presence_index = r + 1, type_descriptor = the type cell's (tc = None: NULL, the cell is empty);
   SelStuck     undefined behaviour: the identifier cell is empty (its NULL type_descriptor is
                dereferenced for compare_struct) or the index is beyond the array *)
Inductive sel := SelNone | SelRow (r : nat) (tc : option A) | SelStuck.

Fixpoint walk (eq : A -> bool) (e : emitted) (ic fc : nat) (k row : nat) : sel :=
  match k with
  | O => SelNone
  | S k' =>
      match cell_at e row ic with
      | Some (Some idc) =>
          if eq idc then
            match cell_at e row fc with
            | Some tc => SelRow row tc
            | None => SelStuck
            end
          else walk eq e ic fc k' (S row)
      | _ => SelStuck
      end
  end.

(* for(row = 0; row < itable->rows_count; row++) ...; [eq] = compare_struct(cell, member) == 0 *)
Definition select_flat (eq : A -> bool) (e : emitted) (ic fc : nat) : sel :=
  walk eq e ic fc (e_rows e) O.

(* the same selection on the set as written: the first object whose identifier setting equals
   the value, with its setting of the member's field (an object without an identifier setting
   has nothing to compare with: the generated code is stuck there) *)
Fixpoint select_written (eq : A -> bool) (ic fc : nat) (objs : list obj) (i : nat) : sel :=
  match objs with
  | [] => SelNone
  | o :: tl =>
      match lookup ic o with
      | Some idc => if eq idc then SelRow i (lookup fc o) else select_written eq ic fc tl (S i)
      | None => SelStuck
      end
  end.

(* asn1c_lang_C_OpenType: the alternatives of the open type on column fc, in row order,
   rows with an unset cell skipped; OPEN_TYPE_*_get uses elements[presence_index - 1] *)
Definition alts (fc : nat) (objs : list obj) : list A :=
  flat_map (fun o => match lookup fc o with Some s => [s] | None => [] end) objs.

(* how many of the objects set field fc *)
Definition count_set (fc : nat) (objs : list obj) : nat := length (alts fc objs).

(* ---------------- sets with references to other sets ---------------- *)

(* an element of a union: an object, or a reference to another object set given by its
   objects as written and by the table compiled for it *)
Inductive elem := EObj (o : obj) | ERef (written compiled : list obj).

(* comma-separated element sets (the marker contributes nothing), each a union *)
Definition eset := list (list elem).

Definition elem_written (e : elem) : list obj :=
  match e with EObj o => [o] | ERef w _ => w end.

(* X.681: every object written, directly or through a referenced set *)
Definition spec_objs (s : eset) : list obj := flat_map (flat_map elem_written) s.

Definition is_ref (e : elem) : bool := match e with ERef _ _ => true | EObj _ => false end.

Definition has_ref (s : eset) : bool := existsb (existsb is_ref) s.

Definition elem_refs (e : elem) : list obj :=
  match e with EObj _ => [] | ERef _ c => c end.

Definition group_objs (g : list elem) : list obj :=
  match g with
  | [EObj _] => []                       (* a lone object: ACT_EL_VALUE, skipped (as OpenType.compile_group) *)
  | _ => flat_map elem_written g
  end.

(* asn1fix_cws.c:asn1f_parse_class_object: a constraint tree with anything but unparsed objects in
   its unions does not "look like an object set": NO object of it is parsed; the tables of the
   referenced sets are appended by asn1fix_constraint.c:constraint_type_resolve, in text order *)
Definition compile_objs (s : eset) : list obj :=
  if has_ref s then flat_map (flat_map elem_refs) s
  else flat_map group_objs s.

End Matrix.

Arguments lookup {A}.
Arguments compile_row {A}.
Arguments cells_dense {A}.
Arguments cells_skip {A}.
Arguments is_set {A}.
Arguments Emitted {A}.
Arguments e_rows {A}.
Arguments e_cols {A}.
Arguments e_cells {A}.
Arguments cols_of {A}.
Arguments emit_dense {A}.
Arguments emit_skip {A}.
Arguments cell_at {A}.
Arguments SelNone {A}.
Arguments SelRow {A}.
Arguments SelStuck {A}.
Arguments walk {A}.
Arguments select_flat {A}.
Arguments select_written {A}.
Arguments alts {A}.
Arguments count_set {A}.
Arguments EObj {A}.
Arguments ERef {A}.
Arguments elem_written {A}.
Arguments spec_objs {A}.
Arguments is_ref {A}.
Arguments has_ref {A}.
Arguments elem_refs {A}.
Arguments group_objs {A}.
Arguments compile_objs {A}.

(* ---------------- settings of the modelled classes, and the link to OpenType.table ---------------- *)

(* a fixed-type value field holds a value, a type field a type *)
Inductive setting := SV (v : val) | ST (t : ty).

(* compare_struct(identifier cell, identifier member) == 0 *)
Definition id_is (v : val) (s : setting) : bool :=
  match s with
  | SV c => id_eqb v c
  | ST _ => false
  end.

Definition type_setting (o : obj setting) (fc : nat) : option ty :=
  match lookup fc o with
  | Some (ST t) => Some t
  | _ => None
  end.

(* the row of OpenType.table an object stands for: its identifier and its types in the
   columns of the open-type members (defined when the object sets all of them) *)
Definition row_of (ic : nat) (mcols : list nat) (o : obj setting) : option row :=
  match lookup ic o with
  | Some (SV c) =>
      match option_all (map (type_setting o) mcols) with
      | Some tys => Some (c, tys)
      | None => None
      end
  | _ => None
  end.

Definition table_of (ic : nat) (mcols : list nat) (objs : list (obj setting)) : option table :=
  option_all (map (row_of ic mcols) objs).
