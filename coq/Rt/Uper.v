(* Rt/Uper.v — unaligned PER over Rt/Types.v (first milestone: no extension
   additions in SEQUENCE/CHOICE).
   [uper std t v] is the encoder.  With std = false it is the model of what the
   C writes (per_support.c, INTEGER.c, OCTET_STRING.c, constr_*.c); with
   std = true it follows X.691 where the C is known to deviate:
     - semi-constrained INTEGER: X.691 10.7 encodes (v - lb) as a minimal
       unsigned integer; the C writes the two's-complement contents of v and
       refuses a non-zero lower bound.
   Elsewhere the two agree (UperProofs).  [uper_dec] is the reference decoder. *)
From Coq Require Import ZArith List Bool.
From A1 Require Import Base.Bytes Leaf.IntegerConv Rt.Types Rt.Comb Rt.Der.
Import ListNotations.
Local Open Scope Z_scope.

(* ---------------- bit strings ---------------- *)

(* the w low-order bits of n, most significant first (asn_put_few_bits) *)
Fixpoint nbits (w : nat) (n : Z) : list bool :=
  match w with
  | O => []
  | S k => Z.odd (n / 2 ^ Z.of_nat k) :: nbits k n
  end.

Definition byte_bits (b : Z) : list bool := nbits 8 b.
Definition bytes_bits (bs : list Z) : list bool := flat_map byte_bits bs.

Fixpoint bits_val (bs : list bool) : Z :=
  match bs with
  | [] => 0
  | b :: tl => (if b then 2 ^ zlen tl else 0) + bits_val tl
  end.

(* pad with zero bits to a whole number of octets and pack *)
Fixpoint pack_bits (fuel : nat) (bs : list bool) : list Z :=
  match fuel with
  | O => []
  | S f =>
      match bs with
      | [] => []
      | _ => let h := firstn 8 bs in
             bits_val h * 2 ^ (8 - zlen h) :: pack_bits f (skipn 8 bs)
      end
  end.
Definition bits_to_bytes (bs : list bool) : list Z := pack_bits (S (length bs)) bs.

Fixpoint take_bits (w : nat) (bs : list bool) : option (list bool * list bool) :=
  match w with
  | O => Some ([], bs)
  | S k => match bs with
           | [] => None
           | b :: tl => match take_bits k tl with
                        | Some (x, r) => Some (b :: x, r)
                        | None => None
                        end
           end
  end.

Definition get_bits (w : nat) (bs : list bool) : option (Z * list bool) :=
  match take_bits w bs with
  | Some (x, r) => Some (bits_val x, r)
  | None => None
  end.

Fixpoint get_bytes (n : nat) (bs : list bool) : option (list Z * list bool) :=
  match n with
  | O => Some ([], bs)
  | S k => match get_bits 8 bs with
           | Some (b, r) => match get_bytes k r with
                            | Some (x, r') => Some (b :: x, r')
                            | None => None
                            end
           | None => None
           end
  end.

(* number of bits for a constrained whole number with [range] values *)
Definition range_bits (range : Z) : nat := Z.to_nat (Z.log2_up range).

(* ---------------- length determinants (uper_put_length) ---------------- *)

(* general length determinant followed by the items, with 16K fragmentation:
     do { may = uper_put_length(n, &eom); put may items; n -= may;
          if(eom) uper_put_length(0); } while(n);                          *)
Fixpoint put_counted (fuel : nat) (items : list (list bool)) : list bool :=
  match fuel with
  | O => []
  | S f =>
      let n := zlen items in
      if n <=? 127 then nbits 8 n ++ concat items
      else if n <? 16384 then nbits 16 (n + 32768) ++ concat items
      else
        let m := Z.min (n / 16384) 4 in
        let k := Z.to_nat (m * 16384) in
        nbits 8 (192 + m) ++ concat (firstn k items) ++
        (match skipn k items with
         | [] => nbits 8 0            (* exact multiple of 16K: end-of-message length *)
         | rest => put_counted f rest
         end)
  end.

Definition counted (items : list (list bool)) : list bool :=
  put_counted (S (length items)) items.

(* X.691 11.9.4.1-2: the length is a constrained whole number only when the upper bound is below 64K.
   size determinant per SIZE constraint (OCTET STRING, SEQUENCE OF, SET OF):
   None = the size is not encodable under a non-extensible constraint *)
Definition sized (s : scon) (items : list (list bool)) : option (list bool) :=
  match s with
  | SCon lo hi ext =>
      let n := zlen items in
      let inroot := in_scon s n in
      let constrained := match hi with Some h => h <? 65536 | None => false end in
      let extbit := if ext then [negb inroot] else [] in
      if negb inroot && negb ext then
        (* the C fails only when the root has a constrained length field *)
        if constrained then None else Some (counted items)
      else if inroot && constrained then
        match hi with
        | Some h => Some (extbit ++ nbits (range_bits (h - lo + 1)) (n - lo) ++ concat items)
        | None => None
        end
      else Some (extbit ++ counted items)
  end.

(* ---------------- INTEGER ---------------- *)

(* minimal unsigned octets of a non-negative number (X.691 10.3 in 10.7) *)
Fixpoint min_unsigned (fuel : nat) (n : Z) (acc : list Z) : list Z :=
  match fuel with
  | O => acc
  | S f => if n <? 256 then n :: acc else min_unsigned f (n / 256) ((n mod 256) :: acc)
  end.
Definition unsigned_octets (n : Z) : list Z := min_unsigned 64 n [].

Definition uper_int (std : bool) (c : icon) (z : Z) : option (list bool) :=
  match c with
  | ICon lo hi ext =>
      let unconstrained := counted (map byte_bits (imax2INTEGER z)) in
      match lo, hi with
      | Some l, Some h =>
          let inroot := (l <=? z) && (z <=? h) in
          if inroot then Some ((if ext then [false] else []) ++ nbits (range_bits (h - l + 1)) (z - l))
          else if ext then Some (true :: unconstrained) else None
      | Some l, None =>
          let inroot := l <=? z in
          if inroot then
            if std then Some ((if ext then [false] else []) ++ counted (map byte_bits (unsigned_octets (z - l))))
            else if l =? 0 then Some ((if ext then [false] else []) ++ unconstrained)
            else None                                   (* "TODO: adjust lower bound" *)
          else if ext then Some (true :: unconstrained) else None
      | None, _ => Some ((if ext then [false] else []) ++ unconstrained)
      end
  end.

(* ---------------- CHOICE canonical order ---------------- *)

(* canonical tag order: class first, then number *)
Definition tag_key (tg : Z) : Z := (tg mod 4) * 4294967296 + tg / 4.

Definition min_key (t : ty) : Z :=
  match map tag_key (first_tags t) with
  | [] => 0
  | k :: ks => fold_left Z.min ks k
  end.

(* position of alternative i among the alternatives sorted by their smallest tag *)
Definition canonical_index (alts : list ty) (i : nat) : Z :=
  match nth_error alts i with
  | Some a => zlen (filter (fun b => min_key b <? min_key a) alts)
  | None => 0
  end.

(* What the generated tables hold (asn1c_C.c, compute_canonical_members_order):
   the array emitted as "to_canonical_order" is the list of definition indices
   in sorted order, i.e. the INVERSE of the map above.  The runtime indexes it
   with the definition index. *)
Fixpoint insert_idx (keys : list Z) (x : nat) (l : list nat) : list nat :=
  match l with
  | [] => [x]
  | y :: tl => if nth x keys 0 <=? nth y keys 0 then x :: l else y :: insert_idx keys x tl
  end.
Definition sorted_indices (alts : list ty) : list nat :=
  let keys := map min_key alts in
  fold_right (insert_idx keys) [] (seq 0 (length alts)).
Definition c_index (alts : list ty) (i : nat) : Z :=
  Z.of_nat (nth i (sorted_indices alts) O).

Definition choice_index (std : bool) (alts : list ty) (i : nat) : Z :=
  if std then canonical_index alts i else c_index alts i.

(* Which reading the C follows for the CHOICE index.  Until /repo commit b565b4c
   the generated tables were swapped and the C used [c_index] (cstd std = std);
   since that fix the C writes the canonical index, whatever [std]. *)
Definition cstd (std : bool) : bool := true.

(* ---------------- encoder ---------------- *)

Definition pad_key (bits : list bool) : list Z := bits_to_bytes bits.

Fixpoint insert_by_key (x : list bool) (l : list (list bool)) : list (list bool) :=
  match l with
  | [] => [x]
  | y :: tl => if lex_leb (pad_key x) (pad_key y) then x :: l else y :: insert_by_key x tl
  end.
Definition sort_bit_encodings (l : list (list bool)) : list (list bool) :=
  fold_right insert_by_key [] l.

Section Std.
  (* std = true: X.691; std = false: what the C does where it is known to deviate *)
  Variable std : bool.

  Fixpoint uper (t : ty) (v : val) {struct t} : option (list bool) :=
    match t, v with
    | TBool _, VBool b => Some [b]
    | TNull _, VNull => Some []
    | TInt _ c, VInt z => uper_int std c z
    | TOct _ s, VOct bs => sized s (map byte_bits bs)
    | TSeq _ ms, VSeq vs =>
        (* preamble: one presence bit per OPTIONAL member, then the members *)
        match enc_members uper ms vs with
        | Some body => Some (presence_bits ms vs ++ body)
        | None => None
        end
    | TSeqOf _ s e, VList vs =>
        match option_all (map (uper e) vs) with
        | Some es => sized s es
        | None => None
        end
    | TSetOf _ s e, VList vs =>
        match option_all (map (uper e) vs) with
        | Some es => sized s (sort_bit_encodings es)
        | None => None
        end
    | TChoice alts, VChoice i v' =>
        match enc_alt uper v' alts i with
        | Some body => Some (nbits (range_bits (zlen alts)) (choice_index (cstd std) alts i) ++ body)
        | None => None
        end
    | TTag _ t', _ => uper t' v
    | TOpt _, VNone => Some []
    | TOpt t', VSome v' => uper t' v'
    | _, _ => None
    end.
End Std.

(* a complete encoding: at least one octet (X.691 11.1.3: an empty bit string
   becomes a single zero octet) *)
Definition uper_encode (std : bool) (t : ty) (v : val) : option (list Z) :=
  match uper std t v with
  | Some [] => Some [0]
  | Some bits => Some (bits_to_bytes bits)
  | None => None
  end.

(* ---------------- reference decoder ---------------- *)

(* length determinant: (count, more fragments follow) *)
Definition get_length (bs : list bool) : option (Z * bool * list bool) :=
  match bs with
  | false :: r => match get_bits 7 r with Some (n, r') => Some (n, false, r') | None => None end
  | true :: false :: r => match get_bits 14 r with Some (n, r') => Some (n, false, r') | None => None end
  | true :: true :: r =>
      match get_bits 6 r with
      | Some (m, r') => if (1 <=? m) && (m <=? 4) then Some (m * 16384, true, r') else None
      | None => None
      end
  | _ => None
  end.

Section Counted.
  Context {A : Type}.
  Variable item : list bool -> option (A * list bool).

  Definition get_items : nat -> list bool -> option (list A * list bool) := dec_items item.

  Fixpoint get_counted (fuel : nat) (bs : list bool) : option (list A * list bool) :=
    match fuel with
    | O => None
    | S f =>
        match get_length bs with
        | Some (n, more, r) =>
            match get_items (Z.to_nat n) r with
            | Some (x, r') =>
                if more then
                  match get_counted f r' with
                  | Some (y, r'') => Some (x ++ y, r'')
                  | None => None
                  end
                else Some (x, r')
            | None => None
            end
        | None => None
        end
    end.

  Definition get_sized (s : scon) (bs : list bool) : option (list A * list bool) :=
    match s with
    | SCon lo hi ext =>
        let constrained := match hi with Some h => h <? 65536 | None => false end in
        let general (bs : list bool) := get_counted (S (length bs)) bs in
        let root (bs : list bool) :=
          if constrained then
            match hi with
            | Some h => match get_bits (range_bits (h - lo + 1)) bs with
                        | Some (n, r) => if n <=? h - lo then get_items (Z.to_nat (n + lo)) r else None
                        | None => None
                        end
            | None => None
            end
          else general bs in
        if ext then
          match bs with
          | false :: r => root r
          | true :: r => general r
          | [] => None
          end
        else root bs
    end.
End Counted.

Definition get_octet (bs : list bool) : option (Z * list bool) := get_bits 8 bs.

Definition uper_dec_int (c : icon) (bs : list bool) : option (Z * list bool) :=
  match c with
  | ICon lo hi ext =>
      let signed (bs : list bool) :=
        match get_counted get_octet (S (length bs)) bs with
        | Some (os, r) => match os with [] => None | _ => Some (twos_value os, r) end
        | None => None
        end in
      let root (bs : list bool) :=
        match lo, hi with
        | Some l, Some h =>
            match get_bits (range_bits (h - l + 1)) bs with
            | Some (n, r) => if n <=? h - l then Some (l + n, r) else None
            | None => None
            end
        | Some l, None =>
            match get_counted get_octet (S (length bs)) bs with
            | Some (os, r) => match os with [] => None | _ => Some (l + be_val os, r) end
            | None => None
            end
        | None, _ => signed bs
        end in
      if ext then
        match bs with
        | false :: r => root r
        | true :: r => signed r
        | [] => None
        end
      else root bs
  end.

Section StdDec.
  Variable std : bool.

  Fixpoint uper_dec (t : ty) (bs : list bool) {struct t} : option (val * list bool) :=
    match t with
    | TBool _ => match bs with b :: r => Some (VBool b, r) | [] => None end
    | TNull _ => Some (VNull, bs)
    | TInt _ c =>
        match uper_dec_int c bs with
        | Some (z, r) => if fits_long z then Some (VInt z, r) else None
        | None => None
        end
    | TOct _ s =>
        match get_sized get_octet s bs with
        | Some (os, r) => Some (VOct os, r)
        | None => None
        end
    | TSeq _ ms =>
        match take_bits (length (filter is_opt ms)) bs with
        | Some (pres, r0) =>
            match dec_members_pres uper_dec ms pres r0 with
            | Some (vs, r) => Some (VSeq vs, r)
            | None => None
            end
        | None => None
        end
    | TSeqOf _ s e | TSetOf _ s e =>
        match get_sized (uper_dec e) s bs with
        | Some (vs, r) => Some (VList vs, r)
        | None => None
        end
    | TChoice alts =>
        match get_bits (range_bits (zlen alts)) bs with
        | Some (idx, r) => dec_alt uper_dec (fun i _ => choice_index (cstd std) alts i =? idx) r alts O
        | None => None
        end
    | TTag _ t' => uper_dec t' bs
    | TOpt t' =>
        (* only reached through TSeq, which handles presence itself *)
        match uper_dec t' bs with
        | Some (v, r) => Some (VSome v, r)
        | None => None
        end
    end.
End StdDec.

(* asn_decode on a complete buffer: value and octets consumed (bits rounded up,
   at least one octet) *)
Definition uper_decode (std : bool) (t : ty) (bytes : list Z) : option (val * Z) :=
  match uper_dec std t (bytes_bits bytes) with
  | Some (v, rest) =>
      let used := zlen (bytes_bits bytes) - zlen rest in
      Some (v, Z.max 1 ((used + 7) / 8))
  | None => None
  end.
