(* Rt/ResumeX.v — restartable steps of the XER string body and of the OER
   open-type skipper (C05), executable definitions only.

   1. [entref_step]: the body receiver of OCTET_STRING_decode_xer_utf8
      (OCTET_STRING.c: OCTET_STRING__convert_entrefs) as xer_decode_general
      drives it.  The window is the character data that follows the opening
      tag.  When a '<' is in the window the text before it is complete
      (have_more = 1): everything is converted, an '&' that does not start a
      recognised reference is copied verbatim.  Otherwise the text merely stops
      at the end of the buffer (have_more = 0): conversion stalls at the first
      '&' whose reference cannot be decided yet, what precedes it is consumed
      and appended to the string (the context), the rest is re-presented.
      [ref_at] is the decision taken at one '&'; [conv] the loop.
   2. [skip_step] / [skips_step]: oer_open_type_skip (oer_decoder.c) and the
      loop of SEQUENCE_decode_oer phase 4 over the remaining bits of the
      extension presence bitmap (constr_SEQUENCE_oer.c).  full = true: the
      length determinant AND the contents it announces must be in the window
      (X.696 30; the repaired code); full = false: only the determinant is
      skipped (the code before the repair, finding C01/C03-ext-oer-skip-unknown). *)
From Coq Require Import ZArith List Bool.
From A1 Require Import Base.Bytes Rt.Resume.
From A1 Require Rt.Ext.
Import ListNotations.
Local Open Scope Z_scope.

(* ------------------------------------------------------------------ *)
(* 1. entity references                                                *)

(* OS__strtoent: digits up to ';'.  The letters a-f/A-F count as 10..15 in base
   10 as well (as the C does).  NVal: ';' reached, value and number of
   characters used including the ';'.  NEnd: the window ran out.  NErr: a
   character outside the set, or a value beyond the last Unicode code point. *)
Inductive nres := NVal (v : Z) (used : nat) | NEnd | NErr.

Definition digit_of (ch : Z) : option Z :=
  if (48 <=? ch) && (ch <=? 57) then Some (ch - 48)
  else if (65 <=? ch) && (ch <=? 70) then Some (ch - 65 + 10)
  else if (97 <=? ch) && (ch <=? 102) then Some (ch - 97 + 10)
  else None.

Definition last_unicode : Z := 1114111.     (* 0x10ffff *)

Fixpoint strtoent (base : Z) (w : list Z) (val : Z) (n : nat) : nres :=
  match w with
  | [] => NEnd
  | ch :: tl =>
      if ch =? 59 then NVal val (S n)
      else match digit_of ch with
           | Some d =>
               let v := val * base + d in
               if last_unicode <? v then NErr else strtoent base tl v (S n)
           | None => NErr
           end
  end.

(* the UTF-8 octets written for a code point (1 .. 0x10ffff: the five- and
   six-octet branches of the C cannot be reached) *)
Definition utf8_of (v : Z) : list Z :=
  if v <? 128 then [v]
  else if v <? 2048 then [192 + v / 64; 128 + v mod 64]
  else if v <? 65536 then [224 + v / 4096; 128 + (v / 64) mod 64; 128 + v mod 64]
  else [240 + v / 262144; 128 + (v / 4096) mod 64; 128 + (v / 64) mod 64; 128 + v mod 64].

(* position of the first ';' among the first [n] characters *)
Fixpoint find_semi (n : nat) (w : list Z) (i : nat) : option nat :=
  match n, w with
  | S n', ch :: tl => if ch =? 59 then Some i else find_semi n' tl (S i)
  | _, _ => None
  end.

(* what is decided at an '&' (w starts with it):
   XChars out used: `used` characters of the input become `out`;
   XStall: goto want_more.  A reference to the code point 0 ("&#0;", "&#;",
   "&#x;") is no character: the '&' is copied verbatim like that of any other
   unusable reference (the assert(val > 0) that stood there is gone). *)
Inductive xres := XChars (out : list Z) (used : nat) | XStall.

Definition verbatim : xres := XChars [38] 1.

Definition ref_at (w : list Z) : xres :=
  match w with
  | _ :: c1 :: rest =>
      if c1 =? 35 then                               (* "&#" *)
        match rest with
        | [] => XStall
        | c2 :: rest2 =>
            let hex := c2 =? 120 in                  (* 'x' *)
            match strtoent (if hex then 16 else 10) (if hex then rest2 else rest) 0 O with
            | NErr => verbatim
            | NEnd => XStall
            | NVal v n => if v =? 0 then verbatim else XChars (utf8_of v) ((if hex then 3 else 2) + n)
            end
        end
      else
        match find_semi 5 w O with
        | None => XStall
        | Some 4%nat =>
            match rest with
            | c2 :: c3 :: _ => if (c1 =? 97) && (c2 =? 109) && (c3 =? 112) then XChars [38] 5 else verbatim
            | _ => verbatim
            end
        | Some 3%nat =>
            match rest with
            | c2 :: _ =>
                if c1 =? 108 then (if c2 =? 116 then XChars [60] 4 else verbatim)
                else if c1 =? 103 then (if c2 =? 116 then XChars [62] 4 else verbatim)
                else verbatim
            | _ => verbatim
            end
        | Some _ => verbatim
        end
  | _ => XStall                                      (* len == 1 *)
  end.

(* the conversion loop.  [skip]: characters of a reference already converted
   that are still to be passed over.  Result: output, number of input
   characters converted. *)
Fixpoint conv (final : bool) (w : list Z) (skip : nat) : list Z * nat :=
  match w with
  | [] => ([], O)
  | ch :: tl =>
      match skip with
      | S s => match conv final tl s with (o, k) => (o, S k) end
      | O =>
          if ch =? 38 then
            match ref_at w with
            | XChars out used =>
                match conv final tl (used - 1) with (o, k) => (out ++ o, S k) end
            | XStall =>
                if final then match conv final tl O with (o, k) => (38 :: o, S k) end
                else ([], O)
            end
          else match conv final tl O with (o, k) => (ch :: o, S k) end
      end
  end.

Fixpoint find_lt (w : list Z) (i : nat) : option nat :=
  match w with
  | [] => None
  | ch :: tl => if ch =? 60 then Some i else find_lt tl (S i)
  end.

(* context: the string decoded so far (st->buf).  The reader never fails:
   whatever the text, it is converted (entref_total in ResumeXProofs.v). *)
Definition entref_step (acc : list Z) (w : list Z) : code * nat * list Z :=
  match find_lt w O with
  | Some i => match conv true (firstn i w) O with (o, k) => (OK, k, acc ++ o) end
  | None => match conv false w O with (o, k) => (MORE, k, acc ++ o) end
  end.

(* what OCTET_STRING_encode_xer_utf8 writes for the three characters it escapes *)
Fixpoint xer_escape (s : list Z) : list Z :=
  match s with
  | [] => []
  | ch :: tl =>
      (if ch =? 38 then [38; 97; 109; 112; 59]
       else if ch =? 60 then [38; 108; 116; 59]
       else if ch =? 62 then [38; 103; 116; 59]
       else [ch]) ++ xer_escape tl
  end.

(* ------------------------------------------------------------------ *)
(* 2. OER open type skipping                                           *)

(* oer_fetch_length with its three answers: LOk len len_len | 0 | -1 *)
Inductive lres := LOk (len : Z) (len_len : nat) | LMore | LErr.

Definition oer_fetch_length3 (w : list Z) : lres :=
  match w with
  | [] => LMore
  | b :: r =>
      if b <? 128 then LOk b 1
      else
        let k := Z.to_nat (b - 128) in
        if (length r <? k)%nat then LMore
        else
          let os := firstn k r in
          if 8 <? zlen (Ext.drop_zeros os) then LErr
          else if Ext.rsize_max <? be_val os then LErr
          else LOk (be_val os) (S k)
  end.

Inductive kres := KOk (n : nat) | KMore | KFail.

Definition skip1 (full : bool) (w : list Z) : kres :=
  match oer_fetch_length3 w with
  | LOk len k =>
      if full then
        if zlen w - Z.of_nat k <? len then KMore       (* if(size - len_len < len) return 0; *)
        else KOk (k + Z.to_nat len)
      else KOk k
  | LMore => KMore
  | LErr => KFail
  end.

Definition skip_step (full : bool) (c : unit) (w : list Z) : code * nat * unit :=
  match skip1 full w with
  | KOk n => (OK, n, c)
  | KMore => (MORE, O, c)
  | KFail => (FAIL, O, c)
  end.

(* SEQUENCE_decode_oer phase 4: the context is the unread rest of the presence
   bitmap; a starved skip puts its bit back (asn_get_undo) *)
Fixpoint skips_loop (full : bool) (bits : list bool) (w : list Z) (consumed : nat)
  : code * nat * list bool :=
  match bits with
  | [] => (OK, consumed, [])
  | false :: bs => skips_loop full bs w consumed
  | true :: bs =>
      match skip1 full w with
      | KOk n => skips_loop full bs (skipn n w) (consumed + n)%nat
      | KMore => (MORE, consumed, bits)
      | KFail => (FAIL, consumed, bits)
      end
  end.

Definition skips_step (full : bool) (bits : list bool) (w : list Z) : code * nat * list bool :=
  skips_loop full bits w O.

(* the open type of a contents string (X.696 30 / 8.6) *)
Definition oer_open (c : list Z) : list Z := Oer.oer_length (zlen c) ++ c.
