(* Rt/OerVariantsProofs.v — every member of the family of BASIC-OER encodings of a value
   (Rt/OerVariants.v: any legal form of every length determinant, leading zero octets in
   quantities) is decoded by the model of the C's OER decoder to the value, and exactly the
   encoding is consumed.

   - oer_fetch_length_long: oer_fetch_length reads EVERY long form (128 + k) :: be_bytes k n
     with 1 <= k <= 127 length octets back as n (n <= RSSIZE_MAX): value preserved, k + 1
     octets consumed;
   - oer_fetch_length_var / oer_fetch_quantity_var: the same for every form the oracle can choose;
   - oer_complete: for every well-formed type, well-typed value and EVERY oracle
       oer_cdec t (oer_var t oc v ++ rest) = Some (v, rest)
     (oer_cdec calls oer_fetch_length at every determinant position: INTEGER, OCTET STRING,
     quantity);
   - ext_oer_complete: the same for extensible SEQUENCE / CHOICE: the length of the extension
     presence bitmap, the length of every open type, and every determinant inside the
     components;
   - oer_var_canon: the canonical encoding is the member of the family with the canonical choices.
   Structure as Rt/OerProofs.v. *)
From Coq Require Import ZArith List Lia Bool ZifyBool.
From A1 Require Import Base.Bytes Base.Digits Leaf.IntegerConv Leaf.IntegerConvProofs
  Leaf.BerTL Leaf.BerTLProofs Rt.Types Rt.TypesInd Rt.Comb Rt.Der Rt.DerProofs Rt.Uper Rt.Oer Rt.OerLeaf
  Rt.OerProofs Rt.Ext Rt.ExtFormat Rt.ExtProofs Rt.BerVariants Rt.OerVariants.
Import ListNotations.
Local Open Scope Z_scope.

(* ---------------- the length determinant ---------------- *)

Lemma drop_zeros_be_bytes : forall k n j, 0 <= n < 256 ^ Z.of_nat j ->
  zlen (drop_zeros (be_bytes k n)) <= Z.of_nat j.
Proof.
  induction k as [|k IH]; intros n j Hn.
  - cbn. unfold zlen. cbn. lia.
  - cbn [be_bytes]. destruct (le_lt_dec j k) as [Hjk|Hjk].
    + assert (Hp : 256 ^ Z.of_nat j <= 256 ^ Z.of_nat k) by (apply Z.pow_le_mono_r; lia).
      rewrite Z.div_small by lia. cbn [drop_zeros]. rewrite Z.mod_0_l by lia. cbn [Z.eqb].
      apply IH. exact Hn.
    + pose proof (drop_zeros_len ((n / 256 ^ Z.of_nat k) mod 256 :: be_bytes k n)) as Hd.
      rewrite zlen_cons in Hd. unfold zlen in Hd at 2. rewrite be_bytes_length in Hd. lia.
Qed.

(* every long form of a length is read back: value preserved, 1 + k octets consumed *)
Theorem oer_fetch_length_long k n r : olong_ok k n = true -> 0 <= n <= rssize_max ->
  oer_fetch_length ((128 + Z.of_nat k) :: be_bytes k n ++ r) = Some (n, r).
Proof.
  intros Hok Hn. unfold olong_ok in Hok. cbn [oer_fetch_length].
  destruct (128 + Z.of_nat k <? 128) eqn:E; [lia|].
  replace (128 + Z.of_nat k - 128) with (Z.of_nat k) by lia.
  rewrite (oer_take_app_eq (Z.of_nat k)) by (unfold zlen; rewrite be_bytes_length; reflexivity).
  pose proof rssize_lt_pow as Hp.
  pose proof (drop_zeros_be_bytes k n 8 ltac:(lia)) as Hd.
  destruct (8 <? zlen (drop_zeros (be_bytes k n))) eqn:E2; [lia|].
  rewrite be_val_be_bytes. rewrite Z.mod_small by lia.
  assert (Hr : n <= rsize_max) by (unfold rsize_max, rssize_max in *; lia).
  destruct (rsize_max <? n) eqn:E3; [lia|]. reflexivity.
Qed.

Theorem oer_fetch_length_var lf n r : 0 <= n <= rssize_max ->
  oer_fetch_length (oer_len_var lf n ++ r) = Some (n, r).
Proof.
  intros Hn. unfold oer_len_var. destruct lf as [|k|]; try (apply oer_fetch_length_inverse; exact Hn).
  destruct (olong_ok k n) eqn:E; [|apply oer_fetch_length_inverse; exact Hn].
  cbn [app]. apply oer_fetch_length_long; assumption.
Qed.

(* ---------------- the quantity ---------------- *)

Lemma drop_zeros_repeat z l : drop_zeros (repeat 0 z ++ l) = drop_zeros l.
Proof. induction z as [|z IH]; [reflexivity|]. cbn [repeat app drop_zeros Z.eqb]. exact IH. Qed.

Lemma min_octets_len8 n : 0 <= n <= rssize_max -> zlen (min_octets n) <= 8.
Proof.
  intros Hn. pose proof rssize_lt_pow as Hp. unfold min_octets, unsigned_octets.
  pose proof (min_unsigned_len 64 n [] 8 ltac:(lia) ltac:(lia) ltac:(lia)) as Hm.
  unfold zlen in Hm at 2. cbn [length] in Hm. lia.
Qed.

Theorem oer_fetch_quantity_var lf z n r : (z <= 255)%nat -> 0 <= n <= rssize_max ->
  oer_fetch_quantity (oer_qty_var lf z n ++ r) = Some (n, r).
Proof.
  intros Hz Hn. unfold oer_fetch_quantity, oer_qty_var. cbv zeta.
  pose proof (min_octets_len8 n Hn) as H8.
  pose proof (zlen_nonneg (min_octets n)) as H0.
  set (os := repeat 0 z ++ min_octets n).
  assert (Hlen : zlen os = Z.of_nat z + zlen (min_octets n)).
  { subst os. rewrite zlen_app. unfold zlen at 1. rewrite repeat_length. reflexivity. }
  rewrite <- app_assoc.
  rewrite oer_fetch_length_var by (unfold rssize_max; lia).
  rewrite oer_take_app.
  subst os. rewrite drop_zeros_repeat.
  pose proof (drop_zeros_len (min_octets n)) as Hd.
  destruct (8 <? zlen (drop_zeros (min_octets n))) eqn:E; [lia|].
  rewrite oer_be_val_zero_pad.
  destruct (oer_min_octets_spec n (oer_small_count n Hn)) as (_ & Hv & _). rewrite Hv.
  assert (Hr : n <= rsize_max) by (unfold rsize_max, rssize_max in *; lia).
  destruct (rsize_max <? n) eqn:E3; [lia|]. reflexivity.
Qed.

Lemma qty_pad_le c : (qty_pad c <= 255)%nat.
Proof. unfold qty_pad. destruct (hd 0%nat (ch_perm c) <=? 255)%nat eqn:E; [apply Nat.leb_le; exact E|lia]. Qed.

(* ---------------- INTEGER ---------------- *)

Lemma strip_zeros_len bs : zlen (strip_zeros bs) <= zlen bs.
Proof.
  induction bs as [|b tl IH]; [cbn; lia|].
  destruct tl as [|b1 tl']; [cbn; lia|].
  change (strip_zeros (b :: b1 :: tl')) with (if b =? 0 then strip_zeros (b1 :: tl') else b :: b1 :: tl').
  destruct (b =? 0); [|lia]. rewrite (zlen_cons b). lia.
Qed.

(* the decoder of a length-prefixed INTEGER, once the length has been read *)
Definition int_tail (c : icon) (n : Z) (tail : list Z) : option (Z * list Z) :=
  match take n tail with
  | Some (os, r') =>
      match os with
      | [] => None
      | _ => Some ((if snd (oer_int_ct c) then be_val os else twos_value os), r')
      end
  | None => None
  end.

Lemma dec_int_g_len0 g c n tail X : (fst (oer_int_ct c) =? 0) = true -> g X = Some (n, tail) ->
  oer_dec_int_g g c X = int_tail c n tail.
Proof.
  intros Hw Hg. unfold oer_dec_int_g, int_tail. destruct (oer_int_ct c) as [w p]. cbn [fst snd] in *.
  rewrite Hw, Hg. reflexivity.
Qed.

Lemma dec_int_g_fixed g c X : (fst (oer_int_ct c) =? 0) = false ->
  oer_dec_int_g g c X = oer_dec_int c X.
Proof.
  intros Hw. unfold oer_dec_int_g, oer_dec_int. destruct (oer_int_ct c) as [w p]. cbn [fst] in *.
  rewrite Hw. reflexivity.
Qed.

Lemma dec_int_ref c X : oer_dec_int c X = oer_dec_int_g oer_get_length c X.
Proof. reflexivity. Qed.

Lemma oer_int_var_cases lf c z bs : oer_int_var lf c z = Some bs ->
  ((fst (oer_int_ct c) =? 0) = false /\ oer_int c z = Some bs) \/
  ((fst (oer_int_ct c) =? 0) = true /\ exists u, bs = oer_len_var lf (zlen u) ++ u /\
     oer_int c z = Some (oer_length (zlen u) ++ u) /\ zlen u <= zlen (imax2INTEGER z)).
Proof.
  unfold oer_int_var, oer_int. destruct (oer_int_ct c) as [w p]. cbn [fst].
  set (body := imax2INTEGER z).
  set (negative := match body with b :: _ => 128 <=? b | [] => false end).
  destruct (p && negative); [discriminate|].
  destruct (w =? 0) eqn:Ew.
  - intros H. right. split; [reflexivity|].
    exists (if p then strip_zeros body else body). split; [congruence|]. split; [reflexivity|].
    destruct p; [apply strip_zeros_len|lia].
  - intros H. left. split; [reflexivity|exact H].
Qed.

Lemma oer_cdec_int_var lf c z bs rest : fits_long z = true -> oer_int_var lf c z = Some bs ->
  oer_dec_int_g oer_fetch_length c (bs ++ rest) = Some (z, rest).
Proof.
  intros Hz Hv. destruct (oer_int_body z Hz) as (_ & _ & _ & Hl8). cbv zeta in Hl8.
  destruct (oer_int_var_cases lf c z bs Hv) as [[Hw Hi]|[Hw (u & -> & Hi & Hlu)]].
  - rewrite dec_int_g_fixed by exact Hw. apply oer_int_inverse; assumption.
  - pose proof (oer_int_inverse c z _ rest Hz Hi) as Hinv.
    rewrite dec_int_ref in Hinv. rewrite <- app_assoc in Hinv.
    pose proof (zlen_nonneg u) as H0.
    rewrite (dec_int_g_len0 oer_get_length c (zlen u) (u ++ rest)) in Hinv;
      [|exact Hw|apply oer_length_inverse; apply oer_small_count; unfold rssize_max; lia].
    rewrite <- app_assoc.
    rewrite (dec_int_g_len0 oer_fetch_length c (zlen u) (u ++ rest));
      [exact Hinv|exact Hw|apply oer_fetch_length_var; unfold rssize_max; lia].
Qed.

(* ---------------- the induction over types ---------------- *)

Local Notation cdec := (oer_dec_g oer_fetch_length oer_fetch_quantity).

Definition RTV (t : ty) : Prop := forall c v bs rest,
  wf_ty_oer t = true -> wt_oer t v = true -> oer_var t c v = Some bs -> oer_present t v ->
  cdec t (bs ++ rest) = Some (v, rest).

Lemma var_alt_nth (f : ty -> ch -> val -> option (list Z)) c v : forall alts i b,
  var_alt f c v alts i = Some b -> exists a, nth_error alts i = Some a /\ f a c v = Some b.
Proof.
  induction alts as [|a r IH]; intros i b H; destruct i; cbn [var_alt nth_error] in *; try discriminate.
  - exists a. split; [reflexivity|exact H].
  - exact (IH _ _ H).
Qed.

(* the tag the CHOICE encoder writes is one of the first tags of the type of the value *)
Lemma var_outmost_in_first t : forall oc v bs,
  wf_ty_oer t = true -> not_opt t = true -> oer_var t oc v = Some bs ->
  In (outmost_tag t v) (first_tags t).
Proof.
  induction t using ty_ind'; intros oc v bs Hwf Hno Hd; cbn [wf_ty_oer] in Hwf;
    cbn [first_tags]; try (cbn [outmost_tag]; left; reflexivity).
  - (* CHOICE *)
    destruct v; try discriminate. cbn [oer_var] in Hd.
    destruct (var_alt oer_var oc v alts i) as [body|] eqn:Eb; [|discriminate]. clear Hd bs.
    apply andb_true_iff in Hwf. destruct Hwf as [Hwf _].
    apply andb_true_iff in Hwf. destruct Hwf as [Hwf1 Hwf2].
    clear Hno. revert i Eb.
    induction H as [|a r Ha Hr IHr]; intros i Eb; [destruct i; discriminate|].
    cbn [forallb] in Hwf1, Hwf2.
    apply andb_true_iff in Hwf1. destruct Hwf1 as [Hw1 Hw1r].
    apply andb_true_iff in Hwf2. destruct Hwf2 as [Hw2 Hw2r].
    cbn [flat_map]. apply in_or_app.
    destruct i; cbn [var_alt] in Eb.
    + left. exact (Ha oc v body Hw1 Hw2 Eb).
    + right. exact (IHr Hw1r Hw2r i Eb).
  - discriminate.
Qed.

Lemma var_members_rt ms : Forall RTV ms -> forall cs vs body rest,
  forallb wf_ty_oer ms = true ->
  wt_oer (TSeq 0 ms) (VSeq vs) = true -> var_members oer_var cs ms vs = Some body ->
  dec_members_pres cdec ms (presence_bits ms vs) (body ++ rest) = Some (vs, rest) /\
  length (presence_bits ms vs) = length (filter is_opt ms).
Proof.
  induction 1 as [|m ms' Hm Hms IH]; intros cs vs body rest Hwf Hwt He;
    destruct vs as [|v vs']; cbn [var_members] in He; try discriminate.
  - injection He as <-. split; reflexivity.
  - cbn [forallb] in Hwf. apply andb_true_iff in Hwf. destruct Hwf as [Hw Hwr].
    cbn [wt_oer] in Hwt. apply andb_true_iff in Hwt. destruct Hwt as [Hwt1 Hwtr].
    destruct (oer_var m (ch_hd cs) v) as [a|] eqn:Ea; [|discriminate].
    destruct (var_members oer_var (tl cs) ms' vs') as [b|] eqn:Eb; [|discriminate]. injection He as <-.
    destruct (IH (tl cs) vs' b rest Hwr Hwtr Eb) as [IHd IHl].
    rewrite <- app_assoc. cbn [presence_bits filter].
    destruct (is_opt m) eqn:Eo.
    + (* OPTIONAL member *)
      destruct m; try discriminate. cbn [app length]. rewrite IHl. split; [|reflexivity].
      destruct v; try discriminate.
      * (* absent *)
        cbn [oer_var] in Ea. injection Ea as <-. cbn [app dec_members_pres].
        rewrite IHd. reflexivity.
      * (* present *)
        pose proof (Hm (ch_hd cs) (VSome v) a (b ++ rest) Hw Hwt1 Ea I) as Hr.
        cbn [oer_dec_g] in Hr. cbn [dec_members_pres].
        destruct (cdec m (a ++ b ++ rest)) as [[x r]|]; [|discriminate].
        injection Hr as -> ->. rewrite IHd. reflexivity.
    + cbn [app]. split; [|exact IHl].
      rewrite oer_dec_members_pres_nonopt by exact Eo.
      assert (Hp : oer_present m v) by (apply oer_present_not_opt; unfold not_opt; rewrite Eo; reflexivity).
      rewrite (Hm (ch_hd cs) v a (b ++ rest) Hw Hwt1 Ea Hp). rewrite IHd. reflexivity.
Qed.

Lemma var_items_rt e : RTV e -> wf_ty_oer e = true -> not_opt e = true -> forall vs cs es rest,
  forallb (wt_oer e) vs = true -> var_elems (oer_var e) cs vs = Some es ->
  dec_items (cdec e) (length vs) (concat es ++ rest) = Some (vs, rest).
Proof.
  intros He Hw Hno. induction vs as [|v vs' IH]; intros cs es rest Hwt Ho; cbn [var_elems] in Ho.
  - injection Ho as <-. reflexivity.
  - destruct (oer_var e (ch_hd cs) v) as [a|] eqn:Ea; [|discriminate].
    destruct (var_elems (oer_var e) (tl cs) vs') as [es'|] eqn:Eo; [|discriminate]. injection Ho as <-.
    cbn [forallb] in Hwt. apply andb_true_iff in Hwt. destruct Hwt as [Hwt1 Hwtr].
    cbn [concat length dec_items]. rewrite <- app_assoc.
    rewrite (He (ch_hd cs) v a (concat es' ++ rest) Hw Hwt1 Ea (oer_present_not_opt e v Hno)).
    rewrite (IH (tl cs) es' rest Hwtr Eo). reflexivity.
Qed.

Lemma var_list_rt e (c : ch) (vs : list val) (bs rest : list Z) : RTV e ->
  wf_ty_oer e = true -> not_opt e = true ->
  (zlen vs <=? rssize_max) && forallb (wt_oer e) vs = true ->
  match var_elems (oer_var e) (ch_subs c) vs with
  | Some es => Some (oer_qty_var (ch_lf c) (qty_pad c) (zlen vs) ++ concat es)
  | None => None
  end = Some bs ->
  match oer_fetch_quantity (bs ++ rest) with
  | Some (n, r) =>
      match dec_items (cdec e) (Z.to_nat n) r with
      | Some (vs, r') => Some (VList vs, r')
      | None => None
      end
  | None => None
  end = Some (VList vs, rest).
Proof.
  intros He Hwe Hno Hwt Hd.
  apply andb_true_iff in Hwt. destruct Hwt as [Hlen Hwt].
  destruct (var_elems (oer_var e) (ch_subs c) vs) as [es|] eqn:Ec; [|discriminate].
  assert (E : bs = oer_qty_var (ch_lf c) (qty_pad c) (zlen vs) ++ concat es) by congruence. subst bs. clear Hd.
  rewrite <- app_assoc.
  rewrite oer_fetch_quantity_var by (try apply qty_pad_le; pose proof (zlen_nonneg vs); lia).
  unfold zlen. rewrite Nat2Z.id.
  rewrite (var_items_rt e He Hwe Hno vs (ch_subs c) es rest Hwt Ec). reflexivity.
Qed.

Lemma oer_var_choice_eq alts c i v :
  oer_var (TChoice alts) c (VChoice i v) =
  match var_alt oer_var c v alts i with
  | Some body => Some (oer_tag (outmost_tag (TChoice alts) (VChoice i v)) ++ body)
  | None => None
  end.
Proof. reflexivity. Qed.

Theorem oer_var_decodes_all t : RTV t.
Proof.
  induction t using ty_ind'; intros oc v bs rest Hwf Hwt Hd Hp; cbn [wf_ty_oer] in Hwf.
  - (* BOOLEAN *)
    destruct v; try discriminate. injection Hd as <-. destruct b; reflexivity.
  - (* NULL *)
    destruct v; try discriminate. injection Hd as <-. reflexivity.
  - (* INTEGER: the length of the contents in any form *)
    destruct v; try discriminate. cbn [oer_var] in Hd. cbn [wt_oer] in Hwt. cbn [oer_dec_g].
    rewrite (oer_cdec_int_var (ch_lf oc) c z bs rest Hwt Hd). rewrite Hwt. reflexivity.
  - (* OCTET STRING *)
    destruct v; try discriminate. cbn [oer_var] in Hd. cbn [wt_oer] in Hwt. cbn [oer_dec_g].
    destruct (oer_fixed_size s) as [n|].
    + destruct (zlen bs0 =? n) eqn:E; [|discriminate]. injection Hd as <-.
      rewrite (oer_take_app_eq n) by lia. reflexivity.
    + injection Hd as <-. rewrite <- app_assoc.
      rewrite oer_fetch_length_var by (pose proof (zlen_nonneg bs0); lia).
      rewrite oer_take_app. reflexivity.
  - (* SEQUENCE *)
    destruct v; try discriminate. cbn [oer_var] in Hd.
    destruct (var_members oer_var (ch_subs oc) ms vs) as [body|] eqn:Ec; [|discriminate]. injection Hd as <-.
    apply andb_true_iff in Hwf. destruct Hwf as [_ Hwm].
    destruct (var_members_rt ms H (ch_subs oc) vs body rest Hwm Hwt Ec) as [Hdm Hlen].
    cbn [oer_dec_g]. rewrite <- app_assoc. rewrite <- Hlen.
    destruct (oer_preamble_inverse (presence_bits ms vs) (body ++ rest)) as (Ht & x & Hx).
    rewrite Ht, Hx, Hdm. reflexivity.
  - (* SEQUENCE OF: the quantity in any form *)
    destruct v; try discriminate. cbn [oer_var] in Hd. cbn [wt_oer] in Hwt. cbn [oer_dec_g].
    apply andb_true_iff in Hwf. destruct Hwf as [Hwf Hno].
    apply andb_true_iff in Hwf. destruct Hwf as [_ Hwe].
    exact (var_list_rt t oc vs bs rest IHt Hwe Hno Hwt Hd).
  - (* SET OF *)
    destruct v; try discriminate. cbn [oer_var] in Hd. cbn [wt_oer] in Hwt. cbn [oer_dec_g].
    apply andb_true_iff in Hwf. destruct Hwf as [Hwf Hno].
    apply andb_true_iff in Hwf. destruct Hwf as [_ Hwe].
    exact (var_list_rt t oc vs bs rest IHt Hwe Hno Hwt Hd).
  - (* CHOICE *)
    destruct v; try discriminate. rewrite oer_var_choice_eq in Hd.
    destruct (var_alt oer_var oc v alts i) as [body|] eqn:Eb; [|discriminate]. apply some_inj in Hd. subst bs.
    apply andb_true_iff in Hwf. destruct Hwf as [Hwf Hdis].
    apply andb_true_iff in Hwf. destruct Hwf as [Hwa Hno].
    destruct (var_alt_nth _ _ _ _ _ _ Eb) as (a & Hn & Ea).
    pose proof (forallb_nth _ _ _ _ Hwa Hn) as Hwfa. pose proof (forallb_nth _ _ _ _ Hno Hn) as Hnoa.
    pose proof (wt_oer_pick _ _ _ _ Hn Hwt) as Hwta.
    rewrite (outmost_tag_pick _ _ _ _ Hn).
    pose proof (var_outmost_in_first a oc v body Hwfa Hnoa Ea) as Hin.
    assert (Htok : oer_tag_ok (outmost_tag a v)).
    { pose proof (oer_first_tags_ok a Hwfa) as HF. rewrite Forall_forall in HF. apply HF. exact Hin. }
    cbn [oer_dec_g]. rewrite <- app_assoc. rewrite oer_tag_inverse by exact Htok.
    set (tg := outmost_tag a v) in *.
    assert (Ha : RTV a) by (rewrite Forall_forall in H; apply H; eapply nth_error_In; eauto).
    rewrite (dec_alt_pick cdec _ _ alts O i a v rest Hn).
    + reflexivity.
    + apply (Ha oc v body rest Hwfa Hwta Ea). apply oer_present_not_opt. exact Hnoa.
    + apply tag_in_In. exact Hin.
    + intros j' a' Hj' Hn'. cbn [Nat.add].
      exact (tag_not_in_earlier alts j' i a' a tg Hdis Hj' Hn' Hn Hin).
  - (* EXPLICIT tag: transparent in OER *)
    cbn [oer_var] in Hd. cbn [wt_oer] in Hwt. cbn [oer_dec_g].
    apply andb_true_iff in Hwf. destruct Hwf as [Hwf Hno].
    apply andb_true_iff in Hwf. destruct Hwf as [_ Hwt'].
    exact (IHt oc v bs rest Hwt' Hwt Hd (oer_present_not_opt t v Hno)).
  - (* OPTIONAL, present *)
    apply andb_true_iff in Hwf. destruct Hwf as [Hw Hno].
    destruct v; try discriminate; cbn [oer_var] in Hd; cbn [oer_dec_g].
    + destruct Hp.
    + cbn [wt_oer] in Hwt.
      rewrite (IHt oc v bs rest Hw Hwt Hd (oer_present_not_opt t v Hno)). reflexivity.
Qed.

(* ---------------- the theorems ---------------- *)

(* C03 for OER on the model, in a stream: EVERY oracle *)
Theorem oer_complete : forall t oc v bs rest,
  wf_ty_oer t = true -> not_opt t = true -> wt_oer t v = true -> oer_var t oc v = Some bs ->
  oer_cdec t (bs ++ rest) = Some (v, rest).
Proof.
  intros t oc v bs rest Hwf Hno Hwt Hd. unfold oer_cdec.
  exact (oer_var_decodes_all t oc v bs rest Hwf Hwt Hd (oer_present_not_opt t v Hno)).
Qed.

Corollary oer_complete_decode : forall t oc v bs,
  wf_ty_oer t = true -> not_opt t = true -> wt_oer t v = true -> oer_variant oc t v = Some bs ->
  oer_cdecode t bs = Some (v, zlen bs).
Proof.
  intros t oc v bs Hwf Hno Hwt Hd. unfold oer_cdecode.
  pose proof (oer_complete t oc v bs [] Hwf Hno Hwt Hd) as H. rewrite app_nil_r in H.
  rewrite H. f_equal. f_equal. unfold zlen. cbn [length]. lia.
Qed.

(* ---------------- extensible types ---------------- *)

Local Notation sized := (fun (t : ty) (v : val) =>
  wt_oer t v = true /\ forall oc c, oer_var t oc v = Some c -> zlen c <= rssize_max).

Definition add_var_ok (t : ty) (v : val) : Prop :=
  wf_ty_oer t = true /\ not_opt t = true /\ wt_oer t v = true /\
  (forall oc c, oer_var t oc v = Some c -> zlen c <= rssize_max).

(* values the C can hold; every encoding of an addition / extension alternative fits a C size *)
Definition wt_ety_oer_var (t : ety) (v : eval) : Prop :=
  match t, v with
  | ESeq tg root adds, EVSeq rvs avs =>
      wt_oer (TSeq tg root) (VSeq rvs) = true /\ adds_ok sized adds avs
  | EChoice root exts, EVAlt i v' =>
      wt_oer (TChoice (root ++ exts)) (VChoice i v') = true /\
      forall oc c, var_alt oer_var oc v' (root ++ exts) i = Some c -> zlen c <= rssize_max
  | _, _ => False
  end.

Lemma oer_open_cget_rt t oc lf v c r : add_var_ok t v -> oer_var t oc v = Some c ->
  oer_open_cget t (oer_open_var lf c ++ r) = Some (v, r).
Proof.
  intros (Hwf & Hno & Hwt & Hsz) He. unfold oer_open_cget, oer_open_var. rewrite <- app_assoc.
  rewrite oer_fetch_length_var by (pose proof (zlen_nonneg c); specialize (Hsz oc c He); lia).
  rewrite oer_take_app.
  pose proof (oer_complete t oc v c [] Hwf Hno Hwt He) as H. rewrite app_nil_r in H.
  rewrite H. reflexivity.
Qed.

Lemma var_adds_ok_wf adds avs : forallb wf_ty_oer adds = true -> forallb not_opt adds = true ->
  adds_ok sized adds avs -> adds_ok add_var_ok adds avs.
Proof.
  revert avs. induction adds as [|t ts IH]; intros avs Hwf Hno H; destruct avs as [|v vs]; cbn [adds_ok] in *; auto.
  cbn [forallb] in Hwf, Hno. apply andb_true_iff in Hwf. destruct Hwf as [Hw Hr].
  apply andb_true_iff in Hno. destruct Hno as [Hn Hnr].
  destruct v; auto. destruct H as [[Hv Hs] Hvs]. split; [repeat split; assumption|apply IH; assumption].
Qed.

Lemma var_additions_rt skip : forall adds cs avs ots rest,
  adds_ok add_var_ok adds avs -> var_additions oer_var cs adds avs = Some ots ->
  dec_additions oer_open_cget skip adds (map is_present avs) (ots ++ rest) = Some (avs, rest).
Proof.
  induction adds as [|t ts IH]; intros cs avs ots rest Hok He; destruct avs as [|v vs];
    cbn [var_additions] in He; try discriminate.
  - injection He as <-. reflexivity.
  - destruct v; try discriminate.
    + cbn [adds_ok] in Hok. cbn [map is_present dec_additions].
      rewrite (IH (tl cs) vs ots rest Hok He). reflexivity.
    + cbn [adds_ok] in Hok. destruct Hok as [Hv Hr].
      destruct (oer_var t (ch_hd (ch_subs (ch_hd cs))) v) as [c|] eqn:Ec; [|discriminate].
      destruct (var_additions oer_var (tl cs) ts vs) as [r|] eqn:Er; [|discriminate]. injection He as <-.
      cbn [map is_present dec_additions]. rewrite <- app_assoc.
      rewrite (oer_open_cget_rt t _ _ v c (r ++ rest) Hv Ec).
      rewrite (IH (tl cs) vs r rest Hr Er). reflexivity.
Qed.

Lemma var_additions_none enc : forall ts cs vs ots,
  var_additions enc cs ts vs = Some ots -> existsb is_present vs = false -> vs = absent_all ts.
Proof.
  induction ts as [|t ts' IH]; intros cs vs ots H Hn; destruct vs as [|v vs']; cbn [var_additions] in H; try discriminate.
  - reflexivity.
  - cbn [existsb] in Hn. apply orb_false_iff in Hn. destruct Hn as [Hv Hr].
    destruct v; try discriminate. cbn [absent_all map]. f_equal. exact (IH (tl cs) vs' ots H Hr).
Qed.

Lemma oer_fetch_length_short b r : (b <? 128) = true -> oer_fetch_length (b :: r) = Some (b, r).
Proof. intros H. cbn [oer_fetch_length]. rewrite H. reflexivity. Qed.

(* the presence bitmap with the length determinant in any form, read back *)
Lemma oer_bitmap_var_rt lf pres bm r : pres <> [] -> oer_ext_bitmap_var lf pres = Some bm ->
  exists u bmo x, oer_fetch_length (bm ++ r) = Some (zlen (u :: bmo), (u :: bmo) ++ r) /\
    ((0 <? u mod 8) && (zlen bmo =? 0)) = false /\
    take_bits (Z.to_nat (8 * zlen bmo - u mod 8)) (bytes_bits bmo) = Some (pres, x).
Proof.
  intros Hne Hb. unfold oer_ext_bitmap_var in Hb. cbv zeta in Hb.
  destruct (1 + (zlen pres + 7) / 8 <=? 127) eqn:E; [|discriminate].
  apply some_inj in Hb. subst bm.
  assert (Hc : oer_ext_bitmap pres = Some ([1 + (zlen pres + 7) / 8; unused_bits (zlen pres)] ++ bits_to_bytes pres)).
  { unfold oer_ext_bitmap. cbv zeta. rewrite E. reflexivity. }
  destruct (oer_bitmap_rt pres _ r Hne Hc) as (u & bmo & x & Hf & Hchk & Htb).
  pose proof (zlen_nonneg pres) as Hp.
  assert (Hnb : 0 <= (zlen pres + 7) / 8) by (apply Z.div_pos; lia).
  set (A := 1 + (zlen pres + 7) / 8) in *. set (U := unused_bits (zlen pres)) in *.
  change (([A; U] ++ bits_to_bytes pres) ++ r) with (A :: U :: bits_to_bytes pres ++ r) in Hf.
  rewrite oer_fetch_length_short in Hf by lia.
  change ((u :: bmo) ++ r) with (u :: bmo ++ r) in Hf.
  injection Hf as Hl Hu Hbm. apply app_inv_tail in Hbm.
  exists u, bmo, x. split; [|split; assumption].
  rewrite <- app_assoc. rewrite oer_fetch_length_var by (unfold rssize_max; lia).
  rewrite Hl. change (([U] ++ bits_to_bytes pres) ++ r) with (U :: bits_to_bytes pres ++ r).
  rewrite Hu, Hbm. reflexivity.
Qed.

Lemma all_RTV (ms : list ty) : Forall RTV ms.
Proof. apply Forall_forall. intros t _. apply oer_var_decodes_all. Qed.

Theorem ext_oer_seq_complete tg root adds oc rvs avs bs rest :
  wf_ety_oer (ESeq tg root adds) = true -> wt_ety_oer_var (ESeq tg root adds) (EVSeq rvs avs) ->
  ext_oer_var (ESeq tg root adds) oc (EVSeq rvs avs) = Some bs ->
  ext_oer_cdec (ESeq tg root adds) (bs ++ rest) = Some (EVSeq rvs avs, rest).
Proof.
  intros Hwf [Hwr Hwa] He. destruct (wf_ety_oer_parts _ _ _ Hwf) as (Hwfr & Hwfa & Hno).
  pose proof (var_adds_ok_wf adds avs Hwfa Hno Hwa) as Hok.
  cbn [ext_oer_var] in He. cbv zeta in He.
  destruct (var_members oer_var (firstn (length root) (ch_subs oc)) root rvs) as [body|] eqn:Eb; [|discriminate].
  destruct (var_additions oer_var (skipn (length root) (ch_subs oc)) adds avs) as [ots|] eqn:Eo; [|discriminate].
  set (any := existsb is_present avs) in *.
  assert (Hroot : forall tail,
    match take (Z.of_nat ((S (length (filter is_opt root)) + 7) / 8)) ((bits_to_bytes (any :: presence_bits root rvs) ++ body ++ tail)) with
    | Some (pb, r0) =>
        match take_bits (S (length (filter is_opt root))) (bytes_bits pb) with
        | Some (e :: pres, _) => e = any /\ dec_members_pres cdec root pres r0 = Some (rvs, tail)
        | _ => False
        end
    | None => False
    end).
  { intros tail.
    destruct (var_members_rt root (all_RTV root) _ rvs body tail Hwfr Hwr Eb) as [Hdm Hlen].
    destruct (oer_preamble_inverse (any :: presence_bits root rvs) (body ++ tail)) as (Ht & x & Hx).
    cbn [length] in Ht, Hx. rewrite Hlen in Ht, Hx. rewrite Ht, Hx. split; [reflexivity|exact Hdm]. }
  cbn [ext_oer_cdec]. cbv zeta. unfold oer_cdec.
  destruct any eqn:Eany.
  - destruct (oer_ext_bitmap_var (ch_lf oc) (map is_present avs)) as [bm|] eqn:Ebm; [|discriminate].
    apply some_inj in He. subst bs.
    rewrite <- !app_assoc.
    specialize (Hroot (bm ++ ots ++ rest)).
    destruct (take _ _) as [[pb r0]|]; [|contradiction].
    destruct (take_bits _ (bytes_bits pb)) as [[[|e pres] x0]|]; try contradiction.
    destruct Hroot as [-> Hdm]. rewrite Hdm.
    destruct (oer_bitmap_var_rt (ch_lf oc) (map is_present avs) bm (ots ++ rest) (map_is_present_nonnil avs Eany) Ebm)
      as (u & bmo & x & Hf & Hchk & Htb).
    rewrite Hf. rewrite oer_take_app. rewrite Hchk. rewrite Htb.
    rewrite (var_additions_rt oer_open_skip adds _ avs ots rest Hok Eo). reflexivity.
  - apply some_inj in He. subst bs. rewrite <- !app_assoc.
    specialize (Hroot rest).
    destruct (take _ _) as [[pb r0]|]; [|contradiction].
    destruct (take_bits _ (bytes_bits pb)) as [[[|e pres] x0]|]; try contradiction.
    destruct Hroot as [-> Hdm]. rewrite Hdm.
    rewrite <- (var_additions_none _ _ _ _ _ Eo Eany). reflexivity.
Qed.

Lemma var_alt_of_nth (f : ty -> ch -> val -> option (list Z)) c v : forall alts i a,
  nth_error alts i = Some a -> var_alt f c v alts i = f a c v.
Proof.
  induction alts as [|x r IH]; intros i a Hn; destruct i; cbn [nth_error var_alt] in *; try discriminate.
  - injection Hn as ->. reflexivity.
  - exact (IH i a Hn).
Qed.

Lemma ext_oer_var_choice_eq root exts c i v' :
  ext_oer_var (EChoice root exts) c (EVAlt i v') =
  match var_alt oer_var (ch_hd (ch_subs c)) v' (root ++ exts) i with
  | Some body =>
      Some (oer_tag (outmost_tag (TChoice (root ++ exts)) (VChoice i v')) ++
            (if (i <? length root)%nat then body else oer_open_var (ch_lf c) body))
  | None => None
  end.
Proof. reflexivity. Qed.

Theorem ext_oer_choice_complete root exts oc i v' bs rest :
  wf_ety_oer (EChoice root exts) = true -> wt_ety_oer_var (EChoice root exts) (EVAlt i v') ->
  ext_oer_var (EChoice root exts) oc (EVAlt i v') = Some bs ->
  ext_oer_cdec (EChoice root exts) (bs ++ rest) = Some (EVAlt i v', rest).
Proof.
  intros Hwf [Hwt Hsz] He. cbn [wf_ety_oer wf_ty_oer] in Hwf.
  apply andb_true_iff in Hwf. destruct Hwf as [Hwf Hdis].
  apply andb_true_iff in Hwf. destruct Hwf as [Hwa Hno].
  rewrite ext_oer_var_choice_eq in He.
  destruct (var_alt oer_var (ch_hd (ch_subs oc)) v' (root ++ exts) i) as [body|] eqn:Eb; [|discriminate].
  apply some_inj in He. subst bs.
  destruct (var_alt_nth _ _ _ _ _ _ Eb) as (a & Hn & Ea).
  pose proof (forallb_nth _ _ _ _ Hwa Hn) as Hwfa. pose proof (forallb_nth _ _ _ _ Hno Hn) as Hnoa.
  pose proof (wt_oer_pick _ _ _ _ Hn Hwt) as Hwta.
  rewrite (outmost_tag_pick _ _ _ _ Hn).
  pose proof (var_outmost_in_first a _ v' body Hwfa Hnoa Ea) as Hin.
  assert (Htok : oer_tag_ok (outmost_tag a v')).
  { pose proof (oer_first_tags_ok a Hwfa) as HF. rewrite Forall_forall in HF. apply HF. exact Hin. }
  cbn [ext_oer_cdec]. rewrite <- app_assoc. rewrite oer_tag_inverse by exact Htok. cbv zeta.
  set (tg := outmost_tag a v') in *.
  destruct (i <? length root)%nat eqn:Ei.
  - (* root alternative *)
    apply Nat.ltb_lt in Ei.
    assert (Hnr : nth_error root i = Some a) by (rewrite nth_error_app1 in Hn by exact Ei; exact Hn).
    assert (Hex : existsb (fun a0 => tag_in tg (first_tags a0)) root = true).
    { apply existsb_exists. exists a. split; [eapply nth_error_In; eauto|apply tag_in_In; exact Hin]. }
    rewrite Hex.
    rewrite (dec_alt_pick oer_cdec _ _ root O i a v' rest Hnr).
    + reflexivity.
    + apply (oer_complete a _ v' body rest Hwfa Hnoa Hwta Ea).
    + apply tag_in_In. exact Hin.
    + intros j' a' Hj' Hn'. cbn [Nat.add].
      apply (tag_not_in_earlier (root ++ exts) j' i a' a tg Hdis Hj'); [|exact Hn|exact Hin].
      rewrite nth_error_app1 by lia. exact Hn'.
  - (* extension alternative: the tag belongs to no root alternative *)
    apply Nat.ltb_ge in Ei. set (j := (i - length root)%nat).
    assert (Hnx : nth_error exts j = Some a) by (rewrite nth_error_app2 in Hn by exact Ei; exact Hn).
    assert (Hex : existsb (fun a0 => tag_in tg (first_tags a0)) root = false).
    { apply not_true_is_false. intros Hex. apply existsb_exists in Hex. destruct Hex as (a' & Hina & Ht).
      apply In_nth_error in Hina. destruct Hina as (j' & Hn').
      pose proof (nth_error_lt _ _ _ Hn') as Hj'.
      rewrite (tag_not_in_earlier (root ++ exts) j' i a' a tg Hdis) in Ht; [discriminate|lia| |exact Hn|exact Hin].
      rewrite nth_error_app1 by lia. exact Hn'. }
    rewrite Hex.
    rewrite (dec_alt_pick oer_open_cget _ _ exts (length root) j a v' rest Hnx).
    + replace (length root + j)%nat with i by (subst j; lia). reflexivity.
    + apply (oer_open_cget_rt a (ch_hd (ch_subs oc)) (ch_lf oc) v' body rest); [|exact Ea].
      repeat split; try assumption. intros oc' c Hc. apply (Hsz oc').
      rewrite (var_alt_of_nth oer_var oc' v' (root ++ exts) i a Hn). exact Hc.
    + apply tag_in_In. exact Hin.
    + intros j' a' Hj' Hn'.
      apply (tag_not_in_earlier (root ++ exts) (length root + j') i a' a tg Hdis); [subst j; lia| |exact Hn|exact Hin].
      rewrite nth_error_app2 by lia. replace (length root + j' - length root)%nat with j' by lia. exact Hn'.
Qed.

(* C03, OER, the extensible types of the layer, in a stream: EVERY oracle *)
Theorem ext_oer_complete t oc v bs rest :
  wf_ety_oer t = true -> wt_ety_oer_var t v -> ext_oer_var t oc v = Some bs ->
  ext_oer_cdec t (bs ++ rest) = Some (v, rest).
Proof.
  destruct t as [tg root adds|root exts]; destruct v as [rvs avs|i v']; intros Hwf Hwt He;
    try (cbn [wt_ety_oer_var] in Hwt; contradiction).
  - eapply ext_oer_seq_complete; eassumption.
  - eapply ext_oer_choice_complete; eassumption.
Qed.

Corollary ext_oer_complete_decode t oc v bs :
  wf_ety_oer t = true -> wt_ety_oer_var t v -> ext_oer_var t oc v = Some bs ->
  ext_oer_cdecode t bs = Some (v, zlen bs).
Proof.
  intros Hwf Hwt He. unfold ext_oer_cdecode.
  pose proof (ext_oer_complete t oc v bs [] Hwf Hwt He) as H. rewrite app_nil_r in H.
  rewrite H. f_equal. f_equal. unfold zlen. cbn [length]. lia.
Qed.

(* ---------------- the canonical encoding is the member with the canonical choices ---------------- *)

Lemma min_unsigned_short : forall fuel n acc, zlen (min_unsigned fuel n acc) <= zlen acc + Z.of_nat fuel.
Proof.
  induction fuel as [|f IH]; intros n acc; cbn [min_unsigned]; [lia|].
  destruct (n <? 256).
  - rewrite zlen_cons. lia.
  - pose proof (IH (n / 256) (n mod 256 :: acc)) as H. rewrite zlen_cons in H. lia.
Qed.

Lemma oer_qty_canon n : oer_qty_var LShort 0 n = oer_quantity n.
Proof.
  unfold oer_qty_var, oer_quantity, oer_len_var, oer_length. cbn [repeat app]. cbv zeta.
  pose proof (min_unsigned_short 64 n []) as H. fold (unsigned_octets n) in H. fold (min_octets n) in H.
  unfold zlen in H at 2. cbn [length] in H.
  destruct (zlen (min_octets n) <=? 127) eqn:E; [reflexivity|lia].
Qed.

Theorem oer_var_canon t : forall v, oer_var t ch_canon v = oer t v.
Proof.
  induction t using ty_ind'; intros v; try (destruct v; reflexivity).
  - (* SEQUENCE *)
    destruct v; try reflexivity. cbn [oer_var oer ch_subs ch_canon].
    assert (E : var_members oer_var [] ms vs = enc_members oer ms vs).
    { revert vs. induction H as [|m ms' Hm Hms IH]; intros vs; destruct vs as [|v vs']; try reflexivity.
      cbn [var_members enc_members ch_hd tl]. rewrite (Hm v). rewrite (IH vs'). reflexivity. }
    rewrite E. reflexivity.
  - (* SEQUENCE OF *)
    destruct v; try reflexivity. cbn [oer_var oer ch_lf ch_subs ch_canon].
    assert (E : var_elems (oer_var t) [] vs = option_all (map (oer t) vs)).
    { induction vs as [|v vs' IH]; [reflexivity|].
      cbn [var_elems map option_all ch_hd tl]. rewrite (IHt v). rewrite IH.
      destruct (oer t v); [|reflexivity]. destruct (option_all (map (oer t) vs')); reflexivity. }
    rewrite E. change (qty_pad (Ch LShort [] [])) with 0%nat. rewrite oer_qty_canon. reflexivity.
  - (* SET OF *)
    destruct v; try reflexivity. cbn [oer_var oer ch_lf ch_subs ch_canon].
    assert (E : var_elems (oer_var t) [] vs = option_all (map (oer t) vs)).
    { induction vs as [|v vs' IH]; [reflexivity|].
      cbn [var_elems map option_all ch_hd tl]. rewrite (IHt v). rewrite IH.
      destruct (oer t v); [|reflexivity]. destruct (option_all (map (oer t) vs')); reflexivity. }
    rewrite E. change (qty_pad (Ch LShort [] [])) with 0%nat. rewrite oer_qty_canon. reflexivity.
  - (* CHOICE *)
    destruct v; try reflexivity. rewrite oer_var_choice_eq.
    assert (E : var_alt oer_var ch_canon v alts i = enc_alt oer v alts i).
    { revert i. induction H as [|a r Ha Hr IH]; intros i; destruct i; try reflexivity; cbn [var_alt enc_alt].
      - apply Ha.
      - apply IH. }
    rewrite E. reflexivity.
  - (* EXPLICIT tag *)
    cbn [oer_var oer]. apply IHt.
  - destruct v; try reflexivity. cbn [oer_var oer]. apply IHt.
Qed.

(* ---------------- oer_cdec and the shared reference decoder ---------------- *)

Section Ext.
  Variables f g : ty -> list Z -> option (val * list Z).

  Definition agree (t : ty) : Prop := forall s, f t s = g t s.
  Definition agree_m (m : ty) : Prop := match m with TOpt t' => agree t' | _ => agree m end.

  Lemma dec_members_pres_ext ms : Forall agree_m ms ->
    forall pres s, dec_members_pres f ms pres s = dec_members_pres g ms pres s.
  Proof.
    induction 1 as [|m ms' Hm Hms IH]; intros pres s; [reflexivity|].
    destruct m; cbn [dec_members_pres agree_m] in *;
      try (rewrite Hm; destruct (g _ s) as [[v r]|]; [rewrite IH|]; reflexivity).
    destruct pres as [|[|] pres']; [reflexivity| |].
    - rewrite Hm. destruct (g m s) as [[v r]|]; [rewrite IH|]; reflexivity.
    - rewrite IH. reflexivity.
  Qed.

  Lemma dec_items_ext (e : ty) : agree e -> forall n s, dec_items (f e) n s = dec_items (g e) n s.
  Proof.
    intros He. induction n as [|n IH]; intros s; [reflexivity|].
    cbn [dec_items]. rewrite He. destruct (g e s) as [[v r]|]; [rewrite IH|]; reflexivity.
  Qed.

  Lemma dec_alt_ext sel s alts : Forall agree alts -> forall i, dec_alt f sel s alts i = dec_alt g sel s alts i.
  Proof.
    induction 1 as [|a r Ha Hr IH]; intros i; [reflexivity|].
    cbn [dec_alt]. rewrite Ha, IH. reflexivity.
  Qed.
End Ext.

(* the decoder parametrised by the two readers of lengths IS the reference decoder of Rt/Oer.v when given its readers:
   oer_cdec differs from oer_dec in oer_fetch_length / oer_fetch_quantity only *)
Theorem oer_dec_g_ref t : forall bs, oer_dec_g oer_get_length oer_get_quantity t bs = oer_dec t bs.
Proof.
  set (G := oer_dec_g oer_get_length oer_get_quantity).
  assert (H : agree G oer_dec t /\ agree_m G oer_dec t).
  { induction t using ty_ind'.
    - split; intros bs; reflexivity.
    - split; intros bs; reflexivity.
    - split; intros bs; reflexivity.
    - split; intros bs; reflexivity.
    - assert (A : agree G oer_dec (TSeq tg ms)).
      { intros bs. unfold G. cbn [oer_dec_g oer_dec]. fold G.
        destruct (take _ bs) as [[pb r0]|]; [|reflexivity].
        destruct (take_bits _ _) as [[pres x]|]; [|reflexivity].
        rewrite (dec_members_pres_ext G oer_dec ms); [reflexivity|].
        eapply Forall_impl; [|exact H]. intros a [_ Ha]. exact Ha. }
      split; exact A.
    - assert (A : agree G oer_dec (TSeqOf tg s t)).
      { intros bs. unfold G. cbn [oer_dec_g oer_dec]. fold G.
        destruct (oer_get_quantity bs) as [[n r]|]; [|reflexivity].
        rewrite (dec_items_ext G oer_dec t (proj1 IHt)). reflexivity. }
      split; exact A.
    - assert (A : agree G oer_dec (TSetOf tg s t)).
      { intros bs. unfold G. cbn [oer_dec_g oer_dec]. fold G.
        destruct (oer_get_quantity bs) as [[n r]|]; [|reflexivity].
        rewrite (dec_items_ext G oer_dec t (proj1 IHt)). reflexivity. }
      split; exact A.
    - assert (A : agree G oer_dec (TChoice alts)).
      { intros bs. unfold G. cbn [oer_dec_g oer_dec]. fold G.
        destruct (oer_get_tag bs) as [[tg r]|]; [|reflexivity].
        apply dec_alt_ext. eapply Forall_impl; [|exact H]. intros a [Ha _]. exact Ha. }
      split; exact A.
    - assert (A : agree G oer_dec (TTag tg t)).
      { intros bs. unfold G. cbn [oer_dec_g oer_dec]. fold G. apply (proj1 IHt). }
      split; exact A.
    - split.
      + intros bs. unfold G. cbn [oer_dec_g oer_dec]. fold G. rewrite (proj1 IHt bs). reflexivity.
      + cbn [agree_m]. exact (proj1 IHt). }
  exact (proj1 H).
Qed.
