(* Rt/ResumeXProofs.v — proofs about Rt/ResumeX.v (C05): the entity-reference
   scanner of the XER string body and the OER open-type skipper are coherent
   restartable steps (hence chunk independent, by Rt/ResumeProofs.v), the
   skipper answers RC_WMORE without consuming on every proper prefix of an open
   type, and the body reader inverts the escaping of the XER encoder. *)
From Coq Require Import ZArith List Lia Bool ZifyBool.
From A1 Require Import Base.Bytes Leaf.BerTL Rt.Oer Rt.Resume Rt.ResumeProofs Rt.ResumeX.
From A1 Require Rt.Ext Rt.ExtProofs.
Import ListNotations.
Local Open Scope Z_scope.

(* ------------------------------------------------------------------ *)
(* 1. OER open type skipping                                           *)

Lemma fetch3_ok_ext w len k more : oer_fetch_length3 w = LOk len k ->
  (1 <= k <= length w)%nat /\ oer_fetch_length3 (w ++ more) = LOk len k.
Proof.
  destruct w as [|b r]; cbn [oer_fetch_length3 app]; [discriminate|].
  destruct (b <? 128) eqn:Eb.
  - intros H. injection H as <- <-. cbn [length]. split; [lia|reflexivity].
  - set (k0 := Z.to_nat (b - 128)).
    destruct (length r <? k0)%nat eqn:El; [discriminate|].
    assert (Hl : (k0 <= length r)%nat) by lia.
    assert (El' : (length (r ++ more) <? k0)%nat = false) by (rewrite app_length; lia).
    rewrite El'. rewrite (firstn_app_le k0 r more Hl).
    destruct (8 <? zlen (Ext.drop_zeros (firstn k0 r))); [discriminate|].
    destruct (Ext.rsize_max <? be_val (firstn k0 r)); [discriminate|].
    intros H. injection H as <- <-. cbn [length]. split; [lia|reflexivity].
Qed.

Lemma fetch3_err_ext w more : oer_fetch_length3 w = LErr -> oer_fetch_length3 (w ++ more) = LErr.
Proof.
  destruct w as [|b r]; cbn [oer_fetch_length3 app]; [discriminate|].
  destruct (b <? 128) eqn:Eb; [discriminate|].
  set (k0 := Z.to_nat (b - 128)).
  destruct (length r <? k0)%nat eqn:El; [discriminate|].
  assert (Hl : (k0 <= length r)%nat) by lia.
  assert (El' : (length (r ++ more) <? k0)%nat = false) by (rewrite app_length; lia).
  rewrite El'. rewrite (firstn_app_le k0 r more Hl).
  destruct (8 <? zlen (Ext.drop_zeros (firstn k0 r))); [reflexivity|].
  destruct (Ext.rsize_max <? be_val (firstn k0 r)); [reflexivity|discriminate].
Qed.

(* a window that ends inside the length determinant *)
Lemma fetch3_short p m len k : oer_fetch_length3 (p ++ m) = LOk len k -> (length p < k)%nat ->
  oer_fetch_length3 p = LMore.
Proof.
  destruct p as [|b r]; [reflexivity|]. cbn [oer_fetch_length3 app].
  destruct (b <? 128) eqn:Eb.
  - intros H. injection H as <- <-. cbn [length]. lia.
  - set (k0 := Z.to_nat (b - 128)).
    destruct (length (r ++ m) <? k0)%nat eqn:El; [discriminate|].
    destruct (8 <? zlen (Ext.drop_zeros (firstn k0 (r ++ m)))); [discriminate|].
    destruct (Ext.rsize_max <? be_val (firstn k0 (r ++ m))); [discriminate|].
    intros H. injection H as <- <-. cbn [length]. intros Hl.
    assert (El2 : (length r <? k0)%nat = true) by lia. rewrite El2. reflexivity.
Qed.

(* the three-valued reader and the two-valued one of Rt/Ext.v *)
Lemma fetch3_agrees w n r : Ext.oer_fetch_length w = Some (n, r) ->
  exists k, oer_fetch_length3 w = LOk n k /\ r = skipn k w.
Proof.
  destruct w as [|b tl]; cbn [Ext.oer_fetch_length oer_fetch_length3]; [discriminate|].
  destruct (b <? 128) eqn:Eb.
  - intros H. injection H as <- <-. exists 1%nat. split; reflexivity.
  - unfold take. destruct ((0 <=? b - 128) && (b - 128 <=? zlen tl)) eqn:Et; [|discriminate].
    set (k0 := Z.to_nat (b - 128)).
    assert (El : (length tl <? k0)%nat = false) by (unfold zlen in Et; lia).
    rewrite El.
    destruct (8 <? zlen (Ext.drop_zeros (firstn k0 tl))); [discriminate|].
    destruct (Ext.rsize_max <? be_val (firstn k0 tl)); [discriminate|].
    intros H. injection H as <- <-. exists (S k0). split; reflexivity.
Qed.

Lemma fetch3_length n r : 0 <= n <= rssize_max ->
  oer_fetch_length3 (oer_length n ++ r) = LOk n (length (oer_length n)).
Proof.
  intros Hn. pose proof (ExtProofs.oer_fetch_length_inverse n r Hn) as H.
  apply fetch3_agrees in H. destruct H as [k [Hk Hr]].
  destruct (fetch3_ok_ext _ _ _ [] Hk) as [[_ Hle] _].
  assert (k = length (oer_length n)).
  { assert (Hlen : length r = length (skipn k (oer_length n ++ r))) by (rewrite <- Hr; reflexivity).
    rewrite skipn_length, app_length in Hlen. rewrite app_length in Hle. lia. }
  subst k. exact Hk.
Qed.

Lemma skip1_ok_ext full w n more : skip1 full w = KOk n ->
  (n <= length w)%nat /\ skip1 full (w ++ more) = KOk n.
Proof.
  unfold skip1. destruct (oer_fetch_length3 w) as [len k| |] eqn:E; [|discriminate|discriminate].
  destruct (fetch3_ok_ext w len k more E) as [[Hk1 Hk2] E']. rewrite E'.
  destruct full.
  - destruct (zlen w - Z.of_nat k <? len) eqn:Ec; [discriminate|].
    intros H. injection H as <-.
    assert (Ec' : zlen (w ++ more) - Z.of_nat k <? len = false).
    { rewrite zlen_app. pose proof (zlen_nonneg more). lia. }
    rewrite Ec'. split; [|reflexivity]. unfold zlen in Ec. lia.
  - intros H. injection H as <-. split; [lia|reflexivity].
Qed.

Lemma skip1_fail_ext full w more : skip1 full w = KFail -> skip1 full (w ++ more) = KFail.
Proof.
  unfold skip1. destruct (oer_fetch_length3 w) as [len k| |] eqn:E.
  - destruct full; [destruct (zlen w - Z.of_nat k <? len)|]; discriminate.
  - discriminate.
  - rewrite (fetch3_err_ext w more E). reflexivity.
Qed.

Lemma shift0 {ctx} (r : code * nat * ctx) : shift 0 r = r.
Proof. destruct r as [[c n] x]. reflexivity. Qed.

Theorem skip_coherent full : coherent (skip_step full).
Proof.
  split.
  - intros c p k c' H. unfold skip_step in H.
    destruct (skip1 full p) eqn:E; try discriminate.
    injection H as <- <-. split; [lia|]. intros more. cbn [skipn]. rewrite shift0. reflexivity.
  - intros c p r k c' H Hr more. unfold skip_step in *.
    destruct (skip1 full p) eqn:E.
    + destruct (skip1_ok_ext full p n more E) as [_ E']. rewrite E'. exact H.
    + injection H as <- _ _. congruence.
    + rewrite (skip1_fail_ext full p more E). exact H.
Qed.

(* C05, second half, for one open type: a window that ends anywhere before the
   end of the open type gives RC_WMORE and consumes nothing *)
Theorem skip_prefix_wmore c p q : zlen c <= rssize_max -> oer_open c = p ++ q -> q <> [] ->
  skip_step true tt p = (MORE, O, tt).
Proof.
  intros Hc Heq Hq. unfold oer_open in Heq.
  assert (Hn : 0 <= zlen c <= rssize_max) by (pose proof (zlen_nonneg c); lia).
  set (L := oer_length (zlen c)) in *.
  unfold skip_step, skip1.
  destruct (Nat.lt_ge_cases (length p) (length L)) as [Hlt|Hge].
  - pose proof (fetch3_length (zlen c) c Hn) as Hf. fold L in Hf. rewrite Heq in Hf.
    rewrite (fetch3_short p q _ _ Hf Hlt). reflexivity.
  - (* p = L ++ c1, c = c1 ++ q *)
    assert (Hp : p = L ++ firstn (length p - length L) c).
    { pose proof (f_equal (firstn (length p)) Heq) as H1.
      rewrite firstn_app, firstn_app in H1. rewrite Nat.sub_diag, firstn_O, app_nil_r, firstn_all in H1.
      rewrite (firstn_all2 L) in H1 by lia. symmetry. exact H1. }
    set (c1 := firstn (length p - length L) c) in *.
    assert (Hlen : (length c1 < length c)%nat).
    { pose proof (f_equal (@length Z) Heq) as H2. rewrite !app_length in H2.
      assert (length q <> O) by (destruct q; [congruence|discriminate]).
      unfold c1. rewrite firstn_length. lia. }
    rewrite Hp. pose proof (fetch3_length (zlen c) c1 Hn) as Hf. fold L in Hf. rewrite Hf.
    assert (Ec : zlen (L ++ c1) - Z.of_nat (length L) <? zlen c = true).
    { rewrite zlen_app. unfold zlen. lia. }
    rewrite Ec. reflexivity.
Qed.

Theorem skip_whole c rest : zlen c <= rssize_max ->
  skip_step true tt (oer_open c ++ rest) = (OK, length (oer_open c), tt).
Proof.
  intros Hc. assert (Hn : 0 <= zlen c <= rssize_max) by (pose proof (zlen_nonneg c); lia).
  unfold skip_step, skip1, oer_open. rewrite <- app_assoc.
  rewrite (fetch3_length (zlen c) (c ++ rest) Hn).
  assert (Ec : zlen (oer_length (zlen c) ++ c ++ rest) - Z.of_nat (length (oer_length (zlen c))) <? zlen c = false).
  { rewrite !zlen_app. pose proof (zlen_nonneg rest). unfold zlen. lia. }
  rewrite Ec. f_equal. f_equal. rewrite app_length. unfold zlen. lia.
Qed.

(* the code before the repair answers RC_OK on a proper prefix (finding
   C01/C03-ext-oer-skip-unknown seen through the prefix clause) *)
Theorem skip_prefix_wmore_c_refuted : exists c p q,
  zlen c <= rssize_max /\ oer_open c = p ++ q /\ q <> [] /\ skip_step false tt p = (OK, 1%nat, tt).
Proof.
  exists [104; 101; 108; 108; 111], [5], [104; 101; 108; 108; 111].
  split; [vm_compute; discriminate|]. split; [reflexivity|]. split; [discriminate|]. reflexivity.
Qed.

(* ---- the loop of phase 4 ---- *)

Lemma skips_shift full : forall bits w c,
  skips_loop full bits w c = shift c (skips_loop full bits w O).
Proof.
  induction bits as [|b bs IH]; intros w c; cbn [skips_loop].
  - unfold shift. f_equal. f_equal. lia.
  - destruct b.
    + destruct (skip1 full w) as [n| |].
      * rewrite (IH (skipn n w) (c + n)%nat), (IH (skipn n w) (0 + n)%nat).
        rewrite shift_shift. reflexivity.
      * unfold shift. f_equal. f_equal. lia.
      * unfold shift. f_equal. f_equal. lia.
    + apply IH.
Qed.

Lemma skips_final full : forall bits w c r k bits', skips_loop full bits w c = (r, k, bits') -> r <> MORE ->
  forall more, skips_loop full bits (w ++ more) c = (r, k, bits').
Proof.
  induction bits as [|b bs IH]; intros w c r k bits' H Hr more; cbn [skips_loop] in *; [exact H|].
  destruct b; [|eapply IH; eassumption].
  destruct (skip1 full w) as [n| |] eqn:E.
  - destruct (skip1_ok_ext full w n more E) as [Hn E']. rewrite E'.
    rewrite (skipn_app_le n w more Hn). eapply IH; eassumption.
  - injection H as <- _ _. congruence.
  - rewrite (skip1_fail_ext full w more E). exact H.
Qed.

Lemma skips_more full : forall bits w c k bits', skips_loop full bits w c = (MORE, k, bits') ->
  exists j, k = (c + j)%nat /\ (j <= length w)%nat /\
    forall more, skips_loop full bits (w ++ more) c = skips_loop full bits' (skipn j w ++ more) k.
Proof.
  induction bits as [|b bs IH]; intros w c k bits' H; cbn [skips_loop] in H; [discriminate|].
  destruct b.
  - destruct (skip1 full w) as [n| |] eqn:E.
    + destruct (IH _ _ _ _ H) as [j [Hk [Hj Hext]]].
      destruct (skip1_ok_ext full w n [] E) as [Hn _].
      exists (n + j)%nat. rewrite skipn_length in Hj. split; [lia|]. split; [lia|].
      intros more. cbn [skips_loop].
      destruct (skip1_ok_ext full w n more E) as [_ E']. rewrite E'.
      rewrite (skipn_app_le n w more Hn). rewrite Hext. rewrite skipn_add. reflexivity.
    + injection H as <- <-. exists O. split; [lia|]. split; [lia|]. intros more. reflexivity.
    + discriminate.
  - destruct (IH _ _ _ _ H) as [j [Hk [Hj Hext]]]. exists j. split; [exact Hk|]. split; [exact Hj|].
    intros more. cbn [skips_loop]. apply Hext.
Qed.

Theorem skips_coherent full : coherent (skips_step full).
Proof.
  split.
  - intros bits p k bits' H. unfold skips_step in *.
    destruct (skips_more full bits p O k bits' H) as [j [Hk [Hj Hext]]]. cbn in Hk. subst j.
    split; [exact Hj|]. intros more. rewrite Hext. apply skips_shift.
  - intros bits p r k bits' H Hr more. unfold skips_step in *. eapply skips_final; eassumption.
Qed.

Corollary skips_chunk_independent full bits input chunks :
  chunking_of input chunks -> feed0 (skips_step full) bits chunks = skips_step full bits input.
Proof. apply coherent_implies_chunk_independent. apply skips_coherent. Qed.

(* the additions a reader does not know: absent (None) or the contents of an open type *)
Definition adds_bits (cs : list (option (list Z))) : list bool :=
  map (fun o => match o with Some _ => true | None => false end) cs.
Fixpoint adds_enc (cs : list (option (list Z))) : list Z :=
  match cs with
  | [] => []
  | Some c :: r => oer_open c ++ adds_enc r
  | None :: r => adds_enc r
  end.
Definition adds_ok (cs : list (option (list Z))) : Prop :=
  Forall (fun o => match o with Some c => zlen c <= rssize_max | None => True end) cs.

Lemma skips_whole_gen : forall cs rest c, adds_ok cs ->
  skips_loop true (adds_bits cs) (adds_enc cs ++ rest) c = (OK, (c + length (adds_enc cs))%nat, []).
Proof.
  induction cs as [|o cs IH]; intros rest c Hok; cbn [adds_bits map adds_enc skips_loop].
  - cbn [length]. f_equal. f_equal. lia.
  - inversion Hok as [|? ? Ho Hrest]; subst. destruct o as [x|].
    + rewrite <- app_assoc.
      pose proof (skip_whole x (adds_enc cs ++ rest) Ho) as Hs. unfold skip_step in Hs.
      destruct (skip1 true (oer_open x ++ adds_enc cs ++ rest)) as [n| |] eqn:E; try discriminate.
      injection Hs as ->.
      rewrite skipn_app_le by lia. rewrite skipn_all, app_nil_l.
      fold (adds_bits cs). rewrite IH by exact Hrest. rewrite app_length. f_equal. f_equal. lia.
    + fold (adds_bits cs). apply IH. exact Hrest.
Qed.

(* C05 for the trailing unknown additions of an extensible SEQUENCE in OER: the
   whole of them is skipped with RC_OK; every proper prefix gives RC_WMORE and
   the count consumed does not exceed the prefix *)
Theorem skips_whole cs rest : adds_ok cs ->
  skips_step true (adds_bits cs) (adds_enc cs ++ rest) = (OK, length (adds_enc cs), []).
Proof. intros H. unfold skips_step. rewrite skips_whole_gen by exact H. reflexivity. Qed.

Lemma skips_prefix_gen : forall cs p q c, adds_ok cs -> adds_enc cs = p ++ q -> q <> [] ->
  exists k bits', skips_loop true (adds_bits cs) p c = (MORE, (c + k)%nat, bits') /\ (k <= length p)%nat.
Proof.
  induction cs as [|o cs IH]; intros p q c Hok Heq Hq; cbn [adds_bits map adds_enc skips_loop] in *.
  - destruct p; destruct q; try discriminate. congruence.
  - inversion Hok as [|? ? Ho Hrest]; subst. fold (adds_bits cs). destruct o as [x|].
    + destruct (Nat.lt_ge_cases (length p) (length (oer_open x))) as [Hlt|Hge].
      * (* the window ends inside this open type *)
        assert (Hx : exists q1, oer_open x = p ++ q1 /\ q1 <> []).
        { exists (skipn (length p) (oer_open x)). split.
          - pose proof (f_equal (firstn (length p)) Heq) as H1.
            rewrite firstn_app, firstn_app in H1.
            rewrite Nat.sub_diag, firstn_O, app_nil_r, firstn_all in H1.
            replace (length p - length (oer_open x))%nat with O in H1 by lia.
            rewrite firstn_O, app_nil_r in H1. rewrite <- H1 at 1. symmetry. apply firstn_skipn.
          - intros Hn. pose proof (f_equal (@length Z) Hn) as H2. rewrite skipn_length in H2. cbn in H2. lia. }
        destruct Hx as [q1 [Hx1 Hx2]].
        pose proof (skip_prefix_wmore x p q1 Ho Hx1 Hx2) as Hs. unfold skip_step in Hs.
        destruct (skip1 true p) as [n| |]; try discriminate.
        exists O, (true :: adds_bits cs). split; [f_equal; f_equal; lia|lia].
      * (* the open type is complete in the window *)
        assert (Hp : p = oer_open x ++ skipn (length (oer_open x)) p).
        { pose proof (f_equal (firstn (length (oer_open x))) Heq) as H1.
          rewrite firstn_app, firstn_app in H1.
          rewrite Nat.sub_diag, firstn_O, app_nil_r, firstn_all in H1.
          replace (length (oer_open x) - length p)%nat with O in H1 by lia.
          rewrite firstn_O, app_nil_r in H1. rewrite H1 at 1. symmetry. apply firstn_skipn. }
        set (p2 := skipn (length (oer_open x)) p) in *.
        assert (Heq2 : adds_enc cs = p2 ++ q).
        { rewrite Hp in Heq. rewrite <- app_assoc in Heq. apply app_inv_head in Heq. exact Heq. }
        rewrite Hp.
        pose proof (skip_whole x p2 Ho) as Hs. unfold skip_step in Hs.
        destruct (skip1 true (oer_open x ++ p2)) as [n| |] eqn:E; try discriminate.
        injection Hs as ->.
        rewrite skipn_app_le by lia. rewrite skipn_all, app_nil_l.
        destruct (IH p2 q (c + length (oer_open x))%nat Hrest Heq2 Hq) as [k [bits' [Hk Hle]]].
        exists (length (oer_open x) + k)%nat, bits'. split.
        -- rewrite Hk. f_equal. f_equal. lia.
        -- rewrite app_length. lia.
    + apply (IH p q c Hrest Heq Hq).
Qed.

Theorem skips_prefix_wmore cs p q : adds_ok cs -> adds_enc cs = p ++ q -> q <> [] ->
  exists k bits', skips_step true (adds_bits cs) p = (MORE, k, bits') /\ (k <= length p)%nat.
Proof.
  intros Hok Heq Hq. unfold skips_step.
  destruct (skips_prefix_gen cs p q O Hok Heq Hq) as [k [bits' [H1 H2]]].
  exists k, bits'. split; [exact H1|exact H2].
Qed.

(* ------------------------------------------------------------------ *)
(* 2. entity references                                                *)

Lemma strtoent_ext base more : forall w val n,
  match strtoent base w val n with
  | NEnd => True
  | r => strtoent base (w ++ more) val n = r
  end.
Proof.
  induction w as [|ch tl IH]; intros val n; cbn [strtoent app]; [exact I|].
  destruct (ch =? 59); [reflexivity|].
  destruct (digit_of ch) as [d|]; [|reflexivity].
  destruct (last_unicode <? val * base + d); [reflexivity|]. apply IH.
Qed.

Lemma strtoent_used base : forall w val n v u,
  strtoent base w val n = NVal v u -> (n < u <= n + length w)%nat.
Proof.
  induction w as [|ch tl IH]; intros val n v u; cbn [strtoent length]; [discriminate|].
  destruct (ch =? 59).
  - intros H. injection H as <- <-. lia.
  - destruct (digit_of ch) as [d|]; [|discriminate].
    destruct (last_unicode <? val * base + d); [discriminate|].
    intros H. apply IH in H. lia.
Qed.

Lemma find_semi_ext more : forall n w i j,
  find_semi n w i = Some j -> find_semi n (w ++ more) i = Some j.
Proof.
  induction n as [|n IH]; intros w i j; cbn [find_semi]; [discriminate|].
  destruct w as [|ch tl]; [discriminate|]. cbn [app].
  destruct (ch =? 59); [auto|]. apply IH.
Qed.

Lemma find_semi_bound : forall n w i j,
  find_semi n w i = Some j -> (i <= j)%nat /\ (j < i + n)%nat /\ (j < i + length w)%nat.
Proof.
  induction n as [|n IH]; intros w i j; cbn [find_semi]; [discriminate|].
  destruct w as [|ch tl]; [discriminate|]. cbn [length].
  destruct (ch =? 59).
  - intros H. injection H as <-. lia.
  - intros H. apply IH in H. lia.
Qed.

(* a decision taken at an '&' stands when more input arrives *)
Lemma ref_at_ext w more :
  match ref_at w with
  | XChars o u => (1 <= u <= length w)%nat /\ ref_at (w ++ more) = XChars o u
  | XStall => True
  end.
Proof.
  destruct w as [|c0 [|c1 rest]]; [exact I|exact I|].
  cbn [ref_at app]. destruct (c1 =? 35) eqn:E1.
  - destruct rest as [|c2 rest2]; [exact I|]. cbn [app].
    destruct (c2 =? 120) eqn:Ex.
    + pose proof (strtoent_ext 16 more rest2 0 O) as He.
      pose proof (strtoent_used 16 rest2 0 O) as Hu.
      destruct (strtoent 16 rest2 0 O) as [v n| |] eqn:Es.
      * rewrite He. destruct (v =? 0); [unfold verbatim; cbn [length]; split; [lia|reflexivity]|].
        specialize (Hu v n eq_refl). cbn [length]. split; [lia|reflexivity].
      * exact I.
      * rewrite He. unfold verbatim. cbn [length]. split; [lia|reflexivity].
    + pose proof (strtoent_ext 10 more (c2 :: rest2) 0 O) as He.
      pose proof (strtoent_used 10 (c2 :: rest2) 0 O) as Hu.
      destruct (strtoent 10 (c2 :: rest2) 0 O) as [v n| |] eqn:Es.
      * cbn [app] in He. rewrite He. destruct (v =? 0); [unfold verbatim; cbn [length]; split; [lia|reflexivity]|].
        specialize (Hu v n eq_refl). cbn [length] in *. split; [lia|reflexivity].
      * exact I.
      * cbn [app] in He. rewrite He. unfold verbatim. cbn [length]. split; [lia|reflexivity].
  - pose proof (find_semi_ext more 5 (c0 :: c1 :: rest) O) as He.
    pose proof (find_semi_bound 5 (c0 :: c1 :: rest) O) as Hb.
    destruct (find_semi 5 (c0 :: c1 :: rest) O) as [j|] eqn:Ef; [|exact I].
    specialize (He j eq_refl). cbn [app] in He. rewrite He.
    specialize (Hb j eq_refl). cbn [length] in Hb.
    assert (Hv : (1 <= 1 <= length (c0 :: c1 :: rest))%nat /\ verbatim = verbatim)
      by (cbn [length]; split; [lia|reflexivity]).
    destruct j as [|[|[|[|[|j]]]]]; try exact Hv.
    + (* ';' at 3 *)
      destruct rest as [|c2 rest2]; [cbn [length] in Hb; lia|]. cbn [app].
      destruct (c1 =? 108).
      * destruct (c2 =? 116); [|exact Hv]. cbn [length] in Hb |- *. split; [lia|reflexivity].
      * destruct (c1 =? 103); [|exact Hv].
        destruct (c2 =? 116); [|exact Hv]. cbn [length] in Hb |- *. split; [lia|reflexivity].
    + (* ';' at 4 *)
      destruct rest as [|c2 [|c3 rest3]]; cbn [length] in Hb; try lia.
      cbn [app]. destruct ((c1 =? 97) && (c2 =? 109) && (c3 =? 112)); [|exact Hv].
      cbn [length]. split; [lia|reflexivity].
Qed.

(* the conversion of a window that is not known to be complete, continued on a longer window *)
Lemma conv_resume f more : forall w s o k, (s <= length w)%nat ->
  conv false w s = (o, k) ->
  (k <= length w)%nat /\
  conv f (w ++ more) s =
    match conv f (skipn k w ++ more) O with (o2, k2) => (o ++ o2, (k + k2)%nat) end.
Proof.
  induction w as [|ch tl IH]; intros s o k Hs H.
  - cbn [length] in Hs. assert (s = O) by lia. subst s. cbn [conv] in H. injection H as <- <-.
    split; [cbn; lia|]. cbn [app skipn]. destruct (conv f more O) as [o2 k2]. reflexivity.
  - cbn [conv] in H. destruct s as [|s].
    + destruct (ch =? 38) eqn:Ec.
      * pose proof (ref_at_ext (ch :: tl) more) as Hr.
        destruct (ref_at (ch :: tl)) as [out used| ] eqn:Er.
        -- destruct Hr as [Hu Hr]. cbn [app] in Hr |- *. cbn [conv]. rewrite Ec, Hr.
           destruct (conv false tl (used - 1)) as [o1 k1] eqn:E1.
           injection H as <- <-.
           cbn [length] in Hu.
           destruct (IH (used - 1)%nat o1 k1 ltac:(lia) E1) as [Hk Hx].
           split; [cbn [length]; lia|]. rewrite Hx.
           cbn [skipn]. destruct (conv f (skipn k1 tl ++ more) O) as [o2 k2].
           rewrite app_assoc. reflexivity.
        -- injection H as <- <-. split; [lia|]. cbn [skipn].
           destruct (conv f ((ch :: tl) ++ more) O) as [o2 k2]. reflexivity.
      * cbn [app conv]. rewrite Ec.
        destruct (conv false tl O) as [o1 k1] eqn:E1. injection H as <- <-.
        destruct (IH O o1 k1 ltac:(lia) E1) as [Hk Hx].
        split; [cbn [length]; lia|]. rewrite Hx.
        cbn [skipn]. destruct (conv f (skipn k1 tl ++ more) O) as [o2 k2]. reflexivity.
    + cbn [app conv].
      destruct (conv false tl s) as [o1 k1] eqn:E1. injection H as <- <-.
      cbn [length] in Hs.
      destruct (IH s o1 k1 ltac:(lia) E1) as [Hk Hx].
      split; [cbn [length]; lia|]. rewrite Hx.
      cbn [skipn]. destruct (conv f (skipn k1 tl ++ more) O) as [o2 k2]. reflexivity.
Qed.

Lemma find_lt_shift : forall w i, find_lt w i = option_map (fun j => (i + j)%nat) (find_lt w O).
Proof.
  induction w as [|ch tl IH]; intros i; cbn [find_lt]; [reflexivity|].
  destruct (ch =? 60).
  - cbn. f_equal. lia.
  - rewrite (IH (S i)), (IH 1%nat). destruct (find_lt tl O); cbn; [f_equal; lia|reflexivity].
Qed.

Lemma find_lt_some : forall w j, find_lt w O = Some j ->
  (j < length w)%nat /\ forall more, find_lt (w ++ more) O = Some j.
Proof.
  induction w as [|ch tl IH]; intros j; cbn [find_lt app]; [discriminate|].
  destruct (ch =? 60).
  - intros H. injection H as <-. cbn [length]. split; [lia|reflexivity].
  - rewrite find_lt_shift. destruct (find_lt tl O) as [j0|] eqn:E; [|discriminate].
    cbn. intros H. injection H as <-. destruct (IH j0 eq_refl) as [Hl Hm]. cbn [length]. split; [lia|].
    intros more. rewrite find_lt_shift, Hm. reflexivity.
Qed.

Lemma find_lt_none : forall w more, find_lt w O = None ->
  find_lt (w ++ more) O = option_map (fun j => (length w + j)%nat) (find_lt more O).
Proof.
  induction w as [|ch tl IH]; intros more; cbn [find_lt app length].
  - intros _. destruct (find_lt more O); reflexivity.
  - destruct (ch =? 60); [discriminate|].
    rewrite find_lt_shift. destruct (find_lt tl O) eqn:E; [discriminate|]. intros _.
    rewrite find_lt_shift, (IH more eq_refl). destruct (find_lt more O); cbn; [f_equal; lia|reflexivity].
Qed.

Lemma find_lt_skipn_none : forall w k, find_lt w O = None -> find_lt (skipn k w) O = None.
Proof.
  induction w as [|ch tl IH]; intros k H; [destruct k; reflexivity|].
  destruct k; [exact H|]. cbn [skipn]. apply IH.
  cbn [find_lt] in H. destruct (ch =? 60); [discriminate|].
  rewrite find_lt_shift in H. destruct (find_lt tl O); [discriminate|reflexivity].
Qed.

Theorem entref_coherent : coherent entref_step.
Proof.
  split.
  - (* RC_WMORE is resumable *)
    intros acc p k c' H. unfold entref_step in H.
    destruct (find_lt p O) as [i|] eqn:Ef.
    { destruct (conv true (firstn i p) O) as [o k0]; discriminate. }
    destruct (conv false p O) as [o k0] eqn:Ec.
    injection H as <- <-.
    destruct (conv_resume false [] p O o k0 ltac:(lia) Ec) as [Hk _].
    split; [exact Hk|]. intros more. unfold entref_step.
    rewrite (find_lt_none p more Ef).
    rewrite (find_lt_none (skipn k0 p) more (find_lt_skipn_none p k0 Ef)).
    destruct (find_lt more O) as [j|] eqn:Em; cbn [option_map].
    + rewrite firstn_app, (firstn_all2 p) by lia.
      replace (length p + j - length p)%nat with j by lia.
      rewrite firstn_app, (firstn_all2 (skipn k0 p)) by lia.
      replace (length (skipn k0 p) + j - length (skipn k0 p))%nat with j by lia.
      destruct (conv_resume true (firstn j more) p O o k0 ltac:(lia) Ec) as [_ Hx].
      rewrite Hx. destruct (conv true (skipn k0 p ++ firstn j more) O) as [o2 k2].
      unfold shift; rewrite app_assoc; reflexivity.
    + destruct (conv_resume false more p O o k0 ltac:(lia) Ec) as [_ Hx].
      rewrite Hx. destruct (conv false (skipn k0 p ++ more) O) as [o2 k2].
      unfold shift; rewrite app_assoc; reflexivity.
  - (* RC_OK is final *)
    intros acc p r k c' H Hr more. unfold entref_step in *.
    destruct (find_lt p O) as [i|] eqn:Ef.
    + destruct (find_lt_some p i Ef) as [Hi Hm]. rewrite Hm.
      rewrite firstn_app. replace (i - length p)%nat with O by lia.
      rewrite firstn_O, app_nil_r. exact H.
    + destruct (conv false p O) as [o k0] eqn:Ec.
      injection H as <- _ _. congruence.
Qed.

(* the reader never fails: a text body is converted whatever it holds; with a
   '<' in the window it is complete (RC_OK), without one more is wanted *)
Theorem entref_total acc w :
  exists k o, (k <= length w)%nat /\
    entref_step acc w = ((if find_lt w O then OK else MORE), k, acc ++ o).
Proof.
  unfold entref_step. destruct (find_lt w O) as [i|] eqn:Ef.
  - destruct (conv true (firstn i w) O) as [o k] eqn:Ec.
    exists k, o. split; [|reflexivity].
    assert (Hc : forall f v s o k, conv f v s = (o, k) -> (k <= length v)%nat).
    { clear. intros f. induction v as [|ch tl IH]; intros s o k H; cbn [conv] in H.
      - injection H as <- <-. cbn. lia.
      - cbn [length]. destruct s as [|s].
        + destruct (ch =? 38).
          * destruct (ref_at (ch :: tl)) as [out used|].
            -- destruct (conv f tl (used - 1)) as [o1 k1] eqn:E1. injection H as <- <-.
               apply IH in E1. lia.
            -- destruct f.
               ++ destruct (conv true tl O) as [o1 k1] eqn:E1. injection H as <- <-. apply IH in E1. lia.
               ++ injection H as <- <-. lia.
          * destruct (conv f tl O) as [o1 k1] eqn:E1. injection H as <- <-. apply IH in E1. lia.
        + destruct (conv f tl s) as [o1 k1] eqn:E1. injection H as <- <-. apply IH in E1. lia. }
    apply Hc in Ec. rewrite firstn_length in Ec. lia.
  - destruct (conv false w O) as [o k] eqn:Ec.
    exists k, o. split; [|reflexivity].
    destruct (conv_resume false [] w O o k ltac:(lia) Ec) as [Hk _]. exact Hk.
Qed.

Corollary entref_chunk_independent acc input chunks :
  chunking_of input chunks -> feed0 entref_step acc chunks = entref_step acc input.
Proof. apply coherent_implies_chunk_independent. apply entref_coherent. Qed.

(* ---- the body reader inverts the escaping of the XER encoder ---- *)

Lemma conv_skip f : forall a w, conv f (a ++ w) (length a) =
  match conv f w O with (o, k) => (o, (length a + k)%nat) end.
Proof.
  induction a as [|x a IH]; intros w; cbn [app length conv].
  - destruct (conv f w O) as [o k]. reflexivity.
  - rewrite IH. destruct (conv f w O) as [o k]. reflexivity.
Qed.

Lemma conv_escape f : forall s, conv f (xer_escape s) O = (s, length (xer_escape s)).
Proof.
  induction s as [|ch tl IH]; [reflexivity|]. cbn [xer_escape].
  destruct (ch =? 38) eqn:E1.
  - assert (ch = 38) by lia. subst ch.
    change ([38; 97; 109; 112; 59] ++ xer_escape tl) with (38 :: [97; 109; 112; 59] ++ xer_escape tl).
    cbn [conv]. change (38 =? 38) with true. cbv iota.
    change (ref_at (38 :: [97; 109; 112; 59] ++ xer_escape tl)) with (XChars [38] 5). cbv iota beta.
    change (5 - 1)%nat with (length [97; 109; 112; 59]).
    rewrite conv_skip, IH. reflexivity.
  - destruct (ch =? 60) eqn:E2.
    + assert (ch = 60) by lia. subst ch.
      change ([38; 108; 116; 59] ++ xer_escape tl) with (38 :: [108; 116; 59] ++ xer_escape tl).
      cbn [conv]. change (38 =? 38) with true. cbv iota.
      change (ref_at (38 :: [108; 116; 59] ++ xer_escape tl)) with (XChars [60] 4). cbv iota beta.
      change (4 - 1)%nat with (length [108; 116; 59]).
      rewrite conv_skip, IH. reflexivity.
    + destruct (ch =? 62) eqn:E3.
      * assert (ch = 62) by lia. subst ch.
        change ([38; 103; 116; 59] ++ xer_escape tl) with (38 :: [103; 116; 59] ++ xer_escape tl).
        cbn [conv]. change (38 =? 38) with true. cbv iota.
        change (ref_at (38 :: [103; 116; 59] ++ xer_escape tl)) with (XChars [62] 4). cbv iota beta.
        change (4 - 1)%nat with (length [103; 116; 59]).
        rewrite conv_skip, IH. reflexivity.
      * cbn [app conv]. rewrite E1, IH. reflexivity.
Qed.

Lemma find_lt_escape : forall s rest, find_lt (xer_escape s ++ 60 :: rest) O = Some (length (xer_escape s)).
Proof.
  induction s as [|ch tl IH]; intros rest; [reflexivity|]. cbn [xer_escape].
  destruct (ch =? 38) eqn:E1; [|destruct (ch =? 60) eqn:E2; [|destruct (ch =? 62) eqn:E3]];
    rewrite <- app_assoc; cbn [app find_lt length].
  - change (38 =? 60) with false. change (97 =? 60) with false. change (109 =? 60) with false.
    change (112 =? 60) with false. change (59 =? 60) with false. cbv iota.
    rewrite find_lt_shift, IH. cbn. reflexivity.
  - change (38 =? 60) with false. change (108 =? 60) with false. change (116 =? 60) with false.
    change (59 =? 60) with false. cbv iota. rewrite find_lt_shift, IH. cbn. reflexivity.
  - change (38 =? 60) with false. change (103 =? 60) with false. change (116 =? 60) with false.
    change (59 =? 60) with false. cbv iota. rewrite find_lt_shift, IH. cbn. reflexivity.
  - rewrite E2. rewrite find_lt_shift, IH. cbn. reflexivity.
Qed.

(* whatever the string: the text the encoder writes for it, followed by the
   closing tag, is read back as the string, and all of the text is consumed;
   by entref_chunk_independent the same holds for every chunking *)
Theorem entref_roundtrip s rest :
  entref_step [] (xer_escape s ++ 60 :: rest) = (OK, length (xer_escape s), s).
Proof.
  unfold entref_step. rewrite find_lt_escape.
  rewrite firstn_app, Nat.sub_diag, firstn_O, app_nil_r, firstn_all.
  rewrite conv_escape. reflexivity.
Qed.

Example entref_session :
  (* "AT&amp;T</s>" whole, cut between "&amp" and ";", and one octet at a time *)
  let doc := [65; 84; 38; 97; 109; 112; 59; 84; 60; 47; 115; 62] in
  entref_step [] doc = (OK, 8%nat, [65; 84; 38; 84]) /\
  feed0 entref_step [] [firstn 6 doc; skipn 6 doc] = (OK, 8%nat, [65; 84; 38; 84]) /\
  entref_step [] (firstn 6 doc) = (MORE, 2%nat, [65; 84]) /\
  feed0 entref_step [] (bytewise doc) = (OK, 8%nat, [65; 84; 38; 84]).
Proof. vm_compute. repeat split. Qed.
