(* WfDescr.v — executable checker for the C10 translator output (harness/dumpdescr.c).
   A [table] is the list of every asn_TYPE_descriptor_t reachable from a module's
   PDU table, dumped from the code asn1c generated; [wf_descr] decides the
   internal consistency the runtime relies on (sorted and exact tag2el maps,
   optional-member maps, canonical-order permutations, PER/OER records, tag
   vectors, type indices).  Also here: the model of the runtime's lookups
   (bsearch with _t2e_cmp, the UPER preamble positions).  No proofs here
   (WfDescrProofs.v). *)
From Coq Require Import ZArith List Bool.
Import ListNotations.
Open Scope Z_scope.

(* ---- what the translator emits ---- *)

Inductive kind :=
| KSeq | KSet | KChoice | KSeqOf | KSetOf | KOpenType
| KNativeInt | KInt | KNativeEnum | KEnum | KBool | KNull | KOctets | KBits | KAny
| KReal | KOid | KTime | KStr | KOther.

Record per1 := mkP { p_flags : Z; p_rbits : Z; p_ebits : Z; p_lb : Z; p_ub : Z }.
Record perc := mkPC { pc_value : per1; pc_size : per1; pc_v2c : bool; pc_c2v : bool }.
Record oerc := mkO { o_width : Z; o_pos : Z; o_size : Z }.
Record t2e := mkT { te_tag : Z; te_el : Z; te_first : Z; te_last : Z }.

Record member := mkM {
  m_flags : Z;        (* ATF_POINTER = 1, ATF_OPEN_TYPE = 2, ATF_ANY_TYPE = 4 *)
  m_opt : Z;          (* "following optional members, including current" *)
  m_tag : Z;          (* number*4 + class, or -1 *)
  m_tmode : Z;        (* -1 IMPLICIT, 0, +1 EXPLICIT *)
  m_type : Z;         (* index into the table *)
  m_per : option perc;
  m_oer : option oerc;
  m_default : bool;   (* default_value_set != 0 *)
  m_selector : bool   (* type_selector != 0 *)
}.

Inductive spec :=
| SNone
| SSeq (t : list t2e) (oms : list Z) (roms aoms fe : Z)
| SSet (t tc : list t2e) (ext : Z) (mand : list Z)
| SChoice (t : list t2e) (canon : option (list Z * list Z)) (ext_start : Z)
| SSetOf (xvl : Z)
| SInt (v2e : list (Z * list Z)) (e2v : list Z) (ext strict width unsigned : Z)
| SOther.

Record descr := mkD {
  d_id : Z; d_kind : kind; d_tags : list Z; d_all : list Z; d_elems : list member;
  d_per : option perc; d_oer : option oerc; d_spec : spec;
  d_bad : Z           (* structural anomalies seen by the translator itself (null table with non-zero count ...) *)
}.

Record table := mkTab { t_per : bool; t_oer : bool; t_descrs : list descr }.

(* ---- helpers ---- *)

Definition lenZ {A} (l : list A) : Z := Z.of_nat (length l).
Definition nthZ {A} (l : list A) (i : Z) : option A :=
  if i <? 0 then None else nth_error l (Z.to_nat i).

Definition tag_class (t : Z) : Z := t mod 4.     (* BER_TAG_CLASS *)
Definition tag_value (t : Z) : Z := t / 4.       (* BER_TAG_VALUE *)

(* the comparison of _t2e_cmp (constr_SEQUENCE.c, constr_CHOICE.c, constr_SET.c) on tags *)
Definition tag_cmp (a b : Z) : comparison :=
  if tag_class a =? tag_class b then
    if tag_value a =? tag_value b then Eq
    else if tag_value a <? tag_value b then Lt else Gt
  else if tag_class a <? tag_class b then Lt else Gt.

Definition tag_ltb (a b : Z) : bool := match tag_cmp a b with Lt => true | _ => false end.

(* SEQUENCE's variant: among equal tags, a key whose el_no is larger than the entry's goes right *)
Definition seq_cmp (key_tag key_el : Z) (e : t2e) : comparison :=
  match tag_cmp key_tag (te_tag e) with
  | Eq => if te_el e <? key_el then Gt else Eq
  | c => c
  end.
Definition tag_key_cmp (key_tag : Z) (e : t2e) : comparison := tag_cmp key_tag (te_tag e).

(* bsearch(3) as glibc and the BSDs implement it *)
Section Bsearch.
  Context {A : Type}.
  Fixpoint bsearch_go (fuel : nat) (c : A -> comparison) (tbl : list A) (l u : nat) : option nat :=
    match fuel with
    | O => None
    | S f =>
        if (l <? u)%nat then
          let idx := ((l + u) / 2)%nat in
          match nth_error tbl idx with
          | None => None
          | Some p =>
              match c p with
              | Lt => bsearch_go f c tbl l idx
              | Gt => bsearch_go f c tbl (S idx) u
              | Eq => Some idx
              end
          end
        else None
    end.
  Definition bsearch (c : A -> comparison) (tbl : list A) : option nat :=
    bsearch_go (S (length tbl)) c tbl 0 (length tbl).
  Definition linear (c : A -> comparison) (tbl : list A) : bool :=
    existsb (fun e => match c e with Eq => true | _ => false end) tbl.
End Bsearch.

(* strongly sorted: every element is below every later one *)
Fixpoint ssorted {A} (lt : A -> A -> bool) (l : list A) : bool :=
  match l with
  | [] => true
  | a :: r => forallb (lt a) r && ssorted lt r
  end.

Definition t2e_lt_strict (a b : t2e) : bool := tag_ltb (te_tag a) (te_tag b).
Definition t2e_lt_seq (a b : t2e) : bool :=
  tag_ltb (te_tag a) (te_tag b) || ((te_tag a =? te_tag b) && (te_el a <? te_el b)).

Definition cnt_tag (t : Z) (l : list t2e) : Z := lenZ (filter (fun e => te_tag e =? t) l).

(* toff_first / toff_last delimit the run of entries carrying the same tag *)
Fixpoint toff_ok (before l : list t2e) : bool :=
  match l with
  | [] => true
  | e :: r => (te_first e =? - cnt_tag (te_tag e) before) && (te_last e =? cnt_tag (te_tag e) r)
              && toff_ok (e :: before) r
  end.

Fixpoint subseq (a b : list Z) : bool :=
  match a, b with
  | [], _ => true
  | _, [] => false
  | x :: a', y :: b' => if x =? y then subseq a' b' else subseq a b'
  end.

Fixpoint zseq (start : Z) (n : nat) : list Z :=
  match n with O => [] | S k => start :: zseq (start + 1) k end.

(* positions (counted from [start]) of the elements satisfying f *)
Fixpoint positions {A} (f : A -> bool) (l : list A) (start : Z) : list Z :=
  match l with
  | [] => []
  | a :: r => if f a then start :: positions f r (start + 1) else positions f r (start + 1)
  end.
Definition count {A} (f : A -> bool) (l : list A) : Z := lenZ (filter f l).

Definition is_opt (m : member) : bool := negb (m_opt m =? 0).
Definition has_flag (m : member) (bit : Z) : bool := negb (Z.land (m_flags m) bit =? 0).

Fixpoint list_eqb (a b : list Z) : bool :=
  match a, b with
  | [], [] => true
  | x :: a', y :: b' => (x =? y) && list_eqb a' b'
  | _, _ => false
  end.

(* ---- clauses ---- *)

Definition types_in_range (n : Z) (d : descr) : bool :=
  forallb (fun m => (0 <=? m_type m) && (m_type m <? n)) (d_elems d).

Definition tags_ok (d : descr) : bool :=
  (lenZ (d_tags d) <=? lenZ (d_all d))
  && Bool.eqb (lenZ (d_tags d) =? 0) (lenZ (d_all d) =? 0)
  && subseq (d_tags d) (d_all d)
  && match d_tags d, d_all d with
     | x :: _, y :: _ => x =? y
     | _, _ => true
     end
  && forallb (fun t => 0 <=? t) (d_all d).

Definition ceil_log2 (r : Z) : Z := if r <=? 1 then 0 else Z.log2_up r.

Definition per1_ok (alphabet : bool) (p : per1) : bool :=
  let f := p_flags p in
  if negb (Z.land f 2 =? 0) then
    ((f =? 2) || (f =? 6)) && (p_lb p <=? p_ub p) &&
    (if alphabet then
       (0 <=? p_rbits p) && (p_rbits p <=? 32) && (p_ebits p =? p_rbits p)
       && ((2147483647 <=? p_ub p) || (p_rbits p <=? ceil_log2 (p_ub p - p_lb p + 1)))
     else
       (p_rbits p =? ceil_log2 (p_ub p - p_lb p + 1))
       && (p_ebits p =? (if (65536 <=? p_ub p) || (16 <? p_rbits p) then -1 else p_rbits p)))
  else if negb (Z.land f 1 =? 0) then
    ((f =? 1) || (f =? 5)) && (p_rbits p =? -1) && (p_ebits p =? -1)
  else
    (f =? 0) && (p_rbits p =? -1) && (p_ebits p =? -1) && (p_lb p =? 0) && (p_ub p =? 0).

Definition perc_ok (k : kind) (c : option perc) : bool :=
  match c with
  | None => true
  | Some pc => per1_ok (match k with KStr => true | _ => false end) (pc_value pc) && per1_ok false (pc_size pc)
  end.

Definition fits (w pos lb ub : Z) : bool :=
  if pos =? 1 then (0 <=? lb) && (ub <? 2 ^ (8 * w))
  else (- 2 ^ (8 * w - 1) <=? lb) && (ub <? 2 ^ (8 * w - 1)).

Definition oerc_ok (k : kind) (p : option perc) (c : option oerc) : bool :=
  match c with
  | None => true
  | Some o =>
      (existsb (Z.eqb (o_width o)) [0; 1; 2; 4; 8; 16]) && ((o_pos o =? 0) || (o_pos o =? 1)) && (-1 <=? o_size o)
      && match k, p with
         | KNativeInt, Some pc | KInt, Some pc =>
             let v := pc_value pc in
             if (p_flags v =? 2) && negb (o_width o =? 0) then fits (o_width o) (o_pos o) (p_lb v) (p_ub v) else true
         | _, _ => true
         end
  end.

Definition kind_of_member (ds : list descr) (m : member) : kind :=
  match nthZ ds (m_type m) with Some d => d_kind d | None => KOther end.

Definition members_ok (ds : list descr) (d : descr) : bool :=
  forallb (fun m =>
    perc_ok (kind_of_member ds m) (m_per m)
    && oerc_ok (kind_of_member ds m) (m_per m) (m_oer m)
    && ((m_tmode m =? 0) || (m_tmode m =? 1) || (m_tmode m =? -1))
    && (0 <=? m_opt m) && (0 <=? m_flags m) && (m_flags m <? 8)
    && ((-1 =? m_tag m) || (0 <=? m_tag m))) (d_elems d).

(* the tag2el map of the type a member refers to, when that type is a CHOICE *)
Definition inner_t2e (ds : list descr) (m : member) : option (list t2e) :=
  match nthZ ds (m_type m) with
  | Some d' => match d_kind d', d_spec d' with
               | KChoice, SChoice t _ _ => Some t
               | _, _ => None
               end
  | None => None
  end.

Definition has_entry (t : list t2e) (tag el : Z) : bool :=
  existsb (fun e => (te_tag e =? tag) && (te_el e =? el)) t.

(* complete: every member with a known tag has its entry; a member without one (untagged CHOICE)
   contributes every entry of the CHOICE's own map.  exact: every entry is one of those. *)
Definition t2e_complete (ds : list descr) (ms : list member) (t : list t2e) : bool :=
  forallb (fun im => let '(i, m) := im in
    if m_tag m =? -1 then
      match inner_t2e ds m with
      | Some it => forallb (fun e' => has_entry t (te_tag e') i) it
      | None => true
      end
    else has_entry t (m_tag m) i) (combine (zseq 0 (length ms)) ms).

Definition t2e_exact (ds : list descr) (ms : list member) (t : list t2e) : bool :=
  forallb (fun e =>
    match nthZ ms (te_el e) with
    | None => false
    | Some m =>
        if m_tag m =? -1 then
          match inner_t2e ds m with
          | Some it => existsb (fun e' => te_tag e' =? te_tag e) it
          | None => false
          end
        else m_tag m =? te_tag e
    end) t.

Definition opt_runs_ok (ms : list member) : bool :=
  (fix go (l : list member) : bool :=
     match l with
     | [] => true
     | m :: r => ((m_opt m =? 0) || (m_opt m =? 1 + match r with m' :: _ => m_opt m' | [] => 0 end)) && go r
     end) ms.

Definition root_end (n fe : Z) : Z := if fe <? 0 then n else fe.

Definition seq_ok (T : table) (d : descr) : bool :=
  match d_spec d with
  | SSeq t oms roms aoms fe =>
      let ms := d_elems d in
      let n := lenZ ms in
      let re := Z.to_nat (root_end n fe) in
      let root_opts := positions is_opt (firstn re ms) 0 in
      let add_opts := positions is_opt (skipn re ms) (Z.of_nat re) in
      ssorted t2e_lt_seq t && toff_ok [] t && t2e_complete (t_descrs T) ms t && t2e_exact (t_descrs T) ms t
      && opt_runs_ok ms
      && (-1 <=? fe) && (fe <=? n)
      && forallb (fun m => is_opt m && has_flag m 1) (skipn re ms)
      && forallb (fun m => negb (is_opt m) || has_flag m 1 || m_default m) ms
      && (if t_per T || t_oer T
          then list_eqb oms (root_opts ++ add_opts) && (roms =? lenZ root_opts) && (aoms =? lenZ add_opts)
          else list_eqb oms [] && (roms =? 0) && (aoms =? 0))
  | _ => false
  end.

Definition mand_bit (mand : list Z) (i : Z) : bool :=
  match nthZ mand (i / 8) with          (* bytes in network order *)
  | Some w => Z.testbit w (7 - i mod 8)
  | None => false
  end.

Definition set_ok (T : table) (d : descr) : bool :=
  match d_spec d with
  | SSet t tc ext mand =>
      let ms := d_elems d in
      ssorted t2e_lt_strict t && toff_ok [] t && t2e_complete (t_descrs T) ms t && t2e_exact (t_descrs T) ms t
      && t2e_exact (t_descrs T) ms tc
      && forallb (fun im => let '(i, m) := im in Bool.eqb (mand_bit mand i) (negb (is_opt m)))
                 (combine (zseq 0 (length ms)) ms)
  | _ => false
  end.

(* two tables are inverse permutations of 0..n-1 *)
Definition inverse_perms (n : Z) (a b : list Z) : bool :=
  (lenZ a =? n) && (lenZ b =? n)
  && forallb (fun x => (0 <=? x) && (x <? n)) a
  && forallb (fun x => (0 <=? x) && (x <? n)) b
  && forallb (fun ix => let '(i, x) := ix in match nthZ b x with Some y => y =? i | None => false end)
             (combine (zseq 0 (length a)) a)
  && forallb (fun ix => let '(i, x) := ix in match nthZ a x with Some y => y =? i | None => false end)
             (combine (zseq 0 (length b)) b).

Definition choice_ok (T : table) (d : descr) : bool :=
  match d_spec d with
  | SChoice t canon es =>
      let ms := d_elems d in
      let n := lenZ ms in
      ssorted t2e_lt_strict t && toff_ok [] t && t2e_complete (t_descrs T) ms t && t2e_exact (t_descrs T) ms t
      && (-1 <=? es) && (es <=? n)
      && forallb (fun m => negb (is_opt m)) ms
      && match canon with
         | Some (a, b) =>
             (* root alternatives and extension additions are ordered separately: both tables keep the split *)
             inverse_perms n a b
             && forallb (fun ix => let '(i, x) := ix in Bool.eqb (i <? root_end n es) (x <? root_end n es))
                        (combine (zseq 0 (length a)) a)
         | None => true     (* the emitter omits the tables when the definition order is already canonical *)
         end
      && match d_per d with
         | Some pc =>
             let v := pc_value pc in
             (* a CHOICE without root alternatives gets 0..0 *)
             (p_lb v =? 0) && (p_ub v =? Z.max 0 (root_end n es - 1)) && Bool.eqb (0 <=? es) (p_flags v =? 6)
         | None => negb (t_per T)
         end
  | _ => false
  end.

Definition of_ok (d : descr) : bool :=
  match d_spec d, d_elems d with
  | SSetOf _, [m] => negb (is_opt m)
  | _, _ => false
  end.

Fixpoint bytes_ltb (a b : list Z) : bool :=
  match a, b with
  | [], [] => false
  | [], _ :: _ => true
  | _ :: _, [] => false
  | x :: a', y :: b' => (x <? y) || ((x =? y) && bytes_ltb a' b')
  end.

(* INTEGER/ENUMERATED maps: value2enum sorted by value, enum2value a permutation that sorts by name
   (both are searched with bsearch in INTEGER.c) *)
Definition int_ok (d : descr) : bool :=
  match d_spec d with
  | SNone => true
  | SInt v2e e2v ext strict width uns =>
      let n := lenZ v2e in
      ssorted (fun a b => fst a <? fst b) v2e
      && (lenZ e2v =? n)
      && forallb (fun x => (0 <=? x) && (x <? n)) e2v
      && ssorted (fun a b => negb (a =? b)) e2v
      && ssorted bytes_ltb (map (fun x => match nthZ v2e x with Some p => snd p | None => [] end) e2v)
      && ((uns =? 0) || (uns =? 1))
  | _ => false
  end.

(* every clause with a code, so that a failing obligation can name what failed *)
Definition wf_clauses (T : table) (d : descr) : list (Z * bool) :=
  let ds := t_descrs T in
  [ (1, d_bad d =? 0);
    (2, types_in_range (lenZ ds) d);
    (3, tags_ok d);
    (4, perc_ok (d_kind d) (d_per d));
    (5, oerc_ok (d_kind d) (d_per d) (d_oer d));
    (6, members_ok ds d);
    (7, match d_kind d with
        | KSeq => seq_ok T d
        | KSet => set_ok T d
        | KChoice => choice_ok T d
        | KSeqOf | KSetOf => of_ok d
        | KNativeInt | KInt | KNativeEnum | KEnum => int_ok d
        | KOther => false
        | _ => true
        end) ].

Definition wf_descr (T : table) (d : descr) : bool := forallb snd (wf_clauses T d).

Definition wf_descr_all (T : table) : bool :=
  forallb (wf_descr T) (t_descrs T)
  && list_eqb (map d_id (t_descrs T)) (zseq 0 (length (t_descrs T))).

(* (descriptor id, clause code) of every failing clause: printed by the generated file when the obligation fails *)
Definition diagnose (T : table) : list (Z * Z) :=
  flat_map (fun d => map (fun c => (d_id d, fst c)) (filter (fun c => negb (snd c)) (wf_clauses T d))) (t_descrs T).

(* ---- what the decoders and the PER preamble do with the tables ---- *)

(* the UPER/OER SEQUENCE decoders scan the root members and take one preamble bit per optional member;
   the encoders walk oms[0..roms) and write one bit per entry *)
Definition decoder_bit_position (ms : list member) (i : nat) : Z := count is_opt (firstn i ms).
