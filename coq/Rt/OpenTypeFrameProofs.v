(* Rt/OpenTypeFrameProofs.v — the name resolution of `{Set}{@ref}` and the selector on a frame of any shape. *)
From Coq Require Import ZArith List Bool Lia.
From A1 Require Import Rt.OpenTypeFrame.
Import ListNotations.
Local Open Scope Z_scope.

Lemma name_eqb_eq a : forall b, name_eqb a b = true <-> a = b.
Proof.
  induction a as [|x a IH]; intros [|y b]; cbn; split; intros H; try reflexivity; try discriminate.
  - apply andb_true_iff in H. destruct H as [H1 H2]. apply Z.eqb_eq in H1. apply IH in H2. subst. reflexivity.
  - inversion H; subst. rewrite Z.eqb_refl. cbn. apply IH. reflexivity.
Qed.

Lemma name_eqb_refl a : name_eqb a a = true.
Proof. apply name_eqb_eq. reflexivity. Qed.

Lemma name_eqb_neq a b : a <> b -> name_eqb a b = false.
Proof.
  intros H. destruct (name_eqb a b) eqn:E; [|reflexivity]. apply name_eqb_eq in E. contradiction.
Qed.

(* what find_name returns is a member whose name EQUALS the reference, and the first such member *)
Theorem find_name_exact : forall ms r i, find_name ms r = Some i ->
  nth_error ms i = Some r /\ (forall j, (j < i)%nat -> nth_error ms j <> Some r).
Proof.
  induction ms as [|m tl IH]; intros r i H; cbn in H; [discriminate|].
  destruct (name_eqb m r) eqn:E.
  - inversion H; subst. apply name_eqb_eq in E. subst. split; [reflexivity|]. intros j Hj. lia.
  - destruct (find_name tl r) as [k|] eqn:F; [|discriminate]. inversion H; subst.
    destruct (IH r k F) as [H1 H2]. split; [exact H1|].
    intros [|j] Hj; cbn.
    + intros Hc. inversion Hc; subst. rewrite name_eqb_refl in E. discriminate.
    + apply H2. lia.
Qed.

Theorem find_name_none : forall ms r, find_name ms r = None <-> ~ In r ms.
Proof.
  induction ms as [|m tl IH]; intros r; cbn.
  - split; [intros _ H; exact H|reflexivity].
  - destruct (name_eqb m r) eqn:E.
    + apply name_eqb_eq in E. subst. split; [discriminate|]. intros H. exfalso. apply H. left. reflexivity.
    + destruct (find_name tl r) as [k|] eqn:F.
      * split; [discriminate|]. intros H. exfalso.
        assert (Hn : find_name tl r <> None) by (rewrite F; discriminate).
        apply Hn. apply IH. intros Hin. apply H. right. exact Hin.
      * split; [|reflexivity]. intros _ [H|H].
        { subst. rewrite name_eqb_refl in E. discriminate. }
        { apply (proj1 (IH r) F). exact H. }
Qed.

(* the position of the reference decides, whatever the other members are called *)
Theorem find_name_position : forall pre post r, ~ In r pre ->
  find_name (pre ++ r :: post) r = Some (length pre).
Proof.
  induction pre as [|m pre IH]; intros post r Hn; cbn.
  - rewrite name_eqb_refl. reflexivity.
  - rewrite name_eqb_neq by (intros Hc; apply Hn; left; exact Hc).
    rewrite IH by (intros Hc; apply Hn; right; exact Hc). reflexivity.
Qed.

Lemma nth_error_split_at {A} : forall (l : list A) i x, nth_error l i = Some x ->
  exists pre post, l = pre ++ x :: post /\ length pre = i.
Proof.
  induction l as [|a l IH]; intros [|i] x H; cbn in H; try discriminate.
  - inversion H; subst. exists [], l. split; reflexivity.
  - destruct (IH i x H) as [pre [post [E L]]]. exists (a :: pre), post. subst. split; reflexivity.
Qed.

(* member names of a SEQUENCE are distinct: the reference resolves to THE member of that name *)
Theorem find_name_nodup : forall ms r i, NoDup ms -> nth_error ms i = Some r -> find_name ms r = Some i.
Proof.
  intros ms r i Hnd Hn. destruct (nth_error_split_at _ _ _ Hn) as [pre [post [E L]]]. subst.
  apply find_name_position. apply NoDup_remove_2 in Hnd. intros Hc. apply Hnd. apply in_or_app. left. exact Hc.
Qed.

(* independent of the other members' names: two member lists with the reference at the same place (and not before it) agree *)
Theorem find_name_independent : forall pre pre' post post' r, ~ In r pre -> ~ In r pre' -> length pre = length pre' ->
  find_name (pre ++ r :: post) r = find_name (pre' ++ r :: post') r.
Proof.
  intros. rewrite !find_name_position by assumption. congruence.
Qed.

Lemma ref_name_at r : (match r with d :: _ => d <> ch_dot | [] => True end) -> ref_name (ch_at :: r) = Some r.
Proof.
  intros H. unfold ref_name. rewrite Z.eqb_refl. destruct r as [|d tl]; [reflexivity|].
  destruct (d =? ch_dot) eqn:E; [apply Z.eqb_eq in E; contradiction|reflexivity].
Qed.

Lemma ref_name_at_dot r : (match r with d :: _ => d <> ch_dot | [] => True end) -> ref_name (ch_at :: ch_dot :: r) = Some r.
Proof.
  intros H. unfold ref_name. rewrite !Z.eqb_refl. destruct r as [|d tl]; [reflexivity|].
  destruct (d =? ch_dot) eqn:E; [apply Z.eqb_eq in E; contradiction|reflexivity].
Qed.

(* the selector of an open type governed by `@r` / `@.r`: the row is the one the table pairs with the value of the
   member NAMED r, in the column of that member's class field - a function of that member alone *)
Theorem select_named_by_name : forall ms rows s r i m,
  ref_name s = Some r -> NoDup (map m_name ms) -> nth_error ms i = Some m -> m_name m = r ->
  select_named ms rows s = select_member m rows.
Proof.
  intros ms rows s r i m Hs Hnd Hn Hr. unfold select_named, resolve_ref. rewrite Hs.
  assert (Hn' : nth_error (map m_name ms) i = Some r) by (rewrite nth_error_map, Hn; cbn; congruence).
  rewrite (find_name_nodup _ _ _ Hnd Hn'). rewrite Hn. reflexivity.
Qed.

(* two frames whose members carry the same names and agree on the NAMED member select the same row, whatever the
   other members hold *)
Theorem select_named_other_members : forall ms ms' rows s r i m,
  ref_name s = Some r -> map m_name ms = map m_name ms' -> NoDup (map m_name ms) ->
  nth_error ms i = Some m -> nth_error ms' i = Some m -> m_name m = r ->
  select_named ms rows s = select_named ms' rows s.
Proof.
  intros ms ms' rows s r i m Hs Hnames Hnd Hn Hn' Hr.
  rewrite (select_named_by_name ms rows s r i m Hs Hnd Hn Hr).
  rewrite Hnames in Hnd.
  rewrite (select_named_by_name ms' rows s r i m Hs Hnd Hn' Hr). reflexivity.
Qed.

Theorem select_named_unresolved : forall ms rows s, resolve_ref (map m_name ms) s = None -> select_named ms rows s = None.
Proof. intros ms rows s H. unfold select_named. rewrite H. reflexivity. Qed.

(* find_row: the first row whose cell in the column equals the value *)
Theorem find_row_sound : forall col v rows i, find_row col v rows = Some i ->
  exists r, nth_error rows i = Some r /\ nth_error r col = Some v /\
            (forall j rj, (j < i)%nat -> nth_error rows j = Some rj -> nth_error rj col <> Some v).
Proof.
  induction rows as [|r tl IH]; intros i H; cbn in H; [discriminate|].
  destruct (nth_error r col) as [c|] eqn:Ec.
  - destruct (c =? v) eqn:E.
    + inversion H; subst. apply Z.eqb_eq in E. subst. exists r. split; [reflexivity|]. split; [exact Ec|]. intros j rj Hj. lia.
    + destruct (find_row col v tl) as [k|] eqn:F; [|discriminate]. inversion H; subst.
      destruct (IH k eq_refl) as [r' [H1 [H2 H3]]]. exists r'. split; [exact H1|]. split; [exact H2|].
      intros [|j] rj Hj Hr; cbn in Hr.
      * inversion Hr; subst. rewrite Ec. intros Hc. inversion Hc; subst. rewrite Z.eqb_refl in E. discriminate.
      * apply (H3 j rj); [lia|exact Hr].
  - destruct (find_row col v tl) as [k|] eqn:F; [|discriminate]. inversion H; subst.
    destruct (IH k eq_refl) as [r' [H1 [H2 H3]]]. exists r'. split; [exact H1|]. split; [exact H2|].
    intros [|j] rj Hj Hr; cbn in Hr.
    * inversion Hr; subst. rewrite Ec. discriminate.
    * apply (H3 j rj); [lia|exact Hr].
Qed.

(* ---- the prefix look-up (seeded change C18-8) is not that ---- *)

Definition nm_identExt : name := [105;100;101;110;116;69;120;116].
Definition nm_ident : name := [105;100;101;110;116].
Definition nm_x : name := [120].

(* { identExt, ident, value ...{@ident} }: `ident` is member 1, the prefix look-up answers member 0 *)
Theorem find_prefix_refuted : exists ms r i,
  NoDup ms /\ nth_error ms i = Some r /\ find_name ms r = Some i /\ find_prefix ms r <> Some i.
Proof.
  exists [nm_identExt; nm_ident], nm_ident, 1%nat. split.
  - constructor; [|constructor; [intros H; exact H|constructor]].
    intros [H|H]; [discriminate|exact H].
  - split; [reflexivity|]. split; [vm_compute; reflexivity|]. vm_compute. discriminate.
Qed.

(* the selected row changes with it: identExt = 2, ident = 1 on the table {1, 2}: row 0 by name, row 1 by prefix *)
Theorem select_named_prefix_refuted : exists ms rows s,
  NoDup (map m_name ms) /\ select_named ms rows s = Some 0%nat /\ select_named_prefix ms rows s = Some 1%nat.
Proof.
  exists [ {| m_name := nm_identExt; m_col := Some 0%nat; m_val := Some 2 |};
           {| m_name := nm_ident; m_col := Some 0%nat; m_val := Some 1 |} ],
         [[1]; [2]], (ch_at :: nm_ident).
  split.
  - cbn. constructor; [|constructor; [intros H; exact H|constructor]].
    intros [H|H]; [discriminate|exact H].
  - split; vm_compute; reflexivity.
Qed.

(* `@ident.x` names no member (the compiler refuses the module); the prefix look-up accepts it *)
Theorem dotted_reference_refuted : exists ms s,
  resolve_ref ms s = None /\ resolve_prefix ms s = Some 0%nat.
Proof.
  exists [nm_ident; nm_x], (ch_at :: nm_ident ++ ch_dot :: nm_x). split; vm_compute; reflexivity.
Qed.
