(* Rt/OpenTypeProofs.v — theorems about Rt/OpenType.v (C18):
   the generated selector returns the row the set pairs with the identifier;
   a frame whose open-type values belong to the selected row round-trips through
   DER / BER; an identifier without a row, or bytes that the selected row's type
   does not decode, make the decoder fail without trying another row; what the
   decoder returns was produced by the selected row's type; where the table the
   compiler emits differs from the set as written (refuted witnesses). *)
From Coq Require Import ZArith List Lia Bool ZifyBool.
From A1 Require Import Base.Bytes Leaf.IntegerConv Leaf.BerTL Leaf.BerTLProofs
  Rt.Types Rt.TypesInd Rt.Comb Rt.Der Rt.DerProofs Rt.OpenType.
Import ListNotations.
Local Open Scope Z_scope.

(* ---------------- identifier comparison ---------------- *)

Lemma bytes_eqb_eq a : forall b, bytes_eqb a b = true <-> a = b.
Proof.
  induction a as [|x a IH]; intros [|y b]; cbn [bytes_eqb]; split; intros H; try discriminate; auto.
  - apply andb_true_iff in H. destruct H as [H1 H2]. apply Z.eqb_eq in H1. apply IH in H2. congruence.
  - injection H as -> ->. rewrite Z.eqb_refl. cbn [andb]. apply IH. reflexivity.
Qed.

Lemma id_eqb_eq a b : id_eqb a b = true -> a = b.
Proof.
  destruct a, b; cbn [id_eqb]; intros H; try discriminate.
  - apply Z.eqb_eq in H. congruence.
  - apply bytes_eqb_eq in H. congruence.
Qed.

(* ---------------- the selector ---------------- *)

Lemma select_from_some v : forall tbl k i tys, select_from v tbl k = Some (i, tys) ->
  exists j r, i = (k + j)%nat /\ nth_error tbl j = Some r /\ id_eqb v (fst r) = true /\ snd r = tys /\
              (forall j' r', (j' < j)%nat -> nth_error tbl j' = Some r' -> id_eqb v (fst r') = false).
Proof.
  induction tbl as [|r tl IH]; intros k i tys H; cbn [select_from] in H; [discriminate|].
  destruct (id_eqb v (fst r)) eqn:E.
  - injection H as <- <-. exists O, r.
    split; [lia|]. split; [reflexivity|]. split; [exact E|]. split; [reflexivity|].
    intros j' r' Hlt. lia.
  - destruct (IH (S k) i tys H) as (j & r0 & Hi & Hn & He & Hs & Hf).
    exists (S j), r0.
    split; [lia|]. split; [exact Hn|]. split; [exact He|]. split; [exact Hs|].
    intros j' r' Hlt Hn'. destruct j' as [|j'']; cbn [nth_error] in Hn'.
    + injection Hn' as <-. exact E.
    + apply (Hf j'' r'); [lia|exact Hn'].
Qed.

Lemma select_from_none v : forall tbl k,
  select_from v tbl k = None <-> (forall r, In r tbl -> id_eqb v (fst r) = false).
Proof.
  induction tbl as [|r tl IH]; intros k; cbn [select_from].
  - split; [intros _ r []|reflexivity].
  - destruct (id_eqb v (fst r)) eqn:E.
    + split; [discriminate|]. intros H. specialize (H r (or_introl eq_refl)). congruence.
    + rewrite IH. split.
      * intros H r' [<-|Hin]; auto.
      * intros H r' Hin. apply H. right. exact Hin.
Qed.

(* what the selector returns is a row of the table whose identifier cell compares
   equal, and the first such row *)
Theorem select_sound tbl v i tys : select tbl v = Some (i, tys) ->
  exists r, nth_error tbl i = Some r /\ id_eqb v (fst r) = true /\ snd r = tys /\
            (forall j' r', (j' < i)%nat -> nth_error tbl j' = Some r' -> id_eqb v (fst r') = false).
Proof.
  unfold select. intros H. destruct (select_from_some v tbl O i tys H) as (j & r & Hi & Hn & He & Hs & Hf).
  cbn in Hi. subst i. exists r. auto.
Qed.

(* pairwise distinct identifier cells (the class field is UNIQUE) *)
Definition ids_distinct (tbl : table) : Prop :=
  forall i j ri rj, nth_error tbl i = Some ri -> nth_error tbl j = Some rj ->
                    id_eqb (fst ri) (fst rj) = true -> i = j.

Theorem select_paired tbl v : ids_distinct tbl ->
  (forall i r, nth_error tbl i = Some r -> id_eqb v (fst r) = true -> select tbl v = Some (i, snd r)) /\
  (select tbl v = None <-> (forall r, In r tbl -> id_eqb v (fst r) = false)).
Proof.
  intros Hd. split.
  - intros i r Hn He. destruct (select tbl v) as [[i' tys]|] eqn:Es.
    + destruct (select_sound tbl v i' tys Es) as (r' & Hn' & He' & Hs' & _).
      assert (i = i').
      { apply (Hd i i' r r' Hn Hn'). rewrite <- (id_eqb_eq _ _ He). exact He'. }
      subst i'. rewrite Hn in Hn'. injection Hn' as <-. rewrite Hs'. reflexivity.
    + exfalso. unfold select in Es. rewrite select_from_none in Es.
      apply nth_error_In in Hn. specialize (Es r Hn). congruence.
  - unfold select. apply select_from_none.
Qed.

(* ---------------- round trip ---------------- *)

(* the open-type members' tags: good tags, or no tag of its own *)
Definition tags_ok (tags : list (option Z)) : bool :=
  forallb (fun t => match t with Some tg => (0 <? tg) && (tg / 4 <? two30) | None => true end) tags.

(* the row's type cells are well-formed types and the values belong to them *)
Fixpoint opens_ok (tys : list ty) (vs : list val) : bool :=
  match tys, vs with
  | _, [] => true
  | t :: tys', v :: vs' => wf_ty t && not_opt t && wt t v && opens_ok tys' vs'
  | [], _ :: _ => false
  end.

Definition with_row (i : nat) (vs : list val) : list oval := map (fun v => (i, v)) vs.

Lemma not_opt_opt_ok t v rest : not_opt t = true -> opt_ok t v rest.
Proof. unfold opt_ok. destruct t; auto. discriminate. Qed.

Lemma seq_tag_good : tag_good seq_tag.
Proof. unfold tag_good, seq_tag, utag, two30. split; [lia|]. vm_compute. reflexivity. Qed.

Lemma dec_open_rt tag t v b rest :
  (match tag with Some tg => tag_good tg | None => True end) ->
  wf_ty t = true -> not_opt t = true -> wt t v = true -> der t v = Some b ->
  zlen (wrap tag b) <= rssize_max ->
  dec_open tag t (wrap tag b ++ rest) = Some (v, rest).
Proof.
  intros Htag Hwf Hno Hwt Hd Hl. destruct tag as [tg|]; cbn [wrap dec_open] in *.
  - pose proof (tlv_length tg true b).
    rewrite in_cons_tlv by (auto; lia).
    pose proof (der_decodes_all t v b [] Hwf Hwt Hd ltac:(lia) (not_opt_opt_ok t v [] Hno)) as Hr.
    rewrite app_nil_r in Hr. rewrite Hr. reflexivity.
  - apply der_decodes_all; auto. apply not_opt_opt_ok. exact Hno.
Qed.

Lemma tags_ok_cons tag tags : tags_ok (tag :: tags) = true ->
  (match tag with Some tg => tag_good tg | None => True end) /\ tags_ok tags = true.
Proof.
  unfold tags_ok. cbn [forallb]. intros H. apply andb_true_iff in H. destruct H as [H1 H2].
  split; [|exact H2]. destruct tag; [apply wf_tag_good; exact H1|exact I].
Qed.

Lemma wrap_length tag b : zlen b <= zlen (wrap tag b).
Proof. destruct tag; cbn [wrap]; [apply tlv_length|lia]. Qed.

Lemma opens_rt tbl i : forall tags tys j vs b rest,
  (forall k, nth_error tys k = nth_error (row_types tbl i) (j + k)) ->
  tags_ok tags = true -> opens_ok tys vs = true ->
  der_opens tbl tags j (with_row i vs) = Some b -> zlen b <= rssize_max ->
  dec_opens tags tys i (b ++ rest) = Some (with_row i vs, rest).
Proof.
  induction tags as [|tag tags IH]; intros tys j vs b rest Hty Htags Hok Hd Hl;
    destruct vs as [|v vs]; cbn [with_row map der_opens] in Hd; try discriminate.
  - injection Hd as <-. reflexivity.
  - cbn [fst snd] in Hd.
    destruct (nth_error (row_types tbl i) j) as [t|] eqn:Et; [|discriminate].
    destruct (der t v) as [bv|] eqn:Ev; [|discriminate].
    destruct (der_opens tbl tags (S j) (map (fun v0 => (i, v0)) vs)) as [br|] eqn:Er; [|discriminate].
    injection Hd as <-.
    assert (Ht0 : nth_error tys O = Some t) by (rewrite Hty; rewrite Nat.add_0_r; exact Et).
    destruct tys as [|t' tys']; [discriminate|]. cbn [nth_error] in Ht0. injection Ht0 as ->.
    cbn [opens_ok] in Hok.
    apply andb_true_iff in Hok. destruct Hok as [Hok Hokr].
    apply andb_true_iff in Hok. destruct Hok as [Hok Hwt].
    apply andb_true_iff in Hok. destruct Hok as [Hwf Hno].
    destruct (tags_ok_cons tag tags Htags) as [Htag Htags'].
    rewrite zlen_app in Hl. pose proof (zlen_nonneg (wrap tag bv)). pose proof (zlen_nonneg br).
    cbn [dec_opens]. rewrite <- app_assoc.
    rewrite (dec_open_rt tag t v bv (br ++ rest) Htag Hwf Hno Hwt Ev ltac:(lia)).
    fold (with_row i vs) in Er.
    rewrite (IH tys' (S j) vs br rest); [reflexivity| |exact Htags'|exact Hokr|exact Er|lia].
    intros k. specialize (Hty (S k)). cbn [nth_error] in Hty. rewrite Hty. f_equal. lia.
Qed.

Lemma der_opens_nil tbl j ovs b : der_opens tbl [] j ovs = Some b -> ovs = [] /\ b = [].
Proof. destruct ovs; cbn [der_opens]; intros H; [injection H as <-; auto|discriminate]. Qed.

(* decoding the DER of a frame whose open-type values belong to the row the
   identifier selects returns the identifier, the row, the same values, and
   exactly the bytes that followed *)
Theorem opentype_roundtrip f idv i tys vs bs rest :
  wf_ty (f_idt f) = true -> not_opt (f_idt f) = true -> wt (f_idt f) idv = true ->
  tags_ok (f_opens f) = true ->
  select (f_tbl f) idv = Some (i, tys) -> opens_ok tys vs = true ->
  der_frame f (idv, with_row i vs) = Some bs -> zlen bs <= rssize_max ->
  ber_dec_frame f (bs ++ rest) = Some ((idv, with_row i vs), rest).
Proof.
  intros Hwf Hno Hwt Htags Hsel Hok Hd Hl. unfold der_frame in Hd. cbn [fst snd] in Hd.
  destruct (der (f_idt f) idv) as [a|] eqn:Ea; [|discriminate].
  destruct (der_opens (f_tbl f) (f_opens f) 0 (with_row i vs)) as [b|] eqn:Eb; [|discriminate].
  injection Hd as <-. unfold ber_dec_frame.
  pose proof (tlv_length seq_tag true (a ++ b)) as Hlen. rewrite zlen_app in Hlen.
  pose proof (zlen_nonneg a). pose proof (zlen_nonneg b).
  rewrite in_cons_tlv by (try apply seq_tag_good; rewrite ?zlen_app; lia).
  unfold dec_frame_body.
  rewrite (der_decodes_all (f_idt f) idv a b Hwf Hwt Ea ltac:(lia) (not_opt_opt_ok _ _ _ Hno)).
  destruct (select_sound _ _ _ _ Hsel) as (r & Hn & _ & Hs & _).
  assert (Hrow : row_types (f_tbl f) i = tys) by (unfold row_types; rewrite Hn; exact Hs).
  destruct (f_opens f) as [|tag tags] eqn:Eo.
  - destruct (der_opens_nil _ _ _ _ Eb) as [Hv ->]. rewrite Hv. reflexivity.
  - rewrite Hsel.
    pose proof (opens_rt (f_tbl f) i (tag :: tags) tys O vs b []) as Hr.
    rewrite app_nil_r in Hr. rewrite Hr; [reflexivity| |exact Htags|exact Hok|exact Eb|lia].
    intros k. rewrite Hrow. reflexivity.
Qed.

(* ---------------- mismatches ---------------- *)

(* an identifier that no row has: the frame is rejected whatever follows *)
Theorem opentype_unknown_id_fails f c idv r :
  f_opens f <> [] -> ber_dec (f_idt f) c = Some (idv, r) -> select (f_tbl f) idv = None ->
  dec_frame_body f c = None.
Proof.
  intros Hne Hid Hsel. unfold dec_frame_body. rewrite Hid, Hsel.
  destruct (f_opens f); [congruence|reflexivity].
Qed.

(* bytes that the selected row's type does not decode: rejected; no other row is tried *)
Theorem opentype_mismatch_fails f c idv r i t tys tag tags :
  f_opens f = tag :: tags -> ber_dec (f_idt f) c = Some (idv, r) ->
  select (f_tbl f) idv = Some (i, t :: tys) -> dec_open tag t r = None ->
  dec_frame_body f c = None.
Proof.
  intros Ho Hid Hsel Hbad. unfold dec_frame_body. rewrite Hid, Ho, Hsel.
  cbn [dec_opens]. rewrite Hbad. reflexivity.
Qed.

Lemma in_cons_inv {A} tg bs (k : list Z -> option (A * list Z)) a rest :
  in_cons tg bs k = Some (a, rest) -> exists c r, k c = Some (a, r).
Proof.
  unfold in_cons. destruct (tlv_open bs) as [[[[tg' cons] len] rem]|]; [|discriminate].
  destruct cons; [|discriminate]. destruct (tg' =? tg); [|discriminate].
  destruct (len =? -1).
  - destruct (k rem) as [[a' [|b1 [|b2 r']]]|] eqn:E; try discriminate.
    destruct ((b1 =? 0) && (b2 =? 0)); [|discriminate]. intros H. injection H as <- <-. eauto.
  - destruct (len <=? zlen rem); [|discriminate].
    destruct (k (firstn (Z.to_nat len) rem)) as [[a' [|x y]]|] eqn:E; try discriminate.
    intros H. injection H as <- <-. eauto.
Qed.

Lemma dec_opens_rows : forall tags tys i bs ovs r,
  dec_opens tags tys i bs = Some (ovs, r) ->
  length ovs = length tags /\ Forall (fun ov => fst ov = i) ovs.
Proof.
  induction tags as [|tag tags IH]; intros tys i bs ovs r H; cbn [dec_opens] in H.
  - injection H as <- <-. split; [reflexivity|constructor].
  - destruct tys as [|t tys']; [discriminate|].
    destruct (dec_open tag t bs) as [[v r1]|]; [|discriminate].
    destruct (dec_opens tags tys' i r1) as [[ovs' r2]|] eqn:E; [|discriminate].
    injection H as <- <-. destruct (IH _ _ _ _ _ E) as [Hl Hf].
    split; [cbn [length]; congruence|constructor; [reflexivity|exact Hf]].
Qed.

(* whatever the decoder accepts: the identifier has a row, every open-type member
   carries that row's presence index, and the first open-type value is what that
   row's type cell — and no other — decodes from the bytes after the identifier *)
Theorem opentype_decodes_paired f bs idv ovs rest :
  f_opens f <> [] -> ber_dec_frame f bs = Some ((idv, ovs), rest) ->
  exists i tys c r, select (f_tbl f) idv = Some (i, tys) /\
    ber_dec (f_idt f) c = Some (idv, r) /\
    length ovs = length (f_opens f) /\ Forall (fun ov => fst ov = i) ovs /\
    (forall tag tags, f_opens f = tag :: tags ->
       exists t tys' v ovs' r', tys = t :: tys' /\ ovs = (i, v) :: ovs' /\ dec_open tag t r = Some (v, r')).
Proof.
  intros Hne H. unfold ber_dec_frame in H. apply in_cons_inv in H. destruct H as (c & r0 & H).
  unfold dec_frame_body in H.
  destruct (ber_dec (f_idt f) c) as [[idv' r]|] eqn:Eid; [|discriminate].
  destruct (f_opens f) as [|tag tags] eqn:Eo; [congruence|].
  destruct (select (f_tbl f) idv') as [[i tys]|] eqn:Es; [|discriminate].
  destruct (dec_opens (tag :: tags) tys i r) as [[ovs' r']|] eqn:Ed; [|discriminate].
  injection H as -> -> ->.
  exists i, tys, c, r. split; [exact Es|]. split; [exact Eid|].
  destruct (dec_opens_rows _ _ _ _ _ _ Ed) as [Hl Hf]. split; [exact Hl|]. split; [exact Hf|].
  intros tag0 tags0 E. injection E as <- <-. cbn [dec_opens] in Ed.
  destruct tys as [|t tys']; [discriminate|].
  destruct (dec_open tag t r) as [[v r1]|] eqn:E1; [|discriminate].
  destruct (dec_opens tags tys' i r1) as [[ovs'' r2]|]; [|discriminate].
  injection Ed as <- <-. exists t, tys', v, ovs'', r1. auto.
Qed.

(* ---------------- the table the compiler emits ---------------- *)

Lemma compile_groups_id s : Forall (fun g => length g <> 1%nat) s -> concat (map compile_group s) = concat s.
Proof.
  induction 1 as [|g s Hg Hs IH]; [reflexivity|]. cbn [map concat]. rewrite IH. f_equal.
  destruct g as [|x [|y g']]; cbn [compile_group]; auto. cbn in Hg. congruence.
Qed.

Lemma compile_cells_int (l : list row) : Forall (fun r => exists z, fst r = VInt z) l ->
  map (fun r => (compile_cell (fst r), snd r)) l = l.
Proof.
  induction l as [|r l IH]; intros H; [reflexivity|]. inversion H as [|r0 l0 (z & Hz) Hl]; subst.
  cbn [map]. rewrite (IH Hl). f_equal. destruct r as [k tys]. cbn [fst snd] in *. subst k. reflexivity.
Qed.

(* with INTEGER identifiers and no element set made of one object alone, the
   emitted table is the set as written *)
Theorem compile_table_partial s :
  Forall (fun g => length g <> 1%nat) s -> Forall (fun r => exists z, fst r = VInt z) (concat s) ->
  compile_table s = spec_table s.
Proof.
  intros Hg Hi. unfold compile_table, spec_table. rewrite (compile_groups_id s Hg).
  apply compile_cells_int. exact Hi.
Qed.

Theorem oid_identifier_refuted :
  exists s v, select (spec_table s) v <> None /\ select (compile_table s) v = None.
Proof.
  exists [[(VOct [42; 3], [TNull 20]); (VOct [85; 4; 3], [TBool 4])]], (VOct [42; 3]).
  split; vm_compute; [discriminate|reflexivity].
Qed.

Theorem oid_empty_selects_refuted :
  exists s, select (spec_table s) (VOct []) = None /\ select (compile_table s) (VOct []) <> None.
Proof.
  exists [[(VOct [42; 3], [TNull 20]); (VOct [85; 4; 3], [TBool 4])]].
  split; vm_compute; [reflexivity|discriminate].
Qed.

Theorem lone_object_refuted :
  exists s v, select (spec_table s) v <> None /\ select (compile_table s) v = None.
Proof.
  exists [[(VInt 1, [TNull 20])]], (VInt 1). split; vm_compute; [discriminate|reflexivity].
Qed.

(* ---------------- non-vacuity ---------------- *)

Definition ex_frame : frame :=
  Frame (TInt 2 (ICon None None false)) [Some 6; Some 10]
        [(VInt 1, [TInt 8 (ICon None None false); TBool 4]);
         (VInt 2, [TBool 4; TOct 16 (SCon 0 None false)]);
         (VInt (-7), [TSeq 64 [TInt 8 (ICon None None false); TOpt (TBool 4)]; TNull 20])].

Example ids_distinct_example : ids_distinct (f_tbl ex_frame).
Proof.
  intros i j ri rj Hi Hj He.
  destruct i as [|[|[|i]]]; destruct j as [|[|[|j]]]; cbn in Hi, Hj;
    try (destruct i; discriminate); try (destruct j; discriminate);
    try reflexivity; injection Hi as <-; injection Hj as <-; vm_compute in He; discriminate.
Qed.

Example roundtrip_example :
  let vs := [VSeq [VInt 300; VSome (VBool true)]; VNull] in
  select (f_tbl ex_frame) (VInt (-7)) = Some (2%nat, row_types (f_tbl ex_frame) 2) /\
  tags_ok (f_opens ex_frame) = true /\
  opens_ok (row_types (f_tbl ex_frame) 2) vs = true /\
  der_frame ex_frame (VInt (-7), with_row 2 vs)
    = Some [48; 18; 128; 1; 249; 161; 9; 48; 7; 2; 2; 1; 44; 1; 1; 255; 162; 2; 5; 0] /\
  ber_dec_frame ex_frame [48; 18; 128; 1; 249; 161; 9; 48; 7; 2; 2; 1; 44; 1; 1; 255; 162; 2; 5; 0]
    = Some ((VInt (-7), with_row 2 vs), []).
Proof. vm_compute. repeat split; reflexivity. Qed.

(* identifier 2 (BOOLEAN, OCTET STRING) with the bytes of row 1 (INTEGER 5, TRUE):
   rejected although the bytes are a perfect value of another row *)
Example mismatch_example :
  ber_dec_frame ex_frame [48; 13; 128; 1; 1; 161; 3; 2; 1; 5; 162; 3; 1; 1; 255]
    = Some ((VInt 1, [(O, VInt 5); (O, VBool true)]), []) /\
  ber_dec_frame ex_frame [48; 13; 128; 1; 2; 161; 3; 2; 1; 5; 162; 3; 1; 1; 255] = None /\
  ber_dec_frame ex_frame [48; 13; 128; 1; 3; 161; 3; 2; 1; 5; 162; 3; 1; 1; 255] = None /\
  select (f_tbl ex_frame) (VInt 3) = None.
Proof. vm_compute. repeat split; reflexivity. Qed.

(* an open-type member without a tag of its own: the DER is the identifier followed
   by the inner type's own TLV, and it is read back *)
Example untagged_open_type_example :
  let f := Frame (TInt 8 (ICon None None false)) [None] [(VInt 1, [TBool 4]); (VInt 2, [TNull 20])] in
  let fv := (VInt 1, [(O, VBool true)]) in
  tags_ok (f_opens f) = true /\
  der_frame f fv = Some [48; 6; 2; 1; 1; 1; 1; 255] /\
  ber_dec_frame f [48; 6; 2; 1; 1; 1; 1; 255] = Some (fv, []) /\
  ber_dec_frame f [48; 6; 2; 1; 2; 1; 1; 255] = None.
Proof. vm_compute. repeat split; reflexivity. Qed.
