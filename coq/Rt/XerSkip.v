(* XerSkip.v — C03, COMPLETENESS side of "unknown extension additions are skipped" in XER (round c03w).

   The step function of the skipper is the model of xer_skip_unknown() that C04 uses for safety
   (Rt/SafetySkip.v: [xct], [xer_skip]; imported, unchanged).  New here:
   - XML forests as an inductive type with ARBITRARY element names ([xtree]) and their token lists ([flat]);
   - [classify]: xer_check_tag() against the XML tag N of the element BEING DECODED (a tag inside the skipped
     subtree that happens to carry that name is XCT_OPENING / XCT_CLOSING / XCT_BOTH, every other one XCT_UNKNOWN_OP, _CL, _BO);
   - [skip_run]: phase 3 of SEQUENCE/SET/CHOICE_decode_xer - text and comments are passed over, every tag goes
     through xer_skip_unknown, 0 = advance and go on, 1 = advance and stop, 2 = stop in front of the tag (the callers
     still have that case; xer_skip_unknown itself no longer gives the answer: fix 01 of notes/fixes/I - only the
     seeded variant does);
   - [ext_run]: phases 1 and 3 of SEQUENCE_decode_xer / SET_decode_xer for a reader that has no (further) known member
     to expect: the whole extensions section up to the closing tag of the element being decoded;
   - [xer_skip_seed]: the name-sensitive variant of seeded/C03-9 (a closing tag named N ends the skip at once).
   No proofs in this file (Rt/XerSkipProofs.v). *)
From Coq Require Import ZArith List Bool.
From A1 Require Import Rt.SafetySkip.
Import ListNotations.
Local Open Scope Z_scope.

(* an XML forest: <n/>, character data or a comment, <n> kids </n>; names are arbitrary (numbers) *)
Inductive xtree := XEmpty (n : Z) | XText | XNode (n : Z) (kids : list xtree).

Inductive xtok := TOpen (n : Z) | TClose (n : Z) | TBoth (n : Z) | TText.

Definition flat_all (f : xtree -> list xtok) := fix go (l : list xtree) : list xtok :=
  match l with [] => [] | t :: tl => f t ++ go tl end.

Fixpoint flat (t : xtree) : list xtok :=
  match t with
  | XEmpty n => [TBoth n]
  | XText => [TText]
  | XNode n kids => TOpen n :: flat_all flat kids ++ [TClose n]
  end.

Definition flatf (f : list xtree) : list xtok := flat_all flat f.

Definition is_tag (t : xtok) : bool := match t with TText => false | _ => true end.
Definition ntags (l : list xtok) : nat := length (filter is_tag l).

(* xer_check_tag(chunk, N): None = not a tag (PXER_TEXT / PXER_COMMENT never reach the skipper) *)
Definition classify (N : Z) (t : xtok) : option xct :=
  match t with
  | TOpen n => Some (if n =? N then XOpening else XUnkOpening)
  | TClose n => Some (if n =? N then XClosing else XUnkClosing)
  | TBoth n => Some (if n =? N then XBoth else XUnkBoth)
  | TText => None
  end.

(* phase 3; result: (value of the last xer_skip_unknown call - 0 when the input ran out -, depth, tags looked at, tokens consumed) *)
Fixpoint skip_run_g (sk : xct -> Z -> Z * Z) (N : Z) (toks : list xtok) (depth : Z) (nt nk : nat) : Z * Z * nat * nat :=
  match toks with
  | [] => (0, depth, nt, nk)
  | t :: tl =>
      match classify N t with
      | None => skip_run_g sk N tl depth nt (S nk)
      | Some c =>
          let '(r, d) := sk c depth in
          if r =? 0 then skip_run_g sk N tl d (S nt) (S nk)
          else (r, d, S nt, if r =? 1 then S nk else nk)
      end
  end.

Definition skip_run := skip_run_g xer_skip.

(* seeded/C03-9: "the closing tag of the type being decoded ends the extensions section, whatever was left open" *)
Definition xer_skip_seed (t : xct) (depth : Z) : Z * Z :=
  match t with XClosing => (2, 0) | _ => xer_skip t depth end.

Definition skip_run_seed := skip_run_g xer_skip_seed.

(* phases 1 and 3 of SEQUENCE_decode_xer / SET_decode_xer once only extensions may follow.
   [known n] = the tag names a member the reader would decode (then the model stops: XKnown). *)
Inductive xphase := Ph1 | Ph3 (d : Z).
Inductive xres := XDone (nk : nat) | XFailed | XMore | XKnown (nk : nat).

Fixpoint ext_run_g (sk : xct -> Z -> Z * Z) (N : Z) (known : Z -> bool) (toks : list xtok) (ph : xphase) (nk : nat) : xres :=
  match toks with
  | [] => XMore
  | t :: tl =>
      match classify N t with
      | None => ext_run_g sk N known tl ph (S nk)
      | Some c =>
          match ph with
          | Ph3 d =>
              let '(r, d') := sk c d in
              if r =? 0 then ext_run_g sk N known tl (Ph3 d') (S nk)
              else if r =? 1 then ext_run_g sk N known tl Ph1 (S nk)
              else if r =? 2 then
                (* the callers' `case 2` (never taken with [xer_skip]; the seeded variant takes it):
                   phase := 1, the tag is looked at again: XCT_CLOSING ends the element *)
                match c with XClosing => XDone (S nk) | _ => XFailed end
              else XFailed
          | Ph1 =>
              match t with
              | TClose n => if n =? N then XDone (S nk) else XFailed
              | TBoth n => if known n then XKnown nk else ext_run_g sk N known tl Ph1 (S nk)
              | TOpen n => if known n then XKnown nk else ext_run_g sk N known tl (Ph3 1) (S nk)
              | TText => XFailed
              end
          end
      end
  end.

Definition ext_run := ext_run_g xer_skip.

Definition root_name (t : xtree) : option Z := match t with XEmpty n => Some n | XNode n _ => Some n | XText => None end.
Definition root_unknown (known : Z -> bool) (t : xtree) : bool :=
  match root_name t with Some n => negb (known n) | None => true end.

(* front end of the extracted model: token strings *)
Definition skip_run_c (N : Z) (toks : list xtok) : Z * Z * nat * nat := skip_run N toks 1 0%nat 0%nat.
Definition ext_run_c (N : Z) (toks : list xtok) : xres := ext_run N (fun _ => false) toks Ph1 0%nat.
