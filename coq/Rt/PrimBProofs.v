(* Rt/PrimBProofs.v — round trips of the restricted character strings (Rt/PrimB.v).
   Unaligned PER: the leaf codec (uper_leaf / uper_leaf_dec, both readings) and the three
   container shapes (pb_uper / pb_uper_dec); DER / BER and OER by instantiation of the
   theorems of the base algebra (DerProofs, OerProofs) at the translated type.
   [wf_leaf] is the condition on a string type under which the PER reader inverts the
   PER writer; a NumericString without any constraint violates it in the C's reading
   (uper_leaf_numeric_plain_refuted). *)
From Coq Require Import ZArith List Lia Bool ZifyBool.
From A1 Require Import Base.Bytes Leaf.IntegerConv Leaf.BerTL Rt.Types Rt.Comb Rt.Der Rt.Uper Rt.Oer
  Rt.Alphabet Rt.AlphabetProofs Rt.UperBits Rt.UperCounted Rt.UperProofs Rt.DerProofs Rt.OerProofs
  Rt.PrimB.
Import ListNotations.
Local Open Scope Z_scope.

(* ------------------------------------------------------------------ (a) octets and characters *)

Lemma pow256_pow2 n : 256 ^ Z.of_nat n = 2 ^ Z.of_nat (8 * n).
Proof.
  rewrite Nat2Z.inj_mul. change (Z.of_nat 8) with 8. change 256 with (2 ^ 8).
  rewrite <- Z.pow_mul_r by lia. reflexivity.
Qed.

(* be_bytes looks only at the low digits *)
Lemma be_bytes_add_mul n : forall k x c, (n <= k)%nat ->
  be_bytes n (x + c * 256 ^ Z.of_nat k) = be_bytes n x.
Proof.
  induction n as [|n IH]; intros k x c Hk; [reflexivity|].
  cbn [be_bytes]. rewrite IH by lia. f_equal.
  replace (Z.of_nat k) with (Z.of_nat (k - n - 1) + 1 + Z.of_nat n) by lia.
  rewrite !Z.pow_add_r by lia. rewrite !Z.mul_assoc.
  rewrite Z.div_add by (pose proof (pow256_pos n); lia).
  change (256 ^ 1) with 256.
  rewrite Z.mod_add by lia. reflexivity.
Qed.

Lemma be_bytes_be_val bs : bytes_ok bs -> be_bytes (length bs) (be_val bs) = bs.
Proof.
  induction 1 as [|b tl Hb Htl IH]; [reflexivity|].
  cbn [length be_bytes be_val]. unfold zlen.
  pose proof (be_val_bound tl Htl) as Hv. unfold zlen in Hv. unfold byte_ok in Hb.
  pose proof (pow256_pos (length tl)) as HP.
  f_equal.
  - rewrite Z.add_comm, Z.div_add by lia. rewrite Z.div_small by lia.
    rewrite Z.add_0_l. apply Z.mod_small. exact Hb.
  - rewrite Z.add_comm, be_bytes_add_mul by lia. exact IH.
Qed.

Lemma chunk2_spec : forall n bs cs, (length bs <= n)%nat -> chunk2 bs = Some cs ->
  concat cs = bs /\ Forall (fun c => length c = 2%nat) cs.
Proof.
  induction n as [|n IH]; intros bs cs Hn H.
  - destruct bs; [|cbn in Hn; lia]. injection H as <-. split; constructor.
  - destruct bs as [|a [|b r]]; cbn [chunk2] in H; try discriminate.
    + injection H as <-. split; constructor.
    + destruct (chunk2 r) as [x|] eqn:E; [|discriminate]. injection H as <-.
      cbn [length] in Hn. destruct (IH r x ltac:(lia) E) as [H1 H2].
      split; [cbn [concat app]; rewrite H1; reflexivity|constructor; [reflexivity|exact H2]].
Qed.

Lemma chunk4_spec : forall n bs cs, (length bs <= n)%nat -> chunk4 bs = Some cs ->
  concat cs = bs /\ Forall (fun c => length c = 4%nat) cs.
Proof.
  induction n as [|n IH]; intros bs cs Hn H.
  - destruct bs; [|cbn in Hn; lia]. injection H as <-. split; constructor.
  - destruct bs as [|a [|b [|c [|d r]]]]; cbn [chunk4] in H; try discriminate.
    + injection H as <-. split; constructor.
    + destruct (chunk4 r) as [x|] eqn:E; [|discriminate]. injection H as <-.
      cbn [length] in Hn. destruct (IH r x ltac:(lia) E) as [H1 H2].
      split; [cbn [concat app]; rewrite H1; reflexivity|constructor; [reflexivity|exact H2]].
Qed.

Lemma chunk1_spec (bs : list Z) :
  concat (map (fun b => [b]) bs) = bs /\ Forall (fun c => length c = 1%nat) (map (fun b => [b]) bs).
Proof.
  induction bs as [|b tl [IH1 IH2]]; [split; constructor|].
  cbn [map concat app]. rewrite IH1. split; [reflexivity|constructor; [reflexivity|exact IH2]].
Qed.

(* the characters of a value: their octets are the value, each has bpc octets *)
Lemma chunks_spec k bs cs : chunks k bs = Some cs ->
  concat cs = bs /\ Forall (fun c => length c = bpc k) cs.
Proof.
  intros H. destruct k; cbn [chunks bpc] in *;
    try (injection H as <-; apply chunk1_spec).
  - eapply chunk2_spec; [apply Nat.le_refl|exact H].
  - eapply chunk4_spec; [apply Nat.le_refl|exact H].
Qed.

Lemma concat_bytes_ok (cs : list (list Z)) : bytes_ok (concat cs) -> Forall bytes_ok cs.
Proof.
  induction cs as [|c tl IH]; cbn [concat]; intros H; [constructor|].
  unfold bytes_ok in *. apply Forall_app in H. destruct H as [H1 H2].
  constructor; [exact H1|apply IH; exact H2].
Qed.

Lemma chunks_bytes_ok k bs cs : chunks k bs = Some cs -> bytes_ok bs -> Forall bytes_ok cs.
Proof.
  intros H Hb. destruct (chunks_spec k bs cs H) as [Hc _]. rewrite <- Hc in Hb.
  apply concat_bytes_ok. exact Hb.
Qed.

(* ------------------------------------------------------------------ (a) value2code / code2value *)

Lemma pb_card_nonneg : forall a lo, wf_from lo a -> 0 <= card a.
Proof.
  induction a as [|r tl IH]; intros lo H; cbn [card]; [lia|].
  cbn [wf_from] in H. destruct H as (H1 & H2 & H3). specialize (IH _ H3). lia.
Qed.

Lemma pb_card_pos a : wf_alpha a -> 1 <= card a.
Proof.
  intros [Hne H]. destruct a as [|r tl]; [congruence|]. cbn [card wf_from] in *.
  destruct H as (H1 & H2 & H3). pose proof (pb_card_nonneg _ _ H3). lia.
Qed.

Lemma idx_of_val_of : forall a lo v i, wf_from lo a -> idx_of a v = Some i ->
  val_of a i = Some v /\ 0 <= i < card a.
Proof.
  induction a as [|r tl IH]; intros lo v i Hwf H; cbn [idx_of] in H; [discriminate|].
  cbn [wf_from] in Hwf. destruct Hwf as (H1 & H2 & H3).
  pose proof (pb_card_nonneg _ _ H3) as Hc. cbn [val_of card].
  destruct ((fst r <=? v) && (v <=? snd r)) eqn:Ein.
  - injection H as <-.
    destruct (v - fst r <? 0) eqn:E0; [lia|].
    destruct (v - fst r <? snd r - fst r + 1) eqn:E1; [|lia].
    split; [f_equal; lia|lia].
  - destruct (idx_of tl v) as [j|] eqn:Ej; [|discriminate]. injection H as <-.
    destruct (IH _ v j H3 Ej) as [Hv Hj].
    destruct (snd r - fst r + 1 + j <? 0) eqn:E0; [lia|].
    destruct (snd r - fst r + 1 + j <? snd r - fst r + 1) eqn:E1; [lia|].
    replace (snd r - fst r + 1 + j - (snd r - fst r + 1)) with j by lia.
    split; [exact Hv|lia].
Qed.

(* ------------------------------------------------------------------ (b) well-formed string types *)

(* one (constraint, width) pair of the writer: the reader inverts it when the value goes out as it
   is, or through a (canonical) character map into at most 16 bits that hold every index, or as the
   offset from the lower bound in bits that hold every offset *)
Definition pair_ok (cub w : nat) (p : pcv) : bool :=
  match p with
  | Pcv _ lb ub pmap =>
      as_is w ub ||
      match pmap with
      | Some a => wf_alphab a && (w <=? 16)%nat && (card a <=? 2 ^ Z.of_nat w)
      | None => ((lb =? 0) && (w =? cub)%nat) || (ub - lb <? 2 ^ Z.of_nat w)
      end
  end.

(* the writer uses the extension pair only for a size outside the root of an extensible SIZE, and
   the C only when the root has a constrained length field *)
Definition ext_used (std : bool) (l : strty) : bool :=
  match size_con l with
  | SCon _ hi ext => ext && (std || match hi with Some h => h <? 65536 | None => false end)
  end.

Definition wf_leaf (std : bool) (l : strty) : bool :=
  negb (known_mult (s_k l)) ||
  (pair_ok (cub_of (s_k l)) (w_root std l) (pc_root std l) &&
   (negb (ext_used std l) || pair_ok (cub_of (s_k l)) (w_ext std l) (pc_ext std l))).

(* the known defect: NumericString without constraints, (32..57) in 4 bits, no map *)
Theorem uper_leaf_numeric_plain_refuted : exists l bs bits,
  wf_leaf false l = false /\ uper_leaf false l bs = Some bits /\ bytes_ok bs /\
  uper_leaf_dec false l bits <> Some (bs, []).
Proof.
  exists (Str 72 KNumeric None None), [53], [false; false; false; false; false; false; false; true;
                                           false; true; false; true].
  split; [vm_compute; reflexivity|]. split; [vm_compute; reflexivity|].
  split; [repeat constructor; unfold byte_ok; lia|]. vm_compute. discriminate.
Qed.

(* ------------------------------------------------------------------ (c) one character *)

Lemma put_get_char cub w p v b r :
  pair_ok cub w p = true -> 0 <= v < 2 ^ Z.of_nat cub ->
  put_char cub w p v = Some b -> get_char cub w p (b ++ r) = Some (v, r).
Proof.
  intros Hok Hv Hp. destruct p as [rb lb ub pm]. unfold put_char in Hp. unfold get_char.
  unfold pair_ok in Hok.
  destruct (as_is w ub) eqn:Ea.
  - unfold as_is in Ea. apply andb_true_iff in Ea. destruct Ea as [Ew0 Eub].
    destruct (w =? cub)%nat eqn:Ew.
    + apply Nat.eqb_eq in Ew. subst cub. injection Hp as <-.
      rewrite get_bits_nbits by exact Hv. reflexivity.
    + destruct ((0 <=? v) && (v <=? ub)) eqn:Ein; [|discriminate]. injection Hp as <-.
      rewrite get_bits_nbits by lia.
      destruct (v <=? ub) eqn:E; [reflexivity|lia].
  - cbn [orb] in Hok. destruct pm as [a|].
    + apply andb_true_iff in Hok. destruct Hok as [Hok Hcard].
      apply andb_true_iff in Hok. destruct Hok as [Hwf Hw16].
      apply wf_alphab_spec in Hwf. destruct Hwf as [_ Hwf].
      destruct (v <? 256); [|discriminate].
      destruct (idx_of a v) as [code|] eqn:Ei; [|discriminate]. injection Hp as <-.
      destruct (idx_of_val_of a 0 v code Hwf Ei) as [Hval Hcode].
      destruct (16 <? w)%nat eqn:E16.
      { apply Nat.ltb_lt in E16. apply Nat.leb_le in Hw16. lia. }
      rewrite get_bits_nbits by lia. rewrite Hval. reflexivity.
    + destruct ((lb =? 0) && (w =? cub)%nat) eqn:E0.
      * apply andb_true_iff in E0. destruct E0 as [_ Ew]. apply Nat.eqb_eq in Ew. subst cub.
        injection Hp as <-. rewrite get_bits_nbits by exact Hv. reflexivity.
      * cbn [orb] in Hok.
        destruct ((0 <=? v - lb) && (v - lb <=? ub - lb)) eqn:Ein; [|discriminate].
        injection Hp as <-. rewrite get_bits_nbits by lia.
        destruct (v - lb + lb <=? ub) eqn:E; [|lia].
        replace (v - lb + lb) with v by lia. reflexivity.
Qed.

Section Leaf.
  Variable std : bool.
  Variable l : strty.

  Let cub := cub_of (s_k l).
  Let wsel (ext : bool) : nat := if ext then w_ext std l else w_root std l.
  Let psel (ext : bool) : pcv := if ext then pc_ext std l else pc_root std l.

  Lemma chunk_inv ext c b :
    pair_ok cub (wsel ext) (psel ext) = true -> bytes_ok c -> length c = bpc (s_k l) ->
    put_char cub (wsel ext) (psel ext) (be_val c) = Some b ->
    inv (get_chunk std l ext) c b.
  Proof.
    intros Hok Hc Hl Hp r. unfold get_chunk. fold cub. fold (wsel ext). fold (psel ext).
    assert (Hv : 0 <= be_val c < 2 ^ Z.of_nat cub).
    { pose proof (be_val_bound c Hc) as Hb. unfold zlen in Hb. rewrite Hl, pow256_pow2 in Hb.
      exact Hb. }
    rewrite (put_get_char cub (wsel ext) (psel ext) (be_val c) b r Hok Hv Hp).
    rewrite <- Hl. rewrite be_bytes_be_val by exact Hc. reflexivity.
  Qed.

  Lemma put_chars_inv ext : pair_ok cub (wsel ext) (psel ext) = true -> forall cs items,
    Forall bytes_ok cs -> Forall (fun c => length c = bpc (s_k l)) cs ->
    put_chars std l ext cs = Some items -> Forall2 (inv (get_chunk std l ext)) cs items.
  Proof.
    intros Hok. unfold put_chars. fold cub. fold (wsel ext). fold (psel ext).
    induction cs as [|c tl IH]; intros items Hb Hl H.
    - cbn in H. injection H as <-. constructor.
    - cbn [map option_all] in H.
      destruct (put_char cub (wsel ext) (psel ext) (be_val c)) as [b|] eqn:Eb; [|discriminate].
      destruct (option_all (map (fun c0 => put_char cub (wsel ext) (psel ext) (be_val c0)) tl))
        as [its|] eqn:Eo; [|discriminate].
      injection H as <-. inversion Hb as [|? ? Hb1 Hb2]. inversion Hl as [|? ? Hl1 Hl2]. subst.
      constructor; [apply chunk_inv; assumption|apply IH; [assumption|assumption|reflexivity]].
  Qed.

  Hypothesis Hroot : pair_ok cub (w_root std l) (pc_root std l) = true.
  Hypothesis Hext : ext_used std l = true -> pair_ok cub (w_ext std l) (pc_ext std l) = true.

  Lemma uper_km_rt cs bits rest :
    Forall bytes_ok cs -> Forall (fun c => length c = bpc (s_k l)) cs ->
    uper_km std l cs = Some bits -> uper_km_dec std l (bits ++ rest) = Some (cs, rest).
  Proof.
    intros Hb Hl Hu. unfold uper_km in Hu. unfold uper_km_dec. unfold ext_used in Hext.
    destruct (size_con l) as [lo hi ext]. cbv zeta in *.
    set (eb := match hi with Some h => h <? 65536 | None => false end) in *.
    destruct eb eqn:Eeb.
    - destruct (in_scon (SCon lo hi ext) (zlen cs)) eqn:Ein.
      + (* constrained length, size in the root *)
        destruct hi as [h|]; [|discriminate].
        destruct (put_chars std l false cs) as [items|] eqn:Ep; [|discriminate].
        pose proof (put_chars_inv false Hroot cs items Hb Hl Ep) as HF.
        cbn [in_scon] in Ein.
        assert (Hget : forall r, get_bits (range_bits (h - lo + 1))
                  (nbits (range_bits (h - lo + 1)) (zlen cs - lo) ++ r) = Some (zlen cs - lo, r))
          by (intros r; apply get_bits_range; lia).
        destruct ext; injection Hu as <-; cbn [app]; rewrite <- app_assoc, Hget;
          replace (zlen cs - lo + lo) with (Z.of_nat (length cs)) by (unfold zlen; lia);
          rewrite Nat2Z.id; apply get_items_rt; exact HF.
      + (* outside the root of an extensible SIZE *)
        destruct ext; [|discriminate].
        destruct (put_chars std l true cs) as [items|] eqn:Ep; [|discriminate].
        assert (Hx : pair_ok cub (w_ext std l) (pc_ext std l) = true).
        { apply Hext. cbn [andb]. apply orb_true_r. }
        pose proof (put_chars_inv true Hx cs items Hb Hl Ep) as HF.
        injection Hu as <-. cbn [app]. apply counted_rt. exact HF.
    - destruct (std && ext && negb (in_scon (SCon lo hi ext) (zlen cs))) eqn:Es.
      + apply andb_true_iff in Es. destruct Es as [Es _].
        apply andb_true_iff in Es. destruct Es as [Estd Eext]. subst ext.
        destruct (put_chars std l true cs) as [items|] eqn:Ep; [|discriminate].
        assert (Hx : pair_ok cub (w_ext std l) (pc_ext std l) = true).
        { apply Hext. rewrite Estd. reflexivity. }
        pose proof (put_chars_inv true Hx cs items Hb Hl Ep) as HF.
        injection Hu as <-. cbn [app]. apply counted_rt. exact HF.
      + destruct (put_chars std l false cs) as [items|] eqn:Ep; [|discriminate].
        pose proof (put_chars_inv false Hroot cs items Hb Hl Ep) as HF.
        destruct ext; injection Hu as <-; cbn [app]; apply counted_rt; exact HF.
  Qed.
End Leaf.

(* the main theorem of the leaf: the reader returns the octets of the value and leaves exactly
   what followed the encoding *)
Theorem uper_leaf_rt : forall std l bs bits rest,
  wf_leaf std l = true -> bytes_ok bs -> uper_leaf std l bs = Some bits ->
  uper_leaf_dec std l (bits ++ rest) = Some (bs, rest).
Proof.
  intros std l bs bits rest Hwf Hb Hu. unfold uper_leaf in Hu. unfold uper_leaf_dec.
  unfold wf_leaf in Hwf.
  destruct (known_mult (s_k l)) eqn:Ek.
  - cbn [negb orb] in Hwf. apply andb_true_iff in Hwf. destruct Hwf as [Hroot Hext].
    destruct (chunks (s_k l) bs) as [cs|] eqn:Ec; [|discriminate].
    destruct (chunks_spec _ _ _ Ec) as [Hcat Hlen].
    pose proof (chunks_bytes_ok _ _ _ Ec Hb) as Hcb.
    assert (Hext' : ext_used std l = true -> pair_ok (cub_of (s_k l)) (w_ext std l) (pc_ext std l) = true).
    { intros E. rewrite E in Hext. exact Hext. }
    rewrite (uper_km_rt std l Hroot Hext' cs bits rest Hcb Hlen Hu). rewrite Hcat. reflexivity.
  - apply (sized_rt get_octet (SCon 0 None false) bs _ bits rest (octets_inv bs Hb) Hu).
Qed.

(* the condition is met by every string type of the family without a permitted-alphabet
   constraint, whatever its SIZE constraint, in both readings - except, in the C's reading, the
   NumericString without any constraint *)
Lemma wf_leaf_intro std l :
  pair_ok (cub_of (s_k l)) (w_root std l) (pc_root std l) = true ->
  pair_ok (cub_of (s_k l)) (w_ext std l) (pc_ext std l) = true -> wf_leaf std l = true.
Proof. intros H1 H2. unfold wf_leaf. rewrite H1, H2. rewrite !orb_true_r. reflexivity. Qed.

Theorem wf_leaf_no_from : forall std tg k sz,
  std = true \/ k <> KNumeric \/ sz <> None -> wf_leaf std (Str tg k sz None) = true.
Proof.
  intros std tg k sz H.
  destruct std, k, sz as [[lo hi e]|];
    try (apply wf_leaf_intro; reflexivity); try reflexivity.
  destruct H as [H|[H|H]]; congruence.
Qed.

(* ------------------------------------------------------------------ (e) DER / BER and OER *)

(* the top level of every shape is not OPTIONAL *)
Lemma der_ty_not_opt t : not_opt (der_ty t) = true.
Proof. destruct t as [e l|tg ms|tg s e l]; [destruct e|..]; reflexivity. Qed.

Lemma oer_ty_not_opt t : not_opt (oer_ty t) = true.
Proof. destruct t as [e l|tg ms|tg s e l]; [destruct e|..]; reflexivity. Qed.

Lemma opt_ok_not_opt t v rest : not_opt t = true -> DerProofs.opt_ok t v rest.
Proof. intros H. destruct t; cbn in *; try exact I. discriminate. Qed.

Theorem pb_der_roundtrip_in_stream : forall t v bs rest,
  wf_ty (der_ty t) = true -> wt (der_ty t) v = true -> pb_der t v = Some bs ->
  zlen bs <= rssize_max -> pb_ber_dec t (bs ++ rest) = Some (v, rest).
Proof.
  intros t v bs rest Hwf Hwt Hd Hl. unfold pb_der in Hd. unfold pb_ber_dec.
  apply (der_decodes_all (der_ty t) v bs rest Hwf Hwt Hd Hl).
  apply opt_ok_not_opt. apply der_ty_not_opt.
Qed.

Theorem pb_der_roundtrip : forall t v bs,
  wf_ty (der_ty t) = true -> wt (der_ty t) v = true -> pb_der t v = Some bs ->
  zlen bs <= rssize_max -> pb_ber_decode t bs = Some (v, zlen bs).
Proof.
  intros t v bs Hwf Hwt Hd Hl. unfold pb_der in Hd. unfold pb_ber_decode.
  apply der_roundtrip; try assumption. apply der_ty_not_opt.
Qed.

Theorem pb_oer_roundtrip_in_stream : forall t v bs rest,
  wf_ty_oer (oer_ty t) = true -> wt_oer (oer_ty t) v = true -> pb_oer t v = Some bs ->
  pb_oer_dec t (bs ++ rest) = Some (v, rest).
Proof.
  intros t v bs rest Hwf Hwt Hd. unfold pb_oer in Hd. unfold pb_oer_dec.
  apply oer_roundtrip_in_stream; try assumption. apply oer_ty_not_opt.
Qed.

(* ------------------------------------------------------------------ (d) the container shapes, PER *)

Definition voct_ok (v : val) : bool := match v with VOct bs => bytes_okb bs | _ => false end.

(* members: those of the base algebra as in UperProofs (for TOpt t' this is wf_u t' and t' not
   OPTIONAL), string members: the leaf condition *)
Definition wf_mem_uper (std : bool) (m : smem) : bool :=
  match m with
  | MBase t => wf_u t
  | MStr _ _ l => wf_leaf std l
  end.

Definition wf_sty_uper (std : bool) (t : sty) : bool :=
  match t with
  | SStr _ l => wf_leaf std l
  | SSeq _ ms => forallb (wf_mem_uper std) ms
  | SSeqOf _ _ _ l => wf_leaf std l
  end.

Definition wt_mem_uper (std : bool) (m : smem) (v : val) : bool :=
  match m with
  | MBase t => wt_uper std t v
  | MStr _ false _ => voct_ok v
  | MStr _ true _ => match v with VNone => true | VSome v' => voct_ok v' | _ => false end
  end.

Fixpoint wt_mems_uper (std : bool) (ms : list smem) (vs : list val) : bool :=
  match ms, vs with
  | [], [] => true
  | m :: ms', v :: vs' => wt_mem_uper std m v && wt_mems_uper std ms' vs'
  | _, _ => false
  end.

Definition wt_sty_uper (std : bool) (t : sty) (v : val) : bool :=
  match t, v with
  | SStr _ _, _ => voct_ok v
  | SSeq _ ms, VSeq vs => wt_mems_uper std ms vs
  | SSeqOf _ _ _ _, VList vs => forallb voct_ok vs
  | _, _ => false
  end.

Section Shapes.
  Variable std : bool.

  Lemma uper_lv_rt l v bits rest : wf_leaf std l = true -> voct_ok v = true ->
    uper_lv std l v = Some bits -> uper_lv_dec std l (bits ++ rest) = Some (v, rest).
  Proof.
    intros Hwf Hv Hu. destruct v; try discriminate. cbn [voct_ok] in Hv. cbn [uper_lv] in Hu.
    apply bytes_okb_spec in Hv. unfold uper_lv_dec.
    rewrite (uper_leaf_rt std l bs bits rest Hwf Hv Hu). reflexivity.
  Qed.

  Lemma dec_mem_base t bits : dec_mem std (MBase t) bits = uper_dec std t bits.
  Proof. destruct t; reflexivity. Qed.

  Lemma mems_rt : forall ms vs body rest,
    forallb (wf_mem_uper std) ms = true -> wt_mems_uper std ms vs = true ->
    enc_mems std ms vs = Some body ->
    dec_mems std ms (s_presence ms vs) (body ++ rest) = Some (vs, rest) /\
    length (s_presence ms vs) = length (filter m_opt ms).
  Proof.
    induction ms as [|m ms' IH]; intros vs body rest Hwf Hwt He;
      destruct vs as [|v vs']; cbn [enc_mems] in He; try discriminate.
    - injection He as <-. split; reflexivity.
    - cbn [forallb] in Hwf. apply andb_true_iff in Hwf. destruct Hwf as [Hw Hwr].
      cbn [wt_mems_uper] in Hwt. apply andb_true_iff in Hwt. destruct Hwt as [Hwt1 Hwtr].
      destruct (enc_mem std m v) as [a|] eqn:Ea; [|discriminate].
      destruct (enc_mems std ms' vs') as [b|] eqn:Eb; [|discriminate]. injection He as <-.
      destruct (IH vs' b rest Hwr Hwtr Eb) as [IH1 IH2].
      rewrite <- app_assoc. cbn [s_presence filter dec_mems].
      destruct m as [t|e o l].
      + (* a member of the base algebra *)
        cbn [wf_mem_uper] in Hw. cbn [wt_mem_uper] in Hwt1. cbn [enc_mem] in Ea. cbn [m_opt].
        destruct (is_opt t) eqn:Eo.
        * destruct t; try discriminate.
          cbn [wf_u] in Hw. apply andb_true_iff in Hw. destruct Hw as [Hw1 Hw2].
          destruct v; cbn [uper] in Ea; try discriminate.
          -- injection Ea as <-. cbn [app]. rewrite IH1.
             split; [reflexivity|cbn [length]; lia].
          -- cbn [wt_uper] in Hwt1. cbn [app dec_mem].
             assert (Hwft : wf_ty_uper t = true) by (unfold wf_ty_uper; rewrite Hw1, Hw2; reflexivity).
             rewrite (uper_roundtrip_in_stream std t v a (b ++ rest) Hwft Hwt1 Ea). rewrite IH1.
             split; [reflexivity|cbn [length]; lia].
        * cbn [app]. rewrite dec_mem_base.
          assert (Hwft : wf_ty_uper t = true) by (unfold wf_ty_uper; rewrite Hw, Eo; reflexivity).
          rewrite (uper_roundtrip_in_stream std t v a (b ++ rest) Hwft Hwt1 Ea). rewrite IH1.
          split; [reflexivity|exact IH2].
      + (* a string member *)
        cbn [wf_mem_uper] in Hw. cbn [m_opt]. destruct o.
        * cbn [wt_mem_uper] in Hwt1. cbn [enc_mem] in Ea.
          destruct v; try discriminate.
          -- injection Ea as <-. cbn [app]. rewrite IH1.
             split; [reflexivity|cbn [length]; lia].
          -- cbn [app dec_mem]. rewrite (uper_lv_rt l v a (b ++ rest) Hw Hwt1 Ea). rewrite IH1.
             split; [reflexivity|cbn [length]; lia].
        * cbn [wt_mem_uper] in Hwt1. cbn [enc_mem] in Ea. cbn [app dec_mem].
          rewrite (uper_lv_rt l v a (b ++ rest) Hw Hwt1 Ea). rewrite IH1.
          split; [reflexivity|exact IH2].
  Qed.

  Lemma str_elems_inv l : wf_leaf std l = true -> forall vs es,
    forallb voct_ok vs = true -> option_all (map (uper_lv std l) vs) = Some es ->
    Forall2 (inv (uper_lv_dec std l)) vs es.
  Proof.
    intros Hwf. induction vs as [|v vs' IH]; intros es Hwt Ho.
    - cbn in Ho. injection Ho as <-. constructor.
    - cbn [map option_all] in Ho.
      destruct (uper_lv std l v) as [a|] eqn:Ea; [|discriminate].
      destruct (option_all (map (uper_lv std l) vs')) as [es'|] eqn:Eo; [|discriminate].
      injection Ho as <-.
      cbn [forallb] in Hwt. apply andb_true_iff in Hwt. destruct Hwt as [Hwt1 Hwtr].
      constructor; [|apply IH; [exact Hwtr|reflexivity]].
      intros r. apply uper_lv_rt; assumption.
  Qed.
End Shapes.

(* C01 for unaligned PER on the three shapes, in a stream *)
Theorem pb_uper_roundtrip_in_stream : forall std t v bits rest,
  wf_sty_uper std t = true -> wt_sty_uper std t v = true -> pb_uper std t v = Some bits ->
  pb_uper_dec std t (bits ++ rest) = Some (v, rest).
Proof.
  intros std t v bits rest Hwf Hwt Hu. destruct t as [e l|tg ms|tg s e l].
  - cbn [wf_sty_uper] in Hwf. cbn [wt_sty_uper] in Hwt. cbn [pb_uper] in Hu. cbn [pb_uper_dec].
    apply uper_lv_rt; assumption.
  - destruct v; try discriminate. cbn [wf_sty_uper] in Hwf. cbn [wt_sty_uper] in Hwt.
    cbn [pb_uper] in Hu.
    destruct (enc_mems std ms vs) as [body|] eqn:Eb; [|discriminate]. injection Hu as <-.
    destruct (mems_rt std ms vs body rest Hwf Hwt Eb) as [H1 H2].
    cbn [pb_uper_dec]. rewrite <- app_assoc. rewrite <- H2. rewrite take_bits_app.
    rewrite H1. reflexivity.
  - destruct v; try discriminate. cbn [wf_sty_uper] in Hwf. cbn [wt_sty_uper] in Hwt.
    cbn [pb_uper] in Hu.
    destruct (option_all (map (uper_lv std l) vs)) as [es|] eqn:Eo; [|discriminate].
    pose proof (str_elems_inv std l Hwf vs es Hwt Eo) as HF.
    cbn [pb_uper_dec]. rewrite (sized_rt (uper_lv_dec std l) s vs es bits rest HF Hu). reflexivity.
Qed.

Local Ltac Zify.zify_post_hook ::= Z.to_euclidean_division_equations.

(* complete encodings: the value comes back and exactly the octets produced (at least one) are
   consumed *)
Theorem pb_uper_decode_roundtrip : forall std t v bytes,
  wf_sty_uper std t = true -> wt_sty_uper std t v = true -> pb_uper_encode std t v = Some bytes ->
  pb_uper_decode std t bytes = Some (v, zlen bytes) /\ 1 <= zlen bytes.
Proof.
  intros std t v bytes Hwf Hwt He. unfold pb_uper_encode in He.
  destruct (pb_uper std t v) as [bits|] eqn:Eu; [|discriminate].
  unfold pb_uper_decode.
  destruct bits as [|b0 tl] eqn:Ebits.
  - injection He as <-.
    pose proof (pb_uper_roundtrip_in_stream std t v [] (bytes_bits [0]) Hwf Hwt Eu) as Hr.
    cbn [app] in Hr. rewrite Hr. rewrite Z.sub_diag. split; reflexivity.
  - rewrite <- Ebits in *. injection He as <-.
    destruct (bits_to_bytes_spec bits) as [Hb Hl]. rewrite Hb, Hl.
    rewrite (pb_uper_roundtrip_in_stream std t v bits _ Hwf Hwt Eu).
    rewrite zlen_app.
    assert (Hpos : 1 <= zlen bits) by (rewrite Ebits, zlen_cons; pose proof (zlen_nonneg tl); lia).
    split; [|lia]. f_equal. f_equal. lia.
Qed.

(* ------------------------------------------------------------------ (f) the hypotheses are met *)

(* SEQUENCE { a IA5String (SIZE(1..5,...)), b [0] EXPLICIT NumericString (FROM("0".."9")) OPTIONAL,
              c BOOLEAN } *)
Definition ex_sty : sty :=
  SSeq 64 [ MStr [] false (Str 88 KIA5 (Some (SCon 1 (Some 5) true)) None);
            MStr [2] true (Str 72 KNumeric None (Some [(48, 57)]));
            MBase (TBool 4) ].

(* { a "Hi", b "42", c TRUE } *)
Definition ex_sval : val := VSeq [VOct [72; 105]; VSome (VOct [52; 50]); VBool true].
(* { a "HiHiHi" (outside the root of the SIZE), c FALSE } *)
Definition ex_sval6 : val := VSeq [VOct [72; 105; 72; 105; 72; 105]; VNone; VBool false].

Example ex_s_meets_hypotheses :
  wf_sty_uper false ex_sty = true /\ wf_sty_uper true ex_sty = true /\
  wt_sty_uper false ex_sty ex_sval = true /\ wt_sty_uper true ex_sty ex_sval = true /\
  wt_sty_uper false ex_sty ex_sval6 = true /\ wt_sty_uper true ex_sty ex_sval6 = true.
Proof. vm_compute. repeat split. Qed.

(* presence 1 | in the root 0 | size - 1 in 3 bits | 'H' 'i' in 7 bits each | length 2 in 8 bits |
   '4' - '0', '2' - '0' in 4 bits each | TRUE *)
Example ex_s_uper :
  pb_uper false ex_sty ex_sval =
    Some [true;  false;  false; false; true;
          true; false; false; true; false; false; false;   true; true; false; true; false; false; true;
          false; false; false; false; false; false; true; false;
          false; true; false; false;   false; false; true; false;   true] /\
  pb_uper true ex_sty ex_sval = pb_uper false ex_sty ex_sval /\
  pb_uper_encode false ex_sty ex_sval = Some [140; 141; 32; 72; 80].
Proof. vm_compute. repeat split. Qed.

Example ex_s_uper_decodes :
  (exists bits, pb_uper false ex_sty ex_sval = Some bits /\
                pb_uper_dec false ex_sty bits = Some (ex_sval, [])) /\
  pb_uper_decode false ex_sty [140; 141; 32; 72; 80] = Some (ex_sval, 5).
Proof. split; [eexists; split|]; vm_compute; reflexivity. Qed.

(* outside the root the two readings differ (8 bits per character in the C, 7 in X.691 30.4);
   each reader inverts its writer *)
Example ex_s_uper_ext_decodes :
  (exists bits, pb_uper false ex_sty ex_sval6 = Some bits /\ length bits = 59%nat /\
                pb_uper_dec false ex_sty bits = Some (ex_sval6, [])) /\
  (exists bits, pb_uper true ex_sty ex_sval6 = Some bits /\ length bits = 53%nat /\
                pb_uper_dec true ex_sty bits = Some (ex_sval6, [])).
Proof. split; eexists; (split; [|split]); vm_compute; reflexivity. Qed.

Example ex_s_der_oer :
  wf_ty (der_ty ex_sty) = true /\ wt (der_ty ex_sty) ex_sval = true /\
  pb_der ex_sty ex_sval = Some [48; 13; 22; 2; 72; 105; 160; 4; 18; 2; 52; 50; 1; 1; 255] /\
  pb_ber_decode ex_sty [48; 13; 22; 2; 72; 105; 160; 4; 18; 2; 52; 50; 1; 1; 255] = Some (ex_sval, 15) /\
  wf_ty_oer (oer_ty ex_sty) = true /\ wt_oer (oer_ty ex_sty) ex_sval = true /\
  pb_oer ex_sty ex_sval = Some [128; 2; 72; 105; 2; 52; 50; 255] /\
  pb_oer_dec ex_sty [128; 2; 72; 105; 2; 52; 50; 255] = Some (ex_sval, []).
Proof. vm_compute. repeat split. Qed.

Print Assumptions uper_leaf_rt.
Print Assumptions uper_leaf_numeric_plain_refuted.
Print Assumptions wf_leaf_no_from.
Print Assumptions pb_uper_roundtrip_in_stream.
Print Assumptions pb_uper_decode_roundtrip.
Print Assumptions pb_der_roundtrip_in_stream.
Print Assumptions pb_der_roundtrip.
Print Assumptions pb_oer_roundtrip_in_stream.
